import Rare.Spec.C20
/-! C20 helper lemmas: Go's UTF-8 decoding / encoding. -/
namespace Rare.C20

theorem decodeFuel_fuel : ∀ (f g : Nat) (bs : Bytes), bs.length ≤ f → bs.length ≤ g →
    decodeFuel f bs = decodeFuel g bs := by
  intro f
  induction f with
  | zero =>
    intro g bs hf _
    have : bs = [] := List.eq_nil_of_length_eq_zero (by omega)
    subst this
    cases g <;> simp [decodeFuel]
  | succ f ih =>
    intro g bs hf hg
    cases bs with
    | nil => cases g <;> simp [decodeFuel]
    | cons b tl =>
      cases g with
      | zero => simp at hg
      | succ g =>
        simp only [decodeFuel]
        congr 1
        apply ih
        · simp at hf ⊢; omega
        · simp at hg ⊢; omega

theorem decodeUtf8_nil : decodeUtf8 [] = [] := rfl

theorem decodeUtf8_cons (b : UInt8) (tl : Bytes) :
    decodeUtf8 (b :: tl) = (decode1 (b :: tl)).1 :: decodeUtf8 (tl.drop ((decode1 (b :: tl)).2 - 1)) := by
  simp only [decodeUtf8, List.length_cons, decodeFuel]
  congr 1
  apply decodeFuel_fuel
  · simp
  · simp

/-- `a` is self-delimiting: decoding never runs across its end -/
def Clean (a : Bytes) : Prop := ∀ b, decodeUtf8 (a ++ b) = decodeUtf8 a ++ decodeUtf8 b

theorem Clean.nil : Clean [] := by intro b; simp [decodeUtf8_nil]

theorem Clean.append {a c : Bytes} (ha : Clean a) (hc : Clean c) : Clean (a ++ c) := by
  intro b
  rw [List.append_assoc, ha, hc, ha c, List.append_assoc]

theorem decodeUtf8_ascii (x : UInt8) (h : x.toNat < 0x80) (b : Bytes) :
    decodeUtf8 (x :: b) = x.toNat :: decodeUtf8 b := by
  rw [decodeUtf8_cons]
  simp [decode1, h]

theorem Clean.ascii1 (x : UInt8) (h : x.toNat < 0x80) : Clean [x] := by
  intro b
  simp [decodeUtf8_ascii x h, decodeUtf8_nil]

/-- every byte below 0x80 -/
def IsAscii (a : Bytes) : Prop := ∀ x ∈ a, x.toNat < 0x80

theorem decodeUtf8_asciiList (a : Bytes) (h : IsAscii a) (b : Bytes) :
    decodeUtf8 (a ++ b) = a.map (·.toNat) ++ decodeUtf8 b := by
  induction a with
  | nil => simp
  | cons x a ih =>
    have hx := h x (by simp)
    have ha : IsAscii a := fun y hy => h y (by simp [hy])
    simp [decodeUtf8_ascii x hx, ih ha]

theorem Clean.asciiList (a : Bytes) (h : IsAscii a) : Clean a := by
  intro b
  have h0 := decodeUtf8_asciiList a h []
  simp [decodeUtf8_nil] at h0
  rw [decodeUtf8_asciiList a h b, h0]

theorem decodeUtf8_of_ascii (a : Bytes) (h : IsAscii a) : decodeUtf8 a = a.map (·.toNat) := by
  have h0 := decodeUtf8_asciiList a h []
  simpa [decodeUtf8_nil] using h0

theorem toNat_ofNat_lt (n : Nat) (h : n < 256) : (UInt8.ofNat n).toNat = n := by
  simp [UInt8.toNat_ofNat']; omega

/-- decoding what `encodeRune` wrote gives the rune back, whatever follows -/
theorem decodeUtf8_encodeRune (r : Nat) (h : validScalar r) (b : Bytes) :
    decodeUtf8 (encodeRune r ++ b) = r :: decodeUtf8 b := by
  unfold validScalar at h
  unfold encodeRune
  by_cases h1 : r < 0x80
  · simp only [h1, if_true, List.cons_append, List.nil_append]
    rw [decodeUtf8_ascii _ (by rw [toNat_ofNat_lt r (by omega)]; exact h1)]
    rw [toNat_ofNat_lt r (by omega)]
  · by_cases h2 : r < 0x800
    · simp only [h1, h2, if_true, if_false, List.cons_append, List.nil_append]
      rw [decodeUtf8_cons]
      have e0 : (UInt8.ofNat (0xC0 + r / 64)).toNat = 0xC0 + r / 64 := toNat_ofNat_lt _ (by omega)
      have e1 : (UInt8.ofNat (0x80 + r % 64)).toNat = 0x80 + r % 64 := toNat_ofNat_lt _ (by omega)
      have c1 : ¬ (0xC0 + r / 64 < 0x80) := by omega
      have c2 : 0xC2 ≤ 0xC0 + r / 64 ∧ 0xC0 + r / 64 ≤ 0xDF ∧ isCont (0x80 + r % 64) = true := by
        refine ⟨by omega, by omega, ?_⟩
        simp [isCont]; omega
      simp only [decode1, e0, e1, c1, if_false, c2, and_self, if_true]
      have e : (192 + r / 64 - 192) * 64 + (128 + r % 64 - 128) = r := by omega
      rw [e]; simp
    · have h3 : ¬ ((0xD800 ≤ r ∧ r < 0xE000) ∨ 0x110000 ≤ r) := by omega
      by_cases h4 : r < 0x10000
      · simp only [h1, h2, h3, h4, if_true, if_false, List.cons_append, List.nil_append]
        rw [decodeUtf8_cons]
        have e0 : (UInt8.ofNat (0xE0 + r / 4096)).toNat = 0xE0 + r / 4096 := toNat_ofNat_lt _ (by omega)
        have e1 : (UInt8.ofNat (0x80 + r / 64 % 64)).toNat = 0x80 + r / 64 % 64 := toNat_ofNat_lt _ (by omega)
        have e2 : (UInt8.ofNat (0x80 + r % 64)).toNat = 0x80 + r % 64 := toNat_ofNat_lt _ (by omega)
        have c1 : ¬ (0xE0 + r / 4096 < 0x80) := by omega
        have c2 : ¬ (0xC2 ≤ 0xE0 + r / 4096 ∧ 0xE0 + r / 4096 ≤ 0xDF ∧ isCont (0x80 + r / 64 % 64) = true) := by omega
        have c3 : 0xE0 ≤ 0xE0 + r / 4096 ∧ 0xE0 + r / 4096 ≤ 0xEF ∧ accLo (0xE0 + r / 4096) ≤ 0x80 + r / 64 % 64 ∧
            0x80 + r / 64 % 64 ≤ accHi (0xE0 + r / 4096) ∧ isCont (0x80 + r % 64) = true := by
          refine ⟨by omega, by omega, ?_, ?_, ?_⟩
          · unfold accLo; split
            · omega
            · split <;> omega
          · unfold accHi; split
            · omega
            · split <;> omega
          · simp [isCont]; omega
        simp only [decode1, e0, e1, e2, c1, if_false, c2, c3, and_self, if_true]
        have e : (224 + r / 4096 - 224) * 4096 + (128 + r / 64 % 64 - 128) * 64 + (128 + r % 64 - 128) = r := by omega
        rw [e]; simp
      · simp only [h1, h2, h3, h4, if_true, if_false, List.cons_append, List.nil_append]
        rw [decodeUtf8_cons]
        have e0 : (UInt8.ofNat (0xF0 + r / 262144)).toNat = 0xF0 + r / 262144 := toNat_ofNat_lt _ (by omega)
        have e1 : (UInt8.ofNat (0x80 + r / 4096 % 64)).toNat = 0x80 + r / 4096 % 64 := toNat_ofNat_lt _ (by omega)
        have e2 : (UInt8.ofNat (0x80 + r / 64 % 64)).toNat = 0x80 + r / 64 % 64 := toNat_ofNat_lt _ (by omega)
        have e3 : (UInt8.ofNat (0x80 + r % 64)).toNat = 0x80 + r % 64 := toNat_ofNat_lt _ (by omega)
        have c1 : ¬ (0xF0 + r / 262144 < 0x80) := by omega
        have c2 : ¬ (0xC2 ≤ 0xF0 + r / 262144 ∧ 0xF0 + r / 262144 ≤ 0xDF ∧ isCont (0x80 + r / 4096 % 64) = true) := by omega
        have c3 : ¬ (0xE0 ≤ 0xF0 + r / 262144 ∧ 0xF0 + r / 262144 ≤ 0xEF ∧ accLo (0xF0 + r / 262144) ≤ 0x80 + r / 4096 % 64 ∧
            0x80 + r / 4096 % 64 ≤ accHi (0xF0 + r / 262144) ∧ isCont (0x80 + r / 64 % 64) = true) := by omega
        have c4 : 0xF0 ≤ 0xF0 + r / 262144 ∧ 0xF0 + r / 262144 ≤ 0xF4 ∧ accLo (0xF0 + r / 262144) ≤ 0x80 + r / 4096 % 64 ∧
            0x80 + r / 4096 % 64 ≤ accHi (0xF0 + r / 262144) ∧ isCont (0x80 + r / 64 % 64) = true ∧ isCont (0x80 + r % 64) = true := by
          refine ⟨by omega, by omega, ?_, ?_, ?_, ?_⟩
          · unfold accLo; split
            · omega
            · split <;> omega
          · unfold accHi; split
            · omega
            · split <;> omega
          · simp [isCont]; omega
          · simp [isCont]; omega
        have c3a : ¬ (0xF0 + r / 262144 ≤ 0xEF) := by omega
        simp only [decode1, e0, e1, e2, e3, c1, if_false, c2, c3a, false_and, and_false, c4, and_self, if_true]
        have e : (240 + r / 262144 - 240) * 262144 + (128 + r / 4096 % 64 - 128) * 4096 + (128 + r / 64 % 64 - 128) * 64 + (128 + r % 64 - 128) = r := by omega
        rw [e]; simp

theorem decodeUtf8_encodeUtf8_append (rs : List Nat) (h : ∀ r ∈ rs, validScalar r) (b : Bytes) :
    decodeUtf8 (encodeUtf8 rs ++ b) = rs ++ decodeUtf8 b := by
  induction rs with
  | nil => simp [encodeUtf8]
  | cons r rs ih =>
    have hr := h r (by simp)
    have hrs : ∀ x ∈ rs, validScalar x := fun x hx => h x (by simp [hx])
    have : encodeUtf8 (r :: rs) ++ b = encodeRune r ++ (encodeUtf8 rs ++ b) := by simp [encodeUtf8]
    rw [this, decodeUtf8_encodeRune r hr, ih hrs]; simp

theorem decodeUtf8_encodeUtf8 (rs : List Nat) (h : ∀ r ∈ rs, validScalar r) :
    decodeUtf8 (encodeUtf8 rs) = rs := by
  have := decodeUtf8_encodeUtf8_append rs h []
  simpa [decodeUtf8_nil] using this

theorem Clean.encode (rs : List Nat) (h : ∀ r ∈ rs, validScalar r) : Clean (encodeUtf8 rs) := by
  intro b
  rw [decodeUtf8_encodeUtf8_append rs h, decodeUtf8_encodeUtf8 rs h]

theorem validScalar_runeError : validScalar runeError := by unfold validScalar runeError; omega

theorem decode1_valid (bs : Bytes) : validScalar (decode1 bs).1 := by
  unfold decode1
  split
  · exact validScalar_runeError
  · rename_i b0 tl
    have hx := UInt8.toNat_lt b0
    (try simp only)
    split
    · unfold validScalar; omega
    · split
      · exact validScalar_runeError
      · rename_i b1 tl1
        have hy := UInt8.toNat_lt b1
        (try simp only)
        split
        · rename_i hc
          simp only [isCont, Bool.and_eq_true, decide_eq_true_eq] at hc
          unfold validScalar; omega
        · split
          · exact validScalar_runeError
          · rename_i b2 tl2
            have hz := UInt8.toNat_lt b2
            (try simp only)
            split
            · rename_i hc
              simp only [isCont, Bool.and_eq_true, decide_eq_true_eq, accLo, accHi] at hc
              unfold validScalar
              split at hc <;> split at hc <;> (try split at hc) <;> (try split at hc) <;> omega
            · split
              · exact validScalar_runeError
              · rename_i b3 tl3
                have hw := UInt8.toNat_lt b3
                (try simp only)
                split
                · rename_i hc
                  simp only [isCont, Bool.and_eq_true, decide_eq_true_eq, accLo, accHi] at hc
                  unfold validScalar
                  split at hc <;> split at hc <;> (try split at hc) <;> (try split at hc) <;> omega
                · exact validScalar_runeError

theorem decodeFuel_valid : ∀ (f : Nat) (bs : Bytes), ∀ r ∈ decodeFuel f bs, validScalar r := by
  intro f
  induction f with
  | zero => intro bs r h; simp [decodeFuel] at h
  | succ f ih =>
    intro bs r h
    cases bs with
    | nil => simp [decodeFuel] at h
    | cons b tl =>
      simp only [decodeFuel, List.mem_cons] at h
      rcases h with h | h
      · rw [h]; exact decode1_valid _
      · exact ih _ r h

theorem decodeUtf8_valid (b : Bytes) : ∀ r ∈ decodeUtf8 b, validScalar r := decodeFuel_valid _ _

end Rare.C20
