import Rare.Model.C09Err
import Rare.Proofs.C09Lookup
import Rare.Proofs.C09Gen
/-! C09: facts about the error rendering (`errors.go`) and the recording context. -/
namespace Rare.C09
open Rare Rare.Expr

/-- The recording run is the plain run against `recCtx`, plus the log. -/
theorem runLog_run {α : Type} (c : Comp α) : ∀ (log : List Look) (v : α) (log' : List Look),
    runLog c log = .ok (v, log') → c.run recCtx = .ok v := by
  induction c with
  | ret a => intro log v log' h; simp only [runLog, Except.ok.injEq, Prod.mk.injEq] at h; rw [Comp.run, h.1]
  | getMatch i k ih => intro log v log' h; rw [runLog] at h; rw [Comp.run]; exact ih _ _ _ _ h
  | getKey s k ih => intro log v log' h; rw [runLog] at h; rw [Comp.run]; exact ih _ _ _ _ h
  | panic m => intro log v log' h; simp [runLog] at h

theorem runLog_simpleVariable (a : List Char) :
    runLog (buildKey [stageSimpleVariable a]) [] =
      .ok (match atoi (utf8 a) with
        | some i => (lookAnswer (.m i), [Look.m i])
        | none => (lookAnswer (.k (utf8 a)), [Look.k (utf8 a)])) := by
  unfold buildKey concatStages stageSimpleVariable
  rw [utf8_eq]
  cases atoi (utf8 a) <;> simp [concatStages, Comp.match_, Comp.key, bind, Comp.bind, runLog, pure]

theorem infix_flatMap {α β : Type} (f : α → List β) (l : List α) (a : α) (h : a ∈ l) : f a <:+: l.flatMap f := by
  induction l with
  | nil => cases h
  | cons x r ih =>
    rw [List.flatMap_cons]
    rcases List.mem_cons.mp h with rfl | h'
    · exact (List.prefix_append _ _).isInfix
    · exact (ih h').trans (List.suffix_append _ _).isInfix

theorem detailed_infix (funcMsg : String → String) (expr : Bytes) (errs : List CErr) (e : CErr) (he : e ∈ errs) :
    detailedError funcMsg e <:+: compilerErrorsError funcMsg expr errs := by
  have hmulti : detailedError funcMsg e <:+:
      strBytes "Compiler Errors in: `" ++ expr ++ strBytes "`\n" ++
        errs.flatMap (fun e => strBytes "  " ++ detailedError funcMsg e ++ strBytes "\n") := by
    have h1 : (strBytes "  " ++ detailedError funcMsg e ++ strBytes "\n") <:+:
        errs.flatMap (fun e => strBytes "  " ++ detailedError funcMsg e ++ strBytes "\n") :=
      infix_flatMap (fun e => strBytes "  " ++ detailedError funcMsg e ++ strBytes "\n") errs e he
    have h0 : detailedError funcMsg e <:+: (strBytes "  " ++ detailedError funcMsg e ++ strBytes "\n") :=
      ⟨strBytes "  ", strBytes "\n", rfl⟩
    exact (h0.trans h1).trans (List.suffix_append _ _).isInfix
  unfold compilerErrorsError
  split
  · next e' =>
    have : e = e' := by simpa using he
    subst this; exact List.infix_refl _
  · exact hmulti

end Rare.C09
