import Rare.Proofs.C09Print
import Rare.Proofs.C10
/-!
C09 × C10: a printed expression tree compiles – with the optimiser ON or OFF – to stages that evaluate
as the tree dictates.

The optimiser-off half is `Rare/Proofs/C09Print.lean`.  What the optimiser adds is `optimize` after the
rune loop of every (nested) `Compile`; C10's `optimize_preserves` says that this keeps the built key,
*provided `optimize` returns*, i.e. provided probing no stage panics.  A stage that evaluates in every
context evaluates in particular against the all-empty probing context, so `optimize` returns
(`optimize_ok_of_run`).  The registry hypothesis is semantic (`Implements`): the builder of every
function called in the tree returns, for argument stages that evaluate, a stage that evaluates to the
function's value – it need not be syntactically `pureBuilder`, may evaluate lazily (`if`), may fold
constants itself.
-/
namespace Rare.C09
open Rare Rare.Expr

/-! ### probing = running against the empty context -/

theorem probeN_of_run {α : Type} (c : Comp α) : ∀ (n : Nat) (a : α), c.run emptyCtx = .ok a →
    ∃ m, c.probeN n = .ok (a, m) := by
  induction c with
  | ret x => intro n a h; simp only [Comp.run, Except.ok.injEq] at h; exact ⟨n, by simp [Comp.probeN, h]⟩
  | getMatch i k ih => intro n a h; exact ih _ _ _ h
  | getKey s k ih => intro n a h; exact ih _ _ _ h
  | panic m => intro n a h; simp [Comp.run] at h

theorem probe_of_run {α : Type} (c : Comp α) (a : α) (h : c.run emptyCtx = .ok a) :
    ∃ b, c.probe = .ok (a, b) := by
  obtain ⟨m, hm⟩ := probeN_of_run c 0 a h
  exact ⟨m == 0, by simp [Comp.probe, hm]⟩

theorem optimizeGo_ok : ∀ (stages : List Stage) (sb : Bytes) (acc : List Stage),
    (∀ s ∈ stages, ∃ a, s.run emptyCtx = .ok a) → ∃ out, optimizeGo stages sb acc = .ok out := by
  intro stages
  induction stages with
  | nil => intro sb acc _; exact ⟨_, rfl⟩
  | cons st rest ih =>
    intro sb acc h
    obtain ⟨a, ha⟩ := h st (by simp)
    obtain ⟨b, hb⟩ := probe_of_run st a ha
    have hrest : ∀ s ∈ rest, ∃ a, s.run emptyCtx = .ok a := fun s hs => h s (by simp [hs])
    simp only [optimizeGo, hb]
    cases b with
    | true => exact ih _ _ hrest
    | false => exact ih _ _ hrest

theorem run_concat_each (ctx : Ctx) : ∀ (l : List Stage) (v : Bytes), (concatStages l).run ctx = .ok v →
    ∀ s ∈ l, ∃ a, s.run ctx = .ok a := by
  intro l
  induction l with
  | nil => intro v _ s hs; cases hs
  | cons x rest ih =>
    intro v h s hs
    rw [concat_cons, run_bind] at h
    cases hx : x.run ctx with
    | error m => rw [hx] at h; cases h
    | ok a =>
      rw [hx] at h
      simp only [] at h
      rw [run_bind] at h
      cases hr : (concatStages rest).run ctx with
      | error m => rw [hr] at h; cases h
      | ok b =>
        rcases List.mem_cons.mp hs with rfl | hs'
        · exact ⟨a, hx⟩
        · exact ih b hr s hs'

/-- Stages that evaluate (in every context) can be optimised, and C10's `optimize_preserves` then says
    that the optimised stages build the same key. -/
theorem optimize_ok_of_run (stages : List Stage) (v : Ctx → Bytes)
    (h : ∀ ctx, (concatStages stages).run ctx = .ok (v ctx)) :
    ∃ out, optimize stages = .ok out ∧ ∀ ctx, (concatStages out).run ctx = .ok (v ctx) := by
  obtain ⟨out, ho⟩ := optimizeGo_ok stages [] [] (run_concat_each emptyCtx stages _ (h emptyCtx))
  refine ⟨out, ho, fun ctx => ?_⟩
  have := Rare.Expr.optimize_sound stages out ho
  rw [this]; exact h ctx

/-- The end of `Compile` (error list, trailing literal, optimiser) for a scanner state without errors,
    pending text or open statement. -/
theorem finishC_ok (opt : Bool) (t : List Char) (st : CompSt) (he : st.errs = []) (hs : st.sb = [])
    (hi : st.inStatement = 0) (v : Ctx → Bytes)
    (hrun : ∀ ctx, (concatStages st.stages).run ctx = .ok (v ctx)) :
    ∃ out, finishC opt t st = .ok (out, []) ∧ ∀ ctx, (concatStages out).run ctx = .ok (v ctx) := by
  cases opt with
  | false => exact ⟨st.stages, by simp [finishC, he, hs, hi], hrun⟩
  | true =>
    obtain ⟨out, ho, hr⟩ := optimize_ok_of_run st.stages v hrun
    exact ⟨out, by simp [finishC, he, hs, hi, ho], hr⟩

/-! ### the registry hypothesis -/

/-- A stage that evaluates (does not panic) in every context. -/
def Total (s : Stage) : Prop := ∀ ctx : Ctx, ∃ v, s.run ctx = .ok v

/-- The builder `b` implements the function `sem` at arity `n`: given any `n` argument stages that
    evaluate in every context it returns – without a compile error – a stage which, in every context,
    evaluates to `sem` of the arguments' values there.  Nothing is said about how (strictly like
    `pureBuilder`, lazily like `if`, probing its arguments and folding constants at compile time …), nor
    about argument stages that can panic (a builder that probes such a stage may panic itself). -/
def Implements (b : Builder) (sem : List Bytes → Bytes) (n : Nat) : Prop :=
  ∀ cargs : List Stage, cargs.length = n → (∀ a ∈ cargs, Total a) →
    ∃ stage, b cargs = .ok ⟨some stage, none⟩ ∧
      ∀ (ctx : Ctx) (vals : List Bytes), cargs.map (·.run ctx) = vals.map .ok → stage.run ctx = .ok (sem vals)

mutual
/-- Every function called in the tree is registered with a builder that implements what `fn` says, at
    the arity of the call. -/
def RegSem (reg : Registry) (fn : List Char → List Bytes → Bytes) : C09.Expr → Prop
  | .call f args => (∃ b, reg f = some b ∧ Implements b (fn f) args.length) ∧ RegSemArgs reg fn args
  | .lit _ => True
  | .group _ => True
  | .key _ => True
def RegSemArgs (reg : Registry) (fn : List Char → List Bytes → Bytes) : List C09.Expr → Prop
  | [] => True
  | a :: rest => RegSem reg fn a ∧ RegSemArgs reg fn rest
end

theorem seq_run (ctx : Ctx) : ∀ (cargs : List Stage) (vals : List Bytes),
    cargs.map (·.run ctx) = vals.map .ok → (seqStages cargs).run ctx = .ok vals := by
  intro cargs
  induction cargs with
  | nil => intro vals h; cases vals with
    | nil => rfl
    | cons _ _ => simp at h
  | cons s rest ih =>
    intro vals h
    cases vals with
    | nil => simp at h
    | cons a b =>
      simp only [List.map_cons, List.cons.injEq] at h
      exact run_seq_cons s rest ctx a b h.1 (ih b h.2)

/-- `pureBuilder sem` implements `sem` at every arity. -/
theorem pureBuilder_implements (sem : List Bytes → Bytes) (n : Nat) : Implements (pureBuilder sem) sem n := by
  intro cargs _ _
  refine ⟨_, rfl, fun ctx vals h => ?_⟩
  rw [run_bind, seq_run ctx cargs vals h]
  rfl

mutual
theorem regSem_of_regOk (reg : Registry) (fn : List Char → List Bytes → Bytes) :
    ∀ e : C09.Expr, RegOk reg fn e → RegSem reg fn e
  | .lit _, _ => trivial
  | .group _, _ => trivial
  | .key _, _ => trivial
  | .call f args, h => by
    simp only [RegOk] at h
    exact ⟨⟨_, h.1, pureBuilder_implements _ _⟩, regSemArgs_of_regOkArgs reg fn args h.2⟩
theorem regSemArgs_of_regOkArgs (reg : Registry) (fn : List Char → List Bytes → Bytes) :
    ∀ l : List C09.Expr, RegOkArgs reg fn l → RegSemArgs reg fn l
  | [], _ => trivial
  | a :: rest, h => by
    simp only [RegOkArgs] at h
    exact ⟨regSem_of_regOk reg fn a h.1, regSemArgs_of_regOkArgs reg fn rest h.2⟩
end

/-! ### compiling the pieces, optimiser on or off -/

section
variable (reg : Registry) (fn : List Char → List Bytes → Bytes) (opt : Bool)

theorem evalArgs_length (env : Env) : ∀ l : List C09.Expr, (evalArgs env l).length = l.length
  | [] => rfl
  | a :: rest => by simp [evalArgs, evalArgs_length env rest]

theorem compileF_plain' (fuel : Nat) (s : List Char) (h : plain s = true) :
    ∃ st, compileF (fuel + 1) reg opt s = .ok (st, []) ∧ ∀ ctx, (concatStages st).run ctx = .ok (utf8 s) := by
  obtain ⟨j, hj⟩ := loop_inert fuel reg opt s s [] 0 ⟨[], [], [], 0, 0⟩ (plain_inert h)
  rw [List.append_nil, loop_nil] at hj
  rw [compileF_eq, hj]
  have hst : (if s = [] then ([] : List Stage) else [Stage.lit (charsToBytes s)]) = litStages s := by
    cases s <;> simp [litStages, utf8_eq]
  cases opt with
  | false =>
    refine ⟨litStages s, by simp [finishC, hst], fun ctx => (run_litStages s ctx).1⟩
  | true =>
    obtain ⟨st, h1, h2⟩ := optimize_litStages s
    exact ⟨st, by simp [finishC, hst, h1], h2⟩

/-- A braced statement with a single word: a variable reference. -/
theorem compileF_var' (fuel : Nat) (σ : Style) (w : List Char) (h : bare w = true) :
    ∃ st, compileF (fuel + 1) reg opt ('{' :: ((ws (σ []).lead ++ w ++ ws (σ []).trail) ++ ['}'])) = .ok (st, []) ∧
      ∀ ctx, (concatStages st).run ctx = (stageSimpleVariable w).run ctx := by
  have hl : LayoutOk true [(ws (σ []).lead, Piece.bare w)] := ⟨allSpace_ws _, Or.inl rfl, h, trivial⟩
  have hin : Inner (ws (σ []).lead ++ w ++ ws (σ []).trail) := by
    have := inner_append (inner_layout _ true hl) (inner_of_plain (plain_of_space (allSpace_ws (σ []).trail)))
    simpa [layout, Piece.text] using this
  obtain ⟨j, hj⟩ := compileF_braced fuel reg opt hin
  rw [hj, close_var fuel reg opt _ j ⟨[], [], _, 0, 1⟩ w (split_word σ w h)]
  have hv : ∃ v : Ctx → Bytes, ∀ ctx, (stageSimpleVariable w).run ctx = .ok (v ctx) := by
    unfold stageSimpleVariable
    split
    · exact ⟨fun ctx => ctx.getMatch _, fun ctx => rfl⟩
    · exact ⟨fun ctx => ctx.getKey _, fun ctx => rfl⟩
  obtain ⟨v, hv⟩ := hv
  obtain ⟨out, h1, h2⟩ := finishC_ok opt ('{' :: ((ws (σ []).lead ++ w ++ ws (σ []).trail) ++ ['}']))
    ⟨[] ++ [stageSimpleVariable w], [], [], 0, 0⟩ rfl rfl rfl v
    (fun ctx => by rw [List.nil_append, run_concat_single]; exact hv ctx)
  exact ⟨out, h1, fun ctx => by rw [h2, hv]⟩

mutual
theorem arg_ok' : ∀ (e : C09.Expr) (σ : Style) (fuel : Nat), Admissible e → RegSem reg fn e → depth e ≤ fuel →
    ∃ stages, compileF fuel reg opt (argString σ e) = .ok (stages, []) ∧
      ∀ ctx, (concatStages stages).run ctx = .ok (evalTree (envOf ctx fn) e)
  | .lit s, σ, fuel, ha, _, hd => by
    obtain ⟨g, rfl⟩ : ∃ g, fuel = g + 1 := ⟨fuel - 1, by simp [depth] at hd; omega⟩
    simp only [Admissible] at ha
    obtain ⟨st, h1, h2⟩ := compileF_plain' reg opt g s ha
    exact ⟨st, h1, fun ctx => by simpa [evalTree] using h2 ctx⟩
  | .group n, σ, fuel, ha, _, hd => by
    obtain ⟨g, rfl⟩ : ∃ g, fuel = g + 1 := ⟨fuel - 1, by simp [depth] at hd; omega⟩
    simp only [Admissible] at ha
    obtain ⟨st, h1, h2⟩ := compileF_var' reg opt g σ (decimal n) (bare_decimal n)
    refine ⟨st, ?_, fun ctx => ?_⟩
    · rw [argString, printArg_stmt σ _ (by intro s h; cases h)]
      exact h1
    · have hs : stageSimpleVariable (decimal n) = Comp.match_ (n : Int) := by
        simp [stageSimpleVariable, utf8_eq, atoi_decimal n ha]
      rw [h2, hs]; rfl
  | .key k, σ, fuel, ha, _, hd => by
    obtain ⟨g, rfl⟩ : ∃ g, fuel = g + 1 := ⟨fuel - 1, by simp [depth] at hd; omega⟩
    simp only [Admissible] at ha
    obtain ⟨st, h1, h2⟩ := compileF_var' reg opt g σ k ha.1
    refine ⟨st, ?_, fun ctx => ?_⟩
    · rw [argString, printArg_stmt σ _ (by intro s h; cases h)]
      exact h1
    · have hs : stageSimpleVariable k = Comp.key (utf8 k) := by
        simp [stageSimpleVariable, utf8_eq, ha.2]
      rw [h2, hs]; rfl
  | .call f args, σ, fuel, ha, hreg, hd => by
    obtain ⟨g, rfl⟩ : ∃ g, fuel = g + 1 := ⟨fuel - 1, by simp [depth] at hd; omega⟩
    have hd' : depthArgs args ≤ g := by simp [depth] at hd; omega
    have hsplit := split_call σ f args ha
    have hpiece := argPiece_ok (.call f args) σ ha
    simp only [Admissible] at ha
    simp only [RegSem] at hreg
    obtain ⟨⟨b, hb, himpl⟩, hregs⟩ := hreg
    obtain ⟨cargs, hc, hrun⟩ := args_ok' args σ 0 g ha.2.2 hregs hd'
    have hlen : cargs.length = args.length := by
      have := congrArg List.length (hrun emptyCtx)
      simpa [evalArgs_length] using this
    have htot : ∀ a ∈ cargs, Total a := by
      intro a ha' ctx
      have h1 : a.run ctx ∈ cargs.map (·.run ctx) := List.mem_map.mpr ⟨a, ha', rfl⟩
      rw [hrun ctx] at h1
      obtain ⟨v, _, hv⟩ := List.mem_map.mp h1
      exact ⟨v, hv.symm⟩
    obtain ⟨stage, hst, hsem⟩ := himpl cargs hlen htot
    cases args with
    | nil => exact absurd rfl ha.2.1
    | cons a rest =>
      have hin : Inner (stmtBody σ (.call f (a :: rest))) := by
        simpa [argPiece, Piece.ok] using hpiece
      obtain ⟨j, hj⟩ := compileF_braced g reg opt hin
      simp only [argStrings] at hsplit hc
      have hclose := close_call g reg opt ('{' :: (stmtBody σ (.call f (a :: rest)) ++ ['}'])) j
          ⟨[], [], stmtBody σ (.call f (a :: rest)), 0, 1⟩ f _ _ b cargs stage hsplit hb hc hst
      obtain ⟨out, h1, h2⟩ := finishC_ok opt ('{' :: (stmtBody σ (.call f (a :: rest)) ++ ['}']))
        ⟨[] ++ [stage], [], [], 0, 0⟩ rfl rfl rfl (fun ctx => evalTree (envOf ctx fn) (.call f (a :: rest)))
        (fun ctx => by
          rw [List.nil_append, run_concat_single, hsem ctx _ (hrun ctx)]
          simp only [evalTree]; rfl)
      refine ⟨out, ?_, h2⟩
      rw [argString, printArg_stmt σ _ (by intro s h; cases h), hj, hclose]
      exact h1
theorem args_ok' : ∀ (l : List C09.Expr) (σ : Style) (i fuel : Nat), AdmissibleArgs l → RegSemArgs reg fn l →
    depthArgs l ≤ fuel →
    ∃ cargs, compileArgs fuel reg opt (argStrings σ i l) = .ok (cargs, []) ∧
      ∀ ctx, cargs.map (·.run ctx) = (evalArgs (envOf ctx fn) l).map .ok
  | [], σ, i, fuel, _, _, _ => ⟨[], by rw [argStrings, compileArgs], fun ctx => rfl⟩
  | a :: rest, σ, i, fuel, ha, hreg, hd => by
    simp only [AdmissibleArgs] at ha
    simp only [RegSemArgs] at hreg
    simp only [depthArgs] at hd
    obtain ⟨stages, h1, r1⟩ := arg_ok' a (σ.child i) fuel ha.1 hreg.1 (by omega)
    obtain ⟨cargs, h2, r2⟩ := args_ok' rest σ (i + 1) fuel ha.2 hreg.2 (by omega)
    refine ⟨joinStages stages :: cargs, ?_, fun ctx => ?_⟩
    · rw [argStrings, compileArgs, h1]
      simp only []
      rw [h2]
      simp
    · simp only [evalArgs, List.map_cons, joinStages_eq, r1 ctx, r2 ctx]
end

/-- A printed tree, optimiser on or off. -/
theorem printTop_ok (σ : Style) (e : C09.Expr) (ha : AdmissibleTop e) (hreg : RegSem reg fn e) :
    ∃ stages, compile reg opt (printTop σ e) = .ok (stages, []) ∧
      ∀ ctx, (buildKey stages).run ctx = .ok (evalTree (envOf ctx fn) e) := by
  have key : ∀ e : C09.Expr, Admissible e → RegSem reg fn e →
      ∃ stages, compile reg opt (argString σ e) = .ok (stages, []) ∧
        ∀ ctx, (buildKey stages).run ctx = .ok (evalTree (envOf ctx fn) e) := by
    intro e ha hreg
    obtain ⟨st, h1, h2⟩ := arg_ok' reg fn opt e σ ((argString σ e).length + 1 + depth e) ha hreg (by omega)
    refine ⟨st, ?_, h2⟩
    have := compileF_fuel_irrelevant reg opt ((argString σ e).length + 1) (argString σ e) (by omega)
      ((argString σ e).length + 1 + depth e) ((argString σ e).length + 1) (by omega) (by omega)
    rw [compile, ← this]; exact h1
  cases e with
  | lit s =>
    obtain ⟨st, h1, h2⟩ := compileF_escapeLit (escapeLit s).length reg opt s
    exact ⟨st, h1, fun ctx => by simpa [evalTree] using h2 ctx⟩
  | group n => exact key _ ha hreg
  | key k => exact key _ ha hreg
  | call f args => exact key _ ha hreg

end

end Rare.C09
