import Rare.Proofs.C09Pos
import Rare.Spec.C09All
import Rare.Model.Expr.Std
import Rare.Model.C09Sig
/-! C09: the errors `Compile` reports are exactly `allErrs` – builder errors included – for registries with an
    arity signature. -/
namespace Rare.C09
open Rare Rare.Expr

def repKindOf : ErrKind → RepKind
  | .unterminated => .syn .unterminated
  | .emptyStatement => .syn .emptyStatement
  | .missingFunction => .syn .missingFunction
  | .func tag => .builder tag

/-- A recorded error as a reported error (nothing dropped). -/
def repOf (e : CErr) : RepErr := ⟨repKindOf e.kind, e.context, e.index⟩

/-- The registry has the signature: the same names, and every builder's error value is the signature's answer
    for the number of arguments it was called with. -/
structure HasSig (reg : Registry) (sig : Sig) : Prop where
  known : ∀ name, reg name = none ↔ sig name = none
  err : ∀ name f ar, reg name = some f → sig name = some ar →
    ∀ cargs b, f cargs = .ok b → b.err = ar cargs.length

theorem repOf_shift (l : List CErr) (k : Nat) :
    (l.map fun e => ({ e with index := e.index + k } : CErr)).map repOf = (l.map repOf).map (RepErr.shift k) := by
  simp only [List.map_map]
  apply List.map_congr_left
  intro e _
  rfl

section
variable (g : Nat) (reg : Registry) (opt : Bool) (sig : Sig) (inner : List Char → List RepErr)

theorem args_all (fargs : List (List Char))
    (hA : ∀ a ∈ fargs, ∀ s e, compileF g reg opt a = .ok (s, e) → e.map repOf = inner a) :
    ∀ cargs aerrs, compileArgs g reg opt fargs = .ok (cargs, aerrs) →
      aerrs.map repOf = fargs.flatMap inner ∧ cargs.length = fargs.length := by
  induction fargs with
  | nil =>
    intro cargs aerrs h
    rw [compileArgs] at h; cases h; exact ⟨rfl, rfl⟩
  | cons a r ih =>
    intro cargs aerrs h
    rw [compileArgs] at h
    cases h1 : compileF g reg opt a with
    | error m => rw [h1] at h; cases h
    | ok p =>
      obtain ⟨s, e⟩ := p
      rw [h1] at h
      cases h2 : compileArgs g reg opt r with
      | error m => rw [h2] at h; cases h
      | ok q =>
        obtain ⟨ss, es⟩ := q
        rw [h2] at h
        cases h
        obtain ⟨i1, i2⟩ := ih (fun b hb => hA b (by simp [hb])) ss es h2
        refine ⟨?_, by simp [i2]⟩
        rw [List.map_append, hA a (by simp) s e h1, i1]
        simp

theorem close_all (hsig : HasSig reg sig) (all : List Char) (i : Nat) (st st' : CompSt)
    (hA : ∀ a ∈ splitArgs st.sb, ∀ s e, compileF g reg opt a = .ok (s, e) → e.map repOf = inner a)
    (h : closeStatement g reg opt all i st = .ok st') :
    st'.errs.map repOf = st.errs.map repOf ++ stmtErrsA splitArgs sig inner all ⟨st.startStatement, i, st.sb⟩ ∧
      st'.startStatement = st.startStatement := by
  rw [closeStatement] at h
  match hs : splitArgs st.sb with
  | [] =>
    simp only [hs] at h; cases h
    simp [stmtErrsA, hs, repOf, repKindOf]
  | [a] =>
    simp only [hs] at h; cases h
    simp [stmtErrsA, hs]
  | name :: b :: r =>
    simp only [hs] at h
    cases hr : reg name with
    | none =>
      simp only [hr] at h; cases h
      have hn := (hsig.known name).mp hr
      simp [stmtErrsA, hs, hn, repOf, repKindOf]
    | some f =>
      simp only [hr] at h
      cases hsn : sig name with
      | none => rw [(hsig.known name).mpr hsn] at hr; cases hr
      | some ar =>
        cases hc : compileArgs g reg opt (b :: r) with
        | error m => simp only [hc] at h; cases h
        | ok p =>
          obtain ⟨cargs, aerrs⟩ := p
          simp only [hc] at h
          cases hf : f cargs with
          | error m => simp only [hf] at h; cases h
          | ok bt =>
            simp only [hf] at h
            cases h
            obtain ⟨hargs, hlen⟩ := args_all g reg opt inner (b :: r)
              (fun a ha => hA a (by rw [hs]; simp at ha ⊢; exact Or.inr ha)) cargs aerrs hc
            have herr := hsig.err name f ar hr hsn cargs bt hf
            rw [hlen] at herr
            have hst : stmtErrsA splitArgs sig inner all ⟨st.startStatement, i, st.sb⟩ =
                ((b :: r).flatMap inner).map (RepErr.shift st.startStatement) ++
                  (match ar (b :: r).length with
                   | some msg => [⟨.builder msg, st.sb, st.startStatement⟩]
                   | none => []) := by
              simp [stmtErrsA, hs, hsn]
              first | done | rfl
            rw [hst, ← hargs, ← herr]
            cases bt.err with
            | none => refine ⟨?_, rfl⟩; simp only [List.map_append, repOf_shift, List.append_nil]
            | some tag =>
              refine ⟨?_, rfl⟩
              simp only [List.map_append, repOf_shift, List.map_cons, List.map_nil, List.append_assoc]
              rfl

theorem loop_all (hsig : HasSig reg sig) (all : List Char)
    (hA : ∀ (a : List Char) s e, compileF g reg opt a = .ok (s, e) → e.map repOf = inner a) :
    ∀ (m : Nat) (rest : List Char) (i : Nat) (st st' : CompSt), rest.length ≤ m →
      compileLoop g reg opt all rest i st = .ok st' →
      st'.errs.map repOf = st.errs.map repOf ++
          (stmtsGo false st.inStatement st.sb st.startStatement i rest).flatMap
            (stmtErrsA splitArgs sig inner all) ∧
        openOf st' = openGo false st.inStatement st.startStatement i rest := by
  intro m
  induction m with
  | zero =>
    intro rest i st st' hm h
    have : rest = [] := List.length_eq_zero_iff.mp (by omega)
    subst this; rw [loop_nil] at h; cases h; simp [stmts_nil, open_nil, openOf]
  | succ m ih =>
    intro rest i st st' hm h
    cases rest with
    | nil => rw [loop_nil] at h; cases h; simp [stmts_nil, open_nil, openOf]
    | cons r rest =>
      simp only [List.length_cons] at hm
      by_cases h1 : r = '\\'
      · subst h1
        cases rest with
        | nil => rw [loop_esc_last] at h; cases h; simp [stmts_esc_last, open_esc_last, openOf]
        | cons e rest =>
          simp only [List.length_cons] at hm
          rw [loop_esc] at h
          rw [stmts_esc, open_esc]
          exact ih _ _ _ _ (by omega) h
      · by_cases h2 : r = '{'
        · subst h2
          by_cases h0 : st.inStatement = 0
          · rw [loop_open0 _ _ _ _ _ _ _ h0] at h
            rw [h0, stmts_open0, open_open0]
            exact ih _ _ _ _ (by omega) h
          · rw [loop_openN _ _ _ _ _ _ _ h0] at h
            rw [stmts_openN _ h0, open_openN _ h0]
            exact ih _ _ _ _ (by omega) h
        · by_cases h3 : r = '}' ∧ st.inStatement ≠ 0
          · obtain ⟨h3, h4⟩ := h3
            subst h3
            by_cases h5 : st.inStatement = 1
            · rw [loop_close1 _ _ _ _ _ _ _ h5] at h
              cases hc : closeStatement g reg opt all i st with
              | error e => rw [hc] at h; cases h
              | ok st2 =>
                rw [hc] at h
                obtain ⟨hcl, hstart⟩ := close_all g reg opt sig inner hsig all i st st2 (fun a _ => hA a) hc
                have := ih _ _ _ _ (by omega) h
                rw [open_close _ h4, h5, stmts_close1]
                simp only at this
                rw [hstart] at this
                rw [this.1, hcl]
                simp only [List.flatMap_cons, List.append_assoc, true_and]
                exact this.2
            · rw [loop_closeN _ _ _ _ _ _ _ (by omega)] at h
              rw [stmts_closeN _ (by omega), open_close _ h4]
              exact ih _ _ _ _ (by omega) h
          · have h3' : r ≠ '}' ∨ st.inStatement = 0 := by
              by_cases hr : r = '}'
              · right; exact Classical.byContradiction fun hc => h3 ⟨hr, hc⟩
              · left; exact hr
            rw [loop_plain _ _ _ _ _ _ _ _ h1 h2 h3'] at h
            rw [stmts_plain _ _ _ _ _ _ h1 h2 h3', open_plain _ _ _ _ _ h1 h2 h3']
            exact ih _ _ _ _ (by omega) h

end

/-- **Main lemma**: at every fuel at which `compileF` answers. -/
theorem compileF_all (reg : Registry) (opt : Bool) (sig : Sig) (hsig : HasSig reg sig) :
    ∀ (f : Nat) (t : List Char) s e, compileF f reg opt t = .ok (s, e) →
      e.map repOf = allErrsF splitArgs sig f t := by
  intro f
  induction f with
  | zero => intro t s e h; rw [compileF] at h; cases h
  | succ g ih =>
    intro t s e h
    rw [compileF_eq] at h
    cases hl : compileLoop g reg opt t t 0 ⟨[], [], [], 0, 0⟩ with
    | error m => rw [hl] at h; cases h
    | ok st =>
      rw [hl] at h
      have he := finishC_errs h
      obtain ⟨hw, ho⟩ := loop_all g reg opt sig (allErrsF splitArgs sig g) hsig t
        (fun a s' e' h' => ih a s' e' h') t.length t 0 _ st (Nat.le_refl _) hl
      simp only [List.map_nil, List.nil_append] at hw ho
      rw [allErrsF, he]
      show _ = (stmtsGo false 0 [] 0 0 t).flatMap _ ++ (openErr t).map RepErr.ofSyn
      rw [← hw]
      have ho' : openStart t = openOf st := ho.symm
      unfold openErr; rw [ho']; unfold openOf
      by_cases hz : st.inStatement = 0
      · simp [hz]
      · simp [hz, repOf, repKindOf, RepErr.ofSyn]

/-! ### fuel -/

theorem stmtErrsA_congr (split : List Char → List (List Char)) (sig : Sig)
    (i1 i2 : List Char → List RepErr) (t : List Char) (s : Stmt) (h : ∀ a ∈ split s.body, i1 a = i2 a) :
    stmtErrsA split sig i1 t s = stmtErrsA split sig i2 t s := by
  unfold stmtErrsA
  match hs : split s.body with
  | [] => rfl
  | [_] => rfl
  | name :: x :: xs =>
    simp only []
    have : (x :: xs).flatMap i1 = (x :: xs).flatMap i2 := by
      apply flatMap_congr'
      intro a ha
      exact h a (by rw [hs]; exact List.mem_cons_of_mem _ ha)
    rw [this]

theorem allErrsF_fuel (split : List Char → List (List Char)) (sig : Sig)
    (hsplit : ∀ b a, a ∈ split b → a.length ≤ b.length) :
    ∀ (f g : Nat) (t : List Char), t.length < f → t.length < g →
      allErrsF split sig f t = allErrsF split sig g t := by
  intro f
  induction f with
  | zero => intro g t h; omega
  | succ f ih =>
    intro g t hf hg
    obtain ⟨g', rfl⟩ : ∃ g', g = g' + 1 := ⟨g - 1, by omega⟩
    rw [allErrsF, allErrsF]
    congr 1
    apply flatMap_congr'
    intro s hs
    apply stmtErrsA_congr
    intro a ha
    have h1 := stmts_length hs
    have h2 := hsplit _ _ ha
    exact ih g' a (by omega) (by omega)

theorem allErrs_unfold_gen (split : List Char → List (List Char)) (sig : Sig)
    (hsplit : ∀ b a, a ∈ split b → a.length ≤ b.length) (t : List Char) :
    allErrs split sig t =
      (stmts t).flatMap (stmtErrsA split sig (allErrs split sig) t) ++ (openErr t).map RepErr.ofSyn := by
  rw [allErrs, allErrsF]
  congr 1
  apply flatMap_congr'
  intro s hs
  apply stmtErrsA_congr
  intro a ha
  have h1 := stmts_length hs
  have h2 := hsplit _ _ ha
  exact allErrsF_fuel split sig hsplit _ _ a (by omega) (by omega)

/-! ### dropping the builder errors gives `synErrs` -/

theorem synPart_shift (l : List RepErr) (k : Nat) :
    (l.map (RepErr.shift k)).filterMap RepErr.synPart = (l.filterMap RepErr.synPart).map (SynErr.shift k) := by
  rw [List.filterMap_map, List.map_filterMap]
  congr 1
  funext e
  obtain ⟨kind, c, i⟩ := e
  cases kind <;> rfl

theorem synPart_ofSyn (l : List SynErr) : (l.map RepErr.ofSyn).filterMap RepErr.synPart = l := by
  induction l with
  | nil => rfl
  | cons e r ih => simp [RepErr.ofSyn, RepErr.synPart] at ih ⊢; exact ih

theorem filterMap_flatMap' {α β γ : Type} (l : List α) (f : α → List β) (g : β → Option γ) :
    (l.flatMap f).filterMap g = l.flatMap fun a => (f a).filterMap g := by
  induction l with
  | nil => rfl
  | cons a r ih => simp [List.flatMap_cons, List.filterMap_append, ih]

theorem headErrs_synPart (o : Option (Nat → Option String)) (A : List RepErr) (B : List SynErr)
    (body : List Char) (start n : Nat) (hAB : A.filterMap RepErr.synPart = B) :
    (match o with
      | none => [(⟨.syn .missingFunction, body, start⟩ : RepErr)]
      | some ar => A ++ (match ar n with
        | some msg => [(⟨.builder msg, body, start⟩ : RepErr)]
        | none => [])).filterMap RepErr.synPart =
      if o.isSome then B else [⟨.missingFunction, body, start⟩] := by
  cases o with
  | none => simp [RepErr.synPart]
  | some ar =>
    simp only [Option.isSome_some, if_true, List.filterMap_append, hAB]
    cases ar n with
    | none => simp
    | some m => simp [RepErr.synPart]

theorem stmtErrsA_synPart (split : List Char → List (List Char)) (sig : Sig)
    (innerA : List Char → List RepErr) (innerS : List Char → List SynErr) (t : List Char) (s : Stmt)
    (h : ∀ a ∈ split s.body, (innerA a).filterMap RepErr.synPart = innerS a) :
    (stmtErrsA split sig innerA t s).filterMap RepErr.synPart =
      stmtErrs split (fun n => (sig n).isSome) innerS t s := by
  unfold stmtErrsA stmtErrs
  match hs : split s.body with
  | [] => simp [RepErr.synPart]
  | [_] => rfl
  | name :: x :: xs =>
    simp only []
    have hin : ((x :: xs).flatMap fun a => (innerA a).filterMap RepErr.synPart) = (x :: xs).flatMap innerS := by
      apply flatMap_congr'
      intro a ha
      exact h a (by rw [hs]; exact List.mem_cons_of_mem _ ha)
    exact headErrs_synPart (sig name) _ _ s.body s.start (x :: xs).length (by rw [synPart_shift, filterMap_flatMap', hin])

theorem allErrsF_synPart (split : List Char → List (List Char)) (sig : Sig) :
    ∀ (f : Nat) (t : List Char),
      (allErrsF split sig f t).filterMap RepErr.synPart = synErrsF split (fun n => (sig n).isSome) f t := by
  intro f
  induction f with
  | zero => intro t; rfl
  | succ f ih =>
    intro t
    rw [allErrsF, synErrsF, List.filterMap_append, synPart_ofSyn, filterMap_flatMap']
    congr 1
    apply flatMap_congr'
    intro s _
    exact stmtErrsA_synPart split sig _ _ t s (fun a _ => ih a)

/-! ### instances -/

theorem testRegistry_hasSig : HasSig testRegistry testSig := by
  constructor
  · intro name
    unfold testRegistry testSig pureRegistry
    by_cases h1 : name = "bad".toList
    · simp [h1]
    · by_cases h2 : name = "nil".toList
      · simp [h2]
      · simp only [h1, h2, if_false]
        by_cases h3 : probeNames.contains name = true <;> simp [h3]
  · intro name f ar hr hs cargs b hf
    unfold testRegistry pureRegistry at hr
    unfold testSig at hs
    have hnb : ¬ ("nil".toList = "bad".toList) := by decide
    by_cases h1 : name = "bad".toList
    · subst h1
      simp only [if_true, Option.some.injEq] at hr hs
      subst hr; subst hs; cases hf; rfl
    · by_cases h2 : name = "nil".toList
      · subst h2
        simp only [hnb, if_true, if_false, Option.some.injEq] at hr hs
        subst hr; subst hs; cases hf; rfl
      · simp only [h1, h2, if_false] at hr hs
        by_cases h3 : probeNames.contains name = true
        · simp only [h3, if_true, Option.some.injEq] at hr hs
          subst hr; subst hs
          simp only [pureBuilder, Except.ok.injEq] at hf
          subst hf; rfl
        · simp only [h3, if_false, Bool.false_eq_true] at hs
          cases hs

/-- A builder whose only error is the argument count: `ar n` says whether `n` arguments are accepted. -/
def ArityOnly (f : Builder) (ar : Nat → Bool) : Prop :=
  ∀ cargs b, f cargs = .ok b → b.err = if ar cargs.length then none else some "argcount"

theorem arity1 {f : Builder} (h0 : f [] = errArgCount) (h1 : ∀ a, ∃ s, f [a] = Rare.Expr.ok s)
    (h2 : ∀ a b r, f (a :: b :: r) = errArgCount) : ArityOnly f (fun n => n == 1) := by
  intro cargs b h
  match cargs, h with
  | [], h => rw [h0] at h; cases h; rfl
  | [a], h => obtain ⟨s, hs⟩ := h1 a; rw [hs] at h; cases h; rfl
  | a :: c :: r, h => rw [h2] at h; cases h; simp

theorem arity2 {f : Builder} (h0 : f [] = errArgCount) (h1 : ∀ a, f [a] = errArgCount) (h2 : ∀ a b, ∃ s, f [a, b] = Rare.Expr.ok s)
    (h3 : ∀ a b c r, f (a :: b :: c :: r) = errArgCount) : ArityOnly f (fun n => n == 2) := by
  intro cargs b h
  match cargs, h with
  | [], h => rw [h0] at h; cases h; rfl
  | [a], h => rw [h1] at h; cases h; rfl
  | [a, c], h => obtain ⟨s, hs⟩ := h2 a c; rw [hs] at h; cases h; rfl
  | a :: c :: d :: r, h => rw [h3] at h; cases h; simp

theorem arity3 {f : Builder} (h0 : f [] = errArgCount) (h1 : ∀ a, f [a] = errArgCount) (h2 : ∀ a b, f [a, b] = errArgCount)
    (h3 : ∀ a b c, ∃ s, f [a, b, c] = Rare.Expr.ok s) (h4 : ∀ a b c d r, f (a :: b :: c :: d :: r) = errArgCount) :
    ArityOnly f (fun n => n == 3) := by
  intro cargs b h
  match cargs, h with
  | [], h => rw [h0] at h; cases h; rfl
  | [a], h => rw [h1] at h; cases h; rfl
  | [a, c], h => rw [h2] at h; cases h; rfl
  | [a, c, d], h => obtain ⟨s, hs⟩ := h3 a c d; rw [hs] at h; cases h; rfl
  | a :: c :: d :: e :: r, h => rw [h4] at h; cases h; simp

theorem arityAny {f : Builder} (h : ∀ cargs, ∃ s, f cargs = Rare.Expr.ok s) : ArityOnly f (fun _ => true) := by
  intro cargs b hb
  obtain ⟨s, hs⟩ := h cargs; rw [hs] at hb; cases hb; rfl

theorem arityGe2 {f : Builder} (h0 : f [] = errArgCount) (h1 : ∀ a, f [a] = errArgCount)
    (h2 : ∀ a b r, ∃ s, f (a :: b :: r) = Rare.Expr.ok s) : ArityOnly f (fun n => decide (2 ≤ n)) := by
  intro cargs b h
  match cargs, h with
  | [], h => rw [h0] at h; cases h; rfl
  | [a], h => rw [h1] at h; cases h; rfl
  | a :: c :: r, h => obtain ⟨s, hs⟩ := h2 a c r; rw [hs] at h; cases h; simp

def ArityAll : List (String × (Nat → Bool)) → Prop
  | [] => True
  | p :: rest => (∃ f, lookupTable stdTable p.1 = some f ∧ ArityOnly f p.2) ∧ ArityAll rest

theorem arityAll_mem : ∀ {l : List (String × (Nat → Bool))}, ArityAll l → ∀ p ∈ l,
    ∃ f, lookupTable stdTable p.1 = some f ∧ ArityOnly f p.2
  | [], _, p, hp => by cases hp
  | q :: rest, h, p, hp => by
    rcases List.mem_cons.mp hp with rfl | hp
    · exact h.1
    · exact arityAll_mem h.2 p hp

section
open Funcs Funcs.Logic Funcs.Strings Funcs.Arith Funcs.Float Funcs.Misc Funcs.Range

theorem switch_arity : ArityOnly kfSwitch (fun n => decide (2 ≤ n)) := by
  intro cargs b h
  unfold kfSwitch at h
  by_cases hl : cargs.length ≤ 1
  · simp only [hl, if_true] at h; cases h
    have : ¬ 2 ≤ cargs.length := by omega
    simp [this]
  · simp only [hl, if_false] at h; cases h
    have : 2 ≤ cargs.length := by omega
    simp [this]

theorem csv_arity : ArityOnly kfCsv (fun _ => true) := arityAny fun cargs => by
  cases cargs with
  | nil => exact ⟨_, rfl⟩
  | cons a r => exact ⟨_, rfl⟩

theorem join_arity (d : Bytes) : ArityOnly (Strings.kfJoin d) (fun _ => true) := arityAny fun cargs => by
  match cargs with
  | [] => exact ⟨_, rfl⟩
  | [a] => exact ⟨_, rfl⟩
  | a :: b :: r => exact ⟨_, rfl⟩

theorem joinArgs_arity (d : UInt8) : ArityOnly (joinArgs d) (fun _ => true) := arityAny fun cargs => by
  match cargs with
  | [] => exact ⟨_, rfl⟩
  | [a] => exact ⟨_, rfl⟩
  | a :: b :: r => exact ⟨_, rfl⟩

theorem arityNames_all : ArityAll arityNames :=
  ⟨⟨_, rfl, arityAny fun _ => ⟨_, rfl⟩⟩, ⟨_, rfl, arityAny fun _ => ⟨_, rfl⟩⟩, ⟨_, rfl, arityAny fun _ => ⟨_, rfl⟩⟩,
   ⟨_, rfl, arityGe2 rfl (fun _ => rfl) fun _ _ _ => ⟨_, rfl⟩⟩, ⟨_, rfl, arityGe2 rfl (fun _ => rfl) fun _ _ _ => ⟨_, rfl⟩⟩,
   ⟨_, rfl, switch_arity⟩,
   ⟨_, rfl, arity1 rfl (fun _ => ⟨_, rfl⟩) fun _ _ _ => rfl⟩,
   ⟨_, rfl, arity2 rfl (fun _ => rfl) (fun _ _ => ⟨_, rfl⟩) fun _ _ _ _ => rfl⟩,
   ⟨_, rfl, arity1 rfl (fun _ => ⟨_, rfl⟩) fun _ _ _ => rfl⟩,
   ⟨_, rfl, arity1 rfl (fun _ => ⟨_, rfl⟩) fun _ _ _ => rfl⟩,
   ⟨_, rfl, arity1 rfl (fun _ => ⟨_, rfl⟩) fun _ _ _ => rfl⟩,
   ⟨_, rfl, arity1 rfl (fun _ => ⟨_, rfl⟩) fun _ _ _ => rfl⟩,
   ⟨_, rfl, arity1 rfl (fun _ => ⟨_, rfl⟩) fun _ _ _ => rfl⟩,
   ⟨_, rfl, arity1 rfl (fun _ => ⟨_, rfl⟩) fun _ _ _ => rfl⟩,
   ⟨_, rfl, arity1 rfl (fun _ => ⟨_, rfl⟩) fun _ _ _ => rfl⟩,
   ⟨_, rfl, arity1 rfl (fun _ => ⟨_, rfl⟩) fun _ _ _ => rfl⟩,
   ⟨_, rfl, arity1 rfl (fun _ => ⟨_, rfl⟩) fun _ _ _ => rfl⟩,
   ⟨_, rfl, arity1 rfl (fun _ => ⟨_, rfl⟩) fun _ _ _ => rfl⟩,
   ⟨_, rfl, arity1 rfl (fun _ => ⟨_, rfl⟩) fun _ _ _ => rfl⟩,
   ⟨_, rfl, arity1 rfl (fun _ => ⟨_, rfl⟩) fun _ _ _ => rfl⟩,
   ⟨_, rfl, arity1 rfl (fun _ => ⟨_, rfl⟩) fun _ _ _ => rfl⟩,
   ⟨_, rfl, arity2 rfl (fun _ => rfl) (fun _ _ => ⟨_, rfl⟩) fun _ _ _ _ => rfl⟩,
   ⟨_, rfl, arity2 rfl (fun _ => rfl) (fun _ _ => ⟨_, rfl⟩) fun _ _ _ _ => rfl⟩,
   ⟨_, rfl, arity2 rfl (fun _ => rfl) (fun _ _ => ⟨_, rfl⟩) fun _ _ _ _ => rfl⟩,
   ⟨_, rfl, arity2 rfl (fun _ => rfl) (fun _ _ => ⟨_, rfl⟩) fun _ _ _ _ => rfl⟩,
   ⟨_, rfl, arity2 rfl (fun _ => rfl) (fun _ _ => ⟨_, rfl⟩) fun _ _ _ _ => rfl⟩,
   ⟨_, rfl, arity2 rfl (fun _ => rfl) (fun _ _ => ⟨_, rfl⟩) fun _ _ _ _ => rfl⟩,
   ⟨_, rfl, arity3 rfl (fun _ => rfl) (fun _ _ => rfl) (fun _ _ _ => ⟨_, rfl⟩) fun _ _ _ _ _ => rfl⟩,
   ⟨_, rfl, arity3 rfl (fun _ => rfl) (fun _ _ => rfl) (fun _ _ _ => ⟨_, rfl⟩) fun _ _ _ _ _ => rfl⟩,
   ⟨_, rfl, join_arity _⟩, ⟨_, rfl, join_arity _⟩, ⟨_, rfl, join_arity _⟩, ⟨_, rfl, csv_arity⟩,
   trivial⟩

end

theorem arityLookup_mem {name : List Char} {ar : Nat → Bool} (h : arityLookup name = some ar) :
    (String.ofList name, ar) ∈ arityNames := by
  unfold arityLookup at h
  cases hf : arityNames.find? (·.1 == String.ofList name) with
  | none => rw [hf] at h; cases h
  | some p =>
    rw [hf] at h
    simp only [Option.map_some, Option.some.injEq] at h
    have hm := List.mem_of_find?_eq_some hf
    have hn := List.find?_some hf
    simp only [beq_iff_eq] at hn
    obtain ⟨a, b⟩ := p
    simp only at hn h
    subst hn; subst h; exact hm

theorem arityRegistry_hasSig : HasSig arityRegistry aritySig := by
  constructor
  · intro name
    unfold arityRegistry aritySig
    cases hl : arityLookup name with
    | none => simp
    | some ar =>
      obtain ⟨f, hf, _⟩ := arityAll_mem arityNames_all _ (arityLookup_mem hl)
      simp [hf]
  · intro name f ar hr hs cargs b hf
    unfold arityRegistry at hr
    unfold aritySig at hs
    cases hl : arityLookup name with
    | none => rw [hl] at hr; cases hr
    | some ar' =>
      rw [hl] at hr hs
      simp only [Option.map_some, Option.some.injEq] at hs
      obtain ⟨f', hf', ha⟩ := arityAll_mem arityNames_all _ (arityLookup_mem hl)
      simp only at hr
      rw [hf'] at hr
      cases hr
      subst hs
      exact ha cargs b hf

end Rare.C09
