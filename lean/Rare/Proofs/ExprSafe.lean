import Rare.Proofs.ExprCore
import Rare.Model.Expr.Build
/-!
Panic-freedom of expression stages and function builders (C08).

`Safe c`: no `panic` node is reachable in the interaction tree `c`, whatever the context answers.
`SafeBuilder b`: given safe argument stages, the builder itself does not panic (at compile time)
and the stage it returns is safe.
-/
namespace Rare.Expr

inductive Safe {α : Type} : Comp α → Prop
  | ret (a : α) : Safe (.ret a)
  | getMatch (i : Int) (k : Bytes → Comp α) : (∀ b, Safe (k b)) → Safe (.getMatch i k)
  | getKey (s : Bytes) (k : Bytes → Comp α) : (∀ b, Safe (k b)) → Safe (.getKey s k)

theorem Safe.run {α : Type} {c : Comp α} (h : Safe c) (ctx : Ctx) : ∃ v, c.run ctx = .ok v := by
  induction h with
  | ret a => exact ⟨a, rfl⟩
  | getMatch i k _ ih => exact ih _
  | getKey s k _ ih => exact ih _

theorem Safe.probeN {α : Type} {c : Comp α} (h : Safe c) : ∀ n, ∃ v m, c.probeN n = .ok (v, m) := by
  induction h with
  | ret a => intro n; exact ⟨a, n, rfl⟩
  | getMatch i k _ ih => intro n; exact ih _ _
  | getKey s k _ ih => intro n; exact ih _ _

theorem Safe.probe {α : Type} {c : Comp α} (h : Safe c) : ∃ v b, c.probe = .ok (v, b) := by
  obtain ⟨v, m, hp⟩ := h.probeN 0
  exact ⟨v, m == 0, by simp [Comp.probe, hp]⟩

theorem Safe.bind {α β : Type} {c : Comp α} {f : α → Comp β} (h : Safe c) (hf : ∀ a, Safe (f a)) :
    Safe (c.bind f) := by
  induction h with
  | ret a => exact hf a
  | getMatch i k _ ih => exact .getMatch _ _ ih
  | getKey s k _ ih => exact .getKey _ _ ih

theorem Safe.bind' {α β : Type} {c : Comp α} {f : α → Comp β} (h : Safe c) (hf : ∀ a, Safe (f a)) :
    Safe (c >>= f) := Safe.bind h hf

theorem Safe.pure {α : Type} (a : α) : Safe (Pure.pure a : Comp α) := .ret a

theorem Safe.map {α β : Type} {c : Comp α} (f : α → β) (h : Safe c) : Safe (f <$> c) :=
  Safe.bind h fun a => .ret (f a)

theorem Safe.withSub {α : Type} {c : Comp α} (h : Safe c) (v0 v1 : Bytes) : Safe (c.withSub v0 v1) := by
  induction h with
  | ret a => exact .ret a
  | getMatch i k _ ih =>
    simp only [Comp.withSub]
    split
    · exact .getMatch _ _ ih
    · exact ih _
  | getKey s k _ ih => exact .getKey _ _ ih

theorem Safe.match_ (i : Int) : Safe (Comp.match_ i) := .getMatch _ _ fun b => .ret b
theorem Safe.key (k : Bytes) : Safe (Comp.key k) := .getKey _ _ fun b => .ret b
theorem Safe.lit (b : Bytes) : Safe (Stage.lit b) := .ret b

theorem Safe.concat {l : List Stage} (h : ∀ s ∈ l, Safe s) : Safe (concatStages l) := by
  induction l with
  | nil => exact .ret _
  | cons s rest ih =>
    exact Safe.bind (h s (by simp)) fun a => Safe.bind (ih fun x hx => h x (by simp [hx])) fun b => .ret _

theorem Safe.join {l : List Stage} (h : ∀ s ∈ l, Safe s) : Safe (joinStages l) := by
  rw [joinStages_eq]; exact Safe.concat h

/-- A builder that, on safe arguments, neither panics at compile time nor returns a stage that can. -/
def SafeBuilder (b : Builder) : Prop :=
  ∀ args : List Stage, (∀ a ∈ args, Safe a) →
    ∃ built, b args = .ok built ∧ ∀ s, built.stage = some s → Safe s

def SafeRegistry (reg : Registry) : Prop := ∀ name b, reg name = some b → SafeBuilder b

def AllSafe (l : List Stage) : Prop := ∀ s ∈ l, Safe s

theorem AllSafe.append {a b : List Stage} (ha : AllSafe a) (hb : AllSafe b) : AllSafe (a ++ b) := by
  intro s hs; rcases List.mem_append.mp hs with h | h
  · exact ha s h
  · exact hb s h

theorem AllSafe.single {s : Stage} (h : Safe s) : AllSafe [s] := by
  intro x hx; simp at hx; rw [hx]; exact h

theorem stageSimpleVariable_safe (a : List Char) : Safe (stageSimpleVariable a) := by
  unfold stageSimpleVariable; split
  · exact Safe.match_ _
  · exact Safe.key _

/-- `optimize` of safe stages succeeds and yields safe stages. -/
theorem optimizeGo_safe : ∀ (stages : List Stage) (sb : Bytes) (acc : List Stage), AllSafe stages → AllSafe acc →
    ∃ out, optimizeGo stages sb acc = .ok out ∧ AllSafe out := by
  intro stages
  induction stages with
  | nil =>
    intro sb acc _ ha
    refine ⟨_, rfl, ?_⟩
    split
    · exact ha
    · exact ha.append (AllSafe.single (Safe.lit _))
  | cons st rest ih =>
    intro sb acc hs ha
    have hst : Safe st := hs st (by simp)
    have hrest : AllSafe rest := fun x hx => hs x (by simp [hx])
    obtain ⟨v, b, hp⟩ := hst.probe
    simp only [optimizeGo, hp]
    cases b with
    | true => exact ih _ _ hrest ha
    | false =>
      apply ih _ _ hrest
      apply AllSafe.append _ (AllSafe.single hst)
      split
      · exact ha
      · exact ha.append (AllSafe.single (Safe.lit _))

end Rare.Expr
