import Rare.Model.C16Ctx
/-!
C16: the context over a history of matches – the worker's loop equals the map of a context-free function.
-/
namespace Rare.C16

theorem Ctx.load_nameTable (c : Ctx) (h : Hit) : (c.load h).nameTable = c.nameTable := rfl

/-- the four assignments overwrite everything a previous match left behind -/
theorem Ctx.load_load (c : Ctx) (h₁ h₂ : Hit) : (c.load h₁).load h₂ = c.load h₂ := rfl

/-- a re-pointed context is the context a fresh one would be -/
theorem Ctx.load_eq_fresh (c : Ctx) (h : Hit) : c.load h = (Ctx.fresh c.nameTable).load h := rfl

theorem processLine_eq (keys : List Bytes) (c : Ctx) (h : Hit) :
    processLine keys c h =
      (extractOf keys c.nameTable h).map fun o => (if h.indices = [] then c else c.load h, o) := by
  unfold processLine extractOf
  by_cases hi : h.indices = []
  · simp [hi, Except.map]
  · simp only [hi, if_false, ← Ctx.load_eq_fresh]
    cases (c.load h).buildKeys keys <;> rfl

theorem processLine_nameTable (keys : List Bytes) (c c' : Ctx) (h : Hit) (o : Option Bytes)
    (hp : processLine keys c h = .ok (c', o)) : c'.nameTable = c.nameTable := by
  rw [processLine_eq] at hp
  cases he : extractOf keys c.nameTable h with
  | error e => simp [he, Except.map] at hp
  | ok v =>
    simp [he, Except.map] at hp
    rw [← hp.1]; split <;> rfl

theorem runFrom_eq_mapM (keys : List Bytes) (hs : List Hit) :
    ∀ c : Ctx, runFrom keys c hs = hs.mapM (extractOf keys c.nameTable) := by
  induction hs with
  | nil => intro c; rfl
  | cons h r ih =>
    intro c
    rw [runFrom, List.mapM_cons, processLine_eq]
    cases he : extractOf keys c.nameTable h with
    | error e => rfl
    | ok v =>
      have hn : (if h.indices = [] then c else c.load h).nameTable = c.nameTable := by split <;> rfl
      simp only [Except.map, bind, Except.bind]
      rw [ih, hn]

/-- **the loop of one worker = the map of a context-free function over its history** -/
theorem runWorker_eq_mapM (keys : List Bytes) (nt : List (Bytes × Int)) (hs : List Hit) :
    runWorker keys nt hs = hs.mapM (extractOf keys nt) := runFrom_eq_mapM keys hs (Ctx.fresh nt)

theorem mapM_ok_pointwise {α β ε : Type} (f : α → Except ε β) :
    ∀ (l : List α) (outs : List β), l.mapM f = .ok outs →
      outs.length = l.length ∧ ∀ (i : Nat) (a : α), l[i]? = some a → ∃ b, outs[i]? = some b ∧ f a = .ok b := by
  intro l
  induction l with
  | nil => intro outs h; simp [pure, Except.pure] at h; subst h; simp
  | cons x r ih =>
    intro outs h
    rw [List.mapM_cons] at h
    cases hx : f x with
    | error e => simp [hx, bind, Except.bind] at h
    | ok b =>
      cases hr : r.mapM f with
      | error e => simp [hx, hr, bind, Except.bind] at h
      | ok bs =>
        simp [hx, hr, bind, Except.bind, pure, Except.pure] at h
        subst h
        obtain ⟨hl, hp⟩ := ih bs hr
        refine ⟨by simp [hl], ?_⟩
        intro i a hi
        cases i with
        | zero => simp at hi; subst hi; exact ⟨b, by simp, hx⟩
        | succ j => simpa using hp j a (by simpa using hi)

/-- a view key of a match is `json` of the name table, the indices and the line – nothing else of the context -/
theorem keyOf_view (nt : List (Bytes × Int)) (h : Hit) (key : Bytes) (a b : Bool)
    (hv : viewFlags key = some (a, b)) : keyOf nt h key = json a b nt h.indices h.line := by
  unfold viewFlags at hv
  unfold keyOf Ctx.getKey
  split at hv
  · next e => cases hv; subst e; rfl
  · split at hv
    · next e => cases hv; subst e; rfl
    · split at hv
      · next e =>
        cases hv
        rcases e with e | e <;> subst e <;> rfl
      · cases hv

/-- the other way round: what `src` and `line` answer is exactly the two fields the views ignore -/
theorem keyOf_src_line (nt : List (Bytes × Int)) (h : Hit) :
    keyOf nt h keySrc = .ok h.source ∧ keyOf nt h keyLine = .ok (natAscii h.lineNum) := ⟨rfl, rfl⟩

/-! ### The frame argument, for ANY object that is re-pointed per match and used through methods

An object is a valuation of field names.  Two kinds of steps happen to it: the owner re-points it at a
match (the fields in `W` take the match's values), or one of its methods runs (the fields in `MW` – the
fields methods may write – take arbitrary values, everything else stays).  A view is any function of the
object that reads the fields in `R` only. -/

abbrev Obj (V : Type) := String → V

inductive ObjStep (V : Type) where
  | repoint (m : Obj V)
  | method (writes : Obj V)

def ObjStep.apply {V : Type} (W MW : List String) (o : Obj V) : ObjStep V → Obj V
  | .repoint m => fun f => if f ∈ W then m f else o f
  | .method w => fun f => if f ∈ MW then w f else o f

def ReadsOnly {V β : Type} (R : List String) (view : Obj V → β) : Prop :=
  ∀ o o' : Obj V, (∀ f ∈ R, o f = o' f) → view o = view o'

theorem steps_keep {V : Type} (W MW : List String) (f : String) (hW : f ∉ W) (hM : f ∉ MW) :
    ∀ (steps : List (ObjStep V)) (o : Obj V), (steps.foldl (ObjStep.apply W MW) o) f = o f := by
  intro steps
  induction steps with
  | nil => intro o; rfl
  | cons s r ih =>
    intro o
    rw [List.foldl_cons, ih]
    cases s <;> simp [ObjStep.apply, hW, hM]

theorem methods_keep {V : Type} (W MW : List String) (f : String) (hM : f ∉ MW) :
    ∀ (ws : List (Obj V)) (o : Obj V), ((ws.map ObjStep.method).foldl (ObjStep.apply W MW) o) f = o f := by
  intro ws
  induction ws with
  | nil => intro o; rfl
  | cons w r ih =>
    intro o
    rw [List.map_cons, List.foldl_cons, ih]
    simp [ObjStep.apply, hM]

/-- **Frame.**  If no field a view reads is written by a method, then after ANY history (`before`: matches
and method calls in any order), a re-pointing at `m` and any number of further method calls on the same
match (`after`), the view answers what it answers on the constructed object `o₀` re-pointed once at `m`. -/
theorem frame {V β : Type} (W MW R : List String) (hdisj : ∀ f ∈ R, f ∉ MW)
    (view : Obj V → β) (hv : ReadsOnly R view)
    (o₀ : Obj V) (before : List (ObjStep V)) (m : Obj V) (after : List (Obj V)) :
    view ((after.map ObjStep.method).foldl (ObjStep.apply W MW)
        (ObjStep.apply W MW (before.foldl (ObjStep.apply W MW) o₀) (.repoint m)))
      = view (ObjStep.apply W MW o₀ (.repoint m)) := by
  apply hv
  intro f hf
  rw [methods_keep W MW f (hdisj f hf)]
  by_cases hW : f ∈ W
  · simp [ObjStep.apply, hW]
  · simp only [ObjStep.apply, hW, if_false]
    exact steps_keep W MW f hW (hdisj f hf) before o₀

/-- … and it is sharp: a view that reads a field a method writes can answer from a previous match -/
theorem frame_counterexample :
    ∃ (view : Obj Nat → Nat), ReadsOnly ["memo"] view ∧
      view (ObjStep.apply ["line"] ["memo"]
        (ObjStep.apply ["line"] ["memo"] (ObjStep.apply ["line"] ["memo"] (fun _ => 0) (.repoint fun _ => 1))
          (.method fun _ => 1)) (.repoint fun _ => 2))
      ≠ view (ObjStep.apply ["line"] ["memo"] (fun _ => 0) (.repoint fun _ => 2)) :=
  ⟨fun o => o "memo", fun o o' h => h "memo" (by simp), by simp [ObjStep.apply]⟩

end Rare.C16
