import Rare.Proofs.C09DenV
import Rare.Spec.C09Frag
import Rare.Proofs.C09C10Std
import Rare.Proofs.C11
import Rare.Props.C17
/-!
C09 × C10: a large, explicitly listed fragment of the STANDARD function table satisfies the registry
hypothesis of the generalised print/compile theorem (`RegDen`, `Rare/Proofs/C09Den.lean`).

For every name of the fragment: its meaning as a function of the argument values (`stdSem`), the arities and
– where the Go builder inspects an argument at compile time – the side condition on the argument *trees*
(`callOk`: an integer-typed position holds a dynamic expression or something that evaluates to an integer; a
constant position holds a literal of the right type), and the proof that the registered builder, given
argument stages denoting the argument trees, returns without compile error a stage denoting the call.
-/
namespace Rare.C09
open Rare Rare.Expr

/-! ### running and probing -/

theorem run_bind_ok {α β : Type} {ctx : Ctx} {c : Comp α} {f : α → Comp β} {a : α}
    (h : c.run ctx = .ok a) : (c.bind f).run ctx = (f a).run ctx := by
  rw [run_bind, h]

theorem probeN_bind {α β : Type} (c : Comp α) (f : α → Comp β) : ∀ n,
    (c.bind f).probeN n = match c.probeN n with
      | .ok (a, n') => (f a).probeN n'
      | .error m => .error m := by
  induction c with
  | ret a => intro n; rfl
  | getMatch i k ih => intro n; simp only [Comp.bind, Comp.probeN]; exact ih _ _
  | getKey s k ih => intro n; simp only [Comp.bind, Comp.probeN]; exact ih _ _
  | panic m => intro n; rfl

theorem probeN_pos_of {α : Type} (c : Comp α) (a : α) (h : c.probe = .ok (a, false)) :
    ∃ k', c.probeN 0 = .ok (a, k') ∧ 0 < k' := by
  unfold Comp.probe at h
  cases hp : c.probeN 0 with
  | error m => rw [hp] at h; cases h
  | ok p =>
    obtain ⟨a', n⟩ := p
    rw [hp] at h
    simp only [Except.ok.injEq, Prod.mk.injEq, beq_eq_false_iff_ne, ne_eq] at h
    exact ⟨n, by rw [h.1], by omega⟩

/-- A stage that first runs a stage which looks something up, and does not panic under the probe, is not
    mistaken for a constant. -/
theorem dyn_bind {α β : Type} {a : Comp α} {k : α → Comp β} (ha : ∃ v, a.probe = .ok (v, false))
    (htot : ∃ w, (a.bind k).run emptyCtx = .ok w) : ∃ v, (a.bind k).probe = .ok (v, false) := by
  obtain ⟨v, hv⟩ := ha
  obtain ⟨n, hn, hpos⟩ := probeN_pos_of a v hv
  obtain ⟨w, hw⟩ := htot
  obtain ⟨m, hm⟩ := probeN_of_run (a.bind k) 0 w hw
  have h1 := probeN_bind a k 0
  rw [hn] at h1
  simp only [] at h1
  rw [hm] at h1
  have := Comp.probeN_ge (k v) n w m h1.symm
  refine ⟨w, ?_⟩
  unfold Comp.probe
  rw [hm]
  simp only [Except.ok.injEq, Prod.mk.injEq, true_and, beq_eq_false_iff_ne, ne_eq]
  omega

/-- A total stage probes to its value in the empty context; if constant it *is* that value. -/
theorem static_val {s : Stage} {v : Bytes} (hp : s.probe = .ok (v, true)) : s = .ret v := Comp.probe_constant s v hp

theorem probe_total {s : Stage} (h : Total s) : ∃ v b, s.probe = .ok (v, b) ∧ s.run emptyCtx = .ok v := by
  obtain ⟨v, hv⟩ := h emptyCtx
  obtain ⟨b, hb⟩ := probe_of_run s v hv
  exact ⟨v, b, hb, hv⟩

/-! ### destructuring `cargs.map run = vals.map ok` -/

theorem map_run_1 {ctx : Ctx} {a : Stage} {vals : List Bytes} (h : [a].map (·.run ctx) = vals.map .ok) :
    ∃ v, vals = [v] ∧ a.run ctx = .ok v := by
  rcases vals with _ | ⟨v, _ | ⟨x, r⟩⟩ <;> simp at h
  exact ⟨v, rfl, h⟩

theorem map_run_2 {ctx : Ctx} {a b : Stage} {vals : List Bytes} (h : [a, b].map (·.run ctx) = vals.map .ok) :
    ∃ v w, vals = [v, w] ∧ a.run ctx = .ok v ∧ b.run ctx = .ok w := by
  rcases vals with _ | ⟨v, _ | ⟨w, _ | ⟨x, r⟩⟩⟩ <;> simp at h
  exact ⟨v, w, rfl, h.1, h.2⟩

theorem map_run_cons {ctx : Ctx} {a : Stage} {rest : List Stage} {vals : List Bytes}
    (h : (a :: rest).map (·.run ctx) = vals.map .ok) :
    ∃ v vs, vals = v :: vs ∧ a.run ctx = .ok v ∧ rest.map (·.run ctx) = vs.map .ok := by
  rcases vals with _ | ⟨v, vs⟩ <;> simp at h
  exact ⟨v, vs, rfl, h.1, h.2⟩

theorem len1 {α : Type} {l : List α} (h : l.length = 1) : ∃ a, l = [a] := by
  match l, h with
  | [a], _ => exact ⟨a, rfl⟩

theorem len2 {α : Type} {l : List α} (h : l.length = 2) : ∃ a b, l = [a, b] := by
  match l, h with
  | [a, b], _ => exact ⟨a, b, rfl⟩

theorem len3 {α : Type} {l : List α} (h : l.length = 3) : ∃ a b c, l = [a, b, c] := by
  match l, h with
  | [a, b, c], _ => exact ⟨a, b, c, rfl⟩

/-! ### the shape of an instance -/

/-- What an instance proves about one builder at one arity, for argument stages satisfying `pre`:
    no compile error, the value is `sem` of the argument values, and – if `first` – the stage starts by
    running its first argument (so a dynamic first argument makes the call dynamic). -/
structure Inst (b : Builder) (semf : List Bytes → Bytes) (cargs : List Stage) (stage : Stage) : Prop where
  built : b cargs = .ok ⟨some stage, none⟩
  run : ∀ (ctx : Ctx) (vals : List Bytes), cargs.map (·.run ctx) = vals.map .ok → stage.run ctx = .ok (semf vals)

/-- `stage` starts with its first argument. -/
def StartsWith (stage : Stage) (cargs : List Stage) : Prop :=
  ∀ a rest, cargs = a :: rest → ∃ k : Bytes → Stage, stage = a.bind k

/-- A dynamic first argument makes the stage dynamic. -/
def DynFirst (stage : Stage) (cargs : List Stage) : Prop :=
  ∀ a rest, cargs = a :: rest → (∃ v, a.probe = .ok (v, false)) → ∃ v, stage.probe = .ok (v, false)

theorem total_vals (ctx : Ctx) : ∀ cargs : List Stage, (∀ a ∈ cargs, Total a) →
    ∃ vals : List Bytes, cargs.map (·.run ctx) = vals.map .ok
  | [], _ => ⟨[], rfl⟩
  | a :: rest, h => by
    obtain ⟨v, hv⟩ := h a (by simp) ctx
    obtain ⟨vs, hvs⟩ := total_vals ctx rest fun x hx => h x (by simp [hx])
    exact ⟨v :: vs, by simp [hv, hvs]⟩

theorem dynFirst_of_startsWith {stage : Stage} {cargs : List Stage} (h : StartsWith stage cargs)
    (htot : ∃ w, stage.run emptyCtx = .ok w) : DynFirst stage cargs := by
  intro a rest hc ha
  obtain ⟨k, hk⟩ := h a rest hc
  rw [hk] at htot ⊢
  exact dyn_bind ha htot

/-- The entry is correct: for argument stages denoting the argument trees (any semantics, any certificate),
    at an admissible arity and under the side condition, the builder returns a stage that computes `sem` of
    the argument values and (if `first`) is dynamic whenever its first argument is. -/
def EntryOkV (e : Entry) : Prop :=
  ∀ (val : Val) (D : C09.Expr → Bool) (args : List C09.Expr) (cargs : List Stage), DenArgsV val D cargs args →
    e.arity args.length = true → e.pre ((fun a => val a emptyCtx)) D args = true →
    ∃ stage, Inst e.builder e.sem cargs stage ∧ (e.first = true → DynFirst stage cargs)

/-- Entries without side condition whose proof only needs the argument stages to be total. -/
theorem EntryOkV.simple {e : Entry}
    (h : ∀ cargs : List Stage, e.arity cargs.length = true → (∀ a ∈ cargs, Total a) →
      ∃ stage, Inst e.builder e.sem cargs stage ∧ (e.first = true → StartsWith stage cargs)) : EntryOkV e := by
  intro val D args cargs hden har _
  obtain ⟨stage, hi, hs⟩ := h cargs (by rw [hden.length]; exact har) hden.total
  refine ⟨stage, hi, fun hf => dynFirst_of_startsWith (hs hf) ?_⟩
  obtain ⟨vals, hv⟩ := total_vals emptyCtx cargs hden.total
  exact ⟨_, hi.run emptyCtx vals hv⟩

/-! ### Logic -/
namespace FL
open Funcs.Logic

theorem coalesce_run (ctx : Ctx) : ∀ (cargs : List Stage) (vals : List Bytes),
    cargs.map (·.run ctx) = vals.map .ok → (kfCoalesce.go cargs).run ctx = .ok (coalesceSem vals)
  | [], vals, h => by cases vals <;> simp at h; rfl
  | a :: rest, vals, h => by
    obtain ⟨v, vs, rfl, h0, hr⟩ := map_run_cons h
    unfold kfCoalesce.go coalesceSem
    rw [Comp.bind_eq, run_bind_ok h0]
    split
    · rfl
    · exact coalesce_run ctx rest vs hr

theorem coalesce_ok : EntryOkV coalesceE := EntryOkV.simple fun cargs _ _ =>
  ⟨kfCoalesce.go cargs, ⟨rfl, fun ctx vals h => coalesce_run ctx cargs vals h⟩, fun _ a rest hc => by
    subst hc; exact ⟨_, by rw [kfCoalesce.go]; rfl⟩⟩

theorem cmpGo_run (eq : Bytes → Bytes → Bytes) (ctx : Ctx) : ∀ (cargs : List Stage) (vals : List Bytes) (val : Bytes),
    cargs.map (·.run ctx) = vals.map .ok → (stringComparator.go eq val cargs).run ctx = .ok (cmpGoSem eq val vals)
  | [], vals, val, h => by cases vals <;> simp at h; rfl
  | a :: rest, vals, val, h => by
    obtain ⟨v, vs, rfl, h0, hr⟩ := map_run_cons h
    unfold stringComparator.go cmpGoSem
    rw [Comp.bind_eq, run_bind_ok h0]
    exact cmpGo_run eq ctx rest vs _ hr

theorem cmp_ok (eq : Bytes → Bytes → Bytes) : EntryOkV (cmpE eq) := EntryOkV.simple fun cargs har _ => by
  match cargs, har with
  | a0 :: a1 :: rest, _ =>
    refine ⟨_, ⟨rfl, fun ctx vals h => ?_⟩, fun _ a r hc => ?_⟩
    · obtain ⟨v0, vs, rfl, h0, hr⟩ := map_run_cons h
      obtain ⟨v1, vs', rfl, _, _⟩ := map_run_cons hr
      rw [Comp.bind_eq, run_bind_ok h0]
      exact cmpGo_run eq ctx _ _ _ hr
    · cases hc; exact ⟨_, rfl⟩

theorem not_ok : EntryOkV notE := EntryOkV.simple fun cargs har _ => by
  match cargs, har with
  | [a], _ =>
    refine ⟨_, ⟨rfl, fun ctx vals h => ?_⟩, fun _ a r hc => ?_⟩
    · obtain ⟨v, rfl, h0⟩ := map_run_1 h
      rw [Comp.bind_eq, run_bind_ok h0]; rfl
    · cases hc; exact ⟨_, rfl⟩

theorem and_run (ctx : Ctx) : ∀ (cargs : List Stage) (vals : List Bytes),
    cargs.map (·.run ctx) = vals.map .ok → (kfAnd.go cargs).run ctx = .ok (andSem vals)
  | [], vals, h => by cases vals <;> simp at h; rfl
  | a :: rest, vals, h => by
    obtain ⟨v, vs, rfl, h0, hr⟩ := map_run_cons h
    unfold kfAnd.go andSem
    rw [Comp.bind_eq, run_bind_ok h0]
    split
    · rfl
    · exact and_run ctx rest vs hr

theorem and_ok : EntryOkV andE := EntryOkV.simple fun cargs _ _ =>
  ⟨kfAnd.go cargs, ⟨rfl, fun ctx vals h => and_run ctx cargs vals h⟩, fun _ a rest hc => by
    subst hc; exact ⟨_, by rw [kfAnd.go]; rfl⟩⟩

theorem or_run (ctx : Ctx) : ∀ (cargs : List Stage) (vals : List Bytes),
    cargs.map (·.run ctx) = vals.map .ok → (kfOr.go cargs).run ctx = .ok (orSem vals)
  | [], vals, h => by cases vals <;> simp at h; rfl
  | a :: rest, vals, h => by
    obtain ⟨v, vs, rfl, h0, hr⟩ := map_run_cons h
    unfold kfOr.go orSem
    rw [Comp.bind_eq, run_bind_ok h0]
    split
    · rfl
    · exact or_run ctx rest vs hr

theorem or_ok : EntryOkV orE := EntryOkV.simple fun cargs _ _ =>
  ⟨kfOr.go cargs, ⟨rfl, fun ctx vals h => or_run ctx cargs vals h⟩, fun _ a rest hc => by
    subst hc; exact ⟨_, by rw [kfOr.go]; rfl⟩⟩

theorem if_ok : EntryOkV ifE := EntryOkV.simple fun cargs har _ => by
  match cargs, har with
  | [c, t], _ =>
    refine ⟨_, ⟨rfl, fun ctx vals h => ?_⟩, fun _ a r hc => ?_⟩
    · obtain ⟨vc, vt, rfl, hc, ht⟩ := map_run_2 h
      rw [Comp.bind_eq, run_bind_ok hc]
      simp only [ifE, ifSem']
      split
      · exact ht
      · rfl
    · cases hc; exact ⟨_, rfl⟩
  | [c, t, e], _ =>
    refine ⟨_, ⟨rfl, fun ctx vals h => ?_⟩, fun _ a r hc => ?_⟩
    · obtain ⟨vc, vt, ve, rfl, hc, ht, he⟩ := map_run_3 h
      rw [Comp.bind_eq, run_bind_ok hc]
      simp only [ifE, ifSem']
      split
      · exact ht
      · exact he
    · cases hc; exact ⟨_, rfl⟩

theorem unless_ok : EntryOkV unlessE := EntryOkV.simple fun cargs har _ => by
  match cargs, har with
  | [c, t], _ =>
    refine ⟨_, ⟨rfl, fun ctx vals h => ?_⟩, fun _ a r hc => ?_⟩
    · obtain ⟨vc, vt, rfl, hc, ht⟩ := map_run_2 h
      rw [Comp.bind_eq, run_bind_ok hc]
      simp only [unlessE, unlessSem]
      split
      · exact ht
      · rfl
    · cases hc; exact ⟨_, rfl⟩

theorem switch_run (ctx : Ctx) : ∀ (cargs : List Stage) (vals : List Bytes),
    cargs.map (·.run ctx) = vals.map .ok → (kfSwitch.go cargs).run ctx = .ok (switchSem vals)
  | [], vals, h => by cases vals <;> simp at h; rfl
  | [d], vals, h => by
    obtain ⟨v, rfl, h0⟩ := map_run_1 h
    simpa [kfSwitch.go, switchSem] using h0
  | c :: v :: rest, vals, h => by
    obtain ⟨vc, vs, rfl, h0, hr⟩ := map_run_cons h
    obtain ⟨vv, vs', rfl, h1, hr'⟩ := map_run_cons hr
    unfold kfSwitch.go switchSem
    rw [Comp.bind_eq, run_bind_ok h0]
    split
    · exact h1
    · exact switch_run ctx rest vs' hr'

theorem switch_ok : EntryOkV switchE := EntryOkV.simple fun cargs har _ => by
  have hlen : ¬ cargs.length ≤ 1 := by simp only [switchE, decide_eq_true_eq] at har; omega
  refine ⟨kfSwitch.go cargs, ⟨by simp [switchE, kfSwitch, hlen, Rare.Expr.ok], fun ctx vals h => switch_run ctx cargs vals h⟩,
    fun _ a rest hc => ?_⟩
  subst hc
  match rest, hlen with
  | v :: r, _ => exact ⟨_, by rw [kfSwitch.go]; rfl⟩

end FL

/-! ### typed arguments (`evalTypedStage` / `mapTypedArgs`) -/

theorem typed_den {α : Type} (parser : Bytes → Option α) {val : Val} {D : C09.Expr → Bool} {c : Stage} {a : C09.Expr}
    (hden : DenV val D c a) (hpre : typedArg parser ((fun a => val a emptyCtx)) D a = true) :
    ∃ t, evalTypedStage c parser = .ok (some t) ∧ (∀ ctx v, c.run ctx = .ok v → t.run ctx = .ok (parser v)) ∧
      ((∃ v, c.probe = .ok (v, false)) → t = c.bind fun v => .ret (parser v)) := by
  obtain ⟨v, b, hp, hv⟩ := probe_total (fun ctx => ⟨_, hden.run ctx⟩ : Total c)
  cases b with
  | true =>
    have hc := static_val hp
    have hD : D a = false := by
      cases hd : D a with
      | false => rfl
      | true => obtain ⟨w, hw⟩ := hden.dyn hd; rw [hp] at hw; cases hw
    have hval : (fun a => val a emptyCtx) a = v := by
      have := hden.run emptyCtx; rw [hv] at this; simpa using this.symm
    simp only [typedArg, hD, Bool.false_or, hval] at hpre
    cases hpv : parser v with
    | none => rw [hpv] at hpre; cases hpre
    | some p =>
      refine ⟨.ret (some p), by simp only [evalTypedStage, hp, hpv], fun ctx v' h' => ?_,
        fun ⟨w, hw⟩ => by rw [hp] at hw; cases hw⟩
      rw [hc] at h'
      simp only [Comp.run, Except.ok.injEq] at h'
      subst h'; rw [hpv]; rfl
  | false =>
    refine ⟨c.bind fun v => .ret (parser v), by simp only [evalTypedStage, hp]; rfl, fun ctx v' h' => ?_, fun _ => rfl⟩
    rw [run_bind_ok h']; rfl

theorem mapTyped_den {α : Type} (parser : Bytes → Option α) {val : Val} {D : C09.Expr → Bool} :
    ∀ {cargs : List Stage} {args : List C09.Expr}, DenArgsV val D cargs args →
      typedPre parser ((fun a => val a emptyCtx)) D args = true →
      ∃ typed, mapTypedArgs parser cargs = .ok (some typed) ∧
        (∀ (ctx : Ctx) (vals : List Bytes), cargs.map (·.run ctx) = vals.map .ok →
          typed.map (·.run ctx) = vals.map fun v => .ok (parser v)) ∧
        (∀ c rest, cargs = c :: rest → (∃ v, c.probe = .ok (v, false)) →
          ∃ trest, typed = (c.bind fun v => .ret (parser v)) :: trest)
  | [], [], _, _ => ⟨[], rfl, fun ctx vals h => by cases vals <;> simp at h; rfl, fun c rest h => by cases h⟩
  | c :: cs, a :: as, hden, hpre => by
    simp only [typedPre, List.all_cons, Bool.and_eq_true] at hpre
    obtain ⟨t, ht, hrun, hdyn⟩ := typed_den parser hden.1 hpre.1
    obtain ⟨ts, hts, hruns, _⟩ := mapTyped_den parser (cargs := cs) (args := as) hden.2 hpre.2
    refine ⟨t :: ts, by simp only [mapTypedArgs, ht, hts], fun ctx vals h => ?_, fun c' rest hc hp => ?_⟩
    · obtain ⟨v, vs, rfl, h0, hr⟩ := map_run_cons h
      simp only [List.map_cons, hrun ctx v h0, hruns ctx vs hr]
    · cases hc; exact ⟨ts, by rw [hdyn hp]⟩
  | [], _ :: _, h, _ => by cases h
  | _ :: _, [], h, _ => by cases h

/-! ### Arith: integer folds, bucketing -/
namespace FA
open Funcs.Arith

theorem foldRun_run (op : IntOp) (ctx : Ctx) : ∀ (typed : List (Comp (Option Int))) (vals : List Bytes) (acc : Int),
    typed.map (·.run ctx) = vals.map (fun v => .ok (atoi v)) → (foldRun op acc typed).run ctx = .ok (intFoldSem op acc vals)
  | [], vals, acc, h => by cases vals <;> simp at h; rfl
  | t :: rest, vals, acc, h => by
    rcases vals with _ | ⟨v, vs⟩ <;> simp only [List.map_cons, List.map_nil, List.cons.injEq] at h
    · cases h
    · unfold foldRun intFoldSem
      rw [Comp.bind_eq, run_bind_ok h.1]
      cases atoi v with
      | none => rfl
      | some x =>
        simp only []
        cases op acc x with
        | none => rfl
        | some r => exact foldRun_run op ctx rest vs r h.2

theorem intRun_run (op : IntOp) (ctx : Ctx) (typed : List (Comp (Option Int))) (vals : List Bytes)
    (h : typed.map (·.run ctx) = vals.map (fun v => .ok (atoi v))) : (intRun op typed).run ctx = .ok (intSem op vals) := by
  cases typed with
  | nil => cases vals <;> simp at h; rfl
  | cons t rest =>
    rcases vals with _ | ⟨v, vs⟩ <;> simp only [List.map_cons, List.map_nil, List.cons.injEq] at h
    · cases h
    · rw [intRun, intSem, Comp.bind_eq, run_bind_ok h.1]
      cases atoi v with
      | none => rfl
      | some x => exact foldRun_run op ctx rest vs x h.2

theorem int_ok (op : IntOp) : EntryOkV (intE op) := by
  intro val D args cargs hden har hpre
  obtain ⟨typed, hty, hruns, hfirst⟩ := mapTyped_den atoi hden hpre
  have hlen : ¬ cargs.length < 2 := by rw [hden.length]; simp only [intE, decide_eq_true_eq] at har; omega
  have hb : intHelper op cargs = .ok ⟨some (intRun op typed), none⟩ := by
    simp only [intHelper, hlen, if_false, hty]; rfl
  have hrun : ∀ (ctx : Ctx) (vals : List Bytes), cargs.map (·.run ctx) = vals.map .ok →
      (intRun op typed).run ctx = .ok (intSem op vals) :=
    fun ctx vals h => intRun_run op ctx typed vals (hruns ctx vals h)
  refine ⟨_, ⟨hb, hrun⟩, fun _ c rest hc hp => ?_⟩
  obtain ⟨trest, rfl⟩ := hfirst c rest hc hp
  obtain ⟨vals, hv⟩ := total_vals emptyCtx cargs hden.total
  have htot := hrun emptyCtx vals hv
  have hform : intRun op ((c.bind fun v => .ret (atoi v)) :: trest) =
      c.bind fun v => (Comp.ret (atoi v)).bind fun o => match o with
        | none => pure ErrorNum
        | some x => foldRun op x trest := by
    rw [intRun, Comp.bind_eq, Comp.bind_assoc]; rfl
  rw [hform] at htot ⊢
  exact dyn_bind hp ⟨_, htot⟩

theorem isint_ok : EntryOkV isintE := EntryOkV.simple fun cargs har _ => by
  match cargs, har with
  | [a], _ =>
    refine ⟨_, ⟨rfl, fun ctx vals h => ?_⟩, fun _ a r hc => ?_⟩
    · obtain ⟨v, rfl, h0⟩ := map_run_1 h
      rw [Comp.bind_eq, run_bind_ok h0]; rfl
    · cases hc; exact ⟨_, rfl⟩

theorem expbucket_ok : EntryOkV expbucketE := EntryOkV.simple fun cargs har _ => by
  match cargs, har with
  | [a], _ =>
    refine ⟨_, ⟨rfl, fun ctx vals h => ?_⟩, fun _ a r hc => ?_⟩
    · obtain ⟨v, rfl, h0⟩ := map_run_1 h
      rw [Comp.bind_eq, run_bind_ok h0]
      simp only [expbucketE, expbucketSem]
      cases atoi v <;> rfl
    · cases hc; exact ⟨_, rfl⟩

theorem litInt_den {val : Val} {D : C09.Expr → Bool} {c : Stage} {a : C09.Expr} {p : Int → Bool}
    (hden : DenV val D c a) (h : litInt p a = true) :
    ∃ (s : List Char) (n : Int), a = .lit s ∧ c = .ret (utf8 s) ∧ atoi (utf8 s) = some n ∧ p n = true ∧
      evalStageInt c = .ok (some n) := by
  cases a with
  | lit s =>
    simp only [litInt] at h
    cases hn : atoi (utf8 s) with
    | none => rw [hn] at h; cases h
    | some n =>
      rw [hn] at h
      have hc := hden.lit s rfl
      exact ⟨s, n, rfl, hc, hn, h, by rw [hc]; simp [evalStageInt, Comp.probe, Comp.probeN, hn]⟩
  | group n => cases h
  | key k => cases h
  | call f args => cases h

theorem bucket_ok (render : Int → Int → Bytes) : EntryOkV (bucketE render) := by
  intro val D args cargs hden har hpre
  obtain ⟨a0, a1, rfl⟩ := len2 (l := args) (by simpa [bucketE] using har)
  obtain ⟨c0, c1, rfl⟩ := len2 (l := cargs) (by rw [hden.length]; rfl)
  · simp only [bucketE, bucketPre] at hpre
    obtain ⟨s, n, rfl, hc1, hn, hp, hev⟩ := litInt_den hden.2.1 hpre
    have hpos : ¬ n ≤ 0 := by simpa using hp
    have hrun : ∀ (ctx : Ctx) (vals : List Bytes), [c0, c1].map (·.run ctx) = vals.map .ok →
        (c0.bind fun v => match atoi v with
          | none => pure ErrorNum
          | some val => pure (render val n)).run ctx = .ok (bucketSem render vals) := by
      intro ctx vals h
      obtain ⟨v0, v1, rfl, h0, h1⟩ := map_run_2 h
      rw [hc1] at h1
      simp only [Comp.run, Except.ok.injEq] at h1
      subst h1
      rw [run_bind_ok h0]
      simp only [bucketSem, hn]
      cases atoi v0 <;> rfl
    refine ⟨_, ⟨by simp only [bucketE, bucketBuilder, hev, hpos, if_false]; rfl, hrun⟩, fun _ => ?_⟩
    refine dynFirst_of_startsWith (fun a r hc => by cases hc; exact ⟨_, rfl⟩) ?_
    obtain ⟨vals, hv⟩ := total_vals emptyCtx [c0, c1] hden.total
    exact ⟨_, hrun emptyCtx vals hv⟩

theorem clamp_ok : EntryOkV clampE := by
  intro val D args cargs hden har hpre
  obtain ⟨a0, a1, a2, rfl⟩ := len3 (l := args) (by simpa [clampE] using har)
  obtain ⟨c0, c1, c2, rfl⟩ := len3 (l := cargs) (by rw [hden.length]; rfl)
  · simp only [clampE, clampPre, Bool.and_eq_true] at hpre
    obtain ⟨s1, mn, rfl, hc1, hn1, _, hev1⟩ := litInt_den hden.2.1 hpre.1
    obtain ⟨s2, mx, rfl, hc2, hn2, _, hev2⟩ := litInt_den hden.2.2.1 hpre.2
    have hrun : ∀ (ctx : Ctx) (vals : List Bytes), [c0, c1, c2].map (·.run ctx) = vals.map .ok →
        (c0.bind fun arg0 => match atoi arg0 with
          | none => pure ErrorNum
          | some val => pure (clampVal arg0 val mn mx)).run ctx = .ok (clampSem vals) := by
      intro ctx vals h
      obtain ⟨v0, v1, v2, rfl, h0, h1, h2⟩ := map_run_3 h
      rw [hc1] at h1; rw [hc2] at h2
      simp only [Comp.run, Except.ok.injEq] at h1 h2
      subst h1; subst h2
      rw [run_bind_ok h0]
      simp only [clampSem, hn1, hn2]
      cases atoi v0 <;> rfl
    refine ⟨_, ⟨by simp only [clampE, kfClamp, hev1, hev2]; rfl, hrun⟩, fun _ => ?_⟩
    refine dynFirst_of_startsWith (fun a r hc => by cases hc; exact ⟨_, rfl⟩) ?_
    obtain ⟨vals, hv⟩ := total_vals emptyCtx [c0, c1, c2] hden.total
    exact ⟨_, hrun emptyCtx vals hv⟩

end FA

/-! ### Float: comparisons, float folds, unary helpers -/
namespace FF
open Funcs.Float

theorem isnum_ok : EntryOkV isnumE := EntryOkV.simple fun cargs har _ => by
  obtain ⟨a, rfl⟩ := len1 (l := cargs) (by simpa [isnumE] using har)
  refine ⟨_, ⟨rfl, fun ctx vals h => ?_⟩, fun _ a r hc => ?_⟩
  · obtain ⟨v, rfl, h0⟩ := map_run_1 h
    rw [Comp.bind_eq, run_bind_ok h0]; rfl
  · cases hc; exact ⟨_, rfl⟩

theorem unary_ok (f : F64 → Bytes) : EntryOkV (unaryE f) := EntryOkV.simple fun cargs har _ => by
  obtain ⟨a, rfl⟩ := len1 (l := cargs) (by simpa [unaryE] using har)
  refine ⟨_, ⟨rfl, fun ctx vals h => ?_⟩, fun _ a r hc => ?_⟩
  · obtain ⟨v, rfl, h0⟩ := map_run_1 h
    rw [Comp.bind_eq, run_bind_ok h0]
    simp only [unaryE, unarySem]
    cases parseF v <;> rfl
  · cases hc; exact ⟨_, rfl⟩

theorem cmpF_ok (test : F64 → F64 → Bool) : EntryOkV (cmpFE test) := by
  intro val D args cargs hden har hpre
  obtain ⟨a0, a1, rfl⟩ := len2 (l := args) (by simpa [cmpFE] using har)
  obtain ⟨c0, c1, rfl⟩ := len2 (l := cargs) (by rw [hden.length]; rfl)
  simp only [cmpFE, typedPre, List.all_cons, List.all_nil, Bool.and_true, Bool.and_eq_true] at hpre
  obtain ⟨l, hl, hlrun, hldyn⟩ := typed_den parseF hden.1 hpre.1
  obtain ⟨r, hr, hrrun, _⟩ := typed_den parseF hden.2.1 hpre.2
  have hrun : ∀ (ctx : Ctx) (vals : List Bytes), [c0, c1].map (·.run ctx) = vals.map .ok →
      (l.bind fun lv => match lv with
        | none => pure ErrorNum
        | some x => r.bind fun rv => match rv with
          | none => pure ErrorNum
          | some y => pure (truthyStr (test x y))).run ctx = .ok (cmpFSem test vals) := by
    intro ctx vals h
    obtain ⟨v0, v1, rfl, h0, h1⟩ := map_run_2 h
    rw [run_bind_ok (hlrun ctx v0 h0)]
    simp only [cmpFSem]
    cases parseF v0 with
    | none => rfl
    | some x =>
      simp only []
      rw [run_bind_ok (hrrun ctx v1 h1)]
      cases parseF v1 <;> rfl
  refine ⟨_, ⟨by simp only [cmpFE, cmpHelper, hl, hr]; rfl, hrun⟩, fun _ c rest hc hp => ?_⟩
  cases hc
  obtain ⟨vals, hv⟩ := total_vals emptyCtx [c0, c1] hden.total
  have htot := hrun emptyCtx vals hv
  rw [hldyn hp, Comp.bind_assoc] at htot ⊢
  exact dyn_bind hp ⟨_, htot⟩

theorem foldRunF_run (op : F64 → F64 → F64) (ctx : Ctx) : ∀ (typed : List (Comp (Option F64))) (vals : List Bytes) (acc : F64),
    typed.map (·.run ctx) = vals.map (fun v => .ok (parseF v)) →
    (foldRunF op acc typed).run ctx = .ok (floatFoldSem op acc vals)
  | [], vals, acc, h => by cases vals <;> simp at h; rfl
  | t :: rest, vals, acc, h => by
    rcases vals with _ | ⟨v, vs⟩ <;> simp only [List.map_cons, List.map_nil, List.cons.injEq] at h
    · cases h
    · rw [foldRunF, floatFoldSem, Comp.bind_eq, run_bind_ok h.1]
      cases parseF v with
      | none => rfl
      | some x => exact foldRunF_run op ctx rest vs _ h.2

theorem float_ok (op : F64 → F64 → F64) : EntryOkV (floatE op) := by
  intro val D args cargs hden har hpre
  obtain ⟨typed, hty, hruns, hfirst⟩ := mapTyped_den parseF hden hpre
  have hlen : ¬ cargs.length < 2 := by rw [hden.length]; simp only [floatE, decide_eq_true_eq] at har; omega
  have hb : floatHelper op cargs = .ok ⟨some (floatRun op typed), none⟩ := by
    simp only [floatHelper, hlen, if_false, hty]; rfl
  have hrun : ∀ (ctx : Ctx) (vals : List Bytes), cargs.map (·.run ctx) = vals.map .ok →
      (floatRun op typed).run ctx = .ok (floatSem op vals) := by
    intro ctx vals h
    have ht := hruns ctx vals h
    cases typed with
    | nil => cases vals <;> simp at ht; rfl
    | cons t rest =>
      rcases vals with _ | ⟨v, vs⟩ <;> simp only [List.map_cons, List.map_nil, List.cons.injEq] at ht
      · cases ht
      · rw [floatRun, floatSem, Comp.bind_eq, run_bind_ok ht.1]
        cases parseF v with
        | none => rfl
        | some x => exact foldRunF_run op ctx rest vs x ht.2
  refine ⟨_, ⟨hb, hrun⟩, fun _ c rest hc hp => ?_⟩
  obtain ⟨trest, rfl⟩ := hfirst c rest hc hp
  obtain ⟨vals, hv⟩ := total_vals emptyCtx cargs hden.total
  have htot := hrun emptyCtx vals hv
  have hform : floatRun op ((c.bind fun v => .ret (parseF v)) :: trest) =
      c.bind fun v => (Comp.ret (parseF v)).bind fun o => match o with
        | none => pure ErrorNum
        | some x => foldRunF op x trest := by
    rw [floatRun, Comp.bind_eq, Comp.bind_assoc]; rfl
  rw [hform] at htot ⊢
  exact dyn_bind hp ⟨_, htot⟩

end FF

/-! ### Strings, paths -/
namespace FS
open Funcs.Strings Funcs.Misc

theorem len_ok : EntryOkV lenE := EntryOkV.simple fun cargs har _ => by
  obtain ⟨a, rfl⟩ := len1 (l := cargs) (by simpa [lenE] using har)
  refine ⟨_, ⟨rfl, fun ctx vals h => ?_⟩, fun _ a r hc => ?_⟩
  · obtain ⟨v, rfl, h0⟩ := map_run_1 h
    rw [Comp.bind_eq, run_bind_ok h0]; rfl
  · cases hc; exact ⟨_, rfl⟩

theorem path_ok (f : Bytes → Bytes) : EntryOkV (pathE f) := EntryOkV.simple fun cargs har _ => by
  obtain ⟨a, rfl⟩ := len1 (l := cargs) (by simpa [pathE] using har)
  refine ⟨_, ⟨rfl, fun ctx vals h => ?_⟩, fun _ a r hc => ?_⟩
  · obtain ⟨v, rfl, h0⟩ := map_run_1 h
    rw [Comp.bind_eq, run_bind_ok h0]; rfl
  · cases hc; exact ⟨_, rfl⟩

theorem hi_ok : EntryOkV hiE := EntryOkV.simple fun cargs har _ => by
  obtain ⟨a, rfl⟩ := len1 (l := cargs) (by simpa [hiE] using har)
  refine ⟨_, ⟨rfl, fun ctx vals h => ?_⟩, fun _ a r hc => ?_⟩
  · obtain ⟨v, rfl, h0⟩ := map_run_1 h
    rw [Comp.bind_eq, run_bind_ok h0]
    simp only [hiE, hiSem]
    cases atoi v <;> rfl
  · cases hc; exact ⟨_, rfl⟩

theorem test_ok (test : Bytes → Bytes → Bool) : EntryOkV (testE test) := EntryOkV.simple fun cargs har _ => by
  obtain ⟨a, b, rfl⟩ := len2 (l := cargs) (by simpa [testE] using har)
  refine ⟨_, ⟨rfl, fun ctx vals h => ?_⟩, fun _ a r hc => ?_⟩
  · obtain ⟨v, w, rfl, h0, h1⟩ := map_run_2 h
    rw [Comp.bind_eq, run_bind_ok h0, Comp.bind_eq, run_bind_ok h1]; rfl
  · cases hc; exact ⟨_, rfl⟩

theorem select_ok : EntryOkV selectE := EntryOkV.simple fun cargs har _ => by
  obtain ⟨a, b, rfl⟩ := len2 (l := cargs) (by simpa [selectE] using har)
  refine ⟨_, ⟨rfl, fun ctx vals h => ?_⟩, fun _ a r hc => ?_⟩
  · obtain ⟨v, w, rfl, h0, h1⟩ := map_run_2 h
    rw [Comp.bind_eq, run_bind_ok h0, Comp.bind_eq, run_bind_ok h1]
    simp only [selectE, selectSem]
    cases atoi w <;> rfl
  · cases hc; exact ⟨_, rfl⟩

theorem substr_ok : EntryOkV substrE := EntryOkV.simple fun cargs har _ => by
  obtain ⟨a, b, c, rfl⟩ := len3 (l := cargs) (by simpa [substrE] using har)
  refine ⟨_, ⟨rfl, fun ctx vals h => ?_⟩, fun _ a r hc => ?_⟩
  · obtain ⟨v, w, x, rfl, h0, h1, h2⟩ := map_run_3 h
    rw [Comp.bind_eq, run_bind_ok h0]
    simp only [substrE, substrSem]
    split
    · rfl
    · split
      · rfl
      · rename_i hlen
        rw [Comp.bind_eq, run_bind_ok h1, Comp.bind_eq, run_bind_ok h2]
        cases hl : atoi w with
        | none => rfl
        | some left =>
          cases hn : atoi x with
          | none => rfl
          | some len =>
            simp only []
            rw [Rare.C11.substrVal_spec v left len (by omega) (Rare.C11.atoi_inInt64 hl) (Rare.C11.atoi_inInt64 hn)]
            rfl
  · cases hc; exact ⟨_, rfl⟩

theorem joinRun_run (d : Bytes) (ctx : Ctx) : ∀ (cargs : List Stage) (vals : List Bytes),
    cargs.map (·.run ctx) = vals.map .ok → (joinRun d cargs).run ctx = .ok (joinRunSem d vals)
  | [], vals, h => by cases vals <;> simp at h; rfl
  | a :: rest, vals, h => by
    obtain ⟨v, vs, rfl, h0, hr⟩ := map_run_cons h
    rw [joinRun, joinRunSem, Comp.bind_eq, run_bind_ok h0, Comp.bind_eq, run_bind_ok (joinRun_run d ctx rest vs hr)]
    rfl

theorem join_ok (d : Bytes) : EntryOkV (joinE d) := EntryOkV.simple fun cargs har _ => by
  match cargs, har with
  | [a], _ =>
    refine ⟨a, ⟨rfl, fun ctx vals h => ?_⟩, fun _ a' r hc => ?_⟩
    · obtain ⟨v, rfl, h0⟩ := map_run_1 h; exact h0
    · cases hc; exact ⟨.ret, (Comp.bind_ret _).symm⟩
  | a :: b :: rest, _ =>
    refine ⟨_, ⟨rfl, fun ctx vals h => ?_⟩, fun _ a' r hc => ?_⟩
    · obtain ⟨v, vs, rfl, h0, hr⟩ := map_run_cons h
      obtain ⟨w, ws, rfl, _, _⟩ := map_run_cons hr
      rw [Comp.bind_eq, run_bind_ok h0, Comp.bind_eq, run_bind_ok (joinRun_run d ctx _ _ hr)]
      rfl
    · cases hc; exact ⟨_, rfl⟩

theorem csvRun_run (ctx : Ctx) : ∀ (cargs : List Stage) (vals acc : List Bytes),
    cargs.map (·.run ctx) = vals.map .ok → (csvRun cargs acc).run ctx = .ok (csvRecord (acc ++ vals))
  | [], vals, acc, h => by cases vals <;> simp at h; simp [csvRun, Comp.run]
  | a :: rest, vals, acc, h => by
    obtain ⟨v, vs, rfl, h0, hr⟩ := map_run_cons h
    rw [csvRun, Comp.bind_eq, run_bind_ok h0, csvRun_run ctx rest vs _ hr]
    simp

theorem csv_ok : EntryOkV csvE := EntryOkV.simple fun cargs har _ => by
  match cargs, har with
  | a :: rest, _ =>
    refine ⟨csvRun (a :: rest) [], ⟨rfl, fun ctx vals h => ?_⟩, fun _ a' r hc => ?_⟩
    · have := csvRun_run ctx (a :: rest) vals [] h
      simpa [csvE] using this
    · cases hc; exact ⟨_, by rw [csvRun]; rfl⟩

end FS

/-! ### Arrays (no sub-context): `@len`, `@split`, `@join`, `@in` -/
namespace FR
open Funcs.Range Rare.C17

theorem alen_ok : EntryOkV alenE := EntryOkV.simple fun cargs har _ => by
  obtain ⟨a, rfl⟩ := len1 (l := cargs) (by simpa [alenE] using har)
  refine ⟨lenStage a, ⟨rfl, fun ctx vals h => ?_⟩, fun _ a r hc => ?_⟩
  · obtain ⟨v, rfl, h0⟩ := map_run_1 h
    exact len_spec_wrapped ctx a v h0
  · cases hc; exact ⟨_, rfl⟩

theorem optLit_den {p : Bytes → Bool} {val : Val} {D : C09.Expr → Bool} {ev : C09.Expr → Bytes} {args : List C09.Expr}
    {cargs : List Stage} (hden : DenArgsV val D cargs args) (h : optLit p ev D args = true) :
    (∃ c0, cargs = [c0]) ∨ (∃ c0 s, cargs = [c0, .ret (utf8 s)] ∧ p (utf8 s) = true) := by
  match args, cargs, hden, h with
  | [a0], [c0], _, _ => exact Or.inl ⟨c0, rfl⟩
  | [a0, .lit s], [c0, c1], hden, h =>
    exact Or.inr ⟨c0, s, by rw [hden.2.1.lit s rfl], h⟩

theorem probe_ret (v : Bytes) : (Comp.ret v : Stage).probe = .ok (v, true) := rfl

theorem split_ok : EntryOkV splitE := by
  intro val D args cargs hden har hpre
  have hsp : (ascii " ") ≠ [] := by decide +kernel
  have hspl : (ascii " ").length ≠ 0 := by decide +kernel
  rcases optLit_den (p := fun d => !d.isEmpty) (ev := (fun a => val a emptyCtx)) hden hpre with ⟨c0, rfl⟩ | ⟨c0, s, rfl, hp⟩
  · have hrun : ∀ (ctx : Ctx) (vals : List Bytes), [c0].map (·.run ctx) = vals.map .ok →
        (splitStage (ascii " ") c0).run ctx = .ok (splitSem vals) := by
      intro ctx vals h
      obtain ⟨v, rfl, h0⟩ := map_run_1 h
      exact split_spec ctx c0 v _ hsp h0
    refine ⟨_, ⟨by simp [splitE, kfArraySplit, argCountBetween, evalStageIndexOrDefault, hspl]; rfl, hrun⟩, fun _ => ?_⟩
    refine dynFirst_of_startsWith (fun a r hc => by cases hc; exact ⟨_, rfl⟩) ?_
    obtain ⟨vals, hv⟩ := total_vals emptyCtx [c0] hden.total
    exact ⟨_, hrun emptyCtx vals hv⟩
  · have hd : utf8 s ≠ [] := by simpa using hp
    have hdl : (utf8 s).length ≠ 0 := by simpa using hd
    have hrun : ∀ (ctx : Ctx) (vals : List Bytes), [c0, .ret (utf8 s)].map (·.run ctx) = vals.map .ok →
        (splitStage (utf8 s) c0).run ctx = .ok (splitSem vals) := by
      intro ctx vals h
      obtain ⟨v, w, rfl, h0, h1⟩ := map_run_2 h
      simp only [Comp.run, Except.ok.injEq] at h1
      subst h1
      exact split_spec ctx c0 v _ hd h0
    refine ⟨_, ⟨by simp [splitE, kfArraySplit, argCountBetween, evalStageIndexOrDefault, probe_ret, hdl]; rfl, hrun⟩,
      fun _ => ?_⟩
    refine dynFirst_of_startsWith (fun a r hc => by cases hc; exact ⟨_, rfl⟩) ?_
    obtain ⟨vals, hv⟩ := total_vals emptyCtx _ hden.total
    exact ⟨_, hrun emptyCtx vals hv⟩

theorem ajoin_ok : EntryOkV ajoinE := by
  intro val D args cargs hden har hpre
  rcases optLit_den (p := fun _ => true) (ev := (fun a => val a emptyCtx)) hden hpre with ⟨c0, rfl⟩ | ⟨c0, s, rfl, _⟩
  · have hrun : ∀ (ctx : Ctx) (vals : List Bytes), [c0].map (·.run ctx) = vals.map .ok →
        (joinStage (ascii " ") c0).run ctx = .ok (ajoinSem vals) := by
      intro ctx vals h
      obtain ⟨v, rfl, h0⟩ := map_run_1 h
      exact join_spec ctx c0 v _ h0
    refine ⟨_, ⟨by simp [ajoinE, kfArrayJoin, argCountBetween, evalStageIndexOrDefault]; rfl, hrun⟩, fun _ => ?_⟩
    refine dynFirst_of_startsWith (fun a r hc => by cases hc; exact ⟨_, rfl⟩) ?_
    obtain ⟨vals, hv⟩ := total_vals emptyCtx [c0] hden.total
    exact ⟨_, hrun emptyCtx vals hv⟩
  · have hrun : ∀ (ctx : Ctx) (vals : List Bytes), [c0, .ret (utf8 s)].map (·.run ctx) = vals.map .ok →
        (joinStage (utf8 s) c0).run ctx = .ok (ajoinSem vals) := by
      intro ctx vals h
      obtain ⟨v, w, rfl, h0, h1⟩ := map_run_2 h
      simp only [Comp.run, Except.ok.injEq] at h1
      subst h1
      exact join_spec ctx c0 v _ h0
    refine ⟨_, ⟨by simp [ajoinE, kfArrayJoin, argCountBetween, evalStageIndexOrDefault, probe_ret]; rfl, hrun⟩,
      fun _ => ?_⟩
    refine dynFirst_of_startsWith (fun a r hc => by cases hc; exact ⟨_, rfl⟩) ?_
    obtain ⟨vals, hv⟩ := total_vals emptyCtx _ hden.total
    exact ⟨_, hrun emptyCtx vals hv⟩

theorem in_ok : EntryOkV inE := by
  intro val D args cargs hden har hpre
  match args, cargs, hden, hpre with
  | [a0, .lit s], [c0, c1], hden, _ =>
    have hc1 : c1 = .ret (utf8 s) := hden.2.1.lit s rfl
    subst hc1
    have hrun : ∀ (ctx : Ctx) (vals : List Bytes), [c0, .ret (utf8 s)].map (·.run ctx) = vals.map .ok →
        (inStage (splitByte ArraySeparator (utf8 s) []) c0).run ctx = .ok (inSem vals) := by
      intro ctx vals h
      obtain ⟨v, w, rfl, h0, h1⟩ := map_run_2 h
      simp only [Comp.run, Except.ok.injEq] at h1
      subst h1
      exact (in_spec ctx c0 (.ret (utf8 s)) v (utf8 s) h0 rfl).2
    refine ⟨_, ⟨by simp only [inE, kfArrayIn, probe_ret]; rfl, hrun⟩, fun _ => ?_⟩
    refine dynFirst_of_startsWith (fun a r hc => by cases hc; exact ⟨_, rfl⟩) ?_
    obtain ⟨vals, hv⟩ := total_vals emptyCtx _ hden.total
    exact ⟨_, hrun emptyCtx vals hv⟩

end FR

/-! ### round 2: `@select @slice @range`, `upper lower repeat lookup haskey`, `round percent`, the unit helpers -/
namespace FR
open Funcs.Range Rare.C17

theorem aselect_ok : EntryOkV aselectE := by
  intro val D args cargs hden har hpre
  obtain ⟨a0, a1, rfl⟩ := len2 (l := args) (by simpa [aselectE] using har)
  obtain ⟨c0, c1, rfl⟩ := len2 (l := cargs) (by rw [hden.length]; rfl)
  simp only [aselectE, aselectPre] at hpre
  obtain ⟨s, n, rfl, hc1, hn, _, hev⟩ := FA.litInt_den hden.2.1 hpre
  have hrun : ∀ (ctx : Ctx) (vals : List Bytes), [c0, c1].map (·.run ctx) = vals.map .ok →
      (selectStage n c0).run ctx = .ok (aselectSem vals) := by
    intro ctx vals h
    obtain ⟨v0, v1, rfl, h0, h1⟩ := map_run_2 h
    rw [hc1] at h1
    simp only [Comp.run, Except.ok.injEq] at h1
    subst h1
    rw [(select_spec_wrapped ctx c0 c1 v0 n hev h0).2]
    simp only [aselectSem, hn]
  refine ⟨_, ⟨by simp only [aselectE, kfArraySelect, hev]; rfl, hrun⟩, fun _ => ?_⟩
  refine dynFirst_of_startsWith (fun a r hc => by cases hc; exact ⟨_, rfl⟩) ?_
  obtain ⟨vals, hv⟩ := total_vals emptyCtx [c0, c1] hden.total
  exact ⟨_, hrun emptyCtx vals hv⟩

theorem aslice_ok : EntryOkV asliceE := by
  intro val D args cargs hden har hpre
  match args, cargs, hden, hpre with
  | [a0, a1], [c0, c1], hden, hpre =>
    simp only [asliceE, aslicePre] at hpre
    obtain ⟨s, n, rfl, hc1, hn, _, hev⟩ := FA.litInt_den hden.2.1 hpre
    have hsp := fun ctx v0 h0 => slice_spec_wrapped ctx c0 c1 [] v0 n (-1) (by simp) hev rfl h0
    have hrun : ∀ (ctx : Ctx) (vals : List Bytes), [c0, c1].map (·.run ctx) = vals.map .ok →
        (sliceStage n (-1) c0).run ctx = .ok (asliceSem vals) := by
      intro ctx vals h
      obtain ⟨v0, v1, rfl, h0, h1⟩ := map_run_2 h
      rw [hc1] at h1
      simp only [Comp.run, Except.ok.injEq] at h1
      subst h1
      rw [(hsp ctx v0 h0).2]
      simp only [asliceSem, hn]
    obtain ⟨vals, hv⟩ := total_vals emptyCtx [c0, c1] hden.total
    obtain ⟨v0, v1, rfl, h0, _⟩ := map_run_2 hv
    refine ⟨_, ⟨(hsp emptyCtx v0 h0).1, hrun⟩, fun _ => ?_⟩
    refine dynFirst_of_startsWith (fun a r hc => by cases hc; exact ⟨_, rfl⟩) ?_
    exact ⟨_, hrun emptyCtx _ hv⟩
  | [a0, a1, a2], [c0, c1, c2], hden, hpre =>
    simp only [asliceE, aslicePre, Bool.and_eq_true] at hpre
    obtain ⟨s, n, rfl, hc1, hn, _, hev⟩ := FA.litInt_den hden.2.1 hpre.1
    obtain ⟨s2, n2, rfl, hc2, hn2, _, hev2⟩ := FA.litInt_den hden.2.2.1 hpre.2
    have hsp := fun ctx v0 h0 => slice_spec_wrapped ctx c0 c1 [c2] v0 n n2 (by simp) hev hev2 h0
    have hrun : ∀ (ctx : Ctx) (vals : List Bytes), [c0, c1, c2].map (·.run ctx) = vals.map .ok →
        (sliceStage n n2 c0).run ctx = .ok (asliceSem vals) := by
      intro ctx vals h
      obtain ⟨v0, v1, v2, rfl, h0, h1, h2⟩ := map_run_3 h
      rw [hc1] at h1; rw [hc2] at h2
      simp only [Comp.run, Except.ok.injEq] at h1 h2
      subst h1; subst h2
      rw [(hsp ctx v0 h0).2]
      simp only [asliceSem, hn, hn2]
    obtain ⟨vals, hv⟩ := total_vals emptyCtx [c0, c1, c2] hden.total
    obtain ⟨v0, v1, v2, rfl, h0, _, _⟩ := map_run_3 hv
    refine ⟨_, ⟨(hsp emptyCtx v0 h0).1, hrun⟩, fun _ => ?_⟩
    refine dynFirst_of_startsWith (fun a r hc => by cases hc; exact ⟨_, rfl⟩) ?_
    exact ⟨_, hrun emptyCtx _ hv⟩

/-- `rangeStage` on argument stages that return: the closed form of `C17.range_spec_closed` plus the
    `<BAD-TYPE>` cases. -/
theorem rangeStage_run (ctx : Ctx) (sa sb sc : Stage) (a b c : Bytes)
    (ha : sa.run ctx = .ok a) (hb : sb.run ctx = .ok b) (hc : sc.run ctx = .ok c) :
    (rangeStage sa sb sc).run ctx = .ok (rangeVal a b c) := by
  unfold rangeVal
  cases pa : atoi a with
  | none => exact range_bad_type ctx sa sb sc a ha pa
  | some start =>
    cases pb : atoi b with
    | none =>
      unfold rangeStage
      rw [Rare.C17.run_bind_ok ctx _ _ _ ha]; simp only [pa]
      rw [Rare.C17.run_bind_ok ctx _ _ _ hb]; simp only [pb]; rfl
    | some stop =>
      cases pc : atoi c with
      | none =>
        unfold rangeStage
        rw [Rare.C17.run_bind_ok ctx _ _ _ ha]; simp only [pa]
        rw [Rare.C17.run_bind_ok ctx _ _ _ hb]; simp only [pb]
        rw [Rare.C17.run_bind_ok ctx _ _ _ hc]; simp only [pc]; rfl
      | some incr => exact range_spec_closed ctx sa sb sc a b c start stop incr ha hb hc pa pb pc

theorem arange_ok : EntryOkV arangeE := EntryOkV.simple fun cargs har htot => by
  have hlit : ∀ (ctx : Ctx) (t : String), (Stage.lit (ascii t)).run ctx = .ok (ascii t) := fun _ _ => rfl
  match cargs, har with
  | [c0], _ =>
    refine ⟨_, ⟨rfl, fun ctx vals h => ?_⟩, fun hf => by simp [arangeE] at hf⟩
    obtain ⟨v, rfl, h0⟩ := map_run_1 h
    exact rangeStage_run ctx _ _ _ _ _ _ (hlit ctx "0") h0 (hlit ctx "1")
  | [c0, c1], _ =>
    refine ⟨_, ⟨rfl, fun ctx vals h => ?_⟩, fun hf => by simp [arangeE] at hf⟩
    obtain ⟨v, w, rfl, h0, h1⟩ := map_run_2 h
    exact rangeStage_run ctx _ _ _ _ _ _ h0 h1 (hlit ctx "1")
  | [c0, c1, c2], _ =>
    refine ⟨_, ⟨rfl, fun ctx vals h => ?_⟩, fun hf => by simp [arangeE] at hf⟩
    obtain ⟨v, w, x, rfl, h0, h1, h2⟩ := map_run_3 h
    exact rangeStage_run ctx _ _ _ _ _ _ h0 h1 h2

end FR

namespace FS
open Funcs.Strings Funcs.Misc

theorem case_ok (f : UInt8 → UInt8) : EntryOkV (caseE f) := by
  intro val D args cargs hden har hpre
  match args, cargs, hden, hpre with
  | [.lit s], [c0], hden, hpre =>
    have hc : c0 = .ret (utf8 s) := hden.1.lit s rfl
    subst hc
    have hp : (utf8 s).all (· < 128) = true := hpre
    have hrun : ∀ (ctx : Ctx) (vals : List Bytes), [(.ret (utf8 s) : Stage)].map (·.run ctx) = vals.map .ok →
        ((.ret (utf8 s) : Stage).bind fun v =>
          if v.all (· < 128) then pure (v.map f) else .panic "unmodelled:non-ascii-case").run ctx =
          .ok (mapSem (fun v => v.map f) vals) := by
      intro ctx vals h
      obtain ⟨v, rfl, h0⟩ := map_run_1 h
      simp only [Comp.run, Except.ok.injEq] at h0
      subst h0
      simp only [Comp.bind, hp, if_true, mapSem]; rfl
    refine ⟨_, ⟨rfl, hrun⟩, fun _ => ?_⟩
    refine dynFirst_of_startsWith (fun a r hc => by cases hc; exact ⟨_, rfl⟩) ?_
    exact ⟨_, hrun emptyCtx [utf8 s] rfl⟩

theorem repeat_ok : EntryOkV repeatE := by
  intro val D args cargs hden har hpre
  match args, cargs, hden, hpre with
  | [.lit s, a1], [c0, c1], hden, _ =>
    have hc : c0 = .ret (utf8 s) := hden.1.lit s rfl
    subst hc
    refine ⟨_, ⟨by simp only [repeatE, kfRepeat, FR.probe_ret]; rfl, fun ctx vals h => ?_⟩, fun hf => by simp [repeatE] at hf⟩
    obtain ⟨v0, v1, rfl, h0, h1⟩ := map_run_2 h
    simp only [Comp.run, Except.ok.injEq] at h0
    subst h0
    rw [Comp.bind_eq, run_bind_ok h1]
    simp only [repeatE, repeatSem]
    cases atoi v1 with
    | none => rfl
    | some count =>
      simp only []
      split
      · rfl
      · split <;> rfl

theorem lookup_ok (render : Option Bytes → Bytes) : EntryOkV (lookupE render) := by
  intro val D args cargs hden har hpre
  match args, cargs, hden, hpre with
  | [a0, .lit s], [c0, c1], hden, _ =>
    have hc : c1 = .ret (utf8 s) := hden.2.1.lit s rfl
    subst hc
    have hrun : ∀ (ctx : Ctx) (vals : List Bytes), [c0, .ret (utf8 s)].map (·.run ctx) = vals.map .ok →
        (c0.bind fun key => pure (render (tableGet (buildLookupTable (utf8 s) []) key))).run ctx =
          .ok (lookupSem render vals) := by
      intro ctx vals h
      obtain ⟨v0, v1, rfl, h0, h1⟩ := map_run_2 h
      simp only [Comp.run, Except.ok.injEq] at h1
      subst h1
      rw [run_bind_ok h0]; rfl
    refine ⟨_, ⟨by simp [lookupE, lookupBuilder, FR.probe_ret, evalStageIndexOrDefault]; rfl, hrun⟩, fun _ => ?_⟩
    refine dynFirst_of_startsWith (fun a r hc => by cases hc; exact ⟨_, rfl⟩) ?_
    obtain ⟨vals, hv⟩ := total_vals emptyCtx _ hden.total
    exact ⟨_, hrun emptyCtx vals hv⟩
  | [a0, .lit s, .lit p], [c0, c1, c2], hden, _ =>
    have hc : c1 = .ret (utf8 s) := hden.2.1.lit s rfl
    have hc2 : c2 = .ret (utf8 p) := hden.2.2.1.lit p rfl
    subst hc; subst hc2
    have hrun : ∀ (ctx : Ctx) (vals : List Bytes), [c0, .ret (utf8 s), .ret (utf8 p)].map (·.run ctx) = vals.map .ok →
        (c0.bind fun key => pure (render (tableGet (buildLookupTable (utf8 s) (utf8 p)) key))).run ctx =
          .ok (lookupSem render vals) := by
      intro ctx vals h
      obtain ⟨v0, v1, v2, rfl, h0, h1, h2⟩ := map_run_3 h
      simp only [Comp.run, Except.ok.injEq] at h1 h2
      subst h1; subst h2
      rw [run_bind_ok h0]; rfl
    refine ⟨_, ⟨by simp [lookupE, lookupBuilder, FR.probe_ret, evalStageIndexOrDefault]; rfl, hrun⟩, fun _ => ?_⟩
    refine dynFirst_of_startsWith (fun a r hc => by cases hc; exact ⟨_, rfl⟩) ?_
    obtain ⟨vals, hv⟩ := total_vals emptyCtx _ hden.total
    exact ⟨_, hrun emptyCtx vals hv⟩

end FS

namespace FF
open Funcs.Float

/-- The optional constant precision argument as the builders see it (`EvalArgInt(args, 1, dflt)`). -/
theorem prec_den {val : Val} {D : C09.Expr → Bool} {ev : C09.Expr → Bytes} {args : List C09.Expr} {cargs : List Stage}
    (dflt : Int) (hden : DenArgsV val D cargs args) (h : precPre ev D args = true) :
    (∃ c0, cargs = [c0] ∧ evalArgInt cargs 1 dflt = .ok (some dflt)) ∨
    (∃ c0 s n, cargs = [c0, .ret (utf8 s)] ∧ atoi (utf8 s) = some n ∧ n ≤ maxPrecision ∧
      evalArgInt cargs 1 dflt = .ok (some n)) := by
  match args, cargs, hden, h with
  | [a0], [c0], _, _ => exact Or.inl ⟨c0, rfl, rfl⟩
  | [a0, a1], [c0, c1], hden, h =>
    simp only [precPre] at h
    obtain ⟨s, n, rfl, hc1, hn, hp, hev⟩ := FA.litInt_den hden.2.1 h
    subst hc1
    exact Or.inr ⟨c0, s, n, rfl, hn, by simpa using hp, hev⟩

theorem round_ok : EntryOkV roundE := by
  intro val D args cargs hden har hpre
  have hfin : ∀ (c0 : Stage) (precision : Int) (cs : List Stage) (sem : List Bytes → Bytes),
      (∀ (ctx : Ctx) (vals : List Bytes), (c0 :: cs).map (·.run ctx) = vals.map .ok → ∃ v, c0.run ctx = .ok v ∧
        sem vals = roundVal v precision) → (∀ a ∈ c0 :: cs, Total a) →
      (∀ (ctx : Ctx) (vals : List Bytes), (c0 :: cs).map (·.run ctx) = vals.map .ok →
        (c0.bind fun v => match parseF v with
          | none => pure ErrorNum
          | some x => pure (F64.format x precision)).run ctx = .ok (sem vals)) ∧
      DynFirst (c0.bind fun v => match parseF v with
          | none => pure ErrorNum
          | some x => pure (F64.format x precision)) (c0 :: cs) := by
    intro c0 precision cs sem hs htot
    have hrun : ∀ (ctx : Ctx) (vals : List Bytes), (c0 :: cs).map (·.run ctx) = vals.map .ok →
        (c0.bind fun v => match parseF v with
          | none => pure ErrorNum
          | some x => pure (F64.format x precision)).run ctx = .ok (sem vals) := by
      intro ctx vals h
      obtain ⟨v, h0, hsv⟩ := hs ctx vals h
      rw [run_bind_ok h0, hsv, roundVal]
      cases parseF v <;> rfl
    refine ⟨hrun, dynFirst_of_startsWith (fun a r hc => by cases hc; exact ⟨_, rfl⟩) ?_⟩
    obtain ⟨vals, hv⟩ := total_vals emptyCtx _ htot
    exact ⟨_, hrun emptyCtx vals hv⟩
  rcases prec_den (ev := fun a => val a emptyCtx) 0 hden hpre with ⟨c0, rfl, hev⟩ | ⟨c0, s, n, rfl, hn, hle, hev⟩
  · obtain ⟨h1, h2⟩ := hfin c0 0 [] roundSem (fun ctx vals h => by
      obtain ⟨v, rfl, h0⟩ := map_run_1 h; exact ⟨v, h0, rfl⟩) hden.total
    refine ⟨_, ⟨?_, h1⟩, fun _ => h2⟩
    have : ¬ ((0 : Int) > maxPrecision) := by decide
    simp only [roundE, kfRound, hev, this, if_false]; rfl
  · obtain ⟨h1, h2⟩ := hfin c0 n [.ret (utf8 s)] roundSem (fun ctx vals h => by
      obtain ⟨v, w, rfl, h0, hw⟩ := map_run_2 h
      simp only [Comp.run, Except.ok.injEq] at hw
      subst hw
      exact ⟨v, h0, by simp only [roundSem, hn]⟩) hden.total
    refine ⟨_, ⟨?_, h1⟩, fun _ => h2⟩
    have : ¬ (n > maxPrecision) := by omega
    simp only [roundE, kfRound, hev, this, if_false]; rfl

theorem unit_ok (unsigned : Bool) (step : Int) (delim : Bytes) (units : List String) :
    EntryOkV (unitE unsigned step delim units) := by
  intro val D args cargs hden har hpre
  have hfin : ∀ (c0 : Stage) (precision : Int) (cs : List Stage),
      (∀ (ctx : Ctx) (vals : List Bytes), (c0 :: cs).map (·.run ctx) = vals.map .ok → ∃ v, c0.run ctx = .ok v ∧
        unitSem unsigned step delim units vals = unitVal unsigned step delim units v precision) → (∀ a ∈ c0 :: cs, Total a) →
      (∀ (ctx : Ctx) (vals : List Bytes), (c0 :: cs).map (·.run ctx) = vals.map .ok →
        (c0.bind fun v =>
          match (if unsigned then (atou v).map (fun n => wrap64 (Int.ofNat n)) else atoi v : Option Int) with
          | none => pure ErrorNum
          | some n => pure (unitize n step precision delim units)).run ctx =
          .ok (unitSem unsigned step delim units vals)) ∧
      DynFirst (c0.bind fun v =>
          match (if unsigned then (atou v).map (fun n => wrap64 (Int.ofNat n)) else atoi v : Option Int) with
          | none => pure ErrorNum
          | some n => pure (unitize n step precision delim units)) (c0 :: cs) := by
    intro c0 precision cs hs htot
    have hrun : ∀ (ctx : Ctx) (vals : List Bytes), (c0 :: cs).map (·.run ctx) = vals.map .ok →
        (c0.bind fun v =>
          match (if unsigned then (atou v).map (fun n => wrap64 (Int.ofNat n)) else atoi v : Option Int) with
          | none => pure ErrorNum
          | some n => pure (unitize n step precision delim units)).run ctx =
          .ok (unitSem unsigned step delim units vals) := by
      intro ctx vals h
      obtain ⟨v, h0, hsv⟩ := hs ctx vals h
      rw [run_bind_ok h0, hsv, unitVal]
      cases (if unsigned then (atou v).map (fun n => wrap64 (Int.ofNat n)) else atoi v : Option Int) <;> rfl
    refine ⟨hrun, dynFirst_of_startsWith (fun a r hc => by cases hc; exact ⟨_, rfl⟩) ?_⟩
    obtain ⟨vals, hv⟩ := total_vals emptyCtx _ htot
    exact ⟨_, hrun emptyCtx vals hv⟩
  rcases prec_den (ev := fun a => val a emptyCtx) 0 hden hpre with ⟨c0, rfl, hev⟩ | ⟨c0, s, n, rfl, hn, hle, hev⟩
  · obtain ⟨h1, h2⟩ := hfin c0 0 [] (fun ctx vals h => by
      obtain ⟨v, rfl, h0⟩ := map_run_1 h; exact ⟨v, h0, rfl⟩) hden.total
    refine ⟨_, ⟨?_, h1⟩, fun _ => h2⟩
    have : ¬ ((0 : Int) > maxPrecision) := by decide
    simp only [unitE, unitHelper, hev, this, if_false]; rfl
  · obtain ⟨h1, h2⟩ := hfin c0 n [.ret (utf8 s)] (fun ctx vals h => by
      obtain ⟨v, w, rfl, h0, hw⟩ := map_run_2 h
      simp only [Comp.run, Except.ok.injEq] at hw
      subst hw
      exact ⟨v, h0, by simp only [unitSem, hn]⟩) hden.total
    refine ⟨_, ⟨?_, h1⟩, fun _ => h2⟩
    have : ¬ (n > maxPrecision) := by omega
    simp only [unitE, unitHelper, hev, this, if_false]; rfl

/-- The stage `kfPercent` returns, by name. -/
def percentStage (smin smax : Comp (Option F64)) (a0 : Stage) (decimals : Int) : Stage :=
  smin.bind fun mn => match mn with
    | none => pure ErrorNum
    | some min => smax.bind fun mx => match mx with
      | none => pure ErrorNum
      | some max => a0.bind fun v => match parseF v with
        | none => pure ErrorNum
        | some val => pure (percentStr val min max decimals)

theorem percentStage_run (ctx : Ctx) (smin smax : Comp (Option F64)) (a0 : Stage) (decimals : Int)
    (omn omx : Option F64) (v : Bytes) (h1 : smin.run ctx = .ok omn) (h2 : smax.run ctx = .ok omx)
    (h0 : a0.run ctx = .ok v) :
    (percentStage smin smax a0 decimals).run ctx = .ok (percentVal v omn omx decimals) := by
  unfold percentStage percentVal
  rw [run_bind_ok h1]
  cases omn with
  | none => rfl
  | some min =>
    simp only []
    rw [run_bind_ok h2]
    cases omx with
    | none => rfl
    | some max =>
      simp only []
      rw [run_bind_ok h0]
      cases parseF v <;> rfl

theorem percent_ok : EntryOkV percentE := by
  intro val D args cargs hden har hpre
  have hz : ∀ ctx : Ctx, (Comp.ret (some (F64.zero false)) : Comp (Option F64)).run ctx = .ok (some (F64.zero false)) :=
    fun _ => rfl
  have ho : ∀ ctx : Ctx, (Comp.ret (some F64.one) : Comp (Option F64)).run ctx = .ok (some F64.one) := fun _ => rfl
  match args, cargs, hden, hpre, har with
  | _ :: _ :: _ :: _ :: _ :: _, _, _, _, har => simp [percentE] at har
  | [a0], [c0], hden, _, _ =>
    refine ⟨percentStage (.ret (some (F64.zero false))) (.ret (some F64.one)) c0 1, ⟨?_, fun ctx vals h => ?_⟩,
      fun hf => by simp [percentE] at hf⟩
    · simp only [percentE, kfPercent, evalArgInt]; rfl
    · obtain ⟨v, rfl, h0⟩ := map_run_1 h
      exact percentStage_run ctx _ _ _ _ _ _ _ (hz ctx) (ho ctx) h0
  | [a0, a1], [c0, c1], hden, hpre, _ =>
    simp only [percentE, percentPre, precLit] at hpre
    obtain ⟨s, n, rfl, hc1, hn, hp, hev⟩ := FA.litInt_den hden.2.1 hpre
    subst hc1
    have hle' : n ≤ maxPrecision := by simpa using hp
    have hle : ¬ (n > maxPrecision) := by omega
    refine ⟨percentStage (.ret (some (F64.zero false))) (.ret (some F64.one)) c0 n, ⟨?_, fun ctx vals h => ?_⟩,
      fun hf => by simp [percentE] at hf⟩
    · have he : evalArgInt [c0, .ret (utf8 s)] 1 1 = .ok (some n) := hev
      simp only [percentE, kfPercent, he, hle]; rfl
    · obtain ⟨v, w, rfl, h0, hw⟩ := map_run_2 h
      simp only [Comp.run, Except.ok.injEq] at hw
      subst hw
      rw [percentStage_run ctx _ _ _ _ _ _ _ (hz ctx) (ho ctx) h0]
      simp only [percentE, percentSem, hn]
  | [a0, a1, a2], [c0, c1, c2], hden, hpre, _ =>
    simp only [percentE, percentPre, precLit, Bool.and_eq_true] at hpre
    obtain ⟨s, n, rfl, hc1, hn, hp, hev⟩ := FA.litInt_den hden.2.1 hpre.1
    subst hc1
    obtain ⟨tx, htx, hrx, _⟩ := typed_den parseF hden.2.2.1 hpre.2
    have hle' : n ≤ maxPrecision := by simpa using hp
    have hle : ¬ (n > maxPrecision) := by omega
    refine ⟨percentStage (.ret (some (F64.zero false))) tx c0 n, ⟨?_, fun ctx vals h => ?_⟩,
      fun hf => by simp [percentE] at hf⟩
    · have he : evalArgInt [c0, .ret (utf8 s), c2] 1 1 = .ok (some n) := hev
      simp only [percentE, kfPercent, he, hle, htx]; rfl
    · obtain ⟨v, w, x, rfl, h0, hw, hx⟩ := map_run_3 h
      simp only [Comp.run, Except.ok.injEq] at hw
      subst hw
      rw [percentStage_run ctx _ _ _ _ _ _ _ (hz ctx) (hrx ctx x hx) h0]
      simp only [percentE, percentSem, hn]
  | [a0, a1, a2, a3], [c0, c1, c2, c3], hden, hpre, _ =>
    simp only [percentE, percentPre, precLit, Bool.and_eq_true] at hpre
    obtain ⟨s, n, rfl, hc1, hn, hp, hev⟩ := FA.litInt_den hden.2.1 hpre.1.1
    subst hc1
    obtain ⟨tn, htn, hrn, _⟩ := typed_den parseF hden.2.2.1 hpre.1.2
    obtain ⟨tx, htx, hrx, _⟩ := typed_den parseF hden.2.2.2.1 hpre.2
    have hle' : n ≤ maxPrecision := by simpa using hp
    have hle : ¬ (n > maxPrecision) := by omega
    refine ⟨percentStage tn tx c0 n, ⟨?_, fun ctx vals h => ?_⟩, fun hf => by simp [percentE] at hf⟩
    · have he : evalArgInt [c0, .ret (utf8 s), c2, c3] 1 1 = .ok (some n) := hev
      simp only [percentE, kfPercent, he, hle, htn, htx]; rfl
    · rcases vals with _ | ⟨v, _ | ⟨w, _ | ⟨x, _ | ⟨y, _ | ⟨z, r⟩⟩⟩⟩⟩ <;> simp at h
      obtain ⟨h0, hw, hx, hy⟩ := h
      simp only [Comp.run, Except.ok.injEq] at hw
      subst hw
      rw [percentStage_run ctx _ _ _ _ _ _ _ (hrn ctx x hx) (hrx ctx y hy) h0]
      simp only [percentE, percentSem, hn]

end FF

/-! ### the fragment -/

/-- The registry hypothesis of an entry for the tree semantics of `Spec/C09.lean` under `sem` (the instance
    `val = semVal sem` of `EntryOkV`; C10's user functions use it with their own `sem`). -/
def EntryOk (e : Entry) : Prop :=
  ∀ (sem : Sem) (D : C09.Expr → Bool) (args : List C09.Expr) (cargs : List Stage), DenArgs sem D cargs args →
    e.arity args.length = true → e.pre (evalTree (envC sem emptyCtx)) D args = true →
    ∃ stage, Inst e.builder e.sem cargs stage ∧ (e.first = true → DynFirst stage cargs)

theorem EntryOkV.toSem {e : Entry} (h : EntryOkV e) : EntryOk e :=
  fun sem D args cargs hden har hpre => h (semVal sem) D args cargs (denArgs_iff.mp hden) har hpre

def AllOk : List (String × Entry) → Prop
  | [] => True
  | p :: rest => (EntryOkV p.2 ∧ lookupTable stdTable p.1 = some p.2.builder) ∧ AllOk rest

theorem allOk_mem : ∀ {l : List (String × Entry)}, AllOk l → ∀ p ∈ l,
    EntryOkV p.2 ∧ lookupTable stdTable p.1 = some p.2.builder
  | [], _, p, hp => by cases hp
  | q :: rest, h, p, hp => by
    rcases List.mem_cons.mp hp with rfl | hp
    · exact h.1
    · exact allOk_mem h.2 p hp

theorem fragTable_allOk : AllOk fragTable :=
  ⟨⟨FL.coalesce_ok, rfl⟩,
    ⟨FL.cmp_ok _, rfl⟩,
    ⟨FL.cmp_ok _, rfl⟩,
    ⟨FL.not_ok, rfl⟩,
    ⟨FL.and_ok, rfl⟩,
    ⟨FL.or_ok, rfl⟩,
    ⟨FL.if_ok, rfl⟩,
    ⟨FL.unless_ok, rfl⟩,
    ⟨FL.switch_ok, rfl⟩,
    ⟨FA.int_ok _, rfl⟩,
    ⟨FA.int_ok _, rfl⟩,
    ⟨FA.int_ok _, rfl⟩,
    ⟨FA.int_ok _, rfl⟩,
    ⟨FA.int_ok _, rfl⟩,
    ⟨FA.int_ok _, rfl⟩,
    ⟨FA.int_ok _, rfl⟩,
    ⟨FA.isint_ok, rfl⟩,
    ⟨FA.bucket_ok _, rfl⟩,
    ⟨FA.bucket_ok _, rfl⟩,
    ⟨FA.clamp_ok, rfl⟩,
    ⟨FA.expbucket_ok, rfl⟩,
    ⟨FF.isnum_ok, rfl⟩,
    ⟨FF.cmpF_ok _, rfl⟩,
    ⟨FF.cmpF_ok _, rfl⟩,
    ⟨FF.cmpF_ok _, rfl⟩,
    ⟨FF.cmpF_ok _, rfl⟩,
    ⟨FF.float_ok _, rfl⟩,
    ⟨FF.float_ok _, rfl⟩,
    ⟨FF.float_ok _, rfl⟩,
    ⟨FF.float_ok _, rfl⟩,
    ⟨FF.unary_ok _, rfl⟩,
    ⟨FF.unary_ok _, rfl⟩,
    ⟨FF.unary_ok _, rfl⟩,
    ⟨FF.unary_ok _, rfl⟩,
    ⟨FS.len_ok, rfl⟩,
    ⟨FS.test_ok _, rfl⟩,
    ⟨FS.test_ok _, rfl⟩,
    ⟨FS.test_ok _, rfl⟩,
    ⟨FS.substr_ok, rfl⟩,
    ⟨FS.select_ok, rfl⟩,
    ⟨FS.join_ok _, rfl⟩,
    ⟨FS.join_ok _, rfl⟩,
    ⟨FS.join_ok _, rfl⟩,
    ⟨FS.csv_ok, rfl⟩,
    ⟨FS.hi_ok, rfl⟩,
    ⟨FS.path_ok _, rfl⟩,
    ⟨FS.path_ok _, rfl⟩,
    ⟨FS.path_ok _, rfl⟩,
    ⟨FR.alen_ok, rfl⟩,
    ⟨FR.split_ok, rfl⟩,
    ⟨FR.ajoin_ok, rfl⟩,
    ⟨FR.in_ok, rfl⟩,
    ⟨FR.aselect_ok, rfl⟩,
    ⟨FR.aslice_ok, rfl⟩,
    ⟨FR.arange_ok, rfl⟩,
    ⟨FS.case_ok _, rfl⟩,
    ⟨FS.case_ok _, rfl⟩,
    ⟨FS.repeat_ok, rfl⟩,
    ⟨FS.lookup_ok _, rfl⟩,
    ⟨FS.lookup_ok _, rfl⟩,
    ⟨FF.round_ok, rfl⟩,
    ⟨FF.percent_ok, rfl⟩,
    ⟨FF.unit_ok _ _ _ _, rfl⟩,
    ⟨FF.unit_ok _ _ _ _, rfl⟩,
    ⟨FF.unit_ok _ _ _ _, rfl⟩,
    trivial⟩

theorem fragTable_okV : ∀ p ∈ fragTable, EntryOkV p.2 ∧ lookupTable stdTable p.1 = some p.2.builder :=
  allOk_mem fragTable_allOk

theorem fragTable_ok : ∀ p ∈ fragTable, EntryOk p.2 ∧ lookupTable stdTable p.1 = some p.2.builder :=
  fun p hp => ⟨(fragTable_okV p hp).1.toSem, (fragTable_okV p hp).2⟩

theorem fragLookup_mem {n : String} {e : Entry} (h : fragLookup n = some e) : (n, e) ∈ fragTable := by
  unfold fragLookup at h
  cases hf : fragTable.find? (·.1 == n) with
  | none => rw [hf] at h; cases h
  | some p =>
    rw [hf] at h
    simp only [Option.map_some, Option.some.injEq] at h
    have hm := List.mem_of_find?_eq_some hf
    have hn := List.find?_some hf
    simp only [beq_iff_eq] at hn
    obtain ⟨a, b⟩ := p
    simp only at hn h
    subst hn; subst h; exact hm

theorem std_lookup (known : List String) (f : List Char) (b : Builder)
    (h : lookupTable stdTable (String.ofList f) = some b) : stdRegistry known f = some b := by
  simp only [stdRegistry, mkRegistry, h]

theorem call_regDen (known : List String) (f : List Char) (args : List C09.Expr) (h : callOk f args = true) :
    ∃ b, stdRegistry known f = some b ∧ ∀ cargs, DenArgs (fun _ => stdSem) dynE cargs args →
      ∃ stage, b cargs = .ok ⟨some stage, none⟩ ∧ Den (fun _ => stdSem) dynE stage (.call f args) := by
  unfold callOk at h
  cases hl : fragLookup (String.ofList f) with
  | none => rw [hl] at h; cases h
  | some e =>
    rw [hl] at h
    simp only [Bool.and_eq_true] at h
    obtain ⟨hok, hreg⟩ := fragTable_ok _ (fragLookup_mem hl)
    refine ⟨e.builder, std_lookup known f _ hreg, fun cargs hden => ?_⟩
    obtain ⟨stage, hi, hfirst⟩ := hok (fun _ => stdSem) dynE args cargs hden h.1 h.2
    refine ⟨stage, hi.built, ⟨fun ctx => ?_, fun hd => ?_, fun s hs => by cases hs⟩⟩
    · rw [hi.run ctx _ (hden.runs ctx)]
      simp only [evalTree, envC, stdSem, hl]
    · simp only [dynE, hl, Bool.and_eq_true] at hd
      match args, cargs, hden, hd with
      | a :: rest, c :: cs, hden, hd =>
        exact hfirst hd.1 c cs rfl (hden.1.dyn hd.2)

mutual
theorem regDen_of_fragOk (known : List String) : ∀ e : C09.Expr, fragOk e = true →
    RegDen (stdRegistry known) (fun _ => stdSem) dynE e
  | .lit _, _ => trivial
  | .group _, _ => trivial
  | .key _, _ => trivial
  | .call f args, h => by
    simp only [fragOk, Bool.and_eq_true] at h
    exact ⟨call_regDen known f args h.1, regDenArgs_of_fragOk known args h.2⟩
theorem regDenArgs_of_fragOk (known : List String) : ∀ l : List C09.Expr, fragOkArgs l = true →
    RegDenArgs (stdRegistry known) (fun _ => stdSem) dynE l
  | [], _ => trivial
  | a :: rest, h => by
    simp only [fragOkArgs, Bool.and_eq_true] at h
    exact ⟨regDen_of_fragOk known a h.1, regDenArgs_of_fragOk known rest h.2⟩
end

/-- **Print/compile over the standard fragment.** -/
theorem printTop_std_fragment (known : List String) (opt : Bool) (σ : Style) (e : C09.Expr)
    (ha : AdmissibleTop e) (hf : fragOk e = true) :
    ∃ stages, compile (stdRegistry known) opt (printTop σ e) = .ok (stages, []) ∧
      ∀ ctx, (buildKey stages).run ctx = .ok (evalTree (envOf ctx stdSem) e) :=
  printTop_den (stdRegistry known) (fun _ => stdSem) dynE opt (fun _ => rfl) σ e ha (regDen_of_fragOk known e hf)

end Rare.C09
