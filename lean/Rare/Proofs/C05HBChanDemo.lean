import Rare.Proofs.C05HBChan
/-!
# Concrete executions for the channel edges (C05): the hand-shake abstracts to table rows; `close` races

* `hsDemo`: spawn · periodic render by the ticker · `outputDone <- true` (send begins, ticker receives and does nothing
  more, send completes) · final render by main.  It satisfies `AbstractsC` with the two `writeOutput` rows of the role
  table (shaped as the rows of `Gen.Access.aggLoop`), so the hypotheses of `roles_no_race` are
  satisfiable, and it has no race.
* `closeDemo` (seeded/C05-outputdone-close): spawn · the ticker locks `outputMutex` and renders · main CLOSES the
  channel and renders without the lock · the ticker unlocks and observes the closed channel.  An execution, the
  ticker holds the mutex during its render, the close→receive edge is there – and the two renders race.
-/
namespace Rare.Lockset.HBC
open Rare.Lockset.HB2
open Rare.Gen.Access (Acc)

/-! ### Executions computed from a trace -/

def cstatesOf (tr : List CEv) : Nat → Nat → ChSt
  | 0 => fun _ => .idle
  | k + 1 =>
    match tr[k]? with
    | some e => (cstep (cstatesOf tr k) e).getD (cstatesOf tr k)
    | none => cstatesOf tr k

def cstepsOk (tr : List CEv) : Bool :=
  (List.range tr.length).all fun k =>
    match tr[k]? with
    | some e => (cstep (cstatesOf tr k) e).isSome
    | none => true

theorem execC_of_checks (tr : List CEv) (h1 : stepsOk (tr.map proj) = true) (h2 : freshOk (tr.map proj) = true)
    (h3 : cstepsOk tr = true) : ExecC tr (statesOf (tr.map proj)) (cstatesOf tr) := by
  refine ⟨exec_of_checks _ h1 h2, fun _ => rfl, ?_⟩
  intro k e hk
  have hlt : k < tr.length := (List.getElem?_eq_some_iff.mp hk).1
  have := List.all_eq_true.mp h3 k (List.mem_range.mpr hlt)
  simp only [hk] at this
  simp only [cstatesOf, hk]
  cases hst : cstep (cstatesOf tr k) e with
  | none => rw [hst] at this; cases this
  | some s' => rfl

/-! ### The hand-shake -/

def hsDemo : List CEv :=
  [⟨1, .base (.spawn 2)⟩, ⟨2, .base (.acc 7 true false)⟩, ⟨1, .sendB 5⟩, ⟨2, .recv 5⟩, ⟨1, .sendE 5⟩,
   ⟨1, .base (.acc 7 true false)⟩]

def rowTick : Acc := ⟨"go1", "writeOutput", "aggstate", "ref", true, false, "", "", "", 0, "call:func", [], 36⟩
def rowFinal : Acc := ⟨"main", "writeOutput", "aggstate", "ref", true, false, "", "", "", 0, "call:func", ["go1"], 73⟩

def hsSite (k : Nat) : Option Acc := if k = 1 then some rowTick else if k = 5 then some rowFinal else none

theorem hsSite_cases {k : Nat} {r : Acc} (h : hsSite k = some r) : (k = 1 ∧ r = rowTick) ∨ (k = 5 ∧ r = rowFinal) := by
  unfold hsSite at h
  split at h
  · left; exact ⟨by assumption, (Option.some.inj h).symm⟩
  · split at h
    · right; exact ⟨by assumption, (Option.some.inj h).symm⟩
    · cases h

theorem hsDemo_at {k : Nat} {e : CEv} (h : hsDemo[k]? = some e) :
    (k = 0 ∧ e = ⟨1, .base (.spawn 2)⟩) ∨ (k = 1 ∧ e = ⟨2, .base (.acc 7 true false)⟩) ∨ (k = 2 ∧ e = ⟨1, .sendB 5⟩) ∨
    (k = 3 ∧ e = ⟨2, .recv 5⟩) ∨ (k = 4 ∧ e = ⟨1, .sendE 5⟩) ∨ (k = 5 ∧ e = ⟨1, .base (.acc 7 true false)⟩) := by
  have hlen : k < 6 := by
    have := (List.getElem?_eq_some_iff.mp h).1; simpa [hsDemo] using this
  have : k = 0 ∨ k = 1 ∨ k = 2 ∨ k = 3 ∨ k = 4 ∨ k = 5 := by omega
  rcases this with rfl | rfl | rfl | rfl | rfl | rfl <;> simp [hsDemo] at h <;> simp [h]

theorem hsDemo_exec : ExecC hsDemo (statesOf (hsDemo.map proj)) (cstatesOf hsDemo) :=
  execC_of_checks _ (by decide) (by decide) (by decide)

theorem hsDemo_handshake : Handshake hsDemo 5 ⟨2, .base (.acc 7 true false)⟩ ⟨1, .base (.acc 7 true false)⟩ := by
  refine ⟨4, ⟨1, .sendE 5⟩, 5, by decide, rfl, rfl, rfl, ?_, ?_⟩
  · intro r er hr hop
    rcases hsDemo_at hr with ⟨_, rfl⟩ | ⟨_, rfl⟩ | ⟨_, rfl⟩ | ⟨_, rfl⟩ | ⟨_, rfl⟩ | ⟨_, rfl⟩ <;> first | rfl | cases hop
  · intro r r' er e' hr hop hlt hr'
    rcases hsDemo_at hr with ⟨_, rfl⟩ | ⟨_, rfl⟩ | ⟨_, rfl⟩ | ⟨rfl, rfl⟩ | ⟨_, rfl⟩ | ⟨_, rfl⟩ <;> try (cases hop; done)
    rcases hsDemo_at hr' with ⟨h, _⟩ | ⟨h, _⟩ | ⟨h, _⟩ | ⟨h, _⟩ | ⟨_, rfl⟩ | ⟨_, rfl⟩ <;>
      first | (exact absurd hlt (by omega)) | decide

theorem hsDemo_abstracts :
    AbstractsC hsDemo (statesOf (hsDemo.map proj)) [rowTick, rowFinal] hsSite (fun _ => 0) where
  covered := by
    intro k e x w a hk hop
    rcases hsDemo_at hk with ⟨rfl, rfl⟩ | ⟨rfl, rfl⟩ | ⟨rfl, rfl⟩ | ⟨rfl, rfl⟩ | ⟨rfl, rfl⟩ | ⟨rfl, rfl⟩
    · cases hop
    · exact ⟨rowTick, rfl, by simp⟩
    · cases hop
    · cases hop
    · cases hop
    · exact ⟨rowFinal, rfl, by simp⟩
  conflicts := by
    intro i j a b ra rb x w1 a1 w2 a2 ha hb hsa hsb hoa hob hw
    rcases hsSite_cases hsa with ⟨rfl, rfl⟩ | ⟨rfl, rfl⟩ <;> rcases hsSite_cases hsb with ⟨rfl, rfl⟩ | ⟨rfl, rfl⟩ <;>
      decide
  roles := by
    intro i j a b ra rb ha hb hsa hsb hne
    rcases hsSite_cases hsa with ⟨rfl, rfl⟩ | ⟨rfl, rfl⟩ <;> rcases hsSite_cases hsb with ⟨rfl, rfl⟩ | ⟨rfl, rfl⟩
    · rw [ha] at hb; cases hb; exact absurd rfl hne
    · decide
    · decide
    · rw [ha] at hb; cases hb; exact absurd rfl hne
  atomic := by
    intro k e x w a r hk hop hs hat
    rcases hsSite_cases hs with ⟨rfl, rfl⟩ | ⟨rfl, rfl⟩ <;> cases hat
  excl := by
    intro k e r hk hs hl
    rcases hsSite_cases hs with ⟨rfl, rfl⟩ | ⟨rfl, rfl⟩ <;> exact absurd hl (by decide)
  shared := by
    intro k e r hk hs hl hnw
    rcases hsSite_cases hs with ⟨rfl, rfl⟩ | ⟨rfl, rfl⟩ <;> exact absurd rfl hl
  ordered := by
    intro i j a b ra rb hij ha hb hsa hsb hne hord
    rcases hsSite_cases hsa with ⟨rfl, rfl⟩ | ⟨rfl, rfl⟩ <;> rcases hsSite_cases hsb with ⟨rfl, rfl⟩ | ⟨rfl, rfl⟩
    · exact absurd hij (by omega)
    · simp [hsDemo] at ha hb
      subst ha; subst hb
      exact .inr hsDemo_handshake
    · exact absurd hij (by omega)
    · exact absurd hij (by omega)

/-- The two rows pass the role check, so the hand-shake execution is race free by `roles_no_race`. -/
theorem hsDemo_no_race : ¬ RaceC hsDemo :=
  roles_no_race hsDemo_exec hsDemo_abstracts (by decide)

/-! ### `close(outputDone)` instead of the send -/

def closeDemo : List CEv :=
  [⟨1, .base (.spawn 2)⟩, ⟨2, .base (.lock 0)⟩, ⟨2, .base (.acc 7 true false)⟩, ⟨1, .close 5⟩,
   ⟨1, .base (.acc 7 true false)⟩, ⟨2, .base (.unlock 0)⟩, ⟨2, .recvClosed 5⟩]

def tidAt (i : Nat) : Option Nat := (closeDemo[i]?).map (·.tid)

/-- Every happens-before edge of `closeDemo` stays inside a goroutine or leads from main (1) to the ticker (2). -/
def CInv (i j : Nat) : Prop := ∃ s t, tidAt i = some s ∧ tidAt j = some t ∧ (s = t ∨ (s = 1 ∧ t = 2))

theorem tidAt_of {i : Nat} {a : CEv} (h : closeDemo[i]? = some a) : tidAt i = some a.tid := by
  simp [tidAt, h]

theorem tidAt_of_proj {i : Nat} {a : Ev} (h : (closeDemo.map proj)[i]? = some a) : tidAt i = some a.tid := by
  rw [List.getElem?_map] at h
  cases h' : closeDemo[i]? with
  | none => simp [h'] at h
  | some e =>
    simp [h'] at h
    subst h
    simp [tidAt, h', proj]

theorem mem_base {a : Ev} {i : Nat} (h : (closeDemo.map proj)[i]? = some a) :
    a = ⟨1, .spawn 2⟩ ∨ a = ⟨2, .lock 0⟩ ∨ a = ⟨2, .acc 7 true false⟩ ∨ a = ⟨1, .other⟩ ∨
    a = ⟨1, .acc 7 true false⟩ ∨ a = ⟨2, .unlock 0⟩ ∨ a = ⟨2, .other⟩ := by
  have := List.mem_of_getElem? h
  simp [closeDemo, proj] at this
  rcases this with h | h | h | h | h | h | h <;> simp [h]

theorem close_base_inv {i j : Nat} (h : HB (closeDemo.map proj) i j) : CInv i j := by
  induction h with
  | po _ ha hb ht => exact ⟨_, _, tidAt_of_proj ha, tidAt_of_proj hb, .inl ht⟩
  | swLock _ ha hb hop hop' =>
    refine ⟨_, _, tidAt_of_proj ha, tidAt_of_proj hb, .inl ?_⟩
    rcases mem_base hb with rfl | rfl | rfl | rfl | rfl | rfl | rfl <;> try (cases hop'; done)
    rcases mem_base ha with rfl | rfl | rfl | rfl | rfl | rfl | rfl <;> rcases hop with h | h <;> first | rfl | cases h
  | swRLock _ _ hb _ hop' =>
    rcases mem_base hb with rfl | rfl | rfl | rfl | rfl | rfl | rfl <;> cases hop'
  | go _ ha hb hop ht =>
    refine ⟨_, _, tidAt_of_proj ha, tidAt_of_proj hb, .inr ?_⟩
    rcases mem_base ha with rfl | rfl | rfl | rfl | rfl | rfl | rfl <;> try (cases hop; done)
    cases hop
    exact ⟨rfl, ht⟩
  | trans _ _ ih1 ih2 =>
    obtain ⟨s, t, hs, ht, h1⟩ := ih1
    obtain ⟨t', u, ht', hu, h2⟩ := ih2
    rw [ht] at ht'; cases ht'
    refine ⟨s, u, hs, hu, ?_⟩
    rcases h1 with rfl | ⟨rfl, rfl⟩ <;> rcases h2 with rfl | ⟨h3, rfl⟩
    · exact .inl rfl
    · exact .inr ⟨h3, rfl⟩
    · exact .inr ⟨rfl, rfl⟩
    · cases h3

theorem mem_close {a : CEv} {i : Nat} (h : closeDemo[i]? = some a) :
    a = ⟨1, .base (.spawn 2)⟩ ∨ a = ⟨2, .base (.lock 0)⟩ ∨ a = ⟨2, .base (.acc 7 true false)⟩ ∨ a = ⟨1, .close 5⟩ ∨
    a = ⟨1, .base (.acc 7 true false)⟩ ∨ a = ⟨2, .base (.unlock 0)⟩ ∨ a = ⟨2, .recvClosed 5⟩ := by
  have := List.mem_of_getElem? h
  simpa [closeDemo] using this

theorem close_inv {i j : Nat} (h : HBc closeDemo i j) : CInv i j := by
  induction h with
  | base h => exact close_base_inv h
  | chSend _ ha _ hop _ _ =>
    rcases mem_close ha with rfl | rfl | rfl | rfl | rfl | rfl | rfl <;> cases hop
  | chRecv _ ha _ hop _ _ =>
    rcases mem_close ha with rfl | rfl | rfl | rfl | rfl | rfl | rfl <;> cases hop
  | chClose _ ha hb hop hop' =>
    refine ⟨_, _, tidAt_of ha, tidAt_of hb, .inr ?_⟩
    rcases mem_close ha with rfl | rfl | rfl | rfl | rfl | rfl | rfl <;> try (cases hop; done)
    rcases mem_close hb with rfl | rfl | rfl | rfl | rfl | rfl | rfl <;> try (cases hop'; done)
    exact ⟨rfl, rfl⟩
  | trans _ _ ih1 ih2 =>
    obtain ⟨s, t, hs, ht, h1⟩ := ih1
    obtain ⟨t', u, ht', hu, h2⟩ := ih2
    rw [ht] at ht'; cases ht'
    refine ⟨s, u, hs, hu, ?_⟩
    rcases h1 with rfl | ⟨rfl, rfl⟩ <;> rcases h2 with rfl | ⟨h3, rfl⟩
    · exact .inl rfl
    · exact .inr ⟨h3, rfl⟩
    · exact .inr ⟨rfl, rfl⟩
    · cases h3

/-- **`close(outputDone)` does not order the periodic render before the final one.**  The run is an execution; the
    ticker holds `outputMutex` exclusively while it renders; the `close` is synchronised before the ticker's receive –
    and the ticker's render (event 2) and main's final render (event 4) form a data race. -/
theorem close_race : ExecC closeDemo (statesOf (closeDemo.map proj)) (cstatesOf closeDemo) ∧
    Holds (statesOf (closeDemo.map proj) 2) 0 2 true ∧ HBc closeDemo 3 6 ∧ RaceC closeDemo := by
  refine ⟨execC_of_checks _ (by decide) (by decide) (by decide), by decide,
    .chClose (by decide) (a := ⟨1, .close 5⟩) (b := ⟨2, .recvClosed 5⟩) rfl rfl rfl rfl, ?_⟩
  refine ⟨2, 4, ⟨2, .base (.acc 7 true false)⟩, ⟨1, .base (.acc 7 true false)⟩, by decide, rfl, rfl,
    ⟨7, true, false, true, false, rfl, rfl, .inl rfl, by simp⟩, by decide, ?_⟩
  intro h
  obtain ⟨s, t, hs, ht, h1⟩ := close_inv h
  simp [tidAt, closeDemo] at hs ht
  subst hs; subst ht
  rcases h1 with h1 | ⟨h1, _⟩ <;> cases h1

end Rare.Lockset.HBC
