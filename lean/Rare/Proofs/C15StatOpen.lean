import Rare.Model.C15StatOpen
/-!
C15 – the `Stat`/`Open` pair of `reopenIfReplaced` is linearizable: inode numbers are never re-used for the
path, so "not the open file" is stable under every interleaving of the writer and the fsnotify goroutine.
-/
namespace Rare.Follow

variable {β : Type}

/-- what the environment can do to the things `reopenIfReplaced` looks at -/
structure EnvInv (s1 s : NSt β) : Prop where
  handle : s.f = s1.f
  hist : s.hist = s1.hist
  delivered : s.delivered = s1.delivered
  next : s1.fs.next ≤ s.fs.next
  path : ∀ i, s.fs.path = some i → s1.fs.path = some i ∨ s1.fs.next ≤ i

theorem envInv_refl (s : NSt β) : EnvInv s s :=
  ⟨rfl, rfl, rfl, Nat.le_refl _, fun _ h => Or.inl h⟩

theorem envInv_step {cfg : NCfg} {w : Who} {s1 s s' : NSt β} (h : EnvInv s1 s) (hw : w ≠ .reader)
    (hs : NStep cfg w s s') : EnvInv s1 s' := by
  obtain ⟨h1, h2, h3, h4, h5⟩ := h
  cases hs with
  | append _ i bs hp hne => exact ⟨h1, h2, h3, h4, h5⟩
  | remove _ i hp => exact ⟨h1, h2, h3, h4, by intro i hi; simp [FS.remove] at hi⟩
  | create _ hp =>
    refine ⟨h1, h2, h3, by simp only [FS.create]; omega, ?_⟩
    intro i hi
    simp only [FS.create, Option.some.injEq] at hi
    exact Or.inr (by omega)
  | noise _ => exact ⟨h1, h2, h3, h4, h5⟩
  | dispatch _ e rest he => cases e <;> exact ⟨h1, h2, h3, h4, h5⟩
  | readSome _ x n hrd hx hn1 hn => exact absurd rfl hw
  | readEmpty _ x hrd hx hu => exact absurd rfl hw
  | readNil _ hrd hx => exact absurd rfl hw
  | recvW _ hrd hpw => exact absurd rfl hw
  | recvD _ hrd hpd hre => exact absurd rfl hw
  | recvDPlain _ hrd hpd hre => exact absurd rfl hw

theorem envInv_steps_aux {cfg : NCfg} {s s2 : NSt β} (he : EnvSteps cfg s s2) :
    ∀ s1 : NSt β, EnvInv s1 s → EnvInv s1 s2 := by
  induction he with
  | refl => intro s1 hi; exact hi
  | step hw hst _ ih => intro s1 hi; exact ih s1 (envInv_step hi hw hst)

theorem envInv_steps {cfg : NCfg} {s1 s2 : NSt β} (hs : EnvSteps cfg s1 s2) : EnvInv s1 s2 :=
  envInv_steps_aux hs s1 (envInv_refl s1)

/-- "the file at the path is not the one that is open" survives every interleaving: a path that is set
    again gets a fresh inode. -/
theorem not_same_stable {cfg : NCfg} {s1 s2 : NSt β} (hs : EnvSteps cfg s1 s2)
    (halloc : ∀ h, s1.f = some h → h.ino < s1.fs.next) (hns : sameFile s1 = false) : sameFile s2 = false := by
  obtain ⟨h1, _, _, _, h5⟩ := envInv_steps hs
  unfold sameFile at hns ⊢
  rw [h1]
  cases hf : s1.f with
  | none => rfl
  | some h =>
    rw [hf] at hns
    cases hp2 : s2.fs.path with
    | none => rfl
    | some i =>
      simp only
      rcases h5 i hp2 with hp1 | hge
      · rw [hp1] at hns; exact hns
      · have := halloc h hf
        simp only [beq_eq_false_iff_ne, ne_eq]
        omega

end Rare.Follow
