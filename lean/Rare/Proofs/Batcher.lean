import Rare.Model.Batcher
namespace Rare.Batcher

variable {α : Type}

/-- Loop invariant after consuming the lines `pre`. -/
structure Inv (s : LoopSt α) (pre : List α) : Prop where
  nums : s.out.flatMap lineNumbers ++ s.cur.zipIdx s.start = pre.zipIdx 1
  start : s.start + s.cur.length = 1 + pre.length
  nonempty : ∀ b ∈ s.out, b.lines ≠ []

theorem inv_init : Inv (⟨[], [], 1⟩ : LoopSt α) [] := ⟨by simp, by simp, by simp⟩

theorem inv_step (n : Nat) {s : LoopSt α} {pre : List α} (h : Inv s pre) (x : α × Bool) :
    Inv (step n s x) (pre ++ [x.1]) := by
  have hz : (s.cur ++ [x.1]).zipIdx s.start = s.cur.zipIdx s.start ++ [(x.1, s.start + s.cur.length)] := by
    simp [List.zipIdx_append]
  have hp : (pre ++ [x.1]).zipIdx 1 = pre.zipIdx 1 ++ [(x.1, 1 + pre.length)] := by
    simp [List.zipIdx_append]
  unfold step
  dsimp only
  split
  · refine ⟨?_, by simp; have := h.start; omega, ?_⟩
    · simp only [List.flatMap_append, List.flatMap_cons, List.flatMap_nil, lineNumbers, List.append_nil,
        List.zipIdx_nil]
      rw [hz, hp, ← h.nums, h.start]; simp
    · intro b hb
      simp at hb
      rcases hb with hb | rfl
      · exact h.nonempty b hb
      · simp
  · refine ⟨?_, by simp; have := h.start; omega, h.nonempty⟩
    show s.out.flatMap lineNumbers ++ (s.cur ++ [x.1]).zipIdx s.start = _
    rw [hz, hp, ← h.nums, h.start]; simp

theorem inv_fold (n : Nat) (ls : List (α × Bool)) : ∀ {s : LoopSt α} {pre : List α}, Inv s pre →
    Inv (ls.foldl (step n) s) (pre ++ ls.map (·.1)) := by
  induction ls with
  | nil => intro s pre h; simpa using h
  | cons x xs ih =>
    intro s pre h
    have := ih (inv_step n h x)
    simpa using this

theorem finish_spec {s : LoopSt α} {pre : List α} (h : Inv s pre) :
    (finish s).flatMap lineNumbers = pre.zipIdx 1 ∧ ∀ b ∈ finish s, b.lines ≠ [] := by
  unfold finish
  split
  · rename_i hpos
    refine ⟨by rw [← h.nums]; simp [lineNumbers], ?_⟩
    intro b hb
    simp at hb
    rcases hb with hb | rfl
    · exact h.nonempty b hb
    · intro he; simp at he; simp [he] at hpos
  · rename_i hz
    have : s.cur = [] := by
      cases hc : s.cur with
      | nil => rfl
      | cons a b => simp [hc] at hz
    refine ⟨by rw [← h.nums, this]; simp, h.nonempty⟩

end Rare.Batcher
