import Rare.Proofs.ExprSafe
import Rare.Model.Expr.Funcs.Arith
/-!
C08 for the `Arith` family: every integer / bucketing builder is panic-free on safe arguments.
The float-valued builders answer `unmodelled` (a `.panic "unmodelled:…"` node) for the inputs
whose IEEE value the model does not compute; they are listed in `arithUnmodelled` and are outside
the theorem.

The first section holds lemmas about the shared static-evaluation helpers of `Build.lean`
(to be moved to `ExprSafe.lean`).
-/
namespace Rare.Expr

/-! ### shared: builder results and static-evaluation helpers on safe arguments -/

/-- What `SafeBuilder` asks of one builder result. -/
def SafeResult (r : Except String Built) : Prop :=
  ∃ built, r = .ok built ∧ ∀ s, built.stage = some s → Safe s

theorem SafeResult.ok {s : Stage} (h : Safe s) : SafeResult (ok s) :=
  ⟨⟨some s, none⟩, rfl, fun s' h' => by cases h'; exact h⟩

theorem SafeResult.stageErr (marker : Bytes) (tag : String) : SafeResult (stageErr marker tag) :=
  ⟨⟨some (Stage.lit marker), some tag⟩, rfl, fun s' h' => by cases h'; exact Safe.lit _⟩

theorem SafeResult.errArgCount : SafeResult errArgCount := SafeResult.stageErr _ _
theorem SafeResult.errNum : SafeResult errNum := SafeResult.stageErr _ _
theorem SafeResult.errConst : SafeResult errConst := SafeResult.stageErr _ _
theorem SafeResult.errValue : SafeResult errValue := SafeResult.stageErr _ _
theorem SafeResult.errEmpty : SafeResult errEmpty := SafeResult.stageErr _ _
theorem SafeResult.errEnum : SafeResult errEnum := SafeResult.stageErr _ _

theorem evalStageInt_safe {st : Stage} (h : Safe st) : ∃ r, evalStageInt st = .ok r := by
  obtain ⟨v, b, hp⟩ := h.probe
  cases b <;> simp [evalStageInt, hp]

theorem evalArgInt_safe {args : List Stage} (h : ∀ a ∈ args, Safe a) (idx : Nat) (dflt : Int) :
    ∃ r, evalArgInt args idx dflt = .ok r := by
  unfold evalArgInt
  cases hg : args[idx]? with
  | none => exact ⟨_, rfl⟩
  | some st => exact evalStageInt_safe (h st (List.mem_of_getElem? hg))

theorem evalStageIndexOrDefault_safe {args : List Stage} (h : ∀ a ∈ args, Safe a) (idx : Nat) (dflt : Bytes) :
    ∃ r, evalStageIndexOrDefault args idx dflt = .ok r := by
  unfold evalStageIndexOrDefault
  cases hg : args[idx]? with
  | none => exact ⟨_, rfl⟩
  | some st =>
    obtain ⟨v, b, hp⟩ := (h st (List.mem_of_getElem? hg)).probe
    cases b <;> simp [hp]

theorem evalTypedStage_safe {α : Type} (parser : Bytes → Option α) {st : Stage} (h : Safe st) :
    evalTypedStage st parser = .ok none ∨ ∃ t, evalTypedStage st parser = .ok (some t) ∧ Safe t := by
  obtain ⟨v, b, hp⟩ := h.probe
  unfold evalTypedStage
  rw [hp]
  cases b with
  | true =>
    simp only []
    cases parser v with
    | none => left; rfl
    | some p => right; exact ⟨_, rfl, .ret _⟩
  | false =>
    right
    exact ⟨_, rfl, Safe.bind' h fun a => Safe.pure _⟩

theorem mapTypedArgs_safe {α : Type} (parser : Bytes → Option α) : ∀ (args : List Stage), (∀ a ∈ args, Safe a) →
    mapTypedArgs parser args = .ok none ∨
    ∃ ts, mapTypedArgs parser args = .ok (some ts) ∧ ∀ t ∈ ts, Safe t
  | [], _ => .inr ⟨[], rfl, by simp⟩
  | a :: rest, h => by
    have ha : Safe a := h a (by simp)
    have hr : ∀ x ∈ rest, Safe x := fun x hx => h x (by simp [hx])
    unfold mapTypedArgs
    rcases evalTypedStage_safe parser ha with e | ⟨t, e, ht⟩
    · left; rw [e]
    · rw [e]
      rcases mapTypedArgs_safe parser rest hr with e2 | ⟨ts, e2, hts⟩
      · left; rw [e2]
      · right
        rw [e2]
        refine ⟨t :: ts, rfl, ?_⟩
        intro x hx
        rcases List.mem_cons.mp hx with e3 | e3
        · rw [e3]; exact ht
        · exact hts x e3

end Rare.Expr

namespace Rare.Expr.Funcs.Arith
open Rare.Expr

/-! ### the integer builders -/

theorem foldRun_safe (op : IntOp) : ∀ (typed : List (Comp (Option Int))) (acc : Int),
    (∀ t ∈ typed, Safe t) → Safe (foldRun op acc typed)
  | [], acc, _ => .ret _
  | t :: rest, acc, h => by
    unfold foldRun
    apply Safe.bind' (h t (by simp))
    intro v
    cases v with
    | none => exact Safe.pure _
    | some x =>
      simp only []
      cases op acc x with
      | none => exact Safe.pure _
      | some r => exact foldRun_safe op rest r fun y hy => h y (by simp [hy])

theorem intRun_safe (op : IntOp) (typed : List (Comp (Option Int))) (h : ∀ t ∈ typed, Safe t) :
    Safe (intRun op typed) := by
  cases typed with
  | nil => exact .ret _
  | cons t rest =>
    unfold intRun
    apply Safe.bind' (h t (by simp))
    intro v
    cases v with
    | none => exact Safe.pure _
    | some x => exact foldRun_safe op rest x fun y hy => h y (by simp [hy])

theorem intHelper_safe (op : IntOp) : SafeBuilder (intHelper op) := by
  intro args h
  show SafeResult _
  unfold intHelper
  split
  · exact SafeResult.errArgCount
  · rcases mapTypedArgs_safe atoi args h with e | ⟨ts, e, hts⟩
    · rw [e]; exact SafeResult.errNum
    · rw [e]; exact SafeResult.ok (intRun_safe op ts hts)

theorem kfIsInt_safe : SafeBuilder kfIsInt := by
  intro args h
  show SafeResult _
  unfold kfIsInt
  split
  · rename_i a
    exact SafeResult.ok (Safe.bind' (h a (by simp)) fun v => Safe.pure _)
  · exact SafeResult.errArgCount

theorem bucketBuilder_safe (render : Int → Int → Bytes) : SafeBuilder (bucketBuilder render) := by
  intro args h
  show SafeResult _
  unfold bucketBuilder
  split
  · rename_i a0 a1
    obtain ⟨r, hr⟩ := evalStageInt_safe (h a1 (by simp))
    rw [hr]
    cases r with
    | none => exact SafeResult.errNum
    | some size =>
      simp only []
      split
      · exact SafeResult.errValue
      · apply SafeResult.ok
        apply Safe.bind' (h a0 (by simp))
        intro v
        cases atoi v <;> exact Safe.pure _
  · exact SafeResult.errArgCount

theorem kfClamp_safe : SafeBuilder kfClamp := by
  intro args h
  show SafeResult _
  unfold kfClamp
  split
  · rename_i a0 a1 a2
    obtain ⟨r1, hr1⟩ := evalStageInt_safe (h a1 (by simp))
    obtain ⟨r2, hr2⟩ := evalStageInt_safe (h a2 (by simp))
    rw [hr1, hr2]
    cases r1 with
    | none => exact SafeResult.errNum
    | some mn =>
      cases r2 with
      | none => exact SafeResult.errNum
      | some mx =>
        apply SafeResult.ok
        apply Safe.bind' (h a0 (by simp))
        intro v
        cases atoi v <;> exact Safe.pure _
  · exact SafeResult.errArgCount

theorem kfExpBucket_safe : SafeBuilder kfExpBucket := by
  intro args h
  show SafeResult _
  unfold kfExpBucket
  split
  · rename_i a
    apply SafeResult.ok
    apply Safe.bind' (h a (by simp))
    intro v
    cases atoi v <;> exact Safe.pure _
  · exact SafeResult.errArgCount

/-- Builders that answer `unmodelled` for the inputs whose float value the model does not compute. -/
def arithUnmodelled : List String :=
  ["isnum", "lt", "gt", "lte", "gte", "sumf", "subf", "multf", "divf", "pow", "ceil", "floor",
   "log10", "log2", "ln", "sqrt", "round", "hf", "percent"]

/-- Every integer, bucketing and type-test builder of the family is panic-free. -/
theorem arith_safe : ∀ p ∈ table, p.1 ∉ arithUnmodelled → SafeBuilder p.2 := by
  intro p hp hn
  simp only [table, List.mem_cons, List.not_mem_nil, or_false] at hp
  rcases hp with e | e | e | e | e | e | e | e | e | e | e | e | e | e | e | e | e | e | e | e | e | e | e | e | e | e | e | e | e | e | e <;>
    subst e <;> first
      | exact intHelper_safe _
      | exact kfIsInt_safe
      | exact bucketBuilder_safe _
      | exact kfClamp_safe
      | exact kfExpBucket_safe
      | exact absurd (by decide) hn

end Rare.Expr.Funcs.Arith
