import Rare.Proofs.ExprSafe
import Rare.Model.Expr.Funcs.Arith
/-!
C08 for the `Arith` family (which includes the `Float` table): every integer / bucketing builder
and every float-valued builder computed on the software binary64 model is panic-free on safe
arguments.  Only `pow`, `log10`, `log2`, `ln` (Go's `math.Pow` / `math.Log*`) still answer
`unmodelled` (a `.panic "unmodelled:…"` node) once their arguments have parsed; they are listed in
`arithUnmodelled` and are outside the theorem.

The first section holds lemmas about the shared static-evaluation helpers of `Build.lean`
(to be moved to `ExprSafe.lean`).
-/
namespace Rare.Expr

/-! ### shared: builder results and static-evaluation helpers on safe arguments -/

/-- What `SafeBuilder` asks of one builder result. -/
def SafeResult (r : Except String Built) : Prop :=
  ∃ built, r = .ok built ∧ ∀ s, built.stage = some s → Safe s

theorem SafeResult.ok {s : Stage} (h : Safe s) : SafeResult (ok s) :=
  ⟨⟨some s, none⟩, rfl, fun s' h' => by cases h'; exact h⟩

theorem SafeResult.stageErr (marker : Bytes) (tag : String) : SafeResult (stageErr marker tag) :=
  ⟨⟨some (Stage.lit marker), some tag⟩, rfl, fun s' h' => by cases h'; exact Safe.lit _⟩

theorem SafeResult.errArgCount : SafeResult errArgCount := SafeResult.stageErr _ _
theorem SafeResult.errNum : SafeResult errNum := SafeResult.stageErr _ _
theorem SafeResult.errConst : SafeResult errConst := SafeResult.stageErr _ _
theorem SafeResult.errValue : SafeResult errValue := SafeResult.stageErr _ _
theorem SafeResult.errEmpty : SafeResult errEmpty := SafeResult.stageErr _ _
theorem SafeResult.errEnum : SafeResult errEnum := SafeResult.stageErr _ _

theorem evalStageInt_safe {st : Stage} (h : Safe st) : ∃ r, evalStageInt st = .ok r := by
  obtain ⟨v, b, hp⟩ := h.probe
  cases b <;> simp [evalStageInt, hp]

theorem evalArgInt_safe {args : List Stage} (h : ∀ a ∈ args, Safe a) (idx : Nat) (dflt : Int) :
    ∃ r, evalArgInt args idx dflt = .ok r := by
  unfold evalArgInt
  cases hg : args[idx]? with
  | none => exact ⟨_, rfl⟩
  | some st => exact evalStageInt_safe (h st (List.mem_of_getElem? hg))

theorem evalStageIndexOrDefault_safe {args : List Stage} (h : ∀ a ∈ args, Safe a) (idx : Nat) (dflt : Bytes) :
    ∃ r, evalStageIndexOrDefault args idx dflt = .ok r := by
  unfold evalStageIndexOrDefault
  cases hg : args[idx]? with
  | none => exact ⟨_, rfl⟩
  | some st =>
    obtain ⟨v, b, hp⟩ := (h st (List.mem_of_getElem? hg)).probe
    cases b <;> simp [hp]

theorem evalTypedStage_safe {α : Type} (parser : Bytes → Option α) {st : Stage} (h : Safe st) :
    evalTypedStage st parser = .ok none ∨ ∃ t, evalTypedStage st parser = .ok (some t) ∧ Safe t := by
  obtain ⟨v, b, hp⟩ := h.probe
  unfold evalTypedStage
  rw [hp]
  cases b with
  | true =>
    simp only []
    cases parser v with
    | none => left; rfl
    | some p => right; exact ⟨_, rfl, .ret _⟩
  | false =>
    right
    exact ⟨_, rfl, Safe.bind' h fun a => Safe.pure _⟩

theorem mapTypedArgs_safe {α : Type} (parser : Bytes → Option α) : ∀ (args : List Stage), (∀ a ∈ args, Safe a) →
    mapTypedArgs parser args = .ok none ∨
    ∃ ts, mapTypedArgs parser args = .ok (some ts) ∧ ∀ t ∈ ts, Safe t
  | [], _ => .inr ⟨[], rfl, by simp⟩
  | a :: rest, h => by
    have ha : Safe a := h a (by simp)
    have hr : ∀ x ∈ rest, Safe x := fun x hx => h x (by simp [hx])
    unfold mapTypedArgs
    rcases evalTypedStage_safe parser ha with e | ⟨t, e, ht⟩
    · left; rw [e]
    · rw [e]
      rcases mapTypedArgs_safe parser rest hr with e2 | ⟨ts, e2, hts⟩
      · left; rw [e2]
      · right
        rw [e2]
        refine ⟨t :: ts, rfl, ?_⟩
        intro x hx
        rcases List.mem_cons.mp hx with e3 | e3
        · rw [e3]; exact ht
        · exact hts x e3

end Rare.Expr

namespace Rare.Expr.Funcs.Arith
open Rare.Expr

/-! ### the integer builders -/

theorem foldRun_safe (op : IntOp) : ∀ (typed : List (Comp (Option Int))) (acc : Int),
    (∀ t ∈ typed, Safe t) → Safe (foldRun op acc typed)
  | [], acc, _ => .ret _
  | t :: rest, acc, h => by
    unfold foldRun
    apply Safe.bind' (h t (by simp))
    intro v
    cases v with
    | none => exact Safe.pure _
    | some x =>
      simp only []
      cases op acc x with
      | none => exact Safe.pure _
      | some r => exact foldRun_safe op rest r fun y hy => h y (by simp [hy])

theorem intRun_safe (op : IntOp) (typed : List (Comp (Option Int))) (h : ∀ t ∈ typed, Safe t) :
    Safe (intRun op typed) := by
  cases typed with
  | nil => exact .ret _
  | cons t rest =>
    unfold intRun
    apply Safe.bind' (h t (by simp))
    intro v
    cases v with
    | none => exact Safe.pure _
    | some x => exact foldRun_safe op rest x fun y hy => h y (by simp [hy])

theorem intHelper_safe (op : IntOp) : SafeBuilder (intHelper op) := by
  intro args h
  show SafeResult _
  unfold intHelper
  split
  · exact SafeResult.errArgCount
  · rcases mapTypedArgs_safe atoi args h with e | ⟨ts, e, hts⟩
    · rw [e]; exact SafeResult.errNum
    · rw [e]; exact SafeResult.ok (intRun_safe op ts hts)

theorem kfIsInt_safe : SafeBuilder kfIsInt := by
  intro args h
  show SafeResult _
  unfold kfIsInt
  split
  · rename_i a
    exact SafeResult.ok (Safe.bind' (h a (by simp)) fun v => Safe.pure _)
  · exact SafeResult.errArgCount

theorem bucketBuilder_safe (render : Int → Int → Bytes) : SafeBuilder (bucketBuilder render) := by
  intro args h
  show SafeResult _
  unfold bucketBuilder
  split
  · rename_i a0 a1
    obtain ⟨r, hr⟩ := evalStageInt_safe (h a1 (by simp))
    rw [hr]
    cases r with
    | none => exact SafeResult.errNum
    | some size =>
      simp only []
      split
      · exact SafeResult.errValue
      · apply SafeResult.ok
        apply Safe.bind' (h a0 (by simp))
        intro v
        cases atoi v <;> exact Safe.pure _
  · exact SafeResult.errArgCount

theorem kfClamp_safe : SafeBuilder kfClamp := by
  intro args h
  show SafeResult _
  unfold kfClamp
  split
  · rename_i a0 a1 a2
    obtain ⟨r1, hr1⟩ := evalStageInt_safe (h a1 (by simp))
    obtain ⟨r2, hr2⟩ := evalStageInt_safe (h a2 (by simp))
    rw [hr1, hr2]
    cases r1 with
    | none => exact SafeResult.errNum
    | some mn =>
      cases r2 with
      | none => exact SafeResult.errNum
      | some mx =>
        apply SafeResult.ok
        apply Safe.bind' (h a0 (by simp))
        intro v
        cases atoi v <;> exact Safe.pure _
  · exact SafeResult.errArgCount

theorem kfExpBucket_safe : SafeBuilder kfExpBucket := by
  intro args h
  show SafeResult _
  unfold kfExpBucket
  split
  · rename_i a
    apply SafeResult.ok
    apply Safe.bind' (h a (by simp))
    intro v
    cases atoi v <;> exact Safe.pure _
  · exact SafeResult.errArgCount

end Rare.Expr.Funcs.Arith

namespace Rare.Expr.Funcs.Float
open Rare.Expr

/-! ### the float builders (software binary64 model) -/

theorem foldRunF_safe (op : F64 → F64 → F64) : ∀ (typed : List (Comp (Option F64))) (acc : F64),
    (∀ t ∈ typed, Safe t) → Safe (foldRunF op acc typed)
  | [], acc, _ => .ret _
  | t :: rest, acc, h => by
    unfold foldRunF
    apply Safe.bind' (h t (by simp))
    intro v
    cases v with
    | none => exact Safe.pure _
    | some x => exact foldRunF_safe op rest _ fun y hy => h y (by simp [hy])

theorem floatRun_safe (op : F64 → F64 → F64) (typed : List (Comp (Option F64))) (h : ∀ t ∈ typed, Safe t) :
    Safe (floatRun op typed) := by
  cases typed with
  | nil => exact .ret _
  | cons t rest =>
    unfold floatRun
    apply Safe.bind' (h t (by simp))
    intro v
    cases v with
    | none => exact Safe.pure _
    | some x => exact foldRunF_safe op rest x fun y hy => h y (by simp [hy])

theorem floatHelper_safe (op : F64 → F64 → F64) : SafeBuilder (floatHelper op) := by
  intro args h
  show SafeResult _
  unfold floatHelper
  split
  · exact SafeResult.errArgCount
  · rcases mapTypedArgs_safe parseF args h with e | ⟨ts, e, hts⟩
    · rw [e]; exact SafeResult.errNum
    · rw [e]; exact SafeResult.ok (floatRun_safe op ts hts)

theorem unaryF_safe (f : F64 → Bytes) : SafeBuilder (unaryF f) := by
  intro args h
  show SafeResult _
  unfold unaryF
  split
  · rename_i a
    apply SafeResult.ok
    apply Safe.bind' (h a (by simp))
    intro v
    cases parseF v <;> exact Safe.pure _
  · exact SafeResult.errArgCount

theorem kfRound_safe : SafeBuilder kfRound := by
  intro args h
  show SafeResult _
  unfold kfRound
  split
  · exact SafeResult.errArgCount
  · obtain ⟨r, hr⟩ := evalArgInt_safe h 1 0
    rw [hr]
    cases r with
    | none => exact SafeResult.errConst
    | some precision =>
      simp only []
      split
      · exact SafeResult.errValue
      · split
        · rename_i a l hlen
          apply SafeResult.ok
          apply Safe.bind' (h a (by simp))
          intro v
          cases parseF v <;> exact Safe.pure _
        · exact SafeResult.errArgCount

theorem cmpHelper_safe (test : F64 → F64 → Bool) : SafeBuilder (cmpHelper test) := by
  intro args h
  show SafeResult _
  unfold cmpHelper
  split
  · rename_i a0 a1
    rcases evalTypedStage_safe parseF (h a0 (by simp)) with e | ⟨l, e, hl⟩
    · rw [e]; exact SafeResult.errNum
    · rw [e]
      rcases evalTypedStage_safe parseF (h a1 (by simp)) with e2 | ⟨r, e2, hr⟩
      · rw [e2]; exact SafeResult.errNum
      · rw [e2]
        apply SafeResult.ok
        apply Safe.bind' hl
        intro lv
        cases lv with
        | none => exact Safe.pure _
        | some x =>
          apply Safe.bind' hr
          intro rv
          cases rv <;> exact Safe.pure _
  · exact SafeResult.errArgCount

theorem kfIsNum_safe : SafeBuilder kfIsNum := by
  intro args h
  show SafeResult _
  unfold kfIsNum
  split
  · rename_i a
    exact SafeResult.ok (Safe.bind' (h a (by simp)) fun v => Safe.pure _)
  · exact SafeResult.errArgCount

/-- The run-time closure of `kfPercent`. -/
theorem percentRun_safe {smin smax : Comp (Option F64)} {a0 : Stage} (decimals : Int)
    (h1 : Safe smin) (h2 : Safe smax) (h0 : Safe a0) :
    Safe (do
      let mn ← smin
      match mn with
      | none => pure ErrorNum
      | some min =>
        let mx ← smax
        match mx with
        | none => pure ErrorNum
        | some max =>
          let v ← a0
          match parseF v with
          | none => pure ErrorNum
          | some val => pure (percentStr val min max decimals) : Stage) := by
  apply Safe.bind' h1
  intro mn
  cases mn with
  | none => exact Safe.pure _
  | some min =>
    apply Safe.bind' h2
    intro mx
    cases mx with
    | none => exact Safe.pure _
    | some max =>
      apply Safe.bind' h0
      intro v
      cases parseF v <;> exact Safe.pure _

theorem kfPercent_safe : SafeBuilder kfPercent := by
  intro args h
  show SafeResult _
  unfold kfPercent
  split
  · exact SafeResult.errArgCount
  · obtain ⟨r, hr⟩ := evalArgInt_safe h 1 1
    rw [hr]
    cases r with
    | none => exact SafeResult.errConst
    | some decimals =>
      simp only []
      split
      · exact SafeResult.errValue
      · -- case analysis on the argument list
        match args, h with
        | [], _ => exact SafeResult.errNum
        | [a0], h => exact SafeResult.ok (percentRun_safe _ (.ret _) (.ret _) (h a0 (by simp)))
        | [a0, _], h => exact SafeResult.ok (percentRun_safe _ (.ret _) (.ret _) (h a0 (by simp)))
        | [a0, _, mx], h =>
          simp only []
          rcases evalTypedStage_safe parseF (h mx (by simp)) with e | ⟨t, e, ht⟩
          · rw [e]; exact SafeResult.errNum
          · rw [e]; exact SafeResult.ok (percentRun_safe _ (.ret _) ht (h a0 (by simp)))
        | [a0, _, mn, mx], h =>
          simp only []
          rcases evalTypedStage_safe parseF (h mn (by simp)) with e | ⟨t, e, ht⟩
          · rw [e]
            rcases evalTypedStage_safe parseF (h mx (by simp)) with e2 | ⟨t2, e2, ht2⟩
            · rw [e2]; exact SafeResult.errNum
            · rw [e2]; exact SafeResult.errNum
          · rw [e]
            rcases evalTypedStage_safe parseF (h mx (by simp)) with e2 | ⟨t2, e2, ht2⟩
            · rw [e2]; exact SafeResult.errNum
            · rw [e2]; exact SafeResult.ok (percentRun_safe _ ht ht2 (h a0 (by simp)))
        | _ :: _ :: _ :: _ :: _ :: _, h => exact SafeResult.ok (percentRun_safe _ (.ret _) (.ret _) (h _ (by simp)))

theorem unitHelper_safe (unsigned : Bool) (step : Int) (delim : Bytes) (units : List String) :
    SafeBuilder (unitHelper unsigned step delim units) := by
  intro args h
  show SafeResult _
  unfold unitHelper
  split
  · exact SafeResult.errArgCount
  · obtain ⟨r, hr⟩ := evalArgInt_safe h 1 0
    rw [hr]
    cases r with
    | none => exact SafeResult.errNum
    | some precision =>
      simp only []
      split
      · exact SafeResult.errValue
      · split
        · rename_i a l hlen
          apply SafeResult.ok
          apply Safe.bind' (h a (by simp))
          intro v
          split <;> exact Safe.pure _
        · exact SafeResult.errArgCount

/-- Builders that still answer `unmodelled` once their arguments have parsed (`math.Pow`, `math.Log*`). -/
def floatUnmodelled : List String := ["pow", "log10", "log2", "ln"]

theorem float_safe : ∀ p ∈ table, p.1 ∉ floatUnmodelled → SafeBuilder p.2 := by
  intro p hp hn
  simp only [table, List.mem_cons, List.not_mem_nil, or_false] at hp
  rcases hp with e | e | e | e | e | e | e | e | e | e | e | e | e | e | e | e | e | e | e | e | e | e <;>
    subst e <;> first
      | exact floatHelper_safe _
      | exact unaryF_safe _
      | exact kfRound_safe
      | exact cmpHelper_safe _
      | exact kfIsNum_safe
      | exact kfPercent_safe
      | exact unitHelper_safe _ _ _ _
      | exact absurd (by decide) hn

end Rare.Expr.Funcs.Float

namespace Rare.Expr.Funcs.Arith
open Rare.Expr

/-- Builders that answer `unmodelled` for the inputs whose value the model does not compute. -/
def arithUnmodelled : List String := Float.floatUnmodelled

theorem int_safe : ∀ p ∈ intTable, SafeBuilder p.2 := by
  intro p hp
  simp only [intTable, List.mem_cons, List.not_mem_nil, or_false] at hp
  rcases hp with e | e | e | e | e | e | e | e | e | e | e | e <;>
    subst e <;> first
      | exact intHelper_safe _
      | exact kfIsInt_safe
      | exact bucketBuilder_safe _
      | exact kfClamp_safe
      | exact kfExpBucket_safe

/-- Every integer, bucketing, type-test and software-float builder of the family is panic-free. -/
theorem arith_safe : ∀ p ∈ table, p.1 ∉ arithUnmodelled → SafeBuilder p.2 := by
  intro p hp hn
  rcases List.mem_append.mp hp with h | h
  · exact int_safe p h
  · exact Float.float_safe p h hn

end Rare.Expr.Funcs.Arith
