import Rare.Proofs.C08ArrayBound
/-!
C08, `{@reduce}`: its answer IS an accumulator value - the initial value, the first element, or the last value of
the reducer.  So it is bounded by whatever bounds the reducer's values (and `for_doubling_all` is the family where
nothing does).
-/
namespace Rare.C08
open Rare Rare.Expr Rare.Expr.Funcs Rare.Expr.Funcs.Range Rare.C17

theorem foldl_length_le (f : Bytes → Bytes → Bytes) (B : Nat) (hB : ∀ a b, (f a b).length ≤ B) :
    ∀ (r : List Bytes) (x : Bytes), (r.foldl f x).length ≤ max B x.length
  | [], x => by simp only [List.foldl_nil]; omega
  | y :: r, x => by
    have := foldl_length_le f B hB r (f x y)
    have := hB x y
    simp only [List.foldl_cons]
    omega

theorem elem_length_le (arr x : Bytes) (r : List Bytes) (h : elems arr = x :: r) : x.length ≤ arr.length := by
  have hne : elems arr ≠ [] := by rw [h]; simp
  have hp := pack_length (elems arr) hne
  have e : (pack (elems arr)).length = arr.length := congrArg List.length (join_splitOn [NUL] (by simp) arr)
  rw [h] at hp e
  simp only [packSize] at hp
  omega

/-- `{@reduce a sub [init]}` answers at most `max B (max |init| |a|)` bytes when every value of `sub` has at most `B`. -/
theorem reduceStage_length (c : Ctx) (init : Bytes) (a0 a1 : Stage) (h0 : Safe a0) (h1 : Safe a1) (B : Nat)
    (hB : ∀ v0 v1 o, a1.run (subCtx c v0 v1) = .ok o → o.length ≤ B) :
    ∃ arr out, a0.run c = .ok arr ∧ (reduceStage init a0 a1).run c = .ok out ∧
      out.length ≤ max B (max init.length arr.length) := by
  obtain ⟨arr, ha⟩ := Safe.run h0 c
  obtain ⟨f, hf⟩ : ∃ f : Bytes → Bytes → Bytes, ∀ v0 v1, a1.run (subCtx c v0 v1) = .ok (f v0 v1) :=
    ⟨subVal c a1 h1, subVal_spec c a1 h1⟩
  have hfB : ∀ a b, (f a b).length ≤ B := fun a b => hB a b _ (hf a b)
  have hb : ∀ memo x, (a1.withSub memo x).run c = .ok (f memo x) := fun memo x => by
    rw [withSub_run]; exact hf memo x
  have hne : elems arr ≠ [] := by unfold elems splitOn; exact splitGo_ne_nil _ _ _ _
  have hel : elems arr = splitOn ArraySeparatorString arr := rfl
  cases he : elems arr with
  | nil => exact absurd he hne
  | cons x r =>
    have hx := elem_length_le arr x r he
    by_cases hi : init = []
    · refine ⟨arr, r.foldl f x, ha, ?_, ?_⟩
      · unfold reduceStage
        rw [run_bind_ok c _ _ _ ha]
        obtain ⟨e1, e2, e3⟩ := first_next arr ArraySeparatorString (by simp [ArraySeparatorString])
        simp only [hi, if_true]
        rw [splitLoop_run c _ _ f hb _ _ _ (by rw [e2]; simp [ArraySeparatorString])
          (by simp only [loopFuel]; omega)]
        rw [foldWhile_true, e2]
        rw [← hel, he] at e1
        injection e1 with e1a e1b
        rw [← e1a, ← e1b]
      · have := foldl_length_le f B hfB r x
        omega
    · refine ⟨arr, (x :: r).foldl f init, ha, ?_, ?_⟩
      · unfold reduceStage
        rw [run_bind_ok c _ _ _ ha]
        simp only [hi, if_false]
        rw [splitLoop_run_init c _ _ f hb arr _ (by simp [ArraySeparatorString]), foldWhile_true, ← hel, he]
      · have := foldl_length_le f B hfB (x :: r) init
        omega

end Rare.C08
