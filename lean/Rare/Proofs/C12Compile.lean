import Rare.Model.C12
import Rare.Proofs.C12Find
/-! `CompileEx` on the text of a pattern: the compiled structure and the three errors. -/
namespace Rare.C12

def NoTok (l : Bytes) : Prop := firstIndex [pct, lbrace] l = none

theorem noTok_cons {c : UInt8} {l : Bytes} :
    NoTok (c :: l) ↔ ([pct, lbrace].isPrefixOf (c :: l) = false) ∧ NoTok l := by
  unfold NoTok
  simp only [firstIndex]
  split
  · rename_i h; simp [h]
  · rename_i h
    cases firstIndex [pct, lbrace] l <;> simp [h]

theorem index_tok_at (lead X : Bytes) (h : NoTok lead) :
    firstIndex [pct, lbrace] (lead ++ ([pct, lbrace] ++ X)) = some lead.length := by
  induction lead with
  | nil => simp [firstIndex, List.isPrefixOf]
  | cons c l ih =>
    obtain ⟨h1, h2⟩ := noTok_cons.mp h
    have hnp : [pct, lbrace].isPrefixOf (c :: (l ++ ([pct, lbrace] ++ X))) = false := by
      cases l with
      | nil =>
        simp only [List.isPrefixOf, List.nil_append, List.cons_append, Bool.and_true]
        have : (lbrace == pct) = false := by decide
        simp [this]
      | cons d l' => simpa [List.isPrefixOf] using h1
    show firstIndex [pct, lbrace] (c :: (l ++ ([pct, lbrace] ++ X))) = some (l.length + 1)
    rw [firstIndex, hnp, ih h2]; simp

theorem index_rbrace_at (key X : Bytes) (h : rbrace ∉ key) :
    firstIndex [rbrace] (key ++ ([rbrace] ++ X)) = some key.length := by
  induction key with
  | nil => simp [firstIndex, List.isPrefixOf]
  | cons c l ih =>
    have hc : ¬ rbrace = c := by intro e; apply h; simp [e]
    have hl : rbrace ∉ l := by intro e; apply h; simp [e]
    have hnp : [rbrace].isPrefixOf (c :: (l ++ ([rbrace] ++ X))) = false := by
      simp [List.isPrefixOf, hc]
    show firstIndex [rbrace] (c :: (l ++ ([rbrace] ++ X))) = some (l.length + 1)
    rw [firstIndex, hnp, ih hl]; simp

theorem index_rbrace_none (junk : Bytes) (h : rbrace ∉ junk) : firstIndex [rbrace] junk = none := by
  induction junk with
  | nil => simp [firstIndex]
  | cons c l ih =>
    have hc : ¬ rbrace = c := by intro e; apply h; simp [e]
    have hl : rbrace ∉ l := by intro e; apply h; simp [e]
    simp [firstIndex, List.isPrefixOf, hc, ih hl]


def tokOf (ic : Bool) (t : Tok) : Token := ⟨t.name, if ic then lower t.lit else t.lit, t.skip⟩

theorem specialFlags_eq (t : Tok) : specialFlags t.key = (t.skip, t.name) := by
  unfold specialFlags Tok.skip Tok.name
  cases hk : t.key with
  | nil => simp
  | cons c l =>
    by_cases hq : c = qmark
    · simp [hq]
    · simp [hq]

def RestOK (rest : Bytes) : Prop := rest = [] ∨ ∃ Y, rest = [pct, lbrace] ++ Y

theorem stringsIndex_some {s u : Bytes} {i : Nat} (h : firstIndex u s = some i) : stringsIndex s u = (i : Int) := by
  simp [stringsIndex, h]
theorem stringsIndex_none {s u : Bytes} (h : firstIndex u s = none) : stringsIndex s u = -1 := by
  simp [stringsIndex, h]

def stepResult (ic : Bool) (lead : Bytes) (t : Tok) (rest : Bytes) (st : CState) :
    Except CErr (CState ⊕ (Bytes × CState)) :=
  let st1 : CState := if st.parts.length = 0 then { st with pre := lead } else st
  if t.lit = [] ∧ rest ≠ [] then .error .sequential
  else
    let st2 : CState := { st1 with parts := st1.parts ++ [tokOf ic t] }
    if !t.skip then
      if lookupName st2.groupNames t.name then .error .conflict
      else .ok (.inr (rest, { st2 with groupIndex := st2.groupIndex + 1,
                                       groupNames := st2.groupNames ++ [(t.name, st2.groupIndex + 1)] }))
    else .ok (.inr (rest, st2))

theorem compileStep_tok (ic : Bool) (lead : Bytes) (t : Tok) (rest : Bytes) (st : CState)
    (hl : NoTok lead) (hk : rbrace ∉ t.key) (hlit : NoTok t.lit) (hr : RestOK rest) :
    compileStep ic (lead ++ (t.render ++ rest)) st = stepResult ic lead t rest st := by
  have e0 : lead ++ (t.render ++ rest) = lead ++ ([pct, lbrace] ++ (t.key ++ ([rbrace] ++ (t.lit ++ rest)))) := by
    simp [Tok.render]
  have i1 := stringsIndex_some (index_tok_at lead (t.key ++ ([rbrace] ++ (t.lit ++ rest))) hl)
  have i2 := stringsIndex_some (index_rbrace_at t.key (t.lit ++ rest) hk)
  have d1 : (lead ++ ([pct, lbrace] ++ (t.key ++ ([rbrace] ++ (t.lit ++ rest))))).drop (lead.length + 2)
      = t.key ++ ([rbrace] ++ (t.lit ++ rest)) := by
    rw [List.drop_append]; simp
  have t1 : (lead ++ ([pct, lbrace] ++ (t.key ++ ([rbrace] ++ (t.lit ++ rest))))).take lead.length = lead := by
    simp
  have d2 : (t.key ++ ([rbrace] ++ (t.lit ++ rest))).drop (t.key.length + 1) = t.lit ++ rest := by
    rw [List.drop_append]; simp
  have t2 : (t.key ++ ([rbrace] ++ (t.lit ++ rest))).take t.key.length = t.key := by simp
  have hn1 : ¬ ((lead.length : Int) < 0) := by omega
  have hn2 : ¬ ((t.key.length : Int) < 0) := by omega
  unfold compileStep
  simp only [e0, i1, hn1, if_false, Int.toNat_natCast, d1, t1, i2, hn2, d2, t2, specialFlags_eq]
  unfold stepResult
  rcases hr with rfl | ⟨Y, rfl⟩
  · -- nothing follows: delimiter runs to the end of the pattern
    have i3 := stringsIndex_none (by simpa [NoTok] using hlit : firstIndex [pct, lbrace] (t.lit ++ []) = none)
    simp only [i3]
    simp [tokOf]
  · have i3 := stringsIndex_some (index_tok_at t.lit Y hlit)
    simp only [i3]
    by_cases hle : t.lit = []
    · simp [hle]
    · have : ¬ ((t.lit.length : Int) = 0) := by
        have := List.length_pos_iff.mpr hle; omega
      have hn3 : ¬ ((t.lit.length : Int) < 0) := by omega
      simp [hle, hn3, tokOf]


def tailText : Option Bytes → Bytes
  | none => []
  | some j => [pct, lbrace] ++ j

def restText (toks : List Tok) (tail : Option Bytes) : Bytes := (toks.map Tok.render).flatten ++ tailText tail

theorem restText_cons (t : Tok) (ts : List Tok) (tail : Option Bytes) :
    restText (t :: ts) tail = t.render ++ restText ts tail := by simp [restText]

theorem restText_ok (ts : List Tok) (tail : Option Bytes) : RestOK (restText ts tail) := by
  cases ts with
  | nil => cases tail with
    | none => left; rfl
    | some j => right; exact ⟨j, by simp [restText, tailText]⟩
  | cons t ts => right; exact ⟨t.key ++ [rbrace] ++ t.lit ++ restText ts tail, by simp [restText_cons, Tok.render]⟩

theorem restText_ne_nil (ts : List Tok) (tail : Option Bytes) :
    restText ts tail ≠ [] ↔ (ts ≠ [] ∨ tail.isSome = true) := by
  cases ts with
  | nil => cases tail <;> simp [restText, tailText]
  | cons t ts => simp [restText_cons, Tok.render]

def cerr : CompileErr → CErr
  | .unclosed => .unclosed
  | .sequential => .sequential
  | .conflict => .conflict

/-- the state after all tokens were appended (no error) -/
def foldToks (ic : Bool) : List Tok → CState → CState
  | [], st => st
  | t :: ts, st =>
    let st2 : CState := { st with parts := st.parts ++ [tokOf ic t] }
    foldToks ic ts (if !t.skip then { st2 with groupIndex := st2.groupIndex + 1,
                                               groupNames := st2.groupNames ++ [(t.name, st2.groupIndex + 1)] }
                    else st2)

theorem compileLoop_spec (ic : Bool) (tail : Option Bytes) (htail : ∀ j, tail = some j → rbrace ∉ j) :
    ∀ (toks : List Tok) (lead : Bytes) (st : CState) (seen : List Bytes) (fuel : Nat),
    NoTok lead → (∀ t ∈ toks, rbrace ∉ t.key ∧ NoTok t.lit) →
    (∀ n, n ∈ seen ↔ lookupName st.groupNames n = true) →
    (lead ++ restText toks tail).length < fuel →
    compileLoop ic fuel (lead ++ restText toks tail) st =
      match specErrors tail.isSome toks seen with
      | some e => .error (cerr e)
      | none => .ok (foldToks ic toks (if st.parts.length = 0 then { st with pre := lead } else st)) := by
  intro toks
  induction toks with
  | nil =>
    intro lead st seen fuel hl _ _ hf
    cases fuel with
    | zero => omega
    | succ f =>
      cases tail with
      | none =>
        have i1 : stringsIndex lead [pct, lbrace] = -1 := stringsIndex_none hl
        simp only [restText, tailText, List.map_nil, List.flatten_nil, List.append_nil, compileLoop,
          compileStep, i1, specErrors, Option.isSome_none, foldToks]
        simp
      | some j =>
        have i1 := stringsIndex_some (index_tok_at lead j hl)
        have i2 := stringsIndex_none (index_rbrace_none j (htail j rfl))
        have d1 : (lead ++ ([pct, lbrace] ++ j)).drop (lead.length + 2) = j := by
          rw [List.drop_append]; simp
        have hn1 : ¬ ((lead.length : Int) < 0) := by omega
        simp only [restText, tailText, List.map_nil, List.flatten_nil, List.nil_append, compileLoop,
          compileStep, i1, hn1, if_false, Int.toNat_natCast, d1, i2, specErrors, Option.isSome_some]
        simp [cerr]
  | cons t ts ih =>
    intro lead st seen fuel hl hts hseen hf
    cases fuel with
    | zero => omega
    | succ f =>
      have ht := hts t (by simp)
      rw [restText_cons] at hf ⊢
      simp only [compileLoop]
      rw [compileStep_tok ic lead t _ st hl ht.1 ht.2 (restText_ok ts tail)]
      unfold stepResult
      simp only [specErrors]
      obtain ⟨st1, hst1⟩ : ∃ st1 : CState, st1 = (if st.parts.length = 0 then { st with pre := lead } else st) := ⟨_, rfl⟩
      have hgn : st1.groupNames = st.groupNames := by rw [hst1]; split <;> rfl
      rw [← hst1]
      have hne := restText_ne_nil ts tail
      by_cases hseq : t.lit = [] ∧ (ts ≠ [] ∨ tail.isSome = true)
      · have : t.lit = [] ∧ restText ts tail ≠ [] := ⟨hseq.1, hne.mpr hseq.2⟩
        simp [this, hseq, cerr]
      · have hseq' : ¬ (t.lit = [] ∧ restText ts tail ≠ []) := fun h => hseq ⟨h.1, hne.mp h.2⟩
        simp only [hseq, hseq', if_false]
        have hlen : (restText ts tail).length + 3 ≤ (lead ++ (t.render ++ restText ts tail)).length := by
          simp [Tok.render]; omega
        have hf' : ([] ++ restText ts tail).length < f := by simp; omega
        have hnil : NoTok [] := by simp [NoTok, firstIndex]
        have hts' : ∀ t ∈ ts, rbrace ∉ t.key ∧ NoTok t.lit := fun x hx => hts x (by simp [hx])
        by_cases hs : t.skip = true
        · simp only [hs, Bool.not_true, Bool.false_eq_true, if_false, false_and, foldToks]
          have := ih [] { st1 with parts := st1.parts ++ [tokOf ic t] } seen f hnil hts' (by
            intro n; rw [hseen n, hgn]) hf'
          simp only [List.nil_append] at this
          rw [this]
          simp
        · have hs' : t.skip = false := by simpa using hs
          simp only [hs', Bool.not_false, if_true, true_and, foldToks]
          have hname : (t.name ∈ seen) ↔ lookupName st1.groupNames t.name = true := by
            rw [hseen, hgn]
          by_cases hc : t.name ∈ seen
          · simp [hc, hname.mp hc, cerr]
          · have hc' : ¬ lookupName st1.groupNames t.name = true := fun h => hc (hname.mpr h)
            simp only [hc, hc', if_false, Bool.false_eq_true]
            have := ih [] { st1 with parts := st1.parts ++ [tokOf ic t], groupIndex := st1.groupIndex + 1,
                                     groupNames := st1.groupNames ++ [(t.name, st1.groupIndex + 1)] }
              (t.name :: seen) f hnil hts' (by
              intro n
              simp only [List.mem_cons, lookupName, List.any_append, List.any_cons, List.any_nil,
                Bool.or_false, Bool.or_eq_true, beq_iff_eq]
              rw [hseen n, hgn]
              simp only [lookupName]
              constructor
              · rintro (h | h)
                · right; exact h.symm
                · left; exact h
              · rintro (h | h)
                · right; exact h
                · left; exact h.symm) hf'
            simp only [List.nil_append] at this
            rw [this]
            simp


theorem foldToks_closed (ic : Bool) : ∀ (toks : List Tok) (st : CState),
    (foldToks ic toks st).parts = st.parts ++ toks.map (tokOf ic) ∧
    (foldToks ic toks st).groupIndex = st.groupIndex + capCount toks ∧
    (foldToks ic toks st).groupNames =
      st.groupNames ++ ((toks.filter (fun t => !t.skip)).map Tok.name).zipIdx (st.groupIndex + 1) ∧
    (foldToks ic toks st).pre = st.pre := by
  intro toks
  induction toks with
  | nil => intro st; simp [foldToks, capCount]
  | cons t ts ih =>
    intro st
    simp only [foldToks]
    by_cases hs : t.skip = true
    · obtain ⟨a, b, c, d⟩ := ih { st with parts := st.parts ++ [tokOf ic t] }
      simp only [hs, Bool.not_true, Bool.false_eq_true, if_false]
      refine ⟨by rw [a]; simp, by rw [b]; simp [capCount, List.filter, hs], by rw [c]; simp [List.filter, hs], by rw [d]⟩
    · have hs' : t.skip = false := by simpa using hs
      obtain ⟨a, b, c, d⟩ := ih { st with parts := st.parts ++ [tokOf ic t], groupIndex := st.groupIndex + 1,
                                           groupNames := st.groupNames ++ [(t.name, st.groupIndex + 1)] }
      simp only [hs', Bool.not_false, if_true]
      refine ⟨by rw [a]; simp, by rw [b]; simp [capCount, List.filter, hs']; omega,
        by rw [c]; simp [List.filter, hs', List.zipIdx_cons], by rw [d]⟩

/-- `CompileEx` on the text of a pattern (optionally followed by an unclosed token). -/
theorem compileEx_render (ic : Bool) (p : Pat) (hp : p.Shape) (tail : Option Bytes)
    (htail : ∀ j, tail = some j → rbrace ∉ j) :
    compileEx (p.render ++ tailText tail) ic =
      match specErrors tail.isSome p.toks [] with
      | some e => .error (cerr e)
      | none => .ok { tokens := p.toks.map (tokOf ic), pre := if ic then lower p.pre else p.pre, ic := ic,
                      groupNames := nameTable p.toks, groupCount := capCount p.toks } := by
  have he : p.render ++ tailText tail = p.pre ++ restText p.toks tail := by
    simp [Pat.render, restText]
  have hshape : ∀ t ∈ p.toks, rbrace ∉ t.key ∧ NoTok t.lit := hp.2
  have := compileLoop_spec ic tail htail p.toks p.pre {} [] ((p.pre ++ restText p.toks tail).length + 1)
    hp.1 hshape (by intro n; simp [lookupName]) (by omega)
  unfold compileEx
  rw [he, this]
  cases specErrors tail.isSome p.toks [] with
  | some e => rfl
  | none =>
    obtain ⟨a, b, c, d⟩ := foldToks_closed ic p.toks { pre := p.pre }
    simp only [List.length_nil, if_true]
    simp only [a, b, c, d, nameTable]
    simp

end Rare.C12
