import Rare.Model.C01FilterLine
import Rare.Proofs.C01Summary
namespace Rare.C01
open Rare

theorem hui_false (n : Nat) : hui false n = natDigits n := by simp [hui]

/-- A line printed by `filter --line` (colours off) for a source whose name has no space reads back as exactly
    (source, number, match), whatever the match text is. -/
theorem readLinePrefix_filterLine (src : Bytes) (num : Nat) (text : Bytes) (hs : ∀ c ∈ src, c ≠ 32)
    (hn : num < 10 ^ 20) :
    readLinePrefix (filterLine true false src num text) = some (src, num, text) := by
  have hall : ∀ c ∈ src, (c != 32) = true := by
    intro c hc; simpa using hs c hc
  have hshape : filterLine true false src num text = src ++ (32 :: (hui false num ++ (58 :: 32 :: text))) := by
    simp [filterLine, linePrefix, wrap, hui_false]
  have ht : (src ++ (32 :: (hui false num ++ (58 :: 32 :: text)))).takeWhile (· != 32) = src := by
    rw [List.takeWhile_append_of_pos hall]; simp
  have hd : (src ++ (32 :: (hui false num ++ (58 :: 32 :: text)))).dropWhile (· != 32)
      = 32 :: (hui false num ++ (58 :: 32 :: text)) := by
    rw [List.dropWhile_append_of_pos hall]; simp
  have hr := readNum_hui false num hn (58 :: 32 :: text) (by
    intro c r h
    simp only [List.cons.injEq] at h
    rw [← h.1]; decide)
  unfold readLinePrefix
  rw [hshape, hd]
  simp only [hr, ht]
  have : stripPrefix [58, 32] (58 :: 32 :: text) = some text := stripPrefix_append [58, 32] text
  rw [this]

end Rare.C01
