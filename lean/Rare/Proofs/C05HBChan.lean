import Rare.Proofs.C05HBTable
/-!
# Channel edges in the happens-before model: the `outputDone` hand-shake (C05)

`Proofs/C05HB.lean` has mutexes, atomics and `go` edges.  The role table of `RunAggregationLoop` (`raceFreeRoles
Gen.Access.aggLoop`) needs one more edge: the final `writeOutput()` of the main goroutine takes NO lock; it is ordered
after every periodic render only because `outputDone <- true` is a send on an UNBUFFERED channel whose only receiver
– the ticker goroutine – returns right after the receive.  This file adds channels to the trace semantics:

* events (on top of the events of `HB2`, embedded with `COp.base`): `sendB c` (a send statement on the unbuffered
  channel `c` is chosen for the rendezvous; the sender blocks), `recv c` (a receive takes the offered value), `sendE c`
  (the send statement completes), `close c`, `recvClosed c` (a receive that returns because the channel is closed);
* channel state `idle → offered t → taken t → idle` and `idle → closed`; `ExecC` = an `HB2.Exec` of the projected trace
  + every event enabled in the channel state;
* happens-before `HBc` (go.dev/ref/mem): everything of `HB2.HB`; "a send on a channel is synchronised before the
  completion of the corresponding receive" (`chSend`); "a receive from an unbuffered channel is synchronised before
  the completion of the corresponding send" (`chRecv`); "the closing of a channel is synchronised before a receive
  that returns because the channel is closed" (`chClose`); transitive closure.

`handshake_orders`: when only goroutine `t` receives from `c` and does nothing after its receive, everything `t` ever
did happens before everything the sender does from the completion of its send on.
`discipline_no_race_chan`: common mutex / `go` separation / terminating hand-shake for every conflicting pair ⇒ no race.
`roles_no_race`: a role table passing `raceFreeRoles` + an execution it abstracts (`AbstractsC`: an `ord` mark means
"separated by the `go` statement or by a terminating hand-shake") ⇒ no data race.
`close_race`: with `close(c)` in place of the send (seeded/C05-outputdone-close) the edge points the other way
(close → receive): the run "periodic render in progress, main closes the channel and renders" is an execution WITH a
data race, although the ticker still holds the mutex and still observes the closed channel afterwards.
-/
namespace Rare.Lockset.HBC
open Rare.Lockset.HB2
open Rare.Gen.Access (Acc)

inductive COp where
  | base (o : Op)
  | sendB (c : Nat)
  | recv (c : Nat)
  | sendE (c : Nat)
  | close (c : Nat)
  | recvClosed (c : Nat)
  deriving DecidableEq, Repr

structure CEv where
  tid : Nat
  op : COp
  deriving DecidableEq, Repr

/-- What `HB2` sees of an event: channel operations are "something else". -/
def proj (e : CEv) : Ev :=
  ⟨e.tid, match e.op with
    | .base o => o
    | _ => .other⟩

inductive ChSt where
  | idle
  | offered (t : Nat)
  | taken (t : Nat)
  | closed
  deriving DecidableEq, Repr

def cstep (s : Nat → ChSt) (e : CEv) : Option (Nat → ChSt) :=
  match e.op with
  | .base _ => some s
  | .sendB c => if s c = .idle then some (fun x => if x = c then .offered e.tid else s x) else none
  | .recv c =>
    match s c with
    | .offered t => if t ≠ e.tid then some (fun x => if x = c then .taken t else s x) else none
    | _ => none
  | .sendE c => if s c = .taken e.tid then some (fun x => if x = c then .idle else s x) else none
  | .close c => if s c = .idle then some (fun x => if x = c then .closed else s x) else none
  | .recvClosed c => if s c = .closed then some s else none

structure ExecC (tr : List CEv) (hs : Nat → Locks) (cs : Nat → Nat → ChSt) : Prop where
  base : Exec (tr.map proj) hs
  cinit : ∀ c, cs 0 c = .idle
  cnext : ∀ k e, tr[k]? = some e → cstep (cs k) e = some (cs (k + 1))

inductive HBc (tr : List CEv) : Nat → Nat → Prop
  | base {i j : Nat} : HB (tr.map proj) i j → HBc tr i j
  | chSend {i j : Nat} {a b : CEv} {c : Nat} : i < j → tr[i]? = some a → tr[j]? = some b →
      a.op = .sendB c → b.op = .recv c →
      (∀ k e, i < k → k < j → tr[k]? = some e → e.op ≠ .recv c) → HBc tr i j
  | chRecv {i j : Nat} {a b : CEv} {c : Nat} : i < j → tr[i]? = some a → tr[j]? = some b →
      a.op = .recv c → b.op = .sendE c →
      (∀ k e, i < k → k < j → tr[k]? = some e → e.op ≠ .sendE c) → HBc tr i j
  | chClose {i j : Nat} {a b : CEv} {c : Nat} : i < j → tr[i]? = some a → tr[j]? = some b →
      a.op = .close c → b.op = .recvClosed c → HBc tr i j
  | trans {i j k : Nat} : HBc tr i j → HBc tr j k → HBc tr i k

def ConflictC (a b : CEv) : Prop :=
  ∃ x w1 a1 w2 a2, a.op = .base (.acc x w1 a1) ∧ b.op = .base (.acc x w2 a2) ∧ (w1 = true ∨ w2 = true) ∧
    ¬ (a1 = true ∧ a2 = true)

def RaceC (tr : List CEv) : Prop :=
  ∃ i j a b, i < j ∧ tr[i]? = some a ∧ tr[j]? = some b ∧ ConflictC a b ∧ a.tid ≠ b.tid ∧ ¬ HBc tr i j

theorem proj_at {tr : List CEv} {k : Nat} {e : CEv} (h : tr[k]? = some e) : (tr.map proj)[k]? = some (proj e) := by
  simp [List.getElem?_map, h]

theorem po {tr : List CEv} {i j : Nat} {a b : CEv} (hij : i ≤ j) (ha : tr[i]? = some a) (hb : tr[j]? = some b)
    (ht : a.tid = b.tid) : i = j ∨ HBc tr i j := by
  by_cases h : i = j
  · exact .inl h
  · exact .inr (.base (.po (by omega) (proj_at ha) (proj_at hb) ht))

/-! ### The channel state machine -/

theorem last_gain (P : Nat → Prop) (lo : Nat) : ∀ hi, lo ≤ hi → ¬ P lo → P hi →
    ∃ r, lo ≤ r ∧ r < hi ∧ ¬ P r ∧ ∀ k, r < k → k ≤ hi → P k := by
  intro hi
  induction hi with
  | zero =>
    intro h0 hn hp
    have : lo = 0 := Nat.le_zero.mp h0
    subst this; exact absurd hp hn
  | succ hi ih =>
    intro hle hn hp
    have hlo : lo ≤ hi := by
      by_cases h : lo = hi + 1
      · subst h; exact absurd hp hn
      · omega
    by_cases hph : P hi
    · obtain ⟨r, h1, h2, h3, h4⟩ := ih hlo hn hph
      refine ⟨r, h1, by omega, h3, ?_⟩
      intro k hk1 hk2
      by_cases hk : k = hi + 1
      · subst hk; exact hp
      · exact h4 k hk1 (by omega)
    · refine ⟨hi, hlo, by omega, hph, ?_⟩
      intro k hk1 hk2
      have : k = hi + 1 := by omega
      subst this; exact hp

theorem taken_gained {s s' : Nat → ChSt} {e : CEv} {c t : Nat} (hs : cstep s e = some s')
    (h1 : s c ≠ .taken t) (h2 : s' c = .taken t) : e.op = .recv c ∧ e.tid ≠ t := by
  cases hop : e.op with
  | base o => simp only [cstep, hop] at hs; cases hs; exact absurd h2 h1
  | sendB c' =>
    simp only [cstep, hop] at hs
    split at hs
    · cases hs
      by_cases hc : c = c'
      · subst hc; simp at h2
      · simp [hc] at h2; exact absurd h2 h1
    · cases hs
  | recv c' =>
    simp only [cstep, hop] at hs
    split at hs
    · rename_i t' hoff
      split at hs
      · rename_i hne
        cases hs
        by_cases hc : c = c'
        · subst hc
          simp at h2
          subst h2
          exact ⟨rfl, fun h => hne h.symm⟩
        · simp [hc] at h2; exact absurd h2 h1
      · cases hs
    · cases hs
  | sendE c' =>
    simp only [cstep, hop] at hs
    split at hs
    · cases hs
      by_cases hc : c = c'
      · subst hc; simp at h2
      · simp [hc] at h2; exact absurd h2 h1
    · cases hs
  | close c' =>
    simp only [cstep, hop] at hs
    split at hs
    · cases hs
      by_cases hc : c = c'
      · subst hc; simp at h2
      · simp [hc] at h2; exact absurd h2 h1
    · cases hs
  | recvClosed c' =>
    simp only [cstep, hop] at hs
    split at hs
    · cases hs; exact absurd h2 h1
    · cases hs

theorem sendE_step {s s' : Nat → ChSt} {e : CEv} {c : Nat} (hs : cstep s e = some s') (hop : e.op = .sendE c) :
    s c = .taken e.tid ∧ s' c = .idle := by
  simp only [cstep, hop] at hs
  split at hs
  · rename_i h
    cases hs
    exact ⟨h, by simp⟩
  · cases hs

/-- A completed send has its receive: some other goroutine received on `c` before, no send on `c` completed in
    between, and that receive happens before the completion of the send. -/
theorem handshake_recv {tr : List CEv} {hs : Nat → Locks} {cs : Nat → Nat → ChSt} (hex : ExecC tr hs cs)
    {k : Nat} {e : CEv} {c : Nat} (hk : tr[k]? = some e) (hop : e.op = .sendE c) :
    ∃ r er, r < k ∧ tr[r]? = some er ∧ er.op = .recv c ∧ er.tid ≠ e.tid ∧ HBc tr r k := by
  have hpre := (sendE_step (hex.cnext k e hk) hop).1
  have hklen : k < tr.length := (List.getElem?_eq_some_iff.mp hk).1
  obtain ⟨r, _, hrk, hnr, hall⟩ := last_gain (fun n => cs n c = .taken e.tid) 0 k (Nat.zero_le _)
    (by rw [hex.cinit c]; intro h; cases h) hpre
  have hrlen : r < tr.length := by omega
  have her : tr[r]? = some tr[r] := List.getElem?_eq_getElem hrlen
  obtain ⟨g1, g2⟩ := taken_gained (hex.cnext r _ her) hnr (hall (r + 1) (by omega) (by omega))
  refine ⟨r, tr[r], hrk, her, g1, g2, .chRecv hrk her hk g1 hop ?_⟩
  intro k' e' h1 h2 hk' hop'
  have hidle := (sendE_step (hex.cnext k' e' hk') hop').2
  have := hall (k' + 1) (by omega) (by omega)
  rw [hidle] at this; cases this

/-- **The terminating hand-shake.**  `c` is unbuffered, only goroutine `t` receives from it and `t` does nothing
    after a receive from it (the ticker: `case <-outputDone: return`).  Then every event of `t` happens before every
    event of the sender from the completion of its send on (`outputDone <- true` … the final `writeOutput()`). -/
theorem handshake_orders {tr : List CEv} {hs : Nat → Locks} {cs : Nat → Nat → ChSt} (hex : ExecC tr hs cs)
    {k : Nat} {e : CEv} {c t : Nat} (hk : tr[k]? = some e) (hop : e.op = .sendE c)
    (honly : ∀ (r : Nat) (er : CEv), tr[r]? = some er → er.op = .recv c → er.tid = t)
    (hlast : ∀ (r r' : Nat) (er e' : CEv), tr[r]? = some er → er.op = .recv c → r < r' → tr[r']? = some e' →
      e'.tid ≠ t)
    {i j : Nat} {a b : CEv} (ha : tr[i]? = some a) (hat : a.tid = t) (hb : tr[j]? = some b) (hbt : b.tid = e.tid)
    (hkj : k ≤ j) : HBc tr i j := by
  obtain ⟨r, er, hrk, her, hrop, _, hrecv⟩ := handshake_recv hex hk hop
  have hert : er.tid = t := honly r er her hrop
  have hir : i ≤ r := by
    by_cases h : i ≤ r
    · exact h
    · exact absurd hat (hlast r i er a her hrop (by omega) ha)
  have h1 := po hir ha her (hat.trans hert.symm)
  have h2 := po hkj hk hb hbt.symm
  rcases h1 with rfl | h1 <;> rcases h2 with rfl | h2
  · exact hrecv
  · exact .trans hrecv h2
  · exact .trans h1 hrecv
  · exact .trans (.trans h1 hrecv) h2

/-- The later access's goroutine completed, not after that access, a send on an unbuffered channel that only the
    earlier access's goroutine receives from, and that goroutine does nothing after receiving. -/
def Handshake (tr : List CEv) (j : Nat) (a b : CEv) : Prop :=
  ∃ k e c, k ≤ j ∧ tr[k]? = some e ∧ e.tid = b.tid ∧ e.op = .sendE c ∧
    (∀ (r : Nat) (er : CEv), tr[r]? = some er → er.op = .recv c → er.tid = a.tid) ∧
    (∀ (r r' : Nat) (er e' : CEv), tr[r]? = some er → er.op = .recv c → r < r' → tr[r']? = some e' →
      e'.tid ≠ a.tid)

/-- The `go` statement that started the later access's goroutine was executed by the earlier access's goroutine, not
    before that access. -/
def GoSep (tr : List CEv) (i j : Nat) (a b : CEv) : Prop :=
  ∃ k c, i ≤ k ∧ k < j ∧ tr[k]? = some c ∧ c.tid = a.tid ∧ c.op = .base (.spawn b.tid)

def SafeC (tr : List CEv) (hs : Nat → Locks) (i j : Nat) (a b : CEv) : Prop :=
  (∃ m la lb, Holds (hs i) m a.tid la ∧ Holds (hs j) m b.tid lb ∧ (la = true ∨ lb = true)) ∨
  GoSep tr i j a b ∨ Handshake tr j a b

theorem safeC_orders {tr : List CEv} {hs : Nat → Locks} {cs : Nat → Nat → ChSt} (hex : ExecC tr hs cs)
    {i j : Nat} {a b : CEv} (hij : i < j) (ha : tr[i]? = some a) (hb : tr[j]? = some b)
    (h : SafeC tr hs i j a b) : HBc tr i j := by
  rcases h with ⟨m, la, lb, h1, h2, hx⟩ | ⟨k, c, hik, hkj, hck, htc, hsp⟩ | ⟨k, e, c, hkj, hk, het, hop, honly, hlast⟩
  · exact .base (rw_mutex_orders hex.base hij (proj_at ha) (proj_at hb) h1 h2 hx)
  · refine .base (go_orders hik hkj (proj_at ha) (proj_at hck) (proj_at hb) htc.symm ?_)
    simp [proj, hsp]
  · exact handshake_orders hex hk hop honly hlast ha rfl hb het.symm hkj

/-- **Mutex, `go` and terminating hand-shake imply data-race freedom.** -/
theorem discipline_no_race_chan {tr : List CEv} {hs : Nat → Locks} {cs : Nat → Nat → ChSt} (hex : ExecC tr hs cs)
    (hdisc : ∀ i j a b, i < j → tr[i]? = some a → tr[j]? = some b → ConflictC a b → a.tid ≠ b.tid →
      SafeC tr hs i j a b) : ¬ RaceC tr := by
  rintro ⟨i, j, a, b, hij, ha, hb, hc, hne, hnhb⟩
  exact hnhb (safeC_orders hex hij ha hb (hdisc i j a b hij ha hb hc hne))

/-! ### From a role table to executions -/

/-- The trusted link between a ROLE table (one goroutine per role: `RunAggregationLoop`'s `main` / `go1`) and an
    execution.  As `HB2.Abstracts`, except that an `ord` mark is not taken to mean "ordered by happens-before" but
    what the extractor checks syntactically: the two sites are separated by the `go` statement, or by a hand-shake on
    an unbuffered channel whose only receiver returns after the receive. -/
structure AbstractsC (tr : List CEv) (hs : Nat → Locks) (rows : List Acc) (site : Nat → Option Acc)
    (mid : String → Nat) : Prop where
  covered : ∀ (k : Nat) (e : CEv) (x : Nat) (w a : Bool), tr[k]? = some e → e.op = .base (.acc x w a) →
    ∃ r, site k = some r ∧ r ∈ rows
  conflicts : ∀ (i j : Nat) (a b : CEv) (ra rb : Acc) (x : Nat) (w1 a1 w2 a2 : Bool),
    tr[i]? = some a → tr[j]? = some b → site i = some ra → site j = some rb →
    a.op = .base (.acc x w1 a1) → b.op = .base (.acc x w2 a2) → (w1 = true ∨ w2 = true) →
    Lockset.conflict ra rb = true
  roles : ∀ (i j : Nat) (a b : CEv) (ra rb : Acc), tr[i]? = some a → tr[j]? = some b → site i = some ra →
    site j = some rb → a.tid ≠ b.tid → ra.fn ≠ rb.fn
  atomic : ∀ (k : Nat) (e : CEv) (x : Nat) (w a : Bool) (r : Acc), tr[k]? = some e → e.op = .base (.acc x w a) →
    site k = some r → r.atomic = true → a = true
  excl : ∀ (k : Nat) (e : CEv) (r : Acc), tr[k]? = some e → site k = some r → r.lock = "W" →
    Holds (hs k) (mid r.mutex) e.tid true
  shared : ∀ (k : Nat) (e : CEv) (r : Acc), tr[k]? = some e → site k = some r → r.lock ≠ "" → r.lock ≠ "W" →
    Holds (hs k) (mid r.mutex) e.tid false
  ordered : ∀ (i j : Nat) (a b : CEv) (ra rb : Acc), i < j → tr[i]? = some a → tr[j]? = some b →
    site i = some ra → site j = some rb → a.tid ≠ b.tid → (rb.fn ∈ ra.ord ∨ ra.fn ∈ rb.ord) →
    GoSep tr i j a b ∨ Handshake tr j a b

/-- **A role table that passes the pairwise check + an execution it abstracts ⇒ no data race.** -/
theorem roles_no_race {tr : List CEv} {hs : Nat → Locks} {cs : Nat → Nat → ChSt} {rows : List Acc}
    {site : Nat → Option Acc} {mid : String → Nat} (hex : ExecC tr hs cs) (habs : AbstractsC tr hs rows site mid)
    (hsafe : ∀ a ∈ rows, ∀ b ∈ rows, a.fn ≠ b.fn → Lockset.conflict a b = true → Lockset.safePair a b = true) :
    ¬ RaceC tr := by
  refine discipline_no_race_chan hex ?_
  rintro i j a b hij ha hb ⟨x, w1, a1, w2, a2, hoa, hob, hw, hat⟩ hne
  obtain ⟨ra, hsa, hra⟩ := habs.covered i a x w1 a1 ha hoa
  obtain ⟨rb, hsb, hrb⟩ := habs.covered j b x w2 a2 hb hob
  have hc := habs.conflicts i j a b ra rb x w1 a1 w2 a2 ha hb hsa hsb hoa hob hw
  have hfn := habs.roles i j a b ra rb ha hb hsa hsb hne
  rcases Lockset.safePair_cases (hsafe ra hra rb hrb hfn hc) with ⟨h1, h2⟩ | ⟨hla, hlb, hm, hx⟩ | hord
  · exact absurd ⟨habs.atomic i a x w1 a1 ra ha hoa hsa h1, habs.atomic j b x w2 a2 rb hb hob hsb h2⟩ hat
  · have hA : Holds (hs i) (mid ra.mutex) a.tid (decide (ra.lock = "W")) := by
      by_cases h : ra.lock = "W"
      · simpa [h] using habs.excl i a ra ha hsa h
      · simpa [h] using habs.shared i a ra ha hsa hla h
    have hB : Holds (hs j) (mid ra.mutex) b.tid (decide (rb.lock = "W")) := by
      rw [hm]
      by_cases h : rb.lock = "W"
      · simpa [h] using habs.excl j b rb hb hsb h
      · simpa [h] using habs.shared j b rb hb hsb hlb h
    exact .inl ⟨_, _, _, hA, hB, by rcases hx with h | h <;> simp [h]⟩
  · exact .inr (habs.ordered i j a b ra rb hij ha hb hsa hsb hne hord)

end Rare.Lockset.HBC
