import Rare.Proofs.Pipeline
import Rare.Model.C02
/-! Helper lemmas for C02: FIFO order with one reader and one worker; `GetMatch`; `WrapIndices`. -/
namespace Rare.Pipeline

variable {α : Type}

/-- The sequence the consumer will have seen in the end, read off the current state when there is
    exactly one source and one worker: consumed, then the match channel, then the worker's match
    batch, then the matched lines among everything still upstream, in pipeline order. -/
def orderSeq (cls : α → Cls) (s : St α) : List α :=
  s.consumed ++ s.rc.flatten ++ wAcc s ++ (wTodo s ++ s.c.flatten ++ srcLines s).filter (isMatched cls)

theorem single_of_length_one {γ : Type} {l : List γ} (h : l.length = 1) : ∃ x, l = [x] := by
  match l, h with
  | [x], _ => exact ⟨x, rfl⟩

theorem single_get {γ : Type} {x a : γ} {i : Nat} (h : [x][i]? = some a) : i = 0 ∧ a = x := by
  cases i with
  | zero => simp at h; exact ⟨rfl, h.symm⟩
  | succ i => simp at h

theorem fifo_step (cls : α → Cls) {R B K : Nat} {s s' : St α} (h1 : s.srcs.length = 1)
    (h2 : s.workers.length = 1) (hs : Step cls R B K s s') : orderSeq cls s' = orderSeq cls s := by
  obtain ⟨x, hx⟩ := single_of_length_one h1
  obtain ⟨w, hw⟩ := single_of_length_one h2
  cases hs with
  | start i bs h hr =>
    rw [hx] at h; obtain ⟨rfl, rfl⟩ := single_get h
    simp [orderSeq, srcLines, hx, SrcSt.lines, wAcc, wTodo]
  | send i b bs h hcap =>
    rw [hx] at h; obtain ⟨rfl, rfl⟩ := single_get h
    simp [orderSeq, srcLines, hx, SrcSt.lines, wAcc, wTodo]
  | finish i h =>
    rw [hx] at h; obtain ⟨rfl, rfl⟩ := single_get h
    simp [orderSeq, srcLines, hx, SrcSt.lines, wAcc, wTodo]
  | closeC hall hc => rfl
  | wrecv j b rest h hc =>
    rw [hw] at h; obtain ⟨rfl, rfl⟩ := single_get h
    simp [orderSeq, srcLines, hw, hc, wAcc, wTodo, WSt.todo, WSt.acc]
  | wproc j y todo acc h =>
    rw [hw] at h; obtain ⟨rfl, rfl⟩ := single_get h
    by_cases hm : cls y = .matched <;>
      simp [orderSeq, srcLines, hw, wAcc, wTodo, WSt.todo, WSt.acc, hm, isMatched, List.filter_cons]
  | wsend j acc h hne hcap =>
    rw [hw] at h; obtain ⟨rfl, rfl⟩ := single_get h
    simp [orderSeq, srcLines, hw, wAcc, wTodo, WSt.todo, WSt.acc]
  | wskip j h =>
    rw [hw] at h; obtain ⟨rfl, rfl⟩ := single_get h
    simp [orderSeq, srcLines, hw, wAcc, wTodo, WSt.todo, WSt.acc]
  | wexit j h hc hcl =>
    rw [hw] at h; obtain ⟨rfl, rfl⟩ := single_get h
    simp [orderSeq, srcLines, hw, wAcc, wTodo, WSt.todo, WSt.acc]
  | closeRC hall hc => rfl
  | crecv m rest hrc hd => simp [orderSeq, hrc, wAcc, wTodo, srcLines]
  | cdone hrc hcl hd => rfl

theorem step_srcs_length {cls : α → Cls} {R B K : Nat} {s s' : St α} (hs : Step cls R B K s s') :
    s'.srcs.length = s.srcs.length := by
  cases hs <;> simp

theorem fifo_reach (cls : α → Cls) {R B K : Nat} {s0 s : St α} (h1 : s0.srcs.length = 1)
    (h2 : s0.workers.length = 1) (hr : Reach cls R B K s0 s) :
    orderSeq cls s = orderSeq cls s0 ∧ s.srcs.length = 1 ∧ s.workers.length = 1 := by
  induction hr with
  | refl => exact ⟨rfl, h1, h2⟩
  | step _ hs ih =>
    exact ⟨(fifo_step cls ih.2.1 ih.2.2 hs).trans ih.1, (step_srcs_length hs).trans ih.2.1,
      (step_workers_length hs).trans ih.2.2⟩

end Rare.Pipeline

namespace Rare.C02

theorem goSlice_ok {s : Bytes} {a b : Int} (h : 0 ≤ a ∧ a ≤ b ∧ b ≤ s.length) :
    goSlice s a b = .ok ((s.drop a.toNat).take (b.toNat - a.toNat)) := by
  simp [goSlice, h]

/-- Concatenating adjacent slices. -/
theorem slice_concat (s : Bytes) (a b c : Nat) (hab : a ≤ b) (hbc : b ≤ c) :
    (s.drop a).take (b - a) ++ (s.drop b).take (c - b) = (s.drop a).take (c - a) := by
  have h1 : s.drop b = (s.drop a).drop (b - a) := by
    rw [List.drop_drop]; congr 1; omega
  rw [h1]
  have : c - a = (b - a) + (c - b) := by omega
  rw [this, List.take_add]

end Rare.C02

namespace Rare.C02

/-- Index slices as Go's matchers hand them out: every pair is either (-1,-1) (group did not
    participate) or a valid range of the line. -/
def WF (line : Bytes) (indices : List Int) : Prop :=
  ∀ k : Nat, 2 * k + 1 < indices.length →
    (indices.getD (2 * k) 0 = -1 ∧ indices.getD (2 * k + 1) 0 = -1) ∨
    (0 ≤ indices.getD (2 * k) 0 ∧ indices.getD (2 * k) 0 ≤ indices.getD (2 * k + 1) 0 ∧
      indices.getD (2 * k + 1) 0 ≤ line.length)

/-- The text of capture group `k` according to the leftmost match's index slice. -/
def specGroup (line : Bytes) (indices : List Int) (k : Int) : Bytes :=
  if 0 ≤ k ∧ 2 * k + 1 < indices.length then
    let a := indices.getD (2 * k.toNat) 0
    let b := indices.getD (2 * k.toNat + 1) 0
    if a < 0 ∨ b < 0 then [] else (line.drop a.toNat).take (b.toNat - a.toNat)
  else []

theorem wrap64_id {x : Int} (h1 : minInt64 ≤ x) (h2 : x ≤ maxInt64) : wrap64 x = x := by
  unfold wrap64 minInt64 maxInt64 at *
  omega

theorem getMatch_aux (line : Bytes) (A B : Int)
    (h : (A = -1 ∧ B = -1) ∨ (0 ≤ A ∧ A ≤ B ∧ B ≤ line.length)) :
    (if A < 0 ∨ B < 0 then Except.ok [] else goSlice line A B) =
      (Except.ok (if A < 0 ∨ B < 0 then [] else (line.drop A.toNat).take (B.toNat - A.toNat)) : Except String Bytes) := by
  rcases h with ⟨ha, hb⟩ | ⟨ha, hab, hb⟩
  · have : A < 0 ∨ B < 0 := by omega
    rw [if_pos this, if_pos this]
  · have : ¬ (A < 0 ∨ B < 0) := by omega
    rw [if_neg this, if_neg this]
    exact goSlice_ok ⟨ha, hab, hb⟩

theorem getMatch_eq_spec (line : Bytes) (indices : List Int) (idx : Int)
    (hwf : WF line indices) (hlen : (indices.length : Int) < 4611686018427387904)
    (hidx : minInt64 ≤ idx ∧ idx ≤ maxInt64) :
    getMatch line indices idx = .ok (specGroup line indices idx) := by
  unfold getMatch specGroup
  dsimp only
  by_cases hbig : 0 ≤ idx ∧ 2 * idx + 1 < indices.length
  · have hw : wrap64 (idx * 2) = idx * 2 := wrap64_id (by unfold minInt64; omega) (by unfold maxInt64; omega)
    have hk := hwf idx.toNat (by omega)
    have e1 : (idx * 2).toNat = 2 * idx.toNat := by omega
    have hc : ¬ (idx < 0 ∨ idx * 2 < 0 ∨ idx * 2 + 1 ≥ (indices.length : Int)) := by omega
    rw [hw, if_neg hc, if_pos hbig, e1]
    exact getMatch_aux line _ _ hk
  · rw [if_neg hbig]
    have : (idx < 0 ∨ wrap64 (idx * 2) < 0 ∨ wrap64 (idx * 2) + 1 ≥ (indices.length : Int)) := by
      by_cases hneg : idx < 0
      · exact Or.inl hneg
      · right
        by_cases hov : idx * 2 ≤ maxInt64
        · have hw : wrap64 (idx * 2) = idx * 2 := wrap64_id (by unfold minInt64; omega) hov
          rw [hw]; omega
        · left; unfold wrap64 maxInt64 at *; omega
    rw [if_pos this]

theorem goSlice_inv {s : Bytes} {a b : Int} {v : Bytes} (h : goSlice s a b = .ok v) :
    0 ≤ a ∧ a ≤ b ∧ b ≤ s.length ∧ v = (s.drop a.toNat).take (b.toNat - a.toNat) := by
  unfold goSlice at h
  split at h
  · rename_i hc
    simp at h
    exact ⟨hc.1, hc.2.1, hc.2.2, h.symm⟩
  · simp at h

theorem goSlice_err {s : Bytes} {a b : Int} {m : String} (h : goSlice s a b = .error m) :
    ¬ (0 ≤ a ∧ a ≤ b ∧ b ≤ s.length) := by
  unfold goSlice at h
  split at h
  · simp at h
  · assumption

/-- Result of the wrap loop started at `last`: the stripped segments are the text from `last` to the
    new `last`. -/
theorem wrapLoop_strip (s : Bytes) (colors : List Bytes) (reset : Bytes) :
    ∀ (groups : List Int) (i : Nat) (last : Int), 0 ≤ last → last ≤ s.length →
      (∀ g ∈ groups, g ≤ s.length) →
      ∃ segs l, wrapLoop s colors reset groups i last = .ok (segs, l) ∧ last ≤ l ∧ l ≤ s.length ∧
        strip segs = (s.drop last.toNat).take (l.toNat - last.toNat) := by
  intro groups i last
  fun_induction wrapLoop s colors reset groups i last with
  | case1 start stop rest i last hc a b hb ha segs l hrec ih =>
    intro h0 hl hg
    obtain ⟨_, _, _, rfl⟩ := goSlice_inv ha
    obtain ⟨_, _, hstop, rfl⟩ := goSlice_inv hb
    obtain ⟨segs', l', heq, h1, h2, h3⟩ := ih (by omega) hstop (fun g hg' => hg g (by simp [hg']))
    rw [hrec] at heq
    simp at heq
    obtain ⟨rfl, rfl⟩ := heq
    refine ⟨_, _, rfl, by omega, h2, ?_⟩
    simp only [strip, h3]
    have e1 := slice_concat s last.toNat start.toNat stop.toNat (by omega) (by omega)
    have e2 := slice_concat s last.toNat stop.toNat l.toNat (by omega) (by omega)
    rw [← List.append_assoc, e1, e2]
  | case2 start stop rest i last hc a b hb ha m hrec ih =>
    intro h0 hl hg
    obtain ⟨_, _, hstop, _⟩ := goSlice_inv hb
    obtain ⟨segs', l', heq, _⟩ := ih (by omega) hstop (fun g hg' => hg g (by simp [hg']))
    rw [hrec] at heq; cases heq
  | case3 start stop rest i last hc m herr =>
    intro h0 hl hg
    have hs1 := hg start (by simp)
    exact absurd ⟨h0, by omega, hs1⟩ (goSlice_err herr)
  | case4 start stop rest i last hc m herr =>
    intro h0 hl hg
    have hs2 := hg stop (by simp)
    exact absurd ⟨by omega, by omega, hs2⟩ (goSlice_err herr)
  | case5 start stop rest i last hc ih =>
    intro h0 hl hg
    exact ih h0 hl (fun g hg' => hg g (by simp [hg']))
  | case6 t i last hne =>
    intro h0 hl hg
    exact ⟨[], last, rfl, Int.le_refl _, hl, by simp [strip]⟩

/-- `WrapIndices` never panics on in-range groups and removing the inserted codes gives the line back. -/
theorem wrapIndices_strip_eq (s : Bytes) (colors : List Bytes) (reset : Bytes) (groups : List Int)
    (hg : ∀ g ∈ groups, g ≤ s.length) :
    ∃ segs, wrapIndices s colors reset groups = .ok segs ∧ strip segs = s := by
  unfold wrapIndices
  split
  · exact ⟨_, rfl, by simp [strip]⟩
  · obtain ⟨segs, l, heq, h1, h2, h3⟩ := wrapLoop_strip s colors reset groups 0 0 (Int.le_refl _) (by omega) hg
    rw [heq]
    dsimp only
    split
    · rename_i hlt
      rw [goSlice_ok ⟨h1, by omega, Int.le_refl _⟩]
      refine ⟨_, rfl, ?_⟩
      have : ∀ (a : List Seg) (t : Bytes), strip (a ++ [Seg.text t]) = strip a ++ t := by
        intro a t; induction a with
        | nil => simp [strip]
        | cons x xs ih => cases x <;> simp [strip, ih]
      rw [this, h3]
      simp
      have := slice_concat s 0 l.toNat s.length (by omega) (by omega)
      simpa using this
    · rename_i hge
      refine ⟨_, rfl, ?_⟩
      rw [h3]
      have : l = s.length := by omega
      simp [this]

end Rare.C02
