import Rare.Proofs.C17Gen
import Rare.Proofs.C17Atoi
/-!
Helper lemmas for C17, part 6: well-formedness of array values.

Reading a packed list back gives the concatenation of the readings of its members
(`elems_pack_flatMap`), so the separators of `pack ys` are exactly the `ys.length - 1` joints plus the
separators that sit inside members (`count_pack`); the reading is `ys` itself exactly when no member
contains a separator (`elems_pack_iff`).  Elements of a reading never contain a separator
(`elems_nul_free`), nor does a decimal rendering (`itoa_nul_free`).
-/
namespace Rare.C17
open Rare Rare.Expr Rare.Expr.Funcs.Range

theorem isPrefixOf_single (b c : UInt8) (r : Bytes) : ([b] : Bytes).isPrefixOf (c :: r) = (b == c) := by
  simp [List.isPrefixOf]

theorem splitGo_single_cons (b c : UInt8) (r cur : Bytes) :
    splitGo [b] (c :: r) 0 cur =
      if c = b then cur :: splitGo [b] r 0 [] else splitGo [b] r 0 (cur ++ [c]) := by
  simp only [splitGo, isPrefixOf_single, List.length_cons, List.length_nil, Nat.sub_self]
  by_cases h : c = b
  · subst h; simp
  · have : (b == c) = false := by simpa using fun e => h e.symm
    simp [this, h]

/-- One-byte delimiter: the split of `x ++ [b] ++ t` is the split of `x` followed by the split of `t`. -/
theorem splitGo_single_append (b : UInt8) (x t cur : Bytes) :
    splitGo [b] (x ++ b :: t) 0 cur = splitGo [b] x 0 cur ++ splitGo [b] t 0 [] := by
  induction x generalizing cur with
  | nil => simp [splitGo_single_cons, splitGo]
  | cons c x ih =>
    simp only [List.cons_append, splitGo_single_cons]
    by_cases h : c = b
    · simp [h, ih]
    · simp [h, ih]

theorem splitGo_single_free (b : UInt8) (s cur : Bytes) (hc : b ∉ cur) :
    ∀ x ∈ splitGo [b] s 0 cur, b ∉ x := by
  induction s generalizing cur with
  | nil => intro x hx; simp [splitGo] at hx; subst hx; exact hc
  | cons c r ih =>
    intro x hx
    rw [splitGo_single_cons] at hx
    by_cases h : c = b
    · simp only [h, if_true, List.mem_cons] at hx
      rcases hx with rfl | hx
      · exact hc
      · exact ih [] (by simp) x hx
    · simp only [h, if_false] at hx
      exact ih (cur ++ [c]) (by simp [hc]; exact fun e => h e.symm) x hx

/-- An element of an array value never contains the separator. -/
theorem elems_nul_free (s : Bytes) : ∀ x ∈ elems s, NUL ∉ x :=
  splitGo_single_free NUL s [] (by simp)

theorem elems_append_sep (x t : Bytes) : elems (x ++ [NUL] ++ t) = elems x ++ elems t := by
  unfold elems splitOn
  have : x ++ [NUL] ++ t = x ++ NUL :: t := by simp
  rw [this, splitGo_single_append]

/-- **Reading a packed list back** gives the readings of its members, concatenated: a member that
    itself contains separators (produced by a sub-expression) contributes its own elements. -/
theorem elems_pack_flatMap (ys : List Bytes) (hy : ys ≠ []) : elems (pack ys) = ys.flatMap elems := by
  induction ys with
  | nil => exact absurd rfl hy
  | cons x r ih =>
    cases r with
    | nil => simp [pack, join]
    | cons y r =>
      have e : pack (x :: y :: r) = x ++ [NUL] ++ pack (y :: r) := rfl
      rw [e, elems_append_sep, ih (by simp)]
      simp

theorem count_join_single (b : UInt8) (ys : List Bytes) (hy : ys ≠ []) :
    (join [b] ys).count b + 1 = ys.length + (ys.map (List.count b)).sum := by
  induction ys with
  | nil => exact absurd rfl hy
  | cons x r ih =>
    cases r with
    | nil => simp [join]; omega
    | cons y r =>
      have e : join [b] (x :: y :: r) = x ++ [b] ++ join [b] (y :: r) := rfl
      have := ih (by simp)
      rw [e]
      simp only [List.count_append, List.count_cons_self, List.count_nil, List.length_cons, List.map_cons,
        List.sum_cons] at this ⊢
      omega

/-- **Separator census**: the separators of a packed non-empty list are its `length - 1` joints plus
    the separators inside its members – nothing leading, trailing or doubled is ever added. -/
theorem count_pack (ys : List Bytes) (hy : ys ≠ []) :
    (pack ys).count NUL + 1 = ys.length + (ys.map (List.count NUL)).sum :=
  count_join_single NUL ys hy

theorem sum_eq_zero_of_le {l : List Nat} (h : l.sum = 0) : ∀ n ∈ l, n = 0 := by
  induction l with
  | nil => intro n hn; cases hn
  | cons a r ih =>
    simp only [List.sum_cons] at h
    intro n hn
    rcases List.mem_cons.mp hn with rfl | hn
    · omega
    · exact ih (by omega) n hn

/-- The exact side condition of "the result reads back as the specified list". -/
theorem elems_pack_iff (ys : List Bytes) (hy : ys ≠ []) :
    elems (pack ys) = ys ↔ ∀ y ∈ ys, NUL ∉ y := by
  constructor
  · intro h y hm
    have h1 := count_pack ys hy
    have h2 : (elems (pack ys)).length = ys.length := by rw [h]
    rw [elems_length] at h2
    have h3 : (ys.map (List.count NUL)).sum = 0 := by omega
    have h4 := sum_eq_zero_of_le h3 (y.count NUL) (List.mem_map.mpr ⟨y, hm, rfl⟩)
    exact List.count_eq_zero.mp h4
  · intro h
    unfold elems pack
    apply splitOn_join [NUL] (by simp) ys hy
    intro y hm hi
    apply h y hm
    have : [NUL] <:+: y := by simpa using hi
    simpa using this.subset (List.mem_singleton.mpr rfl)

/-- Number of elements read back = joints + 1 + separators inside members. -/
theorem elems_pack_length (ys : List Bytes) (hy : ys ≠ []) :
    (elems (pack ys)).length = ys.length + (ys.map (List.count NUL)).sum := by
  rw [elems_length]; exact count_pack ys hy

/-- Sub-lists of a reading are separator-free. -/
theorem nul_free_of_subset {xs : List Bytes} {s : Bytes} (h : ∀ x ∈ xs, x ∈ elems s) :
    ∀ x ∈ xs, NUL ∉ x := fun x hx => elems_nul_free s x (h x hx)

theorem mem_join_infix (d x : Bytes) (xs : List Bytes) (h : x ∈ xs) : x <:+: join d xs := by
  induction xs with
  | nil => cases h
  | cons y r ih =>
    cases r with
    | nil =>
      have : x = y := by simpa using h
      subst this; exact List.infix_refl _
    | cons z r =>
      have e : join d (y :: z :: r) = y ++ d ++ join d (z :: r) := rfl
      rw [e]
      rcases List.mem_cons.mp h with rfl | h'
      · exact ⟨[], d ++ join d (z :: r), by simp⟩
      · exact List.IsInfix.trans (ih h') (List.suffix_append _ _).isInfix

/-- The pieces of a separator-free string are separator-free. -/
theorem splitOn_nul_free (d : Bytes) (hd : d ≠ []) (s : Bytes) (hs : NUL ∉ s) :
    ∀ x ∈ splitOn d s, NUL ∉ x := by
  intro x hx hm
  have h1 : x <:+: s := by
    have := mem_join_infix d x _ hx
    rwa [join_splitOn d hd s] at this
  exact hs (h1.subset hm)

end Rare.C17
