import Rare.Proofs.C09WF
import Rare.Spec.C09WFB
/-! C09: `wfB` decides `WellFormed`. -/
namespace Rare.C09
open Rare Rare.Expr

theorem bodiesGo_length : ∀ (rest : List Char) (esc : Bool) (d : Nat) (cur b : List Char),
    b ∈ bodiesGo esc d cur rest → b.length + 1 ≤ cur.length + rest.length := by
  intro rest
  induction rest with
  | nil => intro esc d cur b h; cases esc <;> simp [bodiesGo] at h
  | cons c rest ih =>
    intro esc d cur b h
    cases esc with
    | true =>
      rw [bodiesGo] at h
      have := ih _ _ _ _ h
      simp at this ⊢; omega
    | false =>
      rw [bodiesGo] at h
      split at h
      · have := ih _ _ _ _ h; simp at this ⊢; omega
      · split at h
        · split at h
          · have := ih _ _ _ _ h; simp at this ⊢; omega
          · have := ih _ _ _ _ h; simp at this ⊢; omega
        · split at h
          · split at h
            · have := ih _ _ _ _ h; simp at this ⊢; omega
            · split at h
              · rcases List.mem_cons.mp h with h | h
                · subst h; simp
                · have := ih _ _ _ _ h; simp at this ⊢; omega
              · have := ih _ _ _ _ h; simp at this ⊢; omega
          · have := ih _ _ _ _ h; simp at this ⊢; omega

theorem bodies_length {t b : List Char} (h : b ∈ bodies t) : b.length < t.length := by
  have := bodiesGo_length t false 0 [] b h
  simp at this; omega

theorem wfB_iff (split : List Char → List (List Char)) (known : List Char → Bool)
    (hsplit : ∀ b a, a ∈ split b → a.length ≤ b.length) :
    ∀ (f : Nat) (t : List Char), t.length < f → (wfB split known f t = true ↔ WellFormed split known t) := by
  intro f
  induction f with
  | zero => intro t h; omega
  | succ f ih =>
    intro t ht
    rw [wfTemplate_iff, wfB]
    simp only [Bool.and_eq_true, beq_iff_eq, List.all_eq_true]
    refine and_congr Iff.rfl (forall_congr' fun b => imp_congr_right fun hb => ?_)
    have hbl := bodies_length hb
    match hs : split b with
    | [] =>
      simp only []
      constructor
      · intro h; cases h
      · intro h
        cases h with
        | lone _ a h => rw [hs] at h; cases h
        | call _ n x xs h => rw [hs] at h; cases h
    | [a] => exact ⟨fun _ => .lone _ a hs, fun _ => rfl⟩
    | name :: x :: xs =>
      simp only [Bool.and_eq_true, List.all_eq_true]
      have hargs : ∀ a ∈ x :: xs, (wfB split known f a = true ↔ WellFormed split known a) := fun a ha =>
        ih a (by have := hsplit b a (by rw [hs]; exact List.mem_cons_of_mem _ ha); omega)
      constructor
      · rintro ⟨hk, hall⟩
        exact .call _ name x xs hs hk fun a ha => (hargs a ha).mp (hall a ha)
      · intro h
        cases h with
        | lone _ a h => rw [hs] at h; cases h
        | call _ n x' xs' h hk hall =>
          rw [hs] at h; cases h
          exact ⟨hk, fun a ha => (hargs a ha).mpr (hall a ha)⟩

/-- the instance the driver runs -/
theorem wfB_splitArgs (known : List Char → Bool) (t : List Char) :
    wfB splitArgs known (t.length + 1) t = true ↔ WellFormed splitArgs known t :=
  wfB_iff splitArgs known (fun _ _ h => splitArgs_length h) _ t (by omega)

end Rare.C09
