import Rare.Proofs.C08Range
import Rare.Proofs.C08Guards
import Rare.Model.Expr.Funcs.Misc
/-!
C08, output sizes: the helpers with a cap (`{repeat}` ≤ 1 MiB, `{@range}` ≤ MAX_ITERATIONS elements of at most
20 bytes each) cannot produce more than the cap, whatever their arguments are.
-/
namespace Rare.C08
open Rare Rare.Expr Rare.Expr.Funcs

/-- `strconv.Itoa` of an int64 is at most 20 bytes (a sign and 19 digits). -/
theorem itoa_length_le (v : Int) (h : inInt64 v = true) : (itoa v).length ≤ 20 := by
  rw [C11.inInt64_iff] at h
  have hd : (natDigits v.natAbs).length ≤ 19 := by
    simp only [natDigits, List.length_map]
    rw [Nat.length_toDigits_le_iff (by omega) (by omega)]
    unfold minInt64 maxInt64 at h
    omega
  unfold itoa
  split
  · simp only [List.length_cons]; omega
  · omega

theorem Sb.write_rev_length (sb : Range.Sb) (x : Bytes) : (sb.write x).rev.length = sb.rev.length + x.length := by
  simp [Range.Sb.write]; omega

/-- Every round of the `@range` loop appends at most a separator and 20 bytes, and there are at most
    `MAX_ITERATIONS` rounds that return a value. -/
theorem rangeLoop_length : ∀ (fuel : Nat) (i stop incr : Int) (count : Nat) (sb sb' : Range.Sb),
    inInt64 i = true → count ≤ Gen.maxIterations →
    Range.rangeLoop fuel i stop incr count sb = .ok (some sb') →
    sb'.rev.length + 21 * count ≤ sb.rev.length + 21 * Gen.maxIterations := by
  intro fuel
  induction fuel with
  | zero => intro i stop incr count sb sb' _ _ h; simp [Range.rangeLoop] at h
  | succ fuel ih =>
    intro i stop incr count sb sb' hi hc h
    rw [Range.rangeLoop] at h
    split at h
    · have hlen : ((if sb.len > 0 then sb.write Range.ArraySeparatorString else sb).write (itoa i)).rev.length
          ≤ sb.rev.length + 21 := by
        rw [Sb.write_rev_length]
        have := itoa_length_le i hi
        split
        · rw [Sb.write_rev_length]; simp [Range.ArraySeparatorString]; omega
        · omega
      simp only at h
      split at h
      · cases h
      · rename_i hcnt
        split at h
        · injection h with h; injection h with h; subst h; omega
        · have := ih _ stop incr (count + 1) _ sb' (wrap64_inInt64 _) (by omega) h
          omega
    · injection h with h; injection h with h; subst h; omega

theorem run_bind' {α β : Type} (c : Ctx) (x : Comp α) (f : α → Comp β) :
    (x.bind f).run c = match x.run c with
      | .ok a => (f a).run c
      | .error m => .error m := C11.run_bind c x f

theorem errorValue_length : ErrorValue.length = 7 := by decide +kernel
theorem errorNum_length : ErrorNum.length = 10 := by decide +kernel
theorem infMarker_length : Range.InfMarker.length = 5 := by decide +kernel

theorem rangeBody_length (c : Ctx) (start stop incr : Int) (hs : inInt64 start = true) (out : Bytes)
    (h : (Range.rangeBody start stop incr).run c = .ok out) : out.length ≤ 21 * Gen.maxIterations := by
  have hm : ErrorValue.length ≤ 21 * Gen.maxIterations := by rw [errorValue_length]; unfold Gen.maxIterations; omega
  unfold Range.rangeBody at h
  split at h
  · injection h with h; subst h; exact hm
  · split at h
    · injection h with h; subst h; exact hm
    · split at h
      · injection h with h; subst h; exact hm
      · split at h
        · rename_i sb hl
          injection h with h; subst h
          have := rangeLoop_length _ _ _ _ _ _ _ hs (Nat.zero_le _) hl
          simp only [Range.Sb.str, List.length_reverse]
          simp at this
          omega
        · injection h with h; subst h
          rw [infMarker_length]; unfold Gen.maxIterations; omega
        · cases h

/-- Whatever its three argument expressions evaluate to, `{@range}` answers at most `21 * MAX_ITERATIONS` bytes. -/
theorem rangeStage_length (c : Ctx) (s0 s1 s2 : Stage) (out : Bytes)
    (h : (Range.rangeStage s0 s1 s2).run c = .ok out) : out.length ≤ 21 * Gen.maxIterations := by
  have hm : ErrorNum.length ≤ 21 * Gen.maxIterations := by rw [errorNum_length]; unfold Gen.maxIterations; omega
  unfold Range.rangeStage at h
  rw [run_bind'] at h
  split at h
  · rename_i a _
    split at h
    · injection h with h; subst h; exact hm
    · rename_i start hstart
      rw [run_bind'] at h
      split at h
      · split at h
        · injection h with h; subst h; exact hm
        · rw [run_bind'] at h
          split at h
          · split at h
            · injection h with h; subst h; exact hm
            · exact rangeBody_length c _ _ _ (C11.atoi_inInt64 hstart) out h
          · cases h
      · cases h
  · cases h

theorem repeatB_length (s : Bytes) (n : Nat) : (Misc.repeatB s n).length = s.length * n := by
  induction n with
  | zero => rfl
  | succ n ih => simp only [Misc.repeatB, List.length_append, ih, Nat.mul_succ]; omega

/-- `{@for}` with an increment expression whose values are at most `B` bytes: every round appends at most a
    separator and `B` bytes, and there are at most `MAX_ITERATIONS + 1` rounds. -/
theorem forLoop_length (c : Ctx) (cond incr : Stage) (B : Nat)
    (hB : ∀ v i out, (incr.withSub v i).run c = .ok out → out.length ≤ B) :
    ∀ (fuel : Nat) (val : Bytes) (idx : Nat) (sb : Range.Sb) (out : Bytes),
      val.length ≤ B → idx ≤ Gen.maxIterations + 1 →
      (Range.forLoop cond incr fuel val idx sb).run c = .ok out →
      out.length + (B + 1) * idx ≤ sb.rev.length + (B + 1) * (Gen.maxIterations + 1) + 5 := by
  intro fuel
  induction fuel with
  | zero => intro val idx sb out _ _ h; simp [Range.forLoop, Comp.run] at h
  | succ fuel ih =>
    intro val idx sb out hv hi h
    have hmono : (B + 1) * idx ≤ (B + 1) * (Gen.maxIterations + 1) := Nat.mul_le_mul_left _ hi
    rw [Range.forLoop] at h
    simp only at h
    rw [run_bind'] at h
    split at h
    · split at h
      · injection h with h; subst h
        simp only [Range.Sb.str, List.length_reverse]; omega
      · rw [run_bind'] at h
        split at h
        · rename_i val' hval'
          have hv' := hB _ _ _ hval'
          split at h
          · injection h with h; subst h
            rw [infMarker_length]; omega
          · rename_i hidx
            have hlen : ((if idx > 0 then sb.write Range.ArraySeparatorString else sb).write val).rev.length
                ≤ sb.rev.length + (B + 1) := by
              rw [Sb.write_rev_length]
              split
              · rw [Sb.write_rev_length]; simp [Range.ArraySeparatorString]; omega
              · omega
            have := ih val' (idx + 1) _ out hv' (by omega) h
            rw [Nat.mul_succ] at this
            omega
        · cases h
    · cases h

end Rare.C08
