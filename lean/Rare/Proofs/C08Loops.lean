import Rare.Proofs.C11
/-!
C08, loops: generic lemmas about the scaling loop of `kfExpBucket` and the counter of `@range`, stated
for an arbitrary step function that is *equal to* the expected one – `Props/C08.lean` instantiates them
with the definitions regenerated from /repo (`Gen/C08.lean`), so a changed loop condition or body makes
the instantiation (an `rfl`) fail.
-/
namespace Rare.C08
open Rare Rare.Expr Rare.Expr.Funcs Rare.C11

/-- `k` rounds of a two-variable loop body. -/
def iterate (step : Int → Int → Int × Int) : Nat → Int × Int → Int × Int
  | 0, p => p
  | k + 1, p => iterate step k (step p.1 p.2)

theorem iterate_succ (step : Int → Int → Int × Int) (k : Nat) (p : Int × Int) :
    iterate step (k + 1) p = iterate step k (step p.1 p.2) := rfl

/-- The scaling loop `for val >= 10 { val /= 10; bucket *= 10 }`: from `v < 10^(f+1)` it leaves after at
    most `f` rounds; in every round it does run the product `bucket * 10` is a true int64 product; the
    bucket it leaves with is `b * 10^n`; and the fuelled loop of the hand model computes the same. -/
theorem expLoop_rounds (step : Int → Int → Int × Int)
    (hstep : ∀ v b, step v b = (goDiv v 10, wrap64 (b * 10))) :
    ∀ (f : Nat) (v b : Int), v < 10 ^ (f + 1) → 1 ≤ b → (10 ≤ v → b * v ≤ maxInt64) →
    ∃ n, n ≤ f ∧
      (∀ k, k < n → (iterate step k (v, b)).1 ≥ 10 ∧ 1 ≤ (iterate step k (v, b)).2 ∧
        (iterate step k (v, b)).2 * 10 ≤ maxInt64) ∧
      (iterate step n (v, b)).1 < 10 ∧ (iterate step n (v, b)).2 = b * 10 ^ n ∧
      (1 ≤ v → (10 : Int) ^ n ≤ v ∧ v < 10 * 10 ^ n) ∧
      (∀ g, n ≤ g → Arith.expLoop g v b = (iterate step n (v, b)).2) := by
  intro f
  induction f with
  | zero =>
    intro v b hlt _ _
    refine ⟨0, Nat.le_refl _, fun k hk => absurd hk (Nat.not_lt_zero _), ?_, ?_, ?_, ?_⟩
    · simp only [iterate]; simpa using hlt
    · simp [iterate]
    · intro h1; simp at hlt ⊢; omega
    · intro g _
      have hv : ¬ v ≥ 10 := by simp at hlt; omega
      cases g with
      | zero => rfl
      | succ g => simp [Arith.expLoop, hv, iterate]
  | succ f ih =>
    intro v b hlt hb hmax
    by_cases h10 : v ≥ 10
    · have hbv := hmax h10
      have hb10 : b * 10 ≤ b * v := Int.mul_le_mul_of_nonneg_left h10 (by omega)
      have hvmax : v ≤ maxInt64 := by
        have : 1 * v ≤ b * v := Int.mul_le_mul_of_nonneg_right hb (by omega)
        omega
      have e1 : goDiv v 10 = v / 10 := by
        unfold goDiv
        rw [Int.tdiv_eq_ediv_of_nonneg (by omega)]
        apply wrap64_id <;> i64
      have e2 : wrap64 (b * 10) = b * 10 := by
        apply wrap64_id <;> i64
      have hp : (10 : Int) ^ (f + 1 + 1) = 10 ^ (f + 1) * 10 := Int.pow_succ _ _
      have hle : b * 10 * (v / 10) ≤ b * v := by
        rw [Int.mul_assoc]
        exact Int.mul_le_mul_of_nonneg_left (by omega) (by omega)
      obtain ⟨n, hn, hrun, hexit, hval, hrange, hmodel⟩ :=
        ih (v / 10) (b * 10) (by omega) (by omega) (fun _ => by omega)
      have hs : step v b = (v / 10, b * 10) := by rw [hstep, e1, e2]
      refine ⟨n + 1, by omega, ?_, ?_, ?_, ?_, ?_⟩
      · intro k hk
        cases k with
        | zero =>
          show v ≥ 10 ∧ 1 ≤ b ∧ b * 10 ≤ maxInt64
          exact ⟨h10, hb, by omega⟩
        | succ k =>
          rw [iterate_succ]
          show (iterate step k (step v b)).1 ≥ 10 ∧ _
          rw [hs]
          exact hrun k (by omega)
      · rw [iterate_succ]; show (iterate step n (step v b)).1 < 10; rw [hs]; exact hexit
      · rw [iterate_succ]; show (iterate step n (step v b)).2 = _; rw [hs, hval, Int.pow_succ]
        rw [Int.mul_assoc, Int.mul_comm 10]
      · intro h1
        obtain ⟨r1, r2⟩ := hrange (by omega)
        rw [Int.pow_succ]; omega
      · intro g hg
        cases g with
        | zero => omega
        | succ g =>
          rw [iterate_succ]; show _ = (iterate step n (step v b)).2
          rw [hs, ← hmodel g (by omega)]
          simp only [Arith.expLoop, h10, if_true, e1, e2]
    · refine ⟨0, Nat.zero_le _, fun k hk => absurd hk (Nat.not_lt_zero _), ?_, ?_, ?_, ?_⟩
      · simp only [iterate]; omega
      · simp [iterate]
      · intro h1; simp; omega
      · intro g _
        cases g with
        | zero => rfl
        | succ g => simp [Arith.expLoop, h10, iterate]

/-- The counter of `@range`: when the loop condition holds and the `break` in front of the post statement
    is not taken, `i += incr` is a true (unwrapped) sum and moves `i` strictly towards `stop`. -/
theorem range_step_exact (i stop incr : Int) (hi : inInt64 i = true) (hs : inInt64 stop = true)
    (hc : inInt64 incr = true)
    (hcond : ((decide (incr > 0) && decide (i < stop)) || (decide (incr < 0) && decide (i > stop))) = true)
    (hbrk : ((decide (incr > 0) && decide (i > wrap64 (maxInt64 - incr))) ||
      (decide (incr < 0) && decide (i < wrap64 (minInt64 - incr)))) = false) :
    wrap64 (i + incr) = i + incr ∧ inInt64 (i + incr) = true ∧
    (incr > 0 → i < i + incr) ∧ (incr < 0 → i + incr < i) := by
  rw [inInt64_iff] at hi hs hc
  have hb1 : incr > 0 → wrap64 (maxInt64 - incr) = maxInt64 - incr := fun h => by
    apply wrap64_id <;> i64
  have hb2 : incr < 0 → wrap64 (minInt64 - incr) = minInt64 - incr := fun h => by
    apply wrap64_id <;> i64
  simp only [Bool.or_eq_true, Bool.and_eq_true, decide_eq_true_eq] at hcond
  simp only [Bool.or_eq_false_iff, Bool.and_eq_false_iff, decide_eq_false_iff_not] at hbrk
  obtain ⟨k1, k2⟩ := hbrk
  rcases hcond with ⟨hp, _⟩ | ⟨hn, _⟩
  · have : ¬ i > wrap64 (maxInt64 - incr) := by
      rcases k1 with h | h
      · exact absurd hp h
      · exact h
    rw [hb1 hp] at this
    have hw : wrap64 (i + incr) = i + incr := by apply wrap64_id <;> i64
    refine ⟨hw, ?_, fun _ => by omega, fun h => by omega⟩
    rw [inInt64_iff]; constructor <;> i64
  · have : ¬ i < wrap64 (minInt64 - incr) := by
      rcases k2 with h | h
      · exact absurd hn h
      · exact h
    rw [hb2 hn] at this
    have hw : wrap64 (i + incr) = i + incr := by apply wrap64_id <;> i64
    refine ⟨hw, ?_, fun h => by omega, fun _ => by omega⟩
    rw [inInt64_iff]; constructor <;> i64

end Rare.C08
