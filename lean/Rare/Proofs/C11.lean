import Rare.Spec.C11
import Rare.Model.Expr.Funcs.Logic
import Rare.Model.Expr.Funcs.Arith
import Rare.Model.Expr.Funcs.Strings
import Rare.Model.Expr.Funcs.Misc
/-! Helper lemmas for the C11 property theorems (core Lean only). -/
namespace Rare.C11
open Rare Rare.Expr Rare.Expr.Funcs

/-! ### int64 plumbing -/

/-- Linear arithmetic with the int64 bounds spelled out. -/
macro "i64" : tactic => `(tactic| (try simp only [minInt64, maxInt64] at *) <;> omega)

theorem wrap64_id {x : Int} (h1 : minInt64 ≤ x) (h2 : x ≤ maxInt64) : wrap64 x = x := by
  unfold wrap64; unfold minInt64 at h1; unfold maxInt64 at h2; omega

theorem inInt64_iff {x : Int} : inInt64 x = true ↔ minInt64 ≤ x ∧ x ≤ maxInt64 := by
  simp [inInt64]

theorem neg_mul_ge (v s : Int) (hv : v ≤ 0) (hs : 1 ≤ s) : v * s ≤ v := by
  have : v * (s - 1) ≤ 0 := Int.mul_nonpos_of_nonpos_of_nonneg hv (by omega)
  rw [Int.mul_sub] at this; omega

theorem ediv_bounds_nonneg (v s : Int) (hv : 0 ≤ v) (hs : 0 < s) : 0 ≤ v / s ∧ v / s ≤ v :=
  ⟨(Int.ediv_nonneg_iff_of_pos hs).mpr hv, Int.ediv_le_self s hv⟩

theorem ediv_bounds_neg (v s : Int) (hv : v < 0) (hs : 0 < s) : v ≤ v / s ∧ v / s < 0 :=
  ⟨Int.le_ediv_of_mul_le hs (neg_mul_ge v s (by omega) (by omega)), Int.ediv_neg_of_neg_of_pos hv hs⟩

/-- Truncated division in terms of floor division, for a positive divisor. -/
theorem tdiv_pos (v s : Int) (hs : 0 < s) :
    v.tdiv s = if 0 ≤ v ∨ v % s = 0 then v / s else v / s + 1 := by
  rw [Int.tdiv_eq_ediv]
  have hd : (s ∣ v) ↔ v % s = 0 := Int.dvd_iff_emod_eq_zero
  have hsign : s.sign = 1 := Int.sign_eq_one_of_pos hs
  by_cases h : 0 ≤ v ∨ s ∣ v
  · have h' : 0 ≤ v ∨ v % s = 0 := h.imp id hd.mp
    simp [h, h']
  · have h' : ¬ (0 ≤ v ∨ v % s = 0) := fun x => h (x.imp id hd.mpr)
    simp [h, h', hsign]

/-! ### bucket -/

theorem bucketVal_eq_floor (v s : Int) (hs : 0 < s) (hv : inInt64 v = true) (hs64 : s ≤ maxInt64)
    (hr : minInt64 ≤ Spec.floorBucket v s) : Arith.bucketVal v s = Spec.floorBucket v s := by
  rw [inInt64_iff] at hv
  unfold Spec.floorBucket at *
  have h1 := Int.mul_ediv_add_emod v s
  have h2 := Int.emod_nonneg v (Int.ne_of_gt hs)
  have h3 := Int.emod_lt_of_pos v hs
  have hc : v / s * s = s * (v / s) := Int.mul_comm _ _
  rw [hc] at hr ⊢
  unfold Arith.bucketVal goDiv
  rw [tdiv_pos v s hs]
  unfold minInt64 at *; unfold maxInt64 at *
  have hcomm : ∀ x : Int, x * s = s * x := fun x => Int.mul_comm _ _
  by_cases hv0 : 0 ≤ v
  · have hb := ediv_bounds_nonneg v s hv0 hs
    simp only [hv0, true_or, if_true]
    have e1 : wrap64 (v / s) = v / s := wrap64_id (by unfold minInt64; omega) (by unfold maxInt64; omega)
    have e2 : wrap64 (s * (v / s)) = s * (v / s) := wrap64_id (by unfold minInt64; omega) (by unfold maxInt64; omega)
    rw [e1, hcomm, e2]
    have : ¬ (s * (v / s) > v) := by omega
    simp [this]
  · have hb := ediv_bounds_neg v s (by omega) hs
    by_cases hm : v % s = 0
    · simp only [hm, or_true, if_true]
      have e1 : wrap64 (v / s) = v / s := wrap64_id (by unfold minInt64; omega) (by unfold maxInt64; omega)
      have e2 : wrap64 (s * (v / s)) = s * (v / s) := wrap64_id (by unfold minInt64; omega) (by unfold maxInt64; omega)
      rw [e1, hcomm, e2]
      have : ¬ (s * (v / s) > v) := by omega
      simp [this]
    · have hc2 : ¬ (0 ≤ v ∨ v % s = 0) := by omega
      simp only [hc2, if_false]
      have hmul : (v / s + 1) * s = s * (v / s) + s := by
        rw [Int.add_mul, Int.one_mul, Int.mul_comm]
      have e1 : wrap64 (v / s + 1) = v / s + 1 := wrap64_id (by unfold minInt64; omega) (by unfold maxInt64; omega)
      have e2 : wrap64 (s * (v / s) + s) = s * (v / s) + s := wrap64_id (by unfold minInt64; omega) (by unfold maxInt64; omega)
      have e3 : wrap64 (s * (v / s) + s - s) = s * (v / s) := by
        rw [wrap64_id (by unfold minInt64; omega) (by unfold maxInt64; omega)]; omega
      rw [e1, hmul, e2]
      have : s * (v / s) + s > v := by omega
      simp only [this, if_true]
      exact e3

theorem floorBucket_isBucket (v s : Int) (hs : 0 < s) : Spec.IsBucket v s (Spec.floorBucket v s) := by
  unfold Spec.IsBucket Spec.floorBucket
  have h1 := Int.mul_ediv_add_emod v s
  have h2 := Int.emod_nonneg v (Int.ne_of_gt hs)
  have h3 := Int.emod_lt_of_pos v hs
  have hc : v / s * s = s * (v / s) := Int.mul_comm _ _
  refine ⟨⟨v / s, hc⟩, ?_, ?_⟩ <;> rw [hc] <;> omega

/-- The bucket is unique: the specification determines the answer. -/
theorem isBucket_unique (v s b : Int) (hs : 0 < s) (h : Spec.IsBucket v s b) : b = Spec.floorBucket v s := by
  obtain ⟨⟨q, hq⟩, h1, h2⟩ := h
  unfold Spec.floorBucket
  subst hq
  have : v / s = q := ((Int.ediv_emod_unique hs (a := v) (r := v - s * q) (q := q)).mpr ⟨by omega, by omega, by omega⟩).1
  rw [this, Int.mul_comm]

/-! ### clamp -/

theorem ascii_min : ascii "min" = [109, 105, 110] := by decide +kernel
theorem ascii_max : ascii "max" = [109, 97, 120] := by decide +kernel

theorem atoi_ne_min {a : Bytes} {v : Int} (h : atoi a = some v) : a ≠ ascii "min" := by
  intro e; subst e; rw [ascii_min] at h
  have : atoi [109, 105, 110] = none := by decide
  rw [this] at h; cases h

theorem atoi_ne_max {a : Bytes} {v : Int} (h : atoi a = some v) : a ≠ ascii "max" := by
  intro e; subst e; rw [ascii_max] at h
  have : atoi [109, 97, 120] = none := by decide
  rw [this] at h; cases h

theorem clampVal_iff (a : Bytes) (v mn mx : Int) (h : atoi a = some v) :
    Arith.clampVal a v mn mx = a ↔ mn ≤ v ∧ v ≤ mx := by
  unfold Arith.clampVal
  have h1 := atoi_ne_min h
  have h2 := atoi_ne_max h
  by_cases c1 : v < mn
  · simp only [c1, if_true]
    constructor
    · intro e; exact absurd e.symm h1
    · intro ⟨x, _⟩; omega
  · by_cases c2 : v > mx
    · simp only [c1, c2, if_true, if_false]
      constructor
      · intro e; exact absurd e.symm h2
      · intro ⟨_, x⟩; omega
    · simp only [c1, c2, if_false]
      constructor
      · intro _; omega
      · intro _; trivial

/-! ### expbucket -/

theorem expLoop_spec : ∀ (f : Nat) (v b : Int), 1 ≤ v → v < 10 ^ (f + 1) → 1 ≤ b → b * v ≤ maxInt64 →
    ∃ k : Nat, Arith.expLoop f v b = b * 10 ^ k ∧ (10 : Int) ^ k ≤ v ∧ v < 10 * 10 ^ k := by
  intro f
  induction f with
  | zero =>
    intro v b hv hlt _ _
    refine ⟨0, ?_, ?_, ?_⟩ <;> simp [Arith.expLoop] <;> omega
  | succ f ih =>
    intro v b hv hlt hb hmax
    unfold Arith.expLoop
    by_cases h10 : v ≥ 10
    · simp only [h10, if_true]
      have hb10 : b * 10 ≤ b * v := Int.mul_le_mul_of_nonneg_left h10 (by omega)
      have hbpos : b ≤ b * 10 := by omega
      have hvmax : v ≤ maxInt64 := by
        have : 1 * v ≤ b * v := Int.mul_le_mul_of_nonneg_right hb (by omega)
        omega
      have e1 : goDiv v 10 = v / 10 := by
        unfold goDiv
        rw [Int.tdiv_eq_ediv_of_nonneg (by omega)]
        apply wrap64_id <;> i64
      have e2 : wrap64 (b * 10) = b * 10 := by
        apply wrap64_id <;> i64
      rw [e1, e2]
      have hp : (10 : Int) ^ (f + 1 + 1) = 10 ^ (f + 1) * 10 := Int.pow_succ _ _
      have hle : b * 10 * (v / 10) ≤ b * v := by
        rw [Int.mul_assoc]
        exact Int.mul_le_mul_of_nonneg_left (by omega) (by omega)
      obtain ⟨k, hk1, hk2, hk3⟩ := ih (v / 10) (b * 10) (by omega) (by omega) (by omega) (by omega)
      refine ⟨k + 1, ?_, ?_, ?_⟩
      · rw [hk1, Int.pow_succ, Int.mul_assoc, Int.mul_comm 10]
      · rw [Int.pow_succ]; omega
      · rw [Int.pow_succ]; omega
    · simp only [h10, if_false]
      refine ⟨0, ?_, ?_, ?_⟩ <;> simp <;> omega

theorem expBucketVal_spec (v : Int) (h1 : 1 ≤ v) (h2 : v ≤ maxInt64) :
    Spec.IsExpBucket v (Arith.expBucketVal v) := by
  unfold Arith.expBucketVal
  have : v > 0 := by omega
  simp only [this, if_true]
  obtain ⟨k, hk1, hk2, hk3⟩ := expLoop_spec 19 v 1 h1 (by unfold maxInt64 at h2; omega) (by omega) (by omega)
  exact ⟨k, by rw [hk1, Int.one_mul], by rw [hk1, Int.one_mul]; exact hk2, by rw [hk1, Int.one_mul]; exact hk3⟩

/-! ### substr -/

theorem substrIdx_spec (n left len : Int) (hn0 : 0 ≤ n) (hn : n ≤ maxInt64)
    (hl : inInt64 left = true) (hlen : inInt64 len = true) :
    Strings.substrIdx n left len =
      ((if left < 0 then max (left + n) 0 else min left n),
       min ((if left < 0 then max (left + n) 0 else min left n) + max len 0) n) := by
  rw [inInt64_iff] at hl hlen
  unfold minInt64 at *; unfold maxInt64 at *
  unfold Strings.substrIdx wrap64
  simp only []
  apply Prod.ext
  · simp only []
    split <;> split <;> omega
  · simp only []
    split <;> split <;> split <;> omega

theorem take_min_drop (s : Bytes) (a len : Nat) (ha : a ≤ s.length) :
    (s.drop a).take (min (a + len) s.length - a) = (s.drop a).take len := by
  rw [List.take_eq_take_iff, List.length_drop]; omega

theorem substrVal_spec (s : Bytes) (left len : Int) (hs : (s.length : Int) ≤ maxInt64)
    (hl : inInt64 left = true) (hlen : inInt64 len = true) :
    Strings.substrVal s left len = .ok (Spec.substr s left len) := by
  unfold Strings.substrVal
  rw [substrIdx_spec s.length left len (by omega) hs hl hlen]
  simp only []
  unfold Strings.goSlice Spec.substr
  simp only []
  generalize hst : (if left < 0 then max (left + ↑s.length) 0 else min left ↑s.length) = start
  have h0 : 0 ≤ start ∧ start ≤ s.length := by
    subst hst; split <;> omega
  have hcond : 0 ≤ start ∧ start ≤ min (start + max len 0) ↑s.length ∧ min (start + max len 0) ↑s.length ≤ ↑s.length := by
    omega
  rw [if_pos hcond]
  congr 1
  have := take_min_drop s start.toNat (max len 0).toNat (by omega)
  rw [← this]
  congr 1
  omega

/-! ### calling a helper: arguments are constants, match groups or keys -/

/-- An argument as the property quantifies over it: a constant in the template, or a value that
    arrives at run time from a match group / named key. -/
inductive Arg where
  | const (b : Bytes)
  | group (i : Int)
  | key (k : Bytes)

def Arg.stage : Arg → Stage
  | .const b => Stage.lit b
  | .group i => Comp.match_ i
  | .key k => Comp.key k

/-- The value the argument has in a context. -/
def Arg.val (c : Ctx) : Arg → Bytes
  | .const b => b
  | .group i => c.getMatch i
  | .key k => c.getKey k

/-- Build the helper with these arguments (as the compiler does) and evaluate the stage in `c`.
    `.error` = the real code would panic, at build time or at run time. -/
def callHelper (b : Builder) (as : List Arg) (c : Ctx) : Except String Bytes :=
  match b (as.map Arg.stage) with
  | .error m => .error m
  | .ok built =>
    match built.stage with
    | some st => st.run c
    | none => .ok []

theorem run_bind {α β : Type} (c : Ctx) (x : Comp α) (f : α → Comp β) :
    (x >>= f).run c = match x.run c with
      | .ok a => (f a).run c
      | .error m => .error m := by
  show (Comp.bind x f).run c = _
  induction x with
  | ret a => rfl
  | getMatch i k ih => simp only [Comp.bind, Comp.run]; exact ih _
  | getKey s k ih => simp only [Comp.bind, Comp.run]; exact ih _
  | panic m => rfl

theorem run_pure {α : Type} (c : Ctx) (a : α) : (pure a : Comp α).run c = .ok a := rfl

theorem Arg.run_stage (c : Ctx) (a : Arg) : a.stage.run c = .ok (a.val c) := by
  cases a <;> rfl

theorem Arg.probe_const (b : Bytes) : (Arg.const b).stage.probe = .ok (b, true) := rfl
theorem Arg.probe_group (i : Int) : (Arg.group i).stage.probe = .ok ([], false) := rfl
theorem Arg.probe_key (k : Bytes) : (Arg.key k).stage.probe = .ok ([], false) := rfl

/-- `evalTypedStage` on an argument: a constant is parsed now, anything else at run time. -/
theorem evalTyped_arg (a : Arg) :
    evalTypedStage a.stage atoi =
      match a with
      | .const b => (match atoi b with
        | some p => .ok (some (.ret (some p)))
        | none => .ok none)
      | _ => .ok (some (do let v ← a.stage; pure (atoi v))) := by
  cases a with
  | const b => simp only [evalTypedStage, Arg.probe_const]; cases atoi b <;> rfl
  | group i => simp only [evalTypedStage, Arg.probe_group]
  | key k => simp only [evalTypedStage, Arg.probe_key]

/-- Pointwise relation between two lists. -/
inductive All2 {α β : Type} (R : α → β → Prop) : List α → List β → Prop
  | nil : All2 R [] []
  | cons {a b as bs} : R a b → All2 R as bs → All2 R (a :: as) (b :: bs)

/-- Every typed argument evaluates to the parse of the argument's value. -/
def TypedOk (c : Ctx) (typed : List (Comp (Option Int))) (as : List Arg) : Prop :=
  All2 (fun t a => t.run c = .ok (atoi (Arg.val c a))) typed as

/-- `mapTypedArgs` either rejects (a constant that does not parse) or produces faithful typed
    stages; it never fails. -/
theorem mapTyped_args (c : Ctx) : ∀ as : List Arg,
    (mapTypedArgs atoi (as.map Arg.stage) = .ok none ∧ ∃ a ∈ as, atoi (a.val c) = none) ∨
    (∃ typed, mapTypedArgs atoi (as.map Arg.stage) = .ok (some typed) ∧ TypedOk c typed as)
  | [] => .inr ⟨[], rfl, All2.nil⟩
  | a :: rest => by
    simp only [List.map_cons, mapTypedArgs, evalTyped_arg]
    rcases mapTyped_args c rest with ⟨h, a', ha', hp⟩ | ⟨typed, h, ht⟩
    · left
      cases a with
      | const b =>
        cases hb : atoi b with
        | none => exact ⟨by simp [hb], .const b, by simp, hb⟩
        | some p => exact ⟨by simp [hb, h], a', by simp [ha'], hp⟩
      | group i => exact ⟨by simp [h], a', by simp [ha'], hp⟩
      | key k => exact ⟨by simp [h], a', by simp [ha'], hp⟩
    · cases a with
      | const b =>
        cases hb : atoi b with
        | none => left; exact ⟨by simp [hb], .const b, by simp, hb⟩
        | some p =>
          right
          refine ⟨_, by simp [hb, h]; rfl, All2.cons ?_ ht⟩
          simp [Comp.run, Arg.val, hb]
      | group i =>
        right
        refine ⟨_, by simp [h]; rfl, All2.cons ?_ ht⟩
        rfl
      | key k =>
        right
        refine ⟨_, by simp [h]; rfl, All2.cons ?_ ht⟩
        rfl

/-- The left fold of a checked operation (`none` = rejected operands, e.g. division by zero). -/
def foldOp (op : Arith.IntOp) : Int → List Int → Option Int
  | acc, [] => some acc
  | acc, x :: r =>
    match op acc x with
    | none => none
    | some y => foldOp op y r

theorem foldRun_run (c : Ctx) (op : Arith.IntOp) (typed : List (Comp (Option Int))) (ns : List Int)
    (h : All2 (fun t n => t.run c = .ok (some n)) typed ns) : ∀ acc : Int,
    (Arith.foldRun op acc typed).run c = .ok (match foldOp op acc ns with
      | some r => itoa r
      | none => ErrorValue) := by
  induction h with
  | nil => intro acc; rfl
  | @cons t n ts ns' h1 _ ih =>
    intro acc
    simp only [Arith.foldRun, run_bind, h1, foldOp]
    cases hop : op acc n with
    | none => rfl
    | some r => exact ih r

theorem intRun_run (c : Ctx) (op : Arith.IntOp) (t : Comp (Option Int)) (typed : List (Comp (Option Int)))
    (n : Int) (ns : List Int) (h1 : t.run c = .ok (some n))
    (h2 : All2 (fun t n => t.run c = .ok (some n)) typed ns) :
    (Arith.intRun op (t :: typed)).run c = .ok (match foldOp op n ns with
      | some r => itoa r
      | none => ErrorValue) := by
  simp only [Arith.intRun, run_bind, h1]
  exact foldRun_run c op typed ns h2 n

/-- If every argument parses, the typed stages deliver exactly those integers. -/
theorem typedOk_parsed (c : Ctx) (typed : List (Comp (Option Int))) (as : List Arg)
    (h : TypedOk c typed as) : ∀ ns : List Int, as.map (fun a => atoi (a.val c)) = ns.map some →
    All2 (fun t n => t.run c = .ok (some n)) typed ns := by
  induction h with
  | nil => intro ns hp; cases ns with
    | nil => exact All2.nil
    | cons _ _ => simp at hp
  | cons h1 _ ih =>
    intro ns hp
    cases ns with
    | nil => simp at hp
    | cons n ns =>
      simp only [List.map_cons, List.cons.injEq] at hp
      exact All2.cons (by rw [h1, hp.1]) (ih ns hp.2)

theorem intHelper_fold (op : Arith.IntOp) (c : Ctx) (as : List Arg) (n : Int) (ns : List Int)
    (hp : as.map (fun a => atoi (a.val c)) = (n :: ns).map some) (hlen : 1 ≤ ns.length) :
    callHelper (Arith.intHelper op) as c = .ok (match foldOp op n ns with
      | some r => itoa r
      | none => ErrorValue) := by
  have hl : as.length = ns.length + 1 := by
    have := congrArg List.length hp; simpa using this
  unfold callHelper Arith.intHelper
  have hnot : ¬ ((as.map Arg.stage).length < 2) := by simp; omega
  simp only [hnot, if_false]
  rcases mapTyped_args c as with ⟨_, a, ha, hnone⟩ | ⟨typed, h, ht⟩
  · exfalso
    have : atoi (a.val c) ∈ as.map (fun a => atoi (a.val c)) := List.mem_map.mpr ⟨a, ha, rfl⟩
    rw [hp, hnone] at this
    simp at this
  · rw [h]
    have hall := typedOk_parsed c typed as ht (n :: ns) hp
    cases hall with
    | cons h1 h2 => exact intRun_run c op _ _ n ns h1 h2

/-- A value that does not parse never reaches the arithmetic: the result is a marker. -/
theorem foldRun_marker (c : Ctx) (op : Arith.IntOp) (typed : List (Comp (Option Int))) (as : List Arg)
    (h : TypedOk c typed as) : ∀ acc : Int, (∃ a ∈ as, atoi (a.val c) = none) →
    (Arith.foldRun op acc typed).run c = .ok ErrorNum ∨
    ((Arith.foldRun op acc typed).run c = .ok ErrorValue ∧ ∃ x y, op x y = none) := by
  induction h with
  | nil => intro acc ⟨a, ha, _⟩; simp at ha
  | @cons t a ts as' h1 _ ih =>
    intro acc ⟨b, hb, hnone⟩
    simp only [Arith.foldRun, run_bind, h1]
    cases hp : atoi (a.val c) with
    | none => left; rfl
    | some x =>
      cases hop : op acc x with
      | none => right; simp only [hop]; exact ⟨rfl, acc, x, hop⟩
      | some r =>
        have hb' : b ∈ as' := by
          rcases List.mem_cons.mp hb with e | e
          · subst e; rw [hp] at hnone; cases hnone
          · exact e
        simp only [hop]
        exact ih r ⟨b, hb', hnone⟩

theorem intHelper_marker (op : Arith.IntOp) (c : Ctx) (as : List Arg) (hlen : 2 ≤ as.length)
    (hbad : ∃ a ∈ as, atoi (a.val c) = none) :
    callHelper (Arith.intHelper op) as c = .ok ErrorNum ∨
    (callHelper (Arith.intHelper op) as c = .ok ErrorValue ∧ ∃ x y, op x y = none) := by
  have hnot : ¬ ((as.map Arg.stage).length < 2) := by simp; omega
  rcases mapTyped_args c as with ⟨h, _⟩ | ⟨typed, h, ht⟩
  · left
    unfold callHelper Arith.intHelper
    simp only [hnot, if_false]
    rw [h]; rfl
  · have hcall : callHelper (Arith.intHelper op) as c = (Arith.intRun op typed).run c := by
      unfold callHelper Arith.intHelper
      simp only [hnot, if_false]
      rw [h]; rfl
    rw [hcall]
    cases ht with
    | nil => simp at hlen
    | @cons t a ts as' h1 h2 =>
      obtain ⟨b, hb, hnone⟩ := hbad
      simp only [Arith.intRun, run_bind, h1]
      cases hp : atoi (a.val c) with
      | none => left; rfl
      | some x =>
        have hb' : b ∈ as' := by
          rcases List.mem_cons.mp hb with e | e
          · subst e; rw [hp] at hnone; cases hnone
          · exact e
        exact foldRun_marker c op ts as' h2 x ⟨b, hb', hnone⟩

/-- Whatever `strconv.ParseInt(s, 10, 64)` returns is an int64. -/
theorem atoi_inInt64 {s : Bytes} {v : Int} (h : atoi s = some v) : inInt64 v = true := by
  unfold atoi at h
  split at h
  rename_i neg ds _
  simp only [] at h
  split at h
  · cases h
  · by_cases hin : inInt64 (if neg = true then -(digitsVal ds 0 : Int) else (digitsVal ds 0 : Int)) = true
    · rw [if_pos hin] at h; cases h; exact hin
    · rw [if_neg hin] at h; cases h

end Rare.C11
