import Rare.Proofs.C07NumF64
import Rare.Proofs.C07Mode
/-!
C07 – `Mode()` on sorted float samples that contain NaN.

`sort.Float64s` puts the NaN samples first (last when `Reverse` is set); the scan compares neighbours with the IEEE
`!=`, which is true for every NaN, so every NaN is a run of length one.
* ascending: the scan reaches the numbers in the state `maxObserved = 1, maxValue = first NaN`; a number replaces it
  only when its run reaches length 2.  Proof: map the NaN prefix to ONE fresh key `w` below all float keys and reuse the
  invariant of the exact scan (`ModeInv`) on `w :: keys`;
* descending: the numbers come first; afterwards `maxObserved ≥ 1` and no NaN can replace the result.
-/
namespace Rare.C07
open Rare Rare.F64

theorem eq_nan_left {v x : F64} (hv : v.isNaN = true) : F64.eq v x = false := by
  cases h : F64.eq v x
  · rfl
  · have := ((eq_iff_key v x).mp h).1; rw [hv] at this; cases this

theorem eq_nan_right {v x : F64} (hv : v.isNaN = true) : F64.eq x v = false := by
  cases h : F64.eq x v
  · rfl
  · have := ((eq_iff_key x v).mp h).2.1; rw [hv] at this; cases this

/-- A NaN sample: a new run of length one. -/
theorem modeStepG_nan (st : ModeState F64) (v : F64) (hv : v.isNaN = true) :
    modeStepG F64.eq st v =
      if 1 > st.maxObserved then ⟨1, v, 1, v⟩ else ⟨st.maxObserved, st.maxValue, 1, v⟩ := by
  unfold modeStepG
  rw [eq_nan_left hv]
  simp only [Bool.not_false, if_true, Nat.zero_add]

/-- NaN samples after something was counted: the result does not change. -/
theorem fold_nans (ns : List F64) (hns : ∀ x ∈ ns, x.isNaN = true) : ∀ st : ModeState F64, 1 ≤ st.maxObserved →
    (ns.foldl (modeStepG F64.eq) st).maxValue = st.maxValue ∧
    (ns.foldl (modeStepG F64.eq) st).maxObserved = st.maxObserved ∧
    (ns ≠ [] → (ns.foldl (modeStepG F64.eq) st).currObserved = 1 ∧
      (ns.foldl (modeStepG F64.eq) st).currValue.isNaN = true) := by
  induction ns with
  | nil => intro st _; exact ⟨rfl, rfl, fun h => absurd rfl h⟩
  | cons v ns ih =>
    intro st h1
    rw [List.foldl_cons, modeStepG_nan st v (hns v (by simp)), if_neg (by omega)]
    obtain ⟨a, b, c⟩ := ih (fun x hx => hns x (by simp [hx])) ⟨st.maxObserved, st.maxValue, 1, v⟩ h1
    refine ⟨a, b, fun _ => ?_⟩
    by_cases hn : ns = []
    · subst hn; exact ⟨rfl, hns v (by simp)⟩
    · exact c hn

/-- The state after a non-empty NaN prefix `n0 :: ns`. -/
theorem fold_nan_prefix (n0 : F64) (ns : List F64) (hns : ∀ x ∈ n0 :: ns, x.isNaN = true) (z : F64) :
    let st := (n0 :: ns).foldl (modeStepG F64.eq) ⟨0, z, 0, z⟩
    st.maxValue = n0 ∧ st.maxObserved = 1 ∧ st.currObserved = 1 ∧ st.currValue.isNaN = true := by
  intro st
  have h0 := hns n0 (by simp)
  have e : st = ns.foldl (modeStepG F64.eq) ⟨1, n0, 1, n0⟩ := by
    show (n0 :: ns).foldl (modeStepG F64.eq) ⟨0, z, 0, z⟩ = _
    rw [List.foldl_cons, modeStepG_nan _ n0 h0, if_pos (by show 1 > 0; omega)]
  obtain ⟨a, b, c⟩ := fold_nans ns (fun x hx => hns x (by simp [hx])) ⟨1, n0, 1, n0⟩ (by show 1 ≤ 1; omega)
  rw [e]
  refine ⟨a, b, ?_⟩
  by_cases hn : ns = []
  · subst hn; exact ⟨rfl, h0⟩
  · exact c hn

/-- Sorted lists split at the boundary of a predicate that cannot become true again. -/
theorem dropWhile_none {α : Type} (p : α → Bool) (s : List α)
    (h : s.Pairwise (fun a b => p b = true → p a = true)) : ∀ x ∈ s.dropWhile p, p x = false := by
  induction s with
  | nil => intro x hx; simp at hx
  | cons a t ih =>
    obtain ⟨h1, h2⟩ := List.pairwise_cons.mp h
    cases hp : p a
    · intro x hx
      rw [List.dropWhile_cons_of_neg (by simp [hp])] at hx
      rcases List.mem_cons.mp hx with e | e
      · rw [e]; exact hp
      · cases hx' : p x
        · rfl
        · have := h1 x e hx'; rw [hp] at this; cases this
    · intro x hx
      rw [List.dropWhile_cons_of_pos hp] at hx
      exact ih h2 x hx

theorem modeStepG_rat : modeStepG (fun (a b : Rat) => decide (a = b)) = modeStep := rfl

/-- The fresh key of the NaN prefix: below the key of every non-NaN float. -/
def wKey : Rat := ((-9218868437227405313 : Int) : Rat)

def fKey (x : F64) : Rat := if x.isNaN then wKey else keyQ x

theorem keyQ_gt_w {x : F64} (h : x.isNaN = false) : wKey < keyQ x := by
  have := (not_nan_key_bounds h).1
  unfold wKey keyQ
  exact Rat.intCast_lt_intCast.mpr (by omega)

theorem countP_eq_append_nans (ns rest : List F64) (hns : ∀ x ∈ ns, x.isNaN = true) (y : F64) :
    (ns ++ rest).countP (fun x => F64.eq y x) = rest.countP (fun x => F64.eq y x) := by
  rw [List.countP_append]
  have : ns.countP (fun x => F64.eq y x) = 0 := by
    rw [List.countP_eq_zero]; intro a ha; simp [eq_nan_right (hns a ha)]
  omega

theorem countP_eq_nans_append (ns rest : List F64) (hns : ∀ x ∈ ns, x.isNaN = true) (y : F64) :
    (rest ++ ns).countP (fun x => F64.eq y x) = rest.countP (fun x => F64.eq y x) := by
  rw [List.countP_append]
  have : ns.countP (fun x => F64.eq y x) = 0 := by
    rw [List.countP_eq_zero]; intro a ha; simp [eq_nan_right (hns a ha)]
  omega

/-- What `Mode()` promises about a result that is a number. -/
def ModeOK (rev : Bool) (l : List F64) (m : F64) : Prop :=
  (∃ x ∈ l, F64.eq m x = true) ∧
  (∀ y, l.countP (fun x => F64.eq y x) ≤ l.countP (fun x => F64.eq m x)) ∧
  (∀ y ∈ l, l.countP (fun x => F64.eq y x) = l.countP (fun x => F64.eq m x) → F64.eq y m = false →
    (if rev then F64.lt y m else F64.lt m y) = true)

/-- Ascending, at least one NaN: `s = (n0 :: ns) ++ rest`. -/
theorem modeF_nan_asc (n0 : F64) (ns rest : List F64) (hns : ∀ x ∈ n0 :: ns, x.isNaN = true)
    (hrest : ∀ x ∈ rest, x.isNaN = false)
    (hsorted : rest.Pairwise (fun a b => goLess b a = false)) :
    let s := (n0 :: ns) ++ rest
    let m := modeF s
    (m.isNaN = true → m = n0 ∧ ∀ y, s.countP (fun x => F64.eq y x) ≤ 1) ∧
    (m.isNaN = false → 2 ≤ s.countP (fun x => F64.eq m x) ∧ ModeOK false s m) := by
  intro s m
  obtain ⟨p1, p2, p3, p4⟩ := fold_nan_prefix n0 ns hns (F64.zero false)
  generalize hst1 : (n0 :: ns).foldl (modeStepG F64.eq) ⟨0, F64.zero false, 0, F64.zero false⟩ = st1 at p1 p2 p3 p4
  have hm : m = (rest.foldl (modeStepG F64.eq) st1).maxValue := by
    show modeF ((n0 :: ns) ++ rest) = _
    unfold modeF
    rw [mode_eq_foldG, List.foldl_append, hst1]
  have hn0 : n0.isNaN = true := hns n0 (by simp)
  -- transfer to keys
  have hmapst : mapState fKey st1 = ⟨1, wKey, 1, wKey⟩ := by
    unfold mapState fKey
    rw [p1, p2, p3, p4, hn0]; rfl
  have hfm := mode_fold_map fKey F64.eq (fun a b => decide (a = b)) rest st1.currValue (by
      intro a ha b hb
      have han := hrest a ha
      rcases hb with hb | hb
      · have hbn := hrest b hb
        have := eq_iff_key a b
        rw [han, hbn] at this
        simp only [true_and] at this
        unfold fKey; rw [han, hbn]
        by_cases hk : a.key = b.key
        · rw [this.mpr hk]; simp [keyQ_eq_iff, hk]
        · have : F64.eq a b = false := by
            cases h : F64.eq a b
            · rfl
            · exact absurd (this.mp h) hk
          rw [this]; simp [keyQ_eq_iff, hk]
      · rw [hb, eq_nan_right p4]
        unfold fKey; rw [han, p4]
        have := keyQ_gt_w han
        simp only [Bool.false_eq_true, if_false, if_true, decide_eq_false_iff_not]
        intro e; rw [e] at this; exact absurd this (Rat.lt_irrefl)) rest st1 (fun a ha => ha) (Or.inr rfl)
  rw [hmapst] at hfm
  have hmapk : rest.map fKey = rest.map keyQ := by
    apply List.map_congr_left
    intro a ha; unfold fKey; rw [hrest a ha]; rfl
  rw [hmapk, modeStepG_rat] at hfm
  -- the invariant of the exact scan on `w :: keys`
  have hanti : ∀ a b : Rat, a ≤ b → b ≤ a → a = b := fun a b h1 h2 => Rat.le_antisymm h1 h2
  have hks : ([wKey] ++ rest.map keyQ).Pairwise (fun a b => a ≤ b) := by
    rw [List.singleton_append, List.pairwise_cons]
    refine ⟨?_, ?_⟩
    · intro k hk
      obtain ⟨x, hx, rfl⟩ := List.mem_map.mp hk
      exact Rat.le_of_lt (keyQ_gt_w (hrest x hx))
    · rw [List.pairwise_map]
      have := List.Pairwise.and_mem.mp hsorted
      refine this.imp ?_
      intro a b ⟨ha, hb, hh⟩
      rw [goLess_false_iff, skey_of_not_nan (hrest a ha), skey_of_not_nan (hrest b hb)] at hh
      exact (keyQ_le_iff _ _).mpr hh
  have inv := modeInv_foldl (fun a b => a ≤ b) hanti (rest.map keyQ) [wKey] _ (modeInv_first _ wKey) hks
  rw [← hfm] at inv
  have hfmv : (mapState fKey (rest.foldl (modeStepG F64.eq) st1)).maxValue = fKey m := by rw [hm]; rfl
  have hfmo : (mapState fKey (rest.foldl (modeStepG F64.eq) st1)).maxObserved =
      (rest.foldl (modeStepG F64.eq) st1).maxObserved := rfl
  have maxm := inv.maxm
  have maxc := inv.maxc
  have bound := inv.bound
  have tie := inv.tie
  rw [hfmv] at maxm maxc tie
  generalize (mapState fKey (rest.foldl (modeStepG F64.eq) st1)).maxObserved = mo at maxc bound tie
  have hwnot : wKey ∉ rest.map keyQ := by
    intro h
    obtain ⟨x, hx, e⟩ := List.mem_map.mp h
    have := keyQ_gt_w (hrest x hx)
    rw [e] at this; exact absurd this Rat.lt_irrefl
  have hcw : ([wKey] ++ rest.map keyQ).count wKey = 1 := by
    rw [List.count_append, List.count_singleton_self, List.count_eq_zero.mpr hwnot]
  have hck : ∀ y : F64, y.isNaN = false →
      ([wKey] ++ rest.map keyQ).count (keyQ y) = s.countP (fun x => F64.eq y x) := by
    intro y hy
    have hne : ¬ wKey = keyQ y := by
      intro e; have := keyQ_gt_w hy; rw [e] at this; exact absurd this Rat.lt_irrefl
    rw [List.count_append, List.count_singleton, count_map_keyQ rest hrest y hy]
    show _ = ((n0 :: ns) ++ rest).countP _
    rw [countP_eq_append_nans _ _ hns]
    simp [hne]
  have hcnan : ∀ y : F64, y.isNaN = true → s.countP (fun x => F64.eq y x) = 0 := by
    intro y hy
    rw [List.countP_eq_zero]; intro a _; simp [eq_nan_left hy]
  constructor
  · intro hnan
    have hfw : fKey m = wKey := by unfold fKey; rw [hnan]; rfl
    rw [hfw, hcw] at maxc
    refine ⟨?_, ?_⟩
    · -- the result is still the first NaN: a NaN among `rest` is impossible, so `m` is the untouched maxValue
      have : ∀ (q : List F64) (st : ModeState F64), (∀ a ∈ q, a.isNaN = false) →
          (q.foldl (modeStepG F64.eq) st).maxValue = st.maxValue ∨
          (q.foldl (modeStepG F64.eq) st).maxValue.isNaN = false := by
        intro q
        induction q with
        | nil => intro st _; exact Or.inl rfl
        | cons v q ih =>
          intro st hq
          rw [List.foldl_cons]
          have hv := hq v (by simp)
          rcases ih (modeStepG F64.eq st v) (fun a ha => hq a (by simp [ha])) with e | e
          · rw [e]
            unfold modeStepG
            by_cases hc : F64.eq v st.currValue = true
            · have hcn := ((eq_iff_key _ _).mp hc).2.1
              simp only [hc, Bool.not_true, Bool.false_eq_true, if_false]
              split
              · exact Or.inr hcn
              · exact Or.inl rfl
            · have hc' : F64.eq v st.currValue = false := by
                cases h : F64.eq v st.currValue
                · rfl
                · exact absurd h hc
              simp only [hc', Bool.not_false, if_true]
              split
              · exact Or.inr hv
              · exact Or.inl rfl
          · exact Or.inr e
      rcases this rest st1 hrest with e | e
      · rw [hm, e, p1]
      · rw [← hm, hnan] at e; cases e
    · intro y
      cases hy : y.isNaN
      · rw [← hck y hy, ← maxc]; exact bound _
      · rw [hcnan y hy]; omega
  · intro hnn
    have hfk : fKey m = keyQ m := by unfold fKey; rw [hnn]; rfl
    rw [hfk] at maxm maxc tie
    have hmo : mo = s.countP (fun x => F64.eq m x) := by rw [maxc, hck m hnn]
    have hmem : keyQ m ∈ rest.map keyQ := by
      rcases List.mem_append.mp maxm with h | h
      · have := keyQ_gt_w hnn
        rw [List.mem_singleton] at h
        rw [h] at this; exact absurd this Rat.lt_irrefl
      · exact h
    obtain ⟨x, hxr, hxk⟩ := List.mem_map.mp hmem
    have hxn := hrest x hxr
    refine ⟨?_, ⟨x, List.mem_append_right _ hxr, ?_⟩, ?_, ?_⟩
    · -- a number wins only with a run of length ≥ 2
      have hb := bound wKey
      rw [hcw] at hb
      by_cases h1 : mo = 1
      · have := tie wKey (by rw [hcw, h1]) (by
          intro e; have := keyQ_gt_w hnn; rw [e] at this; exact absurd this Rat.lt_irrefl)
        exact absurd (keyQ_gt_w hnn) (Rat.not_lt.mpr this)
      · rw [← hmo]; omega
    · rw [eq_iff_key]; exact ⟨hnn, hxn, ((keyQ_eq_iff _ _).mp hxk).symm⟩
    · intro y
      cases hy : y.isNaN
      · rw [← hck y hy, ← hmo]; exact bound _
      · rw [hcnan y hy]; omega
    · intro y hyl hc hne2
      cases hy : y.isNaN
      · rw [← hck y hy, ← hmo] at hc
        have hk : y.key ≠ m.key := by
          intro e
          have := (eq_iff_key y m).mpr ⟨hy, hnn, e⟩
          rw [this] at hne2; cases hne2
        have := tie (keyQ y) hc (fun e => hk ((keyQ_eq_iff _ _).mp e))
        simp only [Bool.false_eq_true, if_false]
        rw [lt_iff_key]; refine ⟨hnn, hy, ?_⟩
        have := (keyQ_le_iff _ _).mp this
        omega
      · exfalso
        rw [hcnan y hy] at hc
        have : 1 ≤ s.countP (fun x => F64.eq m x) := by
          rw [← hmo, maxc]; exact List.count_pos_iff.mpr maxm
        omega

theorem mem_takeWhile_p {α : Type} (p : α → Bool) (s : List α) (x : α) (hx : x ∈ s.takeWhile p) : p x = true :=
  List.all_eq_true.mp List.all_takeWhile x hx

theorem modeStepG_maxObs {α : Type} (eq : α → α → Bool) (st : ModeState α) (v : α) :
    1 ≤ (modeStepG eq st v).maxObserved ∧ st.maxObserved ≤ (modeStepG eq st v).maxObserved := by
  unfold modeStepG
  cases eq v st.currValue <;> simp <;> split <;> simp <;> omega

theorem fold_maxObs {α : Type} (eq : α → α → Bool) (q : List α) : ∀ st : ModeState α, 1 ≤ st.maxObserved →
    1 ≤ (q.foldl (modeStepG eq) st).maxObserved := by
  induction q with
  | nil => intro st h; exact h
  | cons v q ih => intro st _; rw [List.foldl_cons]; exact ih _ (modeStepG_maxObs eq st v).1

theorem goLess_nan_num {x y : F64} (hx : x.isNaN = true) (hy : y.isNaN = false) : goLess x y = true := by
  unfold goLess; rw [hx, hy]; simp

theorem modeOK_perm {rev : Bool} {s l : List F64} (h : s.Perm l) {m : F64} (ok : ModeOK rev s m) : ModeOK rev l m := by
  obtain ⟨⟨x, hx, hxe⟩, b, c⟩ := ok
  refine ⟨⟨x, h.mem_iff.mp hx, hxe⟩, ?_, ?_⟩
  · intro y; rw [← h.countP_eq, ← h.countP_eq]; exact b y
  · intro y hy; rw [← h.countP_eq, ← h.countP_eq]; exact c y (h.mem_iff.mpr hy)

/-- **`Mode()` for ANY samples (NaN included)** and any sorted arrangement `s` of them. -/
theorem modeF_general (rev : Bool) (s l : List F64) (hs : IsSortedF rev s l) (hne : l ≠ []) :
    let m := modeF s
    (m.isNaN = true ↔ (if rev then ∀ x ∈ l, x.isNaN = true
        else (∃ x ∈ l, x.isNaN = true) ∧ ∀ y, l.countP (fun x => F64.eq y x) ≤ 1)) ∧
    (m.isNaN = true → m ∈ l) ∧ (m.isNaN = false → ModeOK rev l m) := by
  intro m
  have hsne : s ≠ [] := by intro e; rw [e] at hs; exact hne hs.1.symm.eq_nil
  cases rev with
  | false =>
    have hpw : s.Pairwise (fun a b => goLess b a = false) := by
      have := hs.2; simpa using this
    have hsplit : s = s.takeWhile F64.isNaN ++ s.dropWhile F64.isNaN := (List.takeWhile_append_dropWhile).symm
    have hnsN : ∀ x ∈ s.takeWhile F64.isNaN, x.isNaN = true := fun x hx => mem_takeWhile_p _ _ x hx
    have hrestN : ∀ x ∈ s.dropWhile F64.isNaN, x.isNaN = false := by
      apply dropWhile_none
      refine hpw.imp ?_
      intro a b hab hb
      cases ha : a.isNaN
      · rw [goLess_nan_num hb ha] at hab; cases hab
      · rfl
    have hrestS : (s.dropWhile F64.isNaN).Pairwise (fun a b => goLess b a = false) :=
      hpw.sublist (List.dropWhile_sublist _)
    generalize s.takeWhile F64.isNaN = ns at hsplit hnsN
    generalize s.dropWhile F64.isNaN = rest at hsplit hrestN hrestS
    cases ns with
    | nil =>
      simp only [List.nil_append] at hsplit
      have hn : ∀ x ∈ l, x.isNaN = false := fun x hx => hrestN x (by rw [← hsplit]; exact hs.1.mem_iff.mpr hx)
      obtain ⟨a, b, c, d⟩ := modeF_scan false s l hs hne hn
      simp only [Bool.false_eq_true, if_false]
      refine ⟨⟨fun h => ?_, fun ⟨⟨x, hx, hxn⟩, _⟩ => ?_⟩, fun h => ?_, fun _ => ⟨b, c, d⟩⟩
      · rw [a] at h; cases h
      · rw [hn x hx] at hxn; cases hxn
      · rw [a] at h; cases h
    | cons n0 ns =>
      obtain ⟨A, B⟩ := modeF_nan_asc n0 ns rest hnsN hrestN hrestS
      rw [← hsplit] at A B
      have hmdef : modeF s = m := rfl
      rw [hmdef] at A B
      simp only [Bool.false_eq_true, if_false]
      have hn0 : n0 ∈ l := hs.1.mem_iff.mp (by rw [hsplit]; simp)
      refine ⟨⟨fun h => ?_, fun ⟨_, hc⟩ => ?_⟩, fun h => ?_, fun h => modeOK_perm hs.1 (B h).2⟩
      · obtain ⟨_, a2⟩ := A h
        exact ⟨⟨n0, hn0, hnsN n0 (by simp)⟩, fun y => by rw [← hs.1.countP_eq]; exact a2 y⟩
      · cases hm : m.isNaN
        · have := (B hm).1
          have h1 := hc m
          rw [← hs.1.countP_eq] at h1
          omega
        · rfl
      · rw [(A h).1]; exact hn0
  | true =>
    have hpw : s.Pairwise (fun a b => goLess a b = false) := by
      have := hs.2; simpa using this
    have hsplit : s = s.takeWhile (fun x => !x.isNaN) ++ s.dropWhile (fun x => !x.isNaN) :=
      (List.takeWhile_append_dropWhile).symm
    have hrestN : ∀ x ∈ s.takeWhile (fun x => !x.isNaN), x.isNaN = false := by
      intro x hx
      have := mem_takeWhile_p _ _ x hx
      simpa using this
    have hnsN : ∀ x ∈ s.dropWhile (fun x => !x.isNaN), x.isNaN = true := by
      intro x hx
      have := dropWhile_none (fun x : F64 => !x.isNaN) s (by
        refine hpw.imp ?_
        intro a b hab hb
        cases ha : a.isNaN
        · rfl
        · have hb' : b.isNaN = false := by simpa using hb
          rw [goLess_nan_num ha hb'] at hab; cases hab) x hx
      simpa using this
    have hrestS : (s.takeWhile (fun x => !x.isNaN)).Pairwise (fun a b => goLess a b = false) :=
      hpw.sublist (List.takeWhile_sublist _)
    generalize s.takeWhile (fun x => !x.isNaN) = rest at hsplit hrestN hrestS
    generalize s.dropWhile (fun x => !x.isNaN) = ns at hsplit hnsN
    simp only [if_true]
    cases rest with
    | nil =>
      simp only [List.nil_append] at hsplit
      obtain ⟨n0, ns', hns'⟩ := List.exists_cons_of_ne_nil (by rw [← hsplit]; exact hsne : ns ≠ [])
      rw [hns'] at hnsN hsplit
      obtain ⟨p1, _, _, _⟩ := fold_nan_prefix n0 ns' hnsN (F64.zero false)
      have hm : m = n0 := by
        show modeF s = n0
        unfold modeF; rw [mode_eq_foldG, hsplit]; exact p1
      have hall : ∀ x ∈ l, x.isNaN = true := fun x hx => hnsN x (by rw [← hsplit]; exact hs.1.mem_iff.mpr hx)
      have hmn : m.isNaN = true := by rw [hm]; exact hnsN n0 (by simp)
      refine ⟨⟨fun _ => hall, fun _ => hmn⟩, fun _ => ?_, fun h => ?_⟩
      · rw [hm]; exact hs.1.mem_iff.mp (by rw [hsplit]; simp)
      · rw [hmn] at h; cases h
    | cons r0 rest' =>
      have hm : m = modeF (r0 :: rest') := by
        show modeF s = _
        unfold modeF
        rw [mode_eq_foldG, mode_eq_foldG, hsplit, List.foldl_append]
        have h1 : 1 ≤ ((r0 :: rest').foldl (modeStepG F64.eq) ⟨0, F64.zero false, 0, F64.zero false⟩).maxObserved := by
          rw [List.foldl_cons]; exact fold_maxObs _ _ _ (modeStepG_maxObs _ _ _).1
        exact (fold_nans ns hnsN _ h1).1
      obtain ⟨a, ⟨x, hx, hxe⟩, c, d⟩ := modeF_scan true (r0 :: rest') (r0 :: rest') ⟨List.Perm.refl _, by simpa using hrestS⟩
        (by simp) hrestN
      rw [← hm] at a hxe c d
      have hr0 : r0 ∈ l := hs.1.mem_iff.mp (by rw [hsplit]; simp)
      have okS : ModeOK true s m := by
        refine ⟨⟨x, by rw [hsplit]; exact List.mem_append_left _ hx, hxe⟩, ?_, ?_⟩
        · intro y; rw [hsplit, countP_eq_nans_append _ _ hnsN, countP_eq_nans_append _ _ hnsN]; exact c y
        · intro y hy
          rw [hsplit, countP_eq_nans_append _ _ hnsN, countP_eq_nans_append _ _ hnsN]
          intro hc hne2
          rw [hsplit] at hy
          rcases List.mem_append.mp hy with hy | hy
          · exact d y hy hc hne2
          · exfalso
            have h0 : (r0 :: rest').countP (fun x => F64.eq y x) = 0 := by
              rw [List.countP_eq_zero]; intro a _; simp [eq_nan_left (hnsN y hy)]
            have h1 : 0 < (r0 :: rest').countP (fun x => F64.eq m x) :=
              List.countP_pos_iff.mpr ⟨x, hx, hxe⟩
            omega
      refine ⟨⟨fun h => ?_, fun hall => ?_⟩, fun h => ?_, fun _ => modeOK_perm hs.1 okS⟩
      · rw [a] at h; cases h
      · have := hall r0 hr0
        rw [hrestN r0 (by simp)] at this; cases this
      · rw [a] at h; cases h

end Rare.C07
