import Rare.Proofs.C16Num
import Rare.Gen.C16
/-!
C16: the hand model of `isNumeric` (`Model/C16.lean`, list recursion) equals the definition the
translator regenerates from pkg/minijson/minijson.go statement by statement (`Rare.Gen.C16.isNumeric`,
index arithmetic over `Int`, `runLoop`).
-/
namespace Rare.C16
open Rare.Gen.C16 (Flow runLoop byteAt)

theorem byteAt_mid (pre : Bytes) (c : UInt8) (r : Bytes) : byteAt (pre ++ c :: r) (pre.length : Int) = (c.toNat : Int) := by
  simp [byteAt]

theorem bad_iff (c : UInt8) : (((c.toNat : Int) < 48) ∨ ((c.toNat : Int) > 57)) ↔ (c < 0x30 ∨ c > 0x39) := by
  have h1 : c < 0x30 ↔ c.toNat < 48 := UInt8.lt_iff_toNat_lt
  have h2 : c > 0x39 ↔ 57 < c.toNat := UInt8.lt_iff_toNat_lt
  rw [h1, h2]; omega

theorem dot_iff (c : UInt8) : ((c.toNat : Int) = 46) ↔ c = 0x2e := by
  constructor
  · intro h; apply UInt8.toNat_inj.mp; simp; omega
  · intro h; subst h; rfl

/-- what the body of the second loop computes at an index inside the string -/
def Body2Spec (s : Bytes) (body : Int → Flow) : Prop :=
  ∀ (pre : Bytes) (c : UInt8) (r : Bytes), s = pre ++ c :: r →
    body (pre.length : Int) = if c < 0x30 ∨ c > 0x39 then .ret false else .next (pre.length : Int)

/-- … and of the first loop -/
def Body1Spec (s : Bytes) (body : Int → Flow) : Prop :=
  ∀ (pre : Bytes) (c : UInt8) (r : Bytes), s = pre ++ c :: r →
    body (pre.length : Int) =
      if c = 0x2e then
        (if pre.length = 0 then .ret false else if r = [] then .ret false else .brk ((pre.length : Int) + 1))
      else if c < 0x30 ∨ c > 0x39 then .ret false else .next (pre.length : Int)

theorem runLoop_end (len : Int) (body : Int → Flow) (fuel : Nat) (i : Int) (h : ¬ i < len) :
    runLoop len body fuel i = .brk i := by
  cases fuel with
  | zero => rfl
  | succ f => simp [runLoop, h]

theorem runLoop2 (s : Bytes) (body : Int → Flow) (hb : Body2Spec s body) :
    ∀ (r pre : Bytes) (fuel : Nat), s = pre ++ r → r.length ≤ fuel →
      runLoop (s.length : Int) body fuel (pre.length : Int) =
        match numLoop2 pre.length r with
        | none => .ret false
        | some j => .brk (j : Int) := by
  intro r
  induction r with
  | nil =>
    intro pre fuel hs _
    rw [runLoop_end _ _ _ _ (by simp [hs])]
    simp [numLoop2]
  | cons c r ih =>
    intro pre fuel hs hf
    cases fuel with
    | zero => simp at hf
    | succ f =>
      have hlt : (pre.length : Int) < (s.length : Int) := by rw [hs]; simp; omega
      have hbody := hb pre c r hs
      unfold runLoop numLoop2
      rw [if_pos hlt, hbody]
      by_cases hbad : c < 0x30 ∨ c > 0x39
      · simp [hbad]
      · simp only [hbad, if_false]
        have := ih (pre ++ [c]) f (by simp [hs]) (by simp at hf; omega)
        simp only [List.length_append, List.length_singleton] at this
        have hc : ((pre.length + 1 : Nat) : Int) = (pre.length : Int) + 1 := by omega
        rw [hc] at this
        exact this

theorem numLoop1_suffix (r : Bytes) (i j : Nat) (rest : Bytes) (h : numLoop1 i r = some (j, rest)) :
    ∃ mid, r = mid ++ rest ∧ j = i + mid.length := by
  obtain ⟨ip, _, hc⟩ := numLoop1_some r i j rest h
  rcases hc with ⟨e1, e2, e3⟩ | ⟨e1, _, _, e4⟩
  · exact ⟨ip, by simp [e1, e2], e3⟩
  · exact ⟨ip ++ [0x2e], by simp [e1], by simp [e4]; omega⟩

theorem runLoop1 (s : Bytes) (body : Int → Flow) (hb : Body1Spec s body) :
    ∀ (r pre : Bytes) (fuel : Nat), s = pre ++ r → r.length ≤ fuel →
      runLoop (s.length : Int) body fuel (pre.length : Int) =
        match numLoop1 pre.length r with
        | none => .ret false
        | some (j, _) => .brk (j : Int) := by
  intro r
  induction r with
  | nil =>
    intro pre fuel hs _
    rw [runLoop_end _ _ _ _ (by simp [hs])]
    simp [numLoop1]
  | cons c r ih =>
    intro pre fuel hs hf
    cases fuel with
    | zero => simp at hf
    | succ f =>
      have hlt : (pre.length : Int) < (s.length : Int) := by rw [hs]; simp; omega
      have hbody := hb pre c r hs
      unfold runLoop numLoop1
      rw [if_pos hlt, hbody]
      by_cases hdot : c = 0x2e
      · simp only [hdot, if_true]
        by_cases h0 : pre.length = 0
        · simp [h0]
        · by_cases hr : r = []
          · simp [h0, hr]
          · simp [h0, hr]
      · simp only [hdot, if_false]
        by_cases hbad : c < 0x30 ∨ c > 0x39
        · simp [hbad]
        · simp only [hbad, if_false]
          have := ih (pre ++ [c]) f (by simp [hs]) (by simp at hf; omega)
          simp only [List.length_append, List.length_singleton] at this
          have hc : ((pre.length + 1 : Nat) : Int) = (pre.length : Int) + 1 := by omega
          rw [hc] at this
          exact this

/-- the leading-zero guard, index form = list form -/
theorem guard_eq (s : Bytes) :
    ((decide ((s.length : Int) > 1) && decide (byteAt s 0 = 48)) && decide (byteAt s 1 ≠ 46)) = true ↔
      (1 < s.length ∧ s.head? = some 0x30 ∧ s.tail.head? ≠ some 0x2e) := by
  match s with
  | [] => simp
  | [a] => simp
  | a :: b :: t =>
    have ha : byteAt (a :: b :: t) 0 = (a.toNat : Int) := by simp [byteAt]
    have hb : byteAt (a :: b :: t) 1 = (b.toNat : Int) := by simp [byteAt]
    have e0 : ((a.toNat : Int) = 48) ↔ a = 0x30 := by
      constructor
      · intro h; apply UInt8.toNat_inj.mp; simp; omega
      · intro h; subst h; rfl
    simp only [ha, hb, Bool.and_eq_true, decide_eq_true_eq, ne_eq, dot_iff, e0, List.length_cons, List.head?_cons,
      List.tail_cons, Option.some.injEq]
    constructor
    · rintro ⟨⟨_, h2⟩, h3⟩; exact ⟨by omega, h2, h3⟩
    · rintro ⟨_, h2, h3⟩; exact ⟨⟨by omega, h2⟩, h3⟩

/-- the composition after the guard -/
theorem loops_eq (s : Bytes) (b1 b2 : Int → Flow) (h1 : Body1Spec s b1) (h2 : Body2Spec s b2) :
    ((runLoop (s.length : Int) b1 s.length 0).cont fun i =>
      (runLoop (s.length : Int) b2 s.length i).cont fun i => decide (i > 0)) =
    (match numLoop1 0 s with
     | none => false
     | some (i, r) =>
       match numLoop2 i r with
       | none => false
       | some j => decide (0 < j)) := by
  have e1 := runLoop1 s b1 h1 s [] s.length (by simp) (Nat.le_refl _)
  simp only [List.length_nil] at e1
  have hz : ((0 : Nat) : Int) = 0 := rfl
  rw [hz] at e1
  rw [e1]
  cases hn : numLoop1 0 s with
  | none => simp [Flow.cont]
  | some p =>
    obtain ⟨i, r⟩ := p
    obtain ⟨mid, hm, hi⟩ := numLoop1_suffix s 0 i r hn
    have e2 := runLoop2 s b2 h2 r mid s.length hm (by rw [hm]; simp)
    have hi' : i = mid.length := by omega
    simp only [Flow.cont]
    rw [hi', e2]
    cases numLoop2 mid.length r with
    | none => simp [Flow.cont]
    | some j => simp [Flow.cont]

end Rare.C16
