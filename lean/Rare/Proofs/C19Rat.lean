import Rare.Proofs.C19
/-!
An exact instance of the C19 arithmetic for theorems and examples: values are `Option Rat`,
`none` standing for "not a number" (NaN, ±Inf, results of libm functions).  `+ - * /`, comparisons
and the boolean combiners are the field operations of `Rat`; `% << >> & |` act on operands
truncated toward zero (out-of-range operands give MinInt64 as on amd64) through the very same
`modI/shlI/shrI/andI/orI` the float64 driver uses.
-/
namespace Rare.C19

def ratTrunc (q : Rat) : Int :=
  let z : Int := if q < 0 then q.ceil else q.floor
  if z < minInt64 ∨ z > maxInt64 then minInt64 else z

abbrev QV := Option Rat
def qcond (b : Bool) : QV := some (if b then 1 else 0)
def qtruthy : QV → Bool
  | some q => q != 0
  | none => true
def qlift (f : Rat → Rat → Rat) : QV → QV → QV
  | some a, some b => some (f a b)
  | _, _ => none
def qcmp (f : Rat → Rat → Bool) : QV → QV → QV
  | some a, some b => qcond (f a b)
  | _, _ => qcond false

def ratPrim : Prim QV where
  zero := some 0
  nan := none
  inf := none
  ofInt := fun v => some v
  parseFloat := decParse
    (fun m e => some (some (if e ≥ 0 then (m : Rat) * 10 ^ e.toNat else (m : Rat) / 10 ^ (-e).toNat))) none none
  add := qlift (· + ·)
  sub := qlift (· - ·)
  mul := qlift (· * ·)
  div := fun a b => match a, b with
    | some x, some y => if y = 0 then none else some (x / y)
    | _, _ => none
  pow := fun a b => match a, b with
    | some x, some y => if y.den = 1 ∧ 0 ≤ y.num then some (x ^ y.num.toNat) else none
    | _, _ => none
  ltF := qcmp (· < ·)
  leF := qcmp (· ≤ ·)
  eqF := qcmp (· == ·)
  andF := fun a b => qcond (qtruthy a && qtruthy b)
  orF := fun a b => qcond (qtruthy a || qtruthy b)
  intBin := fun f a b => match a, b with
    | some x, some y => (f (ratTrunc x) (ratTrunc y)).map (fun (z : Int) => (z : Rat))
    | _, _ => none
  neg := fun a => a.map (fun x => -x)
  notF := fun a => qcond (!qtruthy a)
  fn := fun _ _ => none

def ratArith : Arith QV := arithOf ratPrim


/-- Value of a formula under the binding "every variable = x" (`none` = compile error). -/
def evalStr (s : Bytes) (x : Rat) : Option QV :=
  match compile ratArith s with
  | .ok (_, e) => some (e.eval ratArith ⟨fun _ => some x, fun _ => some x⟩)
  | .error _ => none

/-- Ghost parse tree of a formula (`none` = compile error). -/
def parseStr (s : Bytes) : Option Tree :=
  match compile ratArith s with
  | .ok (t, _) => some t
  | .error _ => none

end Rare.C19
