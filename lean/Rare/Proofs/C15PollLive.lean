import Rare.Proofs.C15Poll
/-!
C15 – progress of the polling reader: it never blocks, and with a silent writer it delivers a byte
after at most four steps whenever unread bytes exist in the file in place.
-/
namespace Rare.Follow
open Rare.C15.Spec

variable {β : Type} {cfg : PCfg} {ex : Bool} {st0 : Nat}

/-- The polling reader always has a next step until it has returned EOF. -/
theorem poll_progress {s : PSt β} (h : PInv cfg ex st0 s) (hne : s.rd ≠ .ended) :
    ∃ s', PStep cfg .reader s s' := by
  cases hrd : s.rd with
  | ended => exact absurd hrd hne
  | opening sz => exact ⟨_, .reopen s sz hrd⟩
  | check =>
    cases hre : cfg.reopen with
    | false =>
      cases hp : s.fs.path with
      | none => exact ⟨_, .statGone s hrd hre hp⟩
      | some j => exact ⟨_, .statThere s j hrd hre hp⟩
    | true =>
      cases hp : s.fs.path with
      | none => exact ⟨_, .statNil s hrd hre hp⟩
      | some j =>
        by_cases hsz : (s.fs.content j).length = s.readBytes
        · exact ⟨_, .statSame s j hrd hre hp hsz⟩
        · exact ⟨_, .statDiff s j hrd hre hp hsz⟩
  | attempt i =>
    cases hf : s.f with
    | none => exact ⟨_, .nilSleep s i hrd hf⟩
    | some x =>
      have hi := h.att i hrd
      by_cases hlt : i < cfg.attempts
      · cases hu : unread s.fs x with
        | nil => exact ⟨_, .readEmpty s x i hrd hlt hf hu⟩
        | cons a l => exact ⟨_, .readSome s x i 1 hrd hlt hf (Nat.le_refl 1) (by rw [hu]; simp)⟩
      · have : i = cfg.attempts := by omega
        subst this
        exact ⟨_, .loopDone s x hrd hf⟩

def prank (a : Nat) : PRd → Nat
  | .attempt i => if i < a then 0 else 3
  | .check => 2
  | .opening _ => 1
  | .ended => 0

theorem poll_inplace_step (hA : 1 ≤ cfg.attempts) {s s' : PSt β} (h : PInv cfg ex st0 s) (he : ex = true)
    (hr : s.removes = 0) (hu : unread s.fs ⟨0, st0, s.readBytes⟩ ≠ []) (hs : PStep cfg .reader s s') :
    (∃ bs, bs ≠ [] ∧ s'.delivered = s.delivered ++ bs) ∨
    (prank cfg.attempts s'.rd < prank cfg.attempts s.rd ∧ s'.fs = s.fs ∧ s'.removes = s.removes ∧
      s'.readBytes = s.readBytes ∧ s'.delivered = s.delivered) := by
  obtain ⟨h1, h2, h3, h4, h5⟩ := h.inPlace he hr
  cases hs with
  | readSome _ x i n hrd hi hf hn1 hn =>
    left
    refine ⟨(unread s.fs x).take n, ?_, rfl⟩
    intro h0
    have : ((unread s.fs x).take n).length = 0 := by rw [h0]; rfl
    simp only [List.length_take] at this
    omega
  | readEmpty _ x i hrd hi hf hu' =>
    exfalso
    rw [h3] at hf; simp only [Option.some.injEq] at hf; subst hf
    exact hu hu'
  | loopDone _ x hrd hf => right; simp [prank, hrd]
  | nilSleep _ i hrd hf => rw [h3] at hf; cases hf
  | statGone _ hrd hre hp => rw [h2] at hp; cases hp
  | statThere _ j hrd hre hp => right; have h0 : 0 < cfg.attempts := hA; simp [prank, hrd, h0]
  | statNil _ hrd hre hp => rw [h2] at hp; cases hp
  | statSame _ j hrd hre hp hsz => right; have h0 : 0 < cfg.attempts := hA; simp [prank, hrd, h0]
  | statDiff _ j hrd hre hp hsz => right; simp [prank, hrd]
  | reopen _ sz hrd =>
    right
    have hm : merges s sz = true := by simp [merges, h3, h2, h5 sz hrd]
    have heq : openStep s sz = { s with rd := .attempt 0 } := by simp only [openStep]; rw [if_pos hm]
    rw [heq]
    have h0 : 0 < cfg.attempts := hA
    simp [prank, hrd, h0]

theorem PSysReach.trans {s s' s'' : PSt β} (h1 : PSysReach cfg s s') (h2 : PSysReach cfg s' s'') :
    PSysReach cfg s s'' := by
  induction h1 with
  | refl => exact h2
  | step hs _ ih => exact .step hs (ih h2)

theorem poll_eventually_delivered_aux (hA : 1 ≤ cfg.attempts) (he : ex = true) :
    ∀ (k : Nat) (s : PSt β), prank cfg.attempts s.rd ≤ k → PInv cfg ex st0 s → s.removes = 0 →
      unread s.fs ⟨0, st0, s.readBytes⟩ ≠ [] →
      ∃ s' bs, PSysReach cfg s s' ∧ bs ≠ [] ∧ s'.delivered = s.delivered ++ bs := by
  intro k
  induction k with
  | zero =>
    intro s hk h hr hu
    have hne : s.rd ≠ .ended := by
      intro hen; have := (h.ended hen).2 he; omega
    obtain ⟨s1, hs⟩ := poll_progress h hne
    rcases poll_inplace_step hA h he hr hu hs with ⟨bs, hb, hd⟩ | ⟨hm, _⟩
    · exact ⟨s1, bs, .step hs (.refl _), hb, hd⟩
    · omega
  | succ k ih =>
    intro s hk h hr hu
    have hne : s.rd ≠ .ended := by
      intro hen; have := (h.ended hen).2 he; omega
    obtain ⟨s1, hs⟩ := poll_progress h hne
    rcases poll_inplace_step hA h he hr hu hs with ⟨bs, hb, hd⟩ | ⟨hm, hfs, hrm, hrb, hdl⟩
    · exact ⟨s1, bs, .step hs (.refl _), hb, hd⟩
    · obtain ⟨s2, bs, hreach, hb, hd⟩ := ih s1 (by omega) (pinv_step h hs) (by rw [hrm]; exact hr)
        (by rw [hfs, hrb]; exact hu)
      exact ⟨s2, bs, .step hs hreach, hb, by rw [hd, hdl]⟩

end Rare.Follow
