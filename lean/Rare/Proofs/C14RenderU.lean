import Rare.Proofs.C14HeatWidth
/-!
# C14: heatmap and sparkline as whole renderers, for every float instance satisfying `UnitLaws`

The theorems of `C14Heat.lean` (`heat_writeTable_ok`, `spark_writeTable_ok`: no panic on ANY aggregated state, one cell per
displayed column, exact "(n more)" notes) once more, with the float operations abstract: they hold for the
IEEE binary64 instance on int64 cell values (`unitLaws_f64`) as they do over ℚ.  Only the steps that touch a
scaled value differ from the ℚ proofs: there `Scale` is a unit value because the cell values, the range of the
table and the legend keys (`int64(…)` results) are in the domain of the instance.
-/
namespace Rare.C14
open Rare Rare.C20

section
variable {α : Type} {A : Arith α} {Dom : Int → Prop} {Unit : α → Prop} {le : α → α → Prop}

/-- every cell value of the aggregated state is in the domain of the float instance (int64 for binary64) -/
def DomCells (Dom : Int → Prop) (c : Cells) : Prop := ∀ e ∈ c, Dom e.2

theorem dom_maxmin (U : UnitLaws A Dom Unit le) : Dom maxInt64 ∧ Dom minInt64 := by
  have a := U.dom_wrap maxInt64
  have b := U.dom_wrap minInt64
  have ea : wrap64 maxInt64 = maxInt64 := by decide
  have eb : wrap64 minInt64 = minInt64 := by decide
  rw [ea] at a; rw [eb] at b
  exact ⟨a, b⟩

theorem dom_value (U : UnitLaws A Dom Unit le) (c : Cells) (hc : DomCells Dom c) (r k : Nat) : Dom (c.value r k) := by
  unfold Cells.value
  split
  · rename_i e he
    exact hc e (List.mem_of_find?_eq_some he)
  · exact U.dom_zero

theorem dom_minMax (U : UnitLaws A Dom Unit le) (c : Cells) (hc : DomCells Dom c) : Dom c.minMax.1 ∧ Dom c.minMax.2 := by
  unfold Cells.minMax
  split
  · exact ⟨U.dom_zero, U.dom_zero⟩
  · have inner : ∀ (r : Nat) (ks : List Nat) (acc : Int × Int), Dom acc.1 ∧ Dom acc.2 →
        Dom (ks.foldl (fun (acc : Int × Int) k =>
          (if c.value r k < acc.1 then c.value r k else acc.1, if c.value r k > acc.2 then c.value r k else acc.2)) acc).1 ∧
        Dom (ks.foldl (fun (acc : Int × Int) k =>
          (if c.value r k < acc.1 then c.value r k else acc.1, if c.value r k > acc.2 then c.value r k else acc.2)) acc).2 := by
      intro r ks
      induction ks with
      | nil => intro acc h; exact h
      | cons k ks ih =>
        intro acc h
        simp only [List.foldl_cons]
        apply ih
        have hv := dom_value U c hc r k
        constructor
        · show Dom (if c.value r k < acc.1 then c.value r k else acc.1); split; exact hv; exact h.1
        · show Dom (if c.value r k > acc.2 then c.value r k else acc.2); split; exact hv; exact h.2
    have outer : ∀ (rs : List Nat) (acc : Int × Int), Dom acc.1 ∧ Dom acc.2 →
        Dom (rs.foldl (fun acc r => c.cols.foldl (fun (acc : Int × Int) k =>
          (if c.value r k < acc.1 then c.value r k else acc.1, if c.value r k > acc.2 then c.value r k else acc.2)) acc) acc).1 ∧
        Dom (rs.foldl (fun acc r => c.cols.foldl (fun (acc : Int × Int) k =>
          (if c.value r k < acc.1 then c.value r k else acc.1, if c.value r k > acc.2 then c.value r k else acc.2)) acc) acc).2 := by
      intro rs
      induction rs with
      | nil => intro acc h; exact h
      | cons r rs ih =>
        intro acc h
        simp only [List.foldl_cons]
        exact ih _ (inner r c.cols acc h)
    exact outer c.rows (maxInt64, minInt64) (dom_maxmin U)

/-! ### heatmap -/

theorem dedup_mem (l : List Int) : ∀ (acc : List Int) (x : Int),
    x ∈ l.foldl (fun acc v => if acc.isEmpty || acc.getLast? != some v then acc ++ [v] else acc) acc → x ∈ acc ∨ x ∈ l := by
  induction l with
  | nil => intro acc x h; exact Or.inl h
  | cons v l ih =>
    intro acc x h
    simp only [List.foldl_cons] at h
    rcases ih _ x h with h1 | h1
    · split at h1
      · rcases List.mem_append.mp h1 with h2 | h2
        · exact Or.inl h2
        · simp at h2; exact Or.inr (by simp [h2])
      · exact Or.inl h1
    · exact Or.inr (by simp [h1])

/-- every legend key of `ScaleKeys` is an `int64(…)` result, hence in the domain -/
theorem dom_scaleKeys (U : UnitLaws A Dom Unit le) (k : Scaler) (buckets mn mx : Int) (x : Int) (hx : x ∈ scaleKeys A k buckets mn mx) : Dom x := by
  unfold scaleKeys at hx
  simp only at hx
  rcases dedup_mem _ _ x hx with h | h
  · cases h
  · obtain ⟨i, _, rfl⟩ := List.mem_map.mp h
    exact U.dom_trunc _

theorem heat_writeRow_ok_u (U : UnitLaws A Dom Unit le) (env : Env) (h : Heatmap) (vt : VirtualTerm) (ho : vt.closed = false)
    (idx : Nat) (name : Bytes) (vals : List Int) (hd : ∀ v ∈ vals, Dom v) (hmn : Dom h.minVal) (hmx : Dom h.maxVal) :
    ∃ h' vt' pad cells, h.writeRow A env vt (idx : Int) name vals = .ok (h', vt') ∧ vt'.closed = false ∧
      h'.minVal = h.minVal ∧ h'.maxVal = h.maxVal ∧
      vt'.lines[2 + idx]? = some (wrap env cYellow name ++ writeRepeat 32 pad ++ List.flatten cells) ∧
      cells.length = vals.length ∧ (∀ cell ∈ cells, IsHeatCell env cell) ∧
      (∀ j x, j ≠ 2 + idx → vt.lines[j]? = some x → vt'.lines[j]? = some x) := by
  have key : ∀ h1 : Heatmap, h1 = (if strLen env name > h.maxRowKeyWidth then { h with maxRowKeyWidth := strLen env name } else h) →
      h.writeRow A env vt (idx : Int) name vals = (do
        let cells ← vals.mapM fun v => heatWrite A env (scale A h1.scaler v h1.minVal h1.maxVal)
        let vt' ← vt.writeForLine (2 + (idx : Int)) (wrap env cYellow name ++ writeRepeat 32 (h1.maxRowKeyWidth - strLen env name + 1) ++ cells.flatten)
        pure (h1, vt')) := by
    intro h1 e; subst e; rfl
  rw [key _ rfl]
  generalize hh1 : (if strLen env name > h.maxRowKeyWidth then { h with maxRowKeyWidth := strLen env name } else h) = h1
  have h1s : h1.minVal = h.minVal ∧ h1.maxVal = h.maxVal := by
    rw [← hh1]; split <;> exact ⟨rfl, rfl⟩
  obtain ⟨cells, hcells, hlen, hall⟩ := mapM_ok_all
    (fun v => heatWrite A env (scale A h1.scaler v h1.minVal h1.maxVal)) (IsHeatCell env) vals
    (by
      intro v hv
      rw [h1s.1, h1s.2]
      exact U.heatWrite_cell env (U.scale_unit _ (hd v hv) hmn hmx))
  have hcast : (2 : Int) + (idx : Int) = ((2 + idx : Nat) : Int) := by omega
  obtain ⟨vt', hw, ho', hline, hkeep⟩ := vt_write_ok vt ho (2 + idx)
    (wrap env cYellow name ++ writeRepeat 32 (h1.maxRowKeyWidth - strLen env name + 1) ++ cells.flatten)
  refine ⟨h1, vt', _, cells, ?_, ho', h1s.1, h1s.2, hline, hlen, hall, hkeep⟩
  simp only [hcells, bind, Except.bind, hcast, hw]
  rfl

/-- the body of the row loop of `Heatmap.WriteTable` -/
def heatRowStepU (A : Arith α) (env : Env) (rkeys : List Bytes) (c : Cells) (shownCols : List Nat)
    (st : Heatmap × VirtualTerm) (ri : Nat × Nat) : Res (Heatmap × VirtualTerm) :=
  st.1.writeRow A env st.2 ri.2 (keyAt rkeys ri.1) (shownCols.map (c.value ri.1))

theorem heat_rows_ok_u (U : UnitLaws A Dom Unit le) (env : Env) (rkeys : List Bytes) (c : Cells) (hc : DomCells Dom c) (shownCols : List Nat) :
    ∀ (l : List Nat) (b : Nat) (st : Heatmap × VirtualTerm), st.2.closed = false → Dom st.1.minVal → Dom st.1.maxVal →
    ∃ st', (l.zipIdx b).foldlM (heatRowStepU A env rkeys c shownCols) st = .ok st' ∧ st'.2.closed = false ∧
      (∀ (i : Nat) (r : Nat), l[i]? = some r → ∃ line, st'.2.lines[2 + (b + i)]? = some line ∧ IsHeatRow env (keyAt rkeys r) shownCols.length line) ∧
      (∀ j x, (j < 2 + b ∨ 2 + b + l.length ≤ j) → st.2.lines[j]? = some x → st'.2.lines[j]? = some x) := by
  intro l
  induction l with
  | nil =>
    intro b st ho _ _
    exact ⟨st, rfl, ho, by intro i r h; simp at h, fun j x _ h => h⟩
  | cons r l ih =>
    intro b st ho hmn hmx
    obtain ⟨h1, vt1, pad, cells, hw, ho1, e1, e2, hline, hlen, hall, hkeep⟩ :=
      heat_writeRow_ok_u U env st.1 st.2 ho b (keyAt rkeys r) (shownCols.map (c.value r))
        (by intro v hv; obtain ⟨k, _, rfl⟩ := List.mem_map.mp hv; exact dom_value U c hc r k) hmn hmx
    obtain ⟨st2, hf, ho2, hrows, hkeep2⟩ := ih (b + 1) (h1, vt1) ho1 (by rw [e1]; exact hmn) (by rw [e2]; exact hmx)
    refine ⟨st2, ?_, ho2, ?_, ?_⟩
    · rw [List.zipIdx_cons, List.foldlM_cons]
      show (do let s ← heatRowStepU A env rkeys c shownCols st (r, b); List.foldlM _ s _) = _
      unfold heatRowStepU
      rw [hw]
      exact hf
    · intro i r' hi
      cases i with
      | zero =>
        simp at hi; subst hi
        refine ⟨_, hkeep2 (2 + b) _ (Or.inl (by omega)) hline, pad, cells, rfl, by simpa using hlen, hall⟩
      | succ i =>
        obtain ⟨line, hl, hrow⟩ := hrows i r' (by simpa using hi)
        exact ⟨line, by rw [show 2 + (b + (i + 1)) = 2 + (b + 1 + i) by omega]; exact hl, hrow⟩
    · intro j x hj hx
      apply hkeep2 j x (by simp at hj ⊢; omega)
      exact hkeep j x (by simp at hj; omega) hx

theorem heat_writeRows_eq_u (env : Env) (h : Heatmap) (vt : VirtualTerm) (rkeys : List Bytes) (c : Cells) (shownCols rows : List Nat) :
    h.writeRows A env vt rkeys c shownCols rows = (rows.zipIdx 0).foldlM (heatRowStepU A env rkeys c shownCols) (h, vt) := rfl

theorem heat_updateMinMax_ok_u (U : UnitLaws A Dom Unit le) (env : Env) (h : Heatmap) (vt : VirtualTerm) (ho : vt.closed = false)
    (mn mx : Int) (hmn : Dom mn) (hmx : Dom mx) :
    ∃ vt', h.updateMinMax A env vt mn mx = .ok ({ h with minVal := mn, maxVal := mx }, vt') ∧ vt'.closed = false ∧
      (∀ j x, j ≠ 0 → vt.lines[j]? = some x → vt'.lines[j]? = some x) := by
  unfold Heatmap.updateMinMax
  obtain ⟨parts, hparts, _⟩ := mapM_ok
    (fun (x : Int × Nat) =>
      match x with
      | (item, idx) => do
        let cell ← heatWrite A env (scale A h.scaler item mn mx)
        (pure ((if idx > 0 then ascii "    " else []) ++ cell ++ [32] ++ h.fmt.apply item mn mx) : Res Bytes))
    (scaleKeys A h.scaler 6 mn mx).zipIdx
    (by
      intro x hx
      obtain ⟨item, idx⟩ := x
      -- every legend key is an `int64(…)` result
      have hitem : Dom item := by
        have hm : item ∈ scaleKeys A h.scaler 6 mn mx := by
          have := List.mem_zipIdx hx
          obtain ⟨_, _, e⟩ := this
          rw [e]; exact List.getElem_mem _
        exact dom_scaleKeys U h.scaler 6 mn mx item hm
      obtain ⟨cell, hcell, _⟩ := U.heatWrite_cell env (U.scale_unit h.scaler hitem hmn hmx)
      exact ⟨_, by simp only [hcell, bind, Except.bind]; rfl⟩)
  obtain ⟨vt', hw, ho', _, hkeep⟩ := vt_write_ok vt ho 0 (writeRepeat 32 (h.maxRowKeyWidth + 1) ++ parts.flatten)
  refine ⟨vt', ?_, ho', hkeep⟩
  simp only [bind, Except.bind] at hparts ⊢
  rw [hparts]
  simp only [Int.natCast_zero] at hw
  simp only [hw]
  rfl

theorem dom_range (U : UnitLaws A Dom Unit le) (h : Heatmap) (c : Cells) (hc : DomCells Dom c) (hmn : Dom h.minVal) (hmx : Dom h.maxVal) :
    Dom (h.range c).1 ∧ Dom (h.range c).2 := by
  obtain ⟨m1, m2⟩ := dom_minMax U c hc
  unfold Heatmap.range
  cases h1 : h.fixedMin <;> cases h2 : h.fixedMax <;> simp <;> (constructor <;> assumption)

/-- `Heatmap.WriteTable` on ANY aggregated state with cell values in the domain, for every float instance -/
theorem heat_writeTable_ok_u (U : UnitLaws A Dom Unit le) (env : Env) (h : Heatmap) (vt : VirtualTerm) (ho : vt.closed = false)
    (hrc : 0 ≤ h.rowCount) (hcc : 0 ≤ h.colCount) (rkeys ckeys : List Bytes) (c : Cells) (hc : DomCells Dom c) (hmn : Dom h.minVal) (hmx : Dom h.maxVal) :
    ∃ h' vt' hdr, h.writeTable A env vt rkeys ckeys c = .ok (h', vt') ∧ vt'.closed = false ∧
      (∀ (i : Nat) (r : Nat), (c.rows.take (mini c.rows.length h.rowCount).toNat)[i]? = some r →
        ∃ line, vt'.lines[2 + i]? = some line ∧ IsHeatRow env (keyAt rkeys r) (mini c.cols.length h.colCount).toNat line) ∧
      ((c.rows.length : Int) > mini c.rows.length h.rowCount →
        vt'.lines[2 + (mini c.rows.length h.rowCount).toNat]? =
          some (wrap env cBrightBlack (moreNote ((c.rows.length : Int) - mini c.rows.length h.rowCount))) ∧
        h'.currentRows = 3 + mini c.rows.length h.rowCount) ∧
      (¬ (c.rows.length : Int) > mini c.rows.length h.rowCount → h'.currentRows = 2 + mini c.rows.length h.rowCount) ∧
      vt'.lines[1]? = some hdr ∧
      (∃ body, hdr = (if mini (c.cols.length : Int) h.colCount < c.cols.length
        then body ++ wrap env cBrightBlack ([32] ++ moreNote ((c.cols.length : Int) - h.colCount)) else body)) := by
  have hr := dom_range U h c hc hmn hmx
  have hr1 := hr.1
  have hr2 := hr.2
  -- legend
  obtain ⟨vt1, hu, ho1, _⟩ := heat_updateMinMax_ok_u U env h vt ho (h.range c).1 (h.range c).2 hr1 hr2
  generalize hh1 : ({ h with minVal := (h.range c).1, maxVal := (h.range c).2 } : Heatmap) = h1 at hu
  have hrc1 : h1.rowCount = h.rowCount := by rw [← hh1]
  have hcc1 : h1.colCount = h.colCount := by rw [← hh1]
  -- header
  obtain ⟨r, hr⟩ := headerText_ok env h1 (c.cols.map (keyAt ckeys))
  have hcount := headerText_count env h1 _ r hr
  obtain ⟨body, hbody⟩ := headerText_note env h1 _ r hr
  simp only [List.length_map, hcc1] at hcount hbody
  obtain ⟨vt2, hw2, ho2, hline2, hkeep2⟩ := vt_write_ok vt1 ho1 1 r.1
  -- displayed columns
  have hc0 : 0 ≤ r.2 := by rw [hcount]; exact mini_nonneg (by omega) hcc
  have hc1 : r.2 ≤ c.cols.length := by rw [hcount]; exact mini_le_left _ _
  have hslice := sliceTo_ok c.cols r.2 hc0 hc1
  -- rows
  obtain ⟨st3, hf3, ho3, hrows3, hkeep3⟩ := heat_rows_ok_u U env rkeys c hc (c.cols.take r.2.toNat)
    (c.rows.take (mini c.rows.length h.rowCount).toNat) 0 (h1, vt2) ho2 (by rw [← hh1]; exact hr1) (by rw [← hh1]; exact hr2)
  have hnr0 : 0 ≤ mini (c.rows.length : Int) h.rowCount := mini_nonneg (by omega) hrc
  have hnr1 := mini_le_left (c.rows.length : Int) h.rowCount
  have htl : (c.rows.take (mini (c.rows.length : Int) h.rowCount).toNat).length = (mini (c.rows.length : Int) h.rowCount).toNat := by
    rw [List.length_take]; omega
  have hncols : (c.cols.take r.2.toNat).length = (mini (c.cols.length : Int) h.colCount).toNat := by
    rw [List.length_take, hcount]; omega
  have hmain : h.writeTable A env vt rkeys ckeys c =
      st3.1.writeRowsNote env st3.2 c.rows.length (mini c.rows.length h.rowCount) := by
    unfold Heatmap.writeTable
    simp only [hu, bind, Except.bind, hr]
    have : (1 : Int) = ((1 : Nat) : Int) := rfl
    rw [this, hw2]
    simp only [hslice, hrc1, heat_writeRows_eq_u, hf3]
  rw [hmain]
  unfold Heatmap.writeRowsNote
  have hrow : ∀ (i : Nat) (r' : Nat), (c.rows.take (mini (c.rows.length : Int) h.rowCount).toNat)[i]? = some r' →
      ∃ line, st3.2.lines[2 + i]? = some line ∧ IsHeatRow env (keyAt rkeys r') (mini (c.cols.length : Int) h.colCount).toNat line := by
    intro i r' hi
    obtain ⟨line, hl, hrow⟩ := hrows3 i r' hi
    rw [hncols] at hrow
    exact ⟨line, by simpa using hl, hrow⟩
  have hhdr : st3.2.lines[1]? = some r.1 := hkeep3 1 _ (Or.inl (by omega)) hline2
  by_cases hmore : (c.rows.length : Int) > mini c.rows.length h.rowCount
  · rw [if_pos hmore]
    have hcast : (2 : Int) + mini (c.rows.length : Int) h.rowCount = ((2 + (mini (c.rows.length : Int) h.rowCount).toNat : Nat) : Int) := by omega
    obtain ⟨vt4, hw4, ho4, hline4, hkeep4⟩ := vt_write_ok st3.2 ho3 (2 + (mini (c.rows.length : Int) h.rowCount).toNat)
      (wrap env cBrightBlack (moreNote ((c.rows.length : Int) - mini c.rows.length h.rowCount)))
    refine ⟨_, vt4, r.1, by rw [hcast, hw4]; rfl, ho4, ?_, fun _ => ⟨hline4, rfl⟩, fun hn => absurd hmore hn, ?_, body, hbody⟩
    · intro i r' hi
      obtain ⟨line, hl, hrow⟩ := hrow i r' hi
      have hil : i < (mini (c.rows.length : Int) h.rowCount).toNat := by
        rcases Nat.lt_or_ge i (c.rows.take (mini (c.rows.length : Int) h.rowCount).toNat).length with hh | hh
        · rw [htl] at hh; exact hh
        · rw [List.getElem?_eq_none hh] at hi; cases hi
      exact ⟨line, hkeep4 _ _ (by omega) hl, hrow⟩
    · exact hkeep4 1 _ (by omega) hhdr
  · rw [if_neg hmore]
    exact ⟨_, st3.2, r.1, rfl, ho3, hrow, fun hm => absurd hm hmore, fun _ => rfl, hhdr, body, hbody⟩


/-! ### sparkline -/

theorem sparkCells_ok_u (U : UnitLaws A Dom Unit le) (env : Env) (k : Scaler) (vals : List Int) (min max : Int)
    (hd : ∀ v ∈ vals, Dom v) (hmn : Dom min) (hmx : Dom max) :
    ∃ cells, sparkCells A env k vals min max = .ok cells ∧ cells.length = vals.length ∧ ∀ c ∈ cells, IsSparkGlyph c := by
  unfold sparkCells
  apply mapM_ok_all
  intro v hv
  exact U.sparkWrite_glyph env (U.scale_unit k (hd v hv) hmn hmx)

theorem spark_rowCells_ok_u (U : UnitLaws A Dom Unit le) (env : Env) (s : Spark) (rkeys : List Bytes) (c : Cells) (hc : DomCells Dom c)
    (colIdx : List Nat) (r : Nat) :
    ∃ row, s.rowCells A env rkeys c colIdx c.minMax.1 c.minMax.2 r = .ok row ∧ IsSparkRow env s rkeys c colIdx r row := by
  unfold Spark.rowCells
  obtain ⟨cells, hc, hlen, hall⟩ := sparkCells_ok_u U env s.scaler (colIdx.map (c.value r)) c.minMax.1 c.minMax.2
    (by intro v hv; obtain ⟨k, _, rfl⟩ := List.mem_map.mp hv; exact dom_value U c hc r k) (dom_minMax U c hc).1 (dom_minMax U c hc).2
  simp only [hc, bind, Except.bind, pure, Except.pure]
  refine ⟨_, rfl, cells, _, _, rfl, by simpa using hlen, hall, ?_⟩
  intro f l hf hl
  simp [hf, hl]

/-- `Spark.WriteTable` on ANY aggregated state, any scale, colour/unicode on or off, limits ≥ 0: it returns,
the table invariant holds (columns line up), every displayed row has exactly one glyph per DISPLAYED
column (`min(#columns, colCount)`, none for 0) and the first/last values under the formatter, and the
rows note counts exactly the rows not shown -/
theorem spark_writeTable_ok_u (U : UnitLaws A Dom Unit le) (env : Env) (s : Spark) (vt : VirtualTerm)
    (hinv : TableInv env s.table vt) (hrc : 0 ≤ s.rowCount) (hcc : 0 ≤ s.colCount) (hmr : s.table.maxRows = s.rowCount + 1)
    (rkeys ckeys : List Bytes) (c : Cells) (hc : DomCells Dom c) :
    ∃ s' vt' colIdx, s.writeTable A env vt rkeys ckeys c = .ok (s', vt') ∧ TableInv env s'.table vt' ∧
      s.shownCols c = .ok colIdx ∧ (colIdx.length : Int) = mini c.cols.length s.colCount ∧
      (∀ (i : Nat) (r : Nat), (s.shownRows c)[i]? = some r →
        ∃ row, s'.table.rows[i + 1]? = some row ∧ IsSparkRow env s rkeys c colIdx r row) ∧
      ((c.rows.length : Int) > mini c.rows.length s.rowCount →
        s'.footerOffset = 1 ∧ vt'.lines[s'.table.activeRows.toNat]? =
          some (wrap env cBrightBlack (moreNote ((c.rows.length : Int) - mini c.rows.length s.rowCount)))) ∧
      (¬ (c.rows.length : Int) > mini c.rows.length s.rowCount → s'.footerOffset = 0) := by
  obtain ⟨colIdx, hcols, hncols⟩ := spark_shownCols_ok s hcc c
  -- a total version of the row cells
  let g : Nat → List Bytes := fun r =>
    match s.rowCells A env rkeys c colIdx c.minMax.1 c.minMax.2 r with
    | .ok row => row
    | .error _ => []
  have hg : ∀ r, s.rowCells A env rkeys c colIdx c.minMax.1 c.minMax.2 r = .ok (g r) ∧ IsSparkRow env s rkeys c colIdx r (g r) := by
    intro r
    obtain ⟨row, hrow, hsr⟩ := spark_rowCells_ok_u U env s rkeys c hc colIdx r
    have : g r = row := by show (match s.rowCells _ env rkeys c colIdx c.minMax.1 c.minMax.2 r with | .ok row => row | .error _ => []) = row; rw [hrow]
    rw [this]; exact ⟨hrow, hsr⟩
  let hdr : List TableOp := Spark.headerOps env (colIdx.map (keyAt ckeys))
  let rowOps : List TableOp := (s.shownRows c).zipIdx.map fun (ri : Nat × Nat) => TableOp.row ((ri.2 : Int) + 1) (g ri.1)
  have hrowOps : (s.shownRows c).zipIdx.mapM (s.rowOp A env rkeys c colIdx) = .ok rowOps := by
    apply mapM_eq_map
    intro x _
    unfold Spark.rowOp
    rw [(hg x.1).1]; rfl
  have hscript : s.script A env rkeys ckeys c = .ok (hdr ++ rowOps ++ (s.noteOps env c).1, (s.noteOps env c).2) := by
    unfold Spark.script
    rw [hcols]
    show (do let rowOps ← (s.shownRows c).zipIdx.mapM (s.rowOp A env rkeys c colIdx)
             (pure (Spark.headerOps env (colIdx.map (keyAt ckeys)) ++ rowOps ++ (s.noteOps env c).1, (s.noteOps env c).2) : Res (List TableOp × Int))) = _
    rw [hrowOps]; rfl
  have hnr0 : 0 ≤ mini (c.rows.length : Int) s.rowCount := mini_nonneg (by omega) hrc
  have hnr1 := mini_le_left (c.rows.length : Int) s.rowCount
  have hshl : ((s.shownRows c).length : Int) = mini c.rows.length s.rowCount := by
    unfold Spark.shownRows; rw [List.length_take]; omega
  have hnn1 : ∀ op ∈ hdr ++ rowOps, op.NonNeg := by
    intro op hop
    rcases List.mem_append.mp hop with hop | hop
    · show op.NonNeg
      have : op ∈ (if (colIdx.map (keyAt ckeys)).length > 0 then [TableOp.row 0 (Spark.headerCells env (colIdx.map (keyAt ckeys)))] else []) := hop
      split at this
      · simp only [List.mem_singleton] at this; subst this; exact Int.le_refl 0
      · simp at this
    · exact rowOps_nonneg g _ 0 op hop
  obtain ⟨t1, vt1, hrun1, hinv1, _, hmr1, _, _, hrows1⟩ := runOps_inv env (hdr ++ rowOps) s.table vt hinv hnn1
  have hrl := hinv.rows_len
  have hrowsAt : ∀ (i : Nat) (r : Nat), (s.shownRows c)[i]? = some r → t1.rows[i + 1]? = some (g r) := by
    intro i r hi
    have hil : i < (s.shownRows c).length := by
      rcases Nat.lt_or_ge i (s.shownRows c).length with hh | hh
      · exact hh
      · rw [List.getElem?_eq_none hh] at hi; cases hi
    have hle := mini_le_right (c.rows.length : Int) s.rowCount
    rw [hrows1, rowsAfter_get s.table.maxRows (i + 1) (by omega) _ s.table.rows (by omega) hnn1]
    congr 1
    rw [latestRow_append]
    have h2' := latestRow_seq g (s.shownRows c) 0 i r hi
    rw [show 0 + i + 1 = i + 1 by omega] at h2'
    show ((latestRow rowOps (i + 1)).orElse fun _ => latestRow hdr (i + 1)).getD _ = _
    rw [h2']; rfl
  have hwt : s.writeTable A env vt rkeys ckeys c = (do
      let r ← TableWriter.runOps env (t1, vt1) (s.noteOps env c).1
      (pure ({ s with table := r.1, footerOffset := (s.noteOps env c).2 }, r.2) : Res (Spark × VirtualTerm))) := by
    unfold Spark.writeTable
    rw [hscript]
    show (do let r ← TableWriter.runOps env (s.table, vt) (hdr ++ rowOps ++ (s.noteOps env c).1)
             (pure ({ s with table := r.1, footerOffset := (s.noteOps env c).2 }, r.2) : Res (Spark × VirtualTerm))) = _
    rw [runOps_append, hrun1]; rfl
  rw [hwt]
  by_cases hmore : (c.rows.length : Int) > mini c.rows.length s.rowCount
  · -- with the note
    have hnote : s.noteOps env c = ([TableOp.footer 0 (wrap env cBrightBlack (moreNote ((c.rows.length : Int) - mini c.rows.length s.rowCount)))], 1) := by
      unfold Spark.noteOps; simp only; rw [if_pos hmore]
    obtain ⟨vt2, hw2, hinv2, hline2⟩ := writeFooter_inv env t1 vt1 hinv1 0
      (wrap env cBrightBlack (moreNote ((c.rows.length : Int) - mini c.rows.length s.rowCount)))
    refine ⟨{ s with table := t1, footerOffset := 1 }, vt2, colIdx, ?_, hinv2, hcols, hncols, ?_, fun _ => ⟨rfl, by simpa using hline2⟩, fun hn => absurd hmore hn⟩
    · rw [hnote]
      unfold TableWriter.runOps
      rw [foldlM_singleton]
      show (do let r ← (do let v ← t1.writeFooter vt1 0 _; (pure (t1, v) : Res (TableWriter × VirtualTerm)))
               (pure ({ s with table := r.1, footerOffset := 1 }, r.2) : Res (Spark × VirtualTerm))) = _
      simp only [Int.natCast_zero] at hw2
      rw [hw2]; rfl
    · intro i r hi
      exact ⟨g r, hrowsAt i r hi, (hg r).2⟩
  · have hnote : s.noteOps env c = ([], 0) := by
      unfold Spark.noteOps; simp only; rw [if_neg hmore]
    refine ⟨{ s with table := t1, footerOffset := 0 }, vt1, colIdx, ?_, hinv1, hcols, hncols, ?_, fun hm => absurd hm hmore, fun _ => rfl⟩
    · rw [hnote]; rfl
    · intro i r hi
      exact ⟨g r, hrowsAt i r hi, (hg r).2⟩


end
end Rare.C14
