import Rare.Model.C12
/-! The `IntPool` memory model: invariants, frame lemmas, disjointness of handed-out slices. -/
namespace Rare.C12

/-- two slices share no cell -/
def View.Disjoint (v w : View) : Prop :=
  v.arr ≠ w.arr ∨ v.start + v.len ≤ w.start ∨ w.start + w.len ≤ v.start

theorem View.Disjoint.symm {v w : View} (h : v.Disjoint w) : w.Disjoint v := by
  unfold View.Disjoint at *; omega

structure Pool.WF (p : Pool) : Prop where
  cur_lt : p.cur < p.heap.length
  lens : ∀ a ∈ p.heap, a.length = p.size
  off_le : p.off ≤ p.size

/-- the slice lies inside an allocated array -/
def Pool.Valid (p : Pool) (v : View) : Prop := v.arr < p.heap.length ∧ v.start + v.len ≤ p.size

/-- the slice lies behind the allocation frontier (everything `Get` handed out so far does) -/
def Pool.Behind (p : Pool) (v : View) : Prop :=
  p.Valid v ∧ (v.arr < p.cur ∨ (v.arr = p.cur ∧ v.start + v.len ≤ p.off))

def Pool.cell (p : Pool) (a i : Nat) : Option Int := (p.heap.getD a [])[i]?

theorem Pool.read_getElem? (p : Pool) (v : View) (k : Nat) :
    (p.read v)[k]? = if k < v.len then p.cell v.arr (v.start + k) else none := by
  simp only [Pool.read, Pool.cell, List.getElem?_take, List.getElem?_drop]

theorem Pool.WF.cell_isSome {p : Pool} (h : p.WF) {a i : Nat} (ha : a < p.heap.length) (hi : i < p.size) :
    ∃ x, p.cell a i = some x := by
  have hl : (p.heap.getD a []).length = p.size := by
    apply h.lens
    rw [List.getD_eq_getElem?_getD, List.getElem?_eq_getElem ha]
    simp
  refine ⟨(p.heap.getD a [])[i]'(by omega), ?_⟩
  simp only [Pool.cell]
  rw [List.getElem?_eq_getElem]

theorem Pool.read_length {p : Pool} (h : p.WF) {v : View} (hv : p.Valid v) : (p.read v).length = v.len := by
  have hl : (p.heap.getD v.arr []).length = p.size := by
    apply h.lens
    rw [List.getD_eq_getElem?_getD, List.getElem?_eq_getElem hv.1]
    simp
  simp only [Pool.read, List.length_take, List.length_drop, hl]
  have := hv.2; omega

theorem Pool.new_wf (size : Nat) : (Pool.new size).WF :=
  ⟨by simp [Pool.new], by simp [Pool.new], by simp [Pool.new]⟩

/-! ### write -/

theorem Pool.write_ok {p p' : Pool} {v : View} {i : Nat} {x : Int} (h : p.write v i x = .ok p') :
    i < v.len ∧ p' = { p with heap := p.heap.modify v.arr (fun a => a.set (v.start + i) x) } := by
  simp only [Pool.write] at h
  split at h
  · cases h; exact ⟨by assumption, rfl⟩
  · cases h

theorem Pool.write_succeeds (p : Pool) {v : View} {i : Nat} (x : Int) (hi : i < v.len) :
    ∃ p', p.write v i x = .ok p' := by
  simp [Pool.write, hi]

theorem Pool.write_cell {p p' : Pool} {v : View} {i : Nat} {x : Int} (h : p.write v i x = .ok p')
    (a j : Nat) :
    p'.cell a j = if a = v.arr ∧ j = v.start + i then (p.cell a j).map (fun _ => x) else p.cell a j := by
  obtain ⟨_, rfl⟩ := Pool.write_ok h
  simp only [Pool.cell, List.getD_eq_getElem?_getD, List.getElem?_modify]
  by_cases ha : v.arr = a
  · subst ha
    cases hh : p.heap[v.arr]? with
    | none => simp
    | some arr =>
      simp only [if_true, Option.map_eq_map, Option.map_some, Option.getD_some, true_and]
      by_cases hj : v.start + i = j
      · subst hj
        rw [List.getElem?_set]
        by_cases hlt : v.start + i < arr.length
        · simp [hlt]
        · simp [hlt]
      · have : ¬ j = v.start + i := fun e => hj e.symm
        simp [hj, this]
  · have : ¬ a = v.arr := fun e => ha e.symm
    simp [ha, this]

theorem Pool.write_wf {p p' : Pool} {v : View} {i : Nat} {x : Int} (h : p.write v i x = .ok p')
    (hw : p.WF) : p'.WF ∧ p'.size = p.size ∧ p'.cur = p.cur ∧ p'.off = p.off ∧ p'.heap.length = p.heap.length := by
  obtain ⟨_, rfl⟩ := Pool.write_ok h
  refine ⟨⟨by simpa using hw.cur_lt, ?_, hw.off_le⟩, rfl, rfl, rfl, by simp⟩
  intro a ha
  simp only at ha
  rw [List.mem_iff_getElem?] at ha
  obtain ⟨k, hk⟩ := ha
  rw [List.getElem?_modify] at hk
  split at hk
  · cases hh : p.heap[k]? with
    | none => simp [hh] at hk
    | some b =>
      simp [hh] at hk; subst hk
      simp; exact hw.lens b (List.mem_of_getElem? hh)
  · simp at hk; exact hw.lens a (List.mem_of_getElem? hk)

/-- a write through `v` changes no slice disjoint from `v` -/
theorem Pool.write_read_other {p p' : Pool} {v w : View} {i : Nat} {x : Int}
    (h : p.write v i x = .ok p') (hd : v.Disjoint w) : p'.read w = p.read w := by
  have hi := (Pool.write_ok h).1
  apply List.ext_getElem?
  intro k
  rw [Pool.read_getElem?, Pool.read_getElem?]
  split
  · rw [Pool.write_cell h]
    split
    · rename_i hk hc
      unfold View.Disjoint at hd; omega
    · rfl
  · rfl

/-- a write through `v` at `i` is `set i` on what `v` reads -/
theorem Pool.write_read_self {p p' : Pool} {v : View} {i : Nat} {x : Int}
    (h : p.write v i x = .ok p') (hw : p.WF) (hv : p.Valid v) (k : Nat) :
    (p'.read v)[k]? = if k = i then some x else (p.read v)[k]? := by
  have hi := (Pool.write_ok h).1
  rw [Pool.read_getElem?, Pool.read_getElem?, Pool.write_cell h]
  by_cases hk : k = i
  · subst hk
    obtain ⟨y, hy⟩ := hw.cell_isSome hv.1 (i := v.start + k) (by have := hv.2; omega)
    simp [hi, hy]
  · have : ¬ v.start + k = v.start + i := by omega
    simp [hk]

/-! ### Get -/

theorem Pool.get_spec {p p' : Pool} {v : View} {n : Nat} (h : p.get n = .ok (v, p')) (hw : p.WF) :
    p'.WF ∧ p'.size = p.size ∧ v.len = n ∧ p'.Behind v ∧
    (∀ w, p.Behind w → p'.Behind w ∧ w.Disjoint v ∧ p'.read w = p.read w) := by
  simp only [Pool.get] at h
  split at h
  · split at h
    · cases h
    · rename_i hrem hsz
      cases h
      refine ⟨⟨by simp, ?_, by simpa using Nat.le_of_not_gt hsz⟩, rfl, rfl, ?_, ?_⟩
      · intro a ha
        simp only [List.mem_append, List.mem_singleton] at ha
        rcases ha with ha | rfl
        · exact hw.lens a ha
        · simp
      · refine ⟨⟨by simp, by simpa using Nat.le_of_not_gt hsz⟩, Or.inr ⟨rfl, by simp⟩⟩
      · intro w hb
        have hlt : w.arr < p.heap.length := hb.1.1
        refine ⟨⟨⟨by simp; omega, hb.1.2⟩, Or.inl (by simpa using hlt)⟩, Or.inl (by simp; omega), ?_⟩
        simp only [Pool.read, List.getD_eq_getElem?_getD]
        rw [List.getElem?_append_left hlt]
  · rename_i hrem
    cases h
    have hcl : (p.heap.getD p.cur []).length = p.size := by
      apply hw.lens
      rw [List.getD_eq_getElem?_getD, List.getElem?_eq_getElem hw.cur_lt]
      simp
    simp only [Pool.remaining, hcl] at hrem
    have hoff := hw.off_le
    refine ⟨⟨hw.cur_lt, hw.lens, by simp; omega⟩, rfl, rfl, ?_, ?_⟩
    · exact ⟨⟨hw.cur_lt, by simp; omega⟩, Or.inr ⟨rfl, by simp⟩⟩
    · intro w hb
      refine ⟨⟨hb.1, ?_⟩, ?_, rfl⟩
      · rcases hb.2 with h1 | h1
        · exact Or.inl h1
        · exact Or.inr ⟨h1.1, by simp; omega⟩
      · unfold View.Disjoint
        rcases hb.2 with h1 | h1
        · left; simp; omega
        · right; left; simp; omega

/-! ### any sequence of `Get` calls -/

/-- a sequence of `Get(n₁), Get(n₂), …` on one pool -/
def getMany : Pool → List Nat → Except String (List View × Pool)
  | p, [] => .ok ([], p)
  | p, n :: ns =>
    match p.get n with
    | .error e => .error e
    | .ok (v, p') =>
      match getMany p' ns with
      | .error e => .error e
      | .ok (vs, p'') => .ok (v :: vs, p'')

theorem getMany_spec : ∀ (ns : List Nat) (p : Pool), p.WF → ∀ vs p', getMany p ns = .ok (vs, p') →
    p'.WF ∧ p'.size = p.size ∧ (∀ w, p.Behind w → p'.Behind w) ∧ (∀ v ∈ vs, p'.Behind v) ∧
    (∀ w, p.Behind w → ∀ v ∈ vs, w.Disjoint v) ∧ vs.Pairwise View.Disjoint ∧ vs.map (·.len) = ns := by
  intro ns
  induction ns with
  | nil =>
    intro p hw vs p' h
    simp only [getMany] at h; cases h
    exact ⟨hw, rfl, fun _ h => h, by simp, by simp, by simp, rfl⟩
  | cons n ns ih =>
    intro p hw vs p' h
    simp only [getMany] at h
    cases hg : p.get n with
    | error e => rw [hg] at h; cases h
    | ok r =>
      obtain ⟨v, p1⟩ := r
      rw [hg] at h
      simp only [] at h
      cases hm : getMany p1 ns with
      | error e => rw [hm] at h; cases h
      | ok r2 =>
        obtain ⟨vs1, p2⟩ := r2
        rw [hm] at h
        simp only [Except.ok.injEq, Prod.mk.injEq] at h
        obtain ⟨rfl, rfl⟩ := h
        obtain ⟨wf1, sz1, hlen, hbv, hkeep⟩ := Pool.get_spec hg hw
        obtain ⟨wf2, sz2, hmono, hbeh, hdis, hpw, hlens⟩ := ih p1 wf1 vs1 p2 hm
        refine ⟨wf2, sz2.trans sz1, fun w hb => hmono w (hkeep w hb).1, ?_, ?_, ?_, by simp [hlen, hlens]⟩
        · intro x hx
          simp only [List.mem_cons] at hx
          rcases hx with rfl | hx
          · exact hmono _ hbv
          · exact hbeh x hx
        · intro w hb x hx
          simp only [List.mem_cons] at hx
          rcases hx with rfl | hx
          · exact (hkeep w hb).2.1
          · exact hdis w (hkeep w hb).1 x hx
        · exact List.pairwise_cons.mpr ⟨fun x hx => hdis v hbv x hx, hpw⟩

theorem getMany_succeeds : ∀ (ns : List Nat) (p : Pool), (∀ n ∈ ns, n ≤ p.size) →
    ∃ vs p', getMany p ns = .ok (vs, p') ∧ p'.size = p.size := by
  intro ns
  induction ns with
  | nil => intro p _; exact ⟨[], p, rfl, rfl⟩
  | cons n ns ih =>
    intro p hn
    have hle : n ≤ p.size := hn n (by simp)
    have : ∃ v p1, p.get n = .ok (v, p1) ∧ p1.size = p.size := by
      unfold Pool.get
      split
      · have : ¬ n > p.size := by omega
        simp only [this, if_false]; exact ⟨_, _, rfl, rfl⟩
      · exact ⟨_, _, rfl, rfl⟩
    obtain ⟨v, p1, hg, hs⟩ := this
    obtain ⟨vs, p2, hm, hs2⟩ := ih p1 (fun m hm => by rw [hs]; exact hn m (by simp [hm]))
    exact ⟨v :: vs, p2, by simp [getMany, hg, hm], hs2.trans hs⟩

end Rare.C12
