import Rare.Model.C14F64
import Rare.Proofs.F64Arith
import Rare.Proofs.C14Scale
/-!
# C14: the scalers on IEEE-754 binary64

`Scale`, `Bucket`, `LengthVal` of `pkg/multiterm/termscaler/scale.go` with the `float64` operations
instantiated by the software binary64 model (`f64Arith`, `Rare/Model/C14F64.lean`): every conversion,
subtraction, division and multiplication rounds to nearest even, exactly as the Go code computes.

* `round_between`, `round_mono`: a rounded value stays between the floats that bracket the exact value;
* `scaleCore_unit/_mono`: the guard and the quotient `(x - minf) / (maxf - minf)` of two ROUNDED differences
  is a finite float in `[0,1]`, monotone in `x` – `minf`, `maxf` are integer-valued floats (`math.Floor/Ceil`),
  so a passed guard means `maxf - minf ≥ 1`, both differences are finite and the quotient of the rounded
  values is again between the floats 0 and 1;
* `scale_f64_unit`, `scale_f64_mono`: for EVERY int64 triple and every scaler (logarithms: `LogLikeF64`);
* `trunc_mul_f64(_mono)`: `int(u * float64(n))` for a unit float and `0 ≤ n ≤ 2^53`.
-/
namespace Rare.C14
open Rare Rare.F64

/-- `2^64` and `2^63` are floats -/
def f2p64 : F64 := ⟨0x43F0000000000000, by decide⟩
def f2p63 : F64 := ⟨0x43E0000000000000, by decide⟩

theorem rep_2p64 : Rep (18446744073709551616 : Rat) :=
  ⟨f2p64, by decide, by decide +kernel⟩

theorem rep_2p63 : Rep (9223372036854775808 : Rat) :=
  ⟨f2p63, by decide, by decide +kernel⟩

theorem rep_one : Rep (1 : Rat) := ⟨F64.one, by decide, by decide +kernel⟩

theorem ofInt_one : F64.ofInt 1 = F64.one := by decide +kernel
theorem ofInt_zero : F64.ofInt 0 = F64.zero false := by decide +kernel

/-- a float between two finite floats (in the IEEE order) is finite -/
theorem finite_of_between {z x y : F64} (hz : z.isFinite = true) (hy : y.isFinite = true)
    (h1 : le z x = true) (h2 : le x y = true) : x.isFinite = true := by
  unfold le at h1 h2
  simp only [Bool.and_eq_true, Bool.not_eq_true', decide_eq_true_eq] at h1 h2
  obtain ⟨⟨_, _⟩, k1⟩ := h1
  obtain ⟨⟨_, _⟩, k2⟩ := h2
  rw [isFinite_iff] at *
  unfold key at k1 k2
  have := mag_lt x
  cases hxs : x.sign <;> cases hys : y.sign <;> cases hzs : z.sign <;> simp only [hxs, hys, hzs, if_true, Bool.false_eq_true, if_false] at k1 k2 <;> omega

/-- rounding a value between two floats gives a finite float between them -/
theorem round_between {lo hi q : Rat} (hlo : Rep lo) (hhi : Rep hi) (h1 : lo ≤ q) (h2 : q ≤ hi) (s : Bool) :
    (ofRatS s q).isFinite = true ∧ lo ≤ (ofRatS s q).toRat ∧ (ofRatS s q).toRat ≤ hi := by
  obtain ⟨fl, vl⟩ := ofRatS_rep false hlo
  obtain ⟨fh, vh⟩ := ofRatS_rep false hhi
  have l1 := ofRatS_le_ofRatS false s h1
  have l2 := ofRatS_le_ofRatS s false h2
  have hf := finite_of_between fl fh l1 l2
  refine ⟨hf, ?_, ?_⟩
  · have := (le_iff_toRat_le fl hf).mp l1; rwa [vl] at this
  · have := (le_iff_toRat_le hf fh).mp l2; rwa [vh] at this

/-- rounding is monotone on the values -/
theorem round_mono {q₁ q₂ : Rat} (h : q₁ ≤ q₂) (s₁ s₂ : Bool) (f1 : (ofRatS s₁ q₁).isFinite = true) (f2 : (ofRatS s₂ q₂).isFinite = true) :
    (ofRatS s₁ q₁).toRat ≤ (ofRatS s₂ q₂).toRat :=
  (le_iff_toRat_le f1 f2).mp (ofRatS_le_ofRatS s₁ s₂ h)

/-! ### the last step of `Scale`: guard, then the quotient of two rounded differences -/

/-- `if minf >= maxf { return 0 }; return (x - minf) / (maxf - minf)` -/
def scaleCore (X A B : F64) : F64 := if F64.le B A then F64.ofInt 0 else F64.div (F64.sub X A) (F64.sub B A)

theorem ofInt_zero_props : (F64.ofInt 0).isFinite = true ∧ (F64.ofInt 0).toRat = 0 := by
  have := isFinite_ofInt 0 (by decide)
  simpa using this

theorem rat_unit_div {n d : Rat} (h0 : 0 ≤ n) (h1 : n ≤ d) (hd : 0 < d) : 0 ≤ n / d ∧ n / d ≤ 1 := by
  constructor
  · have := div_le_div_right_pos (a := 0) (b := n) (c := d) h0 hd
    rwa [zero_div'] at this
  · have := div_le_div_right_pos (a := n) (b := d) (c := d) h1 hd
    rwa [div_self_pos hd] at this

/-- what the two differences and the quotient are when the guard passes -/
theorem scaleCore_parts {X A B : F64} (hX : X.isFinite = true) (hA : A.isFinite = true) (hB : B.isFinite = true)
    {a b : Int} (ha : A.toRat = (a : Rat)) (hb : B.toRat = (b : Rat))
    (h1 : A.toRat ≤ X.toRat) (h2 : X.toRat ≤ B.toRat) (hlt : A.toRat < B.toRat)
    {hi : Rat} (hhi : Rep hi) (hbd : B.toRat - A.toRat ≤ hi) :
    (F64.sub X A).isFinite = true ∧ (F64.sub B A).isFinite = true ∧ 0 ≤ (F64.sub X A).toRat ∧
      (F64.sub X A).toRat ≤ (F64.sub B A).toRat ∧ 1 ≤ (F64.sub B A).toRat ∧ (F64.sub B A).mag ≠ 0 := by
  have hab : (1 : Rat) ≤ B.toRat - A.toRat := by
    rw [ha, hb] at hlt ⊢
    have : a + 1 ≤ b := Rat.intCast_lt_intCast.mp hlt
    have : ((a + 1 : Int) : Rat) ≤ (b : Rat) := Rat.intCast_le_intCast.mpr this
    rw [Rat.intCast_add] at this
    simp at this; grind
  rw [sub_finite hX hA, sub_finite hB hA]
  obtain ⟨fd, d1, _⟩ := round_between rep_one hhi hab hbd (B.sign && !A.sign)
  obtain ⟨fn, n0, _⟩ := round_between rep_zero hhi (show (0 : Rat) ≤ X.toRat - A.toRat by grind)
    (show X.toRat - A.toRat ≤ hi by grind) (X.sign && !A.sign)
  have hnd := round_mono (show X.toRat - A.toRat ≤ B.toRat - A.toRat by grind) (X.sign && !A.sign) (B.sign && !A.sign) fn fd
  refine ⟨fn, fd, n0, hnd, d1, ?_⟩
  intro h0
  rw [toRat_eq_zero_of_mag h0] at d1
  exact absurd d1 (by decide)

/-- the result of the last step is a finite float in `[0,1]` -/
theorem scaleCore_unit {X A B : F64} (hX : X.isFinite = true) (hA : A.isFinite = true) (hB : B.isFinite = true)
    {a b : Int} (ha : A.toRat = (a : Rat)) (hb : B.toRat = (b : Rat))
    (h1 : A.toRat ≤ X.toRat) (h2 : A.toRat < B.toRat → X.toRat ≤ B.toRat)
    {hi : Rat} (hhi : Rep hi) (hbd : B.toRat - A.toRat ≤ hi) :
    (scaleCore X A B).isFinite = true ∧ 0 ≤ (scaleCore X A B).toRat ∧ (scaleCore X A B).toRat ≤ 1 := by
  unfold scaleCore
  by_cases hg : F64.le B A = true
  · rw [if_pos hg]
    obtain ⟨f, v⟩ := ofInt_zero_props
    rw [v]; exact ⟨f, Rat.le_refl, by decide⟩
  · rw [if_neg hg]
    have hlt : A.toRat < B.toRat := by
      have : ¬ B.toRat ≤ A.toRat := fun h => hg ((le_iff_toRat_le hB hA).mpr h)
      grind
    obtain ⟨fn, fd, n0, nd, d1, dm⟩ := scaleCore_parts hX hA hB ha hb h1 (h2 hlt) hlt hhi hbd
    rw [div_finite fn fd dm]
    obtain ⟨q0, q1⟩ := rat_unit_div n0 nd (show (0 : Rat) < (F64.sub B A).toRat by grind)
    exact round_between rep_zero rep_one q0 q1 _

/-- the last step is monotone in the mapped value -/
theorem scaleCore_mono {X X' A B : F64} (hX : X.isFinite = true) (hX' : X'.isFinite = true) (hA : A.isFinite = true) (hB : B.isFinite = true)
    {a b : Int} (ha : A.toRat = (a : Rat)) (hb : B.toRat = (b : Rat))
    (h1 : A.toRat ≤ X.toRat) (hxx : X.toRat ≤ X'.toRat) (h2 : A.toRat < B.toRat → X'.toRat ≤ B.toRat)
    {hi : Rat} (hhi : Rep hi) (hbd : B.toRat - A.toRat ≤ hi) :
    (scaleCore X A B).toRat ≤ (scaleCore X' A B).toRat := by
  unfold scaleCore
  by_cases hg : F64.le B A = true
  · rw [if_pos hg, if_pos hg]; exact Rat.le_refl
  · rw [if_neg hg, if_neg hg]
    have hlt : A.toRat < B.toRat := by
      have : ¬ B.toRat ≤ A.toRat := fun h => hg ((le_iff_toRat_le hB hA).mpr h)
      grind
    have h2' := h2 hlt
    obtain ⟨fn, fd, n0, nd, d1, dm⟩ := scaleCore_parts hX hA hB ha hb h1 (by grind) hlt hhi hbd
    obtain ⟨fn', _, n0', nd', _, _⟩ := scaleCore_parts hX' hA hB ha hb (by grind) h2' hlt hhi hbd
    rw [div_finite fn fd dm, div_finite fn' fd dm]
    have hd : (0 : Rat) < (F64.sub B A).toRat := by grind
    obtain ⟨q0, q1⟩ := rat_unit_div n0 nd hd
    obtain ⟨q0', q1'⟩ := rat_unit_div n0' nd' hd
    obtain ⟨f1, _, _⟩ := round_between rep_zero rep_one q0 q1 ((F64.sub X A).sign != (F64.sub B A).sign)
    obtain ⟨f2, _, _⟩ := round_between rep_zero rep_one q0' q1' ((F64.sub X' A).sign != (F64.sub B A).sign)
    apply round_mono _ _ _ f1 f2
    apply div_le_div_right_pos _ hd
    rw [sub_finite hX hA, sub_finite hX' hA] at *
    exact round_mono (by grind) _ _ fn fn'

/-! ### `float64(int64)` and the mapped values -/

/-- the value is an `int64` -/
def I64 (i : Int) : Prop := minInt64 ≤ i ∧ i ≤ maxInt64

theorem i64_wrap (x : Int) : I64 (wrap64 x) := by unfold I64 wrap64 minInt64 maxInt64; omega

theorem i64_cast {i : Int} (h : I64 i) : -(9223372036854775808 : Rat) ≤ (i : Rat) ∧ (i : Rat) ≤ 9223372036854775808 := by
  obtain ⟨a, b⟩ := h
  have a' : ((-9223372036854775808 : Int) : Rat) ≤ (i : Rat) := Rat.intCast_le_intCast.mpr a
  have b' : (i : Rat) ≤ ((9223372036854775808 : Int) : Rat) := Rat.intCast_le_intCast.mpr (by unfold maxInt64 at b; omega)
  constructor
  · have e : ((-9223372036854775808 : Int) : Rat) = -(9223372036854775808 : Rat) := by decide +kernel
    rwa [e] at a'
  · have e : ((9223372036854775808 : Int) : Rat) = (9223372036854775808 : Rat) := by decide +kernel
    rwa [e] at b'

/-- `float64(i)` of an int64 is finite and lies in `[-2^63, 2^63]` -/
theorem ofInt_i64 {i : Int} (h : I64 i) :
    (F64.ofInt i).isFinite = true ∧ -(9223372036854775808 : Rat) ≤ (F64.ofInt i).toRat ∧ (F64.ofInt i).toRat ≤ 9223372036854775808 := by
  obtain ⟨a, b⟩ := i64_cast h
  exact round_between (rep_neg rep_2p63) rep_2p63 a b false

theorem ofInt_mono_val {i j : Int} (hi : I64 i) (hj : I64 j) (h : i ≤ j) : (F64.ofInt i).toRat ≤ (F64.ofInt j).toRat :=
  (le_iff_toRat_le (ofInt_i64 hi).1 (ofInt_i64 hj).1).mp (ofInt_mono h)

theorem ofInt_one_props : (F64.ofInt 1).isFinite = true ∧ (F64.ofInt 1).toRat = 1 := by
  have := isFinite_ofInt 1 (by decide)
  simpa using this

/-- what is assumed of `math.Log2` / `math.Log10` (a trusted library) on floats: on `[1, ∞)` they return
finite values, are monotone, and `log 1 = 0` -/
structure LogLikeF64 (L : F64 → F64) : Prop where
  finite : ∀ x, x.isFinite = true → 1 ≤ x.toRat → (L x).isFinite = true
  mono : ∀ x y, x.isFinite = true → y.isFinite = true → 1 ≤ x.toRat → x.toRat ≤ y.toRat → (L x).toRat ≤ (L y).toRat
  one : (L F64.one).toRat = 0

theorem LogLikeF64.nonneg {L : F64 → F64} (h : LogLikeF64 L) {x : F64} (hx : x.isFinite = true) (h1 : 1 ≤ x.toRat) : 0 ≤ (L x).toRat := by
  have h1' : F64.one.toRat = 1 := by decide +kernel
  have := h.mono F64.one x (by decide) hx (by rw [h1']; exact Rat.le_refl) (by rw [h1']; exact h1)
  rwa [h.one] at this

section
variable {L2 L10 P2 P10 : F64 → F64}

/-- `s.mapVal(float64(i))` -/
def mapF (L2 L10 P2 P10 : F64 → F64) (k : Scaler) (i : Int) : F64 := mapVal (f64Arith L2 L10 P2 P10) k (F64.ofInt i)

theorem mapF_linear (i : Int) : mapF L2 L10 P2 P10 .linear i = F64.ofInt i := rfl
theorem mapF_log2 (i : Int) : mapF L2 L10 P2 P10 .log2 i = if F64.le (F64.ofInt i) (F64.ofInt 1) then F64.ofInt 0 else L2 (F64.ofInt i) := rfl
theorem mapF_log10 (i : Int) : mapF L2 L10 P2 P10 .log10 i = if F64.le (F64.ofInt i) (F64.ofInt 1) then F64.ofInt 0 else L10 (F64.ofInt i) := rfl

theorem logMap_props {L : F64 → F64} (h : LogLikeF64 L) {i : Int} (hi : I64 i) :
    (if F64.le (F64.ofInt i) (F64.ofInt 1) then F64.ofInt 0 else L (F64.ofInt i)).isFinite = true ∧
    0 ≤ (if F64.le (F64.ofInt i) (F64.ofInt 1) then F64.ofInt 0 else L (F64.ofInt i)).toRat := by
  obtain ⟨fi, _, _⟩ := ofInt_i64 hi
  obtain ⟨f1, v1⟩ := ofInt_one_props
  split
  · obtain ⟨f, v⟩ := ofInt_zero_props
    rw [v]; exact ⟨f, Rat.le_refl⟩
  · rename_i hg
    have : ¬ (F64.ofInt i).toRat ≤ 1 := fun hh => hg ((le_iff_toRat_le fi f1).mpr (by rw [v1]; exact hh))
    have h1 : 1 ≤ (F64.ofInt i).toRat := by grind
    exact ⟨h.finite _ fi h1, h.nonneg fi h1⟩

theorem logMap_mono {L : F64 → F64} (h : LogLikeF64 L) {i j : Int} (hi : I64 i) (hj : I64 j) (hij : i ≤ j) :
    (if F64.le (F64.ofInt i) (F64.ofInt 1) then F64.ofInt 0 else L (F64.ofInt i)).toRat ≤
    (if F64.le (F64.ofInt j) (F64.ofInt 1) then F64.ofInt 0 else L (F64.ofInt j)).toRat := by
  obtain ⟨fi, _, _⟩ := ofInt_i64 hi
  obtain ⟨fj, _, _⟩ := ofInt_i64 hj
  obtain ⟨f1, v1⟩ := ofInt_one_props
  have hv := ofInt_mono_val hi hj hij
  have g : ∀ {x : F64}, x.isFinite = true → ¬ F64.le x (F64.ofInt 1) = true → 1 ≤ x.toRat := by
    intro x fx hg
    have : ¬ x.toRat ≤ 1 := fun hh => hg ((le_iff_toRat_le fx f1).mpr (by rw [v1]; exact hh))
    grind
  split <;> split
  · exact Rat.le_refl
  · rename_i _ hg
    rw [ofInt_zero_props.2]; exact h.nonneg fj (g fj hg)
  · rename_i hg hg'
    have a := (le_iff_toRat_le fj f1).mp hg'
    have b : (F64.ofInt i).toRat ≤ (F64.ofInt 1).toRat := by grind
    exact absurd ((le_iff_toRat_le fi f1).mpr b) hg
  · rename_i hg hg'
    exact h.mono _ _ fi fj (g fi hg) hv

theorem mapF_props (h2 : LogLikeF64 L2) (h10 : LogLikeF64 L10) (k : Scaler) {i : Int} (hi : I64 i) :
    (mapF L2 L10 P2 P10 k i).isFinite = true ∧
    (if k = .linear then -(9223372036854775808 : Rat) ≤ (mapF L2 L10 P2 P10 k i).toRat ∧ (mapF L2 L10 P2 P10 k i).toRat ≤ 9223372036854775808
      else 0 ≤ (mapF L2 L10 P2 P10 k i).toRat) := by
  cases k with
  | linear => rw [mapF_linear]; obtain ⟨a, b, c⟩ := ofInt_i64 hi; exact ⟨a, by simp; exact ⟨b, c⟩⟩
  | log2 => rw [mapF_log2]; obtain ⟨a, b⟩ := logMap_props h2 hi; exact ⟨a, by simp; exact b⟩
  | log10 => rw [mapF_log10]; obtain ⟨a, b⟩ := logMap_props h10 hi; exact ⟨a, by simp; exact b⟩

/-- the mapped value is monotone in the `int64` argument -/
theorem mapF_mono (h2 : LogLikeF64 L2) (h10 : LogLikeF64 L10) (k : Scaler) {i j : Int} (hi : I64 i) (hj : I64 j) (hij : i ≤ j) :
    (mapF L2 L10 P2 P10 k i).toRat ≤ (mapF L2 L10 P2 P10 k j).toRat := by
  cases k with
  | linear => rw [mapF_linear, mapF_linear]; exact ofInt_mono_val hi hj hij
  | log2 => rw [mapF_log2, mapF_log2]; exact logMap_mono h2 hi hj hij
  | log10 => rw [mapF_log10, mapF_log10]; exact logMap_mono h10 hi hj hij

/-- the upper end `remapMinMax` uses: `if max <= min { max = min + 1 }` (int64 arithmetic) -/
def upperEnd (mn mx : Int) : Int := if mx ≤ mn then wrap64 (mn + 1) else mx

theorem upperEnd_i64 {mn mx : Int} (h : I64 mx) : I64 (upperEnd mn mx) := by
  unfold upperEnd; split
  · exact i64_wrap _
  · exact h

/-- inside the range `Scale` is the last step applied to the mapped value and the two remapped ends -/
theorem scale_f64_in_range (k : Scaler) {v mn mx : Int} (h1 : mn ≤ v) (h2 : v ≤ mx) :
    scale (f64Arith L2 L10 P2 P10) k v mn mx =
      scaleCore (mapF L2 L10 P2 P10 k v) (F64.floor (mapF L2 L10 P2 P10 k mn)) (F64.ceil (mapF L2 L10 P2 P10 k (upperEnd mn mx))) := by
  have h3 : ¬ mx < mn := by omega
  have h4 : ¬ v < mn := by omega
  have h5 : ¬ v > mx := by omega
  simp only [scale, h3, h4, h5, if_false]
  rfl

/-- the remapped ends: finite, integer-valued, around the mapped values, a representable span -/
theorem ends_props (h2 : LogLikeF64 L2) (h10 : LogLikeF64 L10) (k : Scaler) {mn mx' : Int} (hmn : I64 mn) (hmx : I64 mx') :
    let A := F64.floor (mapF L2 L10 P2 P10 k mn)
    let B := F64.ceil (mapF L2 L10 P2 P10 k mx')
    A.isFinite = true ∧ B.isFinite = true ∧
    A.toRat = (((mapF L2 L10 P2 P10 k mn).toRat.floor : Int) : Rat) ∧ B.toRat = (((mapF L2 L10 P2 P10 k mx').toRat.ceil : Int) : Rat) ∧
    ∃ hi, Rep hi ∧ B.toRat - A.toRat ≤ hi := by
  intro A B
  obtain ⟨fm, bm⟩ := mapF_props (P2 := P2) (P10 := P10) h2 h10 k hmn
  obtain ⟨fx, bx⟩ := mapF_props (P2 := P2) (P10 := P10) h2 h10 k hmx
  obtain ⟨fA, vA⟩ := toRat?_eq_some.mp (floor_spec fm)
  obtain ⟨fB, vB⟩ := toRat?_eq_some.mp (ceil_spec fx)
  refine ⟨fA, fB, vA, vB, ?_⟩
  have e63 : ((9223372036854775808 : Int) : Rat) = (9223372036854775808 : Rat) := by decide +kernel
  have e63n : ((-9223372036854775808 : Int) : Rat) = -(9223372036854775808 : Rat) := by decide +kernel
  by_cases hk : k = .linear
  · rw [if_pos hk] at bm bx
    refine ⟨18446744073709551616, rep_2p64, ?_⟩
    have l1 : (-9223372036854775808 : Int) ≤ (mapF L2 L10 P2 P10 k mn).toRat.floor := Rat.le_floor_iff.mpr (by rw [e63n]; exact bm.1)
    have l1' := Rat.intCast_le_intCast.mpr l1
    rw [e63n, ← vA] at l1'
    have l2 : (mapF L2 L10 P2 P10 k mx').toRat.ceil ≤ (9223372036854775808 : Int) := Rat.ceil_le_iff.mpr (by rw [e63]; exact bx.2)
    have l2' := Rat.intCast_le_intCast.mpr l2
    rw [e63, ← vB] at l2'
    grind
  · rw [if_neg hk] at bm bx
    have l1 : (0 : Int) ≤ (mapF L2 L10 P2 P10 k mn).toRat.floor := Rat.le_floor_iff.mpr (by simpa using bm)
    have l1' := Rat.intCast_le_intCast.mpr l1
    rw [← vA] at l1'
    exact ⟨B.toRat, ⟨B, fB, rfl⟩, by simp at l1'; grind⟩

/-- a finite float in `[0,1]` -/
def UnitF64 (u : F64) : Prop := u.isFinite = true ∧ 0 ≤ u.toRat ∧ u.toRat ≤ 1

theorem unit_zero : UnitF64 (F64.ofInt 0) := by
  obtain ⟨f, v⟩ := ofInt_zero_props
  exact ⟨f, by rw [v]; exact Rat.le_refl, by rw [v]; decide⟩

theorem unit_one : UnitF64 (F64.ofInt 1) := by
  obtain ⟨f, v⟩ := ofInt_one_props
  exact ⟨f, by rw [v]; decide, by rw [v]; exact Rat.le_refl⟩

/-- the hypotheses of the last step hold inside the range -/
theorem in_range_hyps (h2 : LogLikeF64 L2) (h10 : LogLikeF64 L10) (k : Scaler) {v mn mx : Int}
    (hv : I64 v) (hmn : I64 mn) (hmx : I64 mx) (h1 : mn ≤ v) (h2' : v ≤ mx) :
    let X := mapF L2 L10 P2 P10 k v
    let A := F64.floor (mapF L2 L10 P2 P10 k mn)
    let B := F64.ceil (mapF L2 L10 P2 P10 k (upperEnd mn mx))
    A.toRat ≤ X.toRat ∧ (A.toRat < B.toRat → X.toRat ≤ B.toRat) := by
  intro X A B
  obtain ⟨fA, fB, vA, vB, _⟩ := ends_props (P2 := P2) (P10 := P10) h2 h10 k hmn (upperEnd_i64 (mn := mn) hmx)
  constructor
  · have m := mapF_mono (P2 := P2) (P10 := P10) h2 h10 k hmn hv h1
    have f := Rat.floor_le (mapF L2 L10 P2 P10 k mn).toRat
    show (F64.floor (mapF L2 L10 P2 P10 k mn)).toRat ≤ _
    rw [vA]; grind
  · intro hlt
    show _ ≤ (F64.ceil (mapF L2 L10 P2 P10 k (upperEnd mn mx))).toRat
    rw [vB]
    by_cases hdeg : mx ≤ mn
    · have e : v = mn := by omega
      subst e
      apply floor_succ_le_of_lt
      have : A.toRat < B.toRat := hlt
      rwa [show A.toRat = _ from vA, show B.toRat = _ from vB] at this
    · have hu : upperEnd mn mx = mx := by unfold upperEnd; rw [if_neg hdeg]
      rw [hu]
      have m := mapF_mono (P2 := P2) (P10 := P10) h2 h10 k hv hmx h2'
      have c := Rat.le_ceil (x := (mapF L2 L10 P2 P10 k mx).toRat)
      grind

/-- `Scale(val, min, max)` on floats, every int64 triple, every scaler: a finite float in `[0,1]` -/
theorem scale_f64_unit (h2 : LogLikeF64 L2) (h10 : LogLikeF64 L10) (k : Scaler) {v mn mx : Int}
    (hv : I64 v) (hmn : I64 mn) (hmx : I64 mx) : UnitF64 (scale (f64Arith L2 L10 P2 P10) k v mn mx) := by
  by_cases g1 : mx < mn
  · have : scale (f64Arith L2 L10 P2 P10) k v mn mx = F64.ofInt 0 := by simp [scale, g1, f64Arith]
    rw [this]; exact unit_zero
  by_cases g2 : v < mn
  · have : scale (f64Arith L2 L10 P2 P10) k v mn mx = F64.ofInt 0 := by simp [scale, g1, g2, f64Arith]
    rw [this]; exact unit_zero
  by_cases g3 : v > mx
  · have : scale (f64Arith L2 L10 P2 P10) k v mn mx = F64.ofInt 1 := by simp [scale, g1, g2, g3, f64Arith]
    rw [this]; exact unit_one
  rw [scale_f64_in_range k (by omega) (by omega)]
  obtain ⟨fA, fB, vA, vB, hi, rhi, hbd⟩ := ends_props (P2 := P2) (P10 := P10) h2 h10 k hmn (upperEnd_i64 (mn := mn) hmx)
  obtain ⟨a1, a2⟩ := in_range_hyps (P2 := P2) (P10 := P10) h2 h10 k hv hmn hmx (show mn ≤ v by omega) (show v ≤ mx by omega)
  exact scaleCore_unit (mapF_props h2 h10 k hv).1 fA fB vA vB a1 a2 rhi hbd

/-- `Scale` on floats is monotone in the value -/
theorem scale_f64_mono (h2 : LogLikeF64 L2) (h10 : LogLikeF64 L10) (k : Scaler) {v v' mn mx : Int}
    (hv : I64 v) (hv' : I64 v') (hmn : I64 mn) (hmx : I64 mx) (hvv : v ≤ v') :
    (scale (f64Arith L2 L10 P2 P10) k v mn mx).toRat ≤ (scale (f64Arith L2 L10 P2 P10) k v' mn mx).toRat := by
  by_cases g1 : mx < mn
  · have e : ∀ w, scale (f64Arith L2 L10 P2 P10) k w mn mx = F64.ofInt 0 := by intro w; simp [scale, g1, f64Arith]
    rw [e, e]; exact Rat.le_refl
  by_cases g2 : v < mn
  · have : scale (f64Arith L2 L10 P2 P10) k v mn mx = F64.ofInt 0 := by simp [scale, g1, g2, f64Arith]
    rw [this, ofInt_zero_props.2]
    exact (scale_f64_unit h2 h10 k hv' hmn hmx).2.1
  by_cases g3 : v' > mx
  · have g2' : ¬ v' < mn := by omega
    have : scale (f64Arith L2 L10 P2 P10) k v' mn mx = F64.ofInt 1 := by simp [scale, g1, g2', g3, f64Arith]
    rw [this, ofInt_one_props.2]
    exact (scale_f64_unit h2 h10 k hv hmn hmx).2.2
  rw [scale_f64_in_range k (by omega) (by omega), scale_f64_in_range k (by omega) (by omega)]
  obtain ⟨fA, fB, vA, vB, hi, rhi, hbd⟩ := ends_props (P2 := P2) (P10 := P10) h2 h10 k hmn (upperEnd_i64 (mn := mn) hmx)
  obtain ⟨a1, _⟩ := in_range_hyps (P2 := P2) (P10 := P10) h2 h10 k hv hmn hmx (show mn ≤ v by omega) (show v ≤ mx by omega)
  obtain ⟨_, a2'⟩ := in_range_hyps (P2 := P2) (P10 := P10) h2 h10 k hv' hmn hmx (show mn ≤ v' by omega) (show v' ≤ mx by omega)
  exact scaleCore_mono (mapF_props h2 h10 k hv).1 (mapF_props h2 h10 k hv').1 fA fB vA vB a1
    (mapF_mono h2 h10 k hv hv' hvv) a2' rhi hbd

end

/-! ### a stand-in logarithm (non-vacuity of `LogLikeF64`), and the linear scaler without any assumption -/

/-- `x ↦ x - 1` (rounded) satisfies `LogLikeF64` -/
theorem logLikeF64_sub_one : LogLikeF64 (fun x => F64.sub x F64.one) := by
  have f1 : F64.one.isFinite = true := by decide
  have v1 : F64.one.toRat = 1 := by decide +kernel
  refine ⟨?_, ?_, by decide +kernel⟩
  · intro x fx h1
    show (F64.sub x F64.one).isFinite = true
    rw [F64.sub_finite fx f1, v1]
    exact (round_between F64.rep_zero ⟨x, fx, rfl⟩ (by grind) (by grind) _).1
  · intro x y fx fy h1 hxy
    show (F64.sub x F64.one).toRat ≤ (F64.sub y F64.one).toRat
    rw [F64.sub_finite fx f1, F64.sub_finite fy f1, v1]
    have a := (round_between F64.rep_zero ⟨x, fx, rfl⟩ (q := x.toRat - 1) (by grind) (by grind) (x.sign && !F64.one.sign)).1
    have b := (round_between F64.rep_zero ⟨y, fy, rfl⟩ (q := y.toRat - 1) (by grind) (by grind) (y.sign && !F64.one.sign)).1
    exact round_mono (by grind) _ _ a b

/-- the linear scaler never calls a logarithm: its `Scale` is the same function whatever `math.Log*`/`Pow` are -/
theorem scale_linear_indep (L2 L10 P2 P10 L2' L10' P2' P10' : F64 → F64) (v mn mx : Int) :
    scale (f64Arith L2 L10 P2 P10) .linear v mn mx = scale (f64Arith L2' L10' P2' P10') .linear v mn mx := rfl

theorem scale_linear_f64_unit {L2 L10 P2 P10 : F64 → F64} {v mn mx : Int} (hv : I64 v) (hmn : I64 mn) (hmx : I64 mx) :
    UnitF64 (scale (f64Arith L2 L10 P2 P10) .linear v mn mx) := by
  rw [scale_linear_indep L2 L10 P2 P10 (fun x => F64.sub x F64.one) (fun x => F64.sub x F64.one) P2 P10]
  exact scale_f64_unit logLikeF64_sub_one logLikeF64_sub_one .linear hv hmn hmx

theorem scale_linear_f64_mono {L2 L10 P2 P10 : F64 → F64} {v v' mn mx : Int} (hv : I64 v) (hv' : I64 v') (hmn : I64 mn) (hmx : I64 mx) (h : v ≤ v') :
    (scale (f64Arith L2 L10 P2 P10) .linear v mn mx).toRat ≤ (scale (f64Arith L2 L10 P2 P10) .linear v' mn mx).toRat := by
  rw [scale_linear_indep L2 L10 P2 P10 (fun x => F64.sub x F64.one) (fun x => F64.sub x F64.one) P2 P10,
    scale_linear_indep L2 L10 P2 P10 (fun x => F64.sub x F64.one) (fun x => F64.sub x F64.one) P2 P10 v']
  exact scale_f64_mono logLikeF64_sub_one logLikeF64_sub_one .linear hv hv' hmn hmx h

/-- a unit float in the IEEE order: not NaN, between `0.0` and `1.0` -/
theorem UnitF64.order {u : F64} (h : UnitF64 u) :
    u.isNaN = false ∧ F64.le (F64.ofInt 0) u = true ∧ F64.le u (F64.ofInt 1) = true := by
  obtain ⟨f, a, b⟩ := h
  refine ⟨not_nan_of_finite f, ?_, ?_⟩
  · rw [le_iff_toRat_le ofInt_zero_props.1 f, ofInt_zero_props.2]; exact a
  · rw [le_iff_toRat_le f ofInt_one_props.1, ofInt_one_props.2]; exact b

/-! ### `int(u * float64(n))` for a unit float -/

/-- the product `u * float64(n)` (one rounding) of a unit float and an integer `0 ≤ n ≤ 2^53`: finite, in `[0, n]` -/
theorem mul_unit_f64 {u : F64} (hu : UnitF64 u) {n : Int} (h0 : 0 ≤ n) (h1 : n ≤ 9007199254740992) :
    (F64.mul u (F64.ofInt n)).isFinite = true ∧ 0 ≤ (F64.mul u (F64.ofInt n)).toRat ∧ (F64.mul u (F64.ofInt n)).toRat ≤ (n : Rat) ∧
    F64.mul u (F64.ofInt n) = ofRatS (u.sign != (F64.ofInt n).sign) (u.toRat * (n : Rat)) := by
  obtain ⟨fu, u0, u1⟩ := hu
  obtain ⟨fn, vn⟩ := isFinite_ofInt n (by omega)
  have hn' : (0 : Rat) ≤ (n : Rat) := by
    have := Rat.intCast_le_intCast.mpr h0
    simpa using this
  have e : F64.mul u (F64.ofInt n) = ofRatS (u.sign != (F64.ofInt n).sign) (u.toRat * (n : Rat)) := by
    rw [mul_finite fu fn, vn]
  rw [e]
  have a : 0 ≤ u.toRat * (n : Rat) := Rat.mul_nonneg u0 hn'
  have b : u.toRat * (n : Rat) ≤ (n : Rat) := by
    have := Rat.mul_le_mul_of_nonneg_right u1 hn'
    simpa [Rat.one_mul] using this
  obtain ⟨f, l, r⟩ := round_between rep_zero (rep_int (n := n) (by omega)) a b (u.sign != (F64.ofInt n).sign)
  exact ⟨f, l, r, rfl⟩

theorem toInt64_nonneg_val {x : F64} (hx : x.isFinite = true) (h0 : 0 ≤ x.toRat) {n : Int} (hn : x.toRat ≤ (n : Rat)) (h1 : n ≤ 9007199254740992) :
    F64.toInt64 x = x.toRat.floor ∧ 0 ≤ x.toRat.floor ∧ x.toRat.floor ≤ n := by
  have f0 : (0 : Int) ≤ x.toRat.floor := Rat.le_floor_iff.mpr (by simpa using h0)
  have f1 : x.toRat.floor ≤ n := by
    have := Rat.floor_monotone hn
    rwa [Rat.floor_intCast] at this
  refine ⟨?_, f0, f1⟩
  unfold F64.toInt64
  rw [hx]
  have ht : truncRat x.toRat = x.toRat.floor := by
    unfold truncRat; rw [if_neg (by grind)]
  simp only [Bool.not_true, Bool.false_eq_true, if_false, ht]
  rw [if_neg]
  simp only [Bool.or_eq_true, decide_eq_true_eq]
  unfold minInt64 maxInt64; omega

/-- `int(u * float64(n))` lies in `[0, n]` for a unit float, `0 ≤ n ≤ 2^53`; it is `n` for exactly `1.0` -/
theorem trunc_mul_f64 {u : F64} (hu : UnitF64 u) {n : Int} (h0 : 0 ≤ n) (h1 : n ≤ 9007199254740992) :
    0 ≤ F64.toInt64 (F64.mul u (F64.ofInt n)) ∧ F64.toInt64 (F64.mul u (F64.ofInt n)) ≤ n ∧
    (u.toRat = 1 → F64.toInt64 (F64.mul u (F64.ofInt n)) = n) := by
  obtain ⟨f, l, r, e⟩ := mul_unit_f64 hu h0 h1
  obtain ⟨t, a, b⟩ := toInt64_nonneg_val f l r h1
  rw [t]
  refine ⟨a, b, ?_⟩
  intro h1'
  have : (F64.mul u (F64.ofInt n)).toRat = (n : Rat) := by
    rw [e, h1', Rat.one_mul]
    exact (ofRatS_rep _ (rep_int (n := n) (by omega))).2
  rw [this, Rat.floor_intCast]

/-- `int(u * float64(n))` is monotone in the unit float -/
theorem trunc_mul_f64_mono {u v : F64} (hu : UnitF64 u) (hv : UnitF64 v) (huv : u.toRat ≤ v.toRat) {n : Int} (h0 : 0 ≤ n) (h1 : n ≤ 9007199254740992) :
    F64.toInt64 (F64.mul u (F64.ofInt n)) ≤ F64.toInt64 (F64.mul v (F64.ofInt n)) := by
  obtain ⟨f, l, r, e⟩ := mul_unit_f64 hu h0 h1
  obtain ⟨f', l', r', e'⟩ := mul_unit_f64 hv h0 h1
  rw [(toInt64_nonneg_val f l r h1).1, (toInt64_nonneg_val f' l' r' h1).1]
  apply Rat.floor_monotone
  have hn' : (0 : Rat) ≤ (n : Rat) := by
    have := Rat.intCast_le_intCast.mpr h0
    simpa using this
  rw [e] at f ⊢
  rw [e'] at f' ⊢
  exact round_mono (Rat.mul_le_mul_of_nonneg_right huv hn') _ _ f f'

end Rare.C14
