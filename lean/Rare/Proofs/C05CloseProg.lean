import Rare.Model.C05CloseProg
namespace Rare.C05Prog

/-- Invariant: executed ++ still-to-do is the program (nothing skipped, nothing reordered), and once the channel is
    closed every reader has executed its `wg.Done()`. -/
structure Inv (ps : List (List Act)) (s : St) : Prop where
  prog : s.rs.map (fun r => r.exec ++ r.todo) = ps
  done : s.closed = true → ∀ r ∈ s.rs, Act.done ∈ r.exec

theorem inv_init (ps : List (List Act)) : Inv ps (init ps) := by
  refine ⟨?_, fun h => by simp [init] at h⟩
  simp [init, List.map_map, Function.comp_def]

theorem inv_step {ps : List (List Act)} {s s' : St} (h : Inv ps s) (hs : Step s s') : Inv ps s' := by
  cases hs with
  | adv i hi a rest htodo =>
    refine ⟨?_, ?_⟩
    · have h1 := h.prog
      simp only [List.map_set]
      have : (s.rs[i].exec ++ [a]) ++ rest = (s.rs.map fun r => r.exec ++ r.todo)[i]'(by simpa using hi) := by
        simp [htodo]
      rw [this, List.set_getElem_self]; exact h1
    · intro hc r hr
      have hc' : s.closed = true := hc
      rcases List.mem_or_eq_of_mem_set hr with hr | rfl
      · exact h.done hc' r hr
      · have := h.done hc' s.rs[i] (List.getElem_mem hi)
        simp [this]
  | close hcl hall => exact ⟨h.prog, fun _ => hall⟩

theorem inv_reach {ps : List (List Act)} {s : St} (hr : Reach (init ps) s) : Inv ps s := by
  induction hr with
  | refl => exact inv_init ps
  | step _ hs ih => exact inv_step ih hs

/-- A program that ends with its only `wg.Done()`: once that is executed, everything is. -/
theorem todo_nil_of_done {exec todo q : List Act} (h : exec ++ todo = q ++ [Act.done]) (hq : Act.done ∉ q)
    (hd : Act.done ∈ exec) : todo = [] := by
  rcases List.append_eq_append_iff.mp h with ⟨a', h1, _⟩ | ⟨c', h1, h2⟩
  · exact absurd (by rw [h1]; exact List.mem_append_left _ hd) hq
  · cases c' with
    | nil => simp at h1; subst h1; exact absurd hd hq
    | cons x xs =>
      have : xs ++ todo = [] := by simpa using (List.cons.inj h2.symm).2
      exact (List.append_eq_nil_iff.mp this).2

/-- **Closed ⇒ every reader has run its whole program** when every program ends with its only `wg.Done()`. -/
theorem closed_all_executed {ps : List (List Act)} (hlast : ∀ p ∈ ps, ∃ q, p = q ++ [Act.done] ∧ Act.done ∉ q)
    {s : St} (hr : Reach (init ps) s) (hc : s.closed = true) :
    s.rs.map (·.exec) = ps ∧ ∀ r ∈ s.rs, r.todo = [] := by
  have h := inv_reach hr
  have htodo : ∀ r ∈ s.rs, r.todo = [] := by
    intro r hrm
    have hp : r.exec ++ r.todo ∈ ps := by
      rw [← h.prog]; exact List.mem_map.mpr ⟨r, hrm, rfl⟩
    obtain ⟨q, hq, hnq⟩ := hlast _ hp
    exact todo_nil_of_done hq hnq (h.done hc r hrm)
  refine ⟨?_, htodo⟩
  rw [← h.prog]
  apply List.map_congr_left
  intro r hrm; simp [htodo r hrm]

/-! The status of a finished source. -/

theorem foldl_batches (bs : List Nat) (t : RStat) :
    (bs.flatMap fun b => [Act.send b, Act.inc b]).foldl RStat.step t =
      { t with bytes := t.bytes + bs.sum, sent := t.sent + bs.sum } := by
  induction bs generalizing t with
  | nil => simp
  | cons b rest ih =>
    simp only [List.flatMap_cons, List.foldl_append, List.foldl_cons, List.foldl_nil, ih, RStat.step, List.sum_cons]
    simp [Nat.add_assoc]

theorem statOf_prog_some (bs : List Nat) :
    statOf (prog [Act.stop, Act.done] (some bs)) = { active := false, read := 1, errs := 0, bytes := bs.sum, sent := bs.sum } := by
  simp [statOf, prog, body, List.foldl_append, foldl_batches, RStat.step]

theorem statOf_prog_none : statOf (prog [Act.stop, Act.done] none) = { errs := 1 } := by
  simp [statOf, prog, body, RStat.step]

theorem stat_prog (f : Src) :
    statOf (prog [Act.stop, Act.done] f) =
      { active := false, read := if f.isSome then 1 else 0, errs := if f.isNone then 1 else 0,
        bytes := bytesOfSrc f, sent := bytesOfSrc f } := by
  cases f with
  | none => simp [statOf_prog_none, bytesOfSrc]
  | some bs => simp [statOf_prog_some, bytesOfSrc]

theorem sum_ite_eq_filter_length {α : Type} (p : α → Bool) (l : List α) :
    (l.map fun a => if p a then 1 else 0).sum = (l.filter p).length := by
  induction l with
  | nil => rfl
  | cons a r ih => by_cases h : p a <;> simp [h, ih] <;> omega

theorem sum_map_zero {α : Type} (l : List α) : (l.map fun _ => 0).sum = 0 := by
  induction l with
  | nil => rfl
  | cons a r ih => simpa using ih

/-- The observables of a state in which every reader has executed exactly the program `prog [stop, done] f`. -/
theorem totals_of_executed (fs : List Src) (s : St)
    (h : s.rs.map (·.exec) = fs.map (prog [Act.stop, Act.done])) :
    active s = 0 ∧ readCount s = present fs ∧ errors s = missing fs ∧ readBytes s = totalBytes fs ∧
      sentBytes s = totalBytes fs := by
  have key : ∀ g : RStat → Nat, (s.rs.map fun r => g (statOf r.exec)) = fs.map fun f => g (statOf (prog [Act.stop, Act.done] f)) := by
    intro g
    have := congrArg (List.map fun l => g (statOf l)) h
    simpa [List.map_map, Function.comp_def] using this
  refine ⟨?_, ?_, ?_, ?_, ?_⟩
  · have hb : (s.rs.map fun r => (statOf r.exec).active) = fs.map fun f => (statOf (prog [Act.stop, Act.done] f)).active := by
      have := congrArg (List.map fun l => (statOf l).active) h
      simpa [List.map_map, Function.comp_def] using this
    simp only [active, List.length_eq_zero_iff, List.filter_eq_nil_iff]
    intro r hr
    have : (statOf r.exec).active ∈ (s.rs.map fun r => (statOf r.exec).active) := List.mem_map.mpr ⟨r, hr, rfl⟩
    rw [hb] at this
    obtain ⟨f, _, hf⟩ := List.mem_map.mp this
    rw [stat_prog] at hf
    simp [← hf]
  · simp only [readCount, key (·.read), stat_prog, present]
    exact sum_ite_eq_filter_length _ fs
  · simp only [errors, key (·.errs), stat_prog, missing]
    exact sum_ite_eq_filter_length _ fs
  · simp only [readBytes, key (·.bytes), stat_prog, totalBytes]
  · simp only [sentBytes, key (·.sent), stat_prog, totalBytes]

theorem prog_ends_with_done (f : Src) :
    ∃ q, prog [Act.stop, Act.done] f = q ++ [Act.done] ∧ Act.done ∉ q := by
  refine ⟨body f ++ [Act.stop], by simp [prog], ?_⟩
  cases f with
  | none => simp [body]
  | some bs => simp [body]

/-- **Closed ⇒ complete status**, all of it: no active file, every opened source counted as read, every failed open
    counted as an error, every byte counted and handed over. -/
theorem closed_status_complete (fs : List Src) {s : St}
    (hr : Reach (init (fs.map (prog [Act.stop, Act.done]))) s) (hc : s.closed = true) :
    active s = 0 ∧ readCount s = present fs ∧ errors s = missing fs ∧ readBytes s = totalBytes fs ∧
      sentBytes s = totalBytes fs := by
  have hl : ∀ p ∈ fs.map (prog [Act.stop, Act.done]), ∃ q, p = q ++ [Act.done] ∧ Act.done ∉ q := by
    intro p hp
    obtain ⟨f, _, rfl⟩ := List.mem_map.mp hp
    exact prog_ends_with_done f
  exact totals_of_executed fs s (closed_all_executed hl hr hc).1

/-! The order before /repo 7025f4b: exit block `[done, stop]`. -/

/-- Running a whole list of actions of reader `i`. -/
theorem reach_run {s0 : St} (pre post : List R) (e l rest : List Act) (c : Bool)
    (h : Reach s0 ⟨pre ++ ⟨e, l ++ rest⟩ :: post, c⟩) : Reach s0 ⟨pre ++ ⟨e ++ l, rest⟩ :: post, c⟩ := by
  induction l generalizing e with
  | nil => simpa using h
  | cons a l ih =>
    have hi : pre.length < (pre ++ (⟨e, (a :: l) ++ rest⟩ : R) :: post).length := by simp
    have hs := Step.adv ⟨pre ++ ⟨e, (a :: l) ++ rest⟩ :: post, c⟩ pre.length hi a (l ++ rest) (by simp)
    have := ih (e ++ [a]) (by simpa using Reach.step h hs)
    simpa using this

/-- With the old exit block every reader can run up to and including its `wg.Done()` and stop there. -/
theorem reach_all_before_stop (fs : List Src) (pre : List R) (s0 : St)
    (h : Reach s0 ⟨pre ++ fs.map (fun f => ⟨[], prog [Act.done, Act.stop] f⟩), false⟩) :
    Reach s0 ⟨pre ++ fs.map (fun f => ⟨body f ++ [Act.done], [Act.stop]⟩), false⟩ := by
  induction fs generalizing pre with
  | nil => simpa using h
  | cons f fs ih =>
    have h1 := reach_run pre (fs.map fun f => ⟨[], prog [Act.done, Act.stop] f⟩) [] (body f ++ [Act.done]) [Act.stop] false
      (by simpa [prog] using h)
    have := ih (pre ++ [⟨body f ++ [Act.done], [Act.stop]⟩]) (by simpa using h1)
    simpa using this

theorem statOf_body_done (f : Src) :
    statOf (body f ++ [Act.done]) =
      { active := f.isSome, errs := if f.isNone then 1 else 0, bytes := bytesOfSrc f, sent := bytesOfSrc f } := by
  cases f with
  | none => simp [statOf, body, RStat.step, bytesOfSrc]
  | some bs => simp [statOf, body, List.foldl_append, foldl_batches, RStat.step, bytesOfSrc]

/-- **The old order lags, for every set of sources**: there is a run that closes the channel while EVERY opened
    source is still listed as active and none is counted as read. -/
theorem old_order_lags (fs : List Src) :
    ∃ s, Reach (init (fs.map (prog [Act.done, Act.stop]))) s ∧ s.closed = true ∧
      active s = present fs ∧ readCount s = 0 := by
  have h0 : Reach (init (fs.map (prog [Act.done, Act.stop])))
      ⟨[] ++ fs.map (fun f => ⟨[], prog [Act.done, Act.stop] f⟩), false⟩ := by
    have : init (fs.map (prog [Act.done, Act.stop])) = ⟨[] ++ fs.map (fun f => ⟨[], prog [Act.done, Act.stop] f⟩), false⟩ := by
      simp [init, List.map_map, Function.comp_def]
    rw [← this]; exact .refl
  have h1 := reach_all_before_stop fs [] _ h0
  refine ⟨⟨fs.map (fun f => ⟨body f ++ [Act.done], [Act.stop]⟩), true⟩, ?_, rfl, ?_, ?_⟩
  · refine .step (by simpa using h1) (.close _ rfl ?_)
    intro r hr
    obtain ⟨f, _, rfl⟩ := List.mem_map.mp hr
    simp
  · simp only [active, present, List.filter_map, List.length_map, Function.comp_def, statOf_body_done]
  · simp only [readCount, List.map_map, Function.comp_def, statOf_body_done]
    exact sum_map_zero fs

end Rare.C05Prog
