import Rare.Proofs.C07Base
/-! The splitter yields the fields of `strings.Split` one by one (non-empty delimiter). -/
namespace Rare.C07

theorem splitOn_ne_nil (d s : Bytes) : splitOn d s ≠ [] := by
  cases s with
  | nil => simp [splitOn]
  | cons b r =>
    rw [splitOn]; split
    · simp
    · cases splitOn d r <;> simp [consHead]

theorem indexOf_none (d : Bytes) (_hd : d ≠ []) (s : Bytes) (h : indexOf d s = none) : splitOn d s = [s] := by
  induction s with
  | nil => simp [splitOn]
  | cons b r ih =>
    rw [indexOf] at h
    split at h
    · simp at h
    · rename_i hp
      rw [splitOn, if_neg hp]
      have : indexOf d r = none := by simpa using h
      rw [ih this]; rfl

theorem indexOf_some (d : Bytes) (hd : d ≠ []) (s : Bytes) (i : Nat) (h : indexOf d s = some i) :
    splitOn d s = s.take i :: splitOn d (s.drop (i + d.length)) := by
  induction s generalizing i with
  | nil => simp [indexOf, hd] at h
  | cons b r ih =>
    rw [indexOf] at h
    split at h
    · rename_i hp
      have : i = 0 := by simpa using h.symm
      subst this
      rw [splitOn, if_pos hp]
      have hl : d.length = (d.length - 1) + 1 := by
        have : d.length ≠ 0 := by simpa using hd
        omega
      simp only [List.take_zero, Nat.zero_add]
      congr 2
      conv => rhs; rw [hl, List.drop_succ_cons]
    · rename_i hp
      obtain ⟨j, hj, rfl⟩ : ∃ j, indexOf d r = some j ∧ j + 1 = i := by
        cases hr : indexOf d r with
        | none => simp [hr] at h
        | some j => exact ⟨j, rfl, by simpa [hr] using h⟩
      rw [splitOn, if_neg hp, ih j hj]
      simp only [consHead, List.take_succ_cons]
      congr 2
      have : j + 1 + d.length = (j + d.length) + 1 := by omega
      rw [this, List.drop_succ_cons]

theorem indexOf_le (d s : Bytes) (i : Nat) (h : indexOf d s = some i) : i + d.length ≤ s.length := by
  induction s generalizing i with
  | nil =>
    rw [indexOf] at h; split at h
    · rename_i hd; subst hd
      have : i = 0 := by simpa using h.symm
      subst this; simp
    · simp at h
  | cons b r ih =>
    rw [indexOf] at h; split at h
    · rename_i hp
      have : i = 0 := by simpa using h.symm
      subst this
      have := List.IsPrefix.length_le (List.isPrefixOf_iff_prefix.mp hp)
      simpa using this
    · cases hr : indexOf d r with
      | none => simp [hr] at h
      | some j =>
        have : j + 1 = i := by simpa [hr] using h
        subst this
        have := ih j hr
        simp; omega

/-- The splitter is positioned in front of the fields `fs` (all of them consumed: `fs = []`). -/
def Tracks (s : Splitter) (fs : List Bytes) : Prop :=
  (s.next < 0 ∧ fs = []) ∨
  (0 ≤ s.next ∧ s.next.toNat ≤ s.S.length ∧ splitOn s.delim (s.S.drop s.next.toNat) = fs)

theorem tracks_init (d e : Bytes) : Tracks { S := e, delim := d } (splitOn d e) := by
  right; simp

theorem tracks_done (s : Splitter) (fs : List Bytes) (h : Tracks s fs) : s.done = fs.isEmpty := by
  rcases h with ⟨h1, h2⟩ | ⟨h1, _, h3⟩
  · subst h2; simp [Splitter.done, h1]
  · have := splitOn_ne_nil s.delim (s.S.drop s.next.toNat)
    rw [h3] at this
    cases fs with
    | nil => exact absurd rfl this
    | cons a b => simp [Splitter.done]; omega

/-- `Next()` returns the next field (or "" when exhausted) and moves on. -/
theorem tracks_next (s : Splitter) (fs : List Bytes) (hd : s.delim ≠ []) (h : Tracks s fs) :
    s.next'.1 = fs.headD [] ∧ Tracks s.next'.2 fs.tail ∧ s.next'.2.delim = s.delim := by
  rcases h with ⟨h1, h2⟩ | ⟨h1, hle, h3⟩
  · subst h2
    simp only [Splitter.next', h1, if_true, List.headD_nil, List.tail_nil, true_and]
    exact ⟨Or.inl ⟨h1, rfl⟩, trivial⟩
  · have hn : ¬ s.next < 0 := by omega
    unfold Splitter.next'
    simp only [hn, if_false]
    cases hi : indexOf s.delim (s.S.drop s.next.toNat) with
    | none =>
      have := indexOf_none s.delim hd _ hi
      rw [this] at h3; subst h3
      simp only [List.headD_cons, List.tail_cons, true_and]
      exact ⟨Or.inl ⟨by simp, rfl⟩, trivial⟩
    | some i =>
      have hs := indexOf_some s.delim hd _ i hi
      have hb := indexOf_le s.delim _ i hi
      rw [hs] at h3; subst h3
      simp only [List.headD_cons, List.tail_cons]
      have e1 : ((i : Int) + s.next).toNat = i + s.next.toNat := by omega
      refine ⟨?_, Or.inr ⟨(by show (0:Int) ≤ (i : Int) + s.next + (s.delim.length : Int); omega), ?_, ?_⟩, trivial⟩
      · rw [e1, List.drop_take]; congr 1; omega
      · simp only [List.length_drop] at hb
        show ((i : Int) + s.next + (s.delim.length : Int)).toNat ≤ s.S.length
        omega
      · show splitOn s.delim (s.S.drop ((i : Int) + s.next + (s.delim.length : Int)).toNat) = _
        rw [List.drop_drop]; congr 2; omega

/-- Three successive reads, as every `Sample` does them. -/
theorem splitter_fields (d e : Bytes) (hd : d ≠ []) :
    let s0 : Splitter := { S := e, delim := d }
    let r0 := s0.next'
    let r1 := r0.2.nextOk
    let r2 := r1.2.2.nextOk
    let fs := splitOn d e
    r0.1 = fs.headD [] ∧
    r1.1 = fs.tail.headD [] ∧ r1.2.1 = !fs.tail.isEmpty ∧
    r2.1 = fs.tail.tail.headD [] ∧ r2.2.1 = !fs.tail.tail.isEmpty := by
  intro s0 r0 r1 r2 fs
  have t0 := tracks_init d e
  obtain ⟨a0, t1, d1⟩ := tracks_next s0 fs hd t0
  have hd1 : r0.2.delim ≠ [] := by rw [show r0.2.delim = s0.delim from d1]; exact hd
  obtain ⟨a1, t2, d2⟩ := tracks_next r0.2 fs.tail hd1 t1
  have hd2 : r0.2.next'.2.delim ≠ [] := by rw [d2]; exact hd1
  obtain ⟨a2, _, _⟩ := tracks_next r0.2.next'.2 fs.tail.tail hd2 t2
  refine ⟨a0, a1, ?_, a2, ?_⟩
  · show (!r0.2.done) = _; rw [tracks_done _ _ t1]
  · show (!r0.2.next'.2.done) = _; rw [tracks_done _ _ t2]

end Rare.C07
