import Rare.Proofs.C16San
import Rare.Proofs.C16Names
import Rare.Proofs.C16Table
/-! C16: what the members of a view are, exactly; UTF-8 iff; the U+FFFD reading. -/
namespace Rare.C16

/-- the members `json` writes, as (name, captured text) -/
def viewMembers (named numbered : Bool) (order : List (Bytes × Int)) (indices : List Int) (line : Bytes) :
    List (Bytes × Bytes) :=
  (if named then namedMembers order indices line else []) ++
    (if numbered then expectedNumbered indices line else [])

theorem membersDecode_dec (l : List (Bytes × Bytes)) : membersDecode (l.map (dec inferredR)) l = true := by
  induction l with
  | nil => simp [membersDecode]
  | cons m l ih =>
    have e : dec inferredR m = (m.1, inferredVal m.2) := rfl
    simp only [List.map_cons, e, membersDecode, decodesTo_inferred m.2, ih]
    simp

theorem namedMembers_perm (order : List (Bytes × Int)) (indices : List Int) (line : Bytes)
    (hnd : (order.map (·.1)).Nodup) :
    (namedMembers order indices line).Perm (expectedNamed order indices line) := by
  simp only [namedMembers, expectedNamed]
  have hp := (sortNames_perm (order.map (·.1))).map
    (fun n => (n, capture indices line (mapGet 0 order n)))
  refine hp.trans ?_
  rw [List.map_map]
  apply List.Perm.of_eq
  apply List.map_congr_left
  intro p hp
  simp [mapGet_mem 0 order p hnd hp]

theorem namedMembers_sorted (order : List (Bytes × Int)) (indices : List Int) (line : Bytes) :
    (namedMembers order indices line).Pairwise (fun a b => bytesLe a.1 b.1 = true) := by
  simp only [namedMembers]
  rw [List.pairwise_map]
  exact sortNames_sorted _

theorem mem_namedMembers (order : List (Bytes × Int)) (indices : List Int) (line : Bytes)
    (hnd : (order.map (·.1)).Nodup) (m : Bytes × Bytes) :
    m ∈ namedMembers order indices line ↔ ∃ p ∈ order, m = (p.1, capture indices line p.2) := by
  rw [(namedMembers_perm order indices line hnd).mem_iff]
  simp only [expectedNamed, List.mem_map]
  constructor
  · rintro ⟨p, hp, e⟩; exact ⟨p, hp, e.symm⟩
  · rintro ⟨p, hp, e⟩; exact ⟨p, hp, e.symm⟩

theorem capture_out_of_range (indices : List Int) (line : Bytes) (i : Nat) (h : indices.length / 2 ≤ i) :
    capture indices line (i : Nat) = [] := by
  unfold capture
  rw [if_pos (by right; omega)]

/-- all members are well-formed ⇔ all names and all captured texts are -/
theorem viewMembers_all_valid (named numbered : Bool) (order : List (Bytes × Int)) (indices : List Int)
    (line : Bytes) (hnd : (order.map (·.1)).Nodup) :
    (viewMembers named numbered order indices line).all pairValid = true ↔
      ((named = true → ∀ p ∈ order, validUtf8 p.1 = true ∧ validUtf8 (capture indices line p.2) = true) ∧
       (numbered = true → ∀ i : Nat, validUtf8 (capture indices line (i : Nat)) = true)) := by
  simp only [viewMembers, List.all_append, Bool.and_eq_true, List.all_eq_true, pairValid]
  constructor
  · rintro ⟨h1, h2⟩
    constructor
    · intro hn p hp
      subst hn
      exact h1 (p.1, capture indices line p.2) ((mem_namedMembers order indices line hnd _).mpr ⟨p, hp, rfl⟩)
    · intro hn i
      subst hn
      by_cases hi : i < indices.length / 2
      · by_cases he : capture indices line (i : Nat) = []
        · rw [he]; decide
        · have : (natAscii i, capture indices line (i : Nat)) ∈ expectedNumbered indices line := by
            simp only [expectedNumbered, List.mem_filterMap, List.mem_range]
            exact ⟨i, hi, by simp [he]⟩
          exact (h2 _ this).2
      · rw [capture_out_of_range indices line i (by omega)]; decide
  · rintro ⟨h1, h2⟩
    constructor
    · intro m hm
      cases named with
      | false => simp at hm
      | true =>
        obtain ⟨p, hp, e⟩ := (mem_namedMembers order indices line hnd m).mp hm
        subst e
        exact h1 rfl p hp
    · intro m hm
      cases numbered with
      | false => simp at hm
      | true =>
        simp only [if_true, expectedNumbered, List.mem_filterMap] at hm
        obtain ⟨i, _, e⟩ := hm
        split at e
        · cases e
        · cases e; exact ⟨valid_natAscii i, h2 rfl i⟩

theorem viewMembers_names (named numbered : Bool) (order : List (Bytes × Int)) (indices : List Int) (line : Bytes) :
    (viewMembers named numbered order indices line).map (·.1) =
      (if named then sortNames (order.map (·.1)) else []) ++
      (if numbered then (expectedNumbered indices line).map (·.1) else []) := by
  cases named <;> cases numbered <;> simp [viewMembers, named_names]

theorem dec_names (l : List (Bytes × Bytes)) : (l.map (dec inferredR)).map (·.1) = l.map (·.1) := by
  simp [List.map_map, Function.comp_def, dec]

/-- a table the regex wrapper builds, in any iteration order, is a Go-typed table with distinct names -/
theorem regex_typed (names : List Bytes) (order : List (Bytes × Int)) (indices : List Int)
    (hp : order.Perm (regexNameTable names)) (hn : (names.length : Int) ≤ maxInt64)
    (hl : (indices.length : Int) ≤ maxInt64) :
    GoTyped order indices ∧ (order.map (·.1)).Nodup := by
  refine ⟨⟨?_, hl⟩, ?_⟩
  · intro p hpm
    have := regexNameTable_entry names p (hp.mem_iff.mp hpm)
    unfold minInt64; omega
  · exact (hp.map (·.1)).nodup_iff.mpr (regexNameTable_nodup names)

theorem dissect_typed (tokens : List (Bytes × Bool)) (table order : List (Bytes × Int)) (indices : List Int)
    (ht : dissectNameTable tokens = .ok table) (hp : order.Perm table) (hn : (tokens.length : Int) ≤ maxInt64)
    (hl : (indices.length : Int) ≤ maxInt64) :
    GoTyped order indices ∧ (order.map (·.1)).Nodup := by
  have hi := dissectNameTable_inv tokens table ht
  refine ⟨⟨?_, hl⟩, ?_⟩
  · intro p hpm
    have := hi.2 p (hp.mem_iff.mp hpm)
    unfold minInt64; omega
  · exact (hp.map (·.1)).nodup_iff.mpr hi.1

end Rare.C16
