import Rare.Proofs.C14RenderU
/-!
# C14: the key column of the histogram and the bar graph (after f0d0278, cde79bf)

`padVisible(key, w)` pads in VISIBLE characters (`color.StrLen`), the unit in which the writers track the width of
the key column.  So for every key that does not end inside a colour sequence and is at most `w` wide, the
coloured, padded key is exactly `w` cells wide – multi-byte keys, keys with colour sequences (`{color red {1}}`),
truncated UTF-8 – and what follows it (the count of a histogram line, the bar of a bar graph line) starts at
the same visible offset in every row.
-/
namespace Rare.C14
open Rare Rare.C20

theorem decode_append_blanks (c : Bytes) (k : Nat) :
    decodeUtf8 (c ++ List.replicate k (32 : UInt8)) = decodeUtf8 c ++ List.replicate k 32 := by
  cases k with
  | zero => simp
  | succ m =>
    rw [List.replicate_succ, decodeUtf8_before_ascii c 32 (by decide), decode_blanks m]
    simp [List.replicate_succ]

/-- blanks after a text that does not end inside a colour sequence: still not inside one -/
theorem terminated_blanks (env : Env) (c : Bytes) (k : Nat) (ht : Terminated env c) :
    Terminated env (c ++ List.replicate k (32 : UInt8)) := by
  intro hc
  rw [decode_append_blanks, codeState_append, ht hc, codeState_blanks]

/-- … and each blank is one visible cell -/
theorem strLen_blanks_after (env : Env) (c : Bytes) (k : Nat) (ht : Terminated env c) :
    strLen env (c ++ List.replicate k (32 : UInt8)) = strLen env c + k := by
  unfold strLen
  rw [decode_append_blanks]
  by_cases hcol : env.color
  · simp only [hcol, Bool.not_true, Bool.false_eq_true, if_false]
    rw [strLenGo_append, ht hcol, strLenGo_blanks]
    omega
  · simp only [hcol, Bool.not_false, if_true, List.length_append, List.length_replicate]
    omega

theorem spaces_eq (n : Int) : spaces n = List.replicate n.toNat (32 : UInt8) := rfl

/-- `padVisible(key, w)`: `max(w, StrLen(key))` cells wide, and it does not end inside a colour sequence -/
theorem padVis_props (env : Env) (key : Bytes) (w : Int) (ht : Terminated env key) :
    strLen env (padVis env key w) = (if strLen env key ≤ w then w else strLen env key) ∧ Terminated env (padVis env key w) := by
  unfold padVis
  rw [spaces_eq]
  refine ⟨?_, terminated_blanks env key _ ht⟩
  rw [strLen_blanks_after env key _ ht]
  split <;> omega

/-- THE KEY CELL: the coloured padded key followed by `gap ≥ 1` blanks is exactly `w + gap` cells wide, for every key at most
`w` wide that does not end inside a colour sequence; what follows starts at visible offset `w + gap` -/
theorem keyCell_width (env : Env) (key : Bytes) (w : Int) (gap : Nat) (ht : Terminated env key) (hw : strLen env key ≤ w) :
    strLen env (wrap env cYellow (padVis env key w) ++ List.replicate (gap + 1) (32 : UInt8)) = w + (gap + 1 : Nat) ∧
    Terminated env (wrap env cYellow (padVis env key w) ++ List.replicate (gap + 1) (32 : UInt8)) := by
  obtain ⟨p1, p2⟩ := padVis_props env key w ht
  obtain ⟨w1, w2⟩ := wrapYellow_props env (padVis env key w) p2
  refine ⟨?_, terminated_blanks env _ _ w2⟩
  rw [strLen_blanks_after env _ _ w2, w1, p1, if_pos hw]

/-- the indentation of the lower lines of a grouped row is as wide as the key cell -/
theorem indent_width (env : Env) (w : Int) (h0 : 0 ≤ w) : strLen env (spaces (w + 2)) = w + 2 := by
  have := strLen_blanks_after env [] (w + 2).toNat (by intro _; rfl)
  rw [List.nil_append, strLen_nil] at this
  rw [spaces_eq, this]; omega

/-- outside the class: a key that ENDS INSIDE a colour sequence swallows the padding blanks in `StrLen`'s own scan –
the padded key `ESC [ 3` + 13 blanks is 0 cells wide, not 16 -/
theorem keyCell_unterminated_counterexample :
    strLen ⟨true, true⟩ (27 :: ascii "[3") = 0 ∧ ¬ Terminated ⟨true, true⟩ (27 :: ascii "[3") ∧
    strLen ⟨true, true⟩ (wrap ⟨true, true⟩ cYellow (padVis ⟨true, true⟩ (27 :: ascii "[3") 16) ++ ascii "    ") ≠ 16 + 4 := by
  refine ⟨by decide +kernel, fun h => absurd (h rfl) (by decide +kernel), by decide +kernel⟩

/-! ### histogram -/

/-- a histogram line is the key cell (`textSpacing + 4` cells), then the number -/
theorem histo_line_key_cell (env : Env) (h : Histo) (key : Bytes) (val : Int) {α : Type} (A : Arith α) :
    ∃ tail, h.lineText A env key val =
      (wrap env cYellow (padVis env key h.textSpacing) ++ List.replicate 4 (32 : UInt8)) ++ (h.fmt.apply val 0 h.maxVal ++ tail) := by
  obtain ⟨tail, ht, _⟩ := histo_lineText_shape (A := A) env h key val
  refine ⟨spaces (10 - (decodeUtf8 (h.fmt.apply val 0 h.maxVal)).length) ++ tail, ?_⟩
  rw [ht]
  unfold Histo.lineHead padRight
  have : ascii "    " = List.replicate 4 (32 : UInt8) := by decide +kernel
  rw [this]
  simp [List.append_assoc]

/-- `rest` is on `line` from visible offset `off` on: `line = pre ++ rest` where `pre` is exactly `off` cells wide and does not
end inside a colour sequence -/
def StartsAt (env : Env) (line : Bytes) (off : Int) (rest : Bytes) : Prop :=
  ∃ pre, line = pre ++ rest ∧ strLen env pre = off ∧ Terminated env pre

/-- in a histogram that covers the key (`StrLen(key) ≤ textSpacing`, what `HistoInv` maintains), the number of the line
starts at visible offset `textSpacing + 4` -/
theorem histo_line_number_at (env : Env) (h : Histo) (key : Bytes) (val : Int) {α : Type} (A : Arith α)
    (ht : Terminated env key) (hw : strLen env key ≤ h.textSpacing) :
    ∃ tail, StartsAt env (h.lineText A env key val) (h.textSpacing + 4) (h.fmt.apply val 0 h.maxVal ++ tail) := by
  obtain ⟨tail, e⟩ := histo_line_key_cell env h key val A
  obtain ⟨k1, k2⟩ := keyCell_width env key h.textSpacing 3 ht hw
  exact ⟨tail, _, e, by rw [k1]; rfl, k2⟩

/-! ### bar graph -/

section
variable {α : Type} {A : Arith α}

/-- what follows the key cell on a stacked line: the bar, two blanks, the formatted total -/
def BarCfg.stackedRest (c : BarCfg) (env : Env) (vals : List Int) : Bytes :=
  (match barWriteStacked env c.max c.barSize vals with | .ok b => b | .error _ => []) ++ ascii "  " ++ c.fmt.apply (sumWrap vals) 0 c.max

/-- what follows the key cell (or the indentation) on line `j` of a grouped row: the coloured bar, a blank, the formatted value -/
def BarCfg.groupedRest (c : BarCfg) (A : Arith α) (env : Env) (j : Nat) (v : Int) : Bytes :=
  colorWrite env (groupColors.getD (j % groupColors.length) []) (c.barBytes A env v) ++ [32] ++ c.fmt.apply v 0 c.max

theorem ascii_two_blanks : ascii "  " = List.replicate 2 (32 : UInt8) := by decide +kernel

/-- every line of a drawn row whose key the key column covers: the bar starts at visible offset `keyw + 2` -/
theorem bars_row_key_column (env : Env) (c : BarCfg) (vt : VirtualTerm) (i : Nat) (row : Bytes × List Int)
    (h : RowDrawn A env c vt i row) (ht : Terminated env row.1) (hw : strLen env row.1 ≤ c.keyw) (h0 : 0 ≤ c.keyw) :
    (c.stacked = true → ∃ line, vt.lines[c.rowStart i]? = some line ∧ StartsAt env line (c.keyw + 2) (c.stackedRest env row.2)) ∧
    (c.stacked = false → ∀ (j : Nat) (v : Int), row.2[j]? = some v →
      ∃ line, vt.lines[c.rowStart i + j]? = some line ∧ StartsAt env line (c.keyw + 2) (c.groupedRest A env j v)) := by
  obtain ⟨k1, k2⟩ := keyCell_width env row.1 c.keyw 1 ht hw
  unfold RowDrawn at h
  constructor
  · intro hs
    rw [if_pos hs] at h
    refine ⟨_, h, wrap env cYellow (padVis env row.1 c.keyw) ++ List.replicate 2 (32 : UInt8), ?_, by rw [k1]; rfl, k2⟩
    unfold BarCfg.stackedText BarCfg.stackedRest
    rw [ascii_two_blanks]
    simp only [List.append_assoc]
    generalize barWriteStacked env c.max c.barSize row.2 = r
    cases r <;> rfl
  · intro hs j v hj
    rw [if_neg (by simp [hs])] at h
    refine ⟨_, h j v hj, (if j > 0 then spaces (c.keyw + 2) else wrap env cYellow (padVis env row.1 c.keyw) ++ List.replicate 2 (32 : UInt8)), ?_, ?_, ?_⟩
    · unfold BarCfg.groupedText BarCfg.groupedRest
      rw [ascii_two_blanks]
      simp [List.append_assoc]
    · split
      · exact indent_width env c.keyw h0
      · rw [k1]; rfl
    · split
      · have := terminated_blanks env [] (c.keyw + 2).toNat (by intro _; rfl)
        rwa [List.nil_append] at this
      · exact k2

end

end Rare.C14
