import Rare.Model.C01Trim
import Rare.Proofs.C09Utf8
/-!
`strings.TrimSpace` (Model/C01Trim.lean) against the rune-level specification: the result is empty iff every
rune of `[]rune(s)` (invalid bytes = U+FFFD) is `unicode.IsSpace`; and the `truthy` of the shared expression
model (`Expr.dropSpaceFront`, explicit byte patterns) computes the same thing.
-/
namespace Rare.C01
open Rare.C20 (decode1 decodeUtf8 encodeRune encodeUtf8 runeError validScalar decodeUtf8_cons decodeUtf8_nil)

/-- every rune of `[]rune(s)` is white space -/
def AllSp (s : Bytes) : Prop := ∀ r ∈ decodeUtf8 s, isSpaceR r = true

theorem allSp_nil : AllSp [] := by intro r h; simp [decodeUtf8_nil] at h

theorem allSp_cons (b : UInt8) (tl : Bytes) :
    AllSp (b :: tl) ↔ isSpaceR (decode1 (b :: tl)).1 = true ∧ AllSp (tl.drop ((decode1 (b :: tl)).2 - 1)) := by
  unfold AllSp
  rw [decodeUtf8_cons]
  simp

theorem isSpaceR_valid {r : Nat} (h : isSpaceR r = true) : validScalar r := by
  unfold isSpaceR at h
  unfold validScalar
  split at h
  · omega
  · simp only [Bool.or_eq_true, Bool.and_eq_true, decide_eq_true_eq, beq_iff_eq] at h
    omega

theorem not_space_runeError : isSpaceR runeError = false := by decide

theorem decode1_size_pos (u : Bytes) : 1 ≤ (decode1 u).2 := by
  cases u with
  | nil => simp [decode1]
  | cons b0 tl =>
    rcases C09.decode1_view b0 tl with ⟨_, hd⟩ | ⟨_, _, hd⟩ | ⟨_, _, _, _, _, hd⟩ | ⟨_, _, _, _, _, _, hd⟩ |
        ⟨_, _, _, _, _, _, _, hd⟩ <;> rw [hd] <;> simp

/-- A decoded white-space rune that spans the whole string: the string is its encoding. -/
theorem decode1_full (u : Bytes) (hs : isSpaceR (decode1 u).1 = true) (hn : (decode1 u).2 = u.length) :
    u = encodeRune (decode1 u).1 := by
  cases u with
  | nil => simp [decode1] at hn
  | cons b0 tl =>
    by_cases h0 : C09.seqLen (b0 :: tl) = 0
    · rw [C09.decode1_bad b0 tl h0] at hs
      exact absurd hs (by decide)
    · obtain ⟨h1, h2, _⟩ := C09.decode1_good b0 tl h0
      rw [h2, ← h1, hn, List.take_length]

/-! ### `TrimLeftFunc` -/

theorem trimLeftF_spec : ∀ (f : Nat) (s : Bytes), s.length ≤ f →
    (trimLeftF f s = [] ↔ AllSp s) ∧
    (∀ b tl, trimLeftF f s = b :: tl → isSpaceR (decode1 (b :: tl)).1 = false) := by
  intro f
  induction f with
  | zero =>
    intro s h
    have : s = [] := List.eq_nil_of_length_eq_zero (by omega)
    subst this
    exact ⟨by simp [trimLeftF, allSp_nil], by intro b tl h; simp [trimLeftF] at h⟩
  | succ f ih =>
    intro s h
    cases s with
    | nil => exact ⟨by simp [trimLeftF, allSp_nil], by intro b tl h; simp [trimLeftF] at h⟩
    | cons b tl =>
      simp only [trimLeftF]
      by_cases hsp : isSpaceR (decode1 (b :: tl)).1 = true
      · simp only [hsp, if_true]
        have hl : (tl.drop ((decode1 (b :: tl)).2 - 1)).length ≤ f := by
          simp only [List.length_drop, List.length_cons] at h ⊢; omega
        have := ih _ hl
        refine ⟨?_, this.2⟩
        rw [this.1, allSp_cons]
        simp [hsp]
      · have hsp' : isSpaceR (decode1 (b :: tl)).1 = false := by simpa using hsp
        simp only [hsp', Bool.false_eq_true, if_false]
        refine ⟨?_, ?_⟩
        · simp only [reduceCtorEq, false_iff, allSp_cons, hsp', Bool.false_eq_true, false_and, not_false_eq_true]
        · intro b' tl' he
          obtain ⟨rfl, rfl⟩ := List.cons.inj he
          exact hsp'

/-! ### `DecodeLastRuneInString`, `TrimRightFunc` -/

/-- A white-space rune found by `DecodeLastRuneInString`: the string ends with its encoding, and the width
    reported is that encoding's length. -/
theorem decodeLast_space (s : Bytes) (hne : s ≠ []) (hs : isSpaceR (decodeLast s).1 = true) :
    ∃ p, s = p ++ encodeRune (decodeLast s).1 ∧ (decodeLast s).2 = (encodeRune (decodeLast s).1).length ∧
      1 ≤ (decodeLast s).2 := by
  have hlen : s.length ≠ 0 := by intro h; exact hne (List.eq_nil_of_length_eq_zero h)
  unfold decodeLast at hs ⊢
  simp only [hlen, if_false] at hs ⊢
  by_cases hlast : (s.getD (s.length - 1) 0).toNat < 0x80
  · simp only [hlast, if_true] at hs ⊢
    refine ⟨s.dropLast, ?_, ?_, by simp⟩
    · rw [C09.enc1 _ hlast, C09.ofNat_toNat]
      have hg : s.getD (s.length - 1) 0 = s.getLast hne := by
        rw [List.getLast_eq_getElem]
        simp [List.getD_eq_getElem?_getD, List.getElem?_eq_getElem (show s.length - 1 < s.length by omega)]
      rw [hg, List.dropLast_concat_getLast]
    · rw [C09.enc1 _ hlast]; simp
  · simp only [hlast, if_false] at hs ⊢
    -- the start position found by the backward scan, clamped at 0
    have hst0 : 0 ≤ lastStart s := by unfold lastStart; dsimp only; split <;> omega
    generalize lastStart s = start at hs hst0 ⊢
    by_cases hend : start + ((decode1 (s.drop start.toNat)).2 : Int) ≠ (s.length : Int)
    · rw [if_pos hend] at hs
      exact absurd hs (by decide)
    · rw [if_neg hend] at hs ⊢
      have hend' : start + ((decode1 (s.drop start.toNat)).2 : Int) = (s.length : Int) := by omega
      have hfull : (decode1 (s.drop start.toNat)).2 = (s.drop start.toNat).length := by
        simp only [List.length_drop]; omega
      have hu := decode1_full _ hs hfull
      refine ⟨s.take start.toNat, ?_, ?_, decode1_size_pos _⟩
      · rw [← hu, List.take_append_drop]
      · rw [← hu]; exact hfull

theorem encodeUtf8_append (a b : List Nat) : encodeUtf8 (a ++ b) = encodeUtf8 a ++ encodeUtf8 b := by
  simp [encodeUtf8]

/-- `lastIndexFunc` finds no non-space rune: the string is a concatenation of white-space encodings. -/
theorem lastIndex_none : ∀ (f : Nat) (s : Bytes), s.length < f → lastIndexNotSpace f s = none →
    ∃ rs, (∀ r ∈ rs, isSpaceR r = true) ∧ s = encodeUtf8 rs := by
  intro f
  induction f with
  | zero => intro s h; omega
  | succ f ih =>
    intro s hl h
    unfold lastIndexNotSpace at h
    by_cases h0 : s.length = 0
    · have : s = [] := List.eq_nil_of_length_eq_zero h0
      exact ⟨[], by simp, by simp [this, encodeUtf8]⟩
    · simp only [h0, if_false] at h
      have hne : s ≠ [] := by intro hs; simp [hs] at h0
      by_cases hsp : isSpaceR (decodeLast s).1 = true
      · simp only [hsp, Bool.not_true, Bool.false_eq_true, if_false] at h
        obtain ⟨p, hp, hw, hpos⟩ := decodeLast_space s hne hsp
        have htake : s.take (s.length - (decodeLast s).2) = p := by
          rw [hw]
          generalize (decodeLast s).1 = r at hp
          subst hp
          simp
        rw [htake] at h
        have hpl : p.length < f := by
          have : s.length = p.length + (encodeRune (decodeLast s).1).length := by
            conv => lhs; rw [hp]
            simp
          omega
        obtain ⟨rs, hrs, hpe⟩ := ih p hpl h
        refine ⟨rs ++ [(decodeLast s).1], ?_, ?_⟩
        · intro r hr
          simp only [List.mem_append, List.mem_singleton] at hr
          rcases hr with hr | rfl
          · exact hrs r hr
          · exact hsp
        · rw [encodeUtf8_append, ← hpe]
          simpa [encodeUtf8] using hp
      · have : isSpaceR (decodeLast s).1 = false := by simpa using hsp
        simp [this] at h

/-- `TrimRightFunc` of a string whose first rune is not white space is not empty. -/
theorem trimRight_nonempty (b : UInt8) (tl : Bytes) (h : isSpaceR (decode1 (b :: tl)).1 = false) :
    trimRightFunc (b :: tl) ≠ [] := by
  unfold trimRightFunc
  cases hl : lastIndexNotSpace ((b :: tl).length + 1) (b :: tl) with
  | none =>
    obtain ⟨rs, hrs, he⟩ := lastIndex_none _ _ (by omega) hl
    have hd : decodeUtf8 (b :: tl) = rs := by
      rw [he]; exact Rare.C20.decodeUtf8_encodeUtf8 rs (fun r hr => isSpaceR_valid (hrs r hr))
    rw [decodeUtf8_cons] at hd
    have : isSpaceR (decode1 (b :: tl)).1 = true := hrs _ (by rw [← hd]; simp)
    rw [h] at this; cases this
  | some i =>
    simp only
    have hpos := decode1_size_pos ((b :: tl).drop i)
    split
    · intro he
      have := congrArg List.length he
      simp only [List.length_take, List.length_cons, List.length_nil] at this
      omega
    · intro he
      have := congrArg List.length he
      simp only [List.length_take, List.length_cons, List.length_nil] at this
      omega

theorem trimRight_nil : trimRightFunc [] = [] := by decide

/-- The slow path `TrimFunc(s, unicode.IsSpace)`. -/
theorem trimFunc_empty_iff (s : Bytes) : trimRightFunc (trimLeftFunc s) = [] ↔ AllSp s := by
  have hspec := trimLeftF_spec s.length s (Nat.le_refl _)
  unfold trimLeftFunc
  cases ht : trimLeftF s.length s with
  | nil => rw [← hspec.1, ht]; simp [trimRight_nil]
  | cons b tl =>
    have h1 := hspec.2 b tl ht
    have h2 := trimRight_nonempty b tl h1
    constructor
    · intro h; exact absurd h h2
    · intro h; rw [← hspec.1, ht] at h; cases h

/-! ### the ASCII fast path -/

theorem asciiSpaceB_isSpaceR (c : UInt8) (hc : c.toNat < 0x80) : isSpaceR c.toNat = asciiSpaceB c := by
  have key : ∀ n : Nat, n < 0x80 → isSpaceR n = asciiSpaceB (UInt8.ofNat n) := by decide
  have := key c.toNat hc
  rwa [C09.ofNat_toNat] at this

theorem decode1_ascii (c : UInt8) (r : Bytes) (hc : c.toNat < 0x80) : decode1 (c :: r) = (c.toNat, 1) := by
  simp [decode1, hc]

theorem trimBack_nonempty : ∀ (f : Nat) (c : UInt8) (r : Bytes), c.toNat < 0x80 → asciiSpaceB c = false →
    trimBack f (c :: r) ≠ [] := by
  intro f
  induction f with
  | zero => intro c r _ _; simp [trimBack]
  | succ f ih =>
    intro c r hc hs
    unfold trimBack
    cases hl : (c :: r).getLast? with
    | none => simp at hl
    | some c' =>
      simp only
      split
      · apply trimRight_nonempty
        rw [decode1_ascii c r hc, asciiSpaceB_isSpaceR c hc, hs]
      · split
        · rename_i hsp
          cases r with
          | nil =>
            simp at hl; subst hl; rw [hs] at hsp; cases hsp
          | cons r0 rs =>
            have : (c :: r0 :: rs).dropLast = c :: (r0 :: rs).dropLast := by simp [List.dropLast]
            rw [this]
            exact ih c _ hc hs
        · simp

/-- **`strings.TrimSpace(s) == ""` iff every rune of `s` is white space** (`unicode.IsSpace`; an invalid
    byte is U+FFFD, which is not). -/
theorem trimSpace_empty_iff : ∀ (s : Bytes), trimSpace s = [] ↔ AllSp s := by
  intro s
  induction s with
  | nil => simp [trimSpace, allSp_nil]
  | cons c r ih =>
    unfold trimSpace
    by_cases hc : c.toNat ≥ 0x80
    · simp only [hc, if_true]
      exact trimFunc_empty_iff (c :: r)
    · have hc' : c.toNat < 0x80 := by omega
      simp only [hc, if_false]
      have hcons : AllSp (c :: r) ↔ asciiSpaceB c = true ∧ AllSp r := by
        rw [allSp_cons, decode1_ascii c r hc', asciiSpaceB_isSpaceR c hc']
        simp
      by_cases hs : asciiSpaceB c = true
      · simp only [hs, if_true]
        rw [ih, hcons]; simp [hs]
      · have hs' : asciiSpaceB c = false := by simpa using hs
        simp only [hs', Bool.false_eq_true, if_false]
        rw [hcons]
        simp only [hs', Bool.false_eq_true, false_and, iff_false]
        exact trimBack_nonempty _ c r hc' hs'

/-! ### the `truthy` of the shared expression model (`Expr.dropSpaceFront`: explicit byte patterns) -/

section ExprTruthy
open Rare.C20 (isCont accLo accHi)
open Rare.Expr

theorem u8_eq {b c : UInt8} (h : b.toNat = c.toNat) : b = c := UInt8.toNat_inj.mp h

/-- A white-space rune at the head of a byte string: the head is one of the encodings `dropSpaceFront` knows. -/
theorem space_head (b : UInt8) (r : Bytes) (h : isSpaceR (decode1 (b :: r)).1 = true) :
    isAsciiSpace b = true ∨ (∃ r2, b :: r = 0xC2 :: 0x85 :: r2) ∨ (∃ r2, b :: r = 0xC2 :: 0xA0 :: r2) ∨
    (∃ r3, b :: r = 0xE1 :: 0x9A :: 0x80 :: r3) ∨
    (∃ x r3, b :: r = 0xE2 :: 0x80 :: x :: r3 ∧
      ((0x80 ≤ x.toNat ∧ x.toNat ≤ 0x8A) ∨ x.toNat = 0xA8 ∨ x.toNat = 0xA9 ∨ x.toNat = 0xAF)) ∨
    (∃ r3, b :: r = 0xE2 :: 0x81 :: 0x9F :: r3) ∨ (∃ r3, b :: r = 0xE3 :: 0x80 :: 0x80 :: r3) := by
  rcases C09.decode1_view b r with ⟨_, hd⟩ | ⟨hx, _, hd⟩ | ⟨b1, r', rfl, hr, _, hd⟩ | ⟨b1, b2, r', rfl, hr, _, hd⟩ |
      ⟨b1, b2, b3, r', rfl, hr, _, hd⟩
  · simp only [hd] at h; exact absurd h (by decide)
  · left
    simp only [hd] at h
    have key : ∀ n : Nat, n < 0x80 → isSpaceR n = true → isAsciiSpace (UInt8.ofNat n) = true := by decide
    have := key _ hx h
    rwa [C09.ofNat_toNat] at this
  · have hfst := congrArg Prod.fst hd
    simp only at hfst
    rw [hfst] at h
    simp only [C09.R2] at hr
    have hcp : C09.cp2 b.toNat b1.toNat = (b.toNat - 0xC0) * 64 + (b1.toNat - 0x80) := rfl
    generalize C09.cp2 b.toNat b1.toNat = c at h hcp
    unfold isSpaceR at h
    split at h
    · simp only [Bool.or_eq_true, beq_iff_eq] at h
      have hb : b.toNat = 0xC2 := by omega
      have hb1 : b1.toNat = 0x85 ∨ b1.toNat = 0xA0 := by omega
      rcases hb1 with hb1 | hb1
      · right; left; exact ⟨r', by rw [u8_eq (c := 0xC2) hb, u8_eq (c := 0x85) hb1]⟩
      · right; right; left; exact ⟨r', by rw [u8_eq (c := 0xC2) hb, u8_eq (c := 0xA0) hb1]⟩
    · simp only [Bool.or_eq_true, Bool.and_eq_true, decide_eq_true_eq, beq_iff_eq] at h
      omega
  · have hfst := congrArg Prod.fst hd
    simp only at hfst
    rw [hfst] at h
    simp only [C09.R3] at hr
    have hcp : C09.cp3 b.toNat b1.toNat b2.toNat = (b.toNat - 0xE0) * 4096 + (b1.toNat - 0x80) * 64 + (b2.toNat - 0x80) := rfl
    generalize C09.cp3 b.toNat b1.toNat b2.toNat = c at h hcp
    unfold isSpaceR at h
    split at h
    · omega
    · simp only [Bool.or_eq_true, Bool.and_eq_true, decide_eq_true_eq, beq_iff_eq] at h
      rcases h with (((((h | ⟨h, h'⟩) | h) | h) | h) | h) | h
      · right; right; right; left
        have h0 : b.toNat = 0xE1 := by omega
        have h1 : b1.toNat = 0x9A := by omega
        have h2 : b2.toNat = 0x80 := by omega
        exact ⟨r', by rw [u8_eq (c := 0xE1) h0, u8_eq (c := 0x9A) h1, u8_eq (c := 0x80) h2]⟩
      · right; right; right; right; left
        have h0 : b.toNat = 0xE2 := by omega
        have h1 : b1.toNat = 0x80 := by omega
        exact ⟨b2, r', by rw [u8_eq (c := 0xE2) h0, u8_eq (c := 0x80) h1], by omega⟩
      · right; right; right; right; left
        have h0 : b.toNat = 0xE2 := by omega
        have h1 : b1.toNat = 0x80 := by omega
        exact ⟨b2, r', by rw [u8_eq (c := 0xE2) h0, u8_eq (c := 0x80) h1], by omega⟩
      · right; right; right; right; left
        have h0 : b.toNat = 0xE2 := by omega
        have h1 : b1.toNat = 0x80 := by omega
        exact ⟨b2, r', by rw [u8_eq (c := 0xE2) h0, u8_eq (c := 0x80) h1], by omega⟩
      · right; right; right; right; left
        have h0 : b.toNat = 0xE2 := by omega
        have h1 : b1.toNat = 0x80 := by omega
        exact ⟨b2, r', by rw [u8_eq (c := 0xE2) h0, u8_eq (c := 0x80) h1], by omega⟩
      · right; right; right; right; right; left
        have h0 : b.toNat = 0xE2 := by omega
        have h1 : b1.toNat = 0x81 := by omega
        have h2 : b2.toNat = 0x9F := by omega
        exact ⟨r', by rw [u8_eq (c := 0xE2) h0, u8_eq (c := 0x81) h1, u8_eq (c := 0x9F) h2]⟩
      · right; right; right; right; right; right
        have h0 : b.toNat = 0xE3 := by omega
        have h1 : b1.toNat = 0x80 := by omega
        have h2 : b2.toNat = 0x80 := by omega
        exact ⟨r', by rw [u8_eq (c := 0xE3) h0, u8_eq (c := 0x80) h1, u8_eq (c := 0x80) h2]⟩
  · have hfst := congrArg Prod.fst hd
    simp only at hfst
    rw [hfst] at h
    simp only [C09.R4] at hr
    have hcp : C09.cp4 b.toNat b1.toNat b2.toNat b3.toNat =
        (b.toNat - 0xF0) * 262144 + (b1.toNat - 0x80) * 4096 + (b2.toNat - 0x80) * 64 + (b3.toNat - 0x80) := rfl
    generalize C09.cp4 b.toNat b1.toNat b2.toNat b3.toNat = c at h hcp
    unfold isSpaceR at h
    split at h
    · omega
    · simp only [Bool.or_eq_true, Bool.and_eq_true, decide_eq_true_eq, beq_iff_eq] at h
      omega

theorem allSp_pre2 (y : UInt8) (r2 : Bytes) (hy : y = 0x85 ∨ y = 0xA0) : AllSp (0xC2 :: y :: r2) ↔ AllSp r2 := by
  rw [allSp_cons]
  rcases hy with rfl | rfl
  · have : decode1 (0xC2 :: 0x85 :: r2) = (0x85, 2) := rfl
    rw [this]
    have hs : isSpaceR 0x85 = true := by decide
    exact ⟨fun h => h.2, fun h => ⟨hs, h⟩⟩
  · have : decode1 (0xC2 :: 0xA0 :: r2) = (0xA0, 2) := rfl
    rw [this]
    have hs : isSpaceR 0xA0 = true := by decide
    exact ⟨fun h => h.2, fun h => ⟨hs, h⟩⟩

theorem decode1_3 (x y z : UInt8) (r3 : Bytes) (h : C09.R3 x.toNat y.toNat z.toNat) :
    decode1 (x :: y :: z :: r3) = (C09.cp3 x.toNat y.toNat z.toNat, 3) := by
  simp only [C09.R3] at h
  have h1 : ¬ x.toNat < 0x80 := by omega
  have h2 : ¬ (0xC2 ≤ x.toNat ∧ x.toNat ≤ 0xDF ∧ isCont y.toNat = true) := by omega
  have hlo : accLo x.toNat ≤ y.toNat := by unfold accLo; split <;> (try split) <;> omega
  have hhi : y.toNat ≤ accHi x.toNat := by unfold accHi; split <;> (try split) <;> omega
  have hz : isCont z.toNat = true := by simp [isCont]; omega
  have h3 : 0xE0 ≤ x.toNat ∧ x.toNat ≤ 0xEF ∧ accLo x.toNat ≤ y.toNat ∧ y.toNat ≤ accHi x.toNat ∧ isCont z.toNat = true :=
    ⟨by omega, by omega, hlo, hhi, hz⟩
  cases r3 with
  | nil => rw [C09.decode1_s3, if_neg h1, if_neg h2, if_pos h3]
  | cons b3 r => rw [C09.decode1_s4, if_neg h1, if_neg h2, if_pos h3]

theorem allSp_pre3 (x y z : UInt8) (r3 : Bytes) (h : C09.R3 x.toNat y.toNat z.toNat) :
    AllSp (x :: y :: z :: r3) ↔ isSpaceR (C09.cp3 x.toNat y.toNat z.toNat) = true ∧ AllSp r3 := by
  rw [allSp_cons, decode1_3 x y z r3 h]
  simp

theorem allSp_lit3 (x y z : UInt8) (r3 : Bytes) (h : C09.R3 x.toNat y.toNat z.toNat)
    (hs : isSpaceR (C09.cp3 x.toNat y.toNat z.toNat) = true) : AllSp (x :: y :: z :: r3) ↔ AllSp r3 := by
  rw [allSp_pre3 x y z r3 h]
  exact ⟨fun h => h.2, fun h => ⟨hs, h⟩⟩

theorem e280_cond (x : UInt8) :
    ((decide (128 ≤ x) && decide (x ≤ 138) || x == 168 || x == 169 || x == 175) = true) ↔
    ((0x80 ≤ x.toNat ∧ x.toNat ≤ 0x8A) ∨ x.toNat = 0xA8 ∨ x.toNat = 0xA9 ∨ x.toNat = 0xAF) := by
  have key : ∀ n : Nat, n < 256 →
      (((decide (128 ≤ UInt8.ofNat n) && decide (UInt8.ofNat n ≤ 138) || UInt8.ofNat n == 168 || UInt8.ofNat n == 169 ||
        UInt8.ofNat n == 175) = true) ↔ ((0x80 ≤ n ∧ n ≤ 0x8A) ∨ n = 0xA8 ∨ n = 0xA9 ∨ n = 0xAF)) := by decide +kernel
  have := key x.toNat (UInt8.toNat_lt x)
  rwa [C09.ofNat_toNat] at this

theorem e280_space (x : UInt8) (h : (0x80 ≤ x.toNat ∧ x.toNat ≤ 0x8A) ∨ x.toNat = 0xA8 ∨ x.toNat = 0xA9 ∨ x.toNat = 0xAF) :
    C09.R3 (0xE2 : UInt8).toNat (0x80 : UInt8).toNat x.toNat ∧
    isSpaceR (C09.cp3 (0xE2 : UInt8).toNat (0x80 : UInt8).toNat x.toNat) = true := by
  have e1 : (0xE2 : UInt8).toNat = 0xE2 := rfl
  have e2 : (0x80 : UInt8).toNat = 0x80 := rfl
  rw [e1, e2]
  constructor
  · unfold C09.R3; omega
  · have hcp : C09.cp3 0xE2 0x80 x.toNat = 0x2000 + (x.toNat - 0x80) := by unfold C09.cp3; omega
    rw [hcp]
    unfold isSpaceR
    have : ¬ (0x2000 + (x.toNat - 0x80) ≤ 0xFF) := by omega
    rw [if_neg this]
    simp only [Bool.or_eq_true, Bool.and_eq_true, decide_eq_true_eq, beq_iff_eq]
    omega

theorem isAsciiSpace_lt (b : UInt8) (h : isAsciiSpace b = true) : b.toNat < 0x80 := by
  have key : ∀ n : Nat, n < 256 → isAsciiSpace (UInt8.ofNat n) = true → n < 0x80 := by decide +kernel
  have := key b.toNat (UInt8.toNat_lt b) (by rwa [C09.ofNat_toNat])
  exact this

theorem isAsciiSpace_asciiSpaceB (b : UInt8) : isAsciiSpace b = asciiSpaceB b := by
  have key : ∀ n : Nat, n < 256 → isAsciiSpace (UInt8.ofNat n) = asciiSpaceB (UInt8.ofNat n) := by decide +kernel
  have := key b.toNat (UInt8.toNat_lt b)
  rwa [C09.ofNat_toNat] at this

/-- The `truthy` of the shared expression model strips exactly the white-space runes: what is left is empty
    iff every rune of the string is white space. -/
theorem dropSpaceFront_spec : ∀ (n : Nat) (s : Bytes), s.length < n → (dropSpaceFront n s = [] ↔ AllSp s) := by
  intro n
  induction n with
  | zero => intro s h; omega
  | succ f ih =>
    intro s hl
    cases s with
    | nil => simp [dropSpaceFront, allSp_nil]
    | cons b r =>
      have hlr : r.length < f := by simp at hl; omega
      by_cases hb : isAsciiSpace b = true
      · have hlt := isAsciiSpace_lt b hb
        unfold dropSpaceFront
        simp only [hb, if_true]
        rw [ih r hlr, allSp_cons, decode1_ascii b r hlt, asciiSpaceB_isSpaceR b hlt, ← isAsciiSpace_asciiSpaceB, hb]
        simp
      · have hb' : isAsciiSpace b = false := by simpa using hb
        have hhead := space_head b r
        unfold dropSpaceFront
        simp only [hb', Bool.false_eq_true, if_false]
        split
        · rename_i r2 heq
          rw [heq, allSp_pre2 _ r2 (Or.inl rfl)]
          have : r2.length < f := by
            have := congrArg List.length heq; simp at this; omega
          exact ih r2 this
        · rename_i r2 heq
          rw [heq, allSp_pre2 _ r2 (Or.inr rfl)]
          have : r2.length < f := by
            have := congrArg List.length heq; simp at this; omega
          exact ih r2 this
        · rename_i r3 heq
          have hl3 : r3.length < f := by
            have := congrArg List.length heq; simp at this; omega
          rw [heq, allSp_lit3 0xE1 0x9A 0x80 r3 (by unfold C09.R3; decide) (by decide)]
          exact ih r3 hl3
        · rename_i x r3 heq
          have hl3 : r3.length < f := by
            have := congrArg List.length heq; simp at this; omega
          by_cases hc : (decide (128 ≤ x) && decide (x ≤ 138) || x == 168 || x == 169 || x == 175) = true
          · rw [if_pos hc]
            obtain ⟨hR, hS⟩ := e280_space x ((e280_cond x).mp hc)
            rw [heq, allSp_lit3 0xE2 0x80 x r3 hR hS]
            exact ih r3 hl3
          · rw [if_neg hc]
            simp only [reduceCtorEq, false_iff]
            intro hall
            have hsp := ((allSp_cons b r).mp hall).1
            rcases hhead hsp with h | ⟨r2, h⟩ | ⟨r2, h⟩ | ⟨r3', h⟩ | ⟨x', r3', h, hx'⟩ | ⟨r3', h⟩ | ⟨r3', h⟩
            · rw [hb'] at h; cases h
            · rw [heq] at h; simp at h
            · rw [heq] at h; simp at h
            · rw [heq] at h; simp at h
            · rw [heq] at h
              simp only [List.cons.injEq, true_and] at h
              obtain ⟨rfl, _⟩ := h
              exact hc ((e280_cond x).mpr hx')
            · rw [heq] at h; simp at h
            · rw [heq] at h; simp at h
        · rename_i r3 heq
          have hl3 : r3.length < f := by
            have := congrArg List.length heq; simp at this; omega
          rw [heq, allSp_lit3 0xE2 0x81 0x9F r3 (by unfold C09.R3; decide) (by decide)]
          exact ih r3 hl3
        · rename_i r3 heq
          have hl3 : r3.length < f := by
            have := congrArg List.length heq; simp at this; omega
          rw [heq, allSp_lit3 0xE3 0x80 0x80 r3 (by unfold C09.R3; decide) (by decide)]
          exact ih r3 hl3
        · rename_i n1 n2 n3 n4 n5 n6
          simp only [reduceCtorEq, false_iff]
          intro hall
          have hsp := ((allSp_cons b r).mp hall).1
          rcases hhead hsp with h | ⟨r2, h⟩ | ⟨r2, h⟩ | ⟨r3, h⟩ | ⟨x, r3, h, _⟩ | ⟨r3, h⟩ | ⟨r3, h⟩
          · rw [hb'] at h; cases h
          · exact n1 _ h
          · exact n2 _ h
          · exact n3 _ h
          · exact n4 _ _ h
          · exact n5 _ h
          · exact n6 _ h


/-- `Expr.truthy` (shared expression model) is truthy iff some rune of the string is not white space. -/
theorem truthy_iff_not_allSp (s : Bytes) : Expr.truthy s = true ↔ ¬ AllSp s := by
  unfold Expr.truthy
  rw [← dropSpaceFront_spec (s.length + 1) s (by omega)]
  cases dropSpaceFront (s.length + 1) s <;> simp

/-- The shared model's `truthy` is Go's `Truthy` (`strings.TrimSpace(s) != ""`) on every byte string. -/
theorem truthy_eq_truthyGo (s : Bytes) : Expr.truthy s = truthyGo s := by
  have h1 := truthy_iff_not_allSp s
  have h2 := trimSpace_empty_iff s
  unfold truthyGo
  cases ht : Expr.truthy s with
  | true =>
    have : ¬ AllSp s := h1.mp ht
    have : trimSpace s ≠ [] := fun h => this (h2.mp h)
    cases hts : trimSpace s with
    | nil => exact absurd hts this
    | cons a b => rfl
  | false =>
    have : AllSp s := by
      by_cases h : AllSp s
      · exact h
      · have := h1.mpr h; rw [ht] at this; cases this
    have := h2.mpr this
    rw [this]; rfl

end ExprTruthy

end Rare.C01
