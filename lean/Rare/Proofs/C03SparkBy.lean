import Rare.Proofs.C03SparkCsv
import Rare.Proofs.C03Sbv
/-!
`rare spark` with the column sorter of `--sort-cols` as a parameter of the executable model (`sparkTrimBy`, `sparkRunBy`,
`sparkCmdBy`): every sorter a `text` / `numeric` name denotes (any spelling, any modifier) ranks columns with different
names by a `NameOrder` on the names alone, so `spark_final` applies to the model the `tbl` / `cmd` ops run with
`--sort-cols numeric` (spark's default), `text:desc`, `NUMERIC:rev` … – not only with the plain `text` order.
-/
namespace Rare.C03
open Rare.C07 Rare.C13

/-- `less` ranks two rows with different names by the name order `lt` alone (values never looked at) -/
def NameLess (lt : Bytes → Bytes → Bool) (less : NV → NV → Bool) : Prop :=
  ∀ a b : NV, a.name ≠ b.name → less a b = lt a.name b.name

theorem NameOrder.flip {lt : Bytes → Bytes → Bool} (ho : NameOrder lt) : NameOrder (fun a b => lt b a) :=
  ⟨fun a => ho.irrefl a, fun a b c hab hbc => ho.trans c b a hbc hab, fun a b hne => (ho.total a b hne).symm⟩

theorem NameOrder.not_eq_flip {lt : Bytes → Bytes → Bool} (ho : NameOrder lt) {a b : Bytes} (hne : a ≠ b) :
    (!lt a b) = lt b a := by
  rcases ho.total a b hne with h | h
  · rw [h, ho.asymm h]; rfl
  · rw [h, ho.asymm h]; rfl

theorem nameLess_rev {lt : Bytes → Bytes → Bool} {less : NV → NV → Bool} (ho : NameOrder lt) (hl : NameLess lt less) :
    NameLess (fun a b => lt b a) (revLess less) := by
  intro a b hne
  show (!less a b) = lt b.name a.name
  rw [hl a b hne]
  exact ho.not_eq_flip hne

theorem nameLess_text : NameLess bytesLt nvNameLess := fun _ _ _ => rfl
theorem nameLess_numeric : NameLess byNameSmartF nvSmartLess := fun _ _ _ => rfl

theorem smart_nameOrder (hs : StrictTotalOn (fun _ => True) byNameSmartF) : NameOrder byNameSmartF :=
  ⟨fun a => hs.irrefl a trivial, fun a b c => hs.trans a b c trivial trivial trivial, fun a b => hs.total a b trivial trivial⟩

/-- The comparators of the sort names that are NOT value-ordered (`SortsByValue` false) and pure: `text`, `numeric`, reversed or not. -/
theorem pureSortLess_name_cases (f : Bytes) (less : NV → NV → Bool) (h : pureSortLess f = some less)
    (hv : sortsByValue f = false) :
    less = nvNameLess ∨ less = revLess nvNameLess ∨ less = nvSmartLess ∨ less = revLess nvSmartLess := by
  cases hp : parseSort lowerK f with
  | error e =>
    rw [pureSortLess_error f (by rw [hp]; rfl)] at h; cases h
  | ok p =>
    obtain ⟨name, rev⟩ := p
    have hto : (parseSort lowerK f).toOption = some (name, rev) := by rw [hp]; rfl
    cases hm : lookupMode lowerK name with
    | none =>
      unfold pureSortLess at h
      rw [hp] at h; simp only at h; rw [hm] at h; cases h
    | some m =>
      cases m with
      | text =>
        rw [pureSortLess_text f name rev hto hm] at h
        cases rev
        · left; simp only [cond_false, Option.some.injEq] at h; exact h.symm
        · right; left; simp only [cond_true, Option.some.injEq] at h; exact h.symm
      | numeric =>
        rw [pureSortLess_numeric f name rev hto hm] at h
        cases rev
        · right; right; left; simp only [cond_false, Option.some.injEq] at h; exact h.symm
        · right; right; right; simp only [cond_true, Option.some.injEq] at h; exact h.symm
      | value =>
        have : sortsByValue f = true := (sortsByValue_iff_built f).mpr ⟨rev, by unfold builtSorter; rw [hp]; simp only; rw [hm]⟩
        rw [this] at hv; cases hv
      | contextual =>
        rw [pureSortLess_infer f name rev .contextual hto hm (by decide)] at h; cases h
      | date =>
        rw [pureSortLess_infer f name rev .date hto hm (by decide)] at h; cases h

/-- … each of them ranks columns by a strict total order on the column NAMES. -/
theorem pureSortLess_nameLess (hs : StrictTotalOn (fun _ => True) byNameSmartF) (f : Bytes) (less : NV → NV → Bool)
    (h : pureSortLess f = some less) (hv : sortsByValue f = false) :
    ∃ lt : Bytes → Bytes → Bool, NameOrder lt ∧ NameLess lt less := by
  rcases pureSortLess_name_cases f less h hv with rfl | rfl | rfl | rfl
  · exact ⟨bytesLt, bytesLt_nameOrder, nameLess_text⟩
  · exact ⟨_, bytesLt_nameOrder.flip, nameLess_rev bytesLt_nameOrder nameLess_text⟩
  · exact ⟨byNameSmartF, smart_nameOrder hs, nameLess_numeric⟩
  · exact ⟨_, (smart_nameOrder hs).flip, nameLess_rev (smart_nameOrder hs) nameLess_numeric⟩

/-! ### the executable model with a column sorter -/

/-- the column list `sparkTrimBy` sorts -/
def sparkColsBy (less : NV → NV → Bool) (t : Table) : List Bytes :=
  (isort less ((akeys t.cols).map fun c => (⟨c, t.colTotal c⟩ : NV))).map (·.name)

theorem sparkTrimBy_eq (less : NV → NV → Bool) (n : Nat) (t : Table) :
    sparkTrimBy less n t = renderStep n t (sparkColsBy less t) (akeys t.cols) (fun _ => akeys t.rows) := rfl

theorem sparkTrimBy_text (n : Nat) (t : Table) : sparkTrimBy nvNameLess n t = sparkTrim n t := rfl

theorem sparkRunBy_text (n : Nat) (d : Bytes) (evs : List SparkEv) : sparkRunBy nvNameLess n d evs = sparkRun n d evs := by
  unfold sparkRunBy sparkRun
  congr 1

theorem sparkColsBy_sorted {lt : Bytes → Bytes → Bool} {less : NV → NV → Bool} (hl : NameLess lt less)
    (hord : ∀ items : List NV, (items.map (·.name)).Nodup → OrderOn (· ∈ items) less)
    (t : Table) (h : (akeys t.cols).Nodup) : IsSortedCols lt t (sparkColsBy less t) := by
  have hnd := nv_names_nodup (akeys t.cols) t.colTotal h
  have hs := isort_sorted (nodup_map_inj _ _ hnd).1 (hord _ hnd)
  constructor
  · have := hs.1.map (·.name)
    simpa [sparkColsBy, List.map_map, Function.comp_def] using this
  · unfold sparkColsBy SortedBy
    rw [List.pairwise_map]
    have hnd' : ((isort less ((akeys t.cols).map fun c => (⟨c, t.colTotal c⟩ : NV))).map (·.name)).Nodup :=
      (hs.1.map (·.name)).nodup_iff.mpr hnd
    have hne : (isort less ((akeys t.cols).map fun c => (⟨c, t.colTotal c⟩ : NV))).Pairwise (fun a b => a.name ≠ b.name) := by
      unfold List.Nodup at hnd'
      rw [List.pairwise_map] at hnd'
      exact hnd'
    refine (hs.2.and hne).imp ?_
    intro a b hab
    rw [← hl a b hab.2]
    exact hab.1

theorem sparkRunBy_reach_aux {lt : Bytes → Bytes → Bool} {less : NV → NV → Bool} (hl : NameLess lt less)
    (hord : ∀ items : List NV, (items.map (·.name)).Nodup → OrderOn (· ∈ items) less) (n : Nat) (d : Bytes) :
    ∀ (evs : List SparkEv) (h : List Bytes) (t : Table), SparkReach lt n d h t →
      SparkReach lt n d (h ++ sparkSamples evs) (evs.foldl (sparkStepBy less n) t) := by
  intro evs
  induction evs with
  | nil => intro h t hr; simpa [sparkSamples] using hr
  | cons ev evs ih =>
    intro h t hr
    cases ev with
    | sample e =>
      have := ih (h ++ [e]) (t.sample e) (SparkReach.sample h t e hr)
      simpa [sparkSamples, sparkStepBy, List.append_assoc] using this
    | render =>
      have hr' : SparkReach lt n d h (sparkTrimBy less n t) := by
        rw [sparkTrimBy_eq]
        exact SparkReach.render h t _ _ _ hr (sparkColsBy_sorted hl hord t (reach_nd hr).2) (covers_self t)
      have := ih h (sparkTrimBy less n t) hr'
      simpa [sparkSamples, sparkStepBy] using this

/-- the executable run with ANY name-ordered column sorter is a reachable table of the relational model -/
theorem sparkRunBy_reach {lt : Bytes → Bytes → Bool} {less : NV → NV → Bool} (hl : NameLess lt less)
    (hord : ∀ items : List NV, (items.map (·.name)).Nodup → OrderOn (· ∈ items) less) (n : Nat) (d : Bytes) (evs : List SparkEv) :
    SparkReach lt n d (sparkSamples evs) (sparkRunBy less n d evs) := by
  have := sparkRunBy_reach_aux hl hord n d evs [] { delim := d } SparkReach.init
  simpa [sparkRunBy] using this

theorem sparkTrimBy_nd (less : NV → NV → Bool) (n : Nat) (t : Table) (hr : (akeys t.rows).Nodup) (hc : (akeys t.cols).Nodup) :
    (akeys (sparkTrimBy less n t).rows).Nodup ∧ (akeys (sparkTrimBy less n t).cols).Nodup := by
  rw [sparkTrimBy_eq]; exact renderStep_nd n t _ _ _ hr hc

/-- Final render after any script = one render on the sequential table, for the executable model with a name-ordered sorter. -/
theorem sparkBy_final {lt : Bytes → Bytes → Bool} {less : NV → NV → Bool} (ho : NameOrder lt) (hl : NameLess lt less)
    (hord : ∀ items : List NV, (items.map (·.name)).Nodup → OrderOn (· ∈ items) less)
    (n : Nat) (d : Bytes) (hd : d ≠ []) (evs : List SparkEv) :
    (∀ c r, (sparkTrimBy less n (sparkRunBy less n d evs)).cell c r =
      (sparkTrimBy less n (Table.run d (sparkSamples evs))).cell c r) ∧
    (∀ r, (aget (sparkTrimBy less n (sparkRunBy less n d evs)).rows r).isSome =
      (aget (sparkTrimBy less n (Table.run d (sparkSamples evs))).rows r).isSome) ∧
    (∀ c, (aget (sparkTrimBy less n (sparkRunBy less n d evs)).cols c).isSome =
      (aget (sparkTrimBy less n (Table.run d (sparkSamples evs))).cols c).isSome) ∧
    (sparkTrimBy less n (sparkRunBy less n d evs)).errors = (sparkTrimBy less n (Table.run d (sparkSamples evs))).errors := by
  have hr := sparkRunBy_reach hl hord n d evs
  have hn := (reach_nd hr).2
  have hnF := (C07.tableInv_run d hd (sparkSamples evs)).nodupCols
  simp only [sparkTrimBy_eq]
  have := spark_final ho n d hd _ _ hr _ _ _ (sparkColsBy_sorted hl hord _ hn) (covers_self _)
    _ _ _ (sparkColsBy_sorted hl hord _ hnF) (covers_self _)
  exact ⟨this.1, this.2.1, this.2.2.1, this.2.2.2.1⟩

end Rare.C03
