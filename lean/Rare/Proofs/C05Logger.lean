import Rare.Model.C05Logger
namespace Rare.C05Logger

theorem printedBy_append (a b : List Msg) (i : Nat) : printedBy (a ++ b) i = printedBy a i ++ printedBy b i := by
  simp [printedBy]

theorem printedBy_single_self (i : Nat) (m : String) : printedBy [(i, m)] i = [m] := by
  simp [printedBy]

theorem printedBy_single_other {i j : Nat} (m : String) (h : j ≠ i) : printedBy [(i, m)] j = [] := by
  simp [printedBy, Ne.symm h]

structure Inv (script : Nat → List String) (s : St) : Prop where
  /-- RWMutex: while a controlling call holds the lock exclusively no printer is between RLock and RUnlock -/
  excl : s.writer.isSome = true → ∀ i, (s.pr i).pc = 0
  /-- stderr followed by the buffer is everything printed so far, in the order it was printed -/
  emit : s.err ++ s.buf = s.emitted
  /-- the buffer only holds something while logs are deferred -/
  bufNil : s.deferred = false → s.buf = []
  /-- per goroutine: what it has printed followed by what it still has to print is its script -/
  per : ∀ i, printedBy s.emitted i ++ (s.pr i).todo = script i

theorem inv_init (script : Nat → List String) (ctl : List Ctl) : Inv script (init script ctl) :=
  ⟨by simp [init], by simp [init], by simp [init], by simp [init, printedBy]⟩

theorem inv_step {script : Nat → List String} {s s' : St} (h : Inv script s) (hs : Step s s') : Inv script s' := by
  obtain ⟨l, rf, hrf, hst⟩ := hs
  cases l with
  | rlock i =>
    simp only [step] at hst
    split at hst
    · rename_i hw hpc htodo
      cases hst
      refine ⟨fun hw' => by simp [hw] at hw', h.emit, h.bufNil, ?_⟩
      intro j
      have := h.per j
      by_cases hj : j = i
      · subst hj; simpa [setP] using this
      · simpa [setP, hj] using this
    · cases hst
  | print i =>
    simp only [step] at hst
    split at hst
    · rename_i m rest hpc htodo
      have hnw : s.writer.isSome ≠ true := by
        intro hw; have := h.excl hw i; omega
      have hper : ∀ j, printedBy (s.emitted ++ [(i, m)]) j ++ (setP s.pr i { pc := 2, todo := rest } j).todo = script j := by
        intro j
        have := h.per j
        by_cases hj : j = i
        · subst hj
          rw [htodo] at this
          simp [setP, printedBy_append, printedBy_single_self, ← this]
        · simp [setP, hj, printedBy_append, printedBy_single_other m hj, this]
      cases hd : s.deferred with
      | true =>
        simp [hd] at hst; cases hst
        refine ⟨fun hw => absurd hw hnw, ?_, fun hf => by simp at hf, hper⟩
        simp [← h.emit]
      | false =>
        simp [hd] at hst; cases hst
        have hb := h.bufNil hd
        refine ⟨fun hw => absurd hw hnw, ?_, fun _ => hb, hper⟩
        simp [← h.emit, hb]
    · cases hst
  | runlock i =>
    simp only [step] at hst
    split at hst
    · rename_i hpc
      cases hst
      have hnw : s.writer.isSome ≠ true := by
        intro hw; have := h.excl hw i; omega
      refine ⟨fun hw => absurd hw hnw, h.emit, h.bufNil, ?_⟩
      intro j
      have := h.per j
      by_cases hj : j = i
      · subst hj; simpa [setP] using this
      · simpa [setP, hj] using this
    · cases hst
  | wlock =>
    simp only [step] at hst
    split at hst
    · rename_i c rest hw hctl
      split at hst
      · rename_i hr
        cases hst
        exact ⟨fun _ => hrf hr, h.emit, h.bufNil, h.per⟩
      · cases hst
    · cases hst
  | wbody =>
    simp only [step] at hst
    split at hst
    · rename_i c hw
      cases hst
      cases c with
      | defer =>
        cases hd : s.deferred with
        | true => exact ⟨by simp, by simpa [ctlBody, hd] using h.emit, by simp [ctlBody, hd], by simpa [ctlBody, hd] using h.per⟩
        | false =>
          have hb := h.bufNil hd
          exact ⟨by simp, by simpa [ctlBody, hd] using h.emit, by simp [ctlBody, hd], by simpa [ctlBody, hd] using h.per⟩
      | immediate =>
        cases hd : s.deferred with
        | true => exact ⟨by simp, by simpa [ctlBody, hd] using h.emit, by simp [ctlBody, hd], by simpa [ctlBody, hd] using h.per⟩
        | false => exact ⟨by simp, by simpa [ctlBody, hd] using h.emit, by simpa [ctlBody, hd] using h.bufNil hd, by simpa [ctlBody, hd] using h.per⟩
    · cases hst

theorem inv_reach {script : Nat → List String} {ctl : List Ctl} {s : St} (hr : Reach (init script ctl) s) : Inv script s := by
  induction hr with
  | refl => exact inv_init script ctl
  | step _ hs ih => exact inv_step ih hs

/-- The flush itself: `ImmediateLogs` moves the whole buffer to stderr in one piece and leaves immediate mode. -/
theorem ctlBody_immediate (s : St) :
    (ctlBody s .immediate).err ++ (ctlBody s .immediate).buf = s.err ++ s.buf ∧
    ((ctlBody s .immediate).deferred = false) ∧ (s.deferred = true → (ctlBody s .immediate).buf = []) := by
  cases hd : s.deferred <;> simp [ctlBody, hd]

namespace Demo
def sc : Nat → List String := fun i => if i = 0 then ["e1"] else []
def nx (s : St) (rf : Bool) (l : Label) : St := (step s rf l).getD s
def t0 := init sc [.defer, .immediate]
def t1 := nx t0 true .wlock
def t2 := nx t1 false .wbody
def t3 := nx t2 false (.rlock 0)
def t4 := nx t3 false (.print 0)
def t5 := nx t4 false (.runlock 0)
def t6 := nx t5 true .wlock
def t7 := nx t6 false .wbody

theorem demo : Reach t0 t7 ∧ (∀ i, (t7.pr i).todo = []) ∧ t7.deferred = false ∧
    t7.err = [(0, "e1")] ∧ t7.buf = [] ∧ t4.buf = [(0, "e1")] ∧ t4.err = [] := by
  have s1 : Step t0 t1 := .mk _ _ .wlock true (fun _ _ => rfl) rfl
  have s2 : Step t1 t2 := .mk _ _ .wbody false (by simp) rfl
  have s3 : Step t2 t3 := .mk _ _ (.rlock 0) false (by simp) rfl
  have s4 : Step t3 t4 := .mk _ _ (.print 0) false (by simp) rfl
  have s5 : Step t4 t5 := .mk _ _ (.runlock 0) false (by simp) rfl
  have s6 : Step t5 t6 := .mk _ _ .wlock true (by intro _ i; by_cases h : i = 0 <;> simp [t5, t4, t3, t2, t1, t0, nx, step, setP, init, sc, ctlBody, h]) rfl
  have s7 : Step t6 t7 := .mk _ _ .wbody false (by simp) rfl
  refine ⟨.step (.step (.step (.step (.step (.step (.step .refl s1) s2) s3) s4) s5) s6) s7, ?_, rfl, rfl, rfl, rfl, rfl⟩
  intro i; by_cases h : i = 0 <;> simp [t7, t6, t5, t4, t3, t2, t1, t0, nx, step, setP, init, sc, ctlBody, h]
end Demo

end Rare.C05Logger
