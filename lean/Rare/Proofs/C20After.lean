import Rare.Proofs.C20Close2
import Rare.Model.C20Items
/-! C20 round 4c: the live writer with `Close()` calls IN THE MIDDLE of a history (writes after Close).

`Close()` leaves the terminal's cursor one row below `maxLine` while the writer still believes it is
on `maxLine`: every update after `d` Closes is drawn `d` rows lower.  The invariant `Inv3` is `Inv2`
with that offset: the history is kept in PHYSICAL lines (`l + d` for a write to line `l` after `d`
Closes), the writer's `cursor` / `maxLine` are compared with the terminal after adding `d`, and the
writer's `cursorHidden` no longer mirrors the terminal (after a Close the cursor is visible but the
writer never hides it again) – only "not hidden ⇒ visible" is kept. -/
namespace Rare.C20

/-- One `WriteForLine(l, txt)` without the assumption that `cursorHidden` mirrors the terminal: the
hide sequence is sent only when the writer believes the cursor is visible. -/
theorem write_feed_scr' (W : Nat) (trim : Bool) (w : TermWriter) (t : Scr) (l : Nat) (txt : Bytes)
    (hps : t.ps = .ground) (hw : t.width = W) (hc : 0 ≤ w.cursor) (hr : t.row < t.height)
    (hclear : w.clearLine = true) (hhide : w.hideCursor = true) (htxt : TextSafe t.cw W trim txt) :
    Clean (w.writeForLine (cfg W trim) l txt).2 ∧
    t.feedBytes (w.writeForLine (cfg W trim) l txt).2 =
      { t with cursorVisible := (if w.cursorHidden then t.cursorVisible else false),
               row := t.row + (l - w.cursor.toNat) - (t.row + (l - w.cursor.toNat) - (t.height - 1))
                        - (w.cursor.toNat - l),
               col := (shown W trim txt).length,
               rows := setRow (shiftN t.height (t.row + (l - w.cursor.toNat) - (t.height - 1)) t.rows)
                 (t.row + (l - w.cursor.toNat) - (t.row + (l - w.cursor.toNat) - (t.height - 1))
                        - (w.cursor.toNat - l)) (shown W trim txt) } ∧
    (w.writeForLine (cfg W trim) l txt).1 =
      { w with cursorHidden := true, cursor := l, maxLine := if (l : Int) > w.maxLine then l else w.maxLine } := by
  obtain ⟨toks, tail, hp, htl, hclean, hdec, hshown, hlen⟩ := piece_safe t.cw W trim txt htxt
  obtain ⟨cursor, hidden, maxLine, clearLine, hideCursor⟩ := w
  simp only at hclear hhide hc
  subst hclear hhide
  have hpieceE : Clean (writeLineNoWrap handEsc trim W txt ++ handEsc.seq handEsc.erase) :=
    Clean.append hclean (clean_small _ (by decide))
  have hline : ∀ t1 : Scr, t1.cw = t.cw → t1.ps = .ground → t1.col = 0 → t1.width = W →
      t1.feedBytes (writeLineNoWrap handEsc trim W txt ++ handEsc.seq handEsc.erase) =
        { t1 with rows := setRow t1.rows t1.row (shown W trim txt), col := (shown W trim txt).length } := by
    intro t1 hcw h1 h2 h3
    rw [Scr.feedBytes, hclean, hdec, seq_erase, decode_small [0x1b, 0x5b, 0x30, 0x4b] (by decide)]
    have e2 : List.map (fun x : UInt8 => x.toNat) [0x1b, 0x5b, 0x30, 0x4b] = [27, 91, 48, 75] := by decide
    rw [e2, Scr.feed_line toks tail t1 (by rw [hcw]; exact hp) htl h1 h2 (by rw [h3]; exact hlen), hshown]
  cases hidden with
  | false =>
    let s1 : TermWriter := ⟨cursor, true, maxLine, true, true⟩
    have hg := goTo_feed_scr s1 l { t with cursorVisible := false } hps hc hr
    simp only [TermWriter.writeForLine, cfg, Bool.and_self, Bool.not_false, if_true, TermWriter.writeAtCursor,
      Bool.true_and, goTo_clear]
    refine ⟨?_, ?_, ?_⟩
    · exact Clean.append (Clean.append (clean_small _ (by decide)) hg.1) hpieceE
    · rw [List.append_assoc, Scr.feedBytes_append _ _ _ (clean_small _ (by decide))]
      rw [Scr.feedBytes_append _ _ _ hg.1]
      have h1 : t.feedBytes (handEsc.seq handEsc.hide) = { t with cursorVisible := false } := by
        rw [Scr.feedBytes, seq_hide, decode_small _ (by decide)]
        have := Scr.feed_hide t
        obtain ⟨w', ht, o, cw, rows, row, col, vis, ps⟩ := t
        simp only at hps; subst hps
        exact this
      rw [h1, hg.2]
      refine (hline _ ?_ ?_ ?_ ?_).trans ?_
      · rfl
      · simpa using hps
      · rfl
      · simpa using hw
      · rfl
    · simp [TermWriter.goTo]
  | true =>
    let s1 : TermWriter := ⟨cursor, true, maxLine, true, true⟩
    have hg := goTo_feed_scr s1 l t hps hc hr
    simp only [TermWriter.writeForLine, cfg, Bool.not_true, Bool.and_false, Bool.false_eq_true, if_false,
      TermWriter.writeAtCursor, if_true, List.nil_append, goTo_clear]
    refine ⟨?_, ?_, ?_⟩
    · exact Clean.append hg.1 hpieceE
    · rw [Scr.feedBytes_append _ _ _ hg.1, hg.2]
      refine (hline _ ?_ ?_ ?_ ?_).trans ?_
      · rfl
      · simpa using hps
      · rfl
      · simpa using hw
      · rfl
    · simp [TermWriter.goTo]

/-- the writer after `d` Closes and the terminal agree up to the offset `d`; `phys` = the history in
physical lines -/
structure Inv3 (W H r0 : Nat) (trim : Bool) (t0 : Scr) (phys : List (Nat × Bytes)) (d : Nat) (w : TermWriter) (t : Scr) : Prop where
  ps : t.ps = .ground
  width : t.width = W
  height : t.height = H
  onlcr : t.onlcr = t0.onlcr
  cw : t.cw = t0.cw
  rowlt : t.row < H
  row : t.row + (r0 + (w.maxLine.toNat + d) - (H - 1)) = r0 + (w.cursor.toNat + d)
  cur0 : 0 ≤ w.cursor
  curLe : w.cursor ≤ w.maxLine
  maxGe : ∀ u ∈ phys, u.1 ≤ w.maxLine.toNat + d
  clear : w.clearLine = true
  hideC : w.hideCursor = true
  vis : w.cursorHidden = false → t.cursorVisible = true
  written : ∀ i txt, latest phys i = some txt → r0 + (w.maxLine.toNat + d) - (H - 1) ≤ r0 + i →
    t.rows (r0 + i - (r0 + (w.maxLine.toNat + d) - (H - 1))) = shown W trim txt
  other : ∀ j, j < H → (∀ i, latest phys i ≠ none → r0 + i ≠ j + (r0 + (w.maxLine.toNat + d) - (H - 1))) →
    t.rows j = shiftN H (r0 + (w.maxLine.toNat + d) - (H - 1)) t0.rows j

theorem inv3_init (W H r0 : Nat) (trim : Bool) (t0 : Scr) (hps : t0.ps = .ground) (hw : t0.width = W)
    (hh : t0.height = H) (hr : t0.row = r0) (hlt : r0 < H) (hv : t0.cursorVisible = true) :
    Inv3 W H r0 trim t0 [] 0 TermWriter.new t0 := by
  have hs : r0 + (TermWriter.new.maxLine.toNat + 0) - (H - 1) = 0 := by simp [TermWriter.new]; omega
  refine ⟨hps, hw, hh, rfl, rfl, by omega, by rw [hs]; simp [TermWriter.new, hr], by simp [TermWriter.new],
    by simp [TermWriter.new], by simp, rfl, rfl, fun _ => hv, ?_, ?_⟩
  · intro i txt h; simp [latest] at h
  · intro j _ _; rw [hs, shiftN_zero]

/-- a write to line `l` after `d` Closes: physical line `l + d` -/
theorem inv3_step {W H r0 : Nat} {trim : Bool} {t0 : Scr} {phys : List (Nat × Bytes)} {d : Nat} {w : TermWriter} {t : Scr}
    (inv : Inv3 W H r0 trim t0 phys d w t) (l : Nat) (txt : Bytes)
    (hreach : r0 + max (w.maxLine.toNat + d) (l + d) - (H - 1) ≤ r0 + (l + d)) (htxt : TextSafe t0.cw W trim txt) :
    Clean (w.writeForLine (cfg W trim) l txt).2 ∧
    Inv3 W H r0 trim t0 (phys ++ [(l + d, txt)]) d (w.writeForLine (cfg W trim) l txt).1
      (t.feedBytes (w.writeForLine (cfg W trim) l txt).2) := by
  obtain ⟨hclean, hfeed, hw⟩ := write_feed_scr' W trim w t l txt inv.ps inv.width inv.cur0
    (by rw [inv.height]; exact inv.rowlt) inv.clear inv.hideC (by rw [inv.cw]; exact htxt)
  refine ⟨hclean, ?_⟩
  rw [hfeed, hw]
  have hrow := inv.row
  have hrl := inv.rowlt
  have hc0 := inv.cur0
  have hcl := inv.curLe
  have hH := inv.height
  have hmax : (if (l : Int) > w.maxLine then (l : Int) else w.maxLine).toNat + d = max (w.maxLine.toNat + d) (l + d) := by
    split <;> omega
  have hk : t.row + (l - w.cursor.toNat) - (t.height - 1) + (r0 + (w.maxLine.toNat + d) - (H - 1))
      = r0 + max (w.maxLine.toNat + d) (l + d) - (H - 1) := by
    rw [hH]; omega
  have hrow' : t.row + (l - w.cursor.toNat) - (t.row + (l - w.cursor.toNat) - (t.height - 1)) - (w.cursor.toNat - l)
      + (r0 + max (w.maxLine.toNat + d) (l + d) - (H - 1)) = r0 + (l + d) := by
    rw [hH]; omega
  generalize hkd : t.row + (l - w.cursor.toNat) - (t.height - 1) = k at hk hrow' ⊢
  generalize hrd : t.row + (l - w.cursor.toNat) - k - (w.cursor.toNat - l) = row' at hrow' ⊢
  have hrow'lt : row' < H := by rw [hH] at hkd; omega
  refine ⟨inv.ps, inv.width, inv.height, inv.onlcr, inv.cw, hrow'lt, ?_, ?_, ?_, ?_, inv.clear, inv.hideC, ?_, ?_, ?_⟩
  · simp only; rw [hmax]; simpa using hrow'
  · simp
  · simp only; split <;> omega
  · intro u hu
    simp only [List.mem_append, List.mem_singleton] at hu
    simp only
    rw [hmax]
    rcases hu with hu | hu
    · have := inv.maxGe u hu; omega
    · subst hu; simp only; omega
  · intro h; simp at h
  · intro i x hx hsi
    simp only at hsi ⊢
    rw [hmax] at hsi ⊢
    generalize hMd : max (w.maxLine.toNat + d) (l + d) = M' at hk hrow' hreach hsi ⊢
    rw [latest_snoc] at hx
    by_cases hli : l + d = i
    · subst hli; simp at hx; subst hx
      have : r0 + (l + d) - (r0 + M' - (H - 1)) = row' := by omega
      rw [this]; simp [setRow]
    · simp only [hli, if_false] at hx
      have hne : r0 + i - (r0 + M' - (H - 1)) ≠ row' := by omega
      rw [setRow_ne _ _ _ _ hne]
      obtain ⟨u, hu, hui⟩ := latest_mem phys i x hx
      have hiM := inv.maxGe u hu
      rw [hui] at hiM
      have hold := inv.written i x hx
      rw [hH]
      simp only [shiftN]
      by_cases hk0 : k = 0
      · simp only [hk0, if_true]
        have e : r0 + M' - (H - 1) = r0 + (w.maxLine.toNat + d) - (H - 1) := by omega
        rw [e]; exact hold (by omega)
      · simp only [hk0, if_false]
        have h1 : r0 + i - (r0 + M' - (H - 1)) + k < H := by omega
        simp only [h1, if_true]
        have e : r0 + i - (r0 + M' - (H - 1)) + k = r0 + i - (r0 + (w.maxLine.toNat + d) - (H - 1)) := by omega
        rw [e]; exact hold (by omega)
  · intro j hj hfree
    simp only at hfree ⊢
    rw [hmax] at hfree ⊢
    generalize hMd : max (w.maxLine.toNat + d) (l + d) = M' at hk hrow' hreach hfree ⊢
    have hjl : j ≠ row' := by
      have := hfree (l + d) (by rw [latest_snoc]; simp)
      omega
    rw [setRow_ne _ _ _ _ hjl]
    have hfree_old : ∀ j', j' + (r0 + (w.maxLine.toNat + d) - (H - 1)) = j + (r0 + M' - (H - 1)) →
        ∀ i, latest phys i ≠ none → r0 + i ≠ j' + (r0 + (w.maxLine.toNat + d) - (H - 1)) := by
      intro j' hj' i hi
      rw [hj']
      apply hfree i
      rw [latest_snoc]
      simp only
      split
      · simp
      · exact hi
    rw [hH]
    simp only [shiftN]
    by_cases hk0 : k = 0
    · simp only [hk0, if_true]
      have e : r0 + M' - (H - 1) = r0 + (w.maxLine.toNat + d) - (H - 1) := by omega
      have := inv.other j hj (hfree_old j (by omega))
      rw [this, e]; rfl
    · simp only [hk0, if_false]
      have hs'pos : r0 + M' - (H - 1) ≠ 0 := by omega
      simp only [hs'pos, if_false]
      by_cases h1 : j + k < H
      · simp only [h1, if_true]
        have := inv.other (j + k) h1 (hfree_old (j + k) (by omega))
        rw [this]
        simp only [shiftN]
        by_cases hs0 : r0 + (w.maxLine.toNat + d) - (H - 1) = 0
        · have e1 : j + (r0 + M' - (H - 1)) = j + k := by omega
          have e2 : j + (r0 + M' - (H - 1)) < H := by omega
          simp only [hs0, if_true, e1, h1]
        · simp only [hs0, if_false]
          have e1 : j + k + (r0 + (w.maxLine.toNat + d) - (H - 1)) = j + (r0 + M' - (H - 1)) := by omega
          rw [e1]
      · have e2 : ¬ j + (r0 + M' - (H - 1)) < H := by omega
        simp only [h1, e2, if_false]

/-- `Close()` after `d` Closes: one more row may scroll off; the terminal's cursor ends one row below
the writer's `maxLine` – the offset grows to `d + 1` –, in column 0, visible -/
theorem close_feed_scr3 {W H r0 : Nat} {trim : Bool} {t0 : Scr} {phys : List (Nat × Bytes)} {d : Nat} {w : TermWriter} {t : Scr}
    (inv : Inv3 W H r0 trim t0 phys d w t) :
    Clean (w.close (cfg W trim)).2 ∧
    t.feedBytes (w.close (cfg W trim)).2 =
      { t with rows := shiftN H (r0 + (w.maxLine.toNat + d) + 1 - (H - 1) - (r0 + (w.maxLine.toNat + d) - (H - 1))) t.rows,
               row := r0 + (w.maxLine.toNat + d) + 1 - (r0 + (w.maxLine.toNat + d) + 1 - (H - 1)),
               col := 0, cursorVisible := true } := by
  have hc0 := inv.cur0
  have hcl := inv.curLe
  have hrow := inv.row
  have hrl := inv.rowlt
  have hcast : ((w.maxLine.toNat : Nat) : Int) = w.maxLine := by omega
  have hg := goTo_feed_scr w w.maxLine.toNat t inv.ps inv.cur0 (by rw [inv.height]; exact inv.rowlt)
  rw [hcast] at hg
  have hcl2 : Clean (handEsc.closeNl ++ (if w.cursorHidden then handEsc.seq handEsc.unhide else [])) := by
    cases w.cursorHidden
    · exact clean_small _ (by decide)
    · exact clean_small _ (by decide)
  refine ⟨by
    simp only [TermWriter.close, cfg, goTo_hidden]
    rw [List.append_assoc]
    exact Clean.append hg.1 hcl2, ?_⟩
  simp only [TermWriter.close, cfg, goTo_hidden]
  rw [List.append_assoc, Scr.feedBytes_append _ _ _ hg.1, hg.2]
  have hk : t.row + (w.maxLine.toNat - w.cursor.toNat) - (t.height - 1) = 0 := by
    rw [inv.height]; omega
  have hu : w.cursor.toNat - w.maxLine.toNat = 0 := by omega
  have hr2 : t.row + (w.maxLine.toNat - w.cursor.toNat) = r0 + (w.maxLine.toNat + d) - (r0 + (w.maxLine.toNat + d) - (H - 1)) := by
    omega
  rw [hk, hu, shiftN_zero, hr2]
  simp only [Nat.sub_zero]
  generalize hPd : w.maxLine.toNat + d = P at hrow hr2 ⊢
  have hlt2 : r0 + P - (r0 + P - (H - 1)) < H := by omega
  generalize hsd : r0 + P - (H - 1) = s at hlt2 hrow ⊢
  obtain ⟨cursor, hidden, maxLine, clearLine, hideCursor⟩ := w
  obtain ⟨w', ht, o, cw, rows, row, col, vis, ps⟩ := t
  have hps := inv.ps; have hvis := inv.vis; have hht := inv.height
  simp only at hps hvis hht hlt2 hsd ⊢
  subst hps hht
  have hlf : ∀ v : Bool, (Scr.mk w' ht o cw rows (r0 + P - s) 0 v .ground).step 10 =
      Scr.mk w' ht o cw (shiftN ht (r0 + P + 1 - (ht - 1) - s) rows)
        (r0 + P + 1 - (r0 + P + 1 - (ht - 1))) 0 v .ground := by
    intro v
    rw [Scr.step_lf, Scr.lineFeed_col0 _ rfl hlt2]
    have e1 : r0 + P - s + 1 - (ht - 1) = r0 + P + 1 - (ht - 1) - s := by omega
    have e2 : r0 + P - s + 1 - (r0 + P + 1 - (ht - 1) - s)
        = r0 + P + 1 - (r0 + P + 1 - (ht - 1)) := by omega
    simp only [e1, e2]
  cases hidden with
  | true =>
    simp only [if_true, Scr.feedBytes]
    rw [decode_small _ (by decide)]
    have : List.map (fun x : UInt8 => x.toNat) (handEsc.closeNl ++ handEsc.seq handEsc.unhide) = [10] ++ [27, 91, 63, 50, 53, 104] := by decide
    have e10 : ∀ t : Scr, t.feed [10] = t.step 10 := fun _ => rfl
    rw [this, Scr.feed_append, e10, hlf, Scr.feed_show]
  | false =>
    have hv := hvis rfl
    subst hv
    simp only [Bool.false_eq_true, if_false, List.append_nil, Scr.feedBytes]
    rw [decode_small _ (by decide)]
    have : List.map (fun x : UInt8 => x.toNat) handEsc.closeNl = [10] := by decide
    have e10 : ∀ t : Scr, t.feed [10] = t.step 10 := fun _ => rfl
    rw [this, e10, hlf]

/-- the invariant survives a `Close()` with the offset `d + 1` -/
theorem inv3_close {W H r0 : Nat} {trim : Bool} {t0 : Scr} {phys : List (Nat × Bytes)} {d : Nat} {w : TermWriter} {t : Scr}
    (inv : Inv3 W H r0 trim t0 phys d w t) :
    Clean (w.close (cfg W trim)).2 ∧
    Inv3 W H r0 trim t0 phys (d + 1) (w.close (cfg W trim)).1 (t.feedBytes (w.close (cfg W trim)).2) ∧
    (t.feedBytes (w.close (cfg W trim)).2).cursorVisible = true ∧ (t.feedBytes (w.close (cfg W trim)).2).col = 0 := by
  obtain ⟨hclean, hfeed⟩ := close_feed_scr3 inv
  refine ⟨hclean, ?_, by rw [hfeed], by rw [hfeed]⟩
  have hc0 := inv.cur0
  have hcl := inv.curLe
  have hrow := inv.row
  have hrl := inv.rowlt
  have hw1 : (w.close (cfg W trim)).1 = { w with cursor := w.maxLine } := by
    simp only [TermWriter.close, TermWriter.goTo]
    have : ¬ (w.maxLine > w.maxLine) := by omega
    simp [this]
  rw [hfeed, hw1]
  have hsplit : r0 + (w.maxLine.toNat + (d + 1)) - (H - 1) =
      (r0 + (w.maxLine.toNat + d) - (H - 1)) +
        (r0 + (w.maxLine.toNat + d) + 1 - (H - 1) - (r0 + (w.maxLine.toNat + d) - (H - 1))) := by omega
  refine ⟨inv.ps, inv.width, inv.height, inv.onlcr, inv.cw, ?_, ?_, ?_, ?_, ?_, inv.clear, inv.hideC, fun _ => rfl, ?_, ?_⟩
  · show r0 + (w.maxLine.toNat + d) + 1 - (r0 + (w.maxLine.toNat + d) + 1 - (H - 1)) < H
    omega
  · show r0 + (w.maxLine.toNat + d) + 1 - (r0 + (w.maxLine.toNat + d) + 1 - (H - 1)) + (r0 + (w.maxLine.toNat + (d + 1)) - (H - 1))
      = r0 + (w.maxLine.toNat + (d + 1))
    omega
  · show 0 ≤ w.maxLine
    omega
  · show w.maxLine ≤ w.maxLine
    omega
  · intro u hu
    have := inv.maxGe u hu
    show u.1 ≤ w.maxLine.toNat + (d + 1)
    omega
  · intro i x hx hsi
    show shiftN H _ t.rows (r0 + i - (r0 + (w.maxLine.toNat + (d + 1)) - (H - 1))) = _
    have hsi' : r0 + (w.maxLine.toNat + (d + 1)) - (H - 1) ≤ r0 + i := hsi
    obtain ⟨u, hu, hui⟩ := latest_mem phys i x hx
    have hiM := inv.maxGe u hu
    rw [hui] at hiM
    have hold := inv.written i x hx (by omega)
    have := shifted_written H r0 (r0 + (w.maxLine.toNat + d) - (H - 1))
      (r0 + (w.maxLine.toNat + d) + 1 - (H - 1) - (r0 + (w.maxLine.toNat + d) - (H - 1))) i t.rows _ hold
      (by omega) (by omega)
    rw [← hsplit] at this
    exact this
  · intro j hj hfree
    show shiftN H _ t.rows j = shiftN H (r0 + (w.maxLine.toNat + (d + 1)) - (H - 1)) t0.rows j
    have hfree' : ∀ i, latest phys i ≠ none → r0 + i ≠ j + (r0 + (w.maxLine.toNat + (d + 1)) - (H - 1)) := hfree
    have := shifted_other H (r0 + (w.maxLine.toNat + d) - (H - 1))
      (r0 + (w.maxLine.toNat + d) + 1 - (H - 1) - (r0 + (w.maxLine.toNat + d) - (H - 1))) j t.rows t0.rows hj (by
      intro j' hj' hjj
      apply inv.other j' hj'
      intro i hi
      have := hfree' i hi
      omega)
    rw [← hsplit] at this
    exact this

/-! ### update sequences with `Close()` calls in them -/

/-- the texts of the sequence are in the class `TextSafe` -/
def Upd.Safe (cw : Rune → Nat) (W : Nat) (trim : Bool) : Upd → Prop
  | .w _ t => TextSafe cw W trim t
  | .c => True

theorem inv3_run (W H r0 : Nat) (trim : Bool) (t0 : Scr) : ∀ (rest : List Upd) (phys : List (Nat × Bytes)) (d : Nat)
    (w : TermWriter) (t : Scr),
    Inv3 W H r0 trim t0 phys d w t → ReachUpd H r0 (w.maxLine.toNat + d) d rest →
    (∀ u ∈ rest, u.Safe t0.cw W trim) →
    Clean (runItems (cfg W trim) w (rest.map Upd.item)).2 ∧
    Inv3 W H r0 trim t0 (phys ++ physHist d rest) (d + closesOf rest) (runItems (cfg W trim) w (rest.map Upd.item)).1
      (t.feedBytes (runItems (cfg W trim) w (rest.map Upd.item)).2) ∧
    (runItems (cfg W trim) w (rest.map Upd.item)).1.maxLine.toNat + (d + closesOf rest) = physMax (w.maxLine.toNat + d) d rest := by
  intro rest
  induction rest with
  | nil =>
    intro phys d w t inv _ _
    exact ⟨by simpa [runItems] using Clean.nil, by simpa [runItems, physHist, closesOf, Scr.feedBytes_nil] using inv,
      by simp [runItems, closesOf, physMax]⟩
  | cons u rest ih =>
    intro phys d w t inv hreach h
    cases u with
    | w l txt =>
      obtain ⟨hr1, hr2⟩ := hreach
      obtain ⟨hclean, inv'⟩ := inv3_step inv l txt hr1 (h (.w l txt) (by simp))
      have hm : (w.writeForLine (cfg W trim) l txt).1.maxLine.toNat + d = max (w.maxLine.toNat + d) (l + d) := by
        have hc0 := inv.cur0; have hcl := inv.curLe
        rw [writeForLine_maxLine]
        split <;> omega
      obtain ⟨c1, c2, c3⟩ := ih (phys ++ [(l + d, txt)]) d _ _ inv' (by rw [hm]; exact hr2) (fun x hx => h x (by simp [hx]))
      simp only [List.map_cons, Upd.item, runItems, physHist, closesOf, physMax]
      rw [Scr.feedBytes_append _ _ _ hclean]
      refine ⟨Clean.append hclean c1, by simpa using c2, by rw [c3, hm]⟩
    | c =>
      obtain ⟨hclean, inv', _, _⟩ := inv3_close inv
      have hm : (w.close (cfg W trim)).1.maxLine.toNat + (d + 1) = w.maxLine.toNat + d + 1 := by
        rw [close_maxLine]; omega
      obtain ⟨c1, c2, c3⟩ := ih phys (d + 1) _ _ inv' (by rw [hm]; exact hreach) (fun x hx => h x (by simp [hx]))
      simp only [List.map_cons, Upd.item, runItems, physHist, closesOf, physMax]
      rw [Scr.feedBytes_append _ _ _ hclean]
      refine ⟨Clean.append hclean c1, ?_, ?_⟩
      · have e : d + (closesOf rest + 1) = d + 1 + closesOf rest := by omega
        rw [e]; exact c2
      · have e : d + (closesOf rest + 1) = d + 1 + closesOf rest := by omega
        rw [e, c3, hm]

/-- every physical line of the history is at most the physical maximum -/
theorem physHist_le : ∀ (us : List Upd) (m d : Nat), ∀ u ∈ physHist d us, u.1 ≤ physMax m d us := by
  have mono : ∀ (us : List Upd) (m m' d : Nat), m ≤ m' → physMax m d us ≤ physMax m' d us := by
    intro us
    induction us with
    | nil => intro m m' d h; simpa [physMax] using h
    | cons x us ih =>
      intro m m' d h
      cases x with
      | w l t => simp only [physMax]; exact ih _ _ _ (by omega)
      | c => simp only [physMax]; exact ih _ _ _ (by omega)
  have ge : ∀ (us : List Upd) (m d : Nat), m ≤ physMax m d us := by
    intro us
    induction us with
    | nil => intro m d; simp [physMax]
    | cons x us ih =>
      intro m d
      cases x with
      | w l t => simp only [physMax]; have := ih (max m (l + d)) d; omega
      | c => simp only [physMax]; have := ih (m + 1) (d + 1); omega
  intro us
  induction us with
  | nil => intro m d u hu; simp [physHist] at hu
  | cons x us ih =>
    intro m d u hu
    cases x with
    | w l t =>
      simp only [physHist, List.mem_cons] at hu
      simp only [physMax]
      rcases hu with rfl | hu
      · have := ge us (max m (l + d)) d; simp only; omega
      · exact ih _ _ u hu
    | c =>
      simp only [physHist] at hu
      simp only [physMax]
      exact ih _ _ u hu

end Rare.C20
