import Rare.Proofs.Pipeline
/-!
C01: arrival order with ONE worker.  `order0 s` lists everything that is or will be on its way to the consumer in
pipeline order; with a single worker a step changes it only by dropping a line that is not matched, or by moving a
batch of one source in front of the unread lines of other sources – so its projection on the matched lines of any
ONE source never changes.
-/
namespace Rare.Pipeline
variable {α : Type}

/-- everything that is (or will be) on its way to the consumer, in pipeline order: what the consumer has, the match
    channel, the worker's match batch, the rest of the worker's input batch, the batch channel, the unread lines -/
def order0 (s : St α) : List α :=
  s.consumed ++ (s.rc.flatten ++ (wAcc s ++ (wTodo s ++ (s.c.flatten ++ srcLines s))))

/-- no line satisfying `p` is waiting in a source other than `i0` -/
def OthersClean (p : α → Bool) (i0 : Nat) (s : St α) : Prop :=
  ∀ j st, j ≠ i0 → s.srcs[j]? = some st → ∀ x ∈ st.lines, p x = false

theorem flatMap_eq_nil_of {γ β : Type} (g : γ → List β) : ∀ (l : List γ), (∀ (j : Nat) a, l[j]? = some a → g a = []) → l.flatMap g = []
  | [], _ => rfl
  | a :: l, h => by
    rw [List.flatMap_cons, h 0 a rfl, flatMap_eq_nil_of g l (fun j b hb => h (j + 1) b (by simpa using hb))]
    rfl

theorem flatMap_single {γ β : Type} (g : γ → List β) : ∀ (l : List γ) (i0 : Nat),
    (∀ (j : Nat) a, j ≠ i0 → l[j]? = some a → g a = []) → l.flatMap g = ((l[i0]?).map g).getD []
  | [], _, _ => by simp
  | a :: l, 0, h => by
    rw [List.flatMap_cons, flatMap_eq_nil_of g l (fun j b hb => h (j + 1) b (by omega) (by simpa using hb))]
    simp
  | a :: l, k + 1, h => by
    rw [List.flatMap_cons, h 0 a (by omega) rfl, flatMap_single g l k (fun j b hj hb => h (j + 1) b (by omega) (by simpa using hb))]
    simp

theorem filter_flatMap' {γ β : Type} (f : β → Bool) (g : γ → List β) : ∀ (l : List γ),
    (l.flatMap g).filter f = l.flatMap fun a => (g a).filter f
  | [] => rfl
  | a :: l => by simp [List.flatMap_cons, List.filter_append, filter_flatMap' f g l]

theorem srcLines_filter (p f : α → Bool) (hf : ∀ x, p x = false → f x = false) (i0 : Nat) (s : St α)
    (hc : OthersClean p i0 s) :
    (srcLines s).filter f = ((s.srcs[i0]?).map fun st => st.lines.filter f).getD [] := by
  unfold srcLines
  rw [filter_flatMap']
  apply flatMap_single
  intro j st hj hst
  apply List.filter_eq_nil_iff.mpr
  intro x hx
  simp [hf x (hc j st hj hst x hx)]

theorem othersClean_set {p : α → Bool} {i0 : Nat} {s : St α} (hc : OthersClean p i0 s) (i : Nat) (st st' : SrcSt α)
    (hi : s.srcs[i]? = some st) (hsub : ∀ x ∈ st'.lines, x ∈ st.lines) (s' : St α) (hs' : s'.srcs = s.srcs.set i st') :
    OthersClean p i0 s' := by
  intro j a hj ha x hx
  rw [hs'] at ha
  by_cases hij : i = j
  · subst hij
    have hlt : i < s.srcs.length := by
      rcases Nat.lt_or_ge i s.srcs.length with h | h
      · exact h
      · rw [List.getElem?_eq_none (by simpa using h)] at hi; cases hi
    rw [List.getElem?_set_self hlt] at ha
    cases ha
    exact hc i st hj hi x (hsub x hx)
  · rw [List.getElem?_set_ne hij] at ha
    exact hc j a hj ha x hx

theorem single_worker {l : List (WSt α)} {j : Nat} {w : WSt α} (hw : l.length = 1) (h : l[j]? = some w) : l = [w] ∧ j = 0 := by
  match l, hw with
  | [a], _ =>
    cases j with
    | zero => simp at h; exact ⟨by rw [h], rfl⟩
    | succ k => simp at h

section
variable (cls : α → Cls) (p : α → Bool)

/-- the lines the order theorem speaks about: matched and selected by `p` -/
def sel (x : α) : Bool := isMatched cls x && p x

theorem sel_of_p_false (x : α) (h : p x = false) : sel cls p x = false := by simp [sel, h]

theorem order_step {R B K : Nat} {i0 : Nat} {s s' : St α} (h : Step cls R B K s s')
    (hw : s.workers.length = 1) (hc : OthersClean p i0 s) :
    OthersClean p i0 s' ∧ (order0 s').filter (sel cls p) = (order0 s).filter (sel cls p) := by
  have hsrc := fun (t : St α) (ht : OthersClean p i0 t) => srcLines_filter p (sel cls p) (sel_of_p_false cls p) i0 t ht
  cases h with
  | start i bs h1 h2 =>
    have hc' := othersClean_set hc i _ (.active bs) h1 (by simp [SrcSt.lines]) { s with srcs := s.srcs.set i (.active bs) } rfl
    refine ⟨hc', ?_⟩
    simp only [order0, wAcc, wTodo, List.filter_append, hsrc _ hc', hsrc _ hc]
    congr 5
    by_cases hi : i = i0
    · subst hi
      have hlt : i < s.srcs.length := by
        rcases Nat.lt_or_ge i s.srcs.length with h | h
        · exact h
        · rw [List.getElem?_eq_none (by simpa using h)] at h1; cases h1
      simp [List.getElem?_set_self hlt, h1, SrcSt.lines]
    · simp [List.getElem?_set_ne hi]
  | send i b bs h1 h2 =>
    have hc' := othersClean_set hc i _ (.active bs) h1 (by intro x hx; simp only [SrcSt.lines, List.flatten_cons, List.mem_append] at hx ⊢; exact Or.inr hx) { s with srcs := s.srcs.set i (.active bs), c := s.c ++ [b] } rfl
    refine ⟨hc', ?_⟩
    simp only [order0, wAcc, wTodo, List.filter_append, hsrc _ hc', hsrc _ hc, List.flatten_append, List.flatten_cons,
      List.flatten_nil, List.append_nil]
    by_cases hi : i = i0
    · subst hi
      have hlt : i < s.srcs.length := by
        rcases Nat.lt_or_ge i s.srcs.length with h | h
        · exact h
        · rw [List.getElem?_eq_none (by simpa using h)] at h1; cases h1
      simp [List.getElem?_set_self hlt, h1, SrcSt.lines, List.filter_append]
    · have hb : b.filter (sel cls p) = [] := by
        apply List.filter_eq_nil_iff.mpr
        intro x hx
        have := hc i _ hi h1 x (by simp [SrcSt.lines, hx])
        simp [sel, this]
      simp [List.getElem?_set_ne hi, hb]
  | finish i h1 =>
    have hc' := othersClean_set hc i _ .done h1 (by simp [SrcSt.lines]) { s with srcs := s.srcs.set i .done } rfl
    refine ⟨hc', ?_⟩
    simp only [order0, wAcc, wTodo, List.filter_append, hsrc _ hc', hsrc _ hc]
    congr 5
    by_cases hi : i = i0
    · subst hi
      have hlt : i < s.srcs.length := by
        rcases Nat.lt_or_ge i s.srcs.length with h | h
        · exact h
        · rw [List.getElem?_eq_none (by simpa using h)] at h1; cases h1
      simp [List.getElem?_set_self hlt, h1, SrcSt.lines]
    · simp [List.getElem?_set_ne hi]
  | closeC h1 h2 => exact ⟨hc, rfl⟩
  | wrecv j b rest h1 h2 =>
    obtain ⟨hl, rfl⟩ := single_worker hw h1
    refine ⟨hc, ?_⟩
    simp [order0, wAcc, wTodo, srcLines, hl, h2, WSt.acc, WSt.todo]
  | wproc j x todo acc h1 =>
    obtain ⟨hl, rfl⟩ := single_worker hw h1
    refine ⟨hc, ?_⟩
    by_cases hx : cls x = .matched
    · simp [order0, wAcc, wTodo, srcLines, hl, WSt.acc, WSt.todo, hx]
    · have : sel cls p x = false := by simp [sel, isMatched, hx]
      simp [order0, wAcc, wTodo, srcLines, hl, WSt.acc, WSt.todo, hx, List.filter_append, this]
  | wsend j acc h1 h2 h3 =>
    obtain ⟨hl, rfl⟩ := single_worker hw h1
    refine ⟨hc, ?_⟩
    simp [order0, wAcc, wTodo, srcLines, hl, WSt.acc, WSt.todo]
  | wskip j h1 =>
    obtain ⟨hl, rfl⟩ := single_worker hw h1
    refine ⟨hc, ?_⟩
    simp [order0, wAcc, wTodo, srcLines, hl, WSt.acc, WSt.todo]
  | wexit j h1 h2 h3 =>
    obtain ⟨hl, rfl⟩ := single_worker hw h1
    refine ⟨hc, ?_⟩
    simp [order0, wAcc, wTodo, srcLines, hl, WSt.acc, WSt.todo]
  | closeRC h1 h2 => exact ⟨hc, rfl⟩
  | crecv m rest h1 h2 =>
    refine ⟨hc, ?_⟩
    simp [order0, wAcc, wTodo, srcLines, h1]
  | cdone h1 h2 h3 => exact ⟨hc, rfl⟩
end


theorem order_reach (cls : α → Cls) (p : α → Bool) {R B K : Nat} {i0 : Nat} {s0 s : St α} (hr : Reach cls R B K s0 s)
    (hw : s0.workers.length = 1) (hc : OthersClean p i0 s0) :
    OthersClean p i0 s ∧ s.workers.length = 1 ∧ (order0 s).filter (sel cls p) = (order0 s0).filter (sel cls p) := by
  induction hr with
  | refl => exact ⟨hc, hw, rfl⟩
  | step _ hs ih =>
    obtain ⟨h1, h2, h3⟩ := ih
    obtain ⟨g1, g2⟩ := order_step cls p hs h2 h1
    exact ⟨g1, by rw [step_workers_length hs, h2], by rw [g2, h3]⟩

theorem order0_init (inputs : List (List (List α))) (W : Nat) : order0 (init inputs W) = inputs.flatMap List.flatten := by
  have h1 : srcLines (init inputs W) = inputs.flatMap List.flatten := by
    simp [srcLines, init, List.flatMap_map, SrcSt.lines]
  have h2 : wTodo (init inputs W) = [] := by simp [wTodo, init, WSt.todo]
  have h3 : wAcc (init inputs W) = [] := by simp [wAcc, init, WSt.acc]
  simp only [order0, h1, h2, h3]
  simp [init]

theorem othersClean_init (p : α → Bool) (i0 : Nat) (inputs : List (List (List α))) (W : Nat)
    (hp : ∀ (j : Nat) bs, j ≠ i0 → inputs[j]? = some bs → ∀ x ∈ bs.flatten, p x = false) :
    OthersClean p i0 (init inputs W) := by
  intro j st hj hst x hx
  simp only [init, List.getElem?_map, Option.map_eq_some_iff] at hst
  obtain ⟨bs, hbs, rfl⟩ := hst
  exact hp j bs hj hbs x (by simpa [SrcSt.lines] using hx)

end Rare.Pipeline
