import Rare.Proofs.C17Idx
import Rare.Spec.C17Wrap
/-!
Helper lemmas for C17: the `@select` / `@slice` loops on lists of ANY length (64-bit counter mirrored by
`Spec/C17Wrap.lean`), and the agreement of the wrapped specification with the documented list functions
below 2^63 elements.
-/
namespace Rare.C17
open Rare Rare.Expr Rare.Expr.Funcs.Range

theorem counter_zero : counter 0 = 0 := by decide

theorem counter_succ (p : Nat) : wrap64 (counter p + 1) = counter (p + 1) := by
  simp only [counter, Int.natCast_add, Int.cast_ofNat_Int]
  unfold wrap64; omega

theorem counter_range (p : Nat) : minInt64 ≤ counter p ∧ counter p ≤ maxInt64 := by
  unfold counter wrap64 minInt64 maxInt64; omega

/-! ## @select -/

/-- The loop of `@select` started at position `p` (counter `counter p`) not beyond the first position whose
    counter is `idx`: it returns the element at that position. -/
theorem select_fold_wrapped (idx : Int) (h1 : minInt64 ≤ idx) (h2 : idx ≤ maxInt64) (xs : List Bytes) (p : Nat)
    (hp : (p : Int) ≤ idx % 18446744073709551616) :
    (foldWhile selG (selPhi idx) xs ⟨counter p, none⟩).found.getD [] =
      xs.getD ((idx % 18446744073709551616).toNat - p) [] := by
  induction xs generalizing p with
  | nil => simp [foldWhile]
  | cons x xs ih =>
    simp only [foldWhile, selG, Option.isNone_none, if_true, selPhi]
    by_cases he : counter p = idx
    · simp only [he, if_true]
      rw [foldWhile_false _ _ _ _ (by simp [selG])]
      have : (idx % 18446744073709551616).toNat - p = 0 := by
        unfold counter wrap64 at he; unfold minInt64 at h1; unfold maxInt64 at h2; omega
      simp [this]
    · simp only [he, if_false]
      have hlt : (p : Int) < idx % 18446744073709551616 := by
        unfold counter wrap64 at he; unfold minInt64 at h1; unfold maxInt64 at h2; omega
      rw [counter_succ, ih (p + 1) (by omega)]
      have e : (idx % 18446744073709551616).toNat - p = ((idx % 18446744073709551616).toNat - (p + 1)) + 1 := by omega
      rw [e]; simp

theorem selectTarget_range (n : Nat) (index : Int) (h1 : minInt64 ≤ index) (h2 : index ≤ maxInt64) :
    minInt64 ≤ selectTarget n index ∧ selectTarget n index ≤ maxInt64 := by
  unfold selectTarget
  split
  · unfold wrap64 minInt64 maxInt64; omega
  · exact ⟨h1, h2⟩

theorem selectIndex_eq (index : Int) (arr : Bytes) :
    selectIndex index arr = selectTarget (elems arr).length index := by
  have : countSep arr + 1 = (((elems arr).length : Nat) : Int) := by
    rw [elems_length]; simp [countSep, ArraySeparator, NUL]
  simp only [selectIndex, selectTarget, this]

/-- Below 2^63 elements the wrapped `@select` is the documented one. -/
theorem selectW_eq_select (xs : List Bytes) (index : Int) (hl : (xs.length : Int) ≤ maxInt64)
    (h1 : minInt64 ≤ index) (h2 : index ≤ maxInt64) : selectW xs index = select xs index := by
  unfold selectW select selectTarget
  by_cases hn : index < 0
  · simp only [hn, if_true]
    have hw : wrap64 (index + wrap64 (xs.length : Int)) = index + xs.length := by
      unfold wrap64; unfold minInt64 at h1; unfold maxInt64 at hl h2; omega
    rw [hw]
    by_cases hj : index + (xs.length : Int) < 0
    · simp only [hj, if_true]
      rw [List.getD_eq_getElem?_getD, List.getElem?_eq_none (by
        unfold minInt64 at h1; unfold maxInt64 at hl; omega)]
      rfl
    · simp only [hj, if_false]
      congr 1
      unfold maxInt64 at hl h2; omega
  · simp only [hn, if_false]
    congr 1
    unfold maxInt64 at h2; omega

/-! ## @slice -/

/-- The loop of `@slice` from position `p` on, for any list. -/
theorem slice_fold_wrapped (rs len : Int) (xs : List Bytes) (p : Nat) (sb : Sb) :
    (foldWhile (sliG rs len) (sliPhi rs) xs ⟨counter p, sb⟩).ret.str = sb.str ++ sliceWalk rs len p xs := by
  induction xs generalizing p sb with
  | nil => simp [foldWhile, sliceWalk]
  | cons x xs ih =>
    by_cases hg : sliG rs len ⟨counter p, sb⟩ = true
    · have hg' : len < 0 ∨ wrap64 (counter p - rs) < len := by
        simpa [sliG] using hg
      simp only [foldWhile, hg, if_true, sliPhi, counter_succ, sliceWalk, hg']
      rw [ih]
      by_cases h1 : counter p ≥ rs
      · by_cases h2 : counter p > rs
        · simp [h1, h2, ArraySeparatorString, ArraySeparator, NUL]
        · simp [h1, h2]
      · simp [h1]
    · have hg0 : sliG rs len ⟨counter p, sb⟩ = false := by simpa using hg
      have hg' : ¬ (len < 0 ∨ wrap64 (counter p - rs) < len) := by
        simpa [sliG] using hg0
      rw [foldWhile_false _ _ _ _ hg0]
      simp [sliceWalk, hg']

theorem sliceStart_eq (start : Int) (arr : Bytes) :
    sliceStart start arr = sliceTarget (elems arr).length start := by
  have : countSep arr + 1 = (((elems arr).length : Nat) : Int) := by
    rw [elems_length]; simp [countSep, ArraySeparator, NUL]
  simp only [sliceStart, sliceTarget, this]

/-- Below 2^63 elements the wrapped `@slice` is the packing of the documented slice. -/
theorem sliceW_eq_slice (xs : List Bytes) (start len : Int) (hl : (xs.length : Int) ≤ maxInt64)
    (h1 : minInt64 ≤ start) (h2 : start ≤ maxInt64) : sliceW xs start len = pack (slice xs start len) := by
  have hrs : 0 ≤ sliceTarget xs.length start ∧ sliceTarget xs.length start ≤ maxInt64 ∧
      sliceTarget xs.length start = (if start < 0 then max 0 (start + xs.length) else start) := by
    unfold sliceTarget
    by_cases hn : start < 0
    · simp only [hn, if_true]
      have hw : wrap64 (start + wrap64 (xs.length : Int)) = start + xs.length := by
        unfold wrap64; unfold minInt64 at h1; unfold maxInt64 at hl h2; omega
      rw [hw]
      by_cases hneg : start + (xs.length : Int) < 0
      · simp only [hneg, if_true]
        refine ⟨by omega, by unfold maxInt64; omega, by omega⟩
      · simp only [hneg, if_false]
        refine ⟨by omega, by unfold maxInt64 at *; omega, by omega⟩
    · simp only [hn, if_false]
      exact ⟨by omega, h2, trivial⟩
  have hw := slice_fold_wrapped (sliceTarget xs.length start) len xs 0 {}
  rw [counter_zero] at hw
  have hb := slice_fold_before (sliceTarget xs.length start) len hrs.1 hrs.2.1 xs 0 {} (by omega) hrs.1 (by omega)
  rw [hw] at hb
  simp only [Sb.str_empty, List.nil_append, Int.sub_zero] at hb
  unfold sliceW
  rw [hb, hrs.2.2]
  simp [slice, takeL]

end Rare.C17
