import Rare.Proofs.C15Core
/-!
C15 – the inductive invariant of the notify transition system and its consequences.
-/
namespace Rare.Follow
open Rare.C15.Spec

variable {β : Type}

theorem sendNB_pos {cap n : Nat} (h : 1 ≤ cap) : 0 < sendNB cap n := by
  unfold sendNB; split <;> omega

theorem le_sendNB (cap n : Nat) : n ≤ sendNB cap n := by
  unfold sendNB; split <;> omega

theorem sendNB_le (cap n : Nat) (h : n ≤ cap) : sendNB cap n ≤ cap := by
  unfold sendNB; split <;> omega

@[simp] theorem dispatch1_fs (cfg : NCfg) (s : NSt β) (e : Ev) : (dispatch1 cfg s e).fs = s.fs := by cases e <;> rfl
@[simp] theorem dispatch1_f (cfg : NCfg) (s : NSt β) (e : Ev) : (dispatch1 cfg s e).f = s.f := by cases e <;> rfl
@[simp] theorem dispatch1_hist (cfg : NCfg) (s : NSt β) (e : Ev) : (dispatch1 cfg s e).hist = s.hist := by cases e <;> rfl
@[simp] theorem dispatch1_delivered (cfg : NCfg) (s : NSt β) (e : Ev) : (dispatch1 cfg s e).delivered = s.delivered := by cases e <;> rfl
@[simp] theorem dispatch1_rd (cfg : NCfg) (s : NSt β) (e : Ev) : (dispatch1 cfg s e).rd = s.rd := by cases e <;> rfl
@[simp] theorem dispatch1_removes (cfg : NCfg) (s : NSt β) (e : Ev) : (dispatch1 cfg s e).removes = s.removes := by cases e <;> rfl
@[simp] theorem dispatch1_evq (cfg : NCfg) (s : NSt β) (e : Ev) : (dispatch1 cfg s e).evq = s.evq := by cases e <;> rfl

/-- a pending write signal (token or queued Write event) stays pending across a dispatch -/
theorem sigW_dispatch (cfg : NCfg) (hc : 1 ≤ cfg.capW) (s : NSt β) (e : Ev) (rest : List Ev)
    (h : 0 < s.pw ∨ Ev.write ∈ e :: rest) : 0 < (dispatch1 cfg s e).pw ∨ Ev.write ∈ rest := by
  cases e <;> simp [dispatch1] at h ⊢
  · exact Or.inl (sendNB_pos hc)
  · rcases h with h | h
    · exact Or.inl h
    · exact Or.inr h
  · exact Or.inl (sendNB_pos hc)
  · rcases h with h | h
    · exact Or.inl h
    · exact Or.inr h

theorem sigC_dispatch (cfg : NCfg) (hc : 1 ≤ cfg.capW) (s : NSt β) (e : Ev) (rest : List Ev)
    (h : 0 < s.pw ∨ Ev.create ∈ e :: rest) : 0 < (dispatch1 cfg s e).pw ∨ Ev.create ∈ rest := by
  cases e <;> simp [dispatch1] at h ⊢
  · exact Or.inl (sendNB_pos hc)
  · rcases h with h | h
    · exact Or.inl h
    · exact Or.inr h
  · exact Or.inl (sendNB_pos hc)
  · rcases h with h | h
    · exact Or.inl h
    · exact Or.inr h

theorem dispatch1_pd_ge (cfg : NCfg) (s : NSt β) (e : Ev) : s.pd ≤ (dispatch1 cfg s e).pd := by
  cases e with
  | write => exact Nat.le_refl _
  | remove => exact le_sendNB _ _
  | create =>
    simp only [dispatch1]
    split
    · exact le_sendNB _ _
    · exact Nat.le_refl _
  | other => exact Nat.le_refl _

theorem sigD_dispatch (cfg : NCfg) (hc : 1 ≤ cfg.capD) (s : NSt β) (e : Ev) (rest : List Ev)
    (h : 0 < s.pd ∨ Ev.remove ∈ e :: rest) : 0 < (dispatch1 cfg s e).pd ∨ Ev.remove ∈ rest := by
  rcases h with h | h
  · exact Or.inl (Nat.lt_of_lt_of_le h (dispatch1_pd_ge cfg s e))
  · rcases List.mem_cons.mp h with h | h
    · subst h; exact Or.inl (sendNB_pos hc)
    · exact Or.inr h

/-- **A delete signal is pending**: a token in `eventDelete`, a queued Remove event, or – with re-open – a
    queued Create event (the watcher goroutine turns it into the delete signal as well). -/
def dP (cfg : NCfg) (pd : Nat) (q : List Ev) : Prop :=
  0 < pd ∨ Ev.remove ∈ q ∨ (cfg.reopen = true ∧ Ev.create ∈ q)

theorem dP_dispatch (cfg : NCfg) (hc : 1 ≤ cfg.capD) (s : NSt β) (e : Ev) (rest : List Ev)
    (h : dP cfg s.pd (e :: rest)) : dP cfg (dispatch1 cfg s e).pd rest := by
  rcases h with h | h | ⟨hre, h⟩
  · exact Or.inl (Nat.lt_of_lt_of_le h (dispatch1_pd_ge cfg s e))
  · rcases List.mem_cons.mp h with h | h
    · subst h; exact Or.inl (sendNB_pos hc)
    · exact Or.inr (Or.inl h)
  · rcases List.mem_cons.mp h with h | h
    · subst h
      refine Or.inl ?_
      simp only [dispatch1, hre, if_true]
      exact sendNB_pos hc
    · exact Or.inr (Or.inr ⟨hre, h⟩)

theorem dP_dispatch_rev (cfg : NCfg) (s : NSt β) (e : Ev) (rest : List Ev)
    (h : dP cfg (dispatch1 cfg s e).pd rest) : dP cfg s.pd (e :: rest) := by
  have lift : dP cfg s.pd rest → dP cfg s.pd (e :: rest) := by
    rintro (h | h | ⟨h1, h2⟩)
    · exact Or.inl h
    · exact Or.inr (Or.inl (List.mem_cons_of_mem _ h))
    · exact Or.inr (Or.inr ⟨h1, List.mem_cons_of_mem _ h2⟩)
  cases e with
  | write => exact lift h
  | remove => exact Or.inr (Or.inl (List.mem_cons_self ..))
  | create =>
    by_cases hre : cfg.reopen = true
    · exact Or.inr (Or.inr ⟨hre, List.mem_cons_self ..⟩)
    · have hpd : (dispatch1 cfg s .create).pd = s.pd := by simp [dispatch1, hre]
      rw [hpd] at h; exact lift h
  | other => exact lift h

@[simp] theorem not_dP_nil (cfg : NCfg) : ¬ dP cfg 0 [] := by simp [dP]

theorem dP_snoc (cfg : NCfg) (pd : Nat) (q : List Ev) (e : Ev) (h : dP cfg pd q) : dP cfg pd (q ++ [e]) := by
  rcases h with h | h | ⟨h1, h2⟩
  · exact Or.inl h
  · exact Or.inr (Or.inl (by simp [h]))
  · exact Or.inr (Or.inr ⟨h1, by simp [h2]⟩)

theorem dP_snoc_rev (cfg : NCfg) (pd : Nat) (q : List Ev) (e : Ev) (h1 : e ≠ .remove) (h2 : e ≠ .create)
    (h : dP cfg pd (q ++ [e])) : dP cfg pd q := by
  rcases h with h | h | ⟨hre, h⟩
  · exact Or.inl h
  · rcases List.mem_append.mp h with h | h
    · exact Or.inr (Or.inl h)
    · simp only [List.mem_singleton] at h; exact absurd h.symm h1
  · rcases List.mem_append.mp h with h | h
    · exact Or.inr (Or.inr ⟨hre, h⟩)
    · simp only [List.mem_singleton] at h; exact absurd h.symm h2

/-- Inductive invariant of the notify system.  `ex` – the file existed when following started;
    `st0` – the start position of the initial handle. -/
structure NInv (cfg : NCfg) (ex : Bool) (st0 : Nat) (s : NSt β) : Prop where
  core : Core s.fs s.f s.hist s.delivered
  strong : ∀ h ∈ s.hist ++ s.f.toList, h.pos ≤ (s.fs.content h.ino).length
  starts : ∀ h ∈ s.hist ++ s.f.toList, h.start = 0 ∨ (h.ino = 0 ∧ h.start = st0)
  histLt : cfg.reopen = true → ∀ h ∈ s.hist, ∀ j, s.fs.path = some j → h.ino < j
  curLe : ∀ h, s.f = some h → ∀ j, s.fs.path = some j → h.ino ≤ j
  incr : ((s.hist ++ s.f.toList).map (·.ino)).Pairwise (· < ·)
  /-- no lost wake-up -/
  wake : ∀ h, s.f = some h → unread s.fs h ≠ [] → 0 < s.pw ∨ Ev.write ∈ s.evq ∨ s.rd ≠ .selecting
  /-- a delete signal is pending only after a removal – or, with re-open, after the creation of a file that
      did not exist when following started (Create raises the delete signal too) -/
  dSig : dP cfg s.pd s.evq → 0 < s.removes ∨ (cfg.reopen = true ∧ ex = false)
  ended : s.rd = .ended → cfg.reopen = false ∧ 0 < s.removes ∧ s.f = none
  latch : cfg.reopen = false → 0 < s.removes → s.rd = .ended ∨ 0 < s.pd ∨ Ev.remove ∈ s.evq
  gone : ∀ h, s.f = some h → s.fs.path ≠ some h.ino → dP cfg s.pd s.evq
  fresh : cfg.reopen = true → s.f = none → ∀ j, s.fs.path = some j →
      0 < s.pw ∨ Ev.create ∈ s.evq ∨ 0 < s.pd ∨ Ev.remove ∈ s.evq
  inPlace : ex = true → s.removes = 0 → s.hist = [] ∧ s.fs.path = some 0 ∧ ∃ p, s.f = some ⟨0, st0, p⟩

theorem ninv_init (cfg : NCfg) (c0 : Option (List β)) (tail : Bool) :
    NInv cfg c0.isSome (start0 c0 tail) (ninit c0 tail) := by
  cases c0 with
  | none =>
    refine ⟨⟨by simp [ninit, segments], by simp [ninit], by simp [ninit]⟩, by simp [ninit], by simp [ninit],
      by simp [ninit], by simp [ninit], by simp [ninit], by simp [ninit], by simp [ninit], by simp [ninit],
      by simp [ninit], by simp [ninit], by simp [ninit], by simp⟩
  | some c =>
    refine ⟨⟨by simp [ninit, segments, extract], ?_, by simp [ninit]⟩, ?_, by simp [ninit, start0],
      by simp [ninit], by simp [ninit], by simp [ninit], ?_, by simp [ninit], by simp [ninit], by simp [ninit],
      by simp [ninit], by simp [ninit], by simp [ninit, start0]⟩
    · intro h hh; simp [ninit] at hh; subst hh; simp [ninit]
    · intro h hh; simp [ninit] at hh; subst hh; simp [ninit]; split <;> simp
    · intro h hh; simp [ninit]


theorem len_append_ge (fs : FS β) (i j : Nat) (bs : List β) :
    (fs.content j).length ≤ ((fs.append i bs).content j).length := by
  simp only [FS.append]; split
  · next h => subst h; simp
  · exact Nat.le_refl _

theorem unread_append_ne (fs : FS β) (i : Nat) (bs : List β) (h : Handle) (hu : unread fs h ≠ []) :
    unread (fs.append i bs) h ≠ [] := by
  simp only [unread, ne_eq, List.drop_eq_nil_iff, Nat.not_le] at hu ⊢
  exact Nat.lt_of_lt_of_le hu (len_append_ge fs i h.ino bs)

variable {cfg : NCfg} {ex : Bool} {st0 : Nat}

theorem ninv_writer {s s' : NSt β} (h : NInv cfg ex st0 s) (hs : NStep cfg .writer s s') :
    NInv cfg ex st0 s' := by
  cases hs with
  | append _ i bs hp hbs =>
    refine ⟨h.core.append i bs, ?_, h.starts, h.histLt, h.curLe, h.incr, ?_, ?_, h.ended, ?_, ?_, ?_, h.inPlace⟩
    · intro x hx; exact Nat.le_trans (h.strong x hx) (len_append_ge _ _ _ _)
    · intro x hx _; exact Or.inr (Or.inl (by simp))
    · intro hd; exact h.dSig (dP_snoc_rev cfg _ _ .write (by simp) (by simp) hd)
    · intro hr hrm
      rcases h.latch hr hrm with h1 | h1 | h1
      · exact Or.inl h1
      · exact Or.inr (Or.inl h1)
      · exact Or.inr (Or.inr (by simp [h1]))
    · intro x hx hne
      exact dP_snoc cfg _ _ _ (h.gone x hx hne)
    · intro hr hf j hj
      rcases h.fresh hr hf j hj with h1 | h1 | h1 | h1
      · exact Or.inl h1
      · exact Or.inr (Or.inl (by simp [h1]))
      · exact Or.inr (Or.inr (Or.inl h1))
      · exact Or.inr (Or.inr (Or.inr (by simp [h1])))
  | remove _ i hp =>
    refine ⟨h.core.remove, h.strong, h.starts, ?_, ?_, h.incr, ?_, ?_, ?_, ?_, ?_, ?_, ?_⟩
    · intro _ x _ j hj; cases hj
    · intro x _ j hj; cases hj
    · intro x hx hu
      rcases h.wake x hx hu with h1 | h1 | h1
      · exact Or.inl h1
      · exact Or.inr (Or.inl (by simp [h1]))
      · exact Or.inr (Or.inr h1)
    · intro _; exact Or.inl (Nat.succ_pos _)
    · intro hr; have := h.ended hr; exact ⟨this.1, Nat.succ_pos _, this.2.2⟩
    · intro _ _; exact Or.inr (Or.inr (by simp))
    · intro x _ _; exact Or.inr (Or.inl (by simp))
    · intro _ _ j hj; cases hj
    · intro _ hr; simp at hr
  | create _ hp =>
    have hne : ∀ x ∈ s.hist ++ s.f.toList, x.ino ≠ s.fs.next := by
      intro x hx; have := (h.core.bounds x hx).2.2; omega
    refine ⟨h.core.create, ?_, h.starts, ?_, ?_, h.incr, ?_, ?_, h.ended, ?_, ?_, ?_, ?_⟩
    · intro x hx
      have := h.strong x hx
      simpa [FS.create, hne x hx] using this
    · intro _ x hx j hj
      simp only [FS.create, Option.some.injEq] at hj; subst hj
      exact (h.core.bounds x (by simp [hx])).2.2
    · intro x hx j hj
      simp only [FS.create, Option.some.injEq] at hj; subst hj
      have hx' : s.f = some x := hx
      exact Nat.le_of_lt (h.core.bounds x (by simp [hx'])).2.2
    · intro x hx hu
      have hx' : s.f = some x := hx
      have hxn := hne x (by simp [hx'])
      have hu' : unread s.fs x ≠ [] := by simpa [unread, FS.create, hxn] using hu
      rcases h.wake x hx hu' with h1 | h1 | h1
      · exact Or.inl h1
      · exact Or.inr (Or.inl (by simp [h1]))
      · exact Or.inr (Or.inr h1)
    · intro hd
      rcases hd with hd | hd | ⟨hre, _⟩
      · exact h.dSig (Or.inl hd)
      · refine h.dSig (Or.inr (Or.inl ?_))
        rcases List.mem_append.mp hd with hd | hd
        · exact hd
        · simp at hd
      · cases hex : ex with
        | false => exact Or.inr ⟨hre, rfl⟩
        | true =>
          left
          cases hrm : s.removes with
          | zero =>
            have := (h.inPlace hex hrm).2.1
            rw [hp] at this; cases this
          | succ k => exact Nat.succ_pos _
    · intro hr hrm
      rcases h.latch hr hrm with h1 | h1 | h1
      · exact Or.inl h1
      · exact Or.inr (Or.inl h1)
      · exact Or.inr (Or.inr (by simp [h1]))
    · intro x hx _
      exact dP_snoc cfg _ _ _ (h.gone x hx (by rw [hp]; simp))
    · intro _ _ j _; exact Or.inr (Or.inl (by simp))
    · intro he hr
      have := (h.inPlace he hr).2.1
      rw [hp] at this; cases this
  | noise _ =>
    refine ⟨h.core, h.strong, h.starts, h.histLt, h.curLe, h.incr, ?_, ?_, h.ended, ?_, ?_, ?_, h.inPlace⟩
    · intro x hx hu
      rcases h.wake x hx hu with h1 | h1 | h1
      · exact Or.inl h1
      · exact Or.inr (Or.inl (by simp [h1]))
      · exact Or.inr (Or.inr h1)
    · intro hd; exact h.dSig (dP_snoc_rev cfg _ _ .other (by simp) (by simp) hd)
    · intro hr hrm
      rcases h.latch hr hrm with h1 | h1 | h1
      · exact Or.inl h1
      · exact Or.inr (Or.inl h1)
      · exact Or.inr (Or.inr (by simp [h1]))
    · intro x hx hne
      exact dP_snoc cfg _ _ _ (h.gone x hx hne)
    · intro hr hf j hj
      rcases h.fresh hr hf j hj with h1 | h1 | h1 | h1
      · exact Or.inl h1
      · exact Or.inr (Or.inl (by simp [h1]))
      · exact Or.inr (Or.inr (Or.inl h1))
      · exact Or.inr (Or.inr (Or.inr (by simp [h1])))

theorem ninv_kernel (hW : 1 ≤ cfg.capW) (hD : 1 ≤ cfg.capD) {s s' : NSt β} (h : NInv cfg ex st0 s)
    (hs : NStep cfg .kernel s s') : NInv cfg ex st0 s' := by
  cases hs with
  | dispatch _ e rest he =>
    refine ⟨by simpa using h.core, by simpa using h.strong, by simpa using h.starts, by simpa using h.histLt,
      by simpa using h.curLe, by simpa using h.incr, ?_, ?_, by simpa using h.ended, ?_, ?_, ?_,
      by simpa using h.inPlace⟩
    · intro x hx hu
      simp only [dispatch1_f, dispatch1_fs, dispatch1_rd, dispatch1_evq] at hx hu ⊢
      have hw := h.wake x hx hu
      rw [he] at hw
      rcases hw with h1 | h1 | h1
      · rcases sigW_dispatch cfg hW { s with evq := rest } e rest (Or.inl h1) with h2 | h2
        · exact Or.inl h2
        · exact Or.inr (Or.inl h2)
      · rcases sigW_dispatch cfg hW { s with evq := rest } e rest (Or.inr h1) with h2 | h2
        · exact Or.inl h2
        · exact Or.inr (Or.inl h2)
      · exact Or.inr (Or.inr h1)
    · intro hd
      simp only [dispatch1_evq, dispatch1_removes] at hd ⊢
      apply h.dSig
      rw [he]
      exact dP_dispatch_rev cfg { s with evq := rest } e rest hd
    · intro hr hrm
      simp only [dispatch1_evq, dispatch1_removes, dispatch1_rd] at hrm ⊢
      have hl := h.latch hr hrm
      rw [he] at hl
      rcases hl with h1 | h1
      · exact Or.inl h1
      · exact Or.inr (sigD_dispatch cfg hD { s with evq := rest } e rest h1)
    · intro x hx hne
      simp only [dispatch1_f, dispatch1_fs, dispatch1_evq] at hx hne ⊢
      have hg := h.gone x hx hne
      rw [he] at hg
      exact dP_dispatch cfg hD { s with evq := rest } e rest hg
    · intro hr hf j hj
      simp only [dispatch1_f, dispatch1_fs, dispatch1_evq] at hf hj ⊢
      have hg := h.fresh hr hf j hj
      rw [he] at hg
      rcases hg with h1 | h1 | h1 | h1
      · rcases sigC_dispatch cfg hW { s with evq := rest } e rest (Or.inl h1) with h2 | h2
        · exact Or.inl h2
        · exact Or.inr (Or.inl h2)
      · rcases sigC_dispatch cfg hW { s with evq := rest } e rest (Or.inr h1) with h2 | h2
        · exact Or.inl h2
        · exact Or.inr (Or.inl h2)
      · exact Or.inr (Or.inr (sigD_dispatch cfg hD { s with evq := rest } e rest (Or.inl h1)))
      · exact Or.inr (Or.inr (sigD_dispatch cfg hD { s with evq := rest } e rest (Or.inr h1)))

theorem openAt_some (fs : FS β) (p : Nat) (x : Handle) (h : openAt fs p = some x) :
    fs.path = some x.ino ∧ x.start = p ∧ x.pos = p := by
  unfold openAt at h
  cases hp : fs.path with
  | none => simp [hp] at h
  | some i => simp [hp] at h; subst h; simp

theorem openAt_none (fs : FS β) (p : Nat) (h : openAt fs p = none) : fs.path = none := by
  unfold openAt at h
  cases hp : fs.path with
  | none => rfl
  | some i => simp [hp] at h

theorem ninv_reader {s s' : NSt β} (h : NInv cfg ex st0 s) (hs : NStep cfg .reader s s') :
    NInv cfg ex st0 s' := by
  cases hs with
  | readSome _ x n hrd hf h1 hn =>
    have hc : Core s.fs (some x) s.hist s.delivered := by have := h.core; rwa [hf] at this
    have hmem : ∀ y, y ∈ s.hist ++ [({ x with pos := x.pos + n } : Handle)] → y ∈ s.hist ∨ y = { x with pos := x.pos + n } := by
      intro y hy; simpa using hy
    have hxm : x ∈ s.hist ++ s.f.toList := by simp [hf]
    refine ⟨hc.read n hn h1, ?_, ?_, h.histLt, ?_, ?_, ?_, h.dSig, ?_, ?_, ?_, ?_, ?_⟩
    · intro y hy
      rcases hmem y (by simpa using hy) with hy | rfl
      · exact h.strong y (by simp [hy])
      · simp only [unread, List.length_drop] at hn
        have := h.strong x hxm
        simp only; omega
    · intro y hy
      rcases hmem y (by simpa using hy) with hy | rfl
      · exact h.starts y (by simp [hy])
      · exact h.starts x hxm
    · intro y hy j hj
      simp only [Option.some.injEq] at hy; subst hy
      exact h.curLe x hf j hj
    · have := h.incr
      rw [hf] at this
      simpa using this
    · intro y _ _; exact Or.inr (Or.inr (by simp [hrd]))
    · intro hr; simp [hrd] at hr
    · exact h.latch
    · intro y hy hne
      simp only [Option.some.injEq] at hy; subst hy
      exact h.gone x hf hne
    · intro _ hf'; simp at hf'
    · intro he hr
      obtain ⟨h1, h2, p, h3⟩ := h.inPlace he hr
      rw [hf] at h3; simp only [Option.some.injEq] at h3; subst h3
      exact ⟨h1, h2, p + n, rfl⟩
  | readEmpty _ x hrd hf hu =>
    refine ⟨h.core, h.strong, h.starts, h.histLt, h.curLe, h.incr, ?_, h.dSig, ?_, ?_, h.gone, h.fresh, h.inPlace⟩
    · intro y hy hne
      have hy' : s.f = some y := hy
      rw [hf] at hy'; simp only [Option.some.injEq] at hy'; subst hy'
      exact absurd hu hne
    · intro hr; simp at hr
    · intro hr hrm
      rcases h.latch hr hrm with h1 | h1
      · rw [hrd] at h1; cases h1
      · exact Or.inr h1
  | readNil _ hrd hf =>
    refine ⟨h.core, h.strong, h.starts, h.histLt, h.curLe, h.incr, ?_, h.dSig, ?_, ?_, h.gone, h.fresh, h.inPlace⟩
    · intro y hy hne
      have hy' : s.f = some y := hy
      rw [hf] at hy'; cases hy'
    · intro hr; simp at hr
    · intro hr hrm
      rcases h.latch hr hrm with h1 | h1
      · rw [hrd] at h1; cases h1
      · exact Or.inr h1
  | recvW _ hrd hpw =>
    by_cases hopen : (s.f.isNone && cfg.reopen) = true
    · -- the file is (re-)opened from its beginning
      simp only [Bool.and_eq_true, Option.isNone_iff_eq_none] at hopen
      obtain ⟨hfn, hre⟩ := hopen
      have hc : Core s.fs none s.hist s.delivered := by have := h.core; rwa [hfn] at this
      have hst : ∀ y, (onWrite cfg { s with pw := s.pw - 1 }).f = some y → s.fs.path = some y.ino ∧ y.start = 0 ∧ y.pos = 0 := by
        intro y hy
        simp only [onWrite, hfn, hre, Option.isNone_none, Bool.and_self, if_true] at hy
        exact openAt_some _ _ _ hy
      have hfs : (onWrite cfg { s with pw := s.pw - 1 }).fs = s.fs := by simp [onWrite, hfn, hre]
      have hhist : (onWrite cfg { s with pw := s.pw - 1 }).hist = s.hist := by simp [onWrite, hfn, hre]
      have hff : (onWrite cfg { s with pw := s.pw - 1 }).f = openAt s.fs 0 := by simp [onWrite, hfn, hre]
      have hdel : (onWrite cfg { s with pw := s.pw - 1 }).delivered = s.delivered := by simp [onWrite, hfn, hre]
      have hev : (onWrite cfg { s with pw := s.pw - 1 }).evq = s.evq := by simp [onWrite, hfn, hre]
      have hpd : (onWrite cfg { s with pw := s.pw - 1 }).pd = s.pd := by simp [onWrite, hfn, hre]
      have hrm : (onWrite cfg { s with pw := s.pw - 1 }).removes = s.removes := by simp [onWrite, hfn, hre]
      refine ⟨?_, ?_, ?_, ?_, ?_, ?_, ?_, ?_, ?_, ?_, ?_, ?_, ?_⟩
      · simp only [hfs, hhist, hff, hdel]; exact hc.openAt 0
      · intro y hy
        simp only [hfs, hhist, hff] at hy ⊢
        rcases List.mem_append.mp hy with hy | hy
        · exact h.strong y (by simp [hy])
        · have := openAt_some s.fs 0 y (by simpa using hy)
          omega
      · intro y hy
        simp only [hhist, hff] at hy
        rcases List.mem_append.mp hy with hy | hy
        · exact h.starts y (by simp [hy])
        · have := openAt_some s.fs 0 y (by simpa using hy)
          exact Or.inl this.2.1
      · intro hr y hy j hj
        simp only [hfs, hhist] at hy hj
        exact h.histLt hr y hy j hj
      · intro y hy j hj
        simp only [hfs] at hj
        have := (hst y hy).1
        rw [this] at hj; simp only [Option.some.injEq] at hj; omega
      · simp only [hhist, hff]
        cases ho : openAt s.fs 0 with
        | none => have := h.incr; simpa [hfn] using this
        | some y =>
          have hp := (openAt_some _ _ _ ho).1
          have hi := h.incr
          simp only [hfn, Option.toList_none, List.append_nil] at hi
          simp only [Option.toList_some, List.map_append, List.map_cons, List.map_nil, List.pairwise_append]
          refine ⟨hi, List.pairwise_singleton _ _, ?_⟩
          intro a ha b hb
          simp only [List.mem_singleton] at hb; subst hb
          obtain ⟨z, hz, rfl⟩ := List.mem_map.mp ha
          exact h.histLt hre z hz _ hp
      · intro y _ _; exact Or.inr (Or.inr (by simp))
      · intro hd; simp only [hpd, hev, hrm] at hd ⊢; exact h.dSig hd
      · intro hr; simp at hr
      · intro hr; rw [hre] at hr; cases hr
      · intro y hy hne
        simp only [hfs] at hne
        exact absurd (hst y hy).1 hne
      · intro _ hf' j hj
        simp only [hff] at hf'
        simp only [hfs] at hj
        have := openAt_none _ _ hf'
        rw [this] at hj; cases hj
      · intro he hr
        simp only [hrm] at hr
        obtain ⟨_, _, p, h3⟩ := h.inPlace he hr
        rw [hfn] at h3; cases h3
    · -- nothing to do: the signal is consumed
      have heq : onWrite cfg { s with pw := s.pw - 1 } = { s with pw := s.pw - 1 } := by
        simp only [onWrite]; rw [if_neg]; simpa using hopen
      rw [heq]
      refine ⟨h.core, h.strong, h.starts, h.histLt, h.curLe, h.incr, ?_, h.dSig, ?_, ?_, h.gone, ?_, h.inPlace⟩
      · intro y _ _; exact Or.inr (Or.inr (by simp))
      · intro hr; simp at hr
      · intro hr hrm
        rcases h.latch hr hrm with h1 | h1
        · rw [hrd] at h1; cases h1
        · exact Or.inr h1
      · intro hr hf' j hj
        exfalso; apply hopen
        have hf'' : s.f = none := hf'
        simp [hf'', hr]
  | recvD _ hrd hpd hre =>
    have hrm : 0 < s.removes ∨ (cfg.reopen = true ∧ ex = false) := h.dSig (Or.inl hpd)
    have hnip : ex = true → s.removes = 0 → False := by
      intro he hr
      rcases hrm with h1 | ⟨_, h2⟩
      · omega
      · rw [h2] at he; cases he
    by_cases hsame : sameFile { s with pd := s.pd - 1 } = true
    · have heq : reopenIfReplaced { s with pd := s.pd - 1 } = { s with pd := s.pd - 1 } := by
        simp only [reopenIfReplaced]; rw [if_pos hsame]
      rw [heq]
      have hsf : ∃ x, s.f = some x ∧ s.fs.path = some x.ino := by
        simp only [sameFile] at hsame
        cases hf : s.f with
        | none => simp [hf] at hsame
        | some x =>
          cases hp : s.fs.path with
          | none => simp [hf, hp] at hsame
          | some i => simp [hf, hp] at hsame; exact ⟨x, rfl, by rw [hsame]⟩
      obtain ⟨x, hfx, hpx⟩ := hsf
      refine ⟨h.core, h.strong, h.starts, h.histLt, h.curLe, h.incr, ?_, ?_, ?_, ?_, ?_, ?_, ?_⟩
      · intro y _ _; exact Or.inr (Or.inr (by simp))
      · intro _; exact hrm
      · intro hr; simp at hr
      · intro hr; rw [hre] at hr; cases hr
      · intro y hy hne
        have hy' : s.f = some y := hy
        rw [hfx] at hy'; simp only [Option.some.injEq] at hy'; subst hy'
        exact absurd hpx hne
      · intro _ hf'
        have hf'' : s.f = none := hf'
        rw [hfx] at hf''; cases hf''
      · intro he hr; exact absurd hr (fun hr => hnip he hr)
    · have heq : reopenIfReplaced { s with pd := s.pd - 1 } =
          { s with pd := s.pd - 1, f := openAt s.fs 0, hist := s.hist ++ s.f.toList } := by
        simp only [reopenIfReplaced]; rw [if_neg hsame]; rfl
      rw [heq]
      have hdiff : ∀ x i, s.f = some x → s.fs.path = some i → x.ino ≠ i := by
        intro x i hfx hpi hxi
        apply hsame
        simp [sameFile, hfx, hpi, hxi]
      have hc : Core s.fs none (s.hist ++ s.f.toList) s.delivered := h.core.closeOpt
      have hlt : ∀ y ∈ s.hist ++ s.f.toList, ∀ j, s.fs.path = some j → y.ino < j := by
        intro y hy j hj
        rcases List.mem_append.mp hy with hy | hy
        · exact h.histLt hre y hy j hj
        · have hy' : s.f = some y := by simpa using hy
          have := h.curLe y hy' j hj
          have := hdiff y j hy' hj
          omega
      refine ⟨hc.openAt 0, ?_, ?_, ?_, ?_, ?_, ?_, ?_, ?_, ?_, ?_, ?_, ?_⟩
      · intro y hy
        rcases List.mem_append.mp hy with hy | hy
        · exact h.strong y hy
        · have := openAt_some s.fs 0 y (by simpa using hy)
          simp only; omega
      · intro y hy
        rcases List.mem_append.mp hy with hy | hy
        · exact h.starts y hy
        · have := openAt_some s.fs 0 y (by simpa using hy)
          exact Or.inl this.2.1
      · intro _ y hy j hj; exact hlt y hy j hj
      · intro y hy j hj
        have := (openAt_some s.fs 0 y hy).1
        have hj' : s.fs.path = some j := hj
        rw [this] at hj'; simp only [Option.some.injEq] at hj'; omega
      · show (((s.hist ++ s.f.toList) ++ (openAt s.fs 0).toList).map (·.ino)).Pairwise (· < ·)
        cases ho : openAt s.fs 0 with
        | none => simpa using h.incr
        | some y =>
          have hp := (openAt_some _ _ _ ho).1
          simp only [Option.toList_some, List.map_append, List.map_cons, List.map_nil]
          rw [List.pairwise_append]
          refine ⟨by simpa using h.incr, List.pairwise_singleton _ _, ?_⟩
          intro a ha b hb
          simp only [List.mem_singleton] at hb; subst hb
          rw [← List.map_append] at ha
          obtain ⟨z, hz, rfl⟩ := List.mem_map.mp ha
          exact hlt z hz _ hp
      · intro y _ _; exact Or.inr (Or.inr (by simp))
      · intro _; exact hrm
      · intro hr; simp at hr
      · intro hr; rw [hre] at hr; cases hr
      · intro y hy hne
        exact absurd (openAt_some s.fs 0 y hy).1 hne
      · intro _ hf' j hj
        have := openAt_none s.fs 0 hf'
        have hj' : s.fs.path = some j := hj
        rw [this] at hj'; cases hj'
      · intro he hr; exact absurd hr (fun hr => hnip he hr)
  | recvDPlain _ hrd hpd hre =>
    have hrm : 0 < s.removes := by
      rcases h.dSig (Or.inl hpd) with h1 | ⟨h1, _⟩
      · exact h1
      · rw [hre] at h1; cases h1
    have hc : Core s.fs none (s.hist ++ s.f.toList) s.delivered := h.core.closeOpt
    refine ⟨hc, ?_, ?_, ?_, ?_, ?_, ?_, ?_, ?_, ?_, ?_, ?_, ?_⟩
    · intro y hy; exact h.strong y (by simpa [NSt.closeFile] using hy)
    · intro y hy; exact h.starts y (by simpa [NSt.closeFile] using hy)
    · intro hr; rw [hre] at hr; cases hr
    · intro y hy; simp [NSt.closeFile] at hy
    · simpa [NSt.closeFile] using h.incr
    · intro y hy; simp [NSt.closeFile] at hy
    · intro _; exact Or.inl hrm
    · intro _; exact ⟨hre, hrm, rfl⟩
    · intro _ _; exact Or.inl rfl
    · intro y hy; simp [NSt.closeFile] at hy
    · intro hr; rw [hre] at hr; cases hr
    · intro _ hr; simp only [NSt.closeFile] at hr; omega

theorem ninv_step (hW : 1 ≤ cfg.capW) (hD : 1 ≤ cfg.capD) {w : Who} {s s' : NSt β} (h : NInv cfg ex st0 s)
    (hs : NStep cfg w s s') : NInv cfg ex st0 s' := by
  cases w with
  | writer => exact ninv_writer h hs
  | kernel => exact ninv_kernel hW hD h hs
  | reader => exact ninv_reader h hs

theorem ninv_reach (hW : 1 ≤ cfg.capW) (hD : 1 ≤ cfg.capD) (c0 : Option (List β)) (tail : Bool) {s : NSt β}
    (hr : NReach cfg (ninit c0 tail) s) : NInv cfg c0.isSome (start0 c0 tail) s := by
  induction hr with
  | refl => exact ninv_init cfg c0 tail
  | step _ hs ih => exact ninv_step hW hD ih hs

end Rare.Follow
