import Rare.Model.C17HeapI
import Rare.Proofs.C17Heap
/-!
C17: the interleaved heap machine (`Model/C17HeapI.lean`) computes `val` under EVERY interference the other
goroutines can produce.

`Rely h h'` – what the others may do in one scheduling point: anything to the pool that keeps it in order (take
objects, allocate, return objects that are not this evaluation's – so the free list stays duplicate-free and free
of this evaluation's objects; that they return only what they hold is `pool_exclusive`), anything to the fields of
objects this evaluation has NOT checked out; nothing to `mine` objects and nothing to the ghost `mine` itself.

`evI_val` – for every oracle `env` with `∀ h, Rely h (env h)`: the answer is `val`, from any heap, and the heap is
`FrameI`d (pool in order, this evaluation's set of objects as before, their fields untouched).
-/
namespace Rare.C17
open Rare Rare.Expr Rare.C17Pool Rare.C17Heap Rare.C17HeapI

def PoolInv (h : HeapI) : Prop :=
  h.pool.free.Nodup ∧ (∀ o ∈ h.pool.free, o < h.pool.next ∧ h.mine o = false) ∧
    (∀ o, h.mine o = true → o < h.pool.next)

structure Rely (h h' : HeapI) : Prop where
  inv : PoolInv h → PoolInv h'
  next_le : h.pool.next ≤ h'.pool.next
  mine : ∀ x, h'.mine x = h.mine x
  keep : ∀ x, h.mine x = true → h'.objs x = h.objs x

structure GoodI (h : HeapI) (l : List Nat) (ref : Ref) : Prop where
  inv : PoolInv h
  chain : chainOf h.objs l ref
  nodup : l.Nodup
  mine : ∀ o ∈ l, h.mine o = true

structure FrameI (h h' : HeapI) (ex : List Nat) : Prop where
  inv : PoolInv h'
  next_le : h.pool.next ≤ h'.pool.next
  mine : ∀ x, h'.mine x = h.mine x
  keep : ∀ x, h.mine x = true → x ∉ ex → h'.objs x = h.objs x

theorem FrameI.refl (h : HeapI) (hp : PoolInv h) (ex : List Nat) : FrameI h h ex :=
  ⟨hp, Nat.le_refl _, fun _ => rfl, fun _ _ _ => rfl⟩

theorem FrameI.trans {h h1 h2 : HeapI} {ex : List Nat} (f1 : FrameI h h1 ex) (f2 : FrameI h1 h2 ex) :
    FrameI h h2 ex :=
  ⟨f2.inv, Nat.le_trans f1.next_le f2.next_le, fun x => by rw [f2.mine x, f1.mine x],
    fun x hx hn => by rw [f2.keep x (by rw [f1.mine x]; exact hx) hn, f1.keep x hx hn]⟩

theorem FrameI.mono {h h' : HeapI} {ex : List Nat} (f : FrameI h h' []) : FrameI h h' ex :=
  ⟨f.inv, f.next_le, f.mine, fun x hx _ => f.keep x hx (by simp)⟩

/-- One scheduling point. -/
theorem frame_pause {env : HeapI → HeapI} (henv : ∀ h, Rely h (env h)) (h : HeapI) (hp : PoolInv h) (ex : List Nat) :
    FrameI h (pause env h) ex := by
  have r := henv { h with tick := h.tick + 1 }
  exact ⟨r.inv hp, r.next_le, r.mine, fun x hx _ => r.keep x hx⟩

theorem GoodI.frame {h h' : HeapI} {l : List Nat} {ref : Ref} {ex : List Nat} (g : GoodI h l ref)
    (f : FrameI h h' ex) (hd : ∀ x ∈ l, x ∉ ex) : GoodI h' l ref :=
  ⟨f.inv, chainOf_congr h.objs h'.objs l ref (fun x hx => f.keep x (g.mine x hx) (hd x hx)) g.chain, g.nodup,
    fun o ho => by rw [f.mine o]; exact g.mine o ho⟩

theorem ctxOf_frameI (root : Ctx) {h h' : HeapI} {l : List Nat} {ref : Ref} {ex : List Nat} (g : GoodI h l ref)
    (f : FrameI h h' ex) (hd : ∀ x ∈ l, x ∉ ex) : ctxOf root h'.objs l = ctxOf root h.objs l :=
  ctxOf_congr root h.objs h'.objs l (fun x hx => f.keep x (g.mine x hx) (hd x hx))

theorem setVals_goodI {h : HeapI} {o : Nat} {l : List Nat} (g : GoodI h (o :: l) (.obj o)) (a b : Bytes) :
    GoodI (h.setVals o a b) (o :: l) (.obj o) ∧ FrameI h (h.setVals o a b) [o] ∧
    (∀ root, ctxOf root (h.setVals o a b).objs (o :: l) = subCtx (ctxOf root h.objs l) a b) ∧
    (∀ root, ctxOf root (h.setVals o a b).objs l = ctxOf root h.objs l) := by
  have hnd := List.nodup_cons.mp g.nodup
  have hagree : ∀ x ∈ l, (h.setVals o a b).objs x = h.objs x := by
    intro x hx
    have : x ≠ o := fun e => hnd.1 (e ▸ hx)
    simp [HeapI.setVals, HeapI.set, this]
  have hpar : ((h.setVals o a b).objs o).parent = (h.objs o).parent := by simp [HeapI.setVals, HeapI.set]
  refine ⟨⟨g.inv, ⟨rfl, ?_⟩, g.nodup, g.mine⟩, ⟨g.inv, Nat.le_refl _, fun _ => rfl, fun x _ hx => ?_⟩, fun root => ?_,
    fun root => ctxOf_congr root h.objs _ l hagree⟩
  · rw [hpar]
    exact chainOf_congr h.objs _ l _ hagree g.chain.2
  · have : x ≠ o := by simpa using hx
    simp [HeapI.setVals, HeapI.set, this]
  · simp only [ctxOf]
    rw [ctxOf_congr root h.objs _ l hagree]
    simp [HeapI.setVals, HeapI.set]

/-! ### look-ups -/

theorem runHI_chain {env : HeapI → HeapI} (henv : ∀ h, Rely h (env h)) (root : Ctx) (fuel : Nat) (l : List Nat) (ref : Ref)
    (c : Stage) : ∀ (h : HeapI), GoodI h l ref → l.length < fuel →
      ∃ h', runHI env root fuel ref c h = (c.run (ctxOf root h.objs l)).map (fun v => (v, h')) ∧ FrameI h h' [] := by
  induction c with
  | ret a => intro h g _; exact ⟨h, rfl, FrameI.refl h g.inv _⟩
  | panic m => intro h g _; exact ⟨h, rfl, FrameI.refl h g.inv _⟩
  | getMatch i k ih =>
    intro h g hf
    have fp := frame_pause henv h g.inv []
    obtain ⟨h', e, fr⟩ := ih ((ctxOf root h.objs l).getMatch i) (pause env h) (g.frame fp (by simp)) hf
    refine ⟨h', ?_, fp.trans fr⟩
    simp only [runHI, Comp.run, getMatchH_chain root h.objs i l ref fuel g.chain hf]
    rw [e, ctxOf_frameI root g fp (by simp)]
  | getKey s k ih =>
    intro h g hf
    have fp := frame_pause henv h g.inv []
    obtain ⟨h', e, fr⟩ := ih ((ctxOf root h.objs l).getKey s) (pause env h) (g.frame fp (by simp)) hf
    refine ⟨h', ?_, fp.trans fr⟩
    simp only [runHI, Comp.run, getKeyH_chain root h.objs s l ref fuel g.chain hf]
    rw [e, ctxOf_frameI root g fp (by simp)]

/-! ### Get … Return -/

theorem acquireI_spec {env : HeapI → HeapI} (henv : ∀ h, Rely h (env h)) {h : HeapI} {l : List Nat} {ref : Ref}
    (g : GoodI h l ref) :
    GoodI (acquireI env h ref).2 ((acquireI env h ref).1 :: l) (.obj (acquireI env h ref).1) ∧
    GoodI (acquireI env h ref).2 l ref ∧
    (∀ root, ctxOf root (acquireI env h ref).2.objs l = ctxOf root h.objs l) ∧
    h.mine (acquireI env h ref).1 = false ∧
    h.pool.next ≤ (acquireI env h ref).2.pool.next ∧
    (∀ x, x ≠ (acquireI env h ref).1 → (acquireI env h ref).2.mine x = h.mine x) ∧
    (∀ x, h.mine x = true → (acquireI env h ref).2.objs x = h.objs x) := by
  obtain ⟨hn, hb, hm⟩ := g.inv
  -- the two cases of `Get`
  have key : ∃ o p1, h.pool.get = (o, p1) ∧ h.mine o = false ∧ o < p1.next ∧ h.pool.next ≤ p1.next ∧ o ∉ p1.free ∧
      p1.free.Nodup ∧ (∀ x ∈ p1.free, x ∈ h.pool.free) := by
    cases hl : h.pool.free.getLast? with
    | none =>
      have hf : h.pool.free = [] := List.getLast?_eq_none_iff.mp hl
      refine ⟨h.pool.next, { h.pool with next := h.pool.next + 1 }, get_of_empty hl, ?_, by simp, by simp, by simp [hf],
        by simp [hf], by simp [hf]⟩
      cases hmine : h.mine h.pool.next
      · rfl
      · exact absurd (hm _ hmine) (Nat.lt_irrefl _)
    | some o =>
      obtain ⟨ys, hy⟩ := List.getLast?_eq_some_iff.mp hl
      have hd : h.pool.free.dropLast = ys := by rw [hy]; simp
      have hnd : (ys ++ [o]).Nodup := hy ▸ hn
      have ho : o ∉ ys := by
        intro hmem
        exact (List.nodup_append.mp hnd).2.2 o hmem o (by simp) rfl
      have hof : o ∈ h.pool.free := by rw [hy]; simp
      refine ⟨o, { h.pool with free := h.pool.free.dropLast }, get_of_last hl, (hb o hof).2, (hb o hof).1, Nat.le_refl _,
        by rw [hd]; exact ho, by rw [hd]; exact (List.nodup_append.mp hnd).1, ?_⟩
      intro x hx
      rw [hd] at hx
      rw [hy]; simp [hx]
  obtain ⟨o, p1, hget, hmo, hlt, hle, hnf, hnd1, hsub⟩ := key
  -- the four steps
  let h1 : HeapI := { h with pool := p1, mine := fun n => if n = o then true else h.mine n }
  have inv1 : PoolInv h1 := by
    refine ⟨hnd1, fun x hx => ⟨Nat.lt_of_lt_of_le (hb x (hsub x hx)).1 hle, ?_⟩, fun x hx => ?_⟩
    · have : x ≠ o := fun e => hnf (e ▸ hx)
      simp [h1, this, (hb x (hsub x hx)).2]
    · by_cases e : x = o
      · subst e; exact hlt
      · have : h.mine x = true := by simpa [h1, e] using hx
        exact Nat.lt_of_lt_of_le (hm x this) hle
  have f12 := frame_pause henv h1 inv1 []
  let h2 := pause env h1
  let h3 := h2.set o ⟨ref, [], []⟩
  have inv3 : PoolInv h3 := f12.inv
  have f34 := frame_pause henv h3 inv3 []
  have e1 : (acquireI env h ref).1 = o := by simp [acquireI, hget]
  have e2 : (acquireI env h ref).2 = pause env h3 := by simp [acquireI, hget, h3, h2, h1]
  rw [e1, e2]
  have hol : o ∉ l := fun hmem => by
    have := g.mine o hmem
    rw [hmo] at this; cases this
  have mine1 : ∀ x, h.mine x = true → h1.mine x = true := by
    intro x hx; by_cases e : x = o <;> simp [h1, e, hx]
  -- objects of the caller: untouched through all four steps
  have keep4 : ∀ x, h.mine x = true → (pause env h3).objs x = h.objs x := by
    intro x hx
    have hxo : x ≠ o := fun e => by rw [e, hmo] at hx; cases hx
    have m3 : h3.mine x = true := by
      show h2.mine x = true
      rw [f12.mine x]; exact mine1 x hx
    rw [f34.keep x m3 (by simp)]
    show (if x = o then _ else h2.objs x) = _
    rw [if_neg hxo, f12.keep x (mine1 x hx) (by simp)]
  have mine4 : ∀ x, (pause env h3).mine x = (if x = o then true else h.mine x) := by
    intro x
    rw [f34.mine x]
    show h2.mine x = _
    rw [f12.mine x]
  have mo3 : h3.mine o = true := by
    show h2.mine o = true
    rw [f12.mine o]; simp [h1]
  have obj4 : (pause env h3).objs o = ⟨ref, [], []⟩ := by
    rw [f34.keep o mo3 (by simp)]
    simp [h3, HeapI.set]
  have hagl : ∀ x ∈ l, (pause env h3).objs x = h.objs x := fun x hx => keep4 x (g.mine x hx)
  have hchain : chainOf (pause env h3).objs l ref := chainOf_congr h.objs _ l ref hagl g.chain
  have minel : ∀ x ∈ l, (pause env h3).mine x = true := by
    intro x hx
    rw [mine4 x]
    by_cases e : x = o
    · simp [e]
    · simp [e, g.mine x hx]
  refine ⟨⟨f34.inv, ⟨rfl, ?_⟩, List.nodup_cons.mpr ⟨hol, g.nodup⟩, ?_⟩, ⟨f34.inv, hchain, g.nodup, minel⟩,
    fun root => ctxOf_congr root h.objs _ l hagl, hmo, ?_, ?_, keep4⟩
  · rw [obj4]; exact hchain
  · intro x hx
    rcases List.mem_cons.mp hx with e | hx
    · subst e; rw [mine4 x]; simp
    · exact minel x hx
  · exact Nat.le_trans hle (Nat.le_trans f12.next_le f34.next_le)
  · intro x hx
    rw [mine4 x, if_neg hx]

theorem releaseI_frame {env : HeapI → HeapI} (henv : ∀ h, Rely h (env h)) {h h1 h3 : HeapI} {o : Nat}
    (hmo : h.mine o = false) (hle : h.pool.next ≤ h1.pool.next)
    (hmine : ∀ x, x ≠ o → h1.mine x = h.mine x) (hmo1 : h1.mine o = true)
    (hkeep : ∀ x, h.mine x = true → h1.objs x = h.objs x)
    (f : FrameI h1 h3 [o]) : FrameI h (releaseI env h3 o) [] := by
  obtain ⟨hn3, hb3, hm3⟩ := f.inv
  have mo3 : h3.mine o = true := by rw [f.mine o]; exact hmo1
  let hr : HeapI := { h3 with pool := h3.pool.ret o, mine := fun n => if n = o then false else h3.mine n }
  have invr : PoolInv hr := by
    refine ⟨?_, ?_, ?_⟩
    · show (h3.pool.free ++ [o]).Nodup
      refine List.nodup_append.mpr ⟨hn3, by simp, ?_⟩
      intro a ha b hb' e
      simp at hb'; subst hb'; subst e
      have := (hb3 a ha).2
      rw [mo3] at this; cases this
    · intro x hx
      have hx' : x ∈ h3.pool.free ++ [o] := hx
      simp only [List.mem_append, List.mem_singleton] at hx'
      rcases hx' with e | e
      · refine ⟨(hb3 x e).1, ?_⟩
        show (if x = o then false else h3.mine x) = false
        by_cases hxo : x = o
        · simp [hxo]
        · simp [hxo, (hb3 x e).2]
      · subst e
        exact ⟨hm3 x mo3, by show (if x = x then false else h3.mine x) = false; simp⟩
    · intro x hx
      have : (if x = o then false else h3.mine x) = true := hx
      by_cases hxo : x = o
      · simp [hxo] at this
      · rw [if_neg hxo] at this; exact hm3 x this
  have fp := frame_pause henv hr invr []
  refine ⟨fp.inv, Nat.le_trans hle (Nat.le_trans f.next_le fp.next_le), fun x => ?_, fun x hx _ => ?_⟩
  · show (pause env hr).mine x = h.mine x
    rw [fp.mine x]
    show (if x = o then false else h3.mine x) = h.mine x
    by_cases hxo : x = o
    · subst hxo; simp [hmo]
    · rw [if_neg hxo, f.mine x, hmine x hxo]
  · have hxo : x ≠ o := fun e => by rw [e, hmo] at hx; cases hx
    have m1 : h1.mine x = true := by rw [hmine x hxo]; exact hx
    have mr : hr.mine x = true := by
      show (if x = o then false else h3.mine x) = true
      rw [if_neg hxo, f.mine x]; exact m1
    show (pause env hr).objs x = h.objs x
    rw [fp.keep x mr (by simp)]
    show h3.objs x = h.objs x
    rw [f.keep x m1 (by simpa using hxo), hkeep x hx]

/-! ### the loops -/

def LoopInvI (root ctx : Ctx) (o : Nat) (l : List Nat) (h : HeapI) : Prop :=
  GoodI h (o :: l) (.obj o) ∧ ctxOf root h.objs l = ctx

def SubOkI (env : HeapI → HeapI) (root ctx : Ctx) (evf : Ref → HeapI → ResI) (o : Nat) (l : List Nat)
    (F : Bytes → Bytes → Bytes) : Prop :=
  ∀ h a b, LoopInvI root ctx o l h →
    ∃ h', evf (.obj o) (pause env (h.setVals o a b)) = .ok (F a b, h') ∧ FrameI (h.setVals o a b) h' []

theorem loopInvI_step {root ctx : Ctx} {o : Nat} {l : List Nat} {h h' : HeapI} (hi : LoopInvI root ctx o l h)
    (a b : Bytes) (f : FrameI (h.setVals o a b) h' []) : LoopInvI root ctx o l h' ∧ FrameI h h' [o] := by
  obtain ⟨g1, f1, _, hc⟩ := setVals_goodI hi.1 a b
  refine ⟨⟨g1.frame f (by simp), ?_⟩, f1.trans f.mono⟩
  rw [ctxOf_congr root (h.setVals o a b).objs h'.objs l
    (fun x hx => f.keep x (g1.mine x (List.mem_cons_of_mem _ hx)) (by simp)), hc root, hi.2]

theorem objLoopI_spec {σ : Type} (env : HeapI → HeapI) (root ctx : Ctx) (evf : Ref → HeapI → ResI) (o : Nat)
    (l : List Nat) (F : Bytes → Bytes → Bytes) (hsub : SubOkI env root ctx evf o l F)
    (args : σ → Bytes → Bytes × Bytes) (upd : σ → Bytes → Bytes → σ) :
    ∀ (xs : List Bytes) (s : σ) (h : HeapI), LoopInvI root ctx o l h →
      ∃ h', objLoopI env evf o args upd xs s h =
          .ok (xs.foldl (fun s x => upd s x (F (args s x).1 (args s x).2)) s, h') ∧
        LoopInvI root ctx o l h' ∧ FrameI h h' [o]
  | [], s, h, hi => ⟨h, rfl, hi, FrameI.refl h hi.1.inv _⟩
  | x :: xs, s, h, hi => by
    obtain ⟨h1, e1, f1⟩ := hsub h (args s x).1 (args s x).2 hi
    obtain ⟨hi1, fr1⟩ := loopInvI_step hi _ _ f1
    obtain ⟨h2, e2, hi2, fr2⟩ := objLoopI_spec env root ctx evf o l F hsub args upd xs
      (upd s x (F (args s x).1 (args s x).2)) h1 hi1
    refine ⟨h2, ?_, hi2, fr1.trans fr2⟩
    simp only [objLoopI, e1, List.foldl_cons]
    exact e2

theorem forLoopHI_spec (env : HeapI → HeapI) (root ctx : Ctx) (evc evn : Ref → HeapI → ResI) (o : Nat) (l : List Nat)
    (Fc Fn : Bytes → Bytes → Bytes) (hc : SubOkI env root ctx evc o l Fc) (hn : SubOkI env root ctx evn o l Fn) :
    ∀ (fuel idx : Nat) (v : Bytes) (acc : List Bytes) (h : HeapI), LoopInvI root ctx o l h →
      idx ≤ Gen.maxIterations → Gen.maxIterations - idx < fuel →
      ∃ h', forLoopHI env evc evn o fuel idx v acc h =
          .ok ((iterateWhile (fun v k => truthy (Fc v (itoa (k : Nat)))) (fun v k => Fn v (itoa (k : Nat)))
                  (Gen.maxIterations - idx) idx v).map (acc ++ ·), h') ∧
        LoopInvI root ctx o l h' ∧ FrameI h h' [o]
  | 0, idx, v, acc, h, _, _, hf => by omega
  | fuel + 1, idx, v, acc, h, hi, hle, hf => by
    obtain ⟨h1, e1, f1⟩ := hc h v (itoa (idx : Nat)) hi
    obtain ⟨hi1, fr1⟩ := loopInvI_step hi _ _ f1
    by_cases ht : truthy (Fc v (itoa (idx : Nat))) = true
    · obtain ⟨h2, e2, f2⟩ := hn h1 v (itoa (idx : Nat)) hi1
      obtain ⟨hi2, fr2⟩ := loopInvI_step hi1 _ _ f2
      by_cases hmax : idx + 1 > Gen.maxIterations
      · have e0 : Gen.maxIterations - idx = 0 := by omega
        refine ⟨h2, ?_, hi2, fr1.trans fr2⟩
        simp only [forLoopHI, e1, ht, Bool.not_true, Bool.false_eq_true, if_false, e2, hmax, if_true, e0,
          iterateWhile, Option.map_none]
      · have es : Gen.maxIterations - idx = (Gen.maxIterations - (idx + 1)) + 1 := by omega
        obtain ⟨h3, e3, hi3, fr3⟩ := forLoopHI_spec env root ctx evc evn o l Fc Fn hc hn fuel (idx + 1)
          (Fn v (itoa (idx : Nat))) (acc ++ [v]) h2 hi2 (by omega) (by omega)
        refine ⟨h3, ?_, hi3, (fr1.trans fr2).trans fr3⟩
        simp only [forLoopHI, e1, ht, Bool.not_true, Bool.false_eq_true, if_false, e2, hmax, e3]
        rw [es]
        simp only [iterateWhile, ht, if_true, Option.map_map]
        have : (fun x => acc ++ [v] ++ x) = ((fun x => acc ++ x) ∘ fun x => v :: x) := by funext ys; simp
        rw [this]
    · have ht' : truthy (Fc v (itoa (idx : Nat))) = false := by simpa using ht
      refine ⟨h1, ?_, hi1, fr1⟩
      simp only [forLoopHI, e1, ht', Bool.not_false, if_true]
      cases hlim : Gen.maxIterations - idx <;> simp [iterateWhile, ht']

/-! ### every template, every schedule -/

def EvOkI (env : HeapI → HeapI) (root : Ctx) (fuel : Nat) (t : Tm) : Prop :=
  ∀ (ref : Ref) (h : HeapI) (l : List Nat), GoodI h l ref → l.length + depth t < fuel →
    ∃ h', evI env root fuel t ref h = .ok (val t (ctxOf root h.objs l), h') ∧ FrameI h h' []

theorem subOkI_of_evOkI {env : HeapI → HeapI} (henv : ∀ h, Rely h (env h)) {root : Ctx} {fuel : Nat} {f : Tm}
    (ih : EvOkI env root fuel f) (ctx : Ctx) (o : Nat) (l : List Nat) (hlen : (o :: l).length + depth f < fuel) :
    SubOkI env root ctx (evI env root fuel f) o l (fun a b => val f (subCtx ctx a b)) := by
  intro h a b hi
  obtain ⟨g1, _, hc, _⟩ := setVals_goodI hi.1 a b
  have fp := frame_pause henv (h.setVals o a b) g1.inv []
  obtain ⟨h', e, fr⟩ := ih (.obj o) (pause env (h.setVals o a b)) (o :: l) (g1.frame fp (by simp)) hlen
  refine ⟨h', ?_, fp.trans fr⟩
  rw [e, ctxOf_frameI root g1 fp (by simp), hc root, hi.2]

theorem helperI_get_first {σ : Type} {env : HeapI → HeapI} (henv : ∀ h, Rely h (env h)) {root : Ctx} {fuel : Nat}
    {a f : Tm} (iha : EvOkI env root fuel a) (ihf : EvOkI env root fuel f)
    {ref : Ref} {h : HeapI} {l : List Nat} (g : GoodI h l ref)
    (hda : l.length + depth a < fuel) (hdf : l.length + 1 + depth f < fuel)
    (args : σ → Bytes → Bytes × Bytes) (upd : σ → Bytes → Bytes → σ) (items : Bytes → List Bytes) (s0 : Bytes → σ) :
    ∃ h2 h3, evI env root fuel a ref (acquireI env h ref).2 = .ok (val a (ctxOf root h.objs l), h2) ∧
      objLoopI env (evI env root fuel f) (acquireI env h ref).1 args upd (items (val a (ctxOf root h.objs l)))
          (s0 (val a (ctxOf root h.objs l))) h2 =
        .ok ((items (val a (ctxOf root h.objs l))).foldl
          (fun s x => upd s x (val f (subCtx (ctxOf root h.objs l) (args s x).1 (args s x).2)))
          (s0 (val a (ctxOf root h.objs l))), h3) ∧
      FrameI h (releaseI env h3 (acquireI env h ref).1) [] := by
  obtain ⟨g1, g1l, hctx1, hmo, hle, hmine, hkeep⟩ := acquireI_spec henv g (ref := ref)
  obtain ⟨h2, e2, fr2⟩ := iha ref (acquireI env h ref).2 l g1l hda
  rw [hctx1 root] at e2
  have hi2 : LoopInvI root (ctxOf root h.objs l) (acquireI env h ref).1 l h2 :=
    ⟨g1.frame fr2 (by simp), by rw [ctxOf_frameI root g1l fr2 (by simp), hctx1 root]⟩
  have hsub := subOkI_of_evOkI henv ihf (ctxOf root h.objs l) (acquireI env h ref).1 l (by simp; omega)
  obtain ⟨h3, e3, _, fr3⟩ := objLoopI_spec env root _ _ _ l _ hsub args upd
    (items (val a (ctxOf root h.objs l))) (s0 (val a (ctxOf root h.objs l))) h2 hi2
  exact ⟨h2, h3, e2, e3,
    releaseI_frame henv hmo hle hmine (g1.mine _ (by simp)) hkeep
      ((fr2.mono (ex := [(acquireI env h ref).1])).trans fr3)⟩

theorem evI_val {env : HeapI → HeapI} (henv : ∀ h, Rely h (env h)) (root : Ctx) (fuel : Nat) :
    ∀ (t : Tm), Total t → EvOkI env root fuel t
  | .scalar c, ht => by
    intro ref h l g hf
    obtain ⟨h', e, fr⟩ := runHI_chain henv root fuel l ref c h g (by simp [depth] at hf; omega)
    refine ⟨h', ?_, fr⟩
    simp only [evI, val, e, run_noPanic _ c ht]
    rfl
  | .app1 gf a, ht => by
    intro ref h l g hf
    obtain ⟨h1, e1, f1⟩ := evI_val henv root fuel a ht ref h l g (by simpa [depth] using hf)
    exact ⟨h1, by simp only [evI, e1, val], f1⟩
  | .app2 gf a b, ht => by
    intro ref h l g hf
    have hd : l.length + depth a < fuel ∧ l.length + depth b < fuel := by simp only [depth] at hf; omega
    obtain ⟨h1, e1, f1⟩ := evI_val henv root fuel a ht.1 ref h l g hd.1
    obtain ⟨h2, e2, f2⟩ := evI_val henv root fuel b ht.2 ref h1 l (g.frame f1 (by simp)) hd.2
    rw [ctxOf_frameI root g f1 (by simp)] at e2
    exact ⟨h2, by simp only [evI, e1, e2, val], f1.trans f2⟩
  | .map a f, ht => by
    intro ref h l g hf
    have hd : l.length + depth a < fuel ∧ l.length + 1 + depth f < fuel := by simp only [depth] at hf; omega
    obtain ⟨h2, h3, e2, e3, fr⟩ := helperI_get_first henv (evI_val henv root fuel a ht.1) (evI_val henv root fuel f ht.2)
      g hd.1 hd.2 (fun (_ : List Bytes) x => (x, [])) (fun s _ y => s ++ [y]) elems (fun _ => [])
    refine ⟨_, ?_, fr⟩
    simp only [evI, e2, e3, val, foldl_snoc_map, List.nil_append]
  | .filter a p, ht => by
    intro ref h l g hf
    have hd : l.length + depth a < fuel ∧ l.length + 1 + depth p < fuel := by simp only [depth] at hf; omega
    obtain ⟨h1, e1, f1⟩ := evI_val henv root fuel a ht.1 ref h l g hd.1
    have g1 := g.frame f1 (by simp)
    have hc1 := ctxOf_frameI root g f1 (by simp)
    obtain ⟨ga, _, hctx, hmo, hle, hmine, hkeep⟩ := acquireI_spec henv g1 (ref := ref)
    have hi : LoopInvI root (ctxOf root h.objs l) (acquireI env h1 ref).1 l (acquireI env h1 ref).2 :=
      ⟨ga, by rw [hctx root, hc1]⟩
    have hsub := subOkI_of_evOkI henv (evI_val henv root fuel p ht.2) (ctxOf root h.objs l) (acquireI env h1 ref).1 l
      (by simp; omega)
    obtain ⟨h3, e3, _, fr3⟩ := objLoopI_spec env root _ _ _ l _ hsub (fun (_ : List Bytes) x => (x, []))
      (fun s x y => if truthy y then s ++ [x] else s) (elems (val a (ctxOf root h.objs l))) [] _ hi
    refine ⟨releaseI env h3 (acquireI env h1 ref).1, ?_,
      f1.trans (releaseI_frame henv hmo hle hmine (ga.mine _ (by simp)) hkeep fr3)⟩
    simp only [evI, e1, e3, val]
    rw [foldl_snoc_filter (fun x => truthy (val p (subCtx (ctxOf root h.objs l) x [])))]
    simp
  | .reduce init a f, ht => by
    intro ref h l g hf
    have hd : l.length + depth a < fuel ∧ l.length + 1 + depth f < fuel := by simp only [depth] at hf; omega
    obtain ⟨h2, h3, e2, e3, fr⟩ := helperI_get_first henv (evI_val henv root fuel a ht.1) (evI_val henv root fuel f ht.2)
      g hd.1 hd.2 (fun (memo : Bytes) x => (memo, x)) (fun _ _ y => y)
      (fun arr => (if init = [] then ((elems arr).headD [], (elems arr).tail) else (init, elems arr) : Bytes × List Bytes).2)
      (fun arr => (if init = [] then ((elems arr).headD [], (elems arr).tail) else (init, elems arr) : Bytes × List Bytes).1)
    refine ⟨_, ?_, fr⟩
    simp only [evI, e2, e3, val]
    congr 2
    unfold reduce
    by_cases hi : init = []
    · simp only [hi, if_true]
      cases elems (val a (ctxOf root h.objs l)) <;> simp
    · simp [hi]
  | .for_ s c n, ht => by
    intro ref h l g hf
    have hd : l.length + depth s < fuel ∧ l.length + 1 + depth c < fuel ∧ l.length + 1 + depth n < fuel := by
      simp only [depth] at hf; omega
    obtain ⟨h1, e1, f1⟩ := evI_val henv root fuel s ht.1 ref h l g hd.1
    have g1 := g.frame f1 (by simp)
    have hc1 := ctxOf_frameI root g f1 (by simp)
    obtain ⟨ga, _, hctx, hmo, hle, hmine, hkeep⟩ := acquireI_spec henv g1 (ref := ref)
    have hi : LoopInvI root (ctxOf root h.objs l) (acquireI env h1 ref).1 l (acquireI env h1 ref).2 :=
      ⟨ga, by rw [hctx root, hc1]⟩
    have hsc := subOkI_of_evOkI henv (evI_val henv root fuel c ht.2.1) (ctxOf root h.objs l) (acquireI env h1 ref).1 l
      (by simp; omega)
    have hsn := subOkI_of_evOkI henv (evI_val henv root fuel n ht.2.2) (ctxOf root h.objs l) (acquireI env h1 ref).1 l
      (by simp; omega)
    obtain ⟨h3, e3, _, fr3⟩ := forLoopHI_spec env root _ _ _ _ l _ _ hsc hsn (Gen.maxIterations + 2) 0
      (val s (ctxOf root h.objs l)) [] _ hi (by omega) (by omega)
    refine ⟨releaseI env h3 (acquireI env h1 ref).1, ?_,
      f1.trans (releaseI_frame henv hmo hle hmine (ga.mine _ (by simp)) hkeep fr3)⟩
    simp only [evI, e1, e3, val, Nat.sub_zero]
    cases iterateWhile (fun v k => truthy (val c (subCtx (ctxOf root h.objs l) v (itoa (k : Nat)))))
      (fun v k => val n (subCtx (ctxOf root h.objs l) v (itoa (k : Nat)))) Gen.maxIterations 0
      (val s (ctxOf root h.objs l)) <;> simp

theorem goodI_root (h : HeapI) (hp : PoolInv h) : GoodI h [] .root := ⟨hp, trivial, by simp, by simp⟩

end Rare.C17
