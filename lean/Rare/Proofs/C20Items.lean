import Rare.Model.C20Items
import Rare.Proofs.C20Extra
/-! C20: the buffered writer with `Close()` calls in the middle of a history. -/
namespace Rare.C20

theorem runB_writes (c : Cfg) : ∀ (hist : List (Nat × Bytes)) (v : VirtualTerm) (rest : List Item),
    runB c v (writesOf hist ++ rest) =
      match v.runHistory (castHist hist) with
      | .ok v' => runB c v' rest
      | .error e => .error e := by
  intro hist
  induction hist with
  | nil => intro v rest; rfl
  | cons u hist ih =>
    intro v rest
    simp only [writesOf, List.map_cons, List.cons_append, runB, castHist, VirtualTerm.runHistory]
    cases h : v.writeForLine (u.1 : Int) u.2 with
    | error e => rfl
    | ok v' =>
      have := ih v' rest
      simp only [writesOf, castHist] at this
      simp only [this, bind, Except.bind]

/-- `n` more `Close()` calls print the stored lines `n` more times -/
theorem runB_closes (c : Cfg) : ∀ (n : Nat) (v : VirtualTerm),
    runB c v (List.replicate n .c) =
      .ok ({ v with closed := v.closed || decide (0 < n) }, repeatBytes n (v.writeToOutput c)) := by
  intro n
  induction n with
  | zero => intro v; simp [runB, repeatBytes]
  | succ n ih =>
    intro v
    simp only [List.replicate_succ, runB, bufferedClose, VirtualTerm.close, ih]
    simp [repeatBytes, List.replicate_succ, VirtualTerm.writeToOutput]

theorem runB_write_closed (c : Cfg) (v : VirtualTerm) (h : v.closed = true) (l : Int) (t : Bytes) (rest : List Item) :
    runB c v (.w l t :: rest) = .error "virtualterm closed" := by
  simp [runB, VirtualTerm.writeForLine, h]

end Rare.C20
