import Rare.Model.C20Items
import Rare.Proofs.C20Extra
/-! C20: the buffered writer with `Close()` calls in the middle of a history. -/
namespace Rare.C20

theorem runB_writes (c : Cfg) : ∀ (hist : List (Nat × Bytes)) (v : VirtualTerm) (rest : List Item),
    runB c v (writesOf hist ++ rest) =
      match v.runHistory (castHist hist) with
      | .ok v' => runB c v' rest
      | .error e => .error e := by
  intro hist
  induction hist with
  | nil => intro v rest; rfl
  | cons u hist ih =>
    intro v rest
    simp only [writesOf, List.map_cons, List.cons_append, runB, castHist, VirtualTerm.runHistory]
    cases h : v.writeForLine (u.1 : Int) u.2 with
    | error e => rfl
    | ok v' =>
      have := ih v' rest
      simp only [writesOf, castHist] at this
      simp only [this, bind, Except.bind]

/-- `n` more `Close()` calls print the stored lines `n` more times -/
theorem runB_closes (c : Cfg) : ∀ (n : Nat) (v : VirtualTerm),
    runB c v (List.replicate n .c) =
      .ok ({ v with closed := v.closed || decide (0 < n) }, repeatBytes n (v.writeToOutput c)) := by
  intro n
  induction n with
  | zero => intro v; simp [runB, repeatBytes]
  | succ n ih =>
    intro v
    simp only [List.replicate_succ, runB, bufferedClose, VirtualTerm.close, ih]
    simp [repeatBytes, List.replicate_succ, VirtualTerm.writeToOutput]

theorem runB_write_closed (c : Cfg) (v : VirtualTerm) (h : v.closed = true) (l : Int) (t : Bytes) (rest : List Item) :
    runB c v (.w l t :: rest) = .error "virtualterm closed" := by
  simp [runB, VirtualTerm.writeForLine, h]

theorem runV_writes : ∀ (hist : List (Nat × Bytes)) (v : VirtualTerm) (rest : List Item),
    runV v (writesOf hist ++ rest) =
      match v.runHistory (castHist hist) with
      | .ok v' => runV v' rest
      | .error e => .error e := by
  intro hist
  induction hist with
  | nil => intro v rest; rfl
  | cons u hist ih =>
    intro v rest
    simp only [writesOf, List.map_cons, List.cons_append, runV, castHist, VirtualTerm.runHistory]
    cases h : v.writeForLine (u.1 : Int) u.2 with
    | error e => rfl
    | ok v' =>
      have := ih v' rest
      simp only [writesOf, castHist] at this
      simp only [this, bind, Except.bind]

/-- once closed, any number of further `Close()` calls followed by a write panics -/
theorem runB_closed_then_write (c : Cfg) (l : Int) (t : Bytes) (rest : List Item) : ∀ (n : Nat) (v : VirtualTerm),
    v.closed = true → runB c v (List.replicate n .c ++ .w l t :: rest) = .error "virtualterm closed" := by
  intro n
  induction n with
  | zero => intro v h; simpa using runB_write_closed c v h l t rest
  | succ n ih =>
    intro v _
    simp only [List.replicate_succ, List.cons_append, runB]
    rw [ih (bufferedClose c v).1 rfl]

theorem runV_closed_then_write (l : Int) (t : Bytes) (rest : List Item) : ∀ (n : Nat) (v : VirtualTerm),
    v.closed = true → runV v (List.replicate n .c ++ .w l t :: rest) = .error "virtualterm closed" := by
  intro n
  induction n with
  | zero => intro v h; simp [runV, VirtualTerm.writeForLine, h]
  | succ n ih =>
    intro v _
    simp only [List.replicate_succ, List.cons_append, runV]
    exact ih v.close rfl

end Rare.C20
