import Rare.Proofs.C07Acc
/-!
C07 – group keys of the accumulating group for EVERY arity (0, 1, 2 … group expressions) and every
position of an empty value: the key determines the group tuple (`nulJoin_injective`), and the cells the
consumers display (`groupCells`) are the tuple, exactly when no value contains the separator.
-/
namespace Rare.C07

/-- Two NUL-free tuples of the same arity with the same key are the same tuple: distinct groups never share a row. -/
theorem nulJoin_injective (vs ws : List Bytes) (hlen : vs.length = ws.length)
    (hv : ∀ v ∈ vs, (0 : UInt8) ∉ v) (hw : ∀ w ∈ ws, (0 : UInt8) ∉ w) (h : nulJoin vs = nulJoin ws) : vs = ws := by
  cases vs with
  | nil =>
    cases ws with
    | nil => rfl
    | cons w r => simp at hlen
  | cons v r =>
    cases ws with
    | nil => simp at hlen
    | cons w r' =>
      have a := splitOn_nulJoin (v :: r) (by simp) hv
      have b := splitOn_nulJoin (w :: r') (by simp) hw
      rw [h] at a
      exact a.symm.trans b

theorem range_map_getD (vs : List Bytes) : ((List.range vs.length).map fun i => vs.getD i []) = vs := by
  apply List.ext_getElem
  · simp
  · intro i h1 h2
    simp at h1
    simp [List.getD_eq_getElem?_getD, h1]

/-- The displayed cells of a built key are the group values, for every arity, when no value contains NUL. -/
theorem groupCells_nulJoin (vs : List Bytes) (hfree : ∀ v ∈ vs, (0 : UInt8) ∉ v) :
    groupCells vs.length (nulJoin vs) = vs := by
  by_cases h1 : vs = [[]]
  · subst h1; decide
  · unfold groupCells
    rw [(parts_nulJoin_iff vs).mpr ⟨hfree, h1⟩]
    exact range_map_getD vs

/-- Every displayed cell is free of the separator (it is a part of the key, or empty). -/
theorem groupCells_free (n : Nat) (k c : Bytes) (h : c ∈ groupCells n k) : (0 : UInt8) ∉ c := by
  unfold groupCells at h
  obtain ⟨i, _, rfl⟩ := List.mem_map.mp h
  rw [List.getD_eq_getElem?_getD]
  cases hp : (groupKeyParts k)[i]? with
  | none => simp
  | some p =>
    have hm : p ∈ groupKeyParts k := List.mem_of_getElem? hp
    unfold groupKeyParts at hm
    split at hm
    · simp at hm
    · simpa using splitOn_nul_free k p hm

theorem groupCells_nulJoin_iff (vs : List Bytes) :
    groupCells vs.length (nulJoin vs) = vs ↔ ∀ v ∈ vs, (0 : UInt8) ∉ v :=
  ⟨fun h v hv => groupCells_free vs.length (nulJoin vs) v (by rw [h]; exact hv), groupCells_nulJoin vs⟩

theorem mapM_run_length (ctx : Rare.Expr.Ctx) : ∀ (l : List AccGroupDef) (r : List Bytes),
    l.mapM (m := Except String) (fun g => g.expr.run ctx) = .ok r → r.length = l.length := by
  intro l
  induction l with
  | nil => intro r h; simp [pure, Except.pure] at h; subst h; rfl
  | cons g l ih =>
    intro r h
    rw [mapM_except_cons] at h
    cases hg : g.expr.run ctx with
    | error m => rw [hg] at h; cases h
    | ok v =>
      rw [hg] at h
      simp only at h
      cases hl : l.mapM (m := Except String) (fun g => g.expr.run ctx) with
      | error m => rw [hl] at h; cases h
      | ok r' => rw [hl] at h; simp only [Except.ok.injEq] at h; subst h; simp [ih r' hl]

end Rare.C07
