import Rare.Model.C13
import Rare.Proofs.C13Order
/-! The model of the sorters meets the specification (helper lemmas for C13). -/
namespace Rare.C13

/-! ### pure comparators -/

theorem byNameSmart_eq_numeric (num : Key → PF) (a b : Key) :
    byNameSmart num a b = numericLess (fun k => (num k).mag) a b := by
  have core : ∀ pa pb : PF,
      (if (pa.isNum && pb.isNum) = true then
          if pa.ord ≠ pb.ord then decide (pa.ord < pb.ord) else bytesLt a b
        else if (pa.isNum != pb.isNum) = true then pa.isNum else bytesLt a b)
      = (optLt pa.mag pb.mag || (decide (pa.mag = pb.mag) && bytesLt a b)) := by
    intro pa pb
    cases pa <;> cases pb <;> simp [PF.isNum, PF.mag, PF.ord, optLt]
    rename_i x y
    by_cases h : x = y
    · simp [h]
    · simp [h]
      exact decide_eq_decide.mpr Iff.rfl
  exact core (num a) (num b)

theorem valueSorterEx_byName (s : Unit) (a b : NV) :
    valueSorterEx (pureCmp byName) s a b = (valueLess a b, s) := by
  simp only [valueSorterEx, valueLess, byRank, lexLt, pureCmp, byName, intLt]
  by_cases h : a.value = b.value
  · simp [h]
  · simp [h]

/-! ### closures that behave like a pure comparator -/

/-- From `init`, on elements of `P`, the closure `cmp` always answers `less` (whatever happened before). -/
def Faithful {α σ : Type} (cmp : SCmp α σ) (init : σ) (P : α → Prop) (less : α → α → Bool) : Prop :=
  ∃ Inv : σ → Prop, Inv init ∧
    ∀ s a b, Inv s → P a → P b → (cmp s a b).1 = less a b ∧ Inv (cmp s a b).2

theorem Faithful.run_eq {α σ ρ : Type} {cmp : SCmp α σ} {init : σ} {P : α → Prop} {less : α → α → Bool}
    (h : Faithful cmp init P less) (alg : Algo α ρ) (hw : Algo.Within P alg) :
    (Algo.run cmp init alg).1 = Algo.runPure less alg := by
  obtain ⟨Inv, h0, hstep⟩ := h
  exact Algo.run_eq_runPure cmp less Inv P hstep alg hw init h0

theorem Faithful.runSeq_eq {α σ : Type} {cmp : SCmp α σ} {init : σ} {P : α → Prop} {less : α → α → Bool}
    (h : Faithful cmp init P less) (pairs : List (α × α)) (hp : ∀ p ∈ pairs, P p.1 ∧ P p.2) :
    runSeq cmp init pairs = pairs.map (fun p => less p.1 p.2) := by
  obtain ⟨Inv, h0, hstep⟩ := h
  have : ∀ (pairs : List (α × α)) s, Inv s → (∀ p ∈ pairs, P p.1 ∧ P p.2) →
      runSeq cmp s pairs = pairs.map (fun p => less p.1 p.2) := by
    intro pairs
    induction pairs with
    | nil => intros; rfl
    | cons p rest ih =>
      intro s hs hp
      obtain ⟨a, b⟩ := p
      have hab := hp (a, b) (List.mem_cons_self ..)
      have st := hstep s a b hs hab.1 hab.2
      simp only [runSeq, List.map_cons]
      rw [st.1, ih _ st.2 (fun p hp' => hp p (List.mem_cons_of_mem _ hp'))]
  exact this pairs init h0 hp

theorem faithful_pure {α : Type} (f : α → α → Bool) (P : α → Prop) : Faithful (pureCmp f) () P f :=
  ⟨fun _ => True, trivial, fun _ _ _ _ _ _ => ⟨rfl, trivial⟩⟩

theorem Faithful.congr {α σ : Type} {cmp : SCmp α σ} {init : σ} {P : α → Prop} {l1 l2 : α → α → Bool}
    (h : Faithful cmp init P l1) (e : ∀ a b, P a → P b → l1 a b = l2 a b) : Faithful cmp init P l2 := by
  obtain ⟨Inv, h0, hstep⟩ := h
  exact ⟨Inv, h0, fun s a b hs ha hb => ⟨(hstep s a b hs ha hb).1.trans (e a b ha hb), (hstep s a b hs ha hb).2⟩⟩

theorem Faithful.reverse {α σ : Type} {cmp : SCmp α σ} {init : σ} {P : α → Prop} {less : α → α → Bool}
    (h : Faithful cmp init P less) : Faithful (reverse cmp) init P (revLess less) := by
  obtain ⟨Inv, h0, hstep⟩ := h
  refine ⟨Inv, h0, fun s a b hs ha hb => ?_⟩
  have := hstep s a b hs ha hb
  exact ⟨by simp [Rare.C13.reverse, revLess, this.1], this.2⟩

theorem Faithful.valueNil {σ : Type} {cmp : SCmp Key σ} {init : σ} {P : Key → Prop} {less : Key → Key → Bool}
    (h : Faithful cmp init P less) :
    Faithful (valueNilSorter cmp) init (fun r : NV => P r.name) (fun a b => less a.name b.name) := by
  obtain ⟨Inv, h0, hstep⟩ := h
  exact ⟨Inv, h0, fun s a b hs ha hb => hstep s a.name b.name hs ha hb⟩

theorem Faithful.mono {α σ : Type} {cmp : SCmp α σ} {init : σ} {P Q : α → Prop} {less : α → α → Bool}
    (h : Faithful cmp init P less) (hq : ∀ a, Q a → P a) : Faithful cmp init Q less := by
  obtain ⟨Inv, h0, hstep⟩ := h
  exact ⟨Inv, h0, fun s a b hs ha hb => hstep s a b hs (hq a ha) (hq b hb)⟩

/-! ### find? helpers -/

theorem find?_strengthen {α : Type} (p q : α → Bool) (x : α) :
    ∀ l : List α, l.find? p = some x → q x = true → (∀ y, q y = true → p y = true) → l.find? q = some x
  | [], h, _, _ => by simp at h
  | y :: ys, h, hq, himp => by
    rw [List.find?_cons] at h ⊢
    cases hp : p y with
    | true =>
      rw [hp] at h
      have : y = x := by simpa using h
      subst this
      simp [hq]
    | false =>
      rw [hp] at h
      have : q y = false := by
        cases hqy : q y with
        | false => rfl
        | true => rw [himp y hqy] at hp; exact absurd hp (by decide)
      rw [this]
      exact find?_strengthen p q x ys h hq himp

theorem find?_none_strengthen {α : Type} (p q : α → Bool) (l : List α)
    (h : l.find? p = none) (himp : ∀ y, q y = true → p y = true) : l.find? q = none := by
  rw [List.find?_eq_none] at h ⊢
  intro y hy hq
  exact h y hy (himp y hq)

/-! ### ByContextual -/

/-- The calendar order of one table, as the closure computes it. -/
theorem calendar_answer (v0 v1 : Nat) (a b : Key) :
    (if v0 ≠ v1 then decide (v0 < v1) else bytesLt a b)
      = (natLt v0 v1 || (decide (v0 = v1) && bytesLt a b)) := by
  by_cases h : v0 = v1
  · simp [h, natLt]
  · simp [h, natLt]

theorem infer_some_get {sets : List SortSet} {lower : Key → Key} {k : Key} {set : SortSet}
    (h : inferSortSetByValue sets lower k = some set) : (set.get (lower k)).isSome = true := by
  exact List.find?_some (p := fun s : SortSet => (s.get (lower k)).isSome) h

/-- Every key infers `some set`: the closure answers the calendar order of `set`. -/
theorem ctx_faithful_set (o : Oracle) (sets : List SortSet) (P : Key → Prop) (set : SortSet)
    (hall : ∀ k, P k → inferSortSetByValue sets o.lower k = some set) :
    Faithful (byContextual o sets) ({}, ()) P
      (calendarLess (fun k => (set.get (o.lower k)).getD 0)) := by
  refine ⟨fun s => s.1 = {} ∨ s.1 = { set := some set, fallback := false }, Or.inl rfl, ?_⟩
  intro s a b hs ha hb
  have ia := hall a ha
  have ga := infer_some_get ia
  have gb := infer_some_get (hall b hb)
  obtain ⟨v0, hv0⟩ := Option.isSome_iff_exists.mp ga
  obtain ⟨v1, hv1⟩ := Option.isSome_iff_exists.mp gb
  have key : byContextual o sets s a b =
      (calendarLess (fun k => (set.get (o.lower k)).getD 0) a b,
        ({ set := some set, fallback := false }, s.2)) := by
    rcases hs with hs | hs
    · simp only [byContextual, byContextualEx, hs, ia]
      simp [hv0, hv1, calendarLess, byRank, lexLt]
      by_cases h : v0 = v1 <;> simp [h, natLt]
    · simp only [byContextual, byContextualEx, hs]
      simp [hv0, hv1, calendarLess, byRank, lexLt]
      by_cases h : v0 = v1 <;> simp [h, natLt]
  rw [key]
  exact ⟨rfl, Or.inr rfl⟩

/-- No key is in any table: the closure answers its fallback. -/
theorem ctx_faithful_none (o : Oracle) (sets : List SortSet) (P : Key → Prop)
    (hall : ∀ k, P k → inferSortSetByValue sets o.lower k = none) :
    Faithful (byContextual o sets) ({}, ()) P (byNameSmart o.num) := by
  refine ⟨fun s => s.1 = {} ∨ s.1 = { set := none, fallback := true }, Or.inl rfl, ?_⟩
  intro s a b hs ha _
  have ia := hall a ha
  have key : byContextual o sets s a b =
      (byNameSmart o.num a b, ({ set := none, fallback := true }, s.2)) := by
    rcases hs with hs | hs
    · simp [byContextual, byContextualEx, hs, ia, pureCmp]
    · simp [byContextual, byContextualEx, hs, pureCmp]
  rw [key]
  exact ⟨rfl, Or.inr rfl⟩

theorem tablesOf_find (o : Oracle) (sets : List SortSet) (keys : List Key) :
    (tablesOf o sets).find? (fun t => keys.all (fun k => (t k).isSome))
      = (sets.find? (fun set => keys.all (fun k => (set.get (o.lower k)).isSome))).map
          (fun set k => set.get (o.lower k)) := by
  unfold tablesOf
  rw [List.find?_map]
  rfl

theorem ctxUniform_cases {o : Oracle} {sets : List SortSet} {k0 : Key} {rest : List Key}
    (hu : ctxUniform o sets (k0 :: rest) = true) :
    ∀ k ∈ k0 :: rest, inferSortSetByValue sets o.lower k = inferSortSetByValue sets o.lower k0 := by
  intro k hk
  simp only [ctxUniform, List.all_eq_true] at hu
  exact eq_of_beq (hu k hk)

/-- `contextual`: on a uniform key set the stateful closure answers the specified order. -/
theorem ctx_faithful (o : Oracle) (sets : List SortSet) (keys : List Key)
    (hu : ctxUniform o sets keys = true) :
    Faithful (byContextual o sets) ({}, ()) (· ∈ keys) (contextualSpec o sets keys) := by
  cases keys with
  | nil => exact ⟨fun _ => True, trivial, fun _ a _ _ ha _ => absurd ha (by simp)⟩
  | cons k0 rest =>
    have hall := ctxUniform_cases hu
    cases h0 : inferSortSetByValue sets o.lower k0 with
    | some set =>
      have hall' : ∀ k, k ∈ k0 :: rest → inferSortSetByValue sets o.lower k = some set :=
        fun k hk => (hall k hk).trans h0
      have hspec : contextualSpec o sets (k0 :: rest)
          = calendarLess (fun k => (set.get (o.lower k)).getD 0) := by
        unfold contextualSpec contextualSpecLess
        rw [tablesOf_find]
        have : sets.find? (fun set => (k0 :: rest).all (fun k => (set.get (o.lower k)).isSome)) = some set := by
          refine find?_strengthen (fun set => (set.get (o.lower k0)).isSome) _ set sets (by simpa [inferSortSetByValue] using h0) ?_ ?_
          · rw [List.all_eq_true]; exact fun k hk => infer_some_get (hall' k hk)
          · intro y hy; rw [List.all_eq_true] at hy; exact hy k0 (List.mem_cons_self ..)
        rw [this]
        rfl
      rw [hspec]
      exact ctx_faithful_set o sets _ set hall'
    | none =>
      have hall' : ∀ k, k ∈ k0 :: rest → inferSortSetByValue sets o.lower k = none :=
        fun k hk => (hall k hk).trans h0
      have hspec : contextualSpec o sets (k0 :: rest) = numericSpec o := by
        unfold contextualSpec contextualSpecLess
        rw [tablesOf_find]
        have : sets.find? (fun set => (k0 :: rest).all (fun k => (set.get (o.lower k)).isSome)) = none := by
          refine find?_none_strengthen (fun set => (set.get (o.lower k0)).isSome) _ sets (by simpa [inferSortSetByValue] using h0) ?_
          intro y hy; rw [List.all_eq_true] at hy; exact hy k0 (List.mem_cons_self ..)
        rw [this]
        rfl
      rw [hspec]
      exact (ctx_faithful_none o sets _ hall').congr
        (fun a b _ _ => byNameSmart_eq_numeric o.num a b)

/-! ### ByDate -/

theorem chrono_answer (d0 d1 : Int) (a b : Key) :
    (if d0 = d1 then bytesLt a b else decide (d0 < d1))
      = (intLt d0 d1 || (decide (d0 = d1) && bytesLt a b)) := by
  by_cases h : d0 = d1
  · simp [h, intLt]
  · simp [h, intLt]

/-- Every key has layout `f` and parses with it: the closure answers chronological order. -/
theorem date_faithful_layout {σ : Type} (o : Oracle) (fb : SCmp Key σ) (init : σ) (P : Key → Prop) (f : Nat)
    (hf : ∀ k, P k → o.dfmt k = some f) (hp : ∀ k, P k → (o.dparse f k).isSome = true) :
    Faithful (byDate o fb) ({}, init) P (chronoLess (fun k => (o.dparse f k).getD 0)) := by
  refine ⟨fun s => s.1 = {} ∨ s.1 = { format := some f, fallback := false }, Or.inl rfl, ?_⟩
  intro s a b hs ha hb
  obtain ⟨d0, hd0⟩ := Option.isSome_iff_exists.mp (hp a ha)
  obtain ⟨d1, hd1⟩ := Option.isSome_iff_exists.mp (hp b hb)
  have key : byDate o fb s a b =
      (chronoLess (fun k => (o.dparse f k).getD 0) a b,
        ({ format := some f, fallback := false }, s.2)) := by
    rcases hs with hs | hs
    · simp only [byDate, hs, hf a ha]
      simp [hd0, hd1, chronoLess, byRank, lexLt]
      by_cases h : d0 = d1 <;> simp [h, intLt]
    · simp only [byDate, hs]
      simp [hd0, hd1, chronoLess, byRank, lexLt]
      by_cases h : d0 = d1 <;> simp [h, intLt]
  rw [key]
  exact ⟨rfl, Or.inr rfl⟩

/-- No key has a layout: the closure answers whatever its fallback closure answers. -/
theorem date_faithful_none {σ : Type} (o : Oracle) (fb : SCmp Key σ) (init : σ) (P : Key → Prop)
    (less : Key → Key → Bool) (hfb : Faithful fb init P less) (hf : ∀ k, P k → o.dfmt k = none) :
    Faithful (byDate o fb) ({}, init) P less := by
  obtain ⟨InvF, hF0, hstepF⟩ := hfb
  refine ⟨fun s => (s.1 = {} ∨ s.1 = { format := none, fallback := true }) ∧ InvF s.2, ⟨Or.inl rfl, hF0⟩, ?_⟩
  intro s a b hs ha hb
  have st := hstepF s.2 a b hs.2 ha hb
  have key : byDate o fb s a b =
      ((fb s.2 a b).1, ({ format := none, fallback := true }, (fb s.2 a b).2)) := by
    rcases hs.1 with h | h
    · simp [byDate, h, hf a ha]
    · simp [byDate, h]
  rw [key]
  exact ⟨st.1, Or.inr rfl, st.2⟩

theorem date_faithful (o : Oracle) (sets : List SortSet) (keys : List Key)
    (hu : dateUniform o sets keys = true) :
    Faithful (byDateWithContextual o sets) ({}, {}, ()) (· ∈ keys) (dateSpec o sets keys) := by
  cases keys with
  | nil => exact ⟨fun _ => True, trivial, fun _ a _ _ ha _ => absurd ha (by simp)⟩
  | cons k0 rest =>
    simp only [dateUniform] at hu
    cases h0 : o.dfmt k0 with
    | some f =>
      rw [h0] at hu
      simp only [List.all_eq_true, Bool.and_eq_true, beq_iff_eq] at hu
      have hspec : dateSpec o sets (k0 :: rest) = chronoLess (fun k => (o.dparse f k).getD 0) := by
        unfold dateSpec dateSpecLess
        simp only [h0]
        rw [if_pos]
        simp only [List.all_eq_true, Bool.and_eq_true, beq_iff_eq]
        exact hu
      rw [hspec]
      exact date_faithful_layout o _ _ _ f (fun k hk => (hu k hk).1) (fun k hk => (hu k hk).2)
    | none =>
      rw [h0] at hu
      simp only [Bool.and_eq_true, List.all_eq_true, Option.isNone_iff_eq_none] at hu
      have hspec : dateSpec o sets (k0 :: rest) = contextualSpec o sets (k0 :: rest) := by
        unfold dateSpec dateSpecLess
        simp only [h0]
      rw [hspec]
      exact date_faithful_none o _ _ _ _ (ctx_faithful o sets _ hu.2) hu.1

/-! ### the specified orders are strict total orders for every key set -/

theorem numericSpec_strictTotal (o : Oracle) : StrictTotal (numericSpec o) :=
  byRank_key_strictTotal _ optLt_strictTotal

theorem contextualSpecLess_strictTotal (tables : List (Key → Option Nat)) (fb : Key → Key → Bool)
    (hfb : StrictTotal fb) (keys : List Key) : StrictTotal (contextualSpecLess tables fb keys) := by
  unfold contextualSpecLess
  split
  · exact byRank_key_strictTotal _ natLt_strictTotal
  · exact hfb

theorem dateSpecLess_strictTotal (layoutOf : Key → Option Nat) (inst : Nat → Key → Option Int)
    (fb : Key → Key → Bool) (hfb : StrictTotal fb) (keys : List Key) :
    StrictTotal (dateSpecLess layoutOf inst fb keys) := by
  unfold dateSpecLess
  split
  · exact hfb
  · split
    · split
      · exact byRank_key_strictTotal _ intLt_strictTotal
      · exact hfb
    · exact hfb

theorem valueLess_strictTotal : StrictTotal valueLess :=
  byRank_strictTotalOn (lexLt_strictTotal intLt_strictTotal bytesLt_strictTotal)
    (fun a b _ _ e => by
      cases a; cases b
      simp only [Prod.mk.injEq] at e
      simp [e.1, e.2])

end Rare.C13
