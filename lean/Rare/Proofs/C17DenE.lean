import Rare.Proofs.C17HeapE
/-!
C17: the pool-free model computes `valE` – the splitter loops of `arrayOperator`, `filterStage`, `reduceStage` and
the loop of `forStage` with sub-expressions that may panic (`den_valE`).  `splitLoop_runE` is `splitLoop_run`
without the assumption that the body returns.
-/
namespace Rare.C17
open Rare Rare.Expr Rare.Expr.Funcs.Range Rare.C17Heap

def foldE {σ : Type} (φ : σ → Bytes → Except String σ) : List Bytes → σ → Except String σ
  | [], s => .ok s
  | x :: xs, s =>
    match φ s x with
    | .error m => .error m
    | .ok s' => foldE φ xs s'

theorem splitLoop_runE {σ : Type} (ctx : Ctx) (body : σ → Bytes → Comp σ)
    (φ : σ → Bytes → Except String σ) (hb : ∀ st x, (body st x).run ctx = φ st x) :
    ∀ (fuel : Nat) (sp : Splitter) (st : σ), sp.Delim ≠ [] → vlen (view sp) < fuel →
      (splitLoop fuel sp st (fun _ => true) body).run ctx = foldE φ (remaining sp.Delim (view sp)) st := by
  intro fuel
  induction fuel with
  | zero => intro sp st _ h; omega
  | succ fuel ih =>
    intro sp st hd hf
    unfold splitLoop
    cases hv : view sp with
    | none =>
      have : sp.Done = true := (done_iff sp).mpr hv
      simp [this, remaining, foldE, Comp.run]
    | some r =>
      have hnd : sp.Done = false := by
        cases h : sp.Done
        · rfl
        · rw [(done_iff sp).mp h] at hv; cases hv
      obtain ⟨h1, h2, h3⟩ := next_view sp hd r hv
      simp only [hnd, Bool.not_false, Bool.and_self, if_true]
      rw [run_bind, hb, ← hv, h1]
      simp only [foldE]
      cases φ st sp.Next.1 with
      | error m => rfl
      | ok st' =>
        simp only [Except.bind]
        rw [ih sp.Next.2 st' (by rw [h2]; exact hd) (by omega), h2]

theorem bind_ret_map {α β : Type} (e : Except String α) (g : α → β) :
    (e.bind fun a => Except.ok (g a)) = e.map g := by cases e <;> rfl

theorem sb_write_str (sb : Sb) (x : Bytes) : (sb.write x).str = sb.str ++ x := by simp [Sb.write, Sb.str]

/-! ### `arrayOperator` -/

theorem fold_sb (F : Bytes → Bytes → Except String Bytes) (j : Bytes) : ∀ (xs : List Bytes) (sb : Sb) (acc : List Bytes),
    sb.str = join j acc → acc ≠ [] →
    (foldE (fun sb x => (F x []).map (fun m' => (sb.write j).write m')) xs sb).map Sb.str =
      (loopE F (fun (_ : List Bytes) x => (x, [])) (fun s _ y => s ++ [y]) xs acc).map (join j)
  | [], sb, acc, h, _ => by simp [foldE, loopE, Except.map, h]
  | x :: xs, sb, acc, h, hne => by
    simp only [foldE, loopE]
    cases F x [] with
    | error m => rfl
    | ok m' =>
      simp only [Except.map]
      exact fold_sb F j xs _ (acc ++ [m'])
        (by rw [sb_write_str, sb_write_str, h, join_append_singleton j acc m' hne]) (by simp)

theorem arrayOperator_runE (ctx : Ctx) (arr d j : Bytes) (hd : d ≠ []) (mapper : Bytes → Stage)
    (F : Bytes → Bytes → Except String Bytes) (hm : ∀ x, (mapper x).run ctx = F x []) :
    (arrayOperator arr d j mapper).run ctx =
      (loopE F (fun (_ : List Bytes) x => (x, [])) (fun s _ y => s ++ [y]) (splitOn d arr) []).map (join j) := by
  unfold arrayOperator
  by_cases ha : arr = []
  · subst ha
    have : splitOn d [] = [[]] := rfl
    simp only [if_true, this, loopE, hm]
    cases F [] [] with
    | error m => rfl
    | ok y => simp [Except.map, join]
  · obtain ⟨e1, e2, e3⟩ := first_next arr d hd
    simp only [ha, if_false]
    rw [run_bind, hm, e1]
    simp only [loopE]
    cases F (Splitter.Next { S := arr, Delim := d }).1 [] with
    | error m => rfl
    | ok m0 =>
      simp only [Except.bind]
      rw [run_bind, splitLoop_runE ctx _ (fun sb x => (F x []).map (fun m' => (sb.write j).write m'))
        (by
          intro st x
          rw [run_bind, hm]
          cases F x [] <;> rfl) _ _ _ (by rw [e2]; exact hd) (by simp only [loopFuel]; omega), e2]
      have := fold_sb F j (remaining d (view (Splitter.Next { S := arr, Delim := d }).2)) (Sb.write {} m0) [m0]
        (by simp [Sb.write, Sb.str, join]) (by simp)
      simp only [List.nil_append]
      rw [← this]
      cases foldE (fun sb x => (F x []).map (fun m' => (sb.write j).write m'))
        (remaining d (view (Splitter.Next { S := arr, Delim := d }).2)) (Sb.write {} m0) <;> rfl

theorem mapStage_runE (ctx : Ctx) (a0 a1 : Stage) :
    (mapStage a0 a1).run ctx =
      match a0.run ctx with
      | .error m => .error m
      | .ok arr =>
        (loopE (fun v0 v1 => a1.run (subCtx ctx v0 v1)) (fun (_ : List Bytes) x => (x, [])) (fun s _ y => s ++ [y])
          (elems arr) []).map pack := by
  unfold mapStage
  rw [run_bind]
  cases a0.run ctx with
  | error m => rfl
  | ok arr =>
    simp only [Except.bind]
    rw [arrayOperator_runE ctx arr _ _ (by simp [ArraySeparatorString]) _ (fun v0 v1 => a1.run (subCtx ctx v0 v1))
      (fun x => withSub_run ctx x [] a1)]
    rfl

/-! ### `@filter` -/

theorem fold_filter (F : Bytes → Bytes → Except String Bytes) : ∀ (xs : List Bytes) (st : FilterSt) (ys : List Bytes),
    st.sb.str = pack ys → st.needSep = !ys.isEmpty →
    (foldE (fun (st : FilterSt) item => (F item []).map (fun c =>
        if truthy c then ⟨(if st.needSep then st.sb.write ArraySeparatorString else st.sb).write item, true⟩ else st))
      xs st).map (fun st => st.sb.str) =
      (loopE F (fun (_ : List Bytes) x => (x, [])) (fun s x y => if truthy y then s ++ [x] else s) xs ys).map pack
  | [], st, ys, h, _ => by simp [foldE, loopE, Except.map, h]
  | x :: xs, st, ys, h, hs => by
    simp only [foldE, loopE]
    cases F x [] with
    | error m => rfl
    | ok c =>
      simp only [Except.map]
      by_cases ht : truthy c = true
      · simp only [ht, if_true]
        refine fold_filter F xs _ (ys ++ [x]) ?_ (by simp)
        cases ys with
        | nil =>
          have : st.needSep = false := by simpa using hs
          simp [this, h, pack, join]
        | cons y r =>
          have : st.needSep = true := by simpa using hs
          have e : pack ((y :: r) ++ [x]) = pack (y :: r) ++ [NUL] ++ x := join_append_singleton _ _ _ (by simp)
          rw [e]
          simp [this, h, ArraySeparatorString, ArraySeparator, NUL]
      · have ht' : truthy c = false := by simpa using ht
        simp only [ht', Bool.false_eq_true, if_false]
        exact fold_filter F xs st ys h hs

theorem filterStage_runE (ctx : Ctx) (a0 a1 : Stage) :
    (filterStage a0 a1).run ctx =
      match a0.run ctx with
      | .error m => .error m
      | .ok arr =>
        (loopE (fun v0 v1 => a1.run (subCtx ctx v0 v1)) (fun (_ : List Bytes) x => (x, []))
          (fun s x y => if truthy y then s ++ [x] else s) (elems arr) []).map pack := by
  unfold filterStage
  rw [run_bind]
  cases a0.run ctx with
  | error m => rfl
  | ok arr =>
    simp only [Except.bind]
    rw [run_bind, splitLoop_runE ctx _ (fun (st : FilterSt) item => (a1.run (subCtx ctx item [])).map (fun c =>
        if truthy c then ⟨(if st.needSep then st.sb.write ArraySeparatorString else st.sb).write item, true⟩ else st))
      (by
        intro st x
        rw [run_bind, withSub_run]
        cases a1.run (subCtx ctx x []) with
        | error m => rfl
        | ok c => by_cases ht : truthy c = true <;> simp [ht, Except.bind, Except.map, Comp.run])
      _ _ _ (by simp [ArraySeparatorString]) (by simp [view_init, vlen, loopFuel])]
    have := fold_filter (fun v0 v1 => a1.run (subCtx ctx v0 v1)) (splitOn ArraySeparatorString arr) ⟨{}, false⟩ [] rfl rfl
    simp only [view_init, remaining]
    have he : splitOn ArraySeparatorString arr = elems arr := rfl
    rw [he] at this ⊢
    rw [← this]
    cases foldE _ (elems arr) (⟨{}, false⟩ : FilterSt) <;> rfl

/-! ### `@reduce` -/

theorem foldE_reduce (F : Bytes → Bytes → Except String Bytes) : ∀ (xs : List Bytes) (memo : Bytes),
    foldE F xs memo = loopE F (fun (memo : Bytes) x => (memo, x)) (fun _ _ y => y) xs memo
  | [], _ => rfl
  | x :: xs, memo => by
    simp only [foldE, loopE]
    cases F memo x with
    | error m => rfl
    | ok y => exact foldE_reduce F xs y

theorem reduceStage_runE (ctx : Ctx) (init : Bytes) (a0 a1 : Stage) :
    (reduceStage init a0 a1).run ctx =
      match a0.run ctx with
      | .error m => .error m
      | .ok arr =>
        loopE (fun v0 v1 => a1.run (subCtx ctx v0 v1)) (fun (memo : Bytes) x => (memo, x)) (fun _ _ y => y)
          (reduceStart init (elems arr)).2 (reduceStart init (elems arr)).1 := by
  unfold reduceStage
  rw [run_bind]
  cases a0.run ctx with
  | error m => rfl
  | ok arr =>
    simp only [Except.bind]
    have hb : ∀ memo x, (a1.withSub memo x).run ctx = a1.run (subCtx ctx memo x) := fun memo x => withSub_run ctx memo x a1
    have he : splitOn ArraySeparatorString arr = elems arr := rfl
    by_cases hi : init = []
    · obtain ⟨e1, e2, e3⟩ := first_next arr ArraySeparatorString (by simp [ArraySeparatorString])
      simp only [hi, if_true, reduceStart]
      rw [splitLoop_runE ctx _ (fun memo x => a1.run (subCtx ctx memo x)) hb _ _ _
        (by rw [e2]; simp [ArraySeparatorString]) (by simp only [loopFuel]; omega), e2, foldE_reduce]
      rw [he] at e1
      rw [e1]
      rfl
    · simp only [hi, if_false, reduceStart]
      rw [splitLoop_runE ctx _ (fun memo x => a1.run (subCtx ctx memo x)) hb _ _ _
        (by simp [ArraySeparatorString]) (by simp [view_init, vlen, loopFuel]), foldE_reduce]
      simp only [view_init, remaining, he]

/-! ### `@for` -/

theorem forLoop_runE (ctx : Ctx) (cond incr : Stage) : ∀ (fuel : Nat) (val : Bytes) (idx : Nat) (sb : Sb) (acc : List Bytes),
    sb.str = pack acc → acc.length = idx →
    (forLoop cond incr fuel val idx sb).run ctx =
      (forE (fun v0 v1 => cond.run (subCtx ctx v0 v1)) (fun v0 v1 => incr.run (subCtx ctx v0 v1)) fuel idx val acc).map
        forOut
  | 0, _, _, _, _, _, _ => rfl
  | fuel + 1, val, idx, sb, acc, hsb, hlen => by
    unfold forLoop forE
    rw [run_bind, withSub_run]
    cases cond.run (subCtx ctx val (itoa (idx : Nat))) with
    | error m => rfl
    | ok c =>
      simp only [Except.bind]
      by_cases ht : truthy c = true
      · simp only [ht, Bool.not_true, Bool.false_eq_true, if_false]
        rw [run_bind, withSub_run]
        cases incr.run (subCtx ctx val (itoa (idx : Nat))) with
        | error m => rfl
        | ok v' =>
          simp only [Except.bind]
          by_cases hmax : idx + 1 > Gen.maxIterations
          · simp [hmax, Comp.run, Except.map, forOut]
          · simp only [hmax, if_false]
            refine forLoop_runE ctx cond incr fuel v' (idx + 1) _ (acc ++ [val]) ?_ (by simp [hlen])
            cases acc with
            | nil =>
              have : ¬ idx > 0 := by simp at hlen; omega
              simp [this, hsb, pack, join]
            | cons y r =>
              have : idx > 0 := by simp at hlen; omega
              have e : pack ((y :: r) ++ [val]) = pack (y :: r) ++ [NUL] ++ val := join_append_singleton _ _ _ (by simp)
              rw [e]
              simp [this, hsb, ArraySeparatorString, ArraySeparator, NUL]
      · have ht' : truthy c = false := by simpa using ht
        simp [ht', Comp.run, Except.map, forOut, hsb]

theorem forStage_runE (ctx : Ctx) (a0 a1 a2 : Stage) :
    (forStage a0 a1 a2).run ctx =
      match a0.run ctx with
      | .error m => .error m
      | .ok v =>
        (forE (fun v0 v1 => a1.run (subCtx ctx v0 v1)) (fun v0 v1 => a2.run (subCtx ctx v0 v1))
          (Gen.maxIterations + 2) 0 v []).map forOut := by
  unfold forStage
  rw [run_bind]
  cases a0.run ctx with
  | error m => rfl
  | ok v =>
    simp only [Except.bind]
    exact forLoop_runE ctx a1 a2 _ v 0 {} [] rfl rfl

/-! ### every template -/

theorem loopE_congr {σ : Type} (F F' : Bytes → Bytes → Except String Bytes) (h : ∀ a b, F a b = F' a b)
    (args : σ → Bytes → Bytes × Bytes) (upd : σ → Bytes → Bytes → σ) (xs : List Bytes) (s : σ) :
    loopE F args upd xs s = loopE F' args upd xs s := by
  have : F = F' := funext fun a => funext fun b => h a b
  rw [this]

theorem den_valE : ∀ (t : Tm) (ctx : Ctx), (den t).run ctx = valE t ctx
  | .scalar _, _ => rfl
  | .app1 g a, ctx => by
    simp only [den, valE]
    rw [run_bind, den_valE a ctx]
    cases valE a ctx <;> rfl
  | .app2 g a b, ctx => by
    simp only [den, valE]
    rw [run_bind, den_valE a ctx]
    cases valE a ctx with
    | error m => rfl
    | ok x =>
      simp only [Except.bind]
      rw [run_bind, den_valE b ctx]
      cases valE b ctx <;> rfl
  | .map a f, ctx => by
    simp only [den, valE]
    rw [mapStage_runE, den_valE a ctx]
    cases valE a ctx with
    | error m => rfl
    | ok arr =>
      simp only []
      rw [loopE_congr _ _ (fun v0 v1 => den_valE f (subCtx ctx v0 v1))]
  | .filter a p, ctx => by
    simp only [den, valE]
    rw [filterStage_runE, den_valE a ctx]
    cases valE a ctx with
    | error m => rfl
    | ok arr =>
      simp only []
      rw [loopE_congr _ _ (fun v0 v1 => den_valE p (subCtx ctx v0 v1))]
  | .reduce init a f, ctx => by
    simp only [den, valE]
    rw [reduceStage_runE, den_valE a ctx]
    cases valE a ctx with
    | error m => rfl
    | ok arr =>
      simp only []
      rw [loopE_congr _ _ (fun v0 v1 => den_valE f (subCtx ctx v0 v1))]
  | .for_ s c n, ctx => by
    simp only [den, valE]
    rw [forStage_runE, den_valE s ctx]
    cases valE s ctx with
    | error m => rfl
    | ok v =>
      simp only []
      have hc : (fun v0 v1 => (den c).run (subCtx ctx v0 v1)) = fun v0 v1 => valE c (subCtx ctx v0 v1) :=
        funext fun v0 => funext fun v1 => den_valE c (subCtx ctx v0 v1)
      have hn : (fun v0 v1 => (den n).run (subCtx ctx v0 v1)) = fun v0 v1 => valE n (subCtx ctx v0 v1) :=
        funext fun v0 => funext fun v1 => den_valE n (subCtx ctx v0 v1)
      rw [hc, hn]

end Rare.C17
