import Rare.Model.C14Reduce
import Rare.Proofs.C14Render
/-!
C14, reduce table: the row buffer.  `Reduce.fillRow` on a fresh buffer is `Reduce.rowCells` (what the model of the
render callback writes); the group cells of a row are determined by the row's OWN key (blank where the key has no
part); on a shared buffer they are not.
-/
namespace Rare.C14
open Rare Rare.C20

/-- cell `j` of `fillRow` -/
theorem fillRow_getElem? (env : Env) (r : Reduce) (buf : List Bytes) (key : Bytes) (data : List Bytes) (j : Nat) :
    (r.fillRow env buf key data)[j]? = buf[j]?.map fun old =>
      if j < r.gnames.length then
        (match ((groupParts key).take r.gnames.length)[j]? with | some p => wrap env cBrightWhite p | none => old)
      else match data[j - r.gnames.length]? with | some x => x | none => old := by
  unfold Reduce.fillRow
  simp only [List.getElem?_map, List.getElem?_zipIdx, Option.map_map, Nat.zero_add]
  rfl

theorem fillRow_length (env : Env) (r : Reduce) (buf : List Bytes) (key : Bytes) (data : List Bytes) :
    (r.fillRow env buf key data).length = buf.length := by
  unfold Reduce.fillRow
  simp only [List.length_map, List.length_zipIdx]

/-- cell `j` of `rowCells` -/
theorem rowCells_getElem? (env : Env) (r : Reduce) (key : Bytes) (data : List Bytes) (j : Nat) :
    (r.rowCells env key data)[j]? =
      if j < r.gnames.length then
        some (match ((groupParts key).take r.gnames.length)[j]? with | some p => wrap env cBrightWhite p | none => [])
      else if j < r.gnames.length + r.dnames.length then
        some (match data[j - r.gnames.length]? with | some x => x | none => [])
      else none := by
  unfold Reduce.rowCells
  simp only
  have hpl : ((groupParts key).take r.gnames.length).length ≤ r.gnames.length := by
    rw [List.length_take]; omega
  generalize hparts : (groupParts key).take r.gnames.length = parts at hpl
  have hl : (parts.map (wrap env cBrightWhite) ++ List.replicate (r.gnames.length - parts.length) ([] : Bytes)).length = r.gnames.length := by
    simp only [List.length_append, List.length_map, List.length_replicate]; omega
  by_cases hj : j < r.gnames.length
  · rw [if_pos hj, List.getElem?_append_left (by rw [hl]; exact hj)]
    by_cases hp : j < parts.length
    · rw [List.getElem?_append_left (by simpa using hp), List.getElem?_map, List.getElem?_eq_getElem hp]
      rfl
    · rw [List.getElem?_append_right (by simpa using Nat.le_of_not_lt hp), List.getElem?_eq_none (Nat.le_of_not_lt hp)]
      simp only [List.length_map]
      rw [List.getElem?_replicate, if_pos (by omega)]
  · rw [if_neg hj, List.getElem?_append_right (by rw [hl]; omega), hl]
    by_cases hd : j < r.gnames.length + r.dnames.length
    · rw [if_pos hd]
      by_cases hk : j - r.gnames.length < data.length
      · rw [List.getElem?_append_left (by rw [List.length_take]; omega), List.getElem?_take, if_pos (by omega),
          List.getElem?_eq_getElem hk]
      · rw [List.getElem?_append_right (by rw [List.length_take]; omega), List.getElem?_eq_none (Nat.le_of_not_lt hk),
          List.getElem?_replicate, if_pos (by rw [List.length_take]; omega)]
    · rw [if_neg hd]
      apply List.getElem?_eq_none
      simp only [List.length_append, List.length_take, List.length_replicate]
      omega

/-- the loop's `rowBuf := make([]string, aggr.ColCount())` per group is what makes a row depend on its own group only:
one iteration on a FRESH buffer writes exactly `rowCells` -/
theorem fillRow_fresh (env : Env) (r : Reduce) (key : Bytes) (data : List Bytes) :
    r.fillRow env (List.replicate (r.gnames.length + r.dnames.length) []) key data = r.rowCells env key data := by
  apply List.ext_getElem?
  intro j
  rw [fillRow_getElem?, rowCells_getElem?, List.getElem?_replicate]
  by_cases hj : j < r.gnames.length
  · rw [if_pos (by omega), if_pos hj]
    simp only [Option.map_some, if_pos hj]
  · by_cases hd : j < r.gnames.length + r.dnames.length
    · rw [if_pos hd, if_neg hj, if_pos hd]
      simp only [Option.map_some, if_neg hj]
    · rw [if_neg hd, if_neg hj, if_neg hd]
      rfl

/-- the group cells of a row: the first parts of the row's own key, blank for every group column the key has no part for
(all of them for the empty key) -/
theorem rowCells_group_cells (env : Env) (r : Reduce) (key : Bytes) (data : List Bytes) :
    (r.rowCells env key data).take r.gnames.length =
      ((groupParts key).take r.gnames.length).map (wrap env cBrightWhite) ++
        List.replicate (r.gnames.length - ((groupParts key).take r.gnames.length).length) [] := by
  unfold Reduce.rowCells
  simp only
  rw [List.append_assoc, ← List.append_assoc]
  apply List.take_left'
  simp only [List.length_append, List.length_map, List.length_replicate, List.length_take]
  omega

/-! ### several frames -/

/-- the render callback run once per frame, in order (`helpers.RunAggregationLoop`: every 100 ms tick and once at the end),
each frame with the groups (sorted, with their data) of its moment -/
def Reduce.renderAll (env : Env) (f0 f1 : Bytes) : Reduce × VirtualTerm → List (List (Bytes × List Bytes)) → Res (Reduce × VirtualTerm)
  | st, [] => .ok st
  | st, frame :: rest =>
    match st.1.render env st.2 frame f0 f1 with
    | .ok st' => Reduce.renderAll env f0 f1 st' rest
    | .error e => .error e

/-- any number of frames: no panic, the invariant, and the rows show the LAST frame – row `i + 1` is `rowCells` of group `i`
of the last frame, whatever the earlier frames drew -/
theorem reduce_renderAll (env : Env) (f0 f1 : Bytes) (frames : List (List (Bytes × List Bytes))) (last : List (Bytes × List Bytes))
    (r : Reduce) (vt : VirtualTerm) (hinv : TableInv env r.table vt) :
    ∃ r' vt', Reduce.renderAll env f0 f1 (r, vt) (frames ++ [last]) = .ok (r', vt') ∧ TableInv env r'.table vt' ∧
      r'.gnames = r.gnames ∧ r'.dnames = r.dnames ∧ r'.table.maxRows = r.table.maxRows ∧
      (∀ (i : Nat) (g : Bytes × List Bytes), last[i]? = some g → ((i : Int) + 1 < r.table.maxRows) →
        r'.table.rows[i + 1]? = some (r.rowCells env g.1 g.2)) := by
  induction frames generalizing r vt with
  | nil =>
    obtain ⟨r', vt', h1, h2, h3, h4, h5, h6⟩ := reduce_render env r vt hinv last f0 f1
    refine ⟨r', vt', ?_, h2, h3, h4, h5, h6⟩
    show Reduce.renderAll env f0 f1 (r, vt) [last] = _
    unfold Reduce.renderAll
    simp only [h1]
    rfl
  | cons frame rest ih =>
    obtain ⟨r1, vt1, h1, h2, h3, h4, h5, _⟩ := reduce_render env r vt hinv frame f0 f1
    obtain ⟨r', vt', k1, k2, k3, k4, k5, k6⟩ := ih r1 vt1 h2
    refine ⟨r', vt', ?_, k2, k3.trans h3, k4.trans h4, k5.trans h5, ?_⟩
    · show Reduce.renderAll env f0 f1 (r, vt) (frame :: (rest ++ [last])) = _
      unfold Reduce.renderAll
      simp only [h1]
      exact k1
    · intro i g hg hlt
      have := k6 i g hg (by rw [h5]; exact hlt)
      rw [this]
      unfold Reduce.rowCells
      rw [h3, h4]

end Rare.C14
