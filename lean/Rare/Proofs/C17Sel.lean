import Rare.Spec.C17Sel
import Rare.Proofs.C17Funcs
import Rare.Model.Expr.Funcs.Strings
/-!
C17: `{select}` (word selection, funcsStrings.go `selectField`) and the `kfJoin` family (`tab`, `{$ ..}`, `{@ ..}`)
next to the array helpers.

* `selLoop_words`: the loop invariant of `selectField` on quote-free input – the byte-offset loop
  (`wordStart`, `currIdx`, `inDelim`) computes the `idx`-th word of `Spec/C17Sel.lean`.
* `words_join`: plain words joined by single delimiter bytes are read back as themselves.
* `kfJoin_run`: the `kfJoin(delim)` closure as modelled in `Funcs/Strings.lean` (the entry the registry finds
  first for `$`, `@` and `tab`) joins the values of its arguments.
-/
namespace Rare.C17
open Rare Rare.Expr Rare.Expr.Funcs

theorem isSelDelim_eq (c : UInt8) : Strings.isSelDelim c = isWordDelim c := rfl

/-- What the loop still has to answer, told from the remaining bytes. -/
def selExpected (idx j : Int) (inD : Bool) (cur rest : Bytes) : Bytes :=
  if inD then (if j < idx then (wordsGo rest [] true).getD (idx - j - 1).toNat [] else [])
  else (if j ≤ idx then (wordsGo rest cur false).getD (idx - j).toNat [] else [])

theorem getD_cons_pos (x : Bytes) (l : List Bytes) (n : Int) (h : 0 < n) :
    (x :: l).getD n.toNat [] = l.getD (n - 1).toNat [] := by
  have : n.toNat = (n - 1).toNat + 1 := by omega
  rw [this]; simp [List.getD]

theorem selLoop_words (s : Bytes) (idx : Int) :
    ∀ (rest : Bytes) (i : Nat) (j : Int) (ws : Nat) (inD : Bool) (cur : Bytes),
      (∀ c ∈ rest, c ≠ 34) → s.drop i = rest →
      (inD = false → s.drop ws = cur ++ rest) → (inD = true → j ≠ idx) →
      Strings.selLoop s idx rest i { currIdx := j, wordStart := ws, inDelim := inD, quoted := false } =
        selExpected idx j inD cur rest
  | [], i, j, ws, inD, cur, _, _, hs, hj => by
    cases inD with
    | true =>
      have := hj rfl
      simp [Strings.selLoop, selExpected, wordsGo, this]
    | false =>
      have e := hs rfl
      simp only [List.append_nil] at e
      simp only [Strings.selLoop, selExpected, wordsGo, e]
      by_cases h : j = idx
      · subst h; simp
      · by_cases hle : j ≤ idx
        · obtain ⟨k, hk⟩ : ∃ k, (idx - j).toNat = k + 1 := ⟨(idx - j).toNat - 1, by omega⟩
          simp [h, hle, hk]
        · simp [h, hle]
  | c :: r, i, j, ws, inD, cur, hq, hr, hs, hj => by
    have hc : (c == 34) = false := by
      have := hq c (by simp)
      simpa using this
    have hq' : ∀ d ∈ r, d ≠ 34 := fun d hd => hq d (by simp [hd])
    have hr' : s.drop (i + 1) = r := by
      have : s.drop (i + 1) = (s.drop i).drop 1 := by simp [List.drop_drop]
      rw [this, hr]; rfl
    have hlen : s.length - i = r.length + 1 := by
      have := congrArg List.length hr; simpa using this
    unfold Strings.selLoop
    simp only [Bool.false_and, Bool.not_false, Bool.true_and, Bool.false_or, hc, isSelDelim_eq]
    by_cases hd : isWordDelim c = true
    · -- a delimiter
      simp only [hd, if_true]
      cases inD with
      | true =>
        have hne := hj rfl
        simp only [hne, if_false]
        rw [selLoop_words s idx r (i + 1) j ws true cur hq' hr' (by simp) (fun _ => hne)]
        simp [selExpected, wordsGo, hd]
      | false =>
        have e := hs rfl
        by_cases h : j = idx
        · subst h
          have hl : i - ws = cur.length := by
            have := congrArg List.length e
            simp only [List.length_drop, List.length_append, List.length_cons] at this
            omega
          simp [selExpected, wordsGo, hd, e, hl]
        · simp only [h, if_false]
          rw [selLoop_words s idx r (i + 1) j ws true cur hq' hr' (by simp) (fun _ => h)]
          simp only [selExpected, wordsGo, hd, if_true, Bool.false_eq_true, if_false]
          by_cases hlt : j < idx
          · have h1 : j ≤ idx := by omega
            obtain ⟨k, hk⟩ : ∃ k, (idx - j).toNat = k + 1 := ⟨(idx - j).toNat - 1, by omega⟩
            simp [hlt, h1, hk]
          · have h1 : ¬ j ≤ idx := by omega
            simp [hlt, h1]
    · -- an ordinary byte
      have hd' : isWordDelim c = false := by simpa using hd
      simp only [hd', Bool.false_eq_true, if_false]
      cases inD with
      | true =>
        have hne := hj rfl
        simp only [if_true]
        rw [selLoop_words s idx r (i + 1) (j + 1) i false [c] hq' hr'
          (fun _ => by rw [hr]; rfl) (by simp)]
        simp only [selExpected, wordsGo, hd', Bool.false_eq_true, if_false, if_true, List.nil_append]
        by_cases hlt : j < idx
        · have h1 : j + 1 ≤ idx := by omega
          have h2 : idx - (j + 1) = idx - j - 1 := by omega
          simp [hlt, h1, h2]
        · have h1 : ¬ j + 1 ≤ idx := by omega
          simp [hlt, h1]
      | false =>
        have e := hs rfl
        simp only [Bool.false_eq_true, if_false]
        rw [selLoop_words s idx r (i + 1) j ws false (cur ++ [c]) hq' hr'
          (fun _ => by rw [e]; simp) (by simp)]
        simp [selExpected, wordsGo, hd']

/-- `selectField` on any string without a double quote is word selection. -/
theorem selectField_words (s : Bytes) (idx : Int) (hq : ∀ c ∈ s, c ≠ 34) :
    Strings.selectField s idx = selectWord s idx := by
  unfold Strings.selectField
  have := selLoop_words s idx s 0 0 0 false [] hq (by simp) (by simp) (by simp)
  have e : ({} : Strings.SelSt) = { currIdx := 0, wordStart := 0, inDelim := false, quoted := false } := rfl
  rw [e, this]
  unfold selExpected selectWord words
  by_cases h : idx < 0
  · have : ¬ (0 : Int) ≤ idx := by omega
    simp [h, this]
  · have : (0 : Int) ≤ idx := by omega
    simp [h, this]

/-! ## words of joined plain words -/

theorem wordsGo_plain (w rest cur : Bytes) (h : ∀ c ∈ w, isWordDelim c = false) :
    wordsGo (w ++ rest) cur false = wordsGo rest (cur ++ w) false := by
  induction w generalizing cur with
  | nil => simp
  | cons c u ih =>
    have hc : isWordDelim c = false := h c (by simp)
    have hu : ∀ d ∈ u, isWordDelim d = false := fun d hd => h d (by simp [hd])
    simp only [List.cons_append, wordsGo, hc, Bool.false_eq_true, if_false]
    rw [ih (cur ++ [c]) hu]; simp

/-- After a delimiter a non-empty plain word starts a fresh word, as at the start of the string. -/
theorem wordsGo_delim_start (w rest : Bytes) (h : ∀ c ∈ w, isWordDelim c = false) (hw : w ≠ []) :
    wordsGo (w ++ rest) [] true = wordsGo (w ++ rest) [] false := by
  cases w with
  | nil => exact absurd rfl hw
  | cons c u =>
    have hc : isWordDelim c = false := h c (by simp)
    simp [wordsGo, hc]

/-- Plain words joined by single delimiter bytes are read back as themselves. -/
theorem words_join (d : UInt8) (hd : isWordDelim d = true) :
    ∀ (ws : List Bytes), ws ≠ [] → (∀ w ∈ ws, w ≠ [] ∧ ∀ c ∈ w, isWordDelim c = false) →
      words (join [d] ws) = ws
  | [], h, _ => absurd rfl h
  | [w], _, hw => by
    have := wordsGo_plain w [] [] (hw w (by simp)).2
    simp only [List.append_nil, List.nil_append] at this
    simp [words, join, this, wordsGo]
  | w :: w' :: r, _, hw => by
    have ih := words_join d hd (w' :: r) (by simp) (fun x hx => hw x (by simp at hx ⊢; rcases hx with e | e <;> simp [e]))
    have e1 : join [d] (w :: w' :: r) = w ++ (d :: join [d] (w' :: r)) := by simp [join]
    have e2 : join [d] (w' :: r) = w' ++ joinTail [d] r := join_cons_tail [d] w' r
    unfold words at ih ⊢
    rw [e1, wordsGo_plain w _ [] (hw w (by simp)).2]
    simp only [List.nil_append, wordsGo, hd, if_true, Bool.false_eq_true, if_false]
    rw [e2, wordsGo_delim_start w' _ (hw w' (by simp)).2 (hw w' (by simp)).1, ← e2, ih]

/-- Every word is free of delimiters. -/
theorem wordsGo_free : ∀ (s cur : Bytes) (inD : Bool), (∀ c ∈ cur, isWordDelim c = false) →
    ∀ w ∈ wordsGo s cur inD, ∀ c ∈ w, isWordDelim c = false
  | [], cur, inD, hc, w, hw => by
    cases inD <;> simp [wordsGo] at hw
    subst hw; exact hc
  | c :: r, cur, inD, hc, w, hw => by
    by_cases hd : isWordDelim c = true
    · cases inD with
      | true =>
        simp only [wordsGo, hd, if_true] at hw
        exact wordsGo_free r [] true (by simp) w hw
      | false =>
        simp only [wordsGo, hd, if_true, Bool.false_eq_true, if_false, List.mem_cons] at hw
        rcases hw with e | hw
        · subst e; exact hc
        · exact wordsGo_free r [] true (by simp) w hw
    · have hd' : isWordDelim c = false := by simpa using hd
      simp only [wordsGo, hd', Bool.false_eq_true, if_false] at hw
      exact wordsGo_free r (cur ++ [c]) false (by
        intro x hx
        simp only [List.mem_append, List.mem_singleton] at hx
        rcases hx with hx | hx
        · exact hc x hx
        · subst hx; exact hd') w hw

/-! ## `kfJoin(delim)` as modelled next to the string helpers -/

theorem joinRun_run (ctx : Ctx) (delim : Bytes) : ∀ (args : List Stage) (vals : List Bytes),
    args.map (fun a => a.run ctx) = vals.map Except.ok →
    (Strings.joinRun delim args).run ctx = .ok (joinTail delim vals)
  | [], vals, h => by
    cases vals with
    | nil => rfl
    | cons _ _ => simp at h
  | a :: rest, vals, h => by
    cases vals with
    | nil => simp at h
    | cons v vs =>
      simp only [List.map_cons, List.cons.injEq] at h
      have ih := joinRun_run ctx delim rest vs h.2
      simp only [Strings.joinRun, bind, pure]
      rw [run_bind_ok ctx _ _ _ h.1, run_bind_ok ctx _ _ _ ih]
      simp [Comp.run, joinTail]

/-- The stage `kfJoin(delim)` builds from two or more arguments joins their values. -/
theorem kfJoin_run (ctx : Ctx) (delim : Bytes) (a0 : Stage) (rest : List Stage) (v0 : Bytes) (vs : List Bytes)
    (h0 : a0.run ctx = .ok v0) (hr : rest.map (fun a => a.run ctx) = vs.map Except.ok) :
    ((do let v ← a0; let r ← Strings.joinRun delim rest; pure (v ++ r) : Stage)).run ctx =
      .ok (join delim (v0 :: vs)) := by
  simp only [bind, pure]
  rw [run_bind_ok ctx _ _ _ h0, run_bind_ok ctx _ _ _ (joinRun_run ctx delim rest vs hr)]
  simp [Comp.run, join_cons_tail]

theorem mem_join (d : UInt8) : ∀ (ws : List Bytes) (c : UInt8), c ∈ join [d] ws → c = d ∨ ∃ w ∈ ws, c ∈ w
  | [], c, h => by simp [join] at h
  | [w], c, h => Or.inr ⟨w, by simp, by simpa [join] using h⟩
  | w :: w' :: r, c, h => by
    have e : join [d] (w :: w' :: r) = w ++ [d] ++ join [d] (w' :: r) := rfl
    rw [e] at h
    simp only [List.mem_append, List.mem_singleton] at h
    rcases h with (h | h) | h
    · exact Or.inr ⟨w, by simp, h⟩
    · exact Or.inl h
    · rcases mem_join d (w' :: r) c h with h | ⟨x, hx, hc⟩
      · exact Or.inl h
      · exact Or.inr ⟨x, List.mem_cons_of_mem _ hx, hc⟩

theorem wordDelim_ne_quote (d : UInt8) (hd : isWordDelim d = true) : d ≠ 34 := by
  intro h; subst h; simp [isWordDelim] at hd

/-! ## the two models of `kfJoin`

`kfJoin(delim)` is modelled twice: `Funcs/Strings.lean` (`kfJoin`, the entry the registry finds for `tab`, `$`
and `@`) and `Funcs/Range.lean` (`joinArgs`, a `strings.Builder` loop, what `concat_spec` speaks about).  They
are the same function of the argument stages – values, panics and all. -/

/-- Evaluate the arguments left to right; the first panic ends it. -/
def runAll (ctx : Ctx) : List Stage → Except String (List Bytes)
  | [] => .ok []
  | a :: r =>
    match a.run ctx with
    | .error m => .error m
    | .ok v =>
      match runAll ctx r with
      | .error m => .error m
      | .ok vs => .ok (v :: vs)

theorem joinRun_runAll (ctx : Ctx) (delim : Bytes) : ∀ (args : List Stage),
    (Strings.joinRun delim args).run ctx = (runAll ctx args).map (joinTail delim)
  | [] => rfl
  | a :: rest => by
    have ih := joinRun_runAll ctx delim rest
    simp only [Strings.joinRun, bind, pure]
    rw [run_bind]
    unfold runAll
    cases ha : a.run ctx with
    | error m => rfl
    | ok v =>
      simp only [Except.bind]
      rw [run_bind, ih]
      cases runAll ctx rest with
      | error m => rfl
      | ok vs => simp [Except.map, Except.bind, Comp.run, joinTail]

theorem joinArgsLoop_runAll (ctx : Ctx) (d : UInt8) : ∀ (args : List Stage) (sb : Range.Sb),
    ((Range.joinArgsLoop d args sb).bind fun sb => Comp.ret sb.str).run ctx =
      (runAll ctx args).map (fun vs => sb.str ++ joinTail [d] vs)
  | [], sb => by simp [Range.joinArgsLoop, Comp.bind, Comp.run, runAll, Except.map, joinTail]
  | a :: rest, sb => by
    simp only [Range.joinArgsLoop]
    rw [run_bind, run_bind]
    unfold runAll
    cases ha : a.run ctx with
    | error m => rfl
    | ok v =>
      have ih' := joinArgsLoop_runAll ctx d rest ((sb.write [d]).write v)
      rw [run_bind] at ih'
      show ((Range.joinArgsLoop d rest ((sb.write [d]).write v)).run ctx).bind _ = _
      rw [ih']
      cases runAll ctx rest with
      | error m => rfl
      | ok vs => simp [Except.map, Range.Sb.write, Range.Sb.str, joinTail]

/-- What a builder's result does in a context: the run of its stage and its compile error. -/
def builtRun (ctx : Ctx) : Except String Built → Option (Except String Bytes × Option String)
  | .ok ⟨some s, e⟩ => some (s.run ctx, e)
  | _ => none

theorem kfJoin_models_agree (ctx : Ctx) (d : UInt8) : ∀ (args : List Stage),
    builtRun ctx (Strings.kfJoin [d] args) = builtRun ctx (Range.joinArgs d args)
  | [] => rfl
  | [_] => rfl
  | a0 :: a1 :: rest => by
    simp only [Strings.kfJoin, Range.joinArgs, Range.joinArgsStage, builtRun, ok, bind, pure]
    congr 2
    rw [run_bind, run_bind]
    cases a0.run ctx with
    | error m => rfl
    | ok v0 =>
      simp only [Except.bind]
      rw [run_bind, joinRun_runAll, joinArgsLoop_runAll]
      cases runAll ctx (a1 :: rest) with
      | error m => rfl
      | ok vs => simp [Except.map, Except.bind, Comp.run, Range.Sb.write, Range.Sb.str]

end Rare.C17
