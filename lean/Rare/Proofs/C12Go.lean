import Rare.Model.C12Go
import Rare.Proofs.C12Spec
/-! `stringslite.Index` as Go runs it (`Model/C12Go.lean`) computes the contract `stringsIndex`. -/
namespace Rare.C12

theorem stringsIndex_of_least {s sub : Bytes} {i : Nat} (hle : i ≤ s.length) (hp : sub <+: s.drop i)
    (hmin : ∀ j < i, ¬ sub <+: s.drop j) : stringsIndex s sub = (i : Int) := by
  simp [stringsIndex, (firstIndex_spec sub s i).mpr ⟨hle, hp, hmin⟩]

theorem stringsIndex_of_none {s sub : Bytes} (h : ∀ k ≤ s.length, ¬ sub <+: s.drop k) :
    stringsIndex s sub = -1 := by
  simp [stringsIndex, (firstIndex_none_iff sub s).mpr h]

theorem stringsIndex_ge (s sub : Bytes) : -1 ≤ stringsIndex s sub := by
  unfold stringsIndex; split <;> omega

/-- searching the rest `s[k:]` when nothing occurs before `k` -/
theorem stringsIndex_drop {s sub : Bytes} {k : Nat} (hk : k ≤ s.length)
    (hmin : ∀ j < k, ¬ sub <+: s.drop j) :
    stringsIndex s sub =
      (if stringsIndex (s.drop k) sub < 0 then -1 else (k : Int) + stringsIndex (s.drop k) sub) := by
  cases hf : firstIndex sub (s.drop k) with
  | none =>
    have h0 : stringsIndex (s.drop k) sub = -1 := by simp [stringsIndex, hf]
    rw [h0]; simp only [show ((-1 : Int) < 0) from by omega, if_true]
    apply stringsIndex_of_none
    intro j hj hp
    rcases Nat.lt_or_ge j k with h | h
    · exact hmin j h hp
    · have := (firstIndex_none_iff sub (s.drop k)).mp hf (j - k) (by simp; omega)
      apply this
      rw [List.drop_drop]
      have : k + (j - k) = j := by omega
      rw [this]; exact hp
  | some m =>
    have h0 : stringsIndex (s.drop k) sub = (m : Int) := by simp [stringsIndex, hf]
    rw [h0]
    have hnn : ¬ ((m : Int) < 0) := by omega
    simp only [hnn, if_false]
    obtain ⟨hle, hp, hmin'⟩ := (firstIndex_spec sub (s.drop k) m).mp hf
    have hle' : m ≤ s.length - k := by simpa using hle
    have : stringsIndex s sub = ((k + m : Nat) : Int) := by
      apply stringsIndex_of_least (by omega)
      · rw [List.drop_drop] at hp; exact hp
      · intro j hj hpj
        rcases Nat.lt_or_ge j k with h | h
        · exact hmin j h hpj
        · apply hmin' (j - k) (by omega)
          rw [List.drop_drop]
          have : k + (j - k) = j := by omega
          rw [this]; exact hpj
    rw [this]; omega

/-- `IndexByte`: -1 iff the byte does not occur, else the least position holding it -/
theorem goIndexByte_spec (l : Bytes) (c : UInt8) :
    (goIndexByte l c = -1 ∧ c ∉ l) ∨
    (∃ o : Nat, goIndexByte l c = (o : Int) ∧ l[o]? = some c ∧ ∀ k < o, l[k]? ≠ some c) := by
  induction l with
  | nil => left; simp [goIndexByte]
  | cons x xs ih =>
    by_cases hx : x = c
    · right; exact ⟨0, by simp [goIndexByte, hx], by simp [hx], by omega⟩
    · rcases ih with ⟨h1, h2⟩ | ⟨o, h1, h2, h3⟩
      · left
        refine ⟨by simp [goIndexByte, hx, h1], ?_⟩
        simp only [List.mem_cons, not_or]
        exact ⟨fun h => hx h.symm, h2⟩
      · right
        refine ⟨o + 1, ?_, by simpa using h2, ?_⟩
        · have : ¬ ((o : Int) < 0) := by omega
          simp [goIndexByte, hx, h1, this]
        · intro k hk
          cases k with
          | zero => simp [hx]
          | succ k => simpa using h3 k (by omega)

theorem windowEq_iff (s : Bytes) (i : Nat) (sub : Bytes) : windowEq s i sub = true ↔ sub <+: s.drop i := by
  unfold windowEq
  rw [List.prefix_iff_eq_take]
  simp only [beq_iff_eq]
  exact eq_comm

/-- an occurrence of `c0 :: c1 :: rest` at `j`: the two leading bytes and the room it needs -/
theorem occ_heads {s rest : Bytes} {c0 c1 : UInt8} {j : Nat} (h : (c0 :: c1 :: rest) <+: s.drop j) :
    s[j]? = some c0 ∧ s[j + 1]? = some c1 ∧ j + (rest.length + 2) ≤ s.length := by
  obtain ⟨tl, htl⟩ := h
  have hlen : (s.drop j).length = (c0 :: c1 :: rest ++ tl).length := by rw [← htl]
  simp only [List.length_drop, List.length_cons, List.length_append] at hlen
  have h0 : (s.drop j)[0]? = some c0 := by rw [← htl]; simp
  have h1 : (s.drop j)[1]? = some c1 := by rw [← htl]; simp
  rw [List.getElem?_drop] at h0 h1
  exact ⟨by simpa using h0, h1, by omega⟩

section Loop
variable (fb : Bytes → Bytes → Int)
  (hfb : ∀ s' u : Bytes, u.length ≤ s'.length → fb s' u = stringsIndex s' u)
include hfb

theorem goIndexLoop_eq (s rest : Bytes) (c0 c1 : UInt8) (hn : rest.length + 2 < s.length) :
    ∀ (fuel i fails : Nat), i ≤ s.length - (rest.length + 2) + 1 →
      s.length - (rest.length + 2) + 1 - i < fuel →
      (∀ j < i, ¬ (c0 :: c1 :: rest) <+: s.drop j) →
      goIndexLoop fb s (c0 :: c1 :: rest) c0 c1 (s.length - (rest.length + 2) + 1) fuel i fails =
        stringsIndex s (c0 :: c1 :: rest) := by
  intro fuel
  induction fuel with
  | zero => intro i fails _ h; omega
  | succ fuel ih =>
    intro i fails hit hfuel hmin
    generalize ht : s.length - (rest.length + 2) + 1 = t at *
    -- an occurrence lies below `t`
    have hocc_lt : ∀ j, (c0 :: c1 :: rest) <+: s.drop j → j < t := by
      intro j hj; have := (occ_heads hj).2.2; omega
    unfold goIndexLoop
    by_cases hlt : i < t
    · simp only [hlt, not_true_eq_false, if_false]
      have hil : i < s.length := by omega
      rw [List.getElem?_eq_getElem hil]
      simp only
      -- the common tail, from a position `i'` below which nothing occurs
      have tail : ∀ i', i ≤ i' → i' < t → (∀ j < i', ¬ (c0 :: c1 :: rest) <+: s.drop j) →
          (match s[i' + 1]? with
           | none => (-3 : Int)
           | some s1 =>
             if s1 = c1 ∧ windowEq s i' (c0 :: c1 :: rest) = true then (i' : Int)
             else if fails + 1 ≥ 4 + (i' + 1) >>> 4 ∧ i' + 1 < t then
                (if fb (s.drop (i' + 1)) (c0 :: c1 :: rest) < 0 then -1
                 else ((i' + 1 : Nat) : Int) + fb (s.drop (i' + 1)) (c0 :: c1 :: rest))
             else goIndexLoop fb s (c0 :: c1 :: rest) c0 c1 t fuel (i' + 1) (fails + 1)) =
            stringsIndex s (c0 :: c1 :: rest) := by
        intro i' hii' hi't hmin'
        have h1l : i' + 1 < s.length := by omega
        rw [List.getElem?_eq_getElem h1l]
        simp only
        by_cases hw : s[i' + 1] = c1 ∧ windowEq s i' (c0 :: c1 :: rest) = true
        · rw [if_pos hw]
          exact (stringsIndex_of_least (by omega) ((windowEq_iff _ _ _).mp hw.2) hmin').symm
        · rw [if_neg hw]
          have hno : ¬ (c0 :: c1 :: rest) <+: s.drop i' := by
            intro hp
            apply hw
            refine ⟨?_, (windowEq_iff _ _ _).mpr hp⟩
            have := (occ_heads hp).2.1
            rw [List.getElem?_eq_getElem h1l] at this
            exact Option.some.inj this
          have hmin'' : ∀ j < i' + 1, ¬ (c0 :: c1 :: rest) <+: s.drop j := by
            intro j hj
            rcases Nat.lt_or_ge j i' with h | h
            · exact hmin' j h
            · have : j = i' := by omega
              subst this; exact hno
          by_cases hfall : fails + 1 ≥ 4 + (i' + 1) >>> 4 ∧ i' + 1 < t
          · rw [if_pos hfall]
            rw [hfb _ _ (by simp; omega)]
            exact (stringsIndex_drop (by omega) hmin'').symm
          · rw [if_neg hfall]
            exact ih (i' + 1) (fails + 1) (by omega) (by omega) hmin''
      by_cases hc : s[i] = c0
      · simp only [hc, ne_eq, not_true_eq_false, if_false]
        exact tail i (Nat.le_refl _) hlt hmin
      · simp only [ne_eq, hc, not_false_eq_true, if_true]
        rcases goIndexByte_spec ((s.take t).drop (i + 1)) c0 with ⟨h1, h2⟩ | ⟨o, h1, h2, h3⟩
        · rw [h1]
          simp only [show ((-1 : Int) < 0) from by omega, if_true]
          symm
          apply stringsIndex_of_none
          intro j _ hp
          have hjt := hocc_lt j hp
          have hj0 := (occ_heads hp).1
          rcases Nat.lt_or_ge j i with h | h
          · exact hmin j h hp
          · rcases Nat.eq_or_lt_of_le h with h | h
            · subst h
              rw [List.getElem?_eq_getElem hil] at hj0
              exact hc (Option.some.inj hj0)
            · apply h2
              rw [List.mem_iff_getElem?]
              refine ⟨j - (i + 1), ?_⟩
              rw [List.getElem?_drop, List.getElem?_take]
              have : i + 1 + (j - (i + 1)) = j := by omega
              rw [this, if_pos hjt]; exact hj0
        · rw [h1]
          have hnn : ¬ ((o : Int) < 0) := by omega
          simp only [hnn, if_false, Int.toNat_natCast]
          rw [List.getElem?_drop, List.getElem?_take] at h2
          have hot : i + 1 + o < t := by
            by_cases hh : i + 1 + o < t
            · exact hh
            · rw [if_neg hh] at h2; cases h2
          have hshape : i + (o + 1) = i + 1 + o := by omega
          rw [hshape]
          apply tail (i + 1 + o) (by omega) hot
          intro j hj hp
          have hj0 := (occ_heads hp).1
          rcases Nat.lt_or_ge j i with h | h
          · exact hmin j h hp
          · rcases Nat.eq_or_lt_of_le h with h | h
            · subst h
              rw [List.getElem?_eq_getElem hil] at hj0
              exact hc (Option.some.inj hj0)
            · apply h3 (j - (i + 1)) (by omega)
              rw [List.getElem?_drop, List.getElem?_take]
              have : i + 1 + (j - (i + 1)) = j := by omega
              rw [this, if_pos (by omega)]; exact hj0
    · simp only [hlt, not_false_eq_true, if_true]
      symm
      apply stringsIndex_of_none
      intro j _ hp
      have := hocc_lt j hp
      exact hmin j (by omega) hp

/-- `stringslite.Index` with any correct fall-back search computes the contract. -/
theorem goIndexWith_eq (s sub : Bytes) : goIndexWith fb s sub = stringsIndex s sub := by
  unfold goIndexWith
  split
  · simp [stringsIndex, firstIndex_nil]
  · rename_i c
    rcases goIndexByte_spec s c with ⟨h1, h2⟩ | ⟨o, h1, h2, h3⟩
    · rw [h1]; symm
      apply stringsIndex_of_none
      intro k _ hp
      obtain ⟨tl, htl⟩ := hp
      apply h2
      have : c ∈ s.drop k := by rw [← htl]; simp
      exact List.mem_of_mem_drop this
    · rw [h1]; symm
      have hol : o < s.length := by
        rcases Nat.lt_or_ge o s.length with h | h
        · exact h
        · rw [List.getElem?_eq_none h] at h2; cases h2
      apply stringsIndex_of_least (by omega)
      · refine ⟨s.drop (o + 1), ?_⟩
        rw [List.getElem?_eq_getElem hol] at h2
        have := Option.some.inj h2
        rw [← this]; simp
      · intro j hj hp
        obtain ⟨tl, htl⟩ := hp
        have h0 : (s.drop j)[0]? = some c := by rw [← htl]; simp
        rw [List.getElem?_drop] at h0
        exact h3 j hj (by simpa using h0)
  · rename_i c0 c1 rest
    simp only
    by_cases h1 : rest.length + 2 = s.length
    · rw [if_pos h1]
      by_cases h2 : c0 :: c1 :: rest = s
      · rw [if_pos h2]; symm
        exact stringsIndex_of_least (i := 0) (by omega) (by simp [h2]) (by omega)
      · rw [if_neg h2]; symm
        apply stringsIndex_of_none
        intro k _ hp
        have hk := (occ_heads hp).2.2
        have : k = 0 := by omega
        subst this
        apply h2
        simp only [List.drop_zero] at hp
        exact hp.eq_of_length (by simp; omega)
    · rw [if_neg h1]
      by_cases h2 : rest.length + 2 > s.length
      · rw [if_pos h2]; symm
        apply stringsIndex_of_none
        intro k _ hp
        have := (occ_heads hp).2.2
        omega
      · rw [if_neg h2]
        exact goIndexLoop_eq fb hfb s rest c0 c1 (by omega) _ 0 0 (by omega) (by omega) (by omega)

end Loop

/-! ### `lowerASCII` -/

theorem lowerASCIILoop_eq : ∀ (fuel : Nat) (done todo : Bytes), todo.length ≤ fuel →
    lowerASCIILoop (lower done ++ todo) done.length fuel = lower done ++ lower todo := by
  intro fuel
  induction fuel with
  | zero =>
    intro done todo h
    have : todo = [] := List.eq_nil_of_length_eq_zero (by omega)
    subst this; simp [lowerASCIILoop, lower]
  | succ fuel ih =>
    intro done todo h
    cases todo with
    | nil =>
      simp [lowerASCIILoop, lower]
    | cons c cs =>
      have hl : (lower done).length = done.length := lower_length done
      have hget : (lower done ++ c :: cs)[done.length]? = some c := by
        rw [List.getElem?_append_right (by omega)]; simp [hl]
      simp only [lowerASCIILoop, hget]
      have hset : (lower done ++ c :: cs).set done.length (lowerByte c) = lower (done ++ [c]) ++ cs := by
        rw [List.set_append_right _ _ (by omega)]
        simp [lower]
      rw [hset]
      have := ih (done ++ [c]) cs (by simpa using h)
      simp only [List.length_append, List.length_cons, List.length_nil] at this
      rw [this]
      simp [lower]

theorem lowerASCII_eq (s : Bytes) : lowerASCII s = lower s := by
  have := lowerASCIILoop_eq s.length [] s (Nat.le_refl _)
  simpa [lowerASCII, lower] using this

/-! ### Rabin–Karp -/

theorem sq_pow (a : UInt32) (n : Nat) : (a * a) ^ n = a ^ (2 * n) := by
  induction n with
  | zero => simp
  | succ n ih =>
    have : 2 * (n + 1) = 2 * n + 1 + 1 := by omega
    rw [this]; grind

theorem powLoop_eq : ∀ (fuel i : Nat) (pow sq : UInt32), i ≤ fuel → powLoop fuel i pow sq = pow * sq ^ i := by
  intro fuel
  induction fuel with
  | zero => intro i pow sq h; have : i = 0 := by omega
            subst this; simp [powLoop]
  | succ fuel ih =>
    intro i pow sq h
    unfold powLoop
    by_cases hi : i > 0
    · have hsh : i >>> 1 = i / 2 := by rw [Nat.shiftRight_eq_div_pow]
      rw [if_pos hi, hsh, ih _ _ _ (by omega), sq_pow]
      have hmod : i &&& 1 = i % 2 := Nat.and_one_is_mod i
      rw [hmod]
      rcases Nat.mod_two_eq_zero_or_one i with h0 | h1
      · have : 2 * (i / 2) = i := by omega
        simp [h0, this]
      · have : i = 2 * (i / 2) + 1 := by omega
        simp only [h1]
        generalize i / 2 = m at *
        subst this
        grind
    · have : i = 0 := by omega
      subst this; simp

theorem hashPow_eq (n : Nat) : hashPow n = primeRK ^ n := by
  unfold hashPow
  rw [powLoop_eq _ _ _ _ (by omega)]
  grind

def hashFrom (h : UInt32) (l : Bytes) : UInt32 := l.foldl (fun h c => h * primeRK + c.toUInt32) h

theorem hashFrom_eq (l : Bytes) : ∀ h, hashFrom h l = h * primeRK ^ l.length + hashBytes l := by
  induction l with
  | nil => intro h; simp [hashFrom, hashBytes]
  | cons c l ih =>
    intro h
    have e1 : hashFrom h (c :: l) = hashFrom (h * primeRK + c.toUInt32) l := by simp [hashFrom]
    have e2 : hashBytes (c :: l) = hashFrom (0 * primeRK + c.toUInt32) l := by simp [hashBytes, hashFrom]
    rw [e1, e2, ih, ih]
    simp only [List.length_cons]
    grind

theorem hashBytes_snoc (l : Bytes) (c : UInt8) : hashBytes (l ++ [c]) = hashBytes l * primeRK + c.toUInt32 := by
  simp [hashBytes, List.foldl_append]

theorem hashBytes_cons (o : UInt8) (w : Bytes) : hashBytes (o :: w) = o.toUInt32 * primeRK ^ w.length + hashBytes w := by
  have : hashBytes (o :: w) = hashFrom (0 * primeRK + o.toUInt32) w := by simp [hashBytes, hashFrom]
  rw [this, hashFrom_eq]; grind

/-- the rolling step: drop `o` in front, append `c` behind -/
theorem hash_roll (o c : UInt8) (w : Bytes) :
    hashBytes (o :: w) * primeRK + c.toUInt32 - primeRK ^ (w.length + 1) * o.toUInt32 = hashBytes (w ++ [c]) := by
  rw [hashBytes_cons, hashBytes_snoc]; grind


theorem rkLoop_eq (sub : Bytes) : ∀ (new old : Bytes) (h : UInt32) (k : Nat),
    new = old.drop sub.length → sub.length ≤ old.length → h = hashBytes (old.take sub.length) →
    ¬ sub <+: old →
    rkLoop sub (hashBytes sub) (primeRK ^ sub.length) old new h k =
      (if stringsIndex old sub < 0 then -1 else (k : Int) + stringsIndex old sub) := by
  intro new
  induction new with
  | nil =>
    intro old h k hnew hlen _ hno
    have hl : old.length = sub.length := by
      have := congrArg List.length hnew
      simp at this; omega
    have hnone : stringsIndex old sub = -1 := by
      apply stringsIndex_of_none
      intro j _ hp
      have hjl := hp.length_le
      simp only [List.length_drop] at hjl
      have : j = 0 := by omega
      subst this
      exact hno (by simpa using hp)
    rw [hnone]
    cases old <;> simp [rkLoop]
  | cons c new ih =>
    intro old h k hnew hlen hh hno
    have hn1 : 1 ≤ sub.length := by
      rcases Nat.eq_zero_or_pos sub.length with h0 | h0
      · exfalso; apply hno
        have : sub = [] := List.eq_nil_of_length_eq_zero h0
        subst this; exact List.nil_prefix
      · exact h0
    cases old with
    | nil => simp at hnew
    | cons o old =>
      obtain ⟨m, hm⟩ : ∃ m, sub.length = m + 1 := ⟨sub.length - 1, by omega⟩
      have hdrop : old.drop m = c :: new := by
        rw [hm] at hnew; simpa using hnew.symm
      have hlen' : sub.length ≤ old.length := by
        have := congrArg List.length hdrop
        simp at this; omega
      have htake : old.take sub.length = old.take m ++ [c] := by
        rw [hm, List.take_succ_eq_append_getElem (by omega)]
        congr 1
        have : (old.drop m)[0]? = some c := by rw [hdrop]; simp
        rw [List.getElem?_drop] at this
        simp only [Nat.add_zero] at this
        rw [List.getElem?_eq_getElem (by omega)] at this
        simpa using Option.some.inj this
      have hroll : h * primeRK + c.toUInt32 - primeRK ^ sub.length * o.toUInt32 =
          hashBytes (old.take sub.length) := by
        rw [hh, htake, hm]
        have : (o :: old).take (m + 1) = o :: old.take m := by simp
        rw [this]
        have hl : (old.take m).length = m := by simp; omega
        have := hash_roll o c (old.take m)
        rw [hl] at this
        exact this
      have hnew' : new = old.drop sub.length := by
        rw [hm]
        have : old.drop (m + 1) = (old.drop m).drop 1 := by rw [List.drop_drop]
        rw [this, hdrop]; simp
      have hidx := stringsIndex_drop (s := o :: old) (sub := sub) (k := 1) (by simp)
        (by intro j hj; have : j = 0 := by omega
            subst this; simpa using hno)
      simp only [List.drop_succ_cons, List.drop_zero] at hidx
      simp only [rkLoop]
      rw [hroll]
      by_cases hw : old.take sub.length = sub
      · have hpre : sub <+: old := by
          rw [List.prefix_iff_eq_take]; exact hw.symm
        have h1 : stringsIndex old sub = 0 := by
          have := stringsIndex_of_least (s := old) (sub := sub) (i := 0) (by omega) (by simpa using hpre) (by omega)
          simpa using this
        simp only [hw, beq_self_eq_true, Bool.and_self, if_true]
        rw [hidx, h1]; simp
      · have hpre : ¬ sub <+: old := by
          rw [List.prefix_iff_eq_take]; exact fun h => hw h.symm
        have hb : (old.take sub.length == sub) = false := by simpa using hw
        simp only [hb, Bool.and_false, Bool.false_eq_true, if_false]
        rw [ih old _ (k + 1) hnew' hlen' rfl hpre, hidx]
        split <;> simp <;> omega

/-- `bytealg.IndexRabinKarp` computes the contract whenever Go may call it (`len(s) ≥ len(sep)`) -/
theorem indexRabinKarp_eq (s sub : Bytes) (h : sub.length ≤ s.length) :
    indexRabinKarp s sub = stringsIndex s sub := by
  unfold indexRabinKarp
  simp only [show ¬ s.length < sub.length from by omega, if_false, hashPow_eq]
  by_cases hw : s.take sub.length = sub
  · have hpre : sub <+: s := by rw [List.prefix_iff_eq_take]; exact hw.symm
    simp only [hw, beq_self_eq_true, Bool.and_self, if_true]
    exact (stringsIndex_of_least (i := 0) (by omega) (by simpa using hpre) (by omega)).symm
  · have hpre : ¬ sub <+: s := by rw [List.prefix_iff_eq_take]; exact fun h => hw h.symm
    have hb : (s.take sub.length == sub) = false := by simpa using hw
    simp only [hb, Bool.and_false, Bool.false_eq_true, if_false]
    rw [rkLoop_eq sub _ s _ 0 rfl h rfl hpre]
    have := stringsIndex_ge s sub
    split <;> omega

theorem goIndex_eq (s sub : Bytes) : goIndex s sub = stringsIndex s sub :=
  goIndexWith_eq indexRabinKarp indexRabinKarp_eq s sub

end Rare.C12
