import Rare.Model.C09
/-! C09 helper lemmas about `splitArgs` (the model of `splitTokenizedArguments`). -/
namespace Rare.C09
open Rare Rare.Expr

theorem isSpace_eq (c : Char) : isSpace c = isSpaceRune c := rfl

theorem special_false {c : Char} (h : special c = false) : c ≠ '"' ∧ c ≠ '\\' ∧ c ≠ '{' ∧ c ≠ '}' := by
  simp [special] at h
  exact ⟨h.1.1.1, h.1.1.2, h.1.2, h.2⟩

theorem space_not_special {c : Char} (h : isSpace c = true) : special c = false := by
  by_cases hs : special c = true
  · simp [special] at hs
    rcases hs with ((h1 | h1) | h1) | h1 <;> subst h1 <;> simp [isSpace] at h <;> exact absurd h (by decide)
  · simpa using hs

/-- "Between pieces": depth 0, not quoted, not escaped. -/
def Top (s : SplitSt) : Prop := s.depth = 0 ∧ s.quoted = false ∧ s.escaped = false

/-- The argument list the splitter would return if the input ended here. -/
def flush (s : SplitSt) : List (List Char) := if s.sb.isEmpty then s.args else s.args ++ [s.sb]

theorem splitArgs_eq (t : List Char) : splitArgs t = flush (t.foldl splitStep SplitSt.init) := rfl

/-! ### single steps -/

theorem step_inside {s : SplitSt} {c : Char} (he : s.escaped = false) (hc : special c = false)
    (hin : s.quoted = true ∨ 0 < s.depth) : splitStep s c = { s with sb := s.sb ++ [c] } := by
  obtain ⟨h1, h2, h3, h4⟩ := special_false hc
  rcases hin with hq | hd
  · simp [splitStep, he, h1, h2, h3, h4, hq]
  · have hd' : ¬ s.depth = 0 := by omega
    simp [splitStep, he, h1, h2, h3, h4, hd, hd']

theorem step_word {s : SplitSt} {c : Char} (ht : Top s) (hc : special c = false) (hs : isSpace c = false) :
    splitStep s c = { s with sb := s.sb ++ [c] } := by
  obtain ⟨h1, h2, h3, h4⟩ := special_false hc
  obtain ⟨hd, hq, he⟩ := ht
  rw [isSpace_eq] at hs
  simp [splitStep, he, h1, h2, h3, h4, hq, hs]

theorem step_space {s : SplitSt} {c : Char} (ht : Top s) (hs : isSpace c = true) :
    splitStep s c = if s.sb.isEmpty then s else { s with args := s.args ++ [s.sb], sb := [] } := by
  obtain ⟨h1, h2, h3, h4⟩ := special_false (space_not_special hs)
  obtain ⟨hd, hq, he⟩ := ht
  rw [isSpace_eq] at hs
  cases hsb : s.sb <;> simp [splitStep, he, h1, h2, h3, h4, hq, hs, hd, hsb]

theorem step_open {s : SplitSt} (he : s.escaped = false) (hq : s.quoted = false) :
    splitStep s '{' = { s with depth := s.depth + 1, sb := s.sb ++ ['{'] } := by
  simp [splitStep, he, hq]

theorem step_close {s : SplitSt} (he : s.escaped = false) (hq : s.quoted = false) :
    splitStep s '}' = { s with depth := s.depth - 1, sb := s.sb ++ ['}'] } := by
  simp [splitStep, he, hq]

theorem step_quote_open {s : SplitSt} (he : s.escaped = false) (hq : s.quoted = false) :
    splitStep s '"' = { s with quoted := true, sb := if s.depth > 0 then s.sb ++ ['"'] else s.sb } := by
  simp [splitStep, he, hq]

theorem step_quote_close {s : SplitSt} (he : s.escaped = false) (hq : s.quoted = true) :
    splitStep s '"' = if s.depth > 0 then { s with quoted := false, sb := s.sb ++ ['"'] }
      else { s with quoted := false, args := s.args ++ [s.sb], sb := [] } := by
  simp [splitStep, he, hq]

/-! ### runs -/

/-- Non-special text inside quotes or braces is copied. -/
theorem run_inside (t : List Char) : ∀ (s : SplitSt), s.escaped = false → plain t = true →
    (s.quoted = true ∨ 0 < s.depth) → t.foldl splitStep s = { s with sb := s.sb ++ t }
  | s, he, hp, hin => by
    induction t generalizing s with
    | nil => simp
    | cons c t ih =>
      simp only [plain, List.all_cons, Bool.and_eq_true, Bool.not_eq_true'] at hp
      rw [List.foldl_cons, step_inside he hp.1 hin,
        ih { s with sb := s.sb ++ [c] } he (by simpa [plain] using hp.2) hin]
      simp

/-- `Inner` text at positive depth is copied verbatim. -/
theorem run_inner {t : List Char} (hi : Inner t) : ∀ (s : SplitSt), s.escaped = false → s.quoted = false →
    0 < s.depth → t.foldl splitStep s = { s with sb := s.sb ++ t } := by
  induction hi with
  | nil => intro s _ _ _; simp
  | char c t hc _ ih =>
    intro s he hq hd
    rw [List.foldl_cons, step_inside he hc (Or.inr hd), ih { s with sb := s.sb ++ [c] } he hq hd]; simp
  | quoted q t hp _ ih =>
    intro s he hq hd
    simp only [List.foldl_append, List.foldl_cons, List.foldl_nil]
    rw [step_quote_open he hq]
    simp only [hd, if_true]
    rw [run_inside q { s with quoted := true, sb := s.sb ++ ['"'] } he hp (Or.inl rfl),
      step_quote_close (s := { s with quoted := true, sb := s.sb ++ ['"'] ++ q }) he rfl]
    simp only [hd, if_true]
    rw [ih { s with quoted := false, sb := s.sb ++ ['"'] ++ q ++ ['"'] } he rfl hd]; simp [hq]
  | braces b t _ _ ihb iht =>
    intro s he hq hd
    simp only [List.foldl_append, List.foldl_cons, List.foldl_nil]
    rw [step_open he hq, ihb { s with depth := s.depth + 1, sb := s.sb ++ ['{'] } he hq (by simp; omega),
      step_close (s := { s with depth := s.depth + 1, sb := s.sb ++ ['{'] ++ b }) he hq,
      iht { s with depth := s.depth + 1 - 1, sb := s.sb ++ ['{'] ++ b ++ ['}'] } he hq (by simp; omega)]
    simp

/-- White space between pieces: ends the pending word, if any. -/
theorem run_space (w : List Char) : ∀ (s : SplitSt), Top s → allSpace w = true →
    Top (w.foldl splitStep s) ∧
    (w.foldl splitStep s).args = (if w = [] then s.args else flush s) ∧
    (w.foldl splitStep s).sb = (if w = [] then s.sb else []) := by
  induction w with
  | nil => intro s ht _; simp [ht]
  | cons c w ih =>
    intro s ht hw
    simp only [allSpace, List.all_cons, Bool.and_eq_true] at hw
    rw [List.foldl_cons, step_space ht hw.1]
    have hw2 : allSpace w = true := hw.2
    by_cases hsb : s.sb.isEmpty = true
    · rw [if_pos hsb]
      obtain ⟨h1, h2, h3⟩ := ih s ht hw2
      refine ⟨h1, ?_, ?_⟩
      · rw [h2]; by_cases hwn : w = [] <;> simp [hwn, flush, hsb]
      · rw [h3]; by_cases hwn : w = [] <;> simp [hwn]; simpa using hsb
    · rw [if_neg hsb]
      have ht' : Top { s with args := s.args ++ [s.sb], sb := [] } := ht
      obtain ⟨h1, h2, h3⟩ := ih _ ht' hw2
      refine ⟨h1, ?_, ?_⟩
      · rw [h2]; by_cases hwn : w = [] <;> simp [hwn, flush, hsb]
      · rw [h3]; by_cases hwn : w = [] <;> simp [hwn]

/-- A bare word between pieces is copied. -/
theorem run_word (t : List Char) : ∀ (s : SplitSt), Top s →
    (t.all fun c => !special c && !isSpace c) = true → t.foldl splitStep s = { s with sb := s.sb ++ t } := by
  induction t with
  | nil => intro s _ _; simp
  | cons c t ih =>
    intro s ht hb
    simp only [List.all_cons, Bool.and_eq_true, Bool.not_eq_true'] at hb
    have ht' : Top { s with sb := s.sb ++ [c] } := ht
    rw [List.foldl_cons, step_word ht hb.1.1 hb.1.2, ih { s with sb := s.sb ++ [c] } ht' (by simpa using hb.2)]
    simp

/-- One piece, starting with an empty builder: the pending argument list grows by the piece's value. -/
theorem run_piece (p : Piece) (hp : p.ok) : ∀ (s : SplitSt), Top s → s.sb = [] →
    Top (p.text.foldl splitStep s) ∧ flush (p.text.foldl splitStep s) = s.args ++ [p.value] := by
  intro s ht hsb
  obtain ⟨hd, hq, he⟩ := ht
  cases p with
  | bare w =>
    simp only [Piece.ok, bare, Bool.and_eq_true, Bool.not_eq_true'] at hp
    rw [Piece.text, run_word w s ⟨hd, hq, he⟩ hp.2]
    refine ⟨⟨hd, hq, he⟩, ?_⟩
    have : w ≠ [] := by intro h; simp [h] at hp
    simp [flush, hsb, this, Piece.value]
  | quoted q =>
    simp only [Piece.text, Piece.value, List.foldl_append, List.foldl_cons, List.foldl_nil]
    have hng : ¬ (s.depth > 0) := by omega
    rw [step_quote_open he hq]
    simp only [hng, if_false]
    rw [run_inside q { s with quoted := true } he hp (Or.inl rfl),
      step_quote_close (s := { s with quoted := true, sb := s.sb ++ q }) he rfl]
    simp [hd, Top, he, flush, hsb]
  | braced b =>
    simp only [Piece.text, Piece.value, List.foldl_append, List.foldl_cons, List.foldl_nil]
    rw [step_open he hq, run_inner hp { s with depth := s.depth + 1, sb := s.sb ++ ['{'] } he hq (by simp [hd]),
      step_close (s := { s with depth := s.depth + 1, sb := s.sb ++ ['{'] ++ b }) he hq]
    simp [hd, Top, he, hq, flush, hsb]

/-- A whole layout. -/
theorem run_layout (l : List (List Char × Piece)) : ∀ (first : Bool) (s : SplitSt), Top s →
    (first = true → s.sb = []) → LayoutOk first l →
    Top ((layout l).foldl splitStep s) ∧
    flush ((layout l).foldl splitStep s) = flush s ++ l.map (·.2.value) := by
  induction l with
  | nil => intro _ s ht _ _; simp [layout, ht]
  | cons wp rest ih =>
    intro first s ht hfirst hok
    obtain ⟨w, p⟩ := wp
    obtain ⟨hw, hne, hp, hrest⟩ := hok
    simp only [layout, List.foldl_append]
    obtain ⟨t1, a1, b1⟩ := run_space w s ht hw
    have hsb1 : (w.foldl splitStep s).sb = [] := by
      rw [b1]; by_cases hwn : w = []
      · simp only [hwn, if_true]
        rcases hne with h | h
        · exact hfirst h
        · exact absurd hwn h
      · simp [hwn]
    have hfl : (w.foldl splitStep s).args = flush s := by
      rw [a1]; by_cases hwn : w = []
      · simp only [hwn, if_true]
        rcases hne with h | h
        · simp [flush, hfirst h]
        · exact absurd hwn h
      · simp [hwn]
    obtain ⟨t2, f2⟩ := run_piece p hp _ t1 hsb1
    obtain ⟨t3, f3⟩ := ih false _ t2 (by intro h; cases h) hrest
    refine ⟨t3, ?_⟩
    rw [f3, f2, hfl]; simp

/-- Trailing white space changes nothing. -/
theorem flush_space (w : List Char) (s : SplitSt) (ht : Top s) (hw : allSpace w = true) :
    flush (w.foldl splitStep s) = flush s := by
  obtain ⟨_, a, b⟩ := run_space w s ht hw
  by_cases hwn : w = []
  · simp [hwn]
  · simp only [flush, a, b, hwn, if_false]; simp

theorem top_init : Top SplitSt.init := ⟨rfl, rfl, rfl⟩

/-- `split_spec` in its general form. -/
theorem splitArgs_layout (l : List (List Char × Piece)) (trail : List Char)
    (hl : LayoutOk true l) (ht : allSpace trail = true) :
    splitArgs (layout l ++ trail) = l.map (·.2.value) := by
  rw [splitArgs_eq, List.foldl_append]
  obtain ⟨t, f⟩ := run_layout l true SplitSt.init top_init (fun _ => rfl) hl
  rw [flush_space trail _ t ht, f]
  simp [flush, SplitSt.init]

end Rare.C09
