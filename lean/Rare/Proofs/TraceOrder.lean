import Rare.Model.C01C05TraceOrder
/-!
Soundness of the executable admissibility check and of the trusted `checkSchedule` wrapper
(generic part of the trace-inclusion tie of C01/C05).  Nothing is proved about the search
`linearize`: its result is only used through `checkSchedule`.
-/
namespace Rare.TraceOrder

theorem sortedLt_pairwise : ∀ (l : List Nat), sortedLt l = true → l.Pairwise (· < ·)
  | [], _ => List.Pairwise.nil
  | [a], _ => by simp
  | a :: b :: r, h => by
    simp only [sortedLt, Bool.and_eq_true, decide_eq_true_eq] at h
    have ih := sortedLt_pairwise (b :: r) h.2
    refine List.Pairwise.cons ?_ ih
    intro x hx
    rcases List.mem_cons.mp hx with rfl | hx
    · exact h.1
    · exact Nat.lt_trans h.1 ((List.pairwise_cons.mp ih).1 x hx)

theorem ins_perm (x : Nat) : ∀ l : List Nat, (ins x l).Perm (x :: l)
  | [] => List.Perm.refl _
  | y :: r => by
    unfold ins
    split
    · exact List.Perm.refl _
    · exact ((ins_perm x r).cons y).trans (List.Perm.swap x y r)

theorem isort_perm : ∀ l : List Nat, (isort l).Perm l
  | [] => List.Perm.refl _
  | x :: r => by
    show (ins x (isort r)).Perm (x :: r)
    exact (ins_perm x _).trans ((isort_perm r).cons x)

theorem permB_sound {tr : Array Ev} {sched : List Nat} (h : permB tr sched = true) :
    sched.Perm (List.range tr.size) := by
  unfold permB at h
  have h' := eq_of_beq h
  have := isort_perm sched
  rw [h'] at this
  exact this.symm

theorem gAt_mem_goroutines {tr : Array Ev} {i : Nat} (hi : i < tr.size) : gAt tr i ∈ goroutines tr := by
  unfold goroutines gAt
  rw [List.mem_eraseDups]
  simp only [Array.getElem?_eq_getElem hi]
  exact List.mem_map.mpr ⟨tr[i], by simp, rfl⟩

theorem progOrderB_sound {tr : Array Ev} {sched : List Nat} (hp : sched.Perm (List.range tr.size))
    (h : progOrderB tr sched = true) (g : Nat) :
    (sched.filter fun i => gAt tr i = g).Pairwise (· < ·) := by
  by_cases hg : g ∈ goroutines tr
  · unfold progOrderB at h
    rw [List.all_eq_true] at h
    exact sortedLt_pairwise _ (h g hg)
  · have : (sched.filter fun i => gAt tr i = g) = [] := by
      rw [List.filter_eq_nil_iff]
      intro i hi
      have hlt : i < tr.size := by
        have := (hp.mem_iff).mp hi
        simpa using this
      intro hgi
      apply hg
      have := gAt_mem_goroutines (tr := tr) hlt
      simp only [decide_eq_true_eq] at hgi
      rwa [hgi] at this
    rw [this]; exact List.Pairwise.nil

theorem greedyTimes_sound (tr : Array Ev) : ∀ (sched : List Nat) (t : Nat) (ts : List Nat),
    greedyTimes tr t sched = some ts →
    ts.length = sched.length ∧ ts.Pairwise (· ≤ ·) ∧ (∀ x ∈ ts, t ≤ x) ∧
    ∀ p ∈ sched.zip ts, lo tr p.1 ≤ p.2 ∧ p.2 ≤ hi tr p.1
  | [], t, ts, h => by
    simp only [greedyTimes, Option.some.injEq] at h
    subst h; simp
  | i :: rest, t, ts, h => by
    simp only [greedyTimes] at h
    split at h
    · rename_i hle
      cases hr : greedyTimes tr (max t (lo tr i)) rest with
      | none => rw [hr] at h; simp at h
      | some ts' =>
        rw [hr] at h
        simp only [Option.map_some, Option.some.injEq] at h
        subst h
        obtain ⟨h1, h2, h3, h4⟩ := greedyTimes_sound tr rest _ ts' hr
        refine ⟨by simp [h1], ?_, ?_, ?_⟩
        · exact List.Pairwise.cons h3 h2
        · intro x hx
          rcases List.mem_cons.mp hx with rfl | hx
          · exact Nat.le_max_left _ _
          · exact Nat.le_trans (Nat.le_max_left _ _) (h3 x hx)
        · intro p hp
          simp only [List.zip_cons_cons, List.mem_cons] at hp
          rcases hp with rfl | hp
          · exact ⟨Nat.le_max_right _ _, hle⟩
          · exact h4 p hp
    · simp at h

theorem admissibleB_sound {tr : Array Ev} {sched : List Nat} (h : admissibleB tr sched = true) :
    Admissible tr sched := by
  unfold admissibleB at h
  simp only [Bool.and_eq_true] at h
  obtain ⟨⟨h1, h2⟩, h3⟩ := h
  have hp := permB_sound h1
  refine ⟨hp, progOrderB_sound hp h2, ?_⟩
  cases hg : greedyTimes tr 0 sched with
  | none => rw [hg] at h3; simp at h3
  | some ts =>
    obtain ⟨a, b, _, d⟩ := greedyTimes_sound tr sched 0 ts hg
    exact ⟨ts, a, b, d⟩

theorem checkSchedule_sound {σ : Type} {m : Machine σ} {init s : σ} {tr : Array Ev} {sched : List Nat}
    (h : checkSchedule m init tr sched = some s) :
    Admissible tr sched ∧ replay m init (sched.map (evAt tr)) = some s ∧ m.final s = true := by
  unfold checkSchedule at h
  split at h
  · rename_i ha
    split at h
    · rename_i s' hr
      split at h
      · rename_i hf
        simp only [Option.some.injEq] at h
        subst h
        exact ⟨admissibleB_sound ha, hr, hf⟩
      · simp at h
    · simp at h
  · simp at h

/-- If the trace check accepts, the log is — up to an admissible reordering — a path of the machine
    from `init` to a final state. -/
theorem accepts_sound {σ : Type} {m : Machine σ} {L : Lin σ} {init : σ} {tr : Array Ev}
    (h : accepts m L init tr = true) :
    ∃ sched s, Admissible tr sched ∧ replay m init (sched.map (evAt tr)) = some s ∧ m.final s = true := by
  unfold accepts at h
  split at h
  · rename_i s sched hv
    unfold verdict at hv
    simp only at hv
    split at hv
    · rename_i sched' hs
      split at hv
      · rename_i s' hc
        simp only [Verdict.accepted.injEq] at hv
        obtain ⟨rfl, rfl⟩ := hv
        exact ⟨_, _, checkSchedule_sound hc⟩
      · simp at hv
    · simp at hv
  · simp at h

/-- Every prefix of a successful replay is a successful replay (so every visited state is reachable). -/
theorem replay_append {σ : Type} (m : Machine σ) : ∀ (evs₁ evs₂ : List Ev) (s s' : σ),
    replay m s (evs₁ ++ evs₂) = some s' → ∃ s₁, replay m s evs₁ = some s₁ ∧ replay m s₁ evs₂ = some s'
  | [], evs₂, s, s', h => ⟨s, rfl, h⟩
  | e :: r, evs₂, s, s', h => by
    simp only [List.cons_append, replay] at h ⊢
    cases hs : m.step s e with
    | none => rw [hs] at h; simp at h
    | some s₁ =>
      rw [hs] at h
      simp only [Option.bind_some] at h ⊢
      exact replay_append m r evs₂ s₁ s' h

/-- The reorderings `Admissible` allows are limited: an event whose hook sits AFTER its action and
    that is logged before an event whose hook sits BEFORE its action (e.g. "worker received batch b"
    logged before "reader is about to send batch c") keeps that order in every admissible schedule. -/
theorem admissible_after_before {tr : Array Ev} {sched : List Nat} (h : Admissible tr sched)
    {i j : Nat} (hij : i < j) (hia : beforeAt tr i = false) (hjb : beforeAt tr j = true)
    {p q : Nat} (hp : p < sched.length) (hq : q < sched.length) (hpi : sched[p] = i) (hqj : sched[q] = j) :
    p < q := by
  obtain ⟨ts, hlen, hpw, hb⟩ := h.timed
  have hp' : p < ts.length := by omega
  have hq' : q < ts.length := by omega
  have hbp := hb (sched[p], ts[p]) (by
    rw [List.mem_iff_getElem]
    exact ⟨p, by simp [List.length_zip]; omega, by simp⟩)
  have hbq := hb (sched[q], ts[q]) (by
    rw [List.mem_iff_getElem]
    exact ⟨q, by simp [List.length_zip]; omega, by simp⟩)
  simp only [hpi, hqj] at hbp hbq
  have hhi : hi tr i = i := by simp [hi, hia]
  have hlo : lo tr j = j := by simp [lo, hjb]
  rw [hhi] at hbp
  rw [hlo] at hbq
  rcases Nat.lt_trichotomy p q with hlt | heq | hgt
  · exact hlt
  · subst heq
    rw [hpi] at hqj
    omega
  · have := (List.pairwise_iff_getElem.mp hpw) q p hq' hp' hgt
    omega

end Rare.TraceOrder
