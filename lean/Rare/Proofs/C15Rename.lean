import Rare.Model.C15Rename
/-!
C15 – rotation by rename: for re-open follow the extended notify system `NStepR` IS the system `NStep`.
-/
namespace Rare.Follow

variable {β : Type}

theorem nstepR_is_nstep {cfg : NCfg} (hre : cfg.reopen = true) {w : Who} {s s' : NSt β}
    (hs : NStepR cfg w s s') : NStep cfg w s s' := by
  cases hs with
  | base hb => exact hb
  | rename _ i hp =>
    have : renameEv cfg = .remove := by simp [renameEv, hre]
    rw [this]
    exact .remove s i hp

theorem nreachR_is_nreach {cfg : NCfg} (hre : cfg.reopen = true) {s0 s : NSt β} (hr : NReachR cfg s0 s) :
    NReach cfg s0 s := by
  induction hr with
  | refl => exact .refl
  | step _ hs ih => exact .step ih (nstepR_is_nstep hre hs)

end Rare.Follow
