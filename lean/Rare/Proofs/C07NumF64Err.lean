import Rare.Proofs.C07NumF64Arith
/-!
C07 – the standard model of floating-point arithmetic for the software binary64, and the error of one
Welford mean update.

* `magVal_raw`: the value of the pattern `E·2^52 + m` is `m·2^E/2^1074` (carry into the exponent included);
* `roundMag_err`: for `q ≥ 0` whose rounding is finite, `|fl q − q| ≤ w/2` where `w = 2^E/2^1074` is the spacing
  of the floats around `q`; `w/2 ≤ q·2^-53` and `w/2 ≤ fl q·2^-53` in the normal range, `w/2 = 2^-1075` below it;
* `ofRatS_err`: hence for every rational `q` with a finite rounding: `|fl q − q| ≤ |q|·2^-53 + 2^-1075` and
  `|fl q − q| ≤ |fl q|·2^-53 + 2^-1075`.
-/
namespace Rare.F64

/-- `2^-1075`: half the smallest subnormal. -/
def etaF : Rat := 1 / (2 * two1074)

theorem etaF_pos : 0 < etaF := by
  unfold etaF
  have := two1074_pos
  apply Rare.C07.rat_div_pos (by decide)
  grind

theorem magVal_raw (E m : Nat) (h : (E = 0 ∧ m ≤ P53) ∨ (P52 ≤ m ∧ m ≤ P53)) :
    magVal (E * P52 + m) = ((m * 2 ^ E : Nat) : Rat) / two1074 := by
  by_cases hm : m < P53
  · have hs : magScale (E * P52 + m) = E := by unfold magScale; omega
    have hg : magSig (E * P52 + m) = m := by unfold magSig; rw [hs]; omega
    unfold magVal; rw [hs, hg]
  · have hm' : m = P53 := by omega
    subst hm'
    have hs : magScale (E * P52 + P53) = E + 1 := by unfold magScale; omega
    have hg : magSig (E * P52 + P53) = P52 := by unfold magSig; rw [hs]; omega
    unfold magVal; rw [hs, hg]
    have : P52 * 2 ^ (E + 1) = P53 * 2 ^ E := by rw [Nat.pow_succ]; omega
    rw [this]

/-- The spacing of the floats around `q ≥ 0`: `2^E/2^1074`. -/
def spacing (q : Rat) : Rat := ((2 ^ eOf q : Nat) : Rat) / two1074

theorem spacing_pos (q : Rat) : 0 < spacing q :=
  Rare.C07.rat_div_pos (pow2_cast_pos _) two1074_pos

theorem q_eq_x_spacing (q : Rat) : q = xOf q * spacing q := by
  unfold xOf spacing yOf
  have h1 := two1074_ne
  have h2 : ((2 ^ eOf q : Nat) : Rat) ≠ 0 := Rat.ne_of_gt (pow2_cast_pos _)
  grind

/-- Rounding error of `roundMag`, absolute (half a spacing) and relative to the exact and to the rounded value. -/
theorem roundMag_err {q : Rat} (h : 0 ≤ q) (hf : rawMag q < InfMag) :
    magVal (roundMag q) - q ≤ spacing q / 2 ∧ q - magVal (roundMag q) ≤ spacing q / 2 ∧
    (0 < eOf q → spacing q / 2 ≤ q / ((P53 : Nat) : Rat) ∧ spacing q / 2 ≤ magVal (roundMag q) / ((P53 : Nat) : Rat)) ∧
    (eOf q = 0 → spacing q / 2 = etaF) := by
  have hrm : roundMag q = eOf q * P52 + mOf q := by rw [roundMag_eq]; unfold rawMag at hf ⊢; omega
  have hcond : (eOf q = 0 ∧ mOf q ≤ P53) ∨ (P52 ≤ mOf q ∧ mOf q ≤ P53) := by
    by_cases hE : eOf q = 0
    · exact Or.inl ⟨hE, mOf_le_zero h hE⟩
    · exact Or.inr (mOf_bounds_pos h (by omega))
  have hw := spacing_pos q
  have hv : magVal (roundMag q) = ((mOf q : Nat) : Rat) * spacing q := by
    rw [hrm, magVal_raw _ _ hcond, Rat.natCast_mul]
    unfold spacing
    have h1 := two1074_ne
    grind
  have hq := q_eq_x_spacing q
  have hm : ((mOf q : Nat) : Rat) = ((roundNE (xOf q) : Int) : Rat) := by
    have := mOf_cast h
    rw [← this]; rfl
  obtain ⟨r1, r2⟩ := roundNE_err (xOf q)
  rw [← hm] at r1 r2
  have e1 : (((mOf q : Nat) : Rat) - xOf q) * spacing q ≤ (1 / 2) * spacing q :=
    Rat.mul_le_mul_of_nonneg_right (by grind) (Rat.le_of_lt hw)
  have e2 : (xOf q - ((mOf q : Nat) : Rat)) * spacing q ≤ (1 / 2) * spacing q :=
    Rat.mul_le_mul_of_nonneg_right (by grind) (Rat.le_of_lt hw)
  refine ⟨by grind, by grind, ?_, ?_⟩
  · intro hE
    obtain ⟨b1, _⟩ := xOf_bounds h hE
    obtain ⟨c1, _⟩ := mOf_bounds_pos h hE
    have c1' : ((P52 : Nat) : Rat) ≤ ((mOf q : Nat) : Rat) := Rat.natCast_le_natCast.mpr c1
    have f1 : ((P52 : Nat) : Rat) * spacing q ≤ xOf q * spacing q :=
      Rat.mul_le_mul_of_nonneg_right b1 (Rat.le_of_lt hw)
    have f2 : ((P52 : Nat) : Rat) * spacing q ≤ ((mOf q : Nat) : Rat) * spacing q :=
      Rat.mul_le_mul_of_nonneg_right c1' (Rat.le_of_lt hw)
    have hp : (0 : Rat) < ((P53 : Nat) : Rat) := natCast_pos_of_pos (by decide)
    have hP : ((P53 : Nat) : Rat) = 2 * ((P52 : Nat) : Rat) := by
      rw [show (P53 : Nat) = 2 * P52 by decide, Rat.natCast_mul]; rfl
    constructor
    · rw [rat_le_div_iff hp]; grind
    · rw [rat_le_div_iff hp]; grind
  · intro hE
    unfold spacing etaF
    rw [hE]
    have h1 := two1074_ne
    simp only [Nat.pow_zero]
    grind

theorem absRat_nonneg (q : Rat) : 0 ≤ absRat q := by unfold absRat; split <;> grind

/-- Half a spacing is at most `a·2^-53 + 2^-1075`, for the exact and for the rounded value. -/
theorem roundMag_err' {a : Rat} (h : 0 ≤ a) (hf : rawMag a < InfMag) :
    let v := magVal (roundMag a)
    (v - a ≤ a / ((P53 : Nat) : Rat) + etaF ∧ a - v ≤ a / ((P53 : Nat) : Rat) + etaF) ∧
    (v - a ≤ v / ((P53 : Nat) : Rat) + etaF ∧ a - v ≤ v / ((P53 : Nat) : Rat) + etaF) := by
  intro v
  obtain ⟨e1, e2, e3, e4⟩ := roundMag_err h hf
  have hp : (0 : Rat) < ((P53 : Nat) : Rat) := natCast_pos_of_pos (by decide)
  have hv0 : 0 ≤ v := magVal_nonneg _
  have ha' : 0 ≤ a / ((P53 : Nat) : Rat) := by rw [rat_le_div_iff hp]; grind
  have hv' : 0 ≤ v / ((P53 : Nat) : Rat) := by rw [rat_le_div_iff hp]; grind
  have he := etaF_pos
  by_cases hE : eOf a = 0
  · have := e4 hE
    exact ⟨⟨by grind, by grind⟩, ⟨by grind, by grind⟩⟩
  · obtain ⟨g1, g2⟩ := e3 (by omega)
    exact ⟨⟨by grind, by grind⟩, ⟨by grind, by grind⟩⟩

/-- **Standard model of floating-point arithmetic** for the software binary64: every correctly rounded result that
is finite differs from the exact value `q` by at most `|q|·2^-53 + 2^-1075`, and by at most `|fl q|·2^-53 + 2^-1075`. -/
theorem ofRatS_err (s : Bool) (q : Rat) (hf : (ofRatS s q).isFinite = true) :
    let r := (ofRatS s q).toRat
    (r - q ≤ absRat q / ((P53 : Nat) : Rat) + etaF ∧ q - r ≤ absRat q / ((P53 : Nat) : Rat) + etaF) ∧
    (r - q ≤ absRat r / ((P53 : Nat) : Rat) + etaF ∧ q - r ≤ absRat r / ((P53 : Nat) : Rat) + etaF) := by
  intro r
  have hp : (0 : Rat) < ((P53 : Nat) : Rat) := natCast_pos_of_pos (by decide)
  have he := etaF_pos
  by_cases h0 : q = 0
  · have hr : r = 0 := by
      show (ofRatS s q).toRat = 0
      unfold ofRatS; rw [if_pos h0]
      exact toRat_eq_zero_of_mag (by unfold zero; rw [mag_ofSM s (by omega)])
    rw [hr, h0]
    have : absRat 0 / ((P53 : Nat) : Rat) = 0 := by unfold absRat; simp [Rat.div_def]
    rw [this]
    exact ⟨⟨by grind, by grind⟩, ⟨by grind, by grind⟩⟩
  · have hdef : ofRatS s q = ofSM (decide (q < 0)) (roundMag (absRat q)) := by unfold ofRatS; rw [if_neg h0]
    have hlt := roundMag_lt_P63 (absRat q)
    have hmag : (ofRatS s q).mag = roundMag (absRat q) := by rw [hdef, mag_ofSM _ hlt]
    have hsg : (ofRatS s q).sign = decide (q < 0) := by rw [hdef, sign_ofSM _ hlt]
    have hfin : roundMag (absRat q) < InfMag := by rw [← hmag]; exact (isFinite_iff _).mp hf
    have hraw : rawMag (absRat q) < InfMag := by rw [roundMag_eq] at hfin; omega
    have ha := absRat_nonneg q
    obtain ⟨⟨k1, k2⟩, ⟨k3, k4⟩⟩ := roundMag_err' ha hraw
    have hav : absRat r = magVal (roundMag (absRat q)) := by
      show absRat (ofRatS s q).toRat = _
      rw [absRat_toRat, hmag]
    by_cases hn : q < 0
    · have hr : r = -(magVal (roundMag (absRat q))) := by
        show (ofRatS s q).toRat = _
        rw [toRat_of_neg (by rw [hsg]; simp [hn]), hmag]
      have hq : absRat q = -q := by unfold absRat; rw [if_pos hn]
      rw [hav]
      rw [hq] at k1 k2 k3 k4 ⊢
      rw [hr]
      exact ⟨⟨by grind, by grind⟩, ⟨by grind, by grind⟩⟩
    · have hr : r = magVal (roundMag (absRat q)) := by
        show (ofRatS s q).toRat = _
        rw [toRat_of_pos (by rw [hsg]; simp [hn]), hmag]
      have hq : absRat q = q := by unfold absRat; rw [if_neg hn]
      rw [hav]
      rw [hq] at k1 k2 k3 k4 ⊢
      rw [hr]
      exact ⟨⟨by grind, by grind⟩, ⟨by grind, by grind⟩⟩

end Rare.F64

namespace Rare.C07
open Rare Rare.F64

theorem sub_div_rat (a b k : Rat) : (a - b) / k = a / k - b / k := by
  rw [Rat.div_def, Rat.div_def, Rat.div_def]; grind

/-- `2^-53`, the unit roundoff. -/
def uF : Rat := 1 / ((P53 : Nat) : Rat)

theorem div_P53 (a : Rat) : a / ((P53 : Nat) : Rat) = a * uF := by
  unfold uF; rw [Rat.div_def, Rat.div_def, Rat.one_mul]

/-- **Error of one mean update** `mean += (val - oldMean) / float64(samples)` against the exact update of the same state,
when the three intermediate results are finite: the three roundings contribute at most
`|mean'|·u + η`, `|d/k|·u + η` and `(|x − m|·u + η)/k` (`u = 2^-53`, `η = 2^-1075`, `d` the computed difference). -/
theorem mean_step_err (m x : F64) (k : Nat) (hk : 1 ≤ k) (hk2 : k ≤ P53)
    (hm : m.isFinite = true) (hx : x.isFinite = true)
    (hd : (F64.sub x m).isFinite = true)
    (he : (F64.div (F64.sub x m) (F64.ofInt (k : Int))).isFinite = true)
    (hm' : (F64.add m (F64.div (F64.sub x m) (F64.ofInt (k : Int)))).isFinite = true) :
    let d := F64.sub x m
    let m' := F64.add m (F64.div d (F64.ofInt (k : Int)))
    let exact := m.toRat + (x.toRat - m.toRat) / (k : Rat)
    let B := (absRat m'.toRat * uF + etaF) + (absRat (d.toRat / (k : Rat)) * uF + etaF) +
      (absRat (x.toRat - m.toRat) * uF + etaF) / (k : Rat)
    m'.toRat - exact ≤ B ∧ exact - m'.toRat ≤ B := by
  intro d m' exact B
  obtain ⟨kf, kv, kz⟩ := ofInt_count k hk hk2
  have hk0 : (0 : Rat) < (k : Rat) := natCast_pos_of_pos (by omega)
  have hdd : d = ofRatS (x.sign && !m.sign) (x.toRat - m.toRat) := sub_finite hx hm
  have hee : F64.div d (F64.ofInt (k : Int)) = ofRatS (d.sign != (F64.ofInt (k : Int)).sign) (d.toRat / (k : Rat)) := by
    rw [div_finite hd kf kz, kv]
  have hmm : m' = ofRatS (m.sign && (F64.div d (F64.ofInt (k : Int))).sign) (m.toRat + (F64.div d (F64.ofInt (k : Int))).toRat) :=
    add_finite hm he
  have E1 := (ofRatS_err (x.sign && !m.sign) (x.toRat - m.toRat) (by rw [← hdd]; exact hd)).1
  rw [← hdd, div_P53] at E1
  have E2 := (ofRatS_err (d.sign != (F64.ofInt (k : Int)).sign) (d.toRat / (k : Rat)) (by rw [← hee]; exact he)).1
  rw [← hee, div_P53] at E2
  have E3 := (ofRatS_err (m.sign && (F64.div d (F64.ofInt (k : Int))).sign)
    (m.toRat + (F64.div d (F64.ofInt (k : Int))).toRat) (by rw [← hmm]; exact hm')).2
  rw [← hmm, div_P53] at E3
  have F1 := rat_div_le_div_right hk0 E1.1
  have F2 := rat_div_le_div_right hk0 E1.2
  rw [sub_div_rat] at F1 F2
  have hex : exact = m.toRat + (x.toRat / (k : Rat) - m.toRat / (k : Rat)) := by
    show m.toRat + (x.toRat - m.toRat) / (k : Rat) = _
    rw [sub_div_rat]
  rw [sub_div_rat] at F1 F2
  constructor
  · show m'.toRat - exact ≤ B
    rw [hex]; grind
  · show exact - m'.toRat ≤ B
    rw [hex]; grind

/-- Dividing a finite float by a sample count (1 … 2^53) gives a finite float. -/
theorem div_count_finite (d : F64) (k : Nat) (hk : 1 ≤ k) (hk2 : k ≤ P53) (hd : d.isFinite = true) :
    (F64.div d (F64.ofInt (k : Int))).isFinite = true := by
  obtain ⟨kf, kv, kz⟩ := ofInt_count k hk hk2
  have hk0 : (0 : Rat) < (k : Rat) := natCast_pos_of_pos (by omega)
  have hk1 : (1 : Rat) ≤ (k : Rat) := by
    have := Rat.natCast_le_natCast.mpr hk
    exact this
  rw [div_finite hd kf kz, kv]
  rcases Rat.le_total (a := 0) (b := d.toRat) with h | h
  · have h1 : d.toRat * 1 ≤ d.toRat * (k : Rat) := Rat.mul_le_mul_of_nonneg_left hk1 h
    exact (round_between_rep _ rep_zero (rep_self d hd) (div_nonneg' h hk0)
      (by rw [rat_div_le_iff hk0]; grind)).1
  · have h1 : (-d.toRat) * 1 ≤ (-d.toRat) * (k : Rat) := Rat.mul_le_mul_of_nonneg_left hk1 (by grind)
    exact (round_between_rep _ (rep_self d hd) rep_zero
      (by rw [rat_le_div_iff hk0]; grind) (div_nonpos' h hk0)).1

/-- One `Samplef` call on a state with `k−1 ≥ 1` samples, finite mean and sample of magnitude at most `2^1021`:
all three intermediate floats are finite and the new mean obeys the error bound of `mean_step_err`. -/
theorem mean_step_error_full (keep : Bool) (s : NumF) (x : F64) (hk : 1 ≤ s.samples) (hn : s.samples + 1 ≤ P53)
    (hm : s.mean.isFinite = true) (hx : x.isFinite = true)
    (bm : -bigB ≤ s.mean.toRat ∧ s.mean.toRat ≤ bigB) (bx : -bigB ≤ x.toRat ∧ x.toRat ≤ bigB) :
    let s' := NumF.samplef keep s x
    let k : Rat := ((s.samples + 1 : Nat) : Rat)
    let d := F64.sub x s.mean
    let exact := s.mean.toRat + (x.toRat - s.mean.toRat) / k
    let B := (absRat s'.mean.toRat * uF + etaF) + (absRat (d.toRat / k) * uF + etaF) +
      (absRat (x.toRat - s.mean.toRat) * uF + etaF) / k
    s'.mean.isFinite = true ∧ d.isFinite = true ∧ s'.mean.toRat - exact ≤ B ∧ exact - s'.mean.toRat ≤ B := by
  intro s' k d exact B
  obtain ⟨fd, fm, _, _⟩ := mean_step_between s.mean x (s.samples + 1) (by omega) hn hm hx bm bx
  have fe := div_count_finite (F64.sub x s.mean) (s.samples + 1) (by omega) hn fd
  have hs' : s'.mean = F64.add s.mean (F64.div (F64.sub x s.mean) (F64.ofInt ((s.samples + 1 : Nat) : Int))) :=
    samplefF_mean keep s x
  obtain ⟨e1, e2⟩ := mean_step_err s.mean x (s.samples + 1) (by omega) hn hm hx fd fe fm
  refine ⟨by rw [hs']; exact fm, fd, ?_, ?_⟩
  · show s'.mean.toRat - exact ≤ B
    rw [show B = (absRat s'.mean.toRat * uF + etaF) + (absRat (d.toRat / k) * uF + etaF) +
      (absRat (x.toRat - s.mean.toRat) * uF + etaF) / k from rfl, hs']
    exact e1
  · show exact - s'.mean.toRat ≤ B
    rw [show B = (absRat s'.mean.toRat * uF + etaF) + (absRat (d.toRat / k) * uF + etaF) +
      (absRat (x.toRat - s.mean.toRat) * uF + etaF) / k from rfl, hs']
    exact e2

end Rare.C07
