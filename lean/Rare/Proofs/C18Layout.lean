import Rare.Model.C18
/-!
C18: layout-level definitions and lemmas – what a token list carries, append-compatibility of
formatting, what a bucket layout depends on.
-/
namespace Rare.C18

/-- One letter per field-bearing token, in layout order: `Y` four-digit year, `y` two-digit year,
`M` month, `D` day of month, `j` day of year, `h` hour (24 h), `H` hour (12 h), `p` AM/PM, `m` minute, `s` second,
`f` fractional second, `z` numeric zone offset, `a` zone abbreviation, `w` weekday. -/
def stdLetter : Std → Char
  | .longYear => 'Y' | .year => 'y'
  | .longMonth | .month | .numMonth | .zeroMonth => 'M'
  | .day | .underDay | .zeroDay => 'D'
  | .underYearDay | .zeroYearDay => 'j'
  | .hour => 'h' | .hour12 | .zeroHour12 => 'H' | .pm | .pmLower => 'p'
  | .minute | .zeroMinute => 'm'
  | .second | .zeroSecond => 's'
  | .frac0 _ _ | .frac9 _ _ => 'f'
  | .isoTZ _ | .numTZ _ => 'z'
  | .tz => 'a'
  | .longWeekDay | .weekDay => 'w'

def carries (ts : List Tok) : List Char :=
  ts.filterMap fun t => match t with
    | .std s => some (stdLetter s)
    | .lit _ => none

/-- The layout holds a full date, a time of day to the minute at least, and a numeric offset. -/
def holdsInstant (ts : List Tok) : Bool :=
  let c := carries ts
  (c.contains 'Y' || c.contains 'y') && c.contains 'M' && c.contains 'D' && c.contains 'h' && c.contains 'm' && c.contains 'z'

/-- The precision of the time of day a layout carries. -/
def precOf (ts : List Tok) : Prec :=
  let c := carries ts
  if !(c.contains 'Y' || c.contains 'y') then .year
  else if !c.contains 'M' then .year
  else if !c.contains 'D' then .month
  else if !c.contains 'h' then .day
  else if !c.contains 'm' then .hour
  else if !c.contains 's' then .minute
  else if !c.contains 'f' then .second
  else .nano

theorem formatToks_append (a b : List Tok) (t : TimeV) : formatToks (a ++ b) t = formatToks a t ++ formatToks b t := by
  simp [formatToks]

/-- Fields a token reads (for the bucket tokens: only wall-clock fields). -/
def stdPrec : Std → Option Prec
  | .longYear | .year => some .year
  | .longMonth | .month | .numMonth | .zeroMonth => some .month
  | .day | .underDay | .zeroDay => some .day
  | .hour | .hour12 | .zeroHour12 | .pm | .pmLower => some .hour
  | .minute | .zeroMinute => some .minute
  | .second | .zeroSecond => some .second
  | .frac0 _ _ | .frac9 _ _ => some .nano
  | _ => none

def Prec.rank : Prec → Nat
  | .year => 0 | .month => 1 | .day => 2 | .hour => 3 | .minute => 4 | .second => 5 | .nano => 6

/-- Every token of the list reads wall-clock fields of precision `p` or coarser only. -/
def withinPrec (p : Prec) (ts : List Tok) : Bool :=
  ts.all fun t => match t with
    | .lit _ => true
    | .std s => match stdPrec s with
      | some q => decide (q.rank ≤ p.rank)
      | none => false

def TimeV.trunc (p : Prec) (t : TimeV) : TimeV := { t with dt := truncTo p t.dt }

theorem formatStd_trunc (p : Prec) (s : Std) (q : Prec) (hs : stdPrec s = some q) (hq : q.rank ≤ p.rank) (t : TimeV) :
    formatStd (t.trunc p) s = formatStd t s := by
  cases s <;> simp only [stdPrec, Option.some.injEq, reduceCtorEq] at hs <;> subst hs <;>
    cases p <;> simp only [Prec.rank] at hq <;> first | omega | rfl

/-- Formatting with a layout of precision `p` sees only the truncation of the wall clock to `p`. -/
theorem formatToks_trunc (p : Prec) (ts : List Tok) (h : withinPrec p ts = true) (t : TimeV) :
    formatToks ts (t.trunc p) = formatToks ts t := by
  induction ts with
  | nil => rfl
  | cons a r ih =>
    simp only [withinPrec, List.all_cons, Bool.and_eq_true] at h
    have ihr := ih (by simpa [withinPrec] using h.2)
    simp only [formatToks, List.flatMap_cons] at ihr ⊢
    rw [ihr]
    congr 1
    cases a with
    | lit b => rfl
    | std s =>
      simp only [formatTok]
      cases hq : stdPrec s with
      | none => simp [hq] at h
      | some q =>
        simp only [hq, decide_eq_true_eq] at h
        exact formatStd_trunc p s q hq h.1 t

end Rare.C18
