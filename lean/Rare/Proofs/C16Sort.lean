import Rare.Model.C16
/-! C16: `sort.Strings` model – sorted, a permutation, and the same for every iteration order. -/
namespace Rare.C16

theorem bytesLe_total : ∀ (a b : Bytes), bytesLe a b = true ∨ bytesLe b a = true := by
  intro a
  induction a with
  | nil => intro b; simp [bytesLe]
  | cons x xs ih =>
    intro b
    cases b with
    | nil => simp [bytesLe]
    | cons y ys =>
      simp only [bytesLe, Bool.or_eq_true, decide_eq_true_eq, Bool.and_eq_true, beq_iff_eq]
      rcases Nat.lt_trichotomy x.toNat y.toNat with h | h | h
      · exact Or.inl (Or.inl (UInt8.lt_iff_toNat_lt.mpr h))
      · have e : x = y := UInt8.toNat_inj.mp h
        subst e
        rcases ih ys with h' | h'
        · exact Or.inl (Or.inr ⟨rfl, h'⟩)
        · exact Or.inr (Or.inr ⟨rfl, h'⟩)
      · exact Or.inr (Or.inl (UInt8.lt_iff_toNat_lt.mpr h))

theorem bytesLe_antisymm : ∀ (a b : Bytes), bytesLe a b = true → bytesLe b a = true → a = b := by
  intro a
  induction a with
  | nil => intro b h1 h2; cases b with
    | nil => rfl
    | cons y ys => simp [bytesLe] at h2
  | cons x xs ih =>
    intro b h1 h2
    cases b with
    | nil => simp [bytesLe] at h1
    | cons y ys =>
      simp only [bytesLe, Bool.or_eq_true, decide_eq_true_eq, Bool.and_eq_true, beq_iff_eq] at h1 h2
      rcases h1 with h1 | ⟨e, h1⟩
      · rcases h2 with h2 | ⟨e2, _⟩
        · have := UInt8.lt_iff_toNat_lt.mp h1; have := UInt8.lt_iff_toNat_lt.mp h2; omega
        · subst e2; have := UInt8.lt_iff_toNat_lt.mp h1; omega
      · subst e
        rcases h2 with h2 | ⟨_, h2⟩
        · have := UInt8.lt_iff_toNat_lt.mp h2; omega
        · rw [ih ys h1 h2]

theorem bytesLe_trans : ∀ (a b c : Bytes), bytesLe a b = true → bytesLe b c = true → bytesLe a c = true := by
  intro a
  induction a with
  | nil => intro b c _ _; simp [bytesLe]
  | cons x xs ih =>
    intro b c h1 h2
    cases b with
    | nil => simp [bytesLe] at h1
    | cons y ys =>
      cases c with
      | nil => simp [bytesLe] at h2
      | cons z zs =>
        simp only [bytesLe, Bool.or_eq_true, decide_eq_true_eq, Bool.and_eq_true, beq_iff_eq] at h1 h2 ⊢
        rcases h1 with h1 | ⟨e1, h1⟩
        · rcases h2 with h2 | ⟨e2, h2⟩
          · left
            have := UInt8.lt_iff_toNat_lt.mp h1; have := UInt8.lt_iff_toNat_lt.mp h2
            exact UInt8.lt_iff_toNat_lt.mpr (by omega)
          · subst e2; exact Or.inl h1
        · subst e1
          rcases h2 with h2 | ⟨e2, h2⟩
          · exact Or.inl h2
          · exact Or.inr ⟨e2, ih ys zs h1 h2⟩

theorem insertSorted_perm (x : Bytes) : ∀ l : List Bytes, (insertSorted x l).Perm (x :: l) := by
  intro l
  induction l with
  | nil => simp [insertSorted]
  | cons y ys ih =>
    unfold insertSorted
    by_cases h : bytesLe x y = true
    · simp [h]
    · simp only [h, Bool.false_eq_true, if_false]
      exact (List.Perm.cons y ih).trans (List.Perm.swap x y ys)

theorem insertSorted_sorted (x : Bytes) : ∀ l : List Bytes,
    l.Pairwise (fun a b => bytesLe a b = true) → (insertSorted x l).Pairwise (fun a b => bytesLe a b = true) := by
  intro l
  induction l with
  | nil => intro _; simp [insertSorted]
  | cons y ys ih =>
    intro hp
    rw [List.pairwise_cons] at hp
    unfold insertSorted
    by_cases h : bytesLe x y = true
    · simp only [h, if_true]
      rw [List.pairwise_cons]
      refine ⟨?_, List.pairwise_cons.mpr hp⟩
      intro b hb
      rcases List.mem_cons.mp hb with e | hb
      · subst e; exact h
      · exact bytesLe_trans _ _ _ h (hp.1 b hb)
    · simp only [h, Bool.false_eq_true, if_false]
      rw [List.pairwise_cons]
      refine ⟨?_, ih hp.2⟩
      intro b hb
      have hb' := (insertSorted_perm x ys).mem_iff.mp hb
      rcases List.mem_cons.mp hb' with e | hb'
      · subst e
        rcases bytesLe_total b y with h' | h'
        · exact absurd h' h
        · exact h'
      · exact hp.1 b hb'

theorem sortNames_perm (l : List Bytes) : (sortNames l).Perm l := by
  induction l with
  | nil => simp [sortNames]
  | cons x xs ih =>
    simp only [sortNames, List.foldr_cons] at ih ⊢
    exact (insertSorted_perm x _).trans (List.Perm.cons x ih)

theorem sortNames_sorted (l : List Bytes) : (sortNames l).Pairwise (fun a b => bytesLe a b = true) := by
  induction l with
  | nil => simp [sortNames]
  | cons x xs ih =>
    simp only [sortNames, List.foldr_cons] at ih ⊢
    exact insertSorted_sorted x _ ih

/-- The result of `sort.Strings` does not depend on the order the names were collected in. -/
theorem sortNames_eq_of_perm (l₁ l₂ : List Bytes) (h : l₁.Perm l₂) : sortNames l₁ = sortNames l₂ := by
  apply List.Perm.eq_of_pairwise (le := fun a b => bytesLe a b = true)
  · intro a b _ _ h1 h2; exact bytesLe_antisymm a b h1 h2
  · exact sortNames_sorted l₁
  · exact sortNames_sorted l₂
  · exact (sortNames_perm l₁).trans (h.trans (sortNames_perm l₂).symm)

/-! ### map lookup does not depend on the iteration order -/

theorem find_perm {β : Type} (name : Bytes) : ∀ {o₁ o₂ : List (Bytes × β)}, o₁.Perm o₂ →
    (o₁.map (·.1)).Nodup →
    o₁.find? (fun p => p.1 == name) = o₂.find? (fun p => p.1 == name) := by
  intro o₁ o₂ h
  induction h with
  | nil => intro _; rfl
  | cons x _ ih =>
    intro hn
    simp only [List.map_cons, List.nodup_cons] at hn
    simp only [List.find?_cons]
    rw [ih hn.2]
  | swap x y l =>
    intro hn
    simp only [List.map_cons, List.nodup_cons, List.mem_cons, not_or] at hn
    simp only [List.find?_cons]
    by_cases hx : (x.1 == name) = true
    · by_cases hy : (y.1 == name) = true
      · exfalso
        have e1 : x.1 = name := by simpa using hx
        have e2 : y.1 = name := by simpa using hy
        exact hn.1.1 (e2.trans e1.symm)
      · simp [hx, hy]
    · simp [hx]
  | trans h1 _ ih1 ih2 =>
    intro hn
    rw [ih1 hn]
    apply ih2
    exact (h1.map (·.1)).nodup_iff.mp hn

theorem mapGet_perm {β : Type} (d : β) (o₁ o₂ : List (Bytes × β)) (h : o₁.Perm o₂)
    (hn : (o₁.map (·.1)).Nodup) : mapGet d o₁ = mapGet d o₂ := by
  funext name
  simp [mapGet, find_perm name h hn]

theorem mapGet_mem {β : Type} (d : β) : ∀ (o : List (Bytes × β)) (p : Bytes × β),
    (o.map (·.1)).Nodup → p ∈ o → mapGet d o p.1 = p.2 := by
  intro o
  induction o with
  | nil => intro p _ h; cases h
  | cons q o ih =>
    intro p hn hp
    simp only [List.map_cons, List.nodup_cons] at hn
    rcases List.mem_cons.mp hp with e | hp
    · subst e; simp [mapGet]
    · have hne : ¬ (q.1 == p.1) = true := by
        intro e
        have e' : q.1 = p.1 := by simpa using e
        exact hn.1 (e' ▸ List.mem_map_of_mem (f := (·.1)) hp)
      have := ih p hn.2 hp
      simp only [mapGet, List.find?_cons, hne] at this ⊢
      exact this

end Rare.C16
