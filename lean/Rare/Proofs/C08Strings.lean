import Rare.Proofs.C08Arith
import Rare.Proofs.C11
import Rare.Model.Expr.Funcs.Strings
/-!
C08 for the `Strings` family: len, like, prefix, suffix, substr, select, the join family
(`tab`, `$`, `@`), csv and hi are panic-free on safe arguments.  For `substr` this is the
statement that the slice expression `s[left:right]` can never be out of bounds (F4), via
`substrVal_spec`.  `upper` / `lower` (non-ASCII input) and `bytesize` / `bytesizesi` /
`downscale` (values that need float rounding) can answer `unmodelled` and are outside.
-/
namespace Rare.Expr.Funcs.Strings
open Rare.Expr

theorem kfLen_safe : SafeBuilder kfLen := by
  intro args h
  show SafeResult _
  unfold kfLen
  split
  · rename_i a
    exact SafeResult.ok (Safe.bind' (h a (by simp)) fun v => Safe.pure _)
  · exact SafeResult.errArgCount

theorem testHelper_safe (test : Bytes → Bytes → Bool) : SafeBuilder (testHelper test) := by
  intro args h
  show SafeResult _
  unfold testHelper
  split
  · rename_i a0 a1
    exact SafeResult.ok (Safe.bind' (h a0 (by simp)) fun v => Safe.bind' (h a1 (by simp)) fun c => Safe.pure _)
  · exact SafeResult.errArgCount

theorem liftExcept_safe {r : Except String Bytes} (h : ∃ v, r = .ok v) : Safe (liftExcept r) := by
  obtain ⟨v, e⟩ := h; subst e; exact .ret v

/-- The slice of `kfSubstr` is always in bounds. -/
theorem kfSubstr_safe : SafeBuilder kfSubstr := by
  intro args h
  show SafeResult _
  unfold kfSubstr
  split
  · rename_i a0 a1 a2
    apply SafeResult.ok
    apply Safe.bind' (h a0 (by simp))
    intro s
    split
    · exact Safe.pure _
    · split
      · exact Safe.pure _
      · rename_i hlen
        apply Safe.bind' (h a1 (by simp))
        intro ls
        apply Safe.bind' (h a2 (by simp))
        intro ns
        cases h1 : atoi ls with
        | none => exact Safe.pure _
        | some left =>
          cases h2 : atoi ns with
          | none => exact Safe.pure _
          | some len =>
            exact liftExcept_safe ⟨_, Rare.C11.substrVal_spec s left len (by omega)
              (Rare.C11.atoi_inInt64 h1) (Rare.C11.atoi_inInt64 h2)⟩
  · exact SafeResult.errArgCount

theorem kfSelect_safe : SafeBuilder kfSelect := by
  intro args h
  show SafeResult _
  unfold kfSelect
  split
  · rename_i a0 a1
    apply SafeResult.ok
    apply Safe.bind' (h a0 (by simp))
    intro s
    apply Safe.bind' (h a1 (by simp))
    intro i
    cases atoi i <;> exact Safe.pure _
  · exact SafeResult.errArgCount

theorem joinRun_safe (delim : Bytes) : ∀ l : List Stage, (∀ a ∈ l, Safe a) → Safe (joinRun delim l)
  | [], _ => .ret _
  | a :: rest, h => by
    unfold joinRun
    exact Safe.bind' (h a (by simp)) fun v =>
      Safe.bind' (joinRun_safe delim rest fun x hx => h x (by simp [hx])) fun r => Safe.pure _

theorem kfJoin_safe (delim : Bytes) : SafeBuilder (kfJoin delim) := by
  intro args h
  show SafeResult _
  unfold kfJoin
  split
  · exact SafeResult.ok (Safe.lit _)
  · rename_i a
    exact SafeResult.ok (h a (by simp))
  · rename_i a rest _
    exact SafeResult.ok (Safe.bind' (h a (by simp)) fun v =>
      Safe.bind' (joinRun_safe delim rest fun x hx => h x (by simp [hx])) fun r => Safe.pure _)

theorem csvRun_safe : ∀ (l : List Stage) (acc : List Bytes), (∀ a ∈ l, Safe a) → Safe (csvRun l acc)
  | [], _, _ => .ret _
  | a :: rest, acc, h => by
    unfold csvRun
    exact Safe.bind' (h a (by simp)) fun v => csvRun_safe rest _ fun x hx => h x (by simp [hx])

theorem kfCsv_safe : SafeBuilder kfCsv := by
  intro args h
  show SafeResult _
  unfold kfCsv
  split
  · exact SafeResult.ok (Safe.lit _)
  · exact SafeResult.ok (csvRun_safe _ _ h)

theorem kfHumanizeInt_safe : SafeBuilder kfHumanizeInt := by
  intro args h
  show SafeResult _
  unfold kfHumanizeInt
  split
  · rename_i a
    apply SafeResult.ok
    apply Safe.bind' (h a (by simp))
    intro v
    cases atoi v <;> exact Safe.pure _
  · exact SafeResult.errArgCount

/-- Builders that can answer `unmodelled`: Unicode case mapping; unit scaling that needs float rounding. -/
def stringsUnmodelled : List String := ["upper", "lower", "bytesize", "bytesizesi", "downscale"]

theorem strings_safe : ∀ p ∈ table, p.1 ∉ stringsUnmodelled → SafeBuilder p.2 := by
  intro p hp hn
  simp only [table, List.mem_cons, List.not_mem_nil, or_false] at hp
  rcases hp with e | e | e | e | e | e | e | e | e | e | e | e | e | e | e | e <;>
    subst e <;> first
      | exact kfLen_safe
      | exact testHelper_safe _
      | exact kfSubstr_safe
      | exact kfSelect_safe
      | exact kfJoin_safe _
      | exact kfCsv_safe
      | exact kfHumanizeInt_safe
      | exact absurd (by decide) hn

end Rare.Expr.Funcs.Strings
