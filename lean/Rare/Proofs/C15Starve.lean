import Rare.Proofs.C15Multi
/-!
C15 – no follower starves another (`TailFilesToChan` has no semaphore: `--readers` does not apply to followed
files): a waiting follower can always be started, and a running follower that has a batch to send gets it to
the consumer by steps of the consumer and itself alone – whatever the other followers are doing (blocked in
`Read` for ever, for instance).
-/
namespace Rare.C15.Multi

/-- the consumer receives everything that is buffered -/
theorem drain_path (fs : List Follower) (B : Nat) : ∀ (n : Nat) (s : MSt), s.q.length = n → s.consDone = false →
    ∃ s', LPath fs B s (List.replicate n .recv) s' ∧ s'.q = [] ∧ s'.recvd = s.recvd ++ s.q ∧ s'.ph = s.ph ∧
      s'.closed = s.closed ∧ s'.consDone = false := by
  intro n
  induction n with
  | zero =>
    intro s hn hc
    have : s.q = [] := List.eq_nil_of_length_eq_zero hn
    exact ⟨s, .nil s, this, by rw [this]; simp, rfl, rfl, hc⟩
  | succ n ih =>
    intro s hn hc
    cases hq : s.q with
    | nil => rw [hq] at hn; cases hn
    | cons x rest =>
      have happ : apply fs B s .recv = some { s with q := rest, recvd := s.recvd ++ [x] } := by
        simp [apply, hq, hc]
      obtain ⟨s', hp, h1, h2, h3, h4, h5⟩ := ih { s with q := rest, recvd := s.recvd ++ [x] }
        (by rw [hq] at hn; simpa using hn) hc
      refine ⟨s', ?_, h1, ?_, h3, h4, h5⟩
      · show LPath fs B s (.recv :: List.replicate n .recv) s'
        exact .cons happ hp
      · rw [h2]; simp

theorem running_consumer_open {fs : List Follower} {s : MSt} (h : Inv fs s) {i k : Nat}
    (hp : s.ph[i]? = some (.running k)) : s.closed = false ∧ s.consDone = false := by
  have hc := running_not_closed h hp
  refine ⟨hc, ?_⟩
  cases hd : s.consDone with
  | false => rfl
  | true => have := (h.consClosed hd).1; rw [hc] at this; cases this

/-- A running follower's next batch reaches the consumer by `recv`s of the consumer and ONE step of that
    follower; no other follower takes a step. -/
theorem batch_gets_through {fs : List Follower} {B : Nat} {s : MSt} (hr : Reach fs B s) (i k : Nat) (f : Follower)
    (b : Batcher.Batch Bytes) (hp : s.ph[i]? = some (.running k)) (hf : fs[i]? = some f)
    (hb : f.batches[k]? = some b) :
    ∃ s', LPath fs B s (List.replicate s.q.length .recv ++ [.handoff i]) s' ∧
      s'.recvd = s.hist ++ [(i, b)] ∧ s'.q = [] ∧ s'.ph = s.ph.set i (.running (k + 1)) := by
  obtain ⟨_, hcd⟩ := running_consumer_open (inv_reach hr) hp
  obtain ⟨s1, hpath, hq, hrecv, hph, _, hcd1⟩ := drain_path fs B s.q.length s rfl hcd
  have happ : apply fs B s1 (.handoff i) =
      some { s1 with ph := s1.ph.set i (.running (k + 1)), recvd := s1.recvd ++ [(i, b)] } := by
    simp [apply, hph, hp, hf, hb, hq, hcd1]
  refine ⟨_, hpath.append (.cons happ (.nil _)), ?_, hq, ?_⟩
  · simp [hrecv, MSt.hist]
  · simp [hph]

/-- A follower whose name has not been taken from `filenames` yet can be started in every state: nothing the
    other followers do (or fail to do) disables it. -/
theorem spawn_enabled (fs : List Follower) (B : Nat) (s : MSt) (i : Nat) (hp : s.ph[i]? = some .waiting) :
    apply fs B s (.spawn i) = some { s with ph := s.ph.set i (.running 0) } := by
  simp [apply, hp]

end Rare.C15.Multi
