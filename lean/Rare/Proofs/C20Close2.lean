import Rare.Proofs.C20Inv2
/-! C20 round 2: the state of the reference terminal after `Close()`, and the no-scroll special case. -/
namespace Rare.C20

/-- what a row shows after the screen scrolled by `k` more rows -/
theorem shifted_written (H r0 s k i : Nat) (rows : Nat → List Rune) (x : List Rune)
    (hold : rows (r0 + i - s) = x) (hs : s + k ≤ r0 + i) (hlt : r0 + i - s < H) :
    shiftN H k rows (r0 + i - (s + k)) = x := by
  simp only [shiftN]
  by_cases hk : k = 0
  · subst hk; simpa using hold
  · have h1 : r0 + i - (s + k) + k < H := by omega
    have e : r0 + i - (s + k) + k = r0 + i - s := by omega
    rw [e] at h1
    simp only [hk, if_false, e, h1, if_true]; exact hold

theorem shifted_other (H s k j : Nat) (rows rows0 : Nat → List Rune) (hj : j < H)
    (hold : ∀ j', j' < H → j' = j + k → rows j' = shiftN H s rows0 j') :
    shiftN H k rows j = shiftN H (s + k) rows0 j := by
  by_cases hk : k = 0
  · subst hk
    rw [shiftN_zero, hold j hj rfl]; rfl
  · have hsk : s + k ≠ 0 := by omega
    simp only [shiftN, hk, hsk, if_false]
    by_cases h1 : j + k < H
    · simp only [h1, if_true]
      rw [hold (j + k) h1 rfl]
      simp only [shiftN]
      by_cases hs0 : s = 0
      · subst hs0
        simp only [if_true, Nat.zero_add, h1]
      · have e1 : j + k + s = j + (s + k) := by omega
        simp only [hs0, if_false, e1]
    · have e2 : ¬ j + (s + k) < H := by omega
      simp only [h1, e2, if_false]

/-- `Close()` on a synchronised state: the cursor is parked on the row below the last line (the
screen scrolls one more row when that line was on the bottom row), visible; the rows still show the
latest texts of the lines that are on the screen. -/
theorem close_inv2 {W H r0 : Nat} {trim : Bool} {t0 : Scr} {hist : List (Nat × Bytes)} {w : TermWriter} {t : Scr}
    (inv : Inv2 W H r0 trim t0 hist w t) :
    let tf := t.feedBytes (w.close (cfg W trim)).2
    let sf := r0 + w.maxLine.toNat + 1 - (H - 1)
    tf.row + sf = r0 + w.maxLine.toNat + 1 ∧ tf.row < H ∧ tf.cursorVisible = true ∧ tf.ps = .ground ∧
    (∀ i txt, latest hist i = some txt → sf ≤ r0 + i → tf.rows (r0 + i - sf) = shown W trim txt) ∧
    (∀ j, j < H → (∀ i, latest hist i ≠ none → r0 + i ≠ j + sf) → tf.rows j = shiftN H sf t0.rows j) := by
  intro tf sf
  have htf : tf = _ := close_feed_scr inv
  have hc0 := inv.cur0
  have hcl := inv.curLe
  have hrow := inv.row
  have hrl := inv.rowlt
  have hsc : scrolled H r0 w.maxLine = r0 + w.maxLine.toNat - (H - 1) := rfl
  have hsf : sf = r0 + w.maxLine.toNat + 1 - (H - 1) := rfl
  have hsplit : sf = scrolled H r0 w.maxLine + (sf - scrolled H r0 w.maxLine) := by omega
  rw [htf]
  refine ⟨?_, ?_, rfl, inv.ps, ?_, ?_⟩
  · show r0 + w.maxLine.toNat + 1 - (r0 + w.maxLine.toNat + 1 - (H - 1)) + sf = _
    omega
  · show r0 + w.maxLine.toNat + 1 - (r0 + w.maxLine.toNat + 1 - (H - 1)) < H
    omega
  · intro i x hx hsi
    show shiftN H (sf - scrolled H r0 w.maxLine) t.rows (r0 + i - sf) = _
    obtain ⟨u, hu, hui⟩ := latest_mem hist i x hx
    have hiM := inv.maxGe u hu
    rw [hui] at hiM
    have hold := inv.written i x hx (by omega)
    have := shifted_written H r0 (scrolled H r0 w.maxLine) (sf - scrolled H r0 w.maxLine) i t.rows _ hold
      (by omega) (by omega)
    rw [← hsplit] at this
    exact this
  · intro j hj hfree
    show shiftN H (sf - scrolled H r0 w.maxLine) t.rows j = _
    have := shifted_other H (scrolled H r0 w.maxLine) (sf - scrolled H r0 w.maxLine) j t.rows t0.rows hj (by
      intro j' hj' hjj
      apply inv.other j' hj'
      intro i hi
      have := hfree i hi
      omega)
    rw [← hsplit] at this
    exact this

theorem close_maxLine (c : Cfg) (w : TermWriter) : (w.close c).1.maxLine = w.maxLine := by
  simp only [TermWriter.close, TermWriter.goTo]
  split
  · omega
  · rfl

/-- when every line fits below the start row, every update is reachable -/
theorem reachable_of_fits (H r0 : Nat) : ∀ (rest : List (Nat × Bytes)) (m : Nat), r0 + m < H →
    (∀ u ∈ rest, r0 + u.1 < H) → Reachable H r0 m rest := by
  intro rest
  induction rest with
  | nil => intro _ _ _; trivial
  | cons u rest ih =>
    intro m hm h
    have hu := h u (by simp)
    refine ⟨by omega, ih _ (by omega) (fun x hx => h x (by simp [hx]))⟩

end Rare.C20
