import Rare.Proofs.ExprSafe
import Rare.Proofs.C08Arith
import Rare.Model.Expr.Funcs.Format
/-!
C08 for `{format}`: the model of `fmt.Sprintf` on string operands (`Funcs/Format.lean`) never reaches one
of its explicit failure points – the operand index `a[argNum]` is always in range, and the loop over the
format always ends within its fuel (every iteration consumes at least the `%`) – for every format, every
operand list and every `unicode.IsPrint` oracle.  Hence `kfFormat` is a safe builder.
-/
namespace Rare.Expr.Funcs.Format
open Rare Rare.Expr

theorem flagLoop_len : ∀ (s : Bytes) (f : Fl), (flagLoop s f).2.length ≤ s.length := by
  intro s
  induction s with
  | nil => intro f; simp [flagLoop]
  | cons c r ih =>
    intro f
    unfold flagLoop
    split
    · exact Nat.le_succ_of_le (ih _)
    split
    · exact Nat.le_succ_of_le (ih _)
    split
    · exact Nat.le_succ_of_le (ih _)
    split
    · exact Nat.le_succ_of_le (ih _)
    split
    · exact Nat.le_succ_of_le (ih _)
    · exact Nat.le_refl _

theorem parsenumGo_len : ∀ (s : Bytes) (n : Nat) (b : Bool), (parsenumGo s n b).2.2.length ≤ s.length := by
  intro s
  induction s with
  | nil => intro n b; simp [parsenumGo]
  | cons c r ih =>
    intro n b
    unfold parsenumGo
    split
    · split
      · simp
      · exact Nat.le_succ_of_le (ih _ _)
    · exact Nat.le_refl _

theorem parsenum_len (s : Bytes) : (parsenum s).2.2.length ≤ s.length := parsenumGo_len s 0 false

theorem dropWhile_len {α : Type} (p : α → Bool) (l : List α) : (l.dropWhile p).length ≤ l.length := by
  induction l with
  | nil => simp
  | cons a r ih =>
    simp only [List.dropWhile]
    split
    · exact Nat.le_succ_of_le ih
    · exact Nat.le_refl _

theorem argNumber_len (argNum : Nat) (fmt : Bytes) (numArgs : Nat) (re good : Bool) :
    (argNumber argNum fmt numArgs re good).rest.length ≤ fmt.length := by
  unfold argNumber
  split
  · rename_i after
    simp only []
    split
    · simp
    · split
      · simp
      · rename_i x beyond htail
        have h1 := dropWhile_len (fun x => x != 93) after
        rw [htail] at h1
        simp only [List.length_cons] at h1 ⊢
        split
        · show beyond.length ≤ _; omega
        · split
          · show beyond.length ≤ _; omega
          · show beyond.length ≤ _; omega
  · exact Nat.le_refl _

theorem widthPart_len (a : List Bytes) (f : Fl) (out : Bytes) (n : ArgNum) :
    (widthPart a f out n).rest.length ≤ n.rest.length := by
  unfold widthPart
  split
  · rename_i r h; rw [h]; simp
  · exact parsenum_len _

theorem precPart_len (a : List Bytes) (m : Mid) : (precPart a m).rest.length ≤ m.rest.length := by
  unfold precPart
  split
  · rename_i r h
    split
    · exact Nat.le_refl _
    · simp only []
      have h2 := argNumber_len m.argNum r a.length m.reordered (if m.afterIndex then false else m.good)
      split
      · rename_i r2 h3
        rw [h3] at h2
        simp only [List.length_cons] at h2
        rw [h]; simp only [List.length_cons]; omega
      · have h4 := parsenum_len
          (argNumber m.argNum r a.length m.reordered (if m.afterIndex then false else m.good)).rest
        rw [h]; simp only [List.length_cons]; omega
  · exact Nat.le_refl _

theorem indexPart_len (a : List Bytes) (m : Mid) : (indexPart a m).rest.length ≤ m.rest.length := by
  unfold indexPart
  split
  · exact argNumber_len _ _ _ _ _
  · exact Nat.le_refl _

theorem argAt_ok (a : List Bytes) (i : Nat) (h : i < a.length) : ∃ v, argAt a i = .ok v := by
  unfold argAt
  rw [List.getElem?_eq_getElem h]
  exact ⟨_, rfl⟩

theorem verbSwitch_ok (isPrint : Nat → Bool) (a : List Bytes) (f : Fl) (good : Bool) (verb : Nat) (st : St) :
    ∃ st', verbSwitch isPrint a f good verb st = .ok st' := by
  unfold verbSwitch
  split
  · exact ⟨_, rfl⟩
  split
  · exact ⟨_, rfl⟩
  split
  · exact ⟨_, rfl⟩
  · rename_i h
    obtain ⟨v, hv⟩ := argAt_ok a st.argNum (by omega)
    rw [hv]
    exact ⟨_, rfl⟩

theorem verbPart_ok (isPrint : Nat → Bool) (a : List Bytes) (m : Mid) :
    ∃ st' rest stop, verbPart isPrint a m = .ok (st', rest, stop) ∧ rest.length ≤ m.rest.length := by
  unfold verbPart
  split
  · exact ⟨_, _, _, rfl, by simp⟩
  · rename_i c r h
    simp only []
    obtain ⟨st', hs⟩ := verbSwitch_ok isPrint a m.f m.good
      (if c.toNat < 128 then (c.toNat, 1) else C20.decode1 (c :: r)).1
      { out := m.out, argNum := m.argNum, reordered := m.reordered }
    rw [hs]
    refine ⟨_, _, _, rfl, ?_⟩
    rw [h]
    simp only [List.length_drop, List.length_cons]
    omega

theorem slowPath_ok (isPrint : Nat → Bool) (a : List Bytes) (f : Fl) (fmt1 : Bytes) (st : St) :
    ∃ st' rest stop, slowPath isPrint a f fmt1 st = .ok (st', rest, stop) ∧ rest.length ≤ fmt1.length := by
  unfold slowPath
  obtain ⟨st', rest, stop, h, hl⟩ := verbPart_ok isPrint a
    (indexPart a (precPart a (widthPart a f st.out (argNumber st.argNum fmt1 a.length st.reordered true))))
  refine ⟨st', rest, stop, h, ?_⟩
  have h1 := indexPart_len a (precPart a (widthPart a f st.out (argNumber st.argNum fmt1 a.length st.reordered true)))
  have h2 := precPart_len a (widthPart a f st.out (argNumber st.argNum fmt1 a.length st.reordered true))
  have h3 := widthPart_len a f st.out (argNumber st.argNum fmt1 a.length st.reordered true)
  have h4 := argNumber_len st.argNum fmt1 a.length st.reordered true
  omega

theorem verbStep_ok (isPrint : Nat → Bool) (a : List Bytes) (fmt : Bytes) (st : St) :
    ∃ st' rest stop, verbStep isPrint a fmt st = .ok (st', rest, stop) ∧ rest.length ≤ fmt.length := by
  unfold verbStep
  have hf := flagLoop_len fmt {}
  simp only []
  split
  · rename_i c r h
    split
    · rename_i hc
      obtain ⟨v, hv⟩ := argAt_ok a st.argNum hc.2.2
      rw [hv]
      refine ⟨_, _, _, rfl, ?_⟩
      rw [h] at hf; simp only [List.length_cons] at hf; omega
    · obtain ⟨st', rest, stop, hs, hl⟩ := slowPath_ok isPrint a (flagLoop fmt {}).1 (flagLoop fmt {}).2 st
      exact ⟨st', rest, stop, hs, by omega⟩
  · obtain ⟨st', rest, stop, hs, hl⟩ := slowPath_ok isPrint a (flagLoop fmt {}).1 (flagLoop fmt {}).2 st
    exact ⟨st', rest, stop, hs, by omega⟩

theorem formatLoop_ok (isPrint : Nat → Bool) (a : List Bytes) :
    ∀ (fuel : Nat) (fmt : Bytes) (st : St), fmt.length < fuel → ∃ st', formatLoop isPrint a fuel fmt st = .ok st' := by
  intro fuel
  induction fuel with
  | zero => intro fmt st h; omega
  | succ fuel ih =>
    intro fmt st h
    cases fmt with
    | nil => exact ⟨st, rfl⟩
    | cons c r =>
      simp only [formatLoop]
      simp only [List.length_cons] at h
      split
      · exact ih _ _ (by omega)
      · obtain ⟨st', rest, stop, hs, hl⟩ := verbStep_ok isPrint a r st
        rw [hs]
        simp only []
        split
        · exact ⟨_, rfl⟩
        · exact ih _ _ (by omega)

/-- **`fmt.Sprintf` on string operands returns**: no operand index is out of range and the loop over the
    format ends, for every format, operand list and `IsPrint` oracle. -/
theorem sprintf_total (isPrint : Nat → Bool) (format : Bytes) (a : List Bytes) :
    ∃ out, sprintf isPrint format a = .ok out := by
  unfold sprintf
  obtain ⟨st, hs⟩ := formatLoop_ok isPrint a (format.length + 1) format {} (by omega)
  rw [hs]
  simp only []
  split <;> exact ⟨_, rfl⟩

theorem evalAll_safe : ∀ (l : List Stage), (∀ s ∈ l, Safe s) → Safe (evalAll l) := by
  intro l
  induction l with
  | nil => intro _; exact .ret _
  | cons s r ih =>
    intro h
    exact Safe.bind' (h s (by simp)) fun v =>
      Safe.bind' (ih fun x hx => h x (by simp [hx])) fun vs => Safe.pure _

theorem kfFormat_safe (isPrint : Nat → Bool) : SafeBuilder (kfFormat isPrint) := by
  intro args h
  show SafeResult _
  unfold kfFormat
  split
  · exact SafeResult.errArgCount
  · rename_i a0 rest
    refine SafeResult.ok (Safe.bind' (h a0 (by simp)) fun f => Safe.bind' (evalAll_safe rest fun x hx => h x (by simp [hx])) fun vs => ?_)
    obtain ⟨out, ho⟩ := sprintf_total isPrint f vs
    rw [ho]
    exact Safe.pure _

theorem format_safe (isPrint : Nat → Bool) : ∀ p ∈ table isPrint, SafeBuilder p.2 := by
  intro p hp
  simp only [table, List.mem_cons, List.not_mem_nil, or_false] at hp
  subst hp
  exact kfFormat_safe isPrint

end Rare.Expr.Funcs.Format
