import Rare.Proofs.C03Reduce
import Rare.Proofs.C17Atoi
import Rare.Model.Expr.Funcs.Arith
/-!
The algebraic hypothesis of `reduce_commutative_schedule_independent` (`CommCol`) for the accumulator
expressions people write: `{sumi {.} {i}}`, `{maxi {.} {i}}`, `{mini {.} {i}}`, `{sumi {.} n}` (a count).

The stages are the ones the modelled builders of `funcsArithmatic.go` return (`Funcs.Arith.intHelper`) for the
argument stages `{.}` (a key look-up) and `{i}` (a match look-up) / a literal – what `Compile` hands to
`AddDataExpr` for these templates.
-/
namespace Rare.C03
open Rare.C07 Rare.Expr Rare.Expr.Funcs.Arith

theorem comp_run_bind {α β : Type} (c : Comp α) (f : α → Comp β) (ctx : Ctx) :
    (c.bind f).run ctx = (match c.run ctx with | .ok a => (f a).run ctx | .error m => .error m) := by
  induction c with
  | ret a => rfl
  | getMatch i k ih => exact ih _
  | getKey s k ih => exact ih _
  | panic m => rfl

/-- the argument `{.}` after `evalTypedStage` -/
def typedDot : Comp (Option Int) := (Comp.key dot).bind fun v => .ret (atoi v)
/-- the argument `{i}` after `evalTypedStage` -/
def typedMatch (i : Int) : Comp (Option Int) := (Comp.match_ i).bind fun v => .ret (atoi v)
/-- a literal argument that parses, after `evalTypedStage` -/
def typedLit (n : Int) : Comp (Option Int) := .ret (some n)

/-- `{op {.} {i}}` (`op` = `sumi`, `maxi`, …) as the builder compiles it. -/
def foldDotMatch (op : IntOp) (i : Int) : Stage := intRun op [typedDot, typedMatch i]
/-- `{op {.} n}` for an integer literal `n`. -/
def foldDotLit (op : IntOp) (n : Int) : Stage := intRun op [typedDot, typedLit n]

/-- The builder of `sumi`/`maxi`/… applied to the compiled arguments `{.}` and `{i}` returns `foldDotMatch`. -/
theorem intHelper_dot_match (op : IntOp) (i : Int) :
    intHelper op [Comp.key dot, Comp.match_ i] = ok (foldDotMatch op i) := rfl

/-- … and to `{.}` and a literal that is an int64 (`[]` stands for no look-up: the literal stage). -/
theorem intHelper_dot_lit (op : IntOp) (lit : Bytes) (n : Int) (h : atoi lit = some n) :
    intHelper op [Comp.key dot, Stage.lit lit] = ok (foldDotLit op n) := by
  simp [intHelper, mapTypedArgs, evalTypedStage, Comp.probe, Comp.probeN, Comp.key, Stage.lit, h, foldDotLit, typedDot, typedLit, ok]
  rfl

/-- The update both stages perform: parse the accumulator and the operand, apply the checked operation. -/
def intUpd (op : IntOp) (cur : Bytes) (y : Option Int) : Bytes :=
  match atoi cur with
  | none => ErrorNum
  | some x =>
    match y with
    | none => ErrorNum
    | some y =>
      match op x y with
      | none => ErrorValue
      | some r => itoa r

theorem foldDotMatch_run (op : IntOp) (i : Int) (ctx : Ctx) :
    (foldDotMatch op i).run ctx = .ok (intUpd op (ctx.getKey dot) (atoi (ctx.getMatch i))) := by
  simp only [foldDotMatch, intRun, typedDot, typedMatch, Comp.key, Comp.match_, bind, Comp.bind, Comp.run, pure, foldRun, intUpd]
  cases atoi (ctx.getKey dot) with
  | none => rfl
  | some x =>
    simp only [Comp.run]
    cases atoi (ctx.getMatch i) with
    | none => rfl
    | some y =>
      simp only
      cases op x y with
      | none => rfl
      | some r => rfl

theorem foldDotLit_run (op : IntOp) (n : Int) (ctx : Ctx) :
    (foldDotLit op n).run ctx = .ok (intUpd op (ctx.getKey dot) (some n)) := by
  simp only [foldDotLit, intRun, typedDot, typedLit, Comp.key, bind, Comp.bind, Comp.run, pure, foldRun, intUpd]
  cases atoi (ctx.getKey dot) with
  | none => rfl
  | some x =>
    simp only
    cases op x n with
    | none => rfl
    | some r => rfl

theorem atoi_errorNum : atoi ErrorNum = none := by decide +kernel

/-- An operation that never rejects, keeps int64 operands inside int64 and can be applied in either order. -/
structure CommOp (op : IntOp) : Prop where
  total : ∀ x y, ∃ r, op x y = some r
  range : ∀ x y r, minInt64 ≤ x → x ≤ maxInt64 → minInt64 ≤ y → y ≤ maxInt64 → op x y = some r → minInt64 ≤ r ∧ r ≤ maxInt64
  comm : ∀ x a b ra rb, op x a = some ra → op x b = some rb → ∃ r, op ra b = some r ∧ op rb a = some r

theorem intUpd_comm (op : IntOp) (h : CommOp op) (cur : Bytes) (a b : Option Int)
    (ha : ∀ v, a = some v → minInt64 ≤ v ∧ v ≤ maxInt64) (hb : ∀ v, b = some v → minInt64 ≤ v ∧ v ≤ maxInt64) :
    intUpd op (intUpd op cur a) b = intUpd op (intUpd op cur b) a := by
  unfold intUpd
  cases hx : atoi cur with
  | none => simp only [atoi_errorNum]
  | some x =>
    have hxr := C17.atoi_range hx
    cases a with
    | none =>
      simp only [atoi_errorNum]
      cases b with
      | none => simp only [atoi_errorNum]
      | some bv =>
        obtain ⟨rb, hrb⟩ := h.total x bv
        simp only [hrb]
        cases atoi (itoa rb) <;> rfl
    | some av =>
      obtain ⟨ra, hra⟩ := h.total x av
      have har := ha av rfl
      have hrar := h.range x av ra hxr.1 hxr.2 har.1 har.2 hra
      simp only [hra, C17.atoi_itoa ra hrar.1 hrar.2]
      cases b with
      | none =>
        simp only [atoi_errorNum]
      | some bv =>
        obtain ⟨rb, hrb⟩ := h.total x bv
        have hbr := hb bv rfl
        have hrbr := h.range x bv rb hxr.1 hxr.2 hbr.1 hbr.2 hrb
        simp only [hrb, C17.atoi_itoa rb hrbr.1 hrbr.2]
        obtain ⟨r, h1, h2⟩ := h.comm x av bv ra rb hra hrb
        simp only [h1, h2]

theorem commOp_sum : CommOp opSum := by
  refine ⟨fun x y => ⟨_, rfl⟩, ?_, ?_⟩
  · intro x y r _ _ _ _ h
    simp only [opSum, Option.some.injEq] at h
    subst h; exact wrap64_inRange _
  · intro x a b ra rb h1 h2
    simp only [opSum, Option.some.injEq] at h1 h2
    subst h1 h2
    refine ⟨wrap64 (x + a + b), ?_, ?_⟩
    · simp only [opSum]; rw [wrap64_add_left]
    · simp only [opSum]; rw [wrap64_add_left]; congr 2; omega

theorem commOp_max : CommOp opMax := by
  refine ⟨fun x y => ⟨_, rfl⟩, ?_, ?_⟩
  · intro x y r h1 h2 h3 h4 h
    simp only [opMax, Option.some.injEq] at h
    subst h; split <;> exact ⟨by assumption, by assumption⟩
  · intro x a b ra rb h1 h2
    simp only [opMax, Option.some.injEq] at h1 h2
    subst h1 h2
    refine ⟨if x > a then (if x > b then x else b) else (if a > b then a else b), ?_, ?_⟩
    · simp only [opMax, Option.some.injEq]; split <;> split <;> (try split) <;> omega
    · simp only [opMax, Option.some.injEq]; split <;> split <;> (try split) <;> (try split) <;> omega

theorem commOp_min : CommOp opMin := by
  refine ⟨fun x y => ⟨_, rfl⟩, ?_, ?_⟩
  · intro x y r h1 h2 h3 h4 h
    simp only [opMin, Option.some.injEq] at h
    subst h; split <;> exact ⟨by assumption, by assumption⟩
  · intro x a b ra rb h1 h2
    simp only [opMin, Option.some.injEq] at h1 h2
    subst h1 h2
    refine ⟨if x < a then (if x < b then x else b) else (if a < b then a else b), ?_, ?_⟩
    · simp only [opMin, Option.some.injEq]; split <;> split <;> (try split) <;> omega
    · simp only [opMin, Option.some.injEq]; split <;> split <;> (try split) <;> (try split) <;> omega

/-- `name[:initial]={op {.} {i}}` is an order-insensitive accumulator for every `CommOp`. -/
theorem commCol_foldDotMatch (op : IntOp) (h : CommOp op) (name initial : Bytes) (i : Int) :
    CommCol (AccDataDef.toSpec ⟨name, foldDotMatch op i, initial⟩) := by
  refine ⟨fun cur part => intUpd op cur (atoi (part i)), ?_, ?_⟩
  · intro L
    show (foldDotMatch op i).run _ = _
    rw [foldDotMatch_run]
    rfl
  · intro cur p q
    exact intUpd_comm op h cur _ _ (fun v hv => C17.atoi_range hv) (fun v hv => C17.atoi_range hv)

/-- `name[:initial]={op {.} n}` (e.g. the counter `{sumi {.} 1}`) likewise. -/
theorem commCol_foldDotLit (op : IntOp) (name initial : Bytes) (n : Int) :
    CommCol (AccDataDef.toSpec ⟨name, foldDotLit op n, initial⟩) := by
  refine ⟨fun cur _ => intUpd op cur (some n), ?_, ?_⟩
  · intro L
    show (foldDotLit op n).run _ = _
    rw [foldDotLit_run]
    rfl
  · intro cur _ _
    rfl

end Rare.C03
