import Rare.Model.C17Extra
import Rare.Proofs.C17Funcs
/-!
C17: `MakeArray` is `pack`; draining a splitter with `NextOk` gives the pieces, and a finished splitter stays
finished (`Next` then answers the empty string).
-/
namespace Rare.C17
open Rare Rare.Expr Rare.Expr.Funcs.Range Rare.C17Extra

theorem makeArrayLoop_pos : ∀ (xs : List Bytes) (i : Nat) (sb : Sb), 0 < i →
    (makeArrayLoop xs i sb).str = sb.str ++ joinTail [NUL] xs
  | [], _, sb, _ => by simp [makeArrayLoop, joinTail]
  | x :: r, i, sb, hi => by
    have : i > 0 := hi
    simp only [makeArrayLoop, this, if_true]
    rw [makeArrayLoop_pos r (i + 1) _ (by omega)]
    simp [Sb.write, Sb.str, joinTail, ArraySeparatorString, ArraySeparator, NUL]

theorem makeArray_eq_pack (xs : List Bytes) : makeArray xs = pack xs := by
  cases xs with
  | nil => rfl
  | cons x r =>
    unfold makeArray pack
    simp only [makeArrayLoop, Nat.lt_irrefl, gt_iff_lt, if_false]
    rw [makeArrayLoop_pos r 1 _ (by omega), join_cons_tail]
    simp [Sb.write, Sb.str]

theorem drainOk_spec : ∀ (fuel : Nat) (sp : Splitter) (acc : List Bytes), sp.Delim ≠ [] → vlen (view sp) < fuel →
    ∃ sp', drainOk fuel sp acc = some (acc ++ remaining sp.Delim (view sp), sp') ∧ sp'.Done = true ∧
      sp'.Next.1 = [] ∧ sp'.Next.2 = sp'
  | 0, _, _, _, h => by omega
  | fuel + 1, sp, acc, hd, hf => by
    unfold drainOk nextOk
    cases hv : view sp with
    | none =>
      have hdone : sp.Done = true := (done_iff sp).mpr hv
      have hneg : sp.next < 0 := by simpa [Splitter.Done] using hdone
      have hnext : sp.Next = ([], sp) := by simp [Splitter.Next, hneg]
      refine ⟨sp, ?_, hdone, by rw [hnext], by rw [hnext]⟩
      simp [hdone, hnext, remaining]
    | some r =>
      have hnd : sp.Done = false := by
        cases h : sp.Done
        · rfl
        · rw [(done_iff sp).mp h] at hv; cases hv
      obtain ⟨h1, h2, h3⟩ := next_view sp hd r hv
      obtain ⟨sp', e, hdn, hn1, hn2⟩ := drainOk_spec fuel sp.Next.2 (acc ++ [sp.Next.1]) (by rw [h2]; exact hd) (by omega)
      refine ⟨sp', ?_, hdn, hn1, hn2⟩
      simp only [hnd, Bool.not_false, Bool.not_true, Bool.false_eq_true, if_false]
      rw [e, h2, ← hv, h1]
      simp

end Rare.C17
