import Rare.Spec.C12Lazy
import Rare.Proofs.C12Spec
/-!
The one-pass scan of the specification (`specToks` / `specDissect`) computes the leftmost-laziest
split of the declarative specification (`Spec/C12Lazy.lean`), and the backtracking matcher
`lazyDissect` never needs to backtrack.
-/
namespace Rare.C12

/-! ### `firstFrom` -/

theorem firstFrom_none {α : Type} (f : Nat → Option α) (fuel start : Nat)
    (h : ∀ i, start ≤ i → i < start + fuel → f i = none) : firstFrom f fuel start = none := by
  induction fuel generalizing start with
  | zero => rfl
  | succ k ih =>
    simp only [firstFrom]
    rw [h start (Nat.le_refl _) (by omega)]
    exact ih (start + 1) (fun i h1 h2 => h i (by omega) (by omega))

theorem firstFrom_first {α : Type} (f : Nat → Option α) (fuel start n : Nat) (x : α)
    (h1 : start ≤ n) (h2 : n < start + fuel) (hb : ∀ i, start ≤ i → i < n → f i = none)
    (hn : f n = some x) : firstFrom f fuel start = some x := by
  induction fuel generalizing start with
  | zero => omega
  | succ k ih =>
    simp only [firstFrom]
    rcases Nat.eq_or_lt_of_le h1 with h | h
    · subst h; rw [hn]
    · rw [hb start (Nat.le_refl _) h]
      exact ih (start + 1) (by omega) (by omega) (fun i a b => hb i (by omega) b)

/-! ### lexicographic order -/

theorem lexLE_refl (a : List Nat) : lexLE a a := by
  induction a with
  | nil => trivial
  | cons x xs ih => exact Or.inr ⟨rfl, ih⟩

theorem lexLE_antisymm {a b : List Nat} (hl : a.length = b.length) (h1 : lexLE a b) (h2 : lexLE b a) :
    a = b := by
  induction a generalizing b with
  | nil => cases b with
    | nil => rfl
    | cons _ _ => simp at hl
  | cons x xs ih =>
    cases b with
    | nil => simp at hl
    | cons y ys =>
      simp only [lexLE] at h1 h2
      rcases h1 with h1 | ⟨rfl, h1⟩
      · rcases h2 with h2 | ⟨h2, _⟩ <;> omega
      · rcases h2 with h2 | ⟨_, h2⟩
        · omega
        · rw [ih (by simpa using hl) h1 h2]

/-! ### splits -/

theorem IsSplit_length {line : Bytes} {ts : List Tok} {pos : Nat} {ns : List Nat}
    (h : IsSplit line ts pos ns) : ns.length = ts.length := by
  induction ts generalizing pos ns with
  | nil => simp [IsSplit] at h; simp [h]
  | cons t ts ih =>
    cases ns with
    | nil => simp [IsSplit] at h
    | cons n ns => simp only [IsSplit] at h; simp [ih h.2.2]

/-- a prefix at `pos + n` of a non-empty needle keeps everything inside the line -/
theorem prefix_in_line {u line : Bytes} {k : Nat} (hu : u ≠ []) (h : u <+: line.drop k) :
    k + u.length ≤ line.length := by
  have := h.length_le
  simp only [List.length_drop] at this
  have : 0 < u.length := List.length_pos_iff.mpr hu
  omega

/-- **Soundness + minimality of the scan**: what `specToks` returns is a split, the split it stands
for gives back the captures, and it is lexicographically least among the splits from `pos`. -/
theorem specToks_split {line : Bytes} {ts : List Tok} {pos : Nat} {caps : List Nat} {e : Nat}
    (h : specToks line ts pos = some (caps, e)) (hp : pos ≤ line.length) :
    ∃ ns, IsSplit line ts pos ns ∧ capsOf ts pos ns = (caps, e) ∧
      ∀ ns', IsSplit line ts pos ns' → lexLE ns ns' := by
  induction ts generalizing pos caps e with
  | nil =>
    simp only [specToks] at h; cases h
    exact ⟨[], by simp [IsSplit], by simp [capsOf], fun ns' _ => trivial⟩
  | cons t ts ih =>
    simp only [specToks] at h
    split at h
    · cases h
    · rename_i n hn
      split at h
      · cases h
      · rename_i caps1 e1 hrec
        cases h
        by_cases hl : t.lit = []
        · simp only [hl, if_true, List.length_drop] at hn
          cases hn
          have hpos : pos + (line.length - pos) + t.lit.length ≤ line.length := by simp [hl]; omega
          obtain ⟨ns, hs, hc, hmin⟩ := ih hrec hpos
          refine ⟨(line.length - pos) :: ns, ?_, ?_, ?_⟩
          · simp only [IsSplit, hl, if_true]
            exact ⟨by simp; omega, by omega, by simpa [hl] using hs⟩
          · simp only [capsOf, hc]
          · intro ns' hs'
            cases ns' with
            | nil => simp [IsSplit] at hs'
            | cons n' ns' =>
              simp only [IsSplit, hl, if_true] at hs'
              have hn' : n' = line.length - pos := by omega
              subst hn'
              exact Or.inr ⟨rfl, hmin ns' (by simpa [hl] using hs'.2.2)⟩
        · simp only [hl, if_false] at hn
          have ⟨hpre, hlen⟩ := firstIndex_some_prefix hn
          simp only [List.length_drop] at hlen
          rw [List.drop_drop] at hpre
          have hpos : pos + n + t.lit.length ≤ line.length := by omega
          obtain ⟨ns, hs, hc, hmin⟩ := ih hrec hpos
          refine ⟨n :: ns, ?_, ?_, ?_⟩
          · simp only [IsSplit, hl, if_false]
            exact ⟨hpos, hpre, hs⟩
          · simp only [capsOf, hc]
          · intro ns' hs'
            cases ns' with
            | nil => simp [IsSplit] at hs'
            | cons n' ns' =>
              simp only [IsSplit, hl, if_false] at hs'
              rcases Nat.lt_trichotomy n n' with hlt | heq | hgt
              · exact Or.inl hlt
              · subst heq; exact Or.inr ⟨rfl, hmin ns' hs'.2.2⟩
              · exfalso
                refine firstIndex_min hn hgt ?_
                rw [List.drop_drop]; exact hs'.2.1

/-- **Completeness of the scan (no backtracking is ever needed)**: if the rest of the pattern can
be split from SOME position `pos' ≥ pos`, the scan from `pos` succeeds. -/
theorem specToks_of_split {line : Bytes} {ts : List Tok} {pos pos' : Nat} {ns' : List Nat}
    (h : IsSplit line ts pos' ns') (hp : pos ≤ pos') :
    ∃ r, specToks line ts pos = some r := by
  induction ts generalizing pos pos' ns' with
  | nil => exact ⟨_, rfl⟩
  | cons t ts ih =>
    cases ns' with
    | nil => simp [IsSplit] at h
    | cons n' ns' =>
      simp only [IsSplit] at h
      obtain ⟨hb, hlit, hrest⟩ := h
      simp only [specToks]
      by_cases hl : t.lit = []
      · simp only [hl, if_true] at hlit ⊢
        simp only [List.length_drop]
        obtain ⟨r, hr⟩ := ih (pos := pos + (line.length - pos) + ([] : Bytes).length) hrest
          (by simp [hl]; omega)
        rw [hr]; exact ⟨_, rfl⟩
      · simp only [hl, if_false] at hlit ⊢
        have hk : pos' + n' - pos ≤ (line.drop pos).length := by simp; omega
        have hpre : t.lit <+: (line.drop pos).drop (pos' + n' - pos) := by
          rw [List.drop_drop]
          have : pos + (pos' + n' - pos) = pos' + n' := by omega
          rw [this]; exact hlit
        obtain ⟨n, hn, hle⟩ := firstIndex_le_of_prefix hk hpre
        obtain ⟨r, hr⟩ := ih (pos := pos + n + t.lit.length) hrest (by omega)
        rw [hn]; simp only []; rw [hr]; exact ⟨_, rfl⟩

/-- failure of the scan is inherited by every later position that is still inside the line -/
theorem specToks_none_later {line : Bytes} {ts : List Tok} {pos pos' : Nat}
    (h : specToks line ts pos = none) (hp : pos ≤ pos') (hl : pos' ≤ line.length) :
    specToks line ts pos' = none := by
  cases h' : specToks line ts pos' with
  | none => rfl
  | some r =>
    obtain ⟨caps, e⟩ := r
    obtain ⟨ns, hs, _, _⟩ := specToks_split h' hl
    obtain ⟨r, hr⟩ := specToks_of_split hs hp
    rw [h] at hr; cases hr

/-! ### the backtracking matcher never backtracks -/

theorem lazyToks_eq_spec (line : Bytes) (ts : List Tok) (pos : Nat) :
    lazyToks line ts pos = specToks line ts pos := by
  induction ts generalizing pos with
  | nil => rfl
  | cons t ts ih =>
    by_cases hl : t.lit = []
    · simp only [lazyToks, specToks, hl, if_true, ih, List.length_drop]
      cases specToks line ts (pos + (line.length - pos) + ([] : Bytes).length) <;> rfl
    · simp only [lazyToks, specToks, hl, if_false, ih]
      cases hn : firstIndex t.lit (line.drop pos) with
      | none =>
        simp only []
        apply firstFrom_none
        intro i _ hi
        have := (firstIndex_none_iff _ _).mp hn i (by simp; omega)
        rw [List.drop_drop] at this
        simp [List.isPrefixOf_iff_prefix, this]
      | some n =>
        simp only []
        have ⟨hpre, hlen⟩ := firstIndex_some_prefix hn
        simp only [List.length_drop] at hlen
        rw [List.drop_drop] at hpre
        have hbefore : ∀ i, 0 ≤ i → i < n →
            (if t.lit.isPrefixOf (line.drop (pos + i)) then
              (specToks line ts (pos + i + t.lit.length)).map fun ce =>
                ((if t.skip then [] else [pos, pos + i]) ++ ce.1, ce.2)
            else none) = none := by
          intro i _ hi
          have := firstIndex_min hn hi
          rw [List.drop_drop] at this
          simp [List.isPrefixOf_iff_prefix, this]
        cases hrec : specToks line ts (pos + n + t.lit.length) with
        | some ce =>
          obtain ⟨caps, e⟩ := ce
          simp only []
          apply firstFrom_first _ _ _ n _ (Nat.zero_le _) (by omega) hbefore
          simp [List.isPrefixOf_iff_prefix, hpre, hrec]
        | none =>
          simp only []
          apply firstFrom_none
          intro i _ hi
          by_cases hp : t.lit <+: line.drop (pos + i)
          · have hin := prefix_in_line hl hp
            rcases Nat.lt_or_ge i n with hlt | hge
            · exact hbefore i (Nat.zero_le _) hlt
            · have := specToks_none_later hrec (pos' := pos + i + t.lit.length) (by omega) hin
              simp [this]
          · simp [List.isPrefixOf_iff_prefix, hp]

/-- **The one-pass scan = the backtracking (lazy regular expression) matcher**, for every pattern
(well-formed or not) and every line. -/
theorem lazyDissect_eq_spec (p : Pat) (line : Bytes) : lazyDissect p line = specDissect p line := by
  simp only [lazyDissect, specDissect, lazyToks_eq_spec]
  cases hs : firstIndex p.pre line with
  | none =>
    simp only []
    apply firstFrom_none
    intro i _ hi
    have := (firstIndex_none_iff _ _).mp hs i (by omega)
    simp [List.isPrefixOf_iff_prefix, this]
  | some s =>
    simp only []
    have ⟨hpre, hlen⟩ := firstIndex_some_prefix hs
    have hbefore : ∀ i, 0 ≤ i → i < s →
        (if p.pre.isPrefixOf (line.drop i) then
          (specToks line p.toks (i + p.pre.length)).map fun ce => i :: ce.2 :: ce.1
        else none) = none := by
      intro i _ hi
      have := firstIndex_min hs hi
      simp [List.isPrefixOf_iff_prefix, this]
    cases hrec : specToks line p.toks (s + p.pre.length) with
    | some ce =>
      obtain ⟨caps, e⟩ := ce
      simp only []
      apply firstFrom_first _ _ _ s _ (Nat.zero_le _) (by omega) hbefore
      simp [List.isPrefixOf_iff_prefix, hpre, hrec]
    | none =>
      simp only []
      apply firstFrom_none
      intro i _ hi
      by_cases hp : p.pre <+: line.drop i
      · have hin : i + p.pre.length ≤ line.length := by
          have := hp.length_le; simp only [List.length_drop] at this; omega
        rcases Nat.lt_or_ge i s with hlt | hge
        · exact hbefore i (Nat.zero_le _) hlt
        · have := specToks_none_later hrec (pos' := i + p.pre.length) (by omega) hin
          simp [this]
      · simp [List.isPrefixOf_iff_prefix, hp]

/-! ### the declarative characterisation -/

/-- a match of the specification is a way to read the line as an instance of the pattern, … -/
theorem specDissect_isMatch {p : Pat} {line : Bytes} {r : List Nat} (h : specDissect p line = some r) :
    ∃ s ns, IsMatch p line s ns ∧ r = offsetsOf p s ns ∧
      ∀ s' ns', IsMatch p line s' ns' → lexLE (s :: ns) (s' :: ns') := by
  simp only [specDissect] at h
  split at h
  · cases h
  · rename_i s hs
    split at h
    · cases h
    · rename_i caps e hrec
      cases h
      have ⟨hpre, hlen⟩ := firstIndex_some_prefix hs
      obtain ⟨ns, hsplit, hc, hmin⟩ := specToks_split hrec hlen
      refine ⟨s, ns, ⟨hlen, hpre, hsplit⟩, by simp [offsetsOf, hc], ?_⟩
      intro s' ns' hm'
      rcases Nat.lt_trichotomy s s' with hlt | heq | hgt
      · exact Or.inl hlt
      · subst heq; exact Or.inr ⟨rfl, hmin ns' hm'.2.2⟩
      · exact absurd hm'.2.1 (firstIndex_min hs hgt)

/-- … and whenever the line CAN be read as an instance of the pattern, the scan finds a match. -/
theorem specDissect_of_isMatch {p : Pat} {line : Bytes} {s' : Nat} {ns' : List Nat}
    (h : IsMatch p line s' ns') : ∃ r, specDissect p line = some r := by
  obtain ⟨hb, hpre, hsplit⟩ := h
  obtain ⟨s, hs, hle⟩ := firstIndex_le_of_prefix (k := s') (by omega) hpre
  obtain ⟨r, hr⟩ := specToks_of_split (pos := s + p.pre.length) hsplit (by omega)
  exact ⟨s :: r.2 :: r.1, by simp only [specDissect, hs, hr]⟩

theorem specDissect_least_split (p : Pat) (line : Bytes) (r : List Nat) :
    specDissect p line = some r ↔
      ∃ s ns, IsMatch p line s ns ∧
        (∀ s' ns', IsMatch p line s' ns' → lexLE (s :: ns) (s' :: ns')) ∧ r = offsetsOf p s ns := by
  constructor
  · intro h
    obtain ⟨s, ns, hm, hr, hmin⟩ := specDissect_isMatch h
    exact ⟨s, ns, hm, hmin, hr⟩
  · rintro ⟨s, ns, hm, hmin, rfl⟩
    obtain ⟨r, hr⟩ := specDissect_of_isMatch hm
    obtain ⟨s0, ns0, hm0, hr0, hmin0⟩ := specDissect_isMatch hr
    have hlen : (s :: ns).length = (s0 :: ns0).length := by
      simp [IsSplit_length hm.2.2, IsSplit_length hm0.2.2]
    have := lexLE_antisymm hlen (hmin s0 ns0 hm0) (hmin0 s ns hm)
    cases this
    rw [hr, hr0]

theorem specDissect_none_iff (p : Pat) (line : Bytes) :
    specDissect p line = none ↔ ¬ ∃ s ns, IsMatch p line s ns := by
  constructor
  · rintro h ⟨s, ns, hm⟩
    obtain ⟨r, hr⟩ := specDissect_of_isMatch hm
    rw [h] at hr; cases hr
  · intro h
    cases hr : specDissect p line with
    | none => rfl
    | some r =>
      obtain ⟨s, ns, hm, _⟩ := specDissect_isMatch hr
      exact absurd ⟨s, ns, hm⟩ h

/-! ### `{0}` is the pattern with the token texts filled in -/

/-- the token texts of a split -/
def valuesOf (line : Bytes) : List Tok → Nat → List Nat → List Bytes
  | t :: ts, pos, n :: ns => (line.drop pos).take n :: valuesOf line ts (pos + n + t.lit.length) ns
  | _, _, _ => []

theorem take_of_prefix {u l : Bytes} (h : u <+: l) : l.take u.length = u := by
  obtain ⟨t, rfl⟩ := h; simp

theorem drop_take_append (l : Bytes) (a n : Nat) :
    (l.drop a).take n ++ (l.drop (a + n)) = l.drop a := by
  rw [← List.drop_drop]; exact List.take_append_drop n (l.drop a)

/-- the span of a split, cut out of the line, is `v₁ lit₁ v₂ lit₂ …` -/
theorem split_span {line : Bytes} {ts : List Tok} {pos : Nat} {ns : List Nat}
    (h : IsSplit line ts pos ns) (hp : pos ≤ line.length) :
    (line.drop pos).take ((capsOf ts pos ns).2 - pos) =
      (((valuesOf line ts pos ns).zip ts).map fun vt => vt.1 ++ vt.2.lit).flatten ∧
    pos ≤ (capsOf ts pos ns).2 ∧ (capsOf ts pos ns).2 ≤ line.length := by
  induction ts generalizing pos ns with
  | nil =>
    simp only [IsSplit] at h; subst h
    simp [capsOf, valuesOf, hp]
  | cons t ts ih =>
    cases ns with
    | nil => simp [IsSplit] at h
    | cons n ns =>
      simp only [IsSplit] at h
      obtain ⟨hb, hlit, hrest⟩ := h
      obtain ⟨ih1, ih2, ih3⟩ := ih hrest hb
      simp only [capsOf, valuesOf, List.zip_cons_cons, List.map_cons, List.flatten_cons]
      refine ⟨?_, by omega, ih3⟩
      rw [← ih1]
      have hlit' : (line.drop (pos + n)).take t.lit.length = t.lit := by
        by_cases hl : t.lit = []
        · simp [hl]
        · simp only [hl, if_false] at hlit; exact take_of_prefix hlit
      generalize hE : (capsOf ts (pos + n + t.lit.length) ns).2 = E at ih2 ih3 ⊢
      have e1 : E - pos = n + (t.lit.length + (E - (pos + n + t.lit.length))) := by omega
      rw [e1, List.take_add, List.drop_drop, List.take_add, List.drop_drop, hlit', List.append_assoc]


theorem valuesOf_length {line : Bytes} {ts : List Tok} {pos : Nat} {ns : List Nat}
    (h : ns.length = ts.length) : (valuesOf line ts pos ns).length = ts.length := by
  induction ts generalizing pos ns with
  | nil => cases ns <;> simp [valuesOf]
  | cons t ts ih =>
    cases ns with
    | nil => simp at h
    | cons n ns => simp only [valuesOf, List.length_cons]; rw [ih (by simpa using h)]

/-- **`{0}` is the pattern text with the token texts filled in**: a match `[s, e, …]` of the
specification comes with one text per token (captured or skipped) such that
`line[s:e] = lit₀ v₁ lit₁ v₂ lit₂ … vₙ litₙ`. -/
theorem specDissect_span {p : Pat} {line : Bytes} {r : List Nat} (h : specDissect p line = some r) :
    ∃ (s e : Nat) (caps : List Nat) (vs : List Bytes), r = s :: e :: caps ∧ s ≤ e ∧ e ≤ line.length ∧
      vs.length = p.toks.length ∧ (line.drop s).take (e - s) = instantiate p vs := by
  obtain ⟨s, ns, ⟨hb, hpre, hsplit⟩, hr, _⟩ := specDissect_isMatch h
  obtain ⟨h1, h2, h3⟩ := split_span hsplit hb
  refine ⟨s, (capsOf p.toks (s + p.pre.length) ns).2, (capsOf p.toks (s + p.pre.length) ns).1,
    valuesOf line p.toks (s + p.pre.length) ns, by simp [hr, offsetsOf], by omega, h3, ?_, ?_⟩
  · exact valuesOf_length (IsSplit_length hsplit)
  · generalize hE : (capsOf p.toks (s + p.pre.length) ns).2 = E at h1 h2 h3
    simp only [instantiate, ← h1]
    have e1 : E - s = p.pre.length + (E - (s + p.pre.length)) := by omega
    rw [e1, List.take_add, List.drop_drop, take_of_prefix hpre]

/-! ### locality: nothing behind `{0}` matters when the pattern ends in a literal -/

theorem drop_take_append_of_le (h x : Bytes) {j k : Nat} (hj : j ≤ k) (hk : k ≤ h.length) :
    (h.take k ++ x).drop j = (h.drop j).take (k - j) ++ x := by
  rw [List.drop_append_of_le_length (by simp; omega), List.drop_take]

theorem prefix_take_append_iff {u h x : Bytes} {j k : Nat} (hk : k ≤ h.length) (hu : j + u.length ≤ k) :
    u <+: (h.take k ++ x).drop j ↔ u <+: h.drop j := by
  rw [drop_take_append_of_le h x (by omega) hk]
  rw [List.prefix_iff_eq_take, List.prefix_iff_eq_take]
  rw [List.take_append_of_le_length (by simp; omega), List.take_take]
  rw [Nat.min_eq_left (by omega)]

theorem firstIndex_take_append {u h : Bytes} {i k : Nat} (x : Bytes) (hi : firstIndex u h = some i)
    (hik : i + u.length ≤ k) (hk : k ≤ h.length) : firstIndex u (h.take k ++ x) = some i := by
  obtain ⟨h1, h2, h3⟩ := (firstIndex_spec _ _ _).mp hi
  refine (firstIndex_spec _ _ _).mpr ⟨by simp; omega, (prefix_take_append_iff hk hik).mpr h2, ?_⟩
  intro j hj hp
  exact h3 j hj ((prefix_take_append_iff hk (by omega)).mp hp)

theorem specToks_take_append {line : Bytes} {ts : List Tok} {pos k : Nat} {caps : List Nat} {e : Nat} (x : Bytes)
    (hlit : ∀ t ∈ ts, t.lit ≠ []) (h : specToks line ts pos = some (caps, e)) (hp : pos ≤ line.length)
    (hek : e ≤ k) (hk : k ≤ line.length) : specToks (line.take k ++ x) ts pos = some (caps, e) := by
  induction ts generalizing pos caps e with
  | nil => simpa [specToks] using h
  | cons t ts ih =>
    have hl : t.lit ≠ [] := hlit t (by simp)
    simp only [specToks, hl, if_false] at h ⊢
    split at h
    · cases h
    · rename_i n hn
      split at h
      · cases h
      · rename_i caps1 e1 hrec
        cases h
        have ⟨_, hlen⟩ := firstIndex_some_prefix hn
        simp only [List.length_drop] at hlen
        have hord := (specToks_ordered hrec (by omega)).1
        have hle : pos + n + t.lit.length ≤ e :=
          List.rel_of_pairwise_cons hord (a' := e) (by simp)
        have hpk : pos ≤ k := by omega
        rw [drop_take_append_of_le line x hpk hk]
        have hn' := firstIndex_take_append x hn (k := k - pos) (by omega) (by simp; omega)
        rw [hn']
        simp only []
        rw [ih (fun t ht => hlit t (by simp [ht])) hrec (by omega) hek]

/-- When every token has a trailing literal, the match of a line is decided by `line[:e]` alone:
whatever follows the end of `{0}` – other bytes, more bytes, nothing – the answer is the same. -/
theorem specDissect_take_append {p : Pat} {line : Bytes} {s e : Nat} {caps : List Nat} (x : Bytes)
    (hlit : ∀ t ∈ p.toks, t.lit ≠ []) (h : specDissect p line = some (s :: e :: caps)) :
    specDissect p (line.take e ++ x) = some (s :: e :: caps) := by
  simp only [specDissect] at h ⊢
  split at h
  · cases h
  · rename_i s0 hs
    split at h
    · cases h
    · rename_i caps0 e0 hrec
      cases h
      have ⟨_, hlen⟩ := firstIndex_some_prefix hs
      have hord := specToks_ordered hrec hlen
      have hle : s + p.pre.length ≤ e := List.rel_of_pairwise_cons hord.1 (by simp)
      rw [firstIndex_take_append x hs hle hord.2]
      simp only []
      rw [specToks_take_append x hlit hrec hlen (Nat.le_refl _) hord.2]


/-! ### extending a pattern at the end -/

/-- the scan over `ts ++ us` is the scan over `ts` followed by the scan over `us` from where it ended -/
theorem specToks_append (line : Bytes) (ts us : List Tok) (pos : Nat) :
    specToks line (ts ++ us) pos =
      match specToks line ts pos with
      | none => none
      | some ce => (specToks line us ce.2).map fun ce' => (ce.1 ++ ce'.1, ce'.2) := by
  induction ts generalizing pos with
  | nil =>
    simp only [List.nil_append, specToks]
    cases specToks line us pos with
    | none => rfl
    | some ce' => simp
  | cons t ts ih =>
    simp only [List.cons_append, specToks]
    cases (if t.lit = [] then some (line.drop pos).length else firstIndex t.lit (line.drop pos)) with
    | none => rfl
    | some n =>
      simp only []
      rw [ih]
      cases specToks line ts (pos + n + t.lit.length) with
      | none => rfl
      | some ce =>
        simp only []
        cases specToks line us ce.2 with
        | none => rfl
        | some ce' => simp [List.append_assoc]

/-- **More tokens at the end of a pattern never change what the earlier tokens capture**: when the
longer pattern matches, the shorter one matches too, with the same start and the same captures;
only the end of `{0}` moves (to the right). -/
theorem specDissect_append {pre : Bytes} {ts us : List Tok} {line : Bytes} {r' : List Nat}
    (h : specDissect ⟨pre, ts ++ us⟩ line = some r') :
    ∃ s e e' caps more, specDissect ⟨pre, ts⟩ line = some (s :: e :: caps) ∧
      r' = s :: e' :: (caps ++ more) ∧ e ≤ e' := by
  simp only [specDissect] at h ⊢
  split at h
  · cases h
  · rename_i s hs
    rw [specToks_append] at h
    have ⟨_, hlen⟩ := firstIndex_some_prefix hs
    cases h1 : specToks line ts (s + pre.length) with
    | none => rw [h1] at h; simp at h
    | some ce =>
      obtain ⟨caps, e⟩ := ce
      rw [h1] at h
      simp only [] at h
      cases h2 : specToks line us e with
      | none => rw [h2] at h; simp at h
      | some ce' =>
        obtain ⟨more, e'⟩ := ce'
        rw [h2] at h
        simp only [Option.map_some, Option.some.injEq] at h
        have he := (specToks_ordered h1 hlen).2
        have hord := (specToks_ordered h2 he).1
        have hle : e ≤ e' := List.rel_of_pairwise_cons hord (by simp)
        exact ⟨s, e, e', caps, more, by simp, h.symm, hle⟩

end Rare.C12
