import Rare.Proofs.ExprSafe
import Rare.Proofs.C10
/-! With a registry of safe builders, compilation never panics and yields safe stages (C08). -/
namespace Rare.Expr

def OOF (m : String) : Prop := m = "out of fuel"

def S1 (reg : Registry) (opt : Bool) (fuel : Nat) (all rs : List Char) (i : Nat) (st : CompSt) : Prop :=
  AllSafe st.stages →
    (∀ st', compileLoop fuel reg opt all rs i st = .ok st' → AllSafe st'.stages) ∧
    (∀ m, compileLoop fuel reg opt all rs i st = .error m → OOF m)
def S2 (reg : Registry) (opt : Bool) (fuel : Nat) (all : List Char) (i : Nat) (st : CompSt) : Prop :=
  AllSafe st.stages →
    (∀ st', closeStatement fuel reg opt all i st = .ok st' → AllSafe st'.stages) ∧
    (∀ m, closeStatement fuel reg opt all i st = .error m → OOF m)
def S3 (reg : Registry) (opt : Bool) (fuel : Nat) (as : List (List Char)) : Prop :=
  (∀ r, compileArgs fuel reg opt as = .ok r → AllSafe r.1) ∧
  (∀ m, compileArgs fuel reg opt as = .error m → OOF m)
def S4 (reg : Registry) (opt : Bool) (fuel : Nat) (t : List Char) : Prop :=
  (∀ s e, compileF fuel reg opt t = .ok (s, e) → AllSafe s) ∧
  (∀ m, compileF fuel reg opt t = .error m → OOF m)

theorem safe_mutual (reg : Registry) (hreg : SafeRegistry reg) (opt : Bool) :
    (∀ fuel all rs i st, S1 reg opt fuel all rs i st) ∧ (∀ fuel all i st, S2 reg opt fuel all i st) ∧
    (∀ fuel as, S3 reg opt fuel as) ∧ (∀ fuel t, S4 reg opt fuel t) := by
  apply compileLoop.mutual_induct reg opt (S1 reg opt) (S2 reg opt) (S3 reg opt) (S4 reg opt)
  -- compileLoop
  · intro fuel all x st hs
    exact ⟨fun st' h => (by simp [compileLoop] at h; rw [← h]; exact hs), fun m h => (by simp [compileLoop] at h)⟩
  · intro fuel all i st hs
    exact ⟨fun st' h => (by simp [compileLoop] at h; rw [← h]; exact hs), fun m h => (by simp [compileLoop] at h)⟩
  · intro fuel all i st e rest' ih hs
    have := ih hs
    simp only [compileLoop, if_true]
    exact this
  · intro fuel all rest i st h0 stages sb hne ih hs
    rw [compileLoop_cons hne]
    simp only [if_true, h0]
    apply ih
    show AllSafe (if st.sb.isEmpty = true then st.stages else st.stages ++ [Stage.lit (charsToBytes st.sb)])
    split
    · exact hs
    · exact hs.append (AllSafe.single (Safe.lit _))
  · intro fuel all rest i st h0 hne ih hs
    rw [compileLoop_cons hne]
    simp only [if_true, h0, if_false]
    exact ih hs
  · intro fuel all r rest i st h1 h2 h3 h4 m hcl ih2 hs
    rw [compileLoop_cons h1, if_neg h2, if_pos h3, if_pos h4, hcl]
    exact ⟨fun st' h => (by cases h), fun m' h => (by cases h; exact (ih2 hs).2 _ hcl)⟩
  · intro fuel all r rest i st h1 h2 h3 h4 st'' hcl ih2 ih1 hs
    rw [compileLoop_cons h1, if_neg h2, if_pos h3, if_pos h4, hcl]
    exact ih1 (show AllSafe st''.stages from (ih2 hs).1 _ hcl)
  · intro fuel all r rest i st h1 h2 h3 h4 ih hs
    rw [compileLoop_cons h1, if_neg h2, if_pos h3, if_neg h4]
    exact ih hs
  · intro fuel all r rest i st h1 h2 h3 ih hs
    rw [compileLoop_cons h1, if_neg h2, if_neg h3]
    exact ih hs
  -- closeStatement
  · intro fuel all i st args hargs hs
    simp only [closeStatement]
    rw [show splitArgs st.sb = [] from hargs]
    exact ⟨fun st' h => (by cases h; exact hs), fun m h => (by cases h)⟩
  · intro fuel all i st args a hargs hs
    simp only [closeStatement]
    rw [show splitArgs st.sb = [a] from hargs]
    exact ⟨fun st' h => (by cases h; exact hs.append (AllSafe.single (stageSimpleVariable_safe a))), fun m h => (by cases h)⟩
  · intro fuel all i st args name fargs hne hargs hreg' hs
    simp only [closeStatement]
    rw [show splitArgs st.sb = name :: fargs from hargs]
    cases fargs with
    | nil => exact absurd rfl hne
    | cons b r =>
      simp only [hreg']
      exact ⟨fun st' h => (by cases h; exact hs.append (AllSafe.single (Safe.lit _))), fun m h => (by cases h)⟩
  · intro fuel all i st args name fargs hne hargs f hreg' m hca ih3 hs
    simp only [closeStatement]
    rw [show splitArgs st.sb = name :: fargs from hargs]
    cases fargs with
    | nil => exact absurd rfl hne
    | cons b r =>
      simp only [hreg', hca]
      exact ⟨fun st' h => (by cases h), fun m' h => (by cases h; exact ih3.2 _ hca)⟩
  · intro fuel all i st args name fargs hne hargs f hreg' cargs aerrs hca m hf ih3 hs
    -- a safe builder on safe arguments does not fail
    have hsafe := ih3.1 _ hca
    obtain ⟨built, hb, _⟩ := hreg name f hreg' cargs hsafe
    rw [hf] at hb; cases hb
  · intro fuel all i st args name fargs hne hargs f hreg' cargs aerrs hca b hf ih3 hs
    have hsafe := ih3.1 _ hca
    obtain ⟨built, hb, hst⟩ := hreg name f hreg' cargs hsafe
    rw [hf] at hb
    simp only [Except.ok.injEq] at hb
    subst hb
    simp only [closeStatement]
    rw [show splitArgs st.sb = name :: fargs from hargs]
    cases fargs with
    | nil => exact absurd rfl hne
    | cons b' r =>
      simp only [hreg', hca, hf]
      refine ⟨fun st' h => ?_, fun m h => (by cases h)⟩
      cases h
      show AllSafe (match b.stage with | some s => st.stages ++ [s] | none => st.stages)
      split
      · rename_i s hs'
        exact hs.append (AllSafe.single (hst s hs'))
      · exact hs
  -- compileArgs
  · intro fuel
    exact ⟨fun r h => (by simp [compileArgs] at h; rw [← h]; intro s hs; simp at hs), fun m h => (by simp [compileArgs] at h)⟩
  · intro fuel a rest m hcf ih4
    unfold S3
    simp only [compileArgs, hcf]
    exact ⟨fun r h => (by cases h), fun m' h => (by cases h; exact ih4.2 _ hcf)⟩
  · intro fuel a rest cargs aerrs hcf m hca ih4 ih3
    unfold S3
    simp only [compileArgs, hcf, hca]
    exact ⟨fun r h => (by cases h), fun m' h => (by cases h; exact ih3.2 _ hca)⟩
  · intro fuel a rest cargs aerrs hcf cargs' aerrs' hca ih4 ih3
    unfold S3
    simp only [compileArgs, hcf, hca]
    refine ⟨fun r h => ?_, fun m h => (by cases h)⟩
    cases h
    intro s hs
    simp only [List.mem_cons] at hs
    rcases hs with rfl | hs
    · exact Safe.join (ih4.1 _ _ hcf)
    · exact ih3.1 _ hca s hs
  -- compileF
  · intro t
    exact ⟨fun s e h => (by simp [compileF] at h), fun m h => (by simp [compileF] at h; exact h.symm)⟩
  · intro t fuel m hl ih1
    unfold S4
    simp only [compileF, hl]
    exact ⟨fun s e h => (by cases h), fun m' h => (by cases h; exact (ih1 (fun x hx => by simp at hx)).2 _ hl)⟩
  · intro t fuel st' hl stages hopt m ho ih1
    -- optimize of safe stages cannot fail
    have hsafe : AllSafe (if st'.sb.isEmpty = true then st'.stages else st'.stages ++ [Stage.lit (charsToBytes st'.sb)]) := by
      have := (ih1 (fun x hx => by simp at hx)).1 _ hl
      split
      · exact this
      · exact this.append (AllSafe.single (Safe.lit _))
    obtain ⟨out, hout, _⟩ := optimizeGo_safe _ [] [] hsafe (fun x hx => by simp at hx)
    have : optimize (if st'.sb.isEmpty = true then st'.stages else st'.stages ++ [Stage.lit (charsToBytes st'.sb)]) = .error m := ho
    rw [optimize, hout] at this; cases this
  · intro t fuel st' hl stages hopt s0 ho ih1
    unfold S4
    have hsafe : AllSafe (if st'.sb.isEmpty = true then st'.stages else st'.stages ++ [Stage.lit (charsToBytes st'.sb)]) := by
      have := (ih1 (fun x hx => by simp at hx)).1 _ hl
      split
      · exact this
      · exact this.append (AllSafe.single (Safe.lit _))
    obtain ⟨out, hout, hos⟩ := optimizeGo_safe _ [] [] hsafe (fun x hx => by simp at hx)
    have ho' : optimize (if st'.sb.isEmpty = true then st'.stages else st'.stages ++ [Stage.lit (charsToBytes st'.sb)]) = .ok s0 := ho
    have : out = s0 := by rw [optimize, hout] at ho'; cases ho'; rfl
    subst this
    refine ⟨fun s e h => ?_, fun m h => ?_⟩
    · rw [compileF, hl] at h
      simp only [hopt, if_true, ho'] at h
      cases h; exact hos
    · rw [compileF, hl] at h
      simp only [hopt, if_true, ho'] at h
      cases h
  · intro t fuel st' hl hopt ih1
    unfold S4
    have hsafe : AllSafe (if st'.sb.isEmpty = true then st'.stages else st'.stages ++ [Stage.lit (charsToBytes st'.sb)]) := by
      have := (ih1 (fun x hx => by simp at hx)).1 _ hl
      split
      · exact this
      · exact this.append (AllSafe.single (Safe.lit _))
    refine ⟨fun s e h => ?_, fun m h => ?_⟩
    · rw [compileF, hl] at h
      simp only [hopt, if_false] at h
      cases h; exact hsafe
    · rw [compileF, hl] at h
      simp only [hopt, if_false] at h
      cases h

/-- With safe builders, compilation either succeeds with safe stages or ran out of fuel. -/
theorem compileF_safe (reg : Registry) (hreg : SafeRegistry reg) (opt : Bool) (fuel : Nat) (t : List Char) :
    (∀ s e, compileF fuel reg opt t = .ok (s, e) → AllSafe s) ∧
    (∀ m, compileF fuel reg opt t = .error m → m = "out of fuel") :=
  (safe_mutual reg hreg opt).2.2.2 fuel t

end Rare.Expr

namespace Rare.Expr

/-! ### with safe builders and enough fuel, compilation succeeds (never panics, never runs out of fuel) -/

theorem splitStep_size (s : SplitSt) (r : Char) :
    (splitStep s r).sb.length + ((splitStep s r).args.map List.length).sum ≤ s.sb.length + (s.args.map List.length).sum + 1 := by
  unfold splitStep
  repeat' split
  all_goals simp <;> omega

theorem splitFold_size (t : List Char) : ∀ s : SplitSt,
    (t.foldl splitStep s).sb.length + ((t.foldl splitStep s).args.map List.length).sum
      ≤ s.sb.length + (s.args.map List.length).sum + t.length := by
  induction t with
  | nil => intro s; simp
  | cons r rest ih =>
    intro s
    have h1 := ih (splitStep s r)
    have h2 := splitStep_size s r
    simp only [List.foldl_cons, List.length_cons]
    omega

theorem mem_length_le_sum {a : List Char} {l : List (List Char)} (h : a ∈ l) : a.length ≤ (l.map List.length).sum := by
  induction l with
  | nil => simp at h
  | cons x xs ih =>
    simp only [List.mem_cons] at h
    rcases h with rfl | h
    · simp
    · have := ih h; simp; omega

/-- Every argument produced by the splitter is no longer than the text it was split from. -/
theorem splitArgs_len {a t : List Char} (h : a ∈ splitArgs t) : a.length ≤ t.length := by
  unfold splitArgs at h
  have hs := splitFold_size t SplitSt.init
  have h0 : SplitSt.init.sb.length + (SplitSt.init.args.map List.length).sum = 0 := rfl
  dsimp only at h
  generalize t.foldl splitStep SplitSt.init = s at hs h
  split at h
  · have := mem_length_le_sum h; omega
  · rcases List.mem_append.mp h with h | h
    · have := mem_length_le_sum h; omega
    · simp at h; rw [h]; omega

def F1 (reg : Registry) (opt : Bool) (fuel : Nat) (all rs : List Char) (i : Nat) (st : CompSt) : Prop :=
  AllSafe st.stages → st.sb.length + rs.length ≤ fuel → ∃ st', compileLoop fuel reg opt all rs i st = .ok st'
def F2 (reg : Registry) (opt : Bool) (fuel : Nat) (all : List Char) (i : Nat) (st : CompSt) : Prop :=
  AllSafe st.stages → st.sb.length < fuel → ∃ st', closeStatement fuel reg opt all i st = .ok st'
def F3 (reg : Registry) (opt : Bool) (fuel : Nat) (as : List (List Char)) : Prop :=
  (∀ a ∈ as, a.length < fuel) → ∃ r, compileArgs fuel reg opt as = .ok r
def F4 (reg : Registry) (opt : Bool) (fuel : Nat) (t : List Char) : Prop :=
  t.length < fuel → ∃ r, compileF fuel reg opt t = .ok r

theorem total_mutual (reg : Registry) (hreg : SafeRegistry reg) (opt : Bool) :
    (∀ fuel all rs i st, F1 reg opt fuel all rs i st) ∧ (∀ fuel all i st, F2 reg opt fuel all i st) ∧
    (∀ fuel as, F3 reg opt fuel as) ∧ (∀ fuel t, F4 reg opt fuel t) := by
  have hS := safe_mutual reg hreg opt
  apply compileLoop.mutual_induct reg opt (F1 reg opt) (F2 reg opt) (F3 reg opt) (F4 reg opt)
  -- compileLoop
  · intro fuel all x st _ _; exact ⟨st, by simp [compileLoop]⟩
  · intro fuel all i st _ _; simp only [compileLoop, if_true]; exact ⟨_, rfl⟩
  · intro fuel all i st e rest' ih hs hl
    simp only [compileLoop, if_true]
    exact ih hs (by simp at hl ⊢; omega)
  · intro fuel all rest i st h0 stages sb hne ih hs hl
    rw [compileLoop_cons hne]
    simp only [if_true, h0]
    apply ih
    · show AllSafe (if st.sb.isEmpty = true then st.stages else st.stages ++ [Stage.lit (charsToBytes st.sb)])
      split
      · exact hs
      · exact hs.append (AllSafe.single (Safe.lit _))
    · show (if st.sb.isEmpty = true then st.sb else []).length + rest.length ≤ fuel
      simp at hl
      split <;> (try simp) <;> omega
  · intro fuel all rest i st h0 hne ih hs hl
    rw [compileLoop_cons hne]
    simp only [if_true, h0, if_false]
    exact ih hs (by simp at hl ⊢; omega)
  · intro fuel all r rest i st h1 h2 h3 h4 m hcl ih2 hs hl
    obtain ⟨st', h'⟩ := ih2 hs (by simp at hl; omega)
    rw [hcl] at h'; cases h'
  · intro fuel all r rest i st h1 h2 h3 h4 st'' hcl ih2 ih1 hs hl
    rw [compileLoop_cons h1, if_neg h2, if_pos h3, if_pos h4, hcl]
    exact ih1 (show AllSafe st''.stages from (hS.2.1 fuel all i st hs).1 _ hcl) (by simp at hl ⊢; omega)
  · intro fuel all r rest i st h1 h2 h3 h4 ih hs hl
    rw [compileLoop_cons h1, if_neg h2, if_pos h3, if_neg h4]
    exact ih hs (by simp at hl ⊢; omega)
  · intro fuel all r rest i st h1 h2 h3 ih hs hl
    rw [compileLoop_cons h1, if_neg h2, if_neg h3]
    exact ih hs (by simp at hl ⊢; omega)
  -- closeStatement
  · intro fuel all i st args hargs hs hl
    simp only [closeStatement]
    rw [show splitArgs st.sb = [] from hargs]
    exact ⟨_, rfl⟩
  · intro fuel all i st args a hargs hs hl
    simp only [closeStatement]
    rw [show splitArgs st.sb = [a] from hargs]
    exact ⟨_, rfl⟩
  · intro fuel all i st args name fargs hne hargs hreg' hs hl
    simp only [closeStatement]
    rw [show splitArgs st.sb = name :: fargs from hargs]
    cases fargs with
    | nil => exact absurd rfl hne
    | cons b r => simp only [hreg']; exact ⟨_, rfl⟩
  · intro fuel all i st args name fargs hne hargs f hreg' m hca ih3 hs hl
    have hlen : ∀ a ∈ fargs, a.length < fuel := by
      intro a ha
      have : a ∈ splitArgs st.sb := by rw [show splitArgs st.sb = name :: fargs from hargs]; simp [ha]
      have := splitArgs_len this; omega
    obtain ⟨r, hr⟩ := ih3 hlen
    rw [hca] at hr; cases hr
  · intro fuel all i st args name fargs hne hargs f hreg' cargs aerrs hca m hf ih3 hs hl
    have hsafe := (hS.2.2.1 fuel fargs).1 _ hca
    obtain ⟨built, hb, _⟩ := hreg name f hreg' cargs hsafe
    rw [hf] at hb; cases hb
  · intro fuel all i st args name fargs hne hargs f hreg' cargs aerrs hca b hf ih3 hs hl
    simp only [closeStatement]
    rw [show splitArgs st.sb = name :: fargs from hargs]
    cases fargs with
    | nil => exact absurd rfl hne
    | cons b' r => simp only [hreg', hca, hf]; exact ⟨_, rfl⟩
  -- compileArgs
  · intro fuel _; simp only [compileArgs]; exact ⟨_, rfl⟩
  · intro fuel a rest m hcf ih4 hl
    obtain ⟨r, hr⟩ := ih4 (hl a (by simp))
    rw [hcf] at hr; cases hr
  · intro fuel a rest cargs aerrs hcf m hca ih4 ih3 hl
    obtain ⟨r, hr⟩ := ih3 (fun x hx => hl x (by simp [hx]))
    rw [hca] at hr; cases hr
  · intro fuel a rest cargs aerrs hcf cargs' aerrs' hca ih4 ih3 hl
    simp only [compileArgs, hcf, hca]
    exact ⟨_, rfl⟩
  -- compileF
  · intro t hl; omega
  · intro t fuel m hl ih1 hlen
    obtain ⟨st', h'⟩ := ih1 (fun x hx => by simp at hx) (by simp; omega)
    rw [hl] at h'; cases h'
  · intro t fuel st' hl stages hopt m ho ih1 hlen
    have hsafe : AllSafe (if st'.sb.isEmpty = true then st'.stages else st'.stages ++ [Stage.lit (charsToBytes st'.sb)]) := by
      have := (hS.1 fuel t t 0 _ (fun x hx => by simp at hx)).1 _ hl
      split
      · exact this
      · exact this.append (AllSafe.single (Safe.lit _))
    obtain ⟨out, hout, _⟩ := optimizeGo_safe _ [] [] hsafe (fun x hx => by simp at hx)
    have : optimize (if st'.sb.isEmpty = true then st'.stages else st'.stages ++ [Stage.lit (charsToBytes st'.sb)]) = .error m := ho
    rw [optimize, hout] at this; cases this
  · intro t fuel st' hl stages hopt s0 ho ih1
    unfold F4
    intro _
    have ho' : optimize (if st'.sb.isEmpty = true then st'.stages else st'.stages ++ [Stage.lit (charsToBytes st'.sb)]) = .ok s0 := ho
    rw [compileF, hl]
    simp only [hopt, if_true, ho']
    exact ⟨_, rfl⟩
  · intro t fuel st' hl hopt ih1
    unfold F4
    intro _
    rw [compileF, hl]
    simp only [hopt, if_false]
    exact ⟨_, rfl⟩

/-- **Compilation is total.**  For a registry of safe function builders, every template compiles (with
    or without optimisation): the compiler neither panics nor fails to return, and every compiled stage
    is panic-free. -/
theorem compile_total (reg : Registry) (hreg : SafeRegistry reg) (opt : Bool) (t : List Char) :
    ∃ stages errs, compile reg opt t = .ok (stages, errs) ∧ AllSafe stages := by
  obtain ⟨r, hr⟩ := (total_mutual reg hreg opt).2.2.2 (t.length + 1) t (by omega)
  obtain ⟨stages, errs⟩ := r
  exact ⟨stages, errs, hr, (compileF_safe reg hreg opt _ t).1 _ _ hr⟩

/-- **Evaluation is total.**  Evaluating what `compile` produced against any context returns a string. -/
theorem eval_total (reg : Registry) (hreg : SafeRegistry reg) (opt : Bool) (t : List Char) (ctx : Ctx) :
    ∃ stages errs v, compile reg opt t = .ok (stages, errs) ∧ (buildKey stages).run ctx = .ok v := by
  obtain ⟨stages, errs, hc, hs⟩ := compile_total reg hreg opt t
  obtain ⟨v, hv⟩ := (Safe.concat hs).run ctx
  exact ⟨stages, errs, v, hc, hv⟩

end Rare.Expr
