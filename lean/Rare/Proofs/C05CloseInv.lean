import Rare.Proofs.C05CloseProg
/-!
# What the status line shows WHILE the readers run (C05, Model/C05CloseProg.lean)

In every reachable state, for any exit block made of `stopFileReading` / `wg.Done()` in any order:
`readBytes ≤ sentBytes` (the byte counter never runs ahead of what was handed to the batch channel: `incReadBytes`
follows the send) and `active + readCount ≤ number of sources` (a source is never listed as active and counted as
read at the same time, nor counted twice).
-/
namespace Rare.C05Prog

def quiet : Act → Bool
  | .send _ => false
  | .inc _ => false
  | _ => true

theorem foldl_quiet (l : List Act) (t : RStat) (h : ∀ a ∈ l, quiet a = true) :
    (l.foldl RStat.step t).bytes = t.bytes ∧ (l.foldl RStat.step t).sent = t.sent := by
  induction l generalizing t with
  | nil => exact ⟨rfl, rfl⟩
  | cons a l ih =>
    have ha := h a (by simp)
    have := ih (t.step a) (fun b hb => h b (by simp [hb]))
    simp only [List.foldl_cons]
    rw [this.1, this.2]
    cases a <;> simp_all [quiet, RStat.step] <;> split <;> simp

theorem foldl_batches_prefix (bs : List Nat) (tail l : List Act) (t : RStat) (ht : ∀ a ∈ tail, quiet a = true)
    (hl : l <+: (bs.flatMap fun b => [Act.send b, Act.inc b]) ++ tail) (h0 : t.bytes ≤ t.sent) :
    (l.foldl RStat.step t).bytes ≤ (l.foldl RStat.step t).sent := by
  induction bs generalizing l t with
  | nil =>
    have hq : ∀ a ∈ l, quiet a = true := fun a ha => ht a (by simpa using hl.subset ha)
    have := foldl_quiet l t hq
    rw [this.1, this.2]; exact h0
  | cons b bs ih =>
    simp only [List.flatMap_cons, List.cons_append, List.nil_append] at hl
    rcases List.prefix_cons_iff.mp hl with rfl | ⟨l1, rfl, hl1⟩
    · exact h0
    · rcases List.prefix_cons_iff.mp hl1 with rfl | ⟨l2, rfl, hl2⟩
      · simp [RStat.step]; omega
      · simp only [List.foldl_cons]
        exact ih l2 _ hl2 (by simp [RStat.step]; omega)

/-- Per source: whatever prefix of its program has been executed, the bytes counted are bytes already sent. -/
theorem prefix_bytes_le_sent (exit : List Act) (hex : ∀ a ∈ exit, quiet a = true) (f : Src) (l : List Act)
    (hl : l <+: prog exit f) : (statOf l).bytes ≤ (statOf l).sent := by
  cases f with
  | none =>
    have hq : ∀ a ∈ l, quiet a = true := by
      intro a ha
      have := hl.subset ha
      simp only [prog, body, List.cons_append, List.nil_append, List.mem_cons] at this
      rcases this with rfl | h
      · rfl
      · exact hex a h
    have := foldl_quiet l {} hq
    simp only [statOf]; rw [this.1, this.2]; exact Nat.le_refl _
  | some bs =>
    simp only [prog, body, List.cons_append] at hl
    rcases List.prefix_cons_iff.mp hl with rfl | ⟨l1, rfl, hl1⟩
    · exact Nat.le_refl _
    · simp only [statOf, List.foldl_cons]
      exact foldl_batches_prefix bs exit l1 _ hex hl1 (Nat.le_refl _)

/-- `slot t` = 1 when the source is listed as active, plus the times it was counted as read. -/
def slot (t : RStat) : Nat := (if t.active then 1 else 0) + t.read

theorem foldl_slot (l : List Act) (t : RStat) (h : ∀ a ∈ l, a ≠ Act.opened) :
    slot (l.foldl RStat.step t) = slot t := by
  induction l generalizing t with
  | nil => rfl
  | cons a l ih =>
    simp only [List.foldl_cons]
    rw [ih (t.step a) (fun b hb => h b (by simp [hb]))]
    have ha := h a (by simp)
    cases a with
    | opened => exact absurd rfl ha
    | stop =>
      simp only [RStat.step, slot]
      by_cases hact : t.active = true
      · simp [hact]; omega
      · have hf : t.active = false := by cases h' : t.active <;> simp_all
        simp [hf]
    | err => rfl
    | send b => rfl
    | inc b => rfl
    | done => rfl

theorem prefix_slot_le_one (exit : List Act) (hex : ∀ a ∈ exit, a = Act.stop ∨ a = Act.done) (f : Src) (l : List Act)
    (hl : l <+: prog exit f) : slot (statOf l) ≤ 1 := by
  have hexit : ∀ a ∈ exit, a ≠ Act.opened := by
    intro a ha; rcases hex a ha with rfl | rfl <;> simp
  cases f with
  | none =>
    have : ∀ a ∈ l, a ≠ Act.opened := by
      intro a ha
      have := hl.subset ha
      simp only [prog, body, List.cons_append, List.nil_append, List.mem_cons] at this
      rcases this with rfl | h
      · simp
      · exact hexit a h
    simp only [statOf]; rw [foldl_slot l {} this]; simp [slot]
  | some bs =>
    simp only [prog, body, List.cons_append] at hl
    rcases List.prefix_cons_iff.mp hl with rfl | ⟨l1, rfl, hl1⟩
    · simp [statOf, slot]
    · have : ∀ a ∈ l1, a ≠ Act.opened := by
        intro a ha
        have := hl1.subset ha
        simp only [List.mem_append, List.mem_flatMap, List.mem_cons, List.not_mem_nil, or_false] at this
        rcases this with ⟨b, _, rfl | rfl⟩ | h
        · simp
        · simp
        · exact hexit a h
      simp only [statOf, List.foldl_cons]
      rw [foldl_slot l1 _ this]; simp [slot, RStat.step]

theorem sum_le_sum {α : Type} (l : List α) (g h : α → Nat) (hle : ∀ a ∈ l, g a ≤ h a) :
    (l.map g).sum ≤ (l.map h).sum := by
  induction l with
  | nil => exact Nat.le_refl _
  | cons a r ih =>
    have h1 := hle a (by simp)
    have h2 := ih (fun b hb => hle b (by simp [hb]))
    simp only [List.map_cons, List.sum_cons]; omega

theorem sum_add {α : Type} (l : List α) (g h : α → Nat) :
    (l.map fun a => g a + h a).sum = (l.map g).sum + (l.map h).sum := by
  induction l with
  | nil => rfl
  | cons a r ih => simp only [List.map_cons, List.sum_cons, ih]; omega

/-- **While the readers run**: in every reachable state the byte counter is not ahead of the bytes handed to the
    channel, and active + read never exceeds the number of sources. -/
theorem running_status_bounds (exit : List Act) (hex : ∀ a ∈ exit, a = Act.stop ∨ a = Act.done) (fs : List Src)
    {s : St} (hr : Reach (init (fs.map (prog exit))) s) :
    readBytes s ≤ sentBytes s ∧ active s + readCount s ≤ fs.length := by
  have h := inv_reach hr
  have hq : ∀ a ∈ exit, quiet a = true := by
    intro a ha; rcases hex a ha with rfl | rfl <;> rfl
  have hpre : ∀ r ∈ s.rs, ∃ f, r.exec <+: prog exit f := by
    intro r hrm
    have hp : r.exec ++ r.todo ∈ fs.map (prog exit) := by
      rw [← h.prog]; exact List.mem_map.mpr ⟨r, hrm, rfl⟩
    obtain ⟨f, _, hf⟩ := List.mem_map.mp hp
    exact ⟨f, by rw [hf]; exact List.prefix_append _ _⟩
  have hlen : s.rs.length = fs.length := by
    have := congrArg List.length h.prog
    simpa using this
  constructor
  · exact sum_le_sum s.rs _ _ fun r hrm => by
      obtain ⟨f, hf⟩ := hpre r hrm
      exact prefix_bytes_le_sent exit hq f r.exec hf
  · have h1 : active s = (s.rs.map fun r => if (statOf r.exec).active then 1 else 0).sum :=
      (sum_ite_eq_filter_length (fun r : R => (statOf r.exec).active) s.rs).symm
    have h2 : active s + readCount s = (s.rs.map fun r => slot (statOf r.exec)).sum := by
      rw [h1, readCount, ← sum_add]; rfl
    have h3 : (s.rs.map fun r => slot (statOf r.exec)).sum ≤ (s.rs.map fun _ => 1).sum :=
      sum_le_sum s.rs _ _ fun r hrm => by
        obtain ⟨f, hf⟩ := hpre r hrm
        exact prefix_slot_le_one exit hex f r.exec hf
    have h4 : (s.rs.map fun _ => 1).sum = s.rs.length := by
      generalize s.rs = l
      induction l with
      | nil => rfl
      | cons a r ih => simp only [List.map_cons, List.sum_cons, List.length_cons, ih]; omega
    omega

end Rare.C05Prog
