import Rare.Proofs.LocksetHB
/-!
# The lockset argument over a trace model with RWMutex, atomics and `go` edges (C05)

`Proofs/LocksetHB.lean` proves "same exclusive mutex held ⇒ ordered by happens-before".  The tables the race check
runs on (`Gen.Access`, `Lockset.safePair`) use three disciplines, though: both accesses atomic · both hold the same
mutex, AT LEAST ONE of them exclusively (`sync.RWMutex`: the logger's printers hold `RLock`, `DeferLogs` /
`ImmediateLogs` hold `Lock`) · ordered by a `go` statement.  This file proves that these three are enough, over a
trace semantics that has them:

* events: `lock m` / `unlock m` / `rlock m` / `runlock m` (sync.Mutex is the RWMutex nobody r-locks), an access to a
  location (write?, atomic?), `spawn t` (the `go` statement that starts thread `t`), anything else;
* `Exec tr hs`: `hs k` = who holds what before event `k` (exclusive holder, multiset of read holders); `lock` needs
  the mutex free of both, `rlock` needs no exclusive holder, `unlock` / `runlock` need the caller to hold it; a spawned
  thread has no event before its `spawn`;
* happens-before (go.dev/ref/mem): program order; `Unlock` → every later `Lock` and `RLock`; `RUnlock` → every later
  `Lock`; the `go` statement → every event of the started goroutine; transitive closure;
* a data race: two conflicting accesses (same location, one a write, NOT both atomic) of different threads not
  ordered by happens-before.

`rw_mutex_orders`: two events whose threads hold the same mutex, at least one exclusively, are ordered.
`discipline_no_race`: if every conflicting pair follows one of the three disciplines there is no data race.
(Channel edges – the `outputDone` hand-shake – are not in this model; `raceFreeRoles` uses them for `aggLoop`.)
-/
namespace Rare.Lockset.HB2
open Rare.Lockset.HB (lost_between gained_between)

inductive Op where
  | lock (m : Nat)
  | unlock (m : Nat)
  | rlock (m : Nat)
  | runlock (m : Nat)
  | acc (x : Nat) (write atomic : Bool)
  | spawn (t : Nat)
  | other
  deriving DecidableEq, Repr

structure Ev where
  tid : Nat
  op : Op
  deriving DecidableEq, Repr

structure Locks where
  w : Nat → Option Nat      -- exclusive holder
  r : Nat → List Nat        -- read holders (a thread may hold several read locks)

def step (h : Locks) (e : Ev) : Option Locks :=
  match e.op with
  | .lock m => if h.w m = none ∧ h.r m = [] then some { h with w := fun x => if x = m then some e.tid else h.w x } else none
  | .unlock m => if h.w m = some e.tid then some { h with w := fun x => if x = m then none else h.w x } else none
  | .rlock m => if h.w m = none then some { h with r := fun x => if x = m then e.tid :: h.r x else h.r x } else none
  | .runlock m => if e.tid ∈ h.r m then some { h with r := fun x => if x = m then (h.r x).erase e.tid else h.r x } else none
  | _ => some h

structure Exec (tr : List Ev) (hs : Nat → Locks) : Prop where
  initw : ∀ m, (hs 0).w m = none
  initr : ∀ m, (hs 0).r m = []
  next : ∀ k e, tr[k]? = some e → step (hs k) e = some (hs (k + 1))
  /-- a goroutine does nothing before the `go` statement that starts it -/
  fresh : ∀ (k : Nat) (e : Ev) (t : Nat), tr[k]? = some e → e.op = Op.spawn t →
    ∀ (i : Nat) (e' : Ev), i ≤ k → tr[i]? = some e' → e'.tid ≠ t

inductive HB (tr : List Ev) : Nat → Nat → Prop
  | po {i j : Nat} {a b : Ev} : i < j → tr[i]? = some a → tr[j]? = some b → a.tid = b.tid → HB tr i j
  | swLock {i j : Nat} {a b : Ev} {m : Nat} : i < j → tr[i]? = some a → tr[j]? = some b →
      (a.op = .unlock m ∨ a.op = .runlock m) → b.op = .lock m → HB tr i j
  | swRLock {i j : Nat} {a b : Ev} {m : Nat} : i < j → tr[i]? = some a → tr[j]? = some b →
      a.op = .unlock m → b.op = .rlock m → HB tr i j
  | go {i j : Nat} {a b : Ev} {t : Nat} : i < j → tr[i]? = some a → tr[j]? = some b →
      a.op = .spawn t → b.tid = t → HB tr i j
  | trans {i j k : Nat} : HB tr i j → HB tr j k → HB tr i k

/-- Thread `t` holds mutex `m` – exclusively (`excl`) or as a reader. -/
def Holds (h : Locks) (m t : Nat) (excl : Bool) : Prop := if excl then h.w m = some t else t ∈ h.r m

instance (h : Locks) (m t : Nat) (excl : Bool) : Decidable (Holds h m t excl) := by
  unfold Holds; exact inferInstance

def Conflict (a b : Ev) : Prop :=
  ∃ x w1 a1 w2 a2, a.op = .acc x w1 a1 ∧ b.op = .acc x w2 a2 ∧ (w1 = true ∨ w2 = true) ∧ ¬ (a1 = true ∧ a2 = true)

def Race (tr : List Ev) : Prop :=
  ∃ i j a b, i < j ∧ tr[i]? = some a ∧ tr[j]? = some b ∧ Conflict a b ∧ a.tid ≠ b.tid ∧ ¬ HB tr i j

/-! ### One step -/

theorem w_loses {h h' : Locks} {e : Ev} {m t : Nat} (hs : step h e = some h')
    (h1 : h.w m = some t) (h2 : h'.w m ≠ some t) : e.tid = t ∧ e.op = .unlock m ∧ h'.w m = none ∧ h'.r m = h.r m := by
  cases hop : e.op with
  | lock m' =>
    simp only [step, hop] at hs
    split at hs
    · rename_i hfree
      cases hs
      by_cases hm : m = m'
      · subst hm; rw [h1] at hfree; exact absurd hfree.1 (by simp)
      · simp [hm] at h2; exact absurd h1 h2
    · cases hs
  | unlock m' =>
    simp only [step, hop] at hs
    split at hs
    · rename_i hheld
      cases hs
      by_cases hm : m = m'
      · subst hm; rw [h1] at hheld
        exact ⟨(Option.some.inj hheld).symm, rfl, by simp, rfl⟩
      · simp [hm] at h2; exact absurd h1 h2
    · cases hs
  | rlock m' =>
    simp only [step, hop] at hs
    split at hs
    · cases hs; exact absurd h1 h2
    · cases hs
  | runlock m' =>
    simp only [step, hop] at hs
    split at hs
    · cases hs; exact absurd h1 h2
    · cases hs
  | acc x w a => simp only [step, hop] at hs; cases hs; exact absurd h1 h2
  | spawn t' => simp only [step, hop] at hs; cases hs; exact absurd h1 h2
  | other => simp only [step, hop] at hs; cases hs; exact absurd h1 h2

theorem w_gains {h h' : Locks} {e : Ev} {m t : Nat} (hs : step h e = some h')
    (h1 : h.w m ≠ some t) (h2 : h'.w m = some t) : e.tid = t ∧ e.op = .lock m := by
  cases hop : e.op with
  | lock m' =>
    simp only [step, hop] at hs
    split at hs
    · cases hs
      by_cases hm : m = m'
      · subst hm; simp at h2; exact ⟨h2, rfl⟩
      · simp [hm] at h2; exact absurd h2 h1
    · cases hs
  | unlock m' =>
    simp only [step, hop] at hs
    split at hs
    · cases hs
      by_cases hm : m = m'
      · subst hm; simp at h2
      · simp [hm] at h2; exact absurd h2 h1
    · cases hs
  | rlock m' =>
    simp only [step, hop] at hs
    split at hs
    · cases hs; exact absurd h2 h1
    · cases hs
  | runlock m' =>
    simp only [step, hop] at hs
    split at hs
    · cases hs; exact absurd h2 h1
    · cases hs
  | acc x w a => simp only [step, hop] at hs; cases hs; exact absurd h2 h1
  | spawn t' => simp only [step, hop] at hs; cases hs; exact absurd h2 h1
  | other => simp only [step, hop] at hs; cases hs; exact absurd h2 h1

theorem r_loses {h h' : Locks} {e : Ev} {m t : Nat} (hs : step h e = some h')
    (h1 : t ∈ h.r m) (h2 : t ∉ h'.r m) : e.tid = t ∧ e.op = .runlock m ∧ h'.w m = h.w m := by
  cases hop : e.op with
  | lock m' =>
    simp only [step, hop] at hs
    split at hs
    · rename_i hfree
      cases hs
      by_cases hm : m = m'
      · subst hm; rw [hfree.2] at h1; cases h1
      · exact absurd h1 h2
    · cases hs
  | unlock m' =>
    simp only [step, hop] at hs
    split at hs
    · cases hs; exact absurd h1 h2
    · cases hs
  | rlock m' =>
    simp only [step, hop] at hs
    split at hs
    · cases hs
      by_cases hm : m = m'
      · subst hm; simp at h2; exact absurd h1 h2.2
      · simp [hm] at h2; exact absurd h1 h2
    · cases hs
  | runlock m' =>
    simp only [step, hop] at hs
    split at hs
    · cases hs
      by_cases hm : m = m'
      · subst hm
        simp at h2
        by_cases ht : e.tid = t
        · exact ⟨ht, rfl, rfl⟩
        · exact absurd ((List.mem_erase_of_ne (fun h => ht h.symm)).mpr h1) h2
      · simp [hm] at h2; exact absurd h1 h2
    · cases hs
  | acc x w a => simp only [step, hop] at hs; cases hs; exact absurd h1 h2
  | spawn t' => simp only [step, hop] at hs; cases hs; exact absurd h1 h2
  | other => simp only [step, hop] at hs; cases hs; exact absurd h1 h2

theorem r_gains {h h' : Locks} {e : Ev} {m t : Nat} (hs : step h e = some h')
    (h1 : t ∉ h.r m) (h2 : t ∈ h'.r m) : e.tid = t ∧ e.op = .rlock m := by
  cases hop : e.op with
  | lock m' =>
    simp only [step, hop] at hs
    split at hs
    · cases hs; exact absurd h2 h1
    · cases hs
  | unlock m' =>
    simp only [step, hop] at hs
    split at hs
    · cases hs; exact absurd h2 h1
    · cases hs
  | rlock m' =>
    simp only [step, hop] at hs
    split at hs
    · cases hs
      by_cases hm : m = m'
      · subst hm
        simp at h2
        rcases h2 with h2 | h2
        · exact ⟨h2.symm, rfl⟩
        · exact absurd h2 h1
      · simp [hm] at h2; exact absurd h2 h1
    · cases hs
  | runlock m' =>
    simp only [step, hop] at hs
    split at hs
    · cases hs
      by_cases hm : m = m'
      · subst hm; simp at h2; exact absurd (List.mem_of_mem_erase h2) h1
      · simp [hm] at h2; exact absurd h2 h1
    · cases hs
  | acc x w a => simp only [step, hop] at hs; cases hs; exact absurd h2 h1
  | spawn t' => simp only [step, hop] at hs; cases hs; exact absurd h2 h1
  | other => simp only [step, hop] at hs; cases hs; exact absurd h2 h1

/-- An exclusive holder excludes readers: preserved by every step. -/
theorem step_excl {h h' : Locks} {e : Ev} (hs : step h e = some h')
    (hi : ∀ m, h.w m ≠ none → h.r m = []) : ∀ m, h'.w m ≠ none → h'.r m = [] := by
  intro m hw
  cases hop : e.op with
  | lock m' =>
    simp only [step, hop] at hs
    split at hs
    · rename_i hfree
      cases hs
      by_cases hm : m = m'
      · subst hm; exact hfree.2
      · simp [hm] at hw; exact hi m hw
    · cases hs
  | unlock m' =>
    simp only [step, hop] at hs
    split at hs
    · cases hs
      by_cases hm : m = m'
      · subst hm; simp at hw
      · simp [hm] at hw; exact hi m hw
    · cases hs
  | rlock m' =>
    simp only [step, hop] at hs
    split at hs
    · rename_i hfree
      cases hs
      by_cases hm : m = m'
      · subst hm; exact absurd hfree hw
      · simp [hm]; exact hi m hw
    · cases hs
  | runlock m' =>
    simp only [step, hop] at hs
    split at hs
    · cases hs
      by_cases hm : m = m'
      · subst hm; simp [hi m hw]
      · simp [hm]; exact hi m hw
    · cases hs
  | acc x w a => simp only [step, hop] at hs; cases hs; exact hi m hw
  | spawn t' => simp only [step, hop] at hs; cases hs; exact hi m hw
  | other => simp only [step, hop] at hs; cases hs; exact hi m hw

theorem excl_inv {tr : List Ev} {hs : Nat → Locks} (hex : Exec tr hs) :
    ∀ k, k ≤ tr.length → ∀ m, (hs k).w m ≠ none → (hs k).r m = [] := by
  intro k
  induction k with
  | zero => intro _ m hw; exact absurd (hex.initw m) hw
  | succ k ih =>
    intro hk
    have hlt : k < tr.length := hk
    exact step_excl (hex.next k _ (List.getElem?_eq_getElem hlt)) (ih (Nat.le_of_lt hlt))

/-! ### The mutex rule for RWMutex -/

/-- **Two events whose threads hold the same mutex, at least one of them exclusively, are ordered by
    happens-before.** -/
theorem rw_mutex_orders {tr : List Ev} {hs : Nat → Locks} (hex : Exec tr hs)
    {i j : Nat} {a b : Ev} (hij : i < j) (ha : tr[i]? = some a) (hb : tr[j]? = some b) {m : Nat} {la lb : Bool}
    (h1 : Holds (hs i) m a.tid la) (h2 : Holds (hs j) m b.tid lb) (hx : la = true ∨ lb = true) : HB tr i j := by
  by_cases hsame : a.tid = b.tid
  · exact .po hij ha hb hsame
  have hj : j ≤ tr.length := by
    have := (List.getElem?_eq_some_iff.mp hb).1; omega
  have hi : i ≤ tr.length := by omega
  -- from a release step `r ≥ i` of `a.tid` and an acquire step `c > r`, `c < j` of `b.tid` with a sw edge between them
  have fin : ∀ r c er ec, i ≤ r → r < c → c < j → tr[r]? = some er → er.tid = a.tid → tr[c]? = some ec →
      ec.tid = b.tid → HB tr r c → HB tr i j := by
    intro r c er ec hir hrc hcj her e1 hec f1 hsw
    have hpo2 : HB tr c j := .po hcj hec hb f1
    by_cases hri : i = r
    · subst hri; exact .trans hsw hpo2
    · exact .trans (.trans (.po (by omega) ha her e1.symm) hsw) hpo2
  cases la with
  | true =>
    have h1' : (hs i).w m = some a.tid := h1
    have hnot : ¬ ((hs j).w m = some a.tid) := by
      cases lb with
      | true =>
        have h2' : (hs j).w m = some b.tid := h2
        rw [h2']; intro h; exact hsame (Option.some.inj h).symm
      | false =>
        have h2' : b.tid ∈ (hs j).r m := h2
        intro h
        have := excl_inv hex j hj m (by rw [h]; simp)
        rw [this] at h2'; cases h2'
    obtain ⟨r, hir, hrj, hpr, hnr⟩ := lost_between (fun k => (hs k).w m = some a.tid) i j (Nat.le_of_lt hij) h1' hnot
    have hrlen : r < tr.length := Nat.lt_of_lt_of_le hrj hj
    have her : tr[r]? = some tr[r] := List.getElem?_eq_getElem hrlen
    obtain ⟨e1, e2, e3, e4⟩ := w_loses (hex.next r _ her) hpr hnr
    cases lb with
    | true =>
      have h2' : (hs j).w m = some b.tid := h2
      have hfree : ¬ ((hs (r + 1)).w m = some b.tid) := by rw [e3]; intro h; cases h
      obtain ⟨c, hrc, hcj, hnc, hpc⟩ := gained_between (fun k => (hs k).w m = some b.tid) (r + 1) j hrj hfree h2'
      have hclen : c < tr.length := Nat.lt_of_lt_of_le hcj hj
      have hec : tr[c]? = some tr[c] := List.getElem?_eq_getElem hclen
      obtain ⟨f1, f2⟩ := w_gains (hex.next c _ hec) hnc hpc
      exact fin r c _ _ hir hrc hcj her e1 hec f1 (.swLock hrc her hec (.inl e2) f2)
    | false =>
      have h2' : b.tid ∈ (hs j).r m := h2
      have hr0 : (hs r).r m = [] := excl_inv hex r (Nat.le_of_lt hrlen) m (by rw [hpr]; simp)
      have hfree : ¬ (b.tid ∈ (hs (r + 1)).r m) := by rw [e4, hr0]; intro h; cases h
      obtain ⟨c, hrc, hcj, hnc, hpc⟩ := gained_between (fun k => b.tid ∈ (hs k).r m) (r + 1) j hrj hfree h2'
      have hclen : c < tr.length := Nat.lt_of_lt_of_le hcj hj
      have hec : tr[c]? = some tr[c] := List.getElem?_eq_getElem hclen
      obtain ⟨f1, f2⟩ := r_gains (hex.next c _ hec) hnc hpc
      exact fin r c _ _ hir hrc hcj her e1 hec f1 (.swRLock hrc her hec e2 f2)
  | false =>
    have hlb : lb = true := by
      cases hx with
      | inl h => cases h
      | inr h => exact h
    subst hlb
    have h1' : a.tid ∈ (hs i).r m := h1
    have h2' : (hs j).w m = some b.tid := h2
    have hrj0 : (hs j).r m = [] := excl_inv hex j hj m (by rw [h2']; simp)
    have hnot : ¬ (a.tid ∈ (hs j).r m) := by rw [hrj0]; intro h; cases h
    obtain ⟨r, hir, hrj, hpr, hnr⟩ := lost_between (fun k => a.tid ∈ (hs k).r m) i j (Nat.le_of_lt hij) h1' hnot
    have hrlen : r < tr.length := Nat.lt_of_lt_of_le hrj hj
    have her : tr[r]? = some tr[r] := List.getElem?_eq_getElem hrlen
    obtain ⟨e1, e2, e3⟩ := r_loses (hex.next r _ her) hpr hnr
    have hw0 : (hs r).w m = none := by
      cases hw : (hs r).w m with
      | none => rfl
      | some t =>
        have := excl_inv hex r (Nat.le_of_lt hrlen) m (by rw [hw]; simp)
        rw [this] at hpr; cases hpr
    have hfree : ¬ ((hs (r + 1)).w m = some b.tid) := by rw [e3, hw0]; intro h; cases h
    obtain ⟨c, hrc, hcj, hnc, hpc⟩ := gained_between (fun k => (hs k).w m = some b.tid) (r + 1) j hrj hfree h2'
    have hclen : c < tr.length := Nat.lt_of_lt_of_le hcj hj
    have hec : tr[c]? = some tr[c] := List.getElem?_eq_getElem hclen
    obtain ⟨f1, f2⟩ := w_gains (hex.next c _ hec) hnc hpc
    exact fin r c _ _ hir hrc hcj her e1 hec f1 (.swLock hrc her hec (.inr e2) f2)

/-- The `go` rule: what a thread does before a `go` statement happens before everything the started goroutine does. -/
theorem go_orders {tr : List Ev} {i k j : Nat} {a c b : Ev} (hik : i ≤ k) (hkj : k < j)
    (ha : tr[i]? = some a) (hc : tr[k]? = some c) (hb : tr[j]? = some b)
    (hta : a.tid = c.tid) (hsp : c.op = .spawn b.tid) : HB tr i j := by
  have hgo : HB tr k j := .go hkj hc hb hsp rfl
  by_cases h : i = k
  · subst h; exact hgo
  · exact .trans (.po (by omega) ha hc hta) hgo

/-- The three disciplines of `Lockset.safePair`, for a pair of events `i < j`. -/
def Safe (tr : List Ev) (hs : Nat → Locks) (i j : Nat) (a b : Ev) : Prop :=
  (∃ m la lb, Holds (hs i) m a.tid la ∧ Holds (hs j) m b.tid lb ∧ (la = true ∨ lb = true)) ∨
  (∃ k c, i ≤ k ∧ k < j ∧ tr[k]? = some c ∧ c.tid = a.tid ∧ c.op = .spawn b.tid)

/-- **The lockset disciplines imply data-race freedom**: if every conflicting pair of accesses of different threads
    (same location, one a write, not both atomic) holds a common mutex – at least one side exclusively – or is
    separated by the `go` statement that started the later one's goroutine, the execution has no data race. -/
theorem discipline_no_race {tr : List Ev} {hs : Nat → Locks} (hex : Exec tr hs)
    (hdisc : ∀ i j a b, i < j → tr[i]? = some a → tr[j]? = some b → Conflict a b → a.tid ≠ b.tid →
      Safe tr hs i j a b) : ¬ Race tr := by
  rintro ⟨i, j, a, b, hij, ha, hb, hc, hne, hnhb⟩
  rcases hdisc i j a b hij ha hb hc hne with ⟨m, la, lb, h1, h2, hx⟩ | ⟨k, c, hik, hkj, hck, htc, hsp⟩
  · exact hnhb (rw_mutex_orders hex hij ha hb h1 h2 hx)
  · exact hnhb (go_orders hik hkj ha hck hb htc.symm hsp)

/-! ### Executions computed from a trace (for the concrete examples) -/

def init : Locks := ⟨fun _ => none, fun _ => []⟩

def statesOf (tr : List Ev) : Nat → Locks
  | 0 => init
  | k + 1 =>
    match tr[k]? with
    | some e => (step (statesOf tr k) e).getD (statesOf tr k)
    | none => statesOf tr k

def stepsOk (tr : List Ev) : Bool :=
  (List.range tr.length).all fun k =>
    match tr[k]? with
    | some e => (step (statesOf tr k) e).isSome
    | none => true

def freshOk (tr : List Ev) : Bool :=
  (List.range tr.length).all fun k =>
    match tr[k]? with
    | some e =>
      (match e.op with
       | .spawn t => (tr.take (k + 1)).all fun e' => e'.tid != t
       | _ => true)
    | none => true

theorem exec_of_checks (tr : List Ev) (h1 : stepsOk tr = true) (h2 : freshOk tr = true) : Exec tr (statesOf tr) := by
  refine ⟨fun _ => rfl, fun _ => rfl, ?_, ?_⟩
  · intro k e hk
    have hlt : k < tr.length := (List.getElem?_eq_some_iff.mp hk).1
    have := List.all_eq_true.mp h1 k (List.mem_range.mpr hlt)
    simp only [hk] at this
    simp only [statesOf, hk]
    cases hst : step (statesOf tr k) e with
    | none => rw [hst] at this; cases this
    | some s' => rfl
  · intro k e t hk hop i e' hik hi
    have hlt : k < tr.length := (List.getElem?_eq_some_iff.mp hk).1
    have := List.all_eq_true.mp h2 k (List.mem_range.mpr hlt)
    simp only [hk, hop] at this
    have hmem : e' ∈ tr.take (k + 1) := by
      apply List.mem_of_getElem? (i := i)
      rw [List.getElem?_take]; simp [Nat.lt_succ_of_le hik, hi]
    have := List.all_eq_true.mp this e' hmem
    simpa using this

/-- Boundary: two readers do NOT order each other – a write under `RLock` races with a read under `RLock`
    (thread 1 and thread 2 both r-lock mutex 0; 1 writes location 7, 2 reads it). -/
def rrDemo : List Ev :=
  [⟨1, .rlock 0⟩, ⟨2, .rlock 0⟩, ⟨1, .acc 7 true false⟩, ⟨2, .acc 7 false false⟩, ⟨1, .runlock 0⟩, ⟨2, .runlock 0⟩]

theorem HB.lt {tr : List Ev} {i j : Nat} (h : HB tr i j) : i < j := by
  induction h with
  | po h _ _ _ => exact h
  | swLock h _ _ _ _ => exact h
  | swRLock h _ _ _ _ => exact h
  | go h _ _ _ _ => exact h
  | trans _ _ h1 h2 => exact Nat.lt_trans h1 h2

theorem rr_hb_same_tid {i j : Nat} (h : HB rrDemo i j) :
    ∃ a b, rrDemo[i]? = some a ∧ rrDemo[j]? = some b ∧ a.tid = b.tid := by
  induction h with
  | po _ ha hb ht => exact ⟨_, _, ha, hb, ht⟩
  | swLock _ _ hb _ hop =>
    have := List.mem_of_getElem? hb
    simp only [rrDemo, List.mem_cons, List.not_mem_nil, or_false] at this
    rcases this with rfl | rfl | rfl | rfl | rfl | rfl <;> cases hop
  | swRLock _ ha _ hop _ =>
    have := List.mem_of_getElem? ha
    simp only [rrDemo, List.mem_cons, List.not_mem_nil, or_false] at this
    rcases this with rfl | rfl | rfl | rfl | rfl | rfl <;> cases hop
  | go _ ha _ hop _ =>
    have := List.mem_of_getElem? ha
    simp only [rrDemo, List.mem_cons, List.not_mem_nil, or_false] at this
    rcases this with rfl | rfl | rfl | rfl | rfl | rfl <;> cases hop
  | trans _ _ ih1 ih2 =>
    obtain ⟨a, b, ha, hb, hab⟩ := ih1
    obtain ⟨b', c, hb', hc, hbc⟩ := ih2
    rw [hb] at hb'; cases hb'
    exact ⟨a, c, ha, hc, hab.trans hbc⟩

/-- The run is an execution, both accesses are made under `RLock` of the same mutex, and they race. -/
theorem rr_race : Exec rrDemo (statesOf rrDemo) ∧
    Holds (statesOf rrDemo 2) 0 1 false ∧ Holds (statesOf rrDemo 3) 0 2 false ∧ Race rrDemo := by
  refine ⟨exec_of_checks _ (by decide) (by decide), by decide, by decide, ?_⟩
  refine ⟨2, 3, ⟨1, .acc 7 true false⟩, ⟨2, .acc 7 false false⟩, by decide, rfl, rfl,
    ⟨7, true, false, false, false, rfl, rfl, .inl rfl, by simp⟩, by decide, ?_⟩
  intro h
  obtain ⟨a, b, ha, hb, hab⟩ := rr_hb_same_tid h
  simp [rrDemo] at ha hb
  subst ha; subst hb
  cases hab

/-- A logger-shaped execution that follows the disciplines: thread 1 (`DeferLogs`) locks mutex 0, writes location 7,
    unlocks, then starts goroutine 2; goroutines 1 and 2 read location 7 under `RLock`; goroutine 2 bumps the atomic
    counter 9 which thread 1 reads atomically; thread 1 wrote location 8 before the `go` and goroutine 2 reads it
    without any lock. -/
def logDemo : List Ev :=
  [⟨1, .lock 0⟩, ⟨1, .acc 7 true false⟩, ⟨1, .unlock 0⟩, ⟨1, .acc 8 true false⟩, ⟨1, .spawn 2⟩,
   ⟨2, .rlock 0⟩, ⟨1, .rlock 0⟩, ⟨2, .acc 7 false false⟩, ⟨1, .acc 7 false false⟩, ⟨2, .acc 9 true true⟩,
   ⟨1, .acc 9 false true⟩, ⟨2, .acc 8 false false⟩, ⟨2, .runlock 0⟩, ⟨1, .runlock 0⟩]

theorem logDemo_exec : Exec logDemo (statesOf logDemo) := exec_of_checks _ (by decide) (by decide)

/-! ### A checker for the disciplines on a concrete trace (`guard x` = the mutex that protects location `x`) -/

def conflictB (a b : Ev) : Bool :=
  match a.op, b.op with
  | .acc x w1 a1, .acc y w2 a2 => x == y && (w1 || w2) && !(a1 && a2)
  | _, _ => false

def safeB (tr : List Ev) (guard : Nat → Nat) (i j : Nat) (a b : Ev) : Bool :=
  (match a.op with
   | .acc x _ _ => [true, false].any fun la => [true, false].any fun lb =>
       (la || lb) && decide (Holds (statesOf tr i) (guard x) a.tid la) && decide (Holds (statesOf tr j) (guard x) b.tid lb)
   | _ => false) ||
  (List.range j).any fun k => decide (i ≤ k) &&
    (match tr[k]? with
     | some c => decide (c.tid = a.tid) && decide (c.op = .spawn b.tid)
     | none => false)

def allSafe (tr : List Ev) (guard : Nat → Nat) : Bool :=
  (List.range tr.length).all fun j => (List.range j).all fun i =>
    match tr[i]?, tr[j]? with
    | some a, some b => !(conflictB a b && decide (a.tid ≠ b.tid)) || safeB tr guard i j a b
    | _, _ => true

theorem conflictB_of {a b : Ev} (h : Conflict a b) : conflictB a b = true := by
  obtain ⟨x, w1, a1, w2, a2, h1, h2, hw, hat⟩ := h
  simp only [conflictB, h1, h2]
  cases w1 <;> cases w2 <;> cases a1 <;> cases a2 <;> simp_all

theorem safe_of_check {tr : List Ev} {guard : Nat → Nat} (h : allSafe tr guard = true) :
    ∀ i j a b, i < j → tr[i]? = some a → tr[j]? = some b → Conflict a b → a.tid ≠ b.tid →
      Safe tr (statesOf tr) i j a b := by
  intro i j a b hij ha hb hc hne
  have hj : j < tr.length := (List.getElem?_eq_some_iff.mp hb).1
  have h1 := List.all_eq_true.mp h j (List.mem_range.mpr hj)
  have h2 := List.all_eq_true.mp h1 i (List.mem_range.mpr hij)
  simp only [ha, hb, conflictB_of hc, hne, ne_eq, not_false_eq_true, decide_true, Bool.and_self, Bool.not_true,
    Bool.false_or] at h2
  unfold safeB at h2
  rcases Bool.or_eq_true _ _ |>.mp h2 with h3 | h3
  · obtain ⟨x, w1, a1, _, _, hop, _, _, _⟩ := hc
    simp only [hop] at h3
    obtain ⟨la, _, h4⟩ := List.any_eq_true.mp h3
    obtain ⟨lb, _, h5⟩ := List.any_eq_true.mp h4
    simp only [Bool.and_eq_true, Bool.or_eq_true, decide_eq_true_eq] at h5
    exact .inl ⟨guard x, la, lb, h5.1.2, h5.2, h5.1.1⟩
  · obtain ⟨k, hk, h4⟩ := List.any_eq_true.mp h3
    have hkj : k < j := List.mem_range.mp hk
    cases hck : tr[k]? with
    | none => simp [hck] at h4
    | some c =>
      simp only [hck, Bool.and_eq_true, decide_eq_true_eq] at h4
      exact .inr ⟨k, c, h4.1, hkj, hck, h4.2.1, h4.2.2⟩

/-- The logger-shaped execution follows the disciplines (mutex 0 guards locations 7; 8 is ordered by the `go`;
    9 is atomic), hence has no data race. -/
theorem logDemo_no_race : ¬ Race logDemo :=
  discipline_no_race logDemo_exec (safe_of_check (guard := fun _ => 0) (by decide))

end Rare.Lockset.HB2
