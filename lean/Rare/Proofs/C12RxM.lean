import Rare.Proofs.C12Rx
import Rare.Proofs.C12LazyM
/-! What `CompileEx` accepts is in the class of the regex seam (`midLits`), in both modes. -/
namespace Rare.C12

theorem midLits_of_compiles {ic : Bool} {p : Pat} (hp : p.Shape) {d : Dissect}
    (hc : compileEx p.render ic = .ok d) : midLits p.toks = true := by
  have h := compileEx_render ic p hp none (by simp)
  simp only [tailText, List.append_nil, Option.isSome_none] at h
  rw [hc] at h
  cases he : specErrors false p.toks [] with
  | none => exact midLits_of_specErrors _ _ he
  | some e => rw [he] at h; cases h

theorem midLits_patFor {ic : Bool} {p : Pat} (hp : p.Shape) {d : Dissect}
    (hc : compileEx p.render ic = .ok d) : midLits (patFor ic p).toks = true := by
  have hm := midLits_of_compiles hp hc
  cases ic
  · simpa [patFor] using hm
  · simpa [patFor, Pat.lowerLits, midLits_lowerLit] using hm

end Rare.C12
