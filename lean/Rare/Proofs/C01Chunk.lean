import Rare.Proofs.C04
import Rare.Model.C01Chunk
/-!
C01 × C04: the tokens a reader goroutine hands to its batching loop are the lines of the bytes its reader
delivered – for every chunking, stall and fault script (C04's theorems about the real scanner configuration,
`readahead.NewImmediate(reader, ReadAheadBufferSize)`), and for a file that cannot be opened.
-/
namespace Rare.C01
open Rare

private theorem bufSize_pos : 1 ≤ Rare.Gen.readAheadBufferSize := by decide

/-! The three facts about "call `Scan()` until it answers false" that the seam needs, from the lemmas of
    `Proofs/C04.lean` (they are C04's `imm_terminates`, `imm_tokens_eq_split`, `imm_error_once`; restated here so
    that this file depends on C04's model and lemmas only, not on its translator output). -/

private def immRun (bufSize : Nat) (data : Bytes) (script : List C04.Step) : List (C04.View × Bytes) × Bool × C04.Imm :=
  let fuel := data.length + script.length + 3
  C04.Imm.scanAll fuel fuel (C04.Imm.init bufSize ⟨data, script⟩)

private theorem run_good (bufSize : Nat) (data : Bytes) (script : List C04.Step) (h : 1 ≤ bufSize) :
    C04.Good (C04.Imm.init bufSize ⟨data, script⟩) [] := C04.good_init _ _ h

private theorem imm_terminates (bufSize : Nat) (data : Bytes) (script : List C04.Step) (h : 1 ≤ bufSize) :
    (immRun bufSize data script).2.1 = true := by
  apply C04.scanAll_done _ data _ (run_good bufSize data script h)
  · simp [C04.Imm.init]
  · simp [C04.Imm.init, C04.Reader.measure]; omega
  · simp [C04.Imm.init, C04.Imm.consumed]; omega

private theorem imm_tokens_eq_split (bufSize : Nat) (data : Bytes) (script : List C04.Step) (h : 1 ≤ bufSize) :
    (immRun bufSize data script).1.map (·.2) = C04.splitLines (immRun bufSize data script).2.2.delivered ∧
    (immRun bufSize data script).2.2.delivered <+: data := by
  have hg := run_good bufSize data script h
  have hdone := imm_terminates bufSize data script h
  constructor
  · have := C04.scanAll_good _ _ hg hdone
    simp only [List.nil_append] at this
    exact this.symm
  · have := C04.scanAll_closed (C04.closed_stream data) (data.length + script.length + 3)
      (data.length + script.length + 3) hg (by simp [C04.Imm.init])
    exact ⟨_, this⟩

private theorem imm_error_once (bufSize : Nat) (data : Bytes) (script : List C04.Step) (h : 1 ≤ bufSize) :
    ((immRun bufSize data script).2.2.errs = 0 ∨
      ((immRun bufSize data script).2.2.errs = 1 ∧ (immRun bufSize data script).2.2.eof = true)) ∧
    ((∀ st ∈ script, st.err ≠ some .fail) → (immRun bufSize data script).2.2.errs = 0) := by
  have hg := run_good bufSize data script h
  constructor
  · exact C04.scanAll_closed C04.closed_errs _ _ hg (Or.inl (by simp [C04.Imm.init]))
  · intro hs
    exact (C04.scanAll_closed C04.closed_nofail _ _ hg (s := C04.Imm.init bufSize ⟨data, script⟩)
      ⟨by simpa [C04.Imm.init] using hs, by simp [C04.Imm.init]⟩).2

private theorem scanSrc_opened (s : SrcIn) (h : s.opened = true) :
    scanSrc s = ⟨(immRun Rare.Gen.readAheadBufferSize s.data s.script).1.map (·.2),
      (immRun Rare.Gen.readAheadBufferSize s.data s.script).2.2.errs,
      (immRun Rare.Gen.readAheadBufferSize s.data s.script).2.2.delivered⟩ := by
  simp [scanSrc, h, immRun]

/-- the tokens are the lines of the delivered bytes -/
theorem scanSrc_tokens (s : SrcIn) : (scanSrc s).tokens = C04.splitLines (scanSrc s).delivered := by
  cases h : s.opened with
  | false => simp [scanSrc, h, C04.splitLines, C04.splitGo]
  | true =>
    rw [scanSrc_opened s h]
    exact (imm_tokens_eq_split _ s.data s.script bufSize_pos).1

/-- the lines handed to the batching loop of source `i` are `linesOf i` of the delivered bytes -/
theorem scannedLines_eq (i : Nat) (s : SrcIn) : scannedLines i s = linesOf i (deliveredOf s) := by
  simp only [scannedLines, linesOf, deliveredOf, scanSrc_tokens]

/-- … so the transition system starts from the batches of the delivered bytes -/
theorem scannedInputs_eq (batchSize : Nat) (srcs : List SrcIn) (timer : Nat → Nat → Bool) :
    scannedInputs batchSize srcs timer =
      (((srcs.map deliveredOf).zipIdx 0).map fun p =>
        (Batcher.run batchSize ((linesOf p.2 p.1).map fun l => (l, timer p.2 l.num))).map (·.lines)) := by
  simp only [scannedInputs, List.zipIdx_map, List.map_map]
  apply List.map_congr_left
  intro p _
  simp [scannedLines_eq]

/-- the delivered bytes are a prefix of the stream -/
theorem deliveredOf_prefix (s : SrcIn) : deliveredOf s <+: s.data := by
  cases h : s.opened with
  | false => simp [deliveredOf, scanSrc, h]
  | true =>
    simp only [deliveredOf, scanSrc_opened s h]
    exact (imm_tokens_eq_split _ s.data s.script bufSize_pos).2

/-- a reader that reports no error before the end delivers the whole stream, however it chunks it -/
theorem deliveredOf_full (s : SrcIn) (ho : s.opened = true) (hs : ∀ st ∈ s.script, st.err = none) :
    deliveredOf s = s.data := by
  open C04 in
  have hg : Good (Imm.init Rare.Gen.readAheadBufferSize ⟨s.data, s.script⟩) [] := good_init _ _ bufSize_pos
  have hdone := imm_terminates _ s.data s.script bufSize_pos
  have hstream := C04.scanAll_closed (C04.closed_stream s.data) (s.data.length + s.script.length + 3)
      (s.data.length + s.script.length + 3) hg (by simp [C04.Imm.init])
  have hdr := C04.scanAll_closed C04.closed_drained (s.data.length + s.script.length + 3)
      (s.data.length + s.script.length + 3) hg (s := C04.Imm.init Rare.Gen.readAheadBufferSize ⟨s.data, s.script⟩)
      ⟨by simpa [C04.Imm.init] using hs, by simp [C04.Imm.init]⟩
  have heof := C04.scanAll_eof _ _ hg hdone
  have hrest := hdr.2 heof
  simp only [deliveredOf, scanSrc_opened s ho]
  have := hstream
  unfold immRun
  rw [hrest] at this; simpa using this

theorem srcErrs_le_one (s : SrcIn) : (scanSrc s).errs ≤ 1 := by
  cases h : s.opened with
  | false => simp [scanSrc, h]
  | true =>
    rw [scanSrc_opened s h]
    rcases (imm_error_once _ s.data s.script bufSize_pos).1 with h0 | ⟨h1, _⟩
    · simp [h0]
    · simp [h1]

theorem srcErrs_zero (s : SrcIn) (ho : s.opened = true) (hs : ∀ st ∈ s.script, st.err ≠ some .fail) :
    (scanSrc s).errs = 0 := by
  rw [scanSrc_opened s ho]
  exact (imm_error_once _ s.data s.script bufSize_pos).2 hs

theorem srcErrs_closed (s : SrcIn) (ho : s.opened = false) : (scanSrc s).errs = 1 := by
  simp [scanSrc, ho]

end Rare.C01
