import Rare.Props.C04
import Rare.Model.C01Chunk
/-!
C01 × C04: the tokens a reader goroutine hands to its batching loop are the lines of the bytes its reader
delivered – for every chunking, stall and fault script (C04's theorems about the real scanner configuration,
`readahead.NewImmediate(reader, ReadAheadBufferSize)`), and for a file that cannot be opened.
-/
namespace Rare.C01
open Rare

private theorem bufSize_pos : 1 ≤ Rare.Gen.readAheadBufferSize := by decide

private theorem scanSrc_opened (s : SrcIn) (h : s.opened = true) :
    scanSrc s = ⟨(C04.Imm.run Rare.Gen.readAheadBufferSize s.data s.script).1.map (·.2),
      (C04.Imm.run Rare.Gen.readAheadBufferSize s.data s.script).2.2.errs,
      (C04.Imm.run Rare.Gen.readAheadBufferSize s.data s.script).2.2.delivered⟩ := by
  simp [scanSrc, h, C04.Imm.run]

/-- the tokens are the lines of the delivered bytes -/
theorem scanSrc_tokens (s : SrcIn) : (scanSrc s).tokens = C04.splitLines (scanSrc s).delivered := by
  cases h : s.opened with
  | false => simp [scanSrc, h, C04.splitLines, C04.splitGo]
  | true =>
    rw [scanSrc_opened s h]
    exact (C04.imm_tokens_eq_split _ s.data s.script bufSize_pos).1

/-- the lines handed to the batching loop of source `i` are `linesOf i` of the delivered bytes -/
theorem scannedLines_eq (i : Nat) (s : SrcIn) : scannedLines i s = linesOf i (deliveredOf s) := by
  simp only [scannedLines, linesOf, deliveredOf, scanSrc_tokens]

/-- … so the transition system starts from the batches of the delivered bytes -/
theorem scannedInputs_eq (batchSize : Nat) (srcs : List SrcIn) (timer : Nat → Nat → Bool) :
    scannedInputs batchSize srcs timer =
      (((srcs.map deliveredOf).zipIdx 0).map fun p =>
        (Batcher.run batchSize ((linesOf p.2 p.1).map fun l => (l, timer p.2 l.num))).map (·.lines)) := by
  simp only [scannedInputs, List.zipIdx_map, List.map_map]
  apply List.map_congr_left
  intro p _
  simp [scannedLines_eq]

/-- the delivered bytes are a prefix of the stream -/
theorem deliveredOf_prefix (s : SrcIn) : deliveredOf s <+: s.data := by
  cases h : s.opened with
  | false => simp [deliveredOf, scanSrc, h]
  | true =>
    simp only [deliveredOf, scanSrc_opened s h]
    exact (C04.imm_tokens_eq_split _ s.data s.script bufSize_pos).2

/-- a reader that reports no error before the end delivers the whole stream, however it chunks it -/
theorem deliveredOf_full (s : SrcIn) (ho : s.opened = true) (hs : ∀ st ∈ s.script, st.err = none) :
    deliveredOf s = s.data := by
  open C04 in
  have hg : Good (Imm.init Rare.Gen.readAheadBufferSize ⟨s.data, s.script⟩) [] := good_init _ _ bufSize_pos
  have hdone := C04.imm_terminates _ s.data s.script bufSize_pos
  have hstream := C04.scanAll_closed (C04.closed_stream s.data) (s.data.length + s.script.length + 3)
      (s.data.length + s.script.length + 3) hg (by simp [C04.Imm.init])
  have hdr := C04.scanAll_closed C04.closed_drained (s.data.length + s.script.length + 3)
      (s.data.length + s.script.length + 3) hg (s := C04.Imm.init Rare.Gen.readAheadBufferSize ⟨s.data, s.script⟩)
      ⟨by simpa [C04.Imm.init] using hs, by simp [C04.Imm.init]⟩
  have heof := C04.scanAll_eof _ _ hg hdone
  have hrest := hdr.2 heof
  simp only [deliveredOf, scanSrc_opened s ho]
  have := hstream
  unfold C04.Imm.run
  rw [hrest] at this; simpa using this

theorem srcErrs_le_one (s : SrcIn) : (scanSrc s).errs ≤ 1 := by
  cases h : s.opened with
  | false => simp [scanSrc, h]
  | true =>
    rw [scanSrc_opened s h]
    rcases (C04.imm_error_once _ s.data s.script bufSize_pos).1 with h0 | ⟨h1, _⟩
    · simp [h0]
    · simp [h1]

theorem srcErrs_zero (s : SrcIn) (ho : s.opened = true) (hs : ∀ st ∈ s.script, st.err ≠ some .fail) :
    (scanSrc s).errs = 0 := by
  rw [scanSrc_opened s ho]
  exact (C04.imm_error_once _ s.data s.script bufSize_pos).2 hs

theorem srcErrs_closed (s : SrcIn) (ho : s.opened = false) : (scanSrc s).errs = 1 := by
  simp [scanSrc, ho]

end Rare.C01
