import Rare.Model.C04Rooms
import Rare.Proofs.C04Micro
/-!
Round 4c: the logging twins of `Model/C04Rooms.lean` ARE the scanners (dropping the log gives `scan` / `scanAll` back),
and every logged destination size is positive.
-/
namespace Rare.C04

theorem readLoopL_snd (f : Nat) : ∀ (s : Imm) (log : List Nat), (s.readLoopL f log).2 = s.readLoop f := by
  induction f with
  | zero => intro s log; rfl
  | succ f ih =>
    intro s log
    simp only [Imm.readLoopL, Imm.readLoop]
    generalize s.grown.rd.read (s.grown.cap - s.grown.buf.length) = r
    cases h1 : r.2.1 with
    | some e => rfl
    | none =>
      cases h2 : idxNl r.1 with
      | some eol => rfl
      | none => exact ih _ _

theorem scanL_snd (f : Nat) (s : Imm) (log : List Nat) : (s.scanL f log).2 = s.scan f := by
  unfold Imm.scanL Imm.scan
  cases h : s.top with
  | some r => rfl
  | none => exact readLoopL_snd f s log

theorem scanAllL_snd (f : Nat) : ∀ (n : Nat) (s : Imm) (log : List Nat), (s.scanAllL f n log).2 = s.scanAll f n := by
  intro n
  induction n with
  | zero => intro s log; rfl
  | succ n ih =>
    intro s log
    have h := scanL_snd f s log
    simp only [Imm.scanAllL, Imm.scanAll]
    generalize s.scanL f log = x at h
    obtain ⟨log', r⟩ := x
    simp only at h
    subst h
    generalize s.scan f = y
    obtain ⟨res, s'⟩ := y
    cases res with
    | tok v b => simp only; rw [ih s' log']
    | done => rfl
    | fuel => rfl

theorem fillL_snd (f : Nat) : ∀ (cap : Nat) (acc : Bytes) (rd : Reader) (errs : Nat) (dl : Bytes) (log : List Nat),
    (Buf.fillL f cap acc rd errs dl log).2 = Buf.fill f cap acc rd errs dl := by
  induction f with
  | zero => intro cap acc rd errs dl log; rfl
  | succ f ih =>
    intro cap acc rd errs dl log
    simp only [Buf.fillL, Buf.fill]
    split
    · generalize rd.read (cap - acc.length) = r
      cases h1 : r.2.1 with
      | some e => rfl
      | none => exact ih _ _ _ _ _ _
    · rfl

theorem bscanL_snd (f : Nat) : ∀ (s : Buf) (log : List Nat), (s.scanL f log).2 = s.scan f := by
  induction f with
  | zero => intro s log; rfl
  | succ f ih =>
    intro s log
    simp only [Buf.scanL, Buf.scan]
    cases h0 : idxNl (s.buf.drop s.offset) with
    | some rel => rfl
    | none =>
      simp only []
      by_cases hc : (s.eof && decide (s.offset < s.buf.length)) = true
      · rw [if_pos hc, if_pos hc]
      · rw [if_neg hc, if_neg hc]
        by_cases hd : (!s.eof) = true
        · rw [if_pos hd, if_pos hd]
          have h := fillL_snd (s.rd.measure + 2) (max s.maxBufLen ((s.buf.drop s.offset).length + s.maxBufLen / 2))
            (s.buf.drop s.offset) s.rd s.errs s.delivered log
          generalize Buf.fillL (s.rd.measure + 2) (max s.maxBufLen ((s.buf.drop s.offset).length + s.maxBufLen / 2))
            (s.buf.drop s.offset) s.rd s.errs s.delivered log = x at h
          obtain ⟨log', o⟩ := x
          simp only at h
          subst h
          cases Buf.fill (s.rd.measure + 2) (max s.maxBufLen ((s.buf.drop s.offset).length + s.maxBufLen / 2))
            (s.buf.drop s.offset) s.rd s.errs s.delivered with
          | none => rfl
          | some p =>
            obtain ⟨acc, rd', eof', errs', dl'⟩ := p
            exact ih _ _
        · rw [if_neg hd, if_neg hd]

theorem bscanAllL_snd (f : Nat) : ∀ (n : Nat) (s : Buf) (log : List Nat), (s.scanAllL f n log).2 = s.scanAll f n := by
  intro n
  induction n with
  | zero => intro s log; rfl
  | succ n ih =>
    intro s log
    have h := bscanL_snd f s log
    simp only [Buf.scanAllL, Buf.scanAll]
    generalize s.scanL f log = x at h
    obtain ⟨log', r⟩ := x
    simp only at h
    subst h
    generalize s.scan f = y
    obtain ⟨res, s'⟩ := y
    cases res with
    | tok v b => simp only; rw [ih s' log']
    | done => rfl
    | fuel => rfl

/-! ### every `Read` gets a non-empty destination -/

def AllPos (log : List Nat) : Prop := ∀ r ∈ log, 0 < r

theorem AllPos.cons {r : Nat} {log : List Nat} (hr : 0 < r) (h : AllPos log) : AllPos (r :: log) := by
  intro x hx
  simp only [List.mem_cons] at hx
  rcases hx with rfl | hx
  · exact hr
  · exact h x hx

theorem readLoopL_pos (f : Nat) : ∀ (s : Imm) (log : List Nat), 1 ≤ s.bufSize → AllPos log →
    AllPos (s.readLoopL f log).1 := by
  induction f with
  | zero => intro s log _ h; exact h
  | succ f ih =>
    intro s log hb h
    have hroom := grown_room s hb
    have hp : 0 < s.grown.cap - s.grown.buf.length := by omega
    simp only [Imm.readLoopL]
    generalize s.grown.rd.read (s.grown.cap - s.grown.buf.length) = r
    cases h1 : r.2.1 with
    | some e => exact h.cons hp
    | none =>
      cases h2 : idxNl r.1 with
      | some eol => exact h.cons hp
      | none =>
        exact ih _ _ (by show 1 ≤ s.grown.bufSize; rw [grown_bufSize]; exact hb) (h.cons hp)

theorem scanL_pos (f : Nat) (s : Imm) (log : List Nat) (hb : 1 ≤ s.bufSize) (h : AllPos log) :
    AllPos (s.scanL f log).1 := by
  unfold Imm.scanL
  split
  · exact h
  · exact readLoopL_pos f s log hb h

theorem scanAllL_pos (f : Nat) : ∀ (n : Nat) (s : Imm) (log : List Nat), 1 ≤ s.bufSize → AllPos log →
    AllPos (s.scanAllL f n log).1 := by
  intro n
  induction n with
  | zero => intro s log _ h; exact h
  | succ n ih =>
    intro s log hb h
    have hp := scanL_pos f s log hb h
    have hs := scanL_snd f s log
    have hbs := scan_bufSize f s
    simp only [Imm.scanAllL]
    generalize s.scanL f log = x at hp hs
    obtain ⟨log', res, s'⟩ := x
    simp only at hp hs
    rw [← hs] at hbs
    simp only at hbs
    cases res with
    | tok v b => exact ih s' log' (by rw [hbs]; exact hb) hp
    | done => exact hp
    | fuel => exact hp

theorem fillL_pos (f : Nat) : ∀ (cap : Nat) (acc : Bytes) (rd : Reader) (errs : Nat) (dl : Bytes) (log : List Nat),
    AllPos log → AllPos (Buf.fillL f cap acc rd errs dl log).1 := by
  induction f with
  | zero => intro cap acc rd errs dl log h; exact h
  | succ f ih =>
    intro cap acc rd errs dl log h
    simp only [Buf.fillL]
    split
    · rename_i hlt
      have hp : 0 < cap - acc.length := by omega
      generalize rd.read (cap - acc.length) = r
      cases h1 : r.2.1 with
      | some e => exact h.cons hp
      | none => exact ih _ _ _ _ _ _ (h.cons hp)
    · exact h

theorem bscanL_pos (f : Nat) : ∀ (s : Buf) (log : List Nat), AllPos log → AllPos (s.scanL f log).1 := by
  induction f with
  | zero => intro s log h; exact h
  | succ f ih =>
    intro s log h
    simp only [Buf.scanL]
    split
    · exact h
    · split
      · exact h
      · split
        · have hp := fillL_pos (s.rd.measure + 2) (max s.maxBufLen ((s.buf.drop s.offset).length + s.maxBufLen / 2))
            (s.buf.drop s.offset) s.rd s.errs s.delivered log h
          generalize Buf.fillL (s.rd.measure + 2) (max s.maxBufLen ((s.buf.drop s.offset).length + s.maxBufLen / 2))
            (s.buf.drop s.offset) s.rd s.errs s.delivered log = x at hp
          obtain ⟨log', o⟩ := x
          cases o with
          | none => exact hp
          | some p =>
            obtain ⟨acc, rd', eof', errs', dl'⟩ := p
            exact ih _ _ hp
        · exact h

theorem bscanAllL_pos (f : Nat) : ∀ (n : Nat) (s : Buf) (log : List Nat), AllPos log →
    AllPos (s.scanAllL f n log).1 := by
  intro n
  induction n with
  | zero => intro s log h; exact h
  | succ n ih =>
    intro s log h
    have hp := bscanL_pos f s log h
    simp only [Buf.scanAllL]
    generalize s.scanL f log = x at hp
    obtain ⟨log', res, s'⟩ := x
    cases res with
    | tok v b => exact ih s' log' hp
    | done => exact hp
    | fuel => exact hp

end Rare.C04
