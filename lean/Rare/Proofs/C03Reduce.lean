import Rare.Proofs.C07Acc
import Rare.Proofs.C03Det
import Rare.Proofs.C03Csv
import Rare.Model.C03Reduce
/-! Helper lemmas for the `rare reduce` theorems of C03. -/
namespace Rare.C03
open Rare.C07
open Rare.Expr (Stage Ctx Comp)

/-! ### outcomes -/

/-- Two runs end the same way: both return the same value, or both panic. -/
def SameOutcome {α : Type} (x y : Except String α) : Prop :=
  (∃ v, x = .ok v ∧ y = .ok v) ∨ (∃ m₁ m₂, x = .error m₁ ∧ y = .error m₂)

theorem SameOutcome.rfl' {α : Type} (x : Except String α) : SameOutcome x x := by
  cases x with
  | ok v => exact Or.inl ⟨v, rfl, rfl⟩
  | error m => exact Or.inr ⟨m, m, rfl, rfl⟩

theorem SameOutcome.map {α β : Type} (f g : α → β) {x y : Except String α} (h : SameOutcome x y)
    (hfg : ∀ v, x = .ok v → f v = g v) : SameOutcome (x.map f) (y.map g) := by
  rcases h with ⟨v, rfl, rfl⟩ | ⟨m₁, m₂, rfl, rfl⟩
  · exact Or.inl ⟨f v, rfl, by simp [Except.map, hfg v rfl]⟩
  · exact Or.inr ⟨m₁, m₂, rfl, rfl⟩

/-! ### `Groups` and the map iteration order -/

theorem mapM_keyed_ok (f : Bytes → Except String Bytes) (l : List Bytes) (h : ∀ g ∈ l, ∃ k, f g = .ok k) :
    ∃ r, l.mapM (fun g => (f g).map fun k => (g, k)) = .ok r := by
  induction l with
  | nil => exact ⟨[], rfl⟩
  | cons a l ih =>
    obtain ⟨k, hk⟩ := h a (by simp)
    obtain ⟨r, hr⟩ := ih (fun g hg => h g (by simp [hg]))
    refine ⟨(a, k) :: r, ?_⟩
    rw [mapM_except_cons, hk, hr]
    rfl

/-- `Groups` panics or not independently of the order the map hands the keys over in. -/
theorem groupsWith_outcome_perm (s : AccGroup) (less : Bytes → Bytes → Bool) (hlt : StrictTotal less)
    (o₁ o₂ : List Bytes) (hp : o₁.Perm o₂) : SameOutcome (s.groupsWith less o₁) (s.groupsWith less o₂) := by
  cases h1 : s.groupsWith less o₁ with
  | ok r1 =>
    cases h2 : s.groupsWith less o₂ with
    | ok r2 => exact Or.inl ⟨r1, rfl, by rw [groupsWith_deterministic s less hlt o₁ o₂ r1 r2 hp h1 h2]⟩
    | error m =>
      exfalso
      unfold AccGroup.groupsWith at h1 h2
      cases hs : s.sortExpr with
      | none => rw [hs] at h2; cases h2
      | some e =>
        rw [hs] at h1 h2
        simp only at h1 h2
        have hl := hp.length_eq
        by_cases hle : o₁.length ≤ 1
        · rw [if_pos (by omega)] at h2; cases h2
        · rw [if_neg hle] at h1
          rw [if_neg (by omega)] at h2
          cases hm : o₁.mapM (fun g => (s.sortKey e g).map fun k => (g, k)) with
          | error m' => rw [hm] at h1; cases h1
          | ok keyed =>
            obtain ⟨_, hall⟩ := mapM_keyed (s.sortKey e) o₁ keyed hm
            obtain ⟨r, hr⟩ := mapM_keyed_ok (s.sortKey e) o₂ (fun g hg => hall g (hp.mem_iff.mpr hg))
            rw [hr] at h2; cases h2
  | error m =>
    cases h2 : s.groupsWith less o₂ with
    | error m' => exact Or.inr ⟨m, m', rfl, rfl⟩
    | ok r2 =>
      exfalso
      unfold AccGroup.groupsWith at h1 h2
      cases hs : s.sortExpr with
      | none => rw [hs] at h1; cases h1
      | some e =>
        rw [hs] at h1 h2
        simp only at h1 h2
        have hl := hp.length_eq
        by_cases hle : o₂.length ≤ 1
        · rw [if_pos (by omega)] at h1; cases h1
        · rw [if_neg hle] at h2
          rw [if_neg (by omega)] at h1
          cases hm : o₂.mapM (fun g => (s.sortKey e g).map fun k => (g, k)) with
          | error m' => rw [hm] at h2; cases h2
          | ok keyed =>
            obtain ⟨_, hall⟩ := mapM_keyed (s.sortKey e) o₂ keyed hm
            obtain ⟨r, hr⟩ := mapM_keyed_ok (s.sortKey e) o₁ (fun g hg => hall g (hp.mem_iff.mp hg))
            rw [hr] at h1; cases h1

/-! ### two aggregators that answer every accessor alike -/

/-- Same definitions, and every group looks up the same row (the association lists may be in different orders). -/
def ObsEq (s₁ s₂ : AccGroup) : Prop := SameDefs s₁ s₂ ∧ ∀ k, aget s₁.data k = aget s₂.data k

theorem ObsEq.refl (s : AccGroup) : ObsEq s s := ⟨SameDefs.refl s, fun _ => rfl⟩

namespace ObsEq
variable {s₁ s₂ : AccGroup} (h : ObsEq s₁ s₂)
include h

theorem dataNoCopy : s₁.dataNoCopy = s₂.dataNoCopy := by
  funext k; simp [AccGroup.dataNoCopy, h.2 k]

theorem groupCols : s₂.groupCols = s₁.groupCols := by simp [AccGroup.groupCols, h.1.1]
theorem dataCols : s₂.dataCols = s₁.dataCols := by simp [AccGroup.dataCols, h.1.2.1]
theorem groupColCount : s₂.groupColCount = s₁.groupColCount := by simp [AccGroup.groupColCount, h.1.1]
theorem colCount : s₂.colCount = s₁.colCount := by simp [AccGroup.colCount, h.1.1, h.1.2.1]

theorem dataOf : s₁.dataOf = s₂.dataOf := by
  funext k; simp [AccGroup.dataOf, h.dataNoCopy, h.1.2.1]

theorem sortKey (e : Stage) (g : Bytes) : s₁.sortKey e g = s₂.sortKey e g := by
  have : s₁.sortGetKey g = s₂.sortGetKey g := by
    funext key; simp [AccGroup.sortGetKey, h.dataNoCopy, h.1.2.2.1]
  simp [AccGroup.sortKey, this]

theorem groupsWith (less : Bytes → Bytes → Bool) (order : List Bytes) :
    s₁.groupsWith less order = s₂.groupsWith less order := by
  have hk : (fun g => (s₁.sortKey · g)) = fun g => (s₂.sortKey · g) := by
    funext g e; exact h.sortKey e g
  unfold AccGroup.groupsWith
  rw [h.1.2.2.2]
  cases s₁.sortExpr with
  | none => rfl
  | some e =>
    have : (fun g => (s₁.sortKey e g).map fun k => (g, k)) = fun g => (s₂.sortKey e g).map fun k => (g, k) := by
      funext g; rw [h.sortKey e g]
    simp only [this]

theorem accCsvRow (row : List Bytes) (g : Bytes) : C03.accCsvRow s₁ row g = C03.accCsvRow s₂ row g := by
  simp [C03.accCsvRow, h.groupColCount, h.dataNoCopy]

theorem accCsvRecords (gs : List Bytes) (row : List Bytes) : C03.accCsvRecords s₁ gs row = C03.accCsvRecords s₂ gs row := by
  induction gs generalizing row with
  | nil => rfl
  | cons g gs ih => simp only [C03.accCsvRecords, h.accCsvRow, ih]

theorem writeAccumulatorRows (gs : List Bytes) : C03.writeAccumulatorRows s₁ gs = C03.writeAccumulatorRows s₂ gs := by
  simp [C03.writeAccumulatorRows, h.groupCols, h.dataCols, h.colCount, h.accCsvRecords]

theorem reduceCsv (order : List Bytes) : C03.reduceCsv s₁ order = C03.reduceCsv s₂ order := by
  unfold C03.reduceCsv
  rw [h.groupsWith]
  congr 1
  funext gs; rw [h.writeAccumulatorRows]

theorem reduceTableRow (g : Bytes) : C03.reduceTableRow s₁ g = C03.reduceTableRow s₂ g := by
  simp [C03.reduceTableRow, h.groupColCount, h.colCount, h.dataOf]

end ObsEq

/-- The keys of two maps with the same look-ups are permutations of each other when no key is stored twice. -/
theorem akeys_perm_of_aget {α : Type} (m₁ m₂ : List (Bytes × α)) (h : ∀ k, aget m₁ k = aget m₂ k)
    (n₁ : (akeys m₁).Nodup) (n₂ : (akeys m₂).Nodup) : (akeys m₁).Perm (akeys m₂) :=
  (List.perm_ext_iff_of_nodup n₁ n₂).mpr fun k => by rw [mem_akeys_iff, mem_akeys_iff, h k]

theorem ObsEq.dataCount {s₁ s₂ : AccGroup} (h : ObsEq s₁ s₂) (r₁ : AccReach s₁) (r₂ : AccReach s₂) :
    s₁.dataCount = s₂.dataCount := by
  have := (akeys_perm_of_aget s₁.data s₂.data h.2 (reach_keys_nodup r₁) (reach_keys_nodup r₂)).length_eq
  simpa [AccGroup.dataCount, akeys] using this

/-- `range s.data` yields every key once: any such order is a permutation of any other. -/
theorem isRange_perm_obs {s₁ s₂ : AccGroup} (h : ∀ k, aget s₁.data k = aget s₂.data k) {o₁ o₂ : List Bytes}
    (r₁ : IsRangeOf o₁ s₁.data) (r₂ : IsRangeOf o₂ s₂.data) : o₁.Perm o₂ :=
  range_perm r₁ r₂ fun k => by rw [h k]

/-! ### `WriteAccumulator`: the reused row buffer holds exactly this row -/

theorem foldl_set_range (f : Nat → Bytes) (n : Nat) (row : List Bytes) (hn : n ≤ row.length) :
    (List.range n).foldl (fun r i => r.set i (f i)) row = (List.range n).map f ++ row.drop n := by
  induction n with
  | zero => simp
  | succ n ih =>
    rw [List.range_succ, List.foldl_append, ih (by omega)]
    simp only [List.foldl_cons, List.foldl_nil, List.map_append, List.map_cons, List.map_nil]
    have hl : ((List.range n).map f).length = n := by simp
    have : n < row.length := by omega
    rw [List.set_append_right _ _ (by omega), hl, Nat.sub_self]
    have hd : List.drop n row = row[n] :: List.drop (n + 1) row := List.drop_eq_getElem_cons this
    rw [hd, List.set_cons_zero, List.append_assoc]
    rfl

/-- The group cells of a CSV / table row: the first `n` parts of the key, missing ones empty. -/
def padParts (n : Nat) (parts : List Bytes) : List Bytes := (List.range n).map fun i => parts.getD i []

theorem padParts_length (n : Nat) (parts : List Bytes) : (padParts n parts).length = n := by simp [padParts]

/-- What `WriteAccumulator` writes for a group: its key parts, then its row. -/
def csvCells (s : AccGroup) (g : Bytes) : List Bytes := padParts s.groupColCount (groupKeyParts g) ++ s.dataNoCopy g

theorem goCopy_same_length {α : Type} (dst src : List α) (h : src.length = dst.length) : goCopy dst src = src := by
  unfold goCopy
  rw [← h, List.take_length, List.drop_eq_nil_of_le (by omega), List.append_nil]

theorem accCsvRow_eq (s : AccGroup) (row : List Bytes) (g : Bytes) (hrow : row.length = s.colCount)
    (hdata : (s.dataNoCopy g).length = s.colDef.length) : accCsvRow s row g = csvCells s g := by
  unfold accCsvRow csvCells padParts
  have hc : s.colCount = s.groupColCount + s.colDef.length := rfl
  dsimp only
  rw [foldl_set_range _ _ _ (by omega)]
  have hl : ((List.range s.groupColCount).map fun i => (groupKeyParts g).getD i []).length = s.groupColCount := by simp
  rw [List.take_left' hl, List.drop_left' hl]
  rw [goCopy_same_length _ _ (by rw [hdata, List.length_drop]; omega)]

theorem csvCells_length (s : AccGroup) (g : Bytes) (hdata : (s.dataNoCopy g).length = s.colDef.length) :
    (csvCells s g).length = s.colCount := by
  simp [csvCells, padParts_length, hdata, AccGroup.colCount, AccGroup.groupColCount]

theorem accCsvRecords_eq (s : AccGroup) (gs : List Bytes) (row : List Bytes) (hrow : row.length = s.colCount)
    (hdata : ∀ g ∈ gs, (s.dataNoCopy g).length = s.colDef.length) : accCsvRecords s gs row = gs.map (csvCells s) := by
  induction gs generalizing row with
  | nil => rfl
  | cons g gs ih =>
    have hg := hdata g (by simp)
    simp only [accCsvRecords, List.map_cons]
    rw [accCsvRow_eq s row g hrow hg, ih _ (csvCells_length s g hg) (fun x hx => hdata x (by simp [hx]))]

/-- For an aggregator in which every listed group has a full row (every reachable one, for the groups it holds):
the records of `WriteAccumulator` are the header and, per group, its padded key parts and its row – nothing
of the previous record survives in the reused buffer. -/
theorem writeAccumulatorRows_eq (s : AccGroup) (gs : List Bytes)
    (hdata : ∀ g ∈ gs, (s.dataNoCopy g).length = s.colDef.length) :
    writeAccumulatorRows s gs = (s.groupCols ++ s.dataCols) :: gs.map (csvCells s) := by
  unfold writeAccumulatorRows
  rw [accCsvRecords_eq s gs _ (by simp) hdata]

theorem dataNoCopy_length_of_reach (s : AccGroup) (h : AccReach s) (g : Bytes) (hg : (aget s.data g).isSome) :
    (s.dataNoCopy g).length = s.colDef.length := by
  cases hr : aget s.data g with
  | none => rw [hr] at hg; cases hg
  | some row =>
    have := (reach_accwf h).rows g row hr
    simp [AccGroup.dataNoCopy, hr, this]

theorem groupsWith_mem (s : AccGroup) (less : Bytes → Bytes → Bool) (hlt : StrictTotal less) (order gs : List Bytes)
    (h : s.groupsWith less order = .ok gs) (g : Bytes) (hg : g ∈ gs) : g ∈ order :=
  (groupsWith_spec s less hlt order gs h).1.mem_iff.mp hg

/-- Key parts read back: for group values without NUL the padded parts are the values (also for a single empty
value, whose key has no parts at all: the padding supplies the empty cell). -/
theorem padParts_nulJoin (vs : List Bytes) (hfree : ∀ v ∈ vs, (0 : UInt8) ∉ v) :
    padParts vs.length (groupKeyParts (nulJoin vs)) = vs := by
  by_cases h1 : vs = [[]]
  · subst h1; decide
  · by_cases h0 : vs = []
    · subst h0; rfl
    · have : groupKeyParts (nulJoin vs) = vs := (parts_nulJoin_iff vs).mpr ⟨hfree, h1⟩
      rw [this]
      apply List.ext_getElem (by simp [padParts])
      intro i hi1 hi2
      simp [padParts, List.getD_eq_getElem?_getD, hi2]

/-! ### reachability of the sampled aggregator -/

theorem reach_run {s0 s : AccGroup} (h0 : AccReach s0) (h : List Bytes) (hr : s0.run h = .ok s) : AccReach s := by
  induction h generalizing s0 with
  | nil => simp [AccGroup.run, pure, Except.pure] at hr; subst hr; exact h0
  | cons e h ih =>
    unfold AccGroup.run at hr
    rw [foldlM_except_cons] at hr
    cases hs : s0.sample e with
    | error m => rw [hs] at hr; cases hr
    | ok s1 =>
      rw [hs] at hr
      exact ih (AccReach.step s0 s1 (.sample e) none h0 (by simp [AccGroup.apply, hs, Except.map])) hr

theorem run_sameDefs {s0 s : AccGroup} (h0 : AccReach s0) (h : List Bytes) (hr : s0.run h = .ok s) : SameDefs s0 s := by
  rcases (run_refines s0 (reach_accwf h0) _ (holds_self s0) h).cases with ⟨s', _, e1, _, _, _, sd⟩ | ⟨m, e1, _⟩
  · rw [hr] at e1; cases e1; exact sd
  · rw [hr] at e1; cases e1

/-- Per group: the row is the fold of the row update over the group's own samples, in order. -/
theorem run_group_history (s0 s : AccGroup) (h0 : AccReach s0) (hempty : s0.data = []) (h : List Bytes)
    (hr : s0.run h = .ok s) (k : Bytes) :
    ∃ row, (subHistory s0.specGroups h k).foldlM (updRow s0.specCols) (initialRow s0.specCols) = .ok row ∧
      aget s.data k = if subHistory s0.specGroups h k = [] then none else some row := by
  have hh : Holds s0 (fun _ => none) := by intro k; rw [hempty]; rfl
  rcases (run_refines s0 (reach_accwf h0) _ hh h).cases with ⟨s', st, e1, e2, hh', _, _⟩ | ⟨m, e1, _⟩
  · rw [hr] at e1; cases e1
    obtain ⟨row, a, b⟩ := specRun_sub _ _ h st e2 k
    exact ⟨row, a, by rw [hh' k]; exact b⟩
  · rw [hr] at e1; cases e1

/-! ### order-insensitive accumulators -/

/-- A left fold in `Except` does not see the order of its list when two consecutive steps can be exchanged
(on the states satisfying an invariant the steps preserve). -/
theorem foldlM_perm {σ α : Type} (f : σ → α → Except String σ) (P : σ → Prop)
    (hP : ∀ s a s', P s → f s a = .ok s' → P s')
    (hcomm : ∀ s a b, P s → (f s a >>= fun r => f r b) = (f s b >>= fun r => f r a))
    {l₁ l₂ : List α} (hp : l₁.Perm l₂) : ∀ s, P s → l₁.foldlM f s = l₂.foldlM f s := by
  induction hp with
  | nil => intro s _; rfl
  | cons a _ ih =>
    intro s hs
    rw [foldlM_except_cons, foldlM_except_cons]
    cases hfa : f s a with
    | error m => rfl
    | ok s' => exact ih s' (hP s a s' hs hfa)
  | swap a b l =>
    intro s hs
    have h1 : ∀ (x y : α), (x :: y :: l).foldlM f s = ((f s x >>= fun r => f r y) >>= fun r => l.foldlM f r) := by
      intro x y
      rw [List.foldlM_cons]
      cases f s x with
      | error m => rfl
      | ok s' => simp only [List.foldlM_cons]; rfl
    rw [h1, h1, hcomm s b a hs]
  | trans _ _ ih1 ih2 => intro s hs; rw [ih1 s hs, ih2 s hs]

/-- The row update of the accumulators is order-insensitive: two consecutive samples of one group can be
exchanged (same resulting row, or the same panic). -/
def RowComm (cols : List SCol) : Prop :=
  ∀ (row : List Bytes) (e₁ e₂ : Bytes), row.length = cols.length →
    (updRow cols row e₁ >>= fun r => updRow cols r e₂) = (updRow cols row e₂ >>= fun r => updRow cols r e₁)

theorem foldlM_inv {σ α : Type} (f : σ → α → Except String σ) (P : σ → Prop)
    (hP : ∀ s a s', P s → f s a = .ok s' → P s') (l : List α) (s s' : σ) (hs : P s) (h : l.foldlM f s = .ok s') : P s' := by
  induction l generalizing s with
  | nil => simp [pure, Except.pure] at h; subst h; exact hs
  | cons a l ih =>
    rw [foldlM_except_cons] at h
    cases hfa : f s a with
    | error m => rw [hfa] at h; cases h
    | ok s1 => rw [hfa] at h; exact ih s1 (hP s a s1 hs hfa) h

theorem updCol_length (cols : List SCol) (e : Bytes) (row row' : List Bytes) (i : Nat)
    (h : updCol cols e row i = .ok row') : row'.length = row.length := by
  unfold updCol at h
  cases hc : cols[i]? with
  | none => rw [hc] at h; cases h; rfl
  | some c =>
    rw [hc] at h
    simp only at h
    cases hv : c.eval (colLookups (cols.map (·.name)) e row i) with
    | error m => rw [hv] at h; cases h
    | ok v => rw [hv] at h; simp only [Except.map, Except.ok.injEq] at h; subst h; simp

theorem updRow_length (cols : List SCol) (row row' : List Bytes) (e : Bytes) (h : updRow cols row e = .ok row') :
    row'.length = row.length :=
  foldlM_inv (updCol cols e) (fun r => r.length = row.length)
    (fun r i r' hr hu => (updCol_length cols e r r' i hu).trans hr) _ row row' rfl h

/-- Permuting a history permutes every group's sub-history; with order-insensitive accumulators every group
ends with the same row. -/
theorem group_rows_perm (gs : List SExpr) (cols : List SCol) (hc : RowComm cols) {h₁ h₂ : List Bytes}
    (hp : h₁.Perm h₂) (k : Bytes) :
    (subHistory gs h₁ k).foldlM (updRow cols) (initialRow cols) =
      (subHistory gs h₂ k).foldlM (updRow cols) (initialRow cols) := by
  have hsub : (subHistory gs h₁ k).Perm (subHistory gs h₂ k) := hp.filter _
  exact foldlM_perm (updRow cols) (fun r => r.length = cols.length)
    (fun r e r' hr hu => (updRow_length cols r r' e hu).trans hr)
    (fun r a b hr => hc r a b hr) hsub _ (by simp [initialRow])

/-- Two runs over permuted histories that both went through leave aggregators that answer alike. -/
theorem run_perm_obsEq (s0 s₁ s₂ : AccGroup) (h0 : AccReach s0) (hempty : s0.data = [])
    (hc : RowComm s0.specCols) {h₁ h₂ : List Bytes} (hp : h₁.Perm h₂)
    (r₁ : s0.run h₁ = .ok s₁) (r₂ : s0.run h₂ = .ok s₂) : ObsEq s₁ s₂ := by
  refine ⟨?_, fun k => ?_⟩
  · have a := run_sameDefs h0 h₁ r₁
    have b := run_sameDefs h0 h₂ r₂
    exact ⟨b.1.trans a.1.symm, b.2.1.trans a.2.1.symm, b.2.2.1.trans a.2.2.1.symm, b.2.2.2.trans a.2.2.2.symm⟩
  · obtain ⟨row1, a1, b1⟩ := run_group_history s0 s₁ h0 hempty h₁ r₁ k
    obtain ⟨row2, a2, b2⟩ := run_group_history s0 s₂ h0 hempty h₂ r₂ k
    rw [group_rows_perm _ _ hc hp k] at a1
    rw [a1] at a2; cases a2
    have hsub : (subHistory s0.specGroups h₁ k).Perm (subHistory s0.specGroups h₂ k) := hp.filter _
    have hnil : subHistory s0.specGroups h₁ k = [] ↔ subHistory s0.specGroups h₂ k = [] := by
      constructor
      · intro h; rw [h] at hsub; exact hsub.symm.eq_nil
      · intro h; rw [h] at hsub; exact hsub.eq_nil
    rw [b1, b2]
    by_cases hn : subHistory s0.specGroups h₁ k = []
    · rw [if_pos hn, if_pos (hnil.mp hn)]
    · rw [if_neg hn, if_neg (fun h => hn (hnil.mpr h))]

/-! ### a sufficient condition: every accumulator folds its own `{.}` with a right-commutative operation -/

/-- The column reads nothing but its own accumulator `{.}` and the sampled element, never panics, and its
update `f` satisfies `f (f cur p) q = f (f cur q) p` (e.g. `{sumi {.} {1}}`, `{maxi {.} {2}}`, `{sumi {.} 1}`). -/
def CommCol (c : SCol) : Prop :=
  ∃ f : Bytes → (Int → Bytes) → Bytes,
    (∀ L : Lookups, c.eval L = .ok (f (L.key [46]) L.part)) ∧ ∀ cur p q, f (f cur p) q = f (f cur q) p

/-- The pure version of the column loop for columns that cannot fail. -/
def pureUpd (F : Nat → Bytes → Bytes) : Nat → List Bytes → List Bytes
  | 0, row => row
  | n + 1, row => let r := pureUpd F n row; r.set n (F n (r.getD n []))

theorem pureUpd_length (F : Nat → Bytes → Bytes) (n : Nat) (row : List Bytes) : (pureUpd F n row).length = row.length := by
  induction n with
  | zero => rfl
  | succ n ih => simp [pureUpd, ih]

theorem pureUpd_get (F : Nat → Bytes → Bytes) (n : Nat) (row : List Bytes) (j : Nat) :
    (pureUpd F n row)[j]? = if j < n then row[j]?.map (F j) else row[j]? := by
  induction n with
  | zero => simp [pureUpd]
  | succ n ih =>
    simp only [pureUpd]
    rw [List.getElem?_set]
    by_cases hj : n = j
    · subst hj
      rw [if_pos rfl, pureUpd_length]
      have hn : (pureUpd F n row)[n]? = row[n]? := by rw [ih]; simp
      by_cases hl : n < row.length
      · rw [if_pos hl, if_pos (by omega)]
        have : (pureUpd F n row).getD n [] = row[n] := by
          rw [List.getD_eq_getElem?_getD, hn, List.getElem?_eq_getElem hl]; rfl
        rw [this, List.getElem?_eq_getElem hl]; rfl
      · rw [if_neg hl, if_pos (by omega), List.getElem?_eq_none (by omega)]; rfl
    · rw [if_neg hj, ih]
      by_cases h1 : j < n
      · rw [if_pos h1, if_pos (by omega)]
      · rw [if_neg h1, if_neg (by omega)]

theorem foldlM_range_succ {σ : Type} (f : σ → Nat → Except String σ) (n : Nat) (s : σ) :
    (List.range (n + 1)).foldlM f s = ((List.range n).foldlM f s >>= fun r => f r n) := by
  rw [List.range_succ, List.foldlM_append]
  congr 1
  funext r
  simp [List.foldlM_cons]

theorem updRow_pure (cols : List SCol) (F : Nat → Bytes → (Int → Bytes) → Bytes)
    (hF : ∀ (i : Nat) (c : SCol), cols[i]? = some c → ∀ L : Lookups, c.eval L = Except.ok (F i (L.key [46]) L.part))
    (row : List Bytes) (e : Bytes) :
    ∀ n, n ≤ cols.length → (List.range n).foldlM (updCol cols e) row = .ok (pureUpd (fun i v => F i v (partOf e)) n row) := by
  intro n
  induction n with
  | zero => intro _; rfl
  | succ n ih =>
    intro hn
    rw [foldlM_range_succ, ih (by omega)]
    show updCol cols e _ n = _
    unfold updCol
    have hlt : n < cols.length := by omega
    rw [List.getElem?_eq_getElem hlt]
    simp only
    rw [hF n cols[n] (List.getElem?_eq_getElem hlt)]
    simp [Except.map, pureUpd, colLookups]

theorem rowComm_of_commCols (cols : List SCol) (h : ∀ c ∈ cols, CommCol c) : RowComm cols := by
  classical
  -- choose the update function of every column
  let F : Nat → Bytes → (Int → Bytes) → Bytes := fun i =>
    if hi : i < cols.length then Classical.choose (h cols[i] (List.getElem_mem hi)) else fun v _ => v
  have hF : ∀ (i : Nat) (c : SCol), cols[i]? = some c → ∀ L : Lookups, c.eval L = Except.ok (F i (L.key [46]) L.part) := by
    intro i c hc L
    obtain ⟨hi, rfl⟩ := List.getElem?_eq_some_iff.mp hc
    simp only [F, dif_pos hi]
    exact (Classical.choose_spec (h cols[i] (List.getElem_mem hi))).1 L
  have hcomm : ∀ i cur p q, F i (F i cur p) q = F i (F i cur q) p := by
    intro i cur p q
    by_cases hi : i < cols.length
    · simp only [F, dif_pos hi]
      exact (Classical.choose_spec (h cols[i] (List.getElem_mem hi))).2 cur p q
    · simp only [F, dif_neg hi]
  intro row e₁ e₂ _
  unfold updRow
  rw [updRow_pure cols F hF row e₁ _ (Nat.le_refl _), updRow_pure cols F hF row e₂ _ (Nat.le_refl _)]
  show (List.range cols.length).foldlM (updCol cols e₂) _ = (List.range cols.length).foldlM (updCol cols e₁) _
  rw [updRow_pure cols F hF _ e₂ _ (Nat.le_refl _), updRow_pure cols F hF _ e₁ _ (Nat.le_refl _)]
  congr 1
  apply List.ext_getElem?
  intro j
  rw [pureUpd_get, pureUpd_get, pureUpd_get, pureUpd_get]
  by_cases hj : j < cols.length
  · simp only [if_pos hj, Option.map_map]
    congr 1
    funext v
    exact hcomm j v (partOf e₁) (partOf e₂)
  · simp only [if_neg hj]

/-! ### the set-up loops of `reduceFunction` -/

/-- What the set-up keeps true: reachable, no data yet, `maxKeylen` bounds every accumulator name. -/
structure SetupInv (s : AccGroup) (maxKeylen : Nat) : Prop where
  reach : AccReach s
  nodata : s.data = []
  keylen : ∀ n ∈ s.dataCols, n.length ≤ maxKeylen

theorem addGroupExpr_dataCols (s : AccGroup) (n : Bytes) (c : Option Stage) : (s.addGroupExpr n c).1.dataCols = s.dataCols := by
  unfold AccGroup.addGroupExpr
  split; · rfl
  split; · rfl
  cases c <;> rfl

theorem setSort_dataCols (s : AccGroup) (c : Option Stage) : (s.setSort c).1.dataCols = s.dataCols := by
  unfold AccGroup.setSort
  cases c <;> rfl

theorem addDataExpr_dataCols (s : AccGroup) (n : Bytes) (c : Option Stage) (i : Bytes) :
    ∀ x ∈ (s.addDataExpr n c i).1.dataCols, x ∈ s.dataCols ∨ x = n := by
  unfold AccGroup.addDataExpr
  split; · intro x hx; exact Or.inl hx
  split; · intro x hx; exact Or.inl hx
  cases c with
  | none => intro x hx; exact Or.inl hx
  | some kb =>
    intro x hx
    simp only [AccGroup.dataCols, List.map_append, List.map_cons, List.map_nil, List.mem_append, List.mem_singleton] at hx ⊢
    exact hx

theorem setupGroups_inv (compile : Bytes → Option Stage) (gs : List Bytes) (s s' : AccGroup) (mk : Nat)
    (inv : SetupInv s mk) (h : setupGroups compile gs s = .ok s') : SetupInv s' mk := by
  induction gs generalizing s with
  | nil => simp only [setupGroups, Except.ok.injEq] at h; subst h; exact inv
  | cons g gs ih =>
    simp only [setupGroups] at h
    cases hr : s.addGroupExpr (parseKeyValue g).1 (compile (parseKeyValue g).2) with
    | mk s1 e =>
      rw [hr] at h
      cases e with
      | some _ => cases h
      | none =>
        have hs1 : s1 = (s.addGroupExpr (parseKeyValue g).1 (compile (parseKeyValue g).2)).1 := by rw [hr]
        refine ih s1 ⟨?_, ?_, ?_⟩ h
        · exact AccReach.step s s1 (.addGroup (parseKeyValue g).1 (compile (parseKeyValue g).2)) none inv.reach (by simp only [AccGroup.apply, hr])
        · rw [hs1, addGroupExpr_data]; exact inv.nodata
        · rw [hs1, addGroupExpr_dataCols]; exact inv.keylen

theorem setupAccums_inv (compile : Bytes → Option Stage) (dflt : Bytes) (es : List Bytes) (s s' : AccGroup) (mk mk' : Nat)
    (inv : SetupInv s mk) (h : setupAccums compile dflt es (s, mk) = .ok (s', mk')) : SetupInv s' mk' := by
  induction es generalizing s mk with
  | nil => simp only [setupAccums, Except.ok.injEq, Prod.mk.injEq] at h; obtain ⟨rfl, rfl⟩ := h; exact inv
  | cons e es ih =>
    simp only [setupAccums] at h
    cases hr : s.addDataExpr (parseKeyValInitial e dflt).1 (compile (parseKeyValInitial e dflt).2.2) (parseKeyValInitial e dflt).2.1 with
    | mk s1 er =>
      rw [hr] at h
      cases er with
      | some _ => cases h
      | none =>
        have hs1 : s1 = (s.addDataExpr (parseKeyValInitial e dflt).1 (compile (parseKeyValInitial e dflt).2.2) (parseKeyValInitial e dflt).2.1).1 := by rw [hr]
        refine ih s1 _ ⟨?_, ?_, ?_⟩ h
        · exact AccReach.step s s1 (.addData (parseKeyValInitial e dflt).1 (compile (parseKeyValInitial e dflt).2.2) (parseKeyValInitial e dflt).2.1) none inv.reach (by simp only [AccGroup.apply, hr])
        · rw [hs1, addDataExpr_data]; exact inv.nodata
        · intro n hn
          rw [hs1] at hn
          rcases addDataExpr_dataCols s _ _ _ n hn with h1 | h1
          · have := inv.keylen n h1
            split <;> omega
          · subst h1
            split <;> omega

/-- The aggregator `reduceFunction` hands to the aggregation loop: reachable by `Add…`/`SetSort` calls, without
data, and `maxKeylen` is at least the length of every accumulator name. -/
theorem reduceSetup_inv (compile : Bytes → Option Stage) (a : ReduceArgs) (s0 : AccGroup) (mk : Nat)
    (h : reduceSetup compile a = .ok (s0, mk)) : SetupInv s0 mk := by
  unfold reduceSetup at h
  cases h1 : setupGroups compile a.group {} with
  | error c => rw [h1] at h; cases h
  | ok s1 =>
    rw [h1] at h
    have i1 : SetupInv s1 0 := setupGroups_inv compile a.group {} s1 0 ⟨AccReach.init, rfl, by simp [AccGroup.dataCols]⟩ h1
    simp only at h
    cases h2 : setupAccums compile a.initial a.accum (s1, 0) with
    | error c => rw [h2] at h; cases h
    | ok r =>
      obtain ⟨s2, mk2⟩ := r
      rw [h2] at h
      have i2 := setupAccums_inv compile a.initial a.accum s1 s2 0 mk2 i1 h2
      simp only at h
      by_cases hs : a.sort ≠ []
      · rw [if_pos hs] at h
        cases hr : s2.setSort (compile a.sort) with
        | mk s3 er =>
          rw [hr] at h
          cases er with
          | some _ => cases h
          | none =>
            simp only [Except.ok.injEq, Prod.mk.injEq] at h
            obtain ⟨rfl, rfl⟩ := h
            have hs3 : s3 = (s2.setSort (compile a.sort)).1 := by rw [hr]
            refine ⟨AccReach.step s2 s3 (.setSort (compile a.sort)) none i2.reach (by simp only [AccGroup.apply, hr]), ?_, ?_⟩
            · rw [hs3, setSort_data]; exact i2.nodata
            · rw [hs3, setSort_dataCols]; exact i2.keylen
      · rw [if_neg hs] at h
        simp only [Except.ok.injEq, Prod.mk.injEq] at h
        obtain ⟨rfl, rfl⟩ := h
        exact i2

/-! ### the render callback -/

theorem foldl_set_zipIdx (xs : List Bytes) (k : Nat) (row : List Bytes) (h : k + xs.length ≤ row.length) :
    (xs.zipIdx k).foldl (fun r p => r.set p.2 p.1) row = row.take k ++ xs ++ row.drop (k + xs.length) := by
  induction xs generalizing k row with
  | nil => simp
  | cons x xs ih =>
    have hlen : k + (xs.length + 1) ≤ row.length := h
    have hk : k < row.length := by omega
    simp only [List.zipIdx_cons, List.foldl_cons, List.length_cons]
    rw [ih (k + 1) (row.set k x) (by rw [List.length_set]; omega)]
    have e1 : (row.set k x).take (k + 1) = row.take k ++ [x] := by
      apply List.ext_getElem?
      intro i
      by_cases hi : i < k
      · rw [List.getElem?_take_of_lt (by omega), List.getElem?_set_ne (by omega),
          List.getElem?_append_left (by simp [List.length_take]; omega), List.getElem?_take_of_lt hi]
      · by_cases hik : i = k
        · subst hik
          rw [List.getElem?_take_of_lt (by omega), List.getElem?_set_self hk,
            List.getElem?_append_right (by simp [List.length_take]; omega)]
          simp [List.length_take, Nat.min_eq_left (Nat.le_of_lt hk)]
        · rw [List.getElem?_eq_none (by simp [List.length_take]; omega),
            List.getElem?_eq_none (by simp [List.length_take]; omega)]
    have e2 : (row.set k x).drop (k + 1 + xs.length) = row.drop (k + (xs.length + 1)) := by
      apply List.ext_getElem?
      intro i
      rw [List.getElem?_drop, List.getElem?_drop, List.getElem?_set_ne (by omega)]
      congr 1; omega
    rw [e1, e2]
    simp [List.append_assoc]

/-- A table row holds the same cells as the CSV record: the padded key parts, then the row of the group. -/
theorem reduceTableRow_eq (s : AccGroup) (g : Bytes) :
    reduceTableRow s g = padParts s.groupColCount (groupKeyParts g) ++ s.dataOf g := by
  unfold reduceTableRow
  dsimp only
  have hc : s.colCount = s.groupColCount + s.colDef.length := rfl
  have hx : ((groupKeyParts g).take s.groupColCount).length ≤ s.groupColCount := by simp [List.length_take]; omega
  rw [foldl_set_zipIdx _ 0 _ (by simp only [List.length_replicate]; omega)]
  simp only [List.take_zero, List.nil_append, Nat.zero_add, List.drop_replicate]
  have hd : (s.dataOf g).length = s.colDef.length := by simp [AccGroup.dataOf]
  have e1 : (((groupKeyParts g).take s.groupColCount) ++
      List.replicate (s.colCount - ((groupKeyParts g).take s.groupColCount).length) ([] : Bytes)).take s.groupColCount =
      padParts s.groupColCount (groupKeyParts g) := by
    apply List.ext_getElem?
    intro i
    simp only [padParts]
    by_cases hi : i < s.groupColCount
    · rw [List.getElem?_take_of_lt hi, List.getElem?_map, List.getElem?_range hi]
      simp only [Option.map_some, List.getD_eq_getElem?_getD]
      by_cases hp : i < (groupKeyParts g).length
      · rw [List.getElem?_append_left (by simp [List.length_take]; omega), List.getElem?_take_of_lt hi,
          List.getElem?_eq_getElem hp]
        rfl
      · rw [List.getElem?_append_right (by simp [List.length_take]; omega), List.getElem?_replicate,
          List.getElem?_eq_none (by omega)]
        rw [if_pos (by simp [List.length_take]; omega)]
        rfl
    · rw [List.getElem?_eq_none (by simp [List.length_take]; omega),
        List.getElem?_eq_none (by simp; omega)]
  have e2 : (((groupKeyParts g).take s.groupColCount) ++
      List.replicate (s.colCount - ((groupKeyParts g).take s.groupColCount).length) ([] : Bytes)).drop s.groupColCount =
      List.replicate s.colDef.length [] := by
    rw [List.drop_append]
    rw [List.drop_eq_nil_of_le hx, List.nil_append, List.drop_replicate]
    congr 1
    omega
  rw [e1, e2, goCopy_same_length _ _ (by simp [hd])]

theorem mapM_ok_of_forall {α β : Type} (f : α → Except String β) (l : List α) (h : ∀ a ∈ l, ∃ b, f a = .ok b) :
    ∃ r, l.mapM f = .ok r := by
  induction l with
  | nil => exact ⟨[], rfl⟩
  | cons a l ih =>
    obtain ⟨b, hb⟩ := h a (by simp)
    obtain ⟨r, hr⟩ := ih (fun x hx => h x (by simp [hx]))
    exact ⟨b :: r, by rw [mapM_except_cons, hb, hr]⟩

theorem exists_map_ok {α β : Type} (g : α → β) (x : Except String α) (h : ∃ r, x = .ok r) : ∃ l, x.map g = .ok l := by
  obtain ⟨r, rfl⟩ := h; exact ⟨g r, rfl⟩

/-- The simple output never panics when `maxKeylen` bounds the accumulator names (`strings.Repeat` gets a
non-negative count, `colNames[idx]` is in range). -/
theorem reduceSimple_ok (s : AccGroup) (mk : Nat) (c : Counters) (hk : ∀ n ∈ s.dataCols, n.length ≤ mk) :
    ∃ lines, reduceSimple s mk c = .ok lines := by
  unfold reduceSimple
  dsimp only
  apply exists_map_ok
  apply mapM_ok_of_forall
  intro p hp
  have hlt : p.2 < s.dataCols.length := by
    have := List.mem_zipIdx hp
    simp [AccGroup.dataOf, AccGroup.dataCols] at this ⊢
    omega
  rw [List.getElem?_eq_getElem hlt]
  simp only
  have := hk _ (List.getElem_mem hlt)
  rw [if_neg (by omega)]
  exact ⟨_, rfl⟩

/-! ### `--sort-reverse`: `sorting.Reverse(sorter)` = `!sorter(a, b)` on distinct keys is the flipped order -/

section reverse
open List List.MergeSort.Internal

theorem merge_congr {α : Type} {r s : α → α → Bool} {l l' : List α} (hl : ∀ a ∈ l, ∀ b ∈ l', r a b = s a b) :
    l.merge l' r = l.merge l' s := by
  have := List.map_merge (f := id) (r := r) (s := s) (l := l) (l' := l') (by simpa using hl)
  simpa using this

theorem mergeSort_congr_nodup {α : Type} {r s : α → α → Bool} : ∀ (l : List α), l.Nodup →
    (∀ a ∈ l, ∀ b ∈ l, a ≠ b → r a b = s a b) → l.mergeSort r = l.mergeSort s
  | [], _, _ => by simp
  | [x], _, _ => by simp
  | a :: b :: l, hnd, h => by
    have hsplit : (a :: b :: l).take (((a :: b :: l).length + 1) / 2) ++ (a :: b :: l).drop (((a :: b :: l).length + 1) / 2) = a :: b :: l :=
      List.take_append_drop _ _
    have hnd' := hnd
    rw [← hsplit] at hnd'
    have hdis := List.nodup_append.mp hnd'
    simp only [mergeSort, splitInTwo_fst, splitInTwo_snd]
    have ht : ∀ x, x ∈ (a :: b :: l).take (((a :: b :: l).length + 1) / 2) → x ∈ a :: b :: l := fun x hx => List.mem_of_mem_take hx
    have hd : ∀ x, x ∈ (a :: b :: l).drop (((a :: b :: l).length + 1) / 2) → x ∈ a :: b :: l := fun x hx => List.mem_of_mem_drop hx
    rw [mergeSort_congr_nodup _ hdis.1 (fun x hx y hy hne => h x (ht x hx) y (ht y hy) hne),
      mergeSort_congr_nodup _ hdis.2.1 (fun x hx y hy hne => h x (hd x hx) y (hd y hy) hne)]
    apply merge_congr
    intro x hx y hy
    rw [List.mem_mergeSort] at hx hy
    exact h x (ht x hx) y (hd y hy) (hdis.2.2 x hx y hy)
  termination_by l => l.length
  decreasing_by all_goals (simp; omega)

end reverse

theorem not_less_eq_flip {α : Type} {less : α → α → Bool} (h : StrictTotal less) {a b : α} (hne : a ≠ b) :
    (!less a b) = less b a := by
  cases hab : less a b with
  | true => rw [h.asymm a b hab]; rfl
  | false => rw [h.total a b hne hab]; rfl

theorem flip_strictTotal {α : Type} {less : α → α → Bool} (h : StrictTotal less) : StrictTotal (fun x y => less y x) :=
  ⟨fun a => h.irrefl a, fun a b c h1 h2 => h.trans c b a h2 h1, fun a b hne hab => h.total b a (fun e => hne e.symm) hab⟩

/-- `Groups(Reverse(sorter))` on the distinct keys of a map is `Groups` with the flipped comparison. -/
theorem groupsWith_reverse (s : AccGroup) (less : Bytes → Bytes → Bool) (hlt : StrictTotal less) (order : List Bytes)
    (hnd : order.Nodup) :
    s.groupsWith (fun x y => !less x y) order = s.groupsWith (fun x y => less y x) order := by
  unfold AccGroup.groupsWith
  cases s.sortExpr with
  | none =>
    simp only
    congr 1
    apply mergeSort_congr_nodup order hnd
    intro a _ b _ hne
    rw [not_less_eq_flip hlt (fun e => hne e.symm)]
  | some e =>
    simp only
    have hs : sortLess (fun x y => !less x y) = sortLess (fun x y => less y x) := by
      funext a b
      unfold sortLess
      by_cases h2 : a.2 = b.2
      · rw [if_pos h2, if_pos h2]
      · rw [if_neg h2, if_neg h2]; exact not_less_eq_flip hlt h2
    rw [hs]

/-- The comparison `Groups` effectively sorts the distinct keys by, given the sorter of the render callback. -/
def effLess (a : ReduceArgs) (less : Bytes → Bytes → Bool) : Bytes → Bytes → Bool :=
  if a.sortReverse then fun x y => less y x else less

theorem effLess_strictTotal (a : ReduceArgs) {less : Bytes → Bytes → Bool} (hlt : StrictTotal less) :
    StrictTotal (effLess a less) := by
  unfold effLess; split
  · exact flip_strictTotal hlt
  · exact hlt

theorem groupsWith_reduceSorter (a : ReduceArgs) (s : AccGroup) (less : Bytes → Bytes → Bool) (hlt : StrictTotal less)
    (order : List Bytes) (hnd : order.Nodup) :
    s.groupsWith (reduceSorter a less) order = s.groupsWith (effLess a less) order := by
  unfold reduceSorter effLess
  split
  · exact groupsWith_reverse s less hlt order hnd
  · rfl

end Rare.C03
