import Rare.Proofs.C07Acc
import Rare.Proofs.C03Det
import Rare.Proofs.C03Csv
import Rare.Model.C03Reduce
/-! Helper lemmas for the `rare reduce` theorems of C03. -/
namespace Rare.C03
open Rare.C07
open Rare.Expr (Stage Ctx Comp)

/-! ### outcomes -/

/-- Two runs end the same way: both return the same value, or both panic. -/
def SameOutcome {α : Type} (x y : Except String α) : Prop :=
  (∃ v, x = .ok v ∧ y = .ok v) ∨ (∃ m₁ m₂, x = .error m₁ ∧ y = .error m₂)

theorem SameOutcome.rfl' {α : Type} (x : Except String α) : SameOutcome x x := by
  cases x with
  | ok v => exact Or.inl ⟨v, rfl, rfl⟩
  | error m => exact Or.inr ⟨m, m, rfl, rfl⟩

theorem SameOutcome.map {α β : Type} (f g : α → β) {x y : Except String α} (h : SameOutcome x y)
    (hfg : ∀ v, x = .ok v → f v = g v) : SameOutcome (x.map f) (y.map g) := by
  rcases h with ⟨v, rfl, rfl⟩ | ⟨m₁, m₂, rfl, rfl⟩
  · exact Or.inl ⟨f v, rfl, by simp [Except.map, hfg v rfl]⟩
  · exact Or.inr ⟨m₁, m₂, rfl, rfl⟩

/-! ### `Groups` and the map iteration order -/

theorem mapM_keyed_ok (f : Bytes → Except String Bytes) (l : List Bytes) (h : ∀ g ∈ l, ∃ k, f g = .ok k) :
    ∃ r, l.mapM (fun g => (f g).map fun k => (g, k)) = .ok r := by
  induction l with
  | nil => exact ⟨[], rfl⟩
  | cons a l ih =>
    obtain ⟨k, hk⟩ := h a (by simp)
    obtain ⟨r, hr⟩ := ih (fun g hg => h g (by simp [hg]))
    refine ⟨(a, k) :: r, ?_⟩
    rw [mapM_except_cons, hk, hr]
    rfl

/-- `Groups` panics or not independently of the order the map hands the keys over in. -/
theorem groupsWith_outcome_perm (s : AccGroup) (less : Bytes → Bytes → Bool) (hlt : StrictTotal less)
    (o₁ o₂ : List Bytes) (hp : o₁.Perm o₂) : SameOutcome (s.groupsWith less o₁) (s.groupsWith less o₂) := by
  cases h1 : s.groupsWith less o₁ with
  | ok r1 =>
    cases h2 : s.groupsWith less o₂ with
    | ok r2 => exact Or.inl ⟨r1, rfl, by rw [groupsWith_deterministic s less hlt o₁ o₂ r1 r2 hp h1 h2]⟩
    | error m =>
      exfalso
      unfold AccGroup.groupsWith at h1 h2
      cases hs : s.sortExpr with
      | none => rw [hs] at h2; cases h2
      | some e =>
        rw [hs] at h1 h2
        simp only at h1 h2
        have hl := hp.length_eq
        by_cases hle : o₁.length ≤ 1
        · rw [if_pos (by omega)] at h2; cases h2
        · rw [if_neg hle] at h1
          rw [if_neg (by omega)] at h2
          cases hm : o₁.mapM (fun g => (s.sortKey e g).map fun k => (g, k)) with
          | error m' => rw [hm] at h1; cases h1
          | ok keyed =>
            obtain ⟨_, hall⟩ := mapM_keyed (s.sortKey e) o₁ keyed hm
            obtain ⟨r, hr⟩ := mapM_keyed_ok (s.sortKey e) o₂ (fun g hg => hall g (hp.mem_iff.mpr hg))
            rw [hr] at h2; cases h2
  | error m =>
    cases h2 : s.groupsWith less o₂ with
    | error m' => exact Or.inr ⟨m, m', rfl, rfl⟩
    | ok r2 =>
      exfalso
      unfold AccGroup.groupsWith at h1 h2
      cases hs : s.sortExpr with
      | none => rw [hs] at h1; cases h1
      | some e =>
        rw [hs] at h1 h2
        simp only at h1 h2
        have hl := hp.length_eq
        by_cases hle : o₂.length ≤ 1
        · rw [if_pos (by omega)] at h1; cases h1
        · rw [if_neg hle] at h2
          rw [if_neg (by omega)] at h1
          cases hm : o₂.mapM (fun g => (s.sortKey e g).map fun k => (g, k)) with
          | error m' => rw [hm] at h2; cases h2
          | ok keyed =>
            obtain ⟨_, hall⟩ := mapM_keyed (s.sortKey e) o₂ keyed hm
            obtain ⟨r, hr⟩ := mapM_keyed_ok (s.sortKey e) o₁ (fun g hg => hall g (hp.mem_iff.mp hg))
            rw [hr] at h1; cases h1

/-! ### two aggregators that answer every accessor alike -/

/-- Same definitions, and every group looks up the same row (the association lists may be in different orders). -/
def ObsEq (s₁ s₂ : AccGroup) : Prop := SameDefs s₁ s₂ ∧ ∀ k, aget s₁.data k = aget s₂.data k

theorem ObsEq.refl (s : AccGroup) : ObsEq s s := ⟨SameDefs.refl s, fun _ => rfl⟩

namespace ObsEq
variable {s₁ s₂ : AccGroup} (h : ObsEq s₁ s₂)
include h

theorem dataNoCopy : s₁.dataNoCopy = s₂.dataNoCopy := by
  funext k; simp [AccGroup.dataNoCopy, h.2 k]

theorem groupCols : s₂.groupCols = s₁.groupCols := by simp [AccGroup.groupCols, h.1.1]
theorem dataCols : s₂.dataCols = s₁.dataCols := by simp [AccGroup.dataCols, h.1.2.1]
theorem groupColCount : s₂.groupColCount = s₁.groupColCount := by simp [AccGroup.groupColCount, h.1.1]
theorem colCount : s₂.colCount = s₁.colCount := by simp [AccGroup.colCount, h.1.1, h.1.2.1]

theorem dataOf : s₁.dataOf = s₂.dataOf := by
  funext k; simp [AccGroup.dataOf, h.dataNoCopy, h.1.2.1]

theorem sortKey (e : Stage) (g : Bytes) : s₁.sortKey e g = s₂.sortKey e g := by
  have : s₁.sortGetKey g = s₂.sortGetKey g := by
    funext key; simp [AccGroup.sortGetKey, h.dataNoCopy, h.1.2.2.1]
  simp [AccGroup.sortKey, this]

theorem groupsWith (less : Bytes → Bytes → Bool) (order : List Bytes) :
    s₁.groupsWith less order = s₂.groupsWith less order := by
  have hk : (fun g => (s₁.sortKey · g)) = fun g => (s₂.sortKey · g) := by
    funext g e; exact h.sortKey e g
  unfold AccGroup.groupsWith
  rw [h.1.2.2.2]
  cases s₁.sortExpr with
  | none => rfl
  | some e =>
    have : (fun g => (s₁.sortKey e g).map fun k => (g, k)) = fun g => (s₂.sortKey e g).map fun k => (g, k) := by
      funext g; rw [h.sortKey e g]
    simp only [this]

theorem accCsvRow (row : List Bytes) (g : Bytes) : C03.accCsvRow s₁ row g = C03.accCsvRow s₂ row g := by
  simp [C03.accCsvRow, h.groupColCount, h.dataNoCopy]

theorem accCsvRecords (gs : List Bytes) (row : List Bytes) : C03.accCsvRecords s₁ gs row = C03.accCsvRecords s₂ gs row := by
  induction gs generalizing row with
  | nil => rfl
  | cons g gs ih => simp only [C03.accCsvRecords, h.accCsvRow, ih]

theorem writeAccumulatorRows (gs : List Bytes) : C03.writeAccumulatorRows s₁ gs = C03.writeAccumulatorRows s₂ gs := by
  simp [C03.writeAccumulatorRows, h.groupCols, h.dataCols, h.colCount, h.accCsvRecords]

theorem reduceCsv (order : List Bytes) : C03.reduceCsv s₁ order = C03.reduceCsv s₂ order := by
  unfold C03.reduceCsv
  rw [h.groupsWith]
  congr 1
  funext gs; rw [h.writeAccumulatorRows]

theorem reduceTableRow (g : Bytes) : C03.reduceTableRow s₁ g = C03.reduceTableRow s₂ g := by
  simp [C03.reduceTableRow, h.groupColCount, h.colCount, h.dataOf]

end ObsEq

/-- The keys of two maps with the same look-ups are permutations of each other when no key is stored twice. -/
theorem akeys_perm_of_aget {α : Type} (m₁ m₂ : List (Bytes × α)) (h : ∀ k, aget m₁ k = aget m₂ k)
    (n₁ : (akeys m₁).Nodup) (n₂ : (akeys m₂).Nodup) : (akeys m₁).Perm (akeys m₂) :=
  (List.perm_ext_iff_of_nodup n₁ n₂).mpr fun k => by rw [mem_akeys_iff, mem_akeys_iff, h k]

theorem ObsEq.dataCount {s₁ s₂ : AccGroup} (h : ObsEq s₁ s₂) (r₁ : AccReach s₁) (r₂ : AccReach s₂) :
    s₁.dataCount = s₂.dataCount := by
  have := (akeys_perm_of_aget s₁.data s₂.data h.2 (reach_keys_nodup r₁) (reach_keys_nodup r₂)).length_eq
  simpa [AccGroup.dataCount, akeys] using this

/-- `range s.data` yields every key once: any such order is a permutation of any other. -/
theorem isRange_perm_obs {s₁ s₂ : AccGroup} (h : ∀ k, aget s₁.data k = aget s₂.data k) {o₁ o₂ : List Bytes}
    (r₁ : IsRangeOf o₁ s₁.data) (r₂ : IsRangeOf o₂ s₂.data) : o₁.Perm o₂ :=
  range_perm r₁ r₂ fun k => by rw [h k]

/-! ### `WriteAccumulator`: the reused row buffer holds exactly this row -/

theorem foldl_set_range (f : Nat → Bytes) (n : Nat) (row : List Bytes) (hn : n ≤ row.length) :
    (List.range n).foldl (fun r i => r.set i (f i)) row = (List.range n).map f ++ row.drop n := by
  induction n with
  | zero => simp
  | succ n ih =>
    rw [List.range_succ, List.foldl_append, ih (by omega)]
    simp only [List.foldl_cons, List.foldl_nil, List.map_append, List.map_cons, List.map_nil]
    have hl : ((List.range n).map f).length = n := by simp
    have : n < row.length := by omega
    rw [List.set_append_right _ _ (by omega), hl, Nat.sub_self]
    have hd : List.drop n row = row[n] :: List.drop (n + 1) row := List.drop_eq_getElem_cons this
    rw [hd, List.set_cons_zero, List.append_assoc]
    rfl

/-- The group cells of a CSV / table row: the first `n` parts of the key, missing ones empty. -/
def padParts (n : Nat) (parts : List Bytes) : List Bytes := (List.range n).map fun i => parts.getD i []

theorem padParts_length (n : Nat) (parts : List Bytes) : (padParts n parts).length = n := by simp [padParts]

/-- What `WriteAccumulator` writes for a group: its key parts, then its row. -/
def csvCells (s : AccGroup) (g : Bytes) : List Bytes := padParts s.groupColCount (groupKeyParts g) ++ s.dataNoCopy g

theorem goCopy_same_length {α : Type} (dst src : List α) (h : src.length = dst.length) : goCopy dst src = src := by
  unfold goCopy
  rw [← h, List.take_length, List.drop_eq_nil_of_le (by omega), List.append_nil]

theorem accCsvRow_eq (s : AccGroup) (row : List Bytes) (g : Bytes) (hrow : row.length = s.colCount)
    (hdata : (s.dataNoCopy g).length = s.colDef.length) : accCsvRow s row g = csvCells s g := by
  unfold accCsvRow csvCells padParts
  have hc : s.colCount = s.groupColCount + s.colDef.length := rfl
  dsimp only
  rw [foldl_set_range _ _ _ (by omega)]
  have hl : ((List.range s.groupColCount).map fun i => (groupKeyParts g).getD i []).length = s.groupColCount := by simp
  rw [List.take_left' hl, List.drop_left' hl]
  rw [goCopy_same_length _ _ (by rw [hdata, List.length_drop]; omega)]

theorem csvCells_length (s : AccGroup) (g : Bytes) (hdata : (s.dataNoCopy g).length = s.colDef.length) :
    (csvCells s g).length = s.colCount := by
  simp [csvCells, padParts_length, hdata, AccGroup.colCount, AccGroup.groupColCount]

theorem accCsvRecords_eq (s : AccGroup) (gs : List Bytes) (row : List Bytes) (hrow : row.length = s.colCount)
    (hdata : ∀ g ∈ gs, (s.dataNoCopy g).length = s.colDef.length) : accCsvRecords s gs row = gs.map (csvCells s) := by
  induction gs generalizing row with
  | nil => rfl
  | cons g gs ih =>
    have hg := hdata g (by simp)
    simp only [accCsvRecords, List.map_cons]
    rw [accCsvRow_eq s row g hrow hg, ih _ (csvCells_length s g hg) (fun x hx => hdata x (by simp [hx]))]

/-- For an aggregator in which every listed group has a full row (every reachable one, for the groups it holds):
the records of `WriteAccumulator` are the header and, per group, its padded key parts and its row – nothing
of the previous record survives in the reused buffer. -/
theorem writeAccumulatorRows_eq (s : AccGroup) (gs : List Bytes)
    (hdata : ∀ g ∈ gs, (s.dataNoCopy g).length = s.colDef.length) :
    writeAccumulatorRows s gs = (s.groupCols ++ s.dataCols) :: gs.map (csvCells s) := by
  unfold writeAccumulatorRows
  rw [accCsvRecords_eq s gs _ (by simp) hdata]

theorem dataNoCopy_length_of_reach (s : AccGroup) (h : AccReach s) (g : Bytes) (hg : (aget s.data g).isSome) :
    (s.dataNoCopy g).length = s.colDef.length := by
  cases hr : aget s.data g with
  | none => rw [hr] at hg; cases hg
  | some row =>
    have := (reach_accwf h).rows g row hr
    simp [AccGroup.dataNoCopy, hr, this]

theorem groupsWith_mem (s : AccGroup) (less : Bytes → Bytes → Bool) (hlt : StrictTotal less) (order gs : List Bytes)
    (h : s.groupsWith less order = .ok gs) (g : Bytes) (hg : g ∈ gs) : g ∈ order :=
  (groupsWith_spec s less hlt order gs h).1.mem_iff.mp hg

/-- Key parts read back: for group values without NUL the padded parts are the values (also for a single empty
value, whose key has no parts at all: the padding supplies the empty cell). -/
theorem padParts_nulJoin (vs : List Bytes) (hfree : ∀ v ∈ vs, (0 : UInt8) ∉ v) :
    padParts vs.length (groupKeyParts (nulJoin vs)) = vs := by
  by_cases h1 : vs = [[]]
  · subst h1; decide
  · by_cases h0 : vs = []
    · subst h0; rfl
    · have : groupKeyParts (nulJoin vs) = vs := (parts_nulJoin_iff vs).mpr ⟨hfree, h1⟩
      rw [this]
      apply List.ext_getElem (by simp [padParts])
      intro i hi1 hi2
      simp [padParts, List.getD_eq_getElem?_getD, hi2]

end Rare.C03
