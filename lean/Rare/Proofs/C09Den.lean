import Rare.Proofs.C09C10
/-!
C09 × C10, generalised: a printed expression tree compiles – optimiser on or off – to a stage that *denotes*
the tree, for registries whose builders

* may inspect their argument stages at compile time (constant arguments, compile-time type checks of
  constant arguments, `EvalStaticStage`): the registry hypothesis is per call *site* (`RegDen`), so an
  instance may assume what the tree says about the arguments (`DenArgs`: each argument stage evaluates to the
  argument tree's value in every context, a literal argument is the constant stage `.ret`, an argument the
  certificate `D` calls dynamic does look something up when probed);
* may have a meaning that depends on the context beyond the argument values (`Sem = Ctx → …`: user-defined
  functions read named keys and negative indices of the caller's match).

`Rare/Proofs/C09C10.lean`'s `printTop_ok` is the special case of context-free semantics, `Implements`
builders and the leaf-only certificate.
-/
namespace Rare.C09
open Rare Rare.Expr

theorem envC_const (fn : List Char → List Bytes → Bytes) (ctx : Ctx) : envC (fun _ => fn) ctx = envOf ctx fn := rfl

/-- `stage` denotes the tree `e`. -/
structure Den (sem : Sem) (D : C09.Expr → Bool) (stage : Stage) (e : C09.Expr) : Prop where
  /-- in every context the stage evaluates (no panic) to the tree's value -/
  run : ∀ ctx, stage.run ctx = .ok (evalTree (envC sem ctx) e)
  /-- a tree the certificate calls dynamic is not mistaken for a constant by `EvalStaticStage` -/
  dyn : D e = true → ∃ v, stage.probe = .ok (v, false)
  /-- a literal is the constant stage -/
  lit : ∀ s, e = .lit s → stage = .ret (utf8 s)

def DenArgs (sem : Sem) (D : C09.Expr → Bool) : List Stage → List C09.Expr → Prop
  | [], [] => True
  | s :: ss, e :: es => Den sem D s e ∧ DenArgs sem D ss es
  | _, _ => False

theorem DenArgs.length {sem : Sem} {D : C09.Expr → Bool} : ∀ {cargs : List Stage} {args : List C09.Expr},
    DenArgs sem D cargs args → cargs.length = args.length
  | [], [], _ => rfl
  | _ :: ss, _ :: es, h => by simp [DenArgs.length (cargs := ss) (args := es) h.2]
  | [], _ :: _, h => by cases h
  | _ :: _, [], h => by cases h

theorem DenArgs.runs {sem : Sem} {D : C09.Expr → Bool} (ctx : Ctx) : ∀ {cargs : List Stage} {args : List C09.Expr},
    DenArgs sem D cargs args → cargs.map (·.run ctx) = (evalArgs (envC sem ctx) args).map .ok
  | [], [], _ => rfl
  | s :: ss, e :: es, h => by
    simp only [List.map_cons, evalArgs, h.1.run ctx, DenArgs.runs ctx (cargs := ss) (args := es) h.2]
  | [], _ :: _, h => by cases h
  | _ :: _, [], h => by cases h

theorem DenArgs.total {sem : Sem} {D : C09.Expr → Bool} : ∀ {cargs : List Stage} {args : List C09.Expr},
    DenArgs sem D cargs args → ∀ a ∈ cargs, Total a
  | [], [], _ => fun a ha => by cases ha
  | s :: ss, e :: es, h => fun a ha => by
    rcases List.mem_cons.mp ha with rfl | ha
    · exact fun ctx => ⟨_, h.1.run ctx⟩
    · exact DenArgs.total (cargs := ss) (args := es) h.2 a ha
  | [], _ :: _, h => by cases h
  | _ :: _, [], h => by cases h

mutual
/-- Every function called in the tree is registered with a builder that, *at this call site* – for argument
    stages denoting the argument trees – returns without compile error a stage denoting the call. -/
def RegDen (reg : Registry) (sem : Sem) (D : C09.Expr → Bool) : C09.Expr → Prop
  | .call f args =>
    (∃ b, reg f = some b ∧ ∀ cargs, DenArgs sem D cargs args →
      ∃ stage, b cargs = .ok ⟨some stage, none⟩ ∧ Den sem D stage (.call f args)) ∧
    RegDenArgs reg sem D args
  | .lit _ => True
  | .group _ => True
  | .key _ => True
def RegDenArgs (reg : Registry) (sem : Sem) (D : C09.Expr → Bool) : List C09.Expr → Prop
  | [] => True
  | a :: rest => RegDen reg sem D a ∧ RegDenArgs reg sem D rest
end

/-! ### the optimiser on a single stage / a literal -/

theorem join_single (s : Stage) : joinStages [s] = s := rfl

/-- Optimising a one-stage list keeps the joined stage – literally (a stage that probes constant *is* the
    constant, `Comp.probe_constant`). -/
theorem optimize_single (s : Stage) (out : List Stage) (h : optimize [s] = .ok out) : joinStages out = s := by
  simp only [optimize, optimizeGo] at h
  cases hp : s.probe with
  | error m => rw [hp] at h; cases h
  | ok p =>
    obtain ⟨v, b⟩ := p
    rw [hp] at h
    cases b with
    | true =>
      have hs := Comp.probe_constant s v hp
      simp only [List.nil_append, Except.ok.injEq] at h
      subst h
      by_cases hv : v.isEmpty
      · have : v = [] := by simpa using hv
        subst this; rw [hs]; rfl
      · simp only [hv, Bool.false_eq_true, if_false]; rw [hs]; rfl
    | false =>
      simp only [List.isEmpty_nil, if_true, List.nil_append, Except.ok.injEq] at h
      subst h; rfl

theorem optimize_lit_join (s : List Char) :
    ∃ st, optimize (litStages s) = .ok st ∧ joinStages st = .ret (utf8 s) := by
  by_cases he : s.isEmpty
  · have hs : s = [] := by simpa using he
    subst hs
    exact ⟨[], by simp [litStages, optimize, optimizeGo], rfl⟩
  · have hl : litStages s = [Stage.lit (utf8 s)] := by simp [litStages, he]
    rw [hl]
    have hrun : ∀ ctx, (Stage.lit (utf8 s)).run ctx = .ok (utf8 s) := fun _ => rfl
    obtain ⟨b, hb⟩ := probe_of_run (Stage.lit (utf8 s)) (utf8 s) (hrun emptyCtx)
    obtain ⟨out, ho⟩ := optimizeGo_ok [Stage.lit (utf8 s)] [] [] (fun x hx => by
      simp only [List.mem_singleton] at hx; subst hx; exact ⟨_, hrun emptyCtx⟩)
    exact ⟨out, ho, optimize_single _ out ho⟩

section
variable (reg : Registry) (sem : Sem) (D : C09.Expr → Bool) (opt : Bool)

/-- The end of `Compile` after a single braced statement that produced `stage`. -/
theorem finishC_single (t : List Char) (stage : Stage) (htot : ∃ a, stage.run emptyCtx = .ok a) :
    ∃ out, finishC opt t ⟨[] ++ [stage], [], [], 0, 0⟩ = .ok (out, []) ∧ joinStages out = stage := by
  cases opt with
  | false => exact ⟨[stage], by simp [finishC], rfl⟩
  | true =>
    obtain ⟨out, ho⟩ := optimizeGo_ok [stage] [] [] (fun x hx => by
      simp only [List.mem_singleton] at hx; subst hx; exact htot)
    have ho' : optimize [stage] = .ok out := ho
    exact ⟨out, by simp [finishC, ho'], optimize_single _ out ho'⟩

theorem compileF_plain_den (fuel : Nat) (s : List Char) (h : plain s = true) :
    ∃ st, compileF (fuel + 1) reg opt s = .ok (st, []) ∧ joinStages st = .ret (utf8 s) := by
  obtain ⟨j, hj⟩ := loop_inert fuel reg opt s s [] 0 ⟨[], [], [], 0, 0⟩ (plain_inert h)
  rw [List.append_nil, loop_nil] at hj
  rw [compileF_eq, hj]
  have hst : (if s = [] then ([] : List Stage) else [Stage.lit (charsToBytes s)]) = litStages s := by
    cases s <;> simp [litStages, utf8_eq]
  cases opt with
  | false =>
    refine ⟨litStages s, by simp [finishC, hst], ?_⟩
    cases s with
    | nil => rfl
    | cons c r => simp [litStages, join_single, Stage.lit]
  | true =>
    obtain ⟨st, h1, h2⟩ := optimize_lit_join s
    exact ⟨st, by simp [finishC, hst, h1], h2⟩

theorem den_var (w : List Char) (e : C09.Expr)
    (hrun : ∀ ctx, (stageSimpleVariable w).run ctx = .ok (evalTree (envC sem ctx) e)) (hne : ∀ s, e ≠ .lit s) :
    Den sem D (stageSimpleVariable w) e := by
  refine ⟨hrun, fun _ => ?_, fun s hs => absurd hs (hne s)⟩
  unfold stageSimpleVariable
  split
  · exact ⟨[], rfl⟩
  · exact ⟨[], rfl⟩

theorem compileF_var_den (fuel : Nat) (σ : Style) (w : List Char) (h : bare w = true) :
    ∃ st, compileF (fuel + 1) reg opt ('{' :: ((ws (σ []).lead ++ w ++ ws (σ []).trail) ++ ['}'])) = .ok (st, []) ∧
      joinStages st = stageSimpleVariable w := by
  have hl : LayoutOk true [(ws (σ []).lead, Piece.bare w)] := ⟨allSpace_ws _, Or.inl rfl, h, trivial⟩
  have hin : Inner (ws (σ []).lead ++ w ++ ws (σ []).trail) := by
    have := inner_append (inner_layout _ true hl) (inner_of_plain (plain_of_space (allSpace_ws (σ []).trail)))
    simpa [layout, Piece.text] using this
  obtain ⟨j, hj⟩ := compileF_braced fuel reg opt hin
  rw [hj, close_var fuel reg opt _ j ⟨[], [], _, 0, 1⟩ w (split_word σ w h)]
  have htot : ∃ a, (stageSimpleVariable w).run emptyCtx = .ok a := by
    unfold stageSimpleVariable
    split
    · exact ⟨_, rfl⟩
    · exact ⟨_, rfl⟩
  exact finishC_single opt _ _ htot

variable (hD : ∀ s, D (.lit s) = false)
include hD

mutual
theorem arg_den : ∀ (e : C09.Expr) (σ : Style) (fuel : Nat), Admissible e → RegDen reg sem D e → depth e ≤ fuel →
    ∃ stages, compileF fuel reg opt (argString σ e) = .ok (stages, []) ∧ Den sem D (joinStages stages) e
  | .lit s, σ, fuel, ha, _, hd => by
    obtain ⟨g, rfl⟩ : ∃ g, fuel = g + 1 := ⟨fuel - 1, by simp [depth] at hd; omega⟩
    simp only [Admissible] at ha
    obtain ⟨st, h1, h2⟩ := compileF_plain_den reg opt g s ha
    refine ⟨st, h1, ?_⟩
    rw [h2]
    exact ⟨fun ctx => rfl, fun h => (by rw [hD s] at h; cases h), fun s' hs => (by cases hs; rfl)⟩
  | .group n, σ, fuel, ha, _, hd => by
    obtain ⟨g, rfl⟩ : ∃ g, fuel = g + 1 := ⟨fuel - 1, by simp [depth] at hd; omega⟩
    simp only [Admissible] at ha
    obtain ⟨st, h1, h2⟩ := compileF_var_den reg opt g σ (decimal n) (bare_decimal n)
    refine ⟨st, ?_, ?_⟩
    · rw [argString, printArg_stmt σ _ (by intro s h; cases h)]
      exact h1
    · rw [h2]
      have hs : stageSimpleVariable (decimal n) = Comp.match_ (n : Int) := by
        simp [stageSimpleVariable, utf8_eq, atoi_decimal n ha]
      exact den_var sem D _ _ (fun ctx => by rw [hs]; rfl) (by intro s h; cases h)
  | .key k, σ, fuel, ha, _, hd => by
    obtain ⟨g, rfl⟩ : ∃ g, fuel = g + 1 := ⟨fuel - 1, by simp [depth] at hd; omega⟩
    simp only [Admissible] at ha
    obtain ⟨st, h1, h2⟩ := compileF_var_den reg opt g σ k ha.1
    refine ⟨st, ?_, ?_⟩
    · rw [argString, printArg_stmt σ _ (by intro s h; cases h)]
      exact h1
    · rw [h2]
      have hs : stageSimpleVariable k = Comp.key (utf8 k) := by
        simp [stageSimpleVariable, utf8_eq, ha.2]
      exact den_var sem D _ _ (fun ctx => by rw [hs]; rfl) (by intro s h; cases h)
  | .call f args, σ, fuel, ha, hreg, hd => by
    obtain ⟨g, rfl⟩ : ∃ g, fuel = g + 1 := ⟨fuel - 1, by simp [depth] at hd; omega⟩
    have hd' : depthArgs args ≤ g := by simp [depth] at hd; omega
    have hsplit := split_call σ f args ha
    have hpiece := argPiece_ok (.call f args) σ ha
    simp only [Admissible] at ha
    simp only [RegDen] at hreg
    obtain ⟨⟨b, hb, himpl⟩, hregs⟩ := hreg
    obtain ⟨cargs, hc, hden⟩ := args_den args σ 0 g ha.2.2 hregs hd'
    obtain ⟨stage, hst, hsd⟩ := himpl cargs hden
    cases args with
    | nil => exact absurd rfl ha.2.1
    | cons a rest =>
      have hin : Inner (stmtBody σ (.call f (a :: rest))) := by
        simpa [argPiece, Piece.ok] using hpiece
      obtain ⟨j, hj⟩ := compileF_braced g reg opt hin
      simp only [argStrings] at hsplit hc
      have hclose := close_call g reg opt ('{' :: (stmtBody σ (.call f (a :: rest)) ++ ['}'])) j
          ⟨[], [], stmtBody σ (.call f (a :: rest)), 0, 1⟩ f _ _ b cargs stage hsplit hb hc hst
      obtain ⟨out, h1, h2⟩ := finishC_single opt ('{' :: (stmtBody σ (.call f (a :: rest)) ++ ['}'])) stage
        ⟨_, hsd.run emptyCtx⟩
      refine ⟨out, ?_, by rw [h2]; exact hsd⟩
      rw [argString, printArg_stmt σ _ (by intro s h; cases h), hj, hclose]
      exact h1
theorem args_den : ∀ (l : List C09.Expr) (σ : Style) (i fuel : Nat), AdmissibleArgs l → RegDenArgs reg sem D l →
    depthArgs l ≤ fuel →
    ∃ cargs, compileArgs fuel reg opt (argStrings σ i l) = .ok (cargs, []) ∧ DenArgs sem D cargs l
  | [], σ, i, fuel, _, _, _ => ⟨[], by rw [argStrings, compileArgs], trivial⟩
  | a :: rest, σ, i, fuel, ha, hreg, hd => by
    simp only [AdmissibleArgs] at ha
    simp only [RegDenArgs] at hreg
    simp only [depthArgs] at hd
    obtain ⟨stages, h1, r1⟩ := arg_den a (σ.child i) fuel ha.1 hreg.1 (by omega)
    obtain ⟨cargs, h2, r2⟩ := args_den rest σ (i + 1) fuel ha.2 hreg.2 (by omega)
    refine ⟨joinStages stages :: cargs, ?_, ⟨r1, r2⟩⟩
    rw [argStrings, compileArgs, h1]
    simp only []
    rw [h2]
    simp
end

/-- **A printed tree, optimiser on or off, general registry hypothesis.** -/
theorem printTop_den (σ : Style) (e : C09.Expr) (ha : AdmissibleTop e) (hreg : RegDen reg sem D e) :
    ∃ stages, compile reg opt (printTop σ e) = .ok (stages, []) ∧
      ∀ ctx, (buildKey stages).run ctx = .ok (evalTree (envC sem ctx) e) := by
  have key : ∀ e : C09.Expr, Admissible e → RegDen reg sem D e →
      ∃ stages, compile reg opt (argString σ e) = .ok (stages, []) ∧
        ∀ ctx, (buildKey stages).run ctx = .ok (evalTree (envC sem ctx) e) := by
    intro e ha hreg
    obtain ⟨st, h1, h2⟩ := arg_den reg sem D opt hD e σ ((argString σ e).length + 1 + depth e) ha hreg (by omega)
    refine ⟨st, ?_, fun ctx => ?_⟩
    · have := compileF_fuel_irrelevant reg opt ((argString σ e).length + 1) (argString σ e) (by omega)
        ((argString σ e).length + 1 + depth e) ((argString σ e).length + 1) (by omega) (by omega)
      rw [compile, ← this]; exact h1
    · rw [buildKey, ← joinStages_eq]; exact h2.run ctx
  cases e with
  | lit s =>
    obtain ⟨st, h1, h2⟩ := compileF_escapeLit (escapeLit s).length reg opt s
    exact ⟨st, h1, fun ctx => by simpa [evalTree] using h2 ctx⟩
  | group n => exact key _ ha hreg
  | key k => exact key _ ha hreg
  | call f args => exact key _ ha hreg

end

end Rare.C09
