import Rare.Proofs.C14TableInv
import Rare.Model.C14Format
/-!
The table-based renderers (data table, sparkline, reduce table) as `TableWriter` call sequences:
no panic, the invariant of `C14TableInv`, and what the rows contain.
-/
namespace Rare.C14
open Rare Rare.C20

/-! ### which cells a table remembers -/

/-- the cells of the last `WriteRow(n, …)` of a call sequence -/
def latestRow : List TableOp → Nat → Option (List Bytes)
  | [], _ => none
  | op :: rest, n =>
    match latestRow rest n with
    | some c => some c
    | none => match op with
      | .row m cols => if m = (n : Int) then some cols else none
      | .footer _ _ => none

/-- the `WriteRow(n, …)` of one call, if it is one -/
def TableOp.rowAt (op : TableOp) (n : Nat) : Option (List Bytes) :=
  match op with
  | .row m cols => if m = (n : Int) then some cols else none
  | .footer _ _ => none

theorem latestRow_cons (op : TableOp) (rest : List TableOp) (n : Nat) :
    latestRow (op :: rest) n = (latestRow rest n).orElse (fun _ => op.rowAt n) := by
  show (match latestRow rest n with | some c => some c | none => _) = _
  cases latestRow rest n with
  | some c => rfl
  | none => cases op <;> rfl

theorem rowsAfter_cons (mr : Int) (rows : List (List Bytes)) (op : TableOp) (rest : List TableOp) :
    rowsAfter mr rows (op :: rest) = rowsAfter mr (rowsAfter mr rows [op]) rest := rfl

theorem rowsAfter_length (mr : Int) : ∀ (ops : List TableOp) (rows : List (List Bytes)),
    (rowsAfter mr rows ops).length = rows.length := by
  intro ops
  induction ops with
  | nil => intro rows; rfl
  | cons op rest ih =>
    intro rows
    rw [rowsAfter_cons, ih]
    cases op with
    | row m cols =>
      show (if m ≥ mr then rows else rows.set m.toNat cols).length = _
      split <;> simp
    | footer _ _ => rfl

/-- after a call sequence, row `n < maxRows` holds the cells of the last `WriteRow(n, …)`, or what it held before -/
theorem rowsAfter_get (mr : Int) (n : Nat) (hn : (n : Int) < mr) : ∀ (ops : List TableOp) (rows : List (List Bytes)),
    n < rows.length → (∀ op ∈ ops, op.NonNeg) →
    (rowsAfter mr rows ops)[n]? = some ((latestRow ops n).getD (rows.getD n [])) := by
  intro ops
  induction ops with
  | nil =>
    intro rows hlt _
    simp [rowsAfter, latestRow, List.getD, List.getElem?_eq_getElem hlt]
  | cons op rest ih =>
    intro rows hlt hops
    have hop := hops op (by simp)
    rw [rowsAfter_cons]
    have hlen : n < (rowsAfter mr rows [op]).length := by rw [rowsAfter_length]; exact hlt
    rw [ih _ hlen (fun o ho => hops o (by simp [ho])), latestRow_cons]
    cases hl : latestRow rest n with
    | some c => simp
    | none =>
      simp only [Option.getD_none, Option.orElse]
      cases op with
      | footer idx line => rfl
      | row m cols =>
        have hm : 0 ≤ m := hop
        show some ((if m ≥ mr then rows else rows.set m.toNat cols).getD n []) = some ((if m = (n : Int) then some cols else none).getD _)
        by_cases hmn : m = (n : Int)
        · have hge : ¬ (m ≥ mr) := by omega
          have : m.toNat = n := by omega
          rw [if_neg hge, this, if_pos hmn]
          simp [List.getD, hlt]
        · rw [if_neg hmn]
          simp only [Option.getD_none]
          split
          · rfl
          · simp only [List.getD, List.getElem?_set]
            rw [if_neg (by omega)]

theorem latestRow_append (a b : List TableOp) (n : Nat) :
    latestRow (a ++ b) n = (latestRow b n).orElse (fun _ => latestRow a n) := by
  induction a with
  | nil => cases h : latestRow b n <;> simp [latestRow, h]
  | cons op a ih =>
    rw [List.cons_append, latestRow_cons, latestRow_cons, ih]
    cases hb : latestRow b n with
    | some c => simp
    | none => simp

theorem latestRow_seq_none {α : Type} (f : α → List Bytes) (n : Nat) : ∀ (l : List α) (b : Nat), n ≤ b →
    latestRow ((l.zipIdx b).map fun (p : α × Nat) => TableOp.row ((p.2 : Int) + 1) (f p.1)) n = none := by
  intro l
  induction l with
  | nil => intro b _; rfl
  | cons y l ih =>
    intro b hb
    rw [List.zipIdx_cons, List.map_cons, latestRow_cons, ih (b + 1) (by omega)]
    simp only [Option.orElse, TableOp.rowAt]
    rw [if_neg (by omega)]

/-- rows written at consecutive indices `base+1, base+2, …` -/
theorem latestRow_seq {α : Type} (f : α → List Bytes) : ∀ (l : List α) (base : Nat) (i : Nat) (x : α), l[i]? = some x →
    latestRow ((l.zipIdx base).map fun (p : α × Nat) => TableOp.row ((p.2 : Int) + 1) (f p.1)) (base + i + 1) = some (f x) := by
  intro l
  induction l with
  | nil => intro base i x h; simp at h
  | cons a l ih =>
    intro base i x h
    rw [List.zipIdx_cons, List.map_cons, latestRow_cons]
    cases i with
    | zero =>
      simp at h; subst h
      rw [latestRow_seq_none f (base + 0 + 1) l (base + 1) (by omega)]
      simp [TableOp.rowAt]
    | succ i =>
      have := ih (base + 1) i x (by simpa using h)
      rw [show base + (i + 1) + 1 = base + 1 + i + 1 by omega, this]
      rfl

/-! ### data table (`rare tabulate`) -/

theorem minColSlice_ok {α : Type} (count : Int) (h : 0 ≤ count) (cols : List α) :
    minColSlice count cols = .ok (cols.take count.toNat) := by
  unfold minColSlice
  split
  · rename_i hlt
    rw [List.take_of_length_le (by omega)]; rfl
  · rename_i hge
    unfold sliceTo
    rw [if_neg (by omega)]

theorem rowOps_nonneg {α : Type} (f : α → List Bytes) (l : List α) (b : Nat) :
    ∀ op ∈ (l.zipIdx b).map (fun (p : α × Nat) => TableOp.row ((p.2 : Int) + 1) (f p.1)), op.NonNeg := by
  intro op hop
  obtain ⟨p, _, rfl⟩ := List.mem_map.mp hop
  show (0 : Int) ≤ (p.2 : Int) + 1
  omega

/-- `DataTable.WriteTable` on any aggregated state: no panic, the table invariant (so the columns line
up), and the rows hold exactly the header, one row of formatted values per displayed row, and the totals -/
theorem datatable_render (env : Env) (d : DataTable) (vt : VirtualTerm) (hinv : TableInv env d.table vt)
    (hnc : 0 ≤ d.numCols) (hnr : 0 ≤ d.numRows) (hmr : d.table.maxRows = d.numRows + 2)
    (rkeys ckeys : List Bytes) (c : Cells) :
    ∃ d' vt', d.writeTable env vt rkeys ckeys c = .ok (d', vt') ∧ TableInv env d'.table vt' ∧
      d'.table.rows[0]? = some (d.headerCells env ckeys (c.cols.take d.numCols.toNat)) ∧
      (∀ (i : Nat) (r : Nat), (d.shownRows c)[i]? = some r →
        d'.table.rows[i + 1]? = some (d.rowCells env rkeys c (c.cols.take d.numCols.toNat) r)) ∧
      (d.showColTotals = true →
        d'.table.rows[(d.shownRows c).length + 1]? = some (d.totalCells env c (c.cols.take d.numCols.toNat))) := by
  have hlen : (d.shownRows c).length ≤ d.numRows.toNat := by unfold DataTable.shownRows; rw [List.length_take]; exact Nat.min_le_left _ _
  -- the script
  have hscript : d.script env rkeys ckeys c = .ok ([TableOp.row 0 (d.headerCells env ckeys (c.cols.take d.numCols.toNat))] ++
      ((d.shownRows c).zipIdx.map fun (ri : Nat × Nat) => TableOp.row ((ri.2 : Int) + 1) (d.rowCells env rkeys c (c.cols.take d.numCols.toNat) ri.1)) ++
      (if d.showColTotals then [TableOp.row (((d.shownRows c).length : Int) + 1) (d.totalCells env c (c.cols.take d.numCols.toNat))] else [])) := by
    unfold DataTable.script DataTable.shownCols
    rw [minColSlice_ok d.numCols hnc]
    rfl
  generalize hops : ([TableOp.row 0 (d.headerCells env ckeys (c.cols.take d.numCols.toNat))] ++
      ((d.shownRows c).zipIdx.map fun (ri : Nat × Nat) => TableOp.row ((ri.2 : Int) + 1) (d.rowCells env rkeys c (c.cols.take d.numCols.toNat) ri.1)) ++
      (if d.showColTotals then [TableOp.row (((d.shownRows c).length : Int) + 1) (d.totalCells env c (c.cols.take d.numCols.toNat))] else [])) = ops at hscript
  have hnn : ∀ op ∈ ops, op.NonNeg := by
    rw [← hops]
    intro op hop
    simp only [List.mem_append, List.mem_singleton] at hop
    rcases hop with (rfl | hop) | hop
    · exact Int.le_refl 0
    · exact rowOps_nonneg _ _ _ op hop
    · split at hop
      · simp only [List.mem_singleton] at hop; subst hop
        show (0 : Int) ≤ _; omega
      · simp at hop
  obtain ⟨t', vt', hrun, hinv', _, hmr', _, _, hrows⟩ := runOps_inv env ops d.table vt hinv hnn
  refine ⟨{ d with table := t' }, vt', ?_, hinv', ?_, ?_, ?_⟩
  · unfold DataTable.writeTable
    rw [hscript]
    show (do let r ← TableWriter.runOps env (d.table, vt) ops; (pure ({ d with table := r.1 }, r.2) : Res (DataTable × VirtualTerm))) = _
    rw [hrun]; rfl
  all_goals
    have hrl : d.table.rows.length = (d.numRows + 2).toNat := by rw [← hmr]; exact hinv.rows_len
  · show t'.rows[0]? = _
    rw [hrows, rowsAfter_get d.table.maxRows 0 (by omega) ops d.table.rows (by omega) hnn, ← hops]
    congr 1
    rw [latestRow_append, latestRow_append]
    have h1 : latestRow (if d.showColTotals then [TableOp.row (((d.shownRows c).length : Int) + 1) (d.totalCells env c (c.cols.take d.numCols.toNat))] else []) 0 = none := by
      split
      · rw [latestRow_cons]; simp [latestRow, TableOp.rowAt]; omega
      · rfl
    rw [h1, latestRow_seq_none _ 0 _ 0 (Nat.le_refl _)]
    simp [latestRow, Option.orElse]
  · intro i r hi
    have hil : i < (d.shownRows c).length := by
      rcases Nat.lt_or_ge i (d.shownRows c).length with h | h
      · exact h
      · rw [List.getElem?_eq_none h] at hi; cases hi
    show t'.rows[i + 1]? = _
    rw [hrows, rowsAfter_get d.table.maxRows (i + 1) (by omega) ops d.table.rows (by omega) hnn, ← hops]
    congr 1
    rw [latestRow_append]
    have h1 : latestRow (if d.showColTotals then [TableOp.row (((d.shownRows c).length : Int) + 1) (d.totalCells env c (c.cols.take d.numCols.toNat))] else []) (i + 1) = none := by
      split
      · rw [latestRow_cons]; simp [latestRow, TableOp.rowAt]; omega
      · rfl
    rw [h1, latestRow_append]
    have h2 := latestRow_seq (fun r => d.rowCells env rkeys c (c.cols.take d.numCols.toNat) r) (d.shownRows c) 0 i r hi
    rw [show 0 + i + 1 = i + 1 by omega] at h2
    rw [h2]
    rfl
  · intro htot
    show t'.rows[(d.shownRows c).length + 1]? = _
    rw [hrows, rowsAfter_get d.table.maxRows ((d.shownRows c).length + 1) (by omega) ops d.table.rows (by omega) hnn, ← hops]
    congr 1
    rw [latestRow_append, if_pos htot, latestRow_cons]
    simp [latestRow, TableOp.rowAt, Option.orElse]

/-- the numbers in a data row are the aggregated values under the chosen formatter and the CURRENT range -/
theorem datatable_cells (env : Env) (d : DataTable) (rkeys : List Bytes) (c : Cells) (cols : List Nat) (r : Nat) :
    (d.rowCells env rkeys c cols r).length = cols.length + 2 ∧
    (d.rowCells env rkeys c cols r)[0]? = some (wrap env cYellow (keyAt rkeys r)) ∧
    (∀ (j k : Nat), cols[j]? = some k →
      (d.rowCells env rkeys c cols r)[j + 1]? = some (d.fmt.apply (c.value r k) (d.range c).1 (d.range c).2)) ∧
    (d.showRowTotals = true → (d.rowCells env rkeys c cols r)[cols.length + 1]? =
      some (wrap env cBrightBlack (d.fmt.apply (c.rowSum r) (d.range c).1 (d.range c).2))) := by
  unfold DataTable.rowCells
  refine ⟨by simp, by simp, ?_, ?_⟩
  · intro j k hj
    have hjl : j < cols.length := by
      rcases Nat.lt_or_ge j cols.length with h | h
      · exact h
      · rw [List.getElem?_eq_none h] at hj; cases hj
    have hk : cols[j] = k := by
      rw [List.getElem?_eq_getElem hjl] at hj; exact Option.some.inj hj
    simp [List.getElem?_append, hjl, hk]
  · intro ht
    simp [ht]

/-! ### reduce table (`rare reduce`, table output) -/

theorem reduce_rowCells_length (env : Env) (r : Reduce) (key : Bytes) (data : List Bytes) :
    (r.rowCells env key data).length = r.gnames.length + r.dnames.length := by
  unfold Reduce.rowCells
  simp only [List.length_append, List.length_map, List.length_replicate, List.length_take]
  omega

/-- the first `GroupColCount` cells of a row are the first parts of the group key (the rest of an
over-long key is dropped, 73473fc), the others are the data columns -/
theorem reduce_rowCells_parts (env : Env) (r : Reduce) (key : Bytes) (data : List Bytes) (j : Nat) (part : Bytes)
    (hj : j < r.gnames.length) (hp : (groupParts key)[j]? = some part) :
    (r.rowCells env key data)[j]? = some (wrap env cBrightWhite part) := by
  unfold Reduce.rowCells
  have hlt : j < (List.take r.gnames.length (groupParts key)).length := by
    have : j < (groupParts key).length := by
      rcases Nat.lt_or_ge j (groupParts key).length with h | h
      · exact h
      · rw [List.getElem?_eq_none h] at hp; cases hp
    rw [List.length_take]; omega
  simp only
  rw [List.append_assoc, List.getElem?_append_left (by simpa using hlt), List.getElem?_map, List.getElem?_take, if_pos hj, hp]
  rfl

theorem reduce_rowCells_data (env : Env) (r : Reduce) (key : Bytes) (data : List Bytes) (j : Nat) (x : Bytes)
    (hj : j < r.dnames.length) (hx : data[j]? = some x) :
    (r.rowCells env key data)[r.gnames.length + j]? = some x := by
  unfold Reduce.rowCells
  simp only
  have hl : ((List.take r.gnames.length (groupParts key)).map (wrap env cBrightWhite) ++
      List.replicate (r.gnames.length - (List.take r.gnames.length (groupParts key)).length) ([] : Bytes)).length = r.gnames.length := by
    simp only [List.length_append, List.length_map, List.length_replicate, List.length_take]; omega
  rw [List.getElem?_append_right (by rw [hl]; omega), hl, Nat.add_sub_cancel_left]
  have hjl : j < data.length := by
    rcases Nat.lt_or_ge j data.length with h | h
    · exact h
    · rw [List.getElem?_eq_none h] at hx; cases hx
  rw [List.getElem?_append_left (by rw [List.length_take]; omega), List.getElem?_take, if_pos hj, hx]

/-- one render callback of `rare reduce` (table path), for ANY group keys and data texts: no panic (also for a
key with more parts than group columns), the table invariant, and row `i + 1` holds the cells of group `i` -/
theorem reduce_render (env : Env) (r : Reduce) (vt : VirtualTerm) (hinv : TableInv env r.table vt)
    (groups : List (Bytes × List Bytes)) (f0 f1 : Bytes) :
    ∃ r' vt', r.render env vt groups f0 f1 = .ok (r', vt') ∧ TableInv env r'.table vt' ∧
      r'.gnames = r.gnames ∧ r'.dnames = r.dnames ∧ r'.table.maxRows = r.table.maxRows ∧
      (∀ (i : Nat) (g : Bytes × List Bytes), groups[i]? = some g → ((i : Int) + 1 < r.table.maxRows) →
        r'.table.rows[i + 1]? = some (r.rowCells env g.1 g.2)) := by
  have hnn : ∀ op ∈ r.script env groups f0 f1, op.NonNeg := by
    intro op hop
    unfold Reduce.script at hop
    simp only [List.mem_append, List.mem_cons, List.not_mem_nil, or_false] at hop
    rcases hop with hop | rfl | rfl
    · exact rowOps_nonneg (fun (g : Bytes × List Bytes) => r.rowCells env g.1 g.2) groups 0 op hop
    · exact Int.le_refl 0
    · show (0 : Int) ≤ 1; omega
  obtain ⟨t', vt', hrun, hinv', _, hmr', _, _, hrows⟩ := runOps_inv env _ r.table vt hinv hnn
  refine ⟨{ r with table := t' }, vt', ?_, hinv', rfl, rfl, hmr', ?_⟩
  · unfold Reduce.render
    show (do let x ← TableWriter.runOps env (r.table, vt) (r.script env groups f0 f1); (pure ({ r with table := x.1 }, x.2) : Res (Reduce × VirtualTerm))) = _
    rw [hrun]; rfl
  · intro i g hg hlt
    show t'.rows[i + 1]? = _
    have hrl := hinv.rows_len
    rw [hrows, rowsAfter_get r.table.maxRows (i + 1) (by omega) _ r.table.rows (by omega) hnn]
    congr 1
    unfold Reduce.script
    rw [latestRow_append]
    have h1 : latestRow [TableOp.footer 0 f0, TableOp.footer 1 f1] (i + 1) = none := by
      simp [latestRow]
    rw [h1]
    have h2 := latestRow_seq (fun (g : Bytes × List Bytes) => r.rowCells env g.1 g.2) groups 0 i g hg
    rw [show 0 + i + 1 = i + 1 by omega] at h2
    simp only [Option.orElse]
    rw [h2]; rfl

end Rare.C14
