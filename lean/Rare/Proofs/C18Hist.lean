import Rare.Model.C18Zone
import Rare.Proofs.C18Dur
/-! C18 (round 4c): one compiled stage over a history of arguments; the 86400-second window that
starts at the wall clock's midnight against the local day. -/
namespace Rare.C18

/-- A stage whose step ignores and keeps its memory answers every argument on its own. -/
theorem run_stateless {σ : Type} (f : Bytes → Out) (s : σ) (xs : List Bytes) :
    (StageM.mk fun (s : σ) a => (f a, s)).run s xs = xs.map f := by
  induction xs with
  | nil => rfl
  | cons a r ih => simp only [StageM.run, List.map_cons, ih]

theorem run_getElem? {σ : Type} (f : Bytes → Out) (s : σ) (xs : List Bytes) (i : Nat) :
    ((StageM.mk fun (s : σ) a => (f a, s)).run s xs)[i]? = xs[i]?.map f := by
  rw [run_stateless]; simp

theorem run_last {σ : Type} (f : Bytes → Out) (s : σ) (pre : List Bytes) (a : Bytes) :
    ((StageM.mk fun (s : σ) a => (f a, s)).run s (pre ++ [a])).getLast? = some (f a) := by
  rw [run_stateless]; simp

/-- The attribute functions read the local DAY only. -/
theorem timeAttr_of_localDays (name : Bytes) (u v o o' : Int) (h : localDays v o' = localDays u o) :
    timeAttr name v o' = timeAttr name u o := by
  simp only [timeAttr, h]

/-- With one offset in force at both instants: `v` lies in the 86400-second window that starts at
what `u`'s wall clock shows as midnight iff both fall on the same local day. -/
theorem dayWindow_iff (u v o : Int) :
    (u - localSecs u o ≤ v ∧ v < u - localSecs u o + 86400) ↔ localDays v o = localDays u o := by
  unfold localSecs localDays
  omega

theorem timeAttrStageIn_num (z : ZoneTab) (attr : Bytes) (u : Int) (hu : inInt64 u = true)
    (hy : yearInRange u (z.lookup u).off = true) (b : Bytes) (hb : timeAttrIn z attr u = some b) :
    timeAttrStageIn z attr (itoa u) = .val b := by
  simp only [timeAttrStageIn, atoi_itoa u hu, hy, Bool.not_true, Bool.false_eq_true, if_false, hb]

theorem timeFormatStageIn_num (z : ZoneTab) (layout : Bytes) (u : Int) (hu : inInt64 u = true)
    (hy : yearInRange u (z.lookup u).off = true) :
    timeFormatStageIn z layout (itoa u) = .val (formatLayout layout (timeVIn z u)) := by
  simp only [timeFormatStageIn, atoi_itoa u hu, hy, Bool.not_true, Bool.false_eq_true, if_false]

end Rare.C18
