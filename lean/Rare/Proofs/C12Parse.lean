import Rare.Proofs.C12Main
/-! Every byte string is a pattern text (`p.render` + optional unclosed tail): the grammar is total. -/
namespace Rare.C12

theorem split_tok (s : Bytes) : NoTok s ∨ ∃ l r, s = l ++ ([pct, lbrace] ++ r) ∧ NoTok l := by
  induction s with
  | nil => left; simp [NoTok, firstIndex]
  | cons c s ih =>
    by_cases hp : [pct, lbrace].isPrefixOf (c :: s) = true
    · right
      obtain ⟨r, hr⟩ := List.isPrefixOf_iff_prefix.mp hp
      exact ⟨[], r, by simpa using hr.symm, by simp [NoTok, firstIndex]⟩
    · have hp' : [pct, lbrace].isPrefixOf (c :: s) = false := Bool.eq_false_iff.mpr hp
      rcases ih with h | ⟨l, r, hs, hl⟩
      · left; exact noTok_cons.mpr ⟨hp', h⟩
      · right
        refine ⟨c :: l, r, by simp [hs], noTok_cons.mpr ⟨?_, hl⟩⟩
        subst hs
        cases l with
        | nil => simp [List.isPrefixOf]
        | cons d l' => simpa [List.isPrefixOf] using hp'

theorem split_rbrace (s : Bytes) : rbrace ∉ s ∨ ∃ k r, s = k ++ ([rbrace] ++ r) ∧ rbrace ∉ k := by
  induction s with
  | nil => left; simp
  | cons c s ih =>
    by_cases hc : c = rbrace
    · right; exact ⟨[], s, by simp [hc], by simp⟩
    · rcases ih with h | ⟨k, r, hs, hk⟩
      · left; simp [h]; exact fun e => hc e.symm
      · right; exact ⟨c :: k, r, by simp [hs], by simp [hk]; exact fun e => hc e.symm⟩

/-- everything after a token opener parses as tokens (+ optionally an unclosed tail) -/
theorem parse_rest : ∀ (n : Nat) (s : Bytes), s.length ≤ n →
    ∃ toks tail, (∀ t ∈ toks, rbrace ∉ t.key ∧ NoTok t.lit) ∧ (∀ j, tail = some j → rbrace ∉ j) ∧
      [pct, lbrace] ++ s = restText toks tail := by
  intro n
  induction n with
  | zero =>
    intro s hs
    have : s = [] := List.length_eq_zero_iff.mp (by omega)
    subst this
    exact ⟨[], some [], by simp, by intro j h; cases h; simp, by simp [restText, tailText]⟩
  | succ n ih =>
    intro s hs
    rcases split_rbrace s with h | ⟨k, r, hs', hk⟩
    · exact ⟨[], some s, by simp, by intro j hj; cases hj; exact h, by simp [restText, tailText]⟩
    · rcases split_tok r with hr | ⟨l, r', hr', hl⟩
      · refine ⟨[⟨k, r⟩], none, ?_, ?_, ?_⟩
        · intro t ht; simp at ht; subst ht; exact ⟨hk, hr⟩
        · intro j hj; cases hj
        · simp [restText, tailText, Tok.render, hs']
      · have hlen : r'.length ≤ n := by
          subst hs' hr'; simp at hs; omega
        obtain ⟨toks, tail, h1, h2, h3⟩ := ih r' hlen
        refine ⟨⟨k, l⟩ :: toks, tail, ?_, h2, ?_⟩
        · intro t ht
          simp only [List.mem_cons] at ht
          rcases ht with rfl | ht
          · exact ⟨hk, hl⟩
          · exact h1 t ht
        · rw [restText_cons, ← h3]
          simp [Tok.render, hs', hr']

/-- **Every byte string is a pattern text**: `p.render`, optionally followed by an unclosed token. -/
theorem parse_total (s : Bytes) :
    ∃ (p : Pat) (tail : Option Bytes), p.Shape ∧ (∀ j, tail = some j → rbrace ∉ j) ∧
      s = p.render ++ tailText tail := by
  rcases split_tok s with h | ⟨l, r, hs, hl⟩
  · refine ⟨⟨s, []⟩, none, ⟨h, by simp⟩, ?_, ?_⟩
    · intro j hj; cases hj
    · simp [Pat.render, tailText]
  · obtain ⟨toks, tail, h1, h2, h3⟩ := parse_rest r.length r (Nat.le_refl _)
    refine ⟨⟨l, toks⟩, tail, ⟨hl, h1⟩, h2, ?_⟩
    rw [hs, h3]; simp [Pat.render, restText]

theorem specErrors_unclosed_ne_none (toks : List Tok) (seen : List Bytes) :
    specErrors true toks seen ≠ none := by
  induction toks generalizing seen with
  | nil => simp [specErrors]
  | cons t ts ih =>
    simp only [specErrors]
    split
    · simp
    · split
      · simp
      · exact ih _

/-- whatever compiles is the text of a well-formed pattern -/
theorem compiles_is_pattern {s : Bytes} {ic : Bool} {d : Dissect} (h : compileEx s ic = .ok d) :
    ∃ p : Pat, p.Shape ∧ s = p.render := by
  obtain ⟨p, tail, hp, ht, hs⟩ := parse_total s
  cases tail with
  | none => exact ⟨p, hp, by simpa [tailText] using hs⟩
  | some j =>
    exfalso
    rw [hs, compileEx_render ic p hp (some j) ht] at h
    cases he : specErrors true p.toks [] with
    | none => exact specErrors_unclosed_ne_none _ _ he
    | some e => simp [he] at h

end Rare.C12
