import Rare.Proofs.C11CaseIdem
import Rare.Proofs.C20Utf8
/-!
C11 (session 6): string-level idempotence of `strings.ToUpper` / `strings.ToLower` – every byte string, ill-formed
UTF-8 included – from the rune-level theorem `toRune_idem` and the UTF-8 round trip of `Proofs/C20Utf8`.
-/
namespace Rare.C11.Case
open Rare.C20

/-- what `utf8.AppendRune` writes for `r`: `r` itself, U+FFFD for surrogates and values past `MaxRune` -/
def normR (r : Nat) : Nat := if validScalar r then r else 0xFFFD

theorem normR_valid (r : Nat) : validScalar (normR r) := by
  unfold normR; split
  · assumption
  · unfold validScalar; omega

theorem encodeRune_normR (r : Nat) : encodeRune (normR r) = encodeRune r := by
  unfold normR; split
  · rfl
  · rename_i h
    have h' : (0xD800 ≤ r ∧ r < 0xE000) ∨ 0x110000 ≤ r := by unfold validScalar at h; omega
    have h80 : ¬ r < 0x80 := by omega
    have h800 : ¬ r < 0x800 := by omega
    conv => rhs; unfold encodeRune
    rw [if_neg h80, if_neg h800, if_pos h']
    decide

theorem toRune_fffd (lower : Bool) : toRune lower 0xFFFD = 0xFFFD := by
  cases lower <;> decide +kernel

theorem goMap_eq (f : Nat → Nat) (s : Bytes) : goMap f s = encodeUtf8 ((decodeUtf8 s).map (fun r => normR (f r))) := by
  unfold goMap encodeUtf8
  rw [List.flatMap_map]
  congr 1; funext r; exact (encodeRune_normR _).symm

/-- **`strings.Map(unicode.ToUpper, ·)` / `strings.Map(unicode.ToLower, ·)` are idempotent on every byte string**
    (ill-formed input, surrogate and out-of-range results included). -/
theorem goMap_case_idem (lower : Bool) (s : Bytes) :
    goMap (toRune lower) (goMap (toRune lower) s) = goMap (toRune lower) s := by
  rw [goMap_eq (toRune lower) s]
  unfold goMap
  rw [decodeUtf8_encodeUtf8 _ (by
    intro r hr
    rcases List.mem_map.mp hr with ⟨x, _, rfl⟩
    exact normR_valid _)]
  unfold encodeUtf8
  rw [List.flatMap_map, List.flatMap_map]
  congr 1; funext r
  show encodeRune (toRune lower (normR (toRune lower r))) = encodeRune (normR (toRune lower r))
  rw [encodeRune_normR]
  unfold normR
  split
  · rw [toRune_idem]
  · rename_i h
    rw [toRune_fffd]
    have := encodeRune_normR (toRune lower r)
    unfold normR at this; rw [if_neg h] at this; exact this


theorem caseByte_table : ∀ n, n < 128 →
    encodeRune (toUpperR n) = [upperB (UInt8.ofNat n)] ∧ encodeRune (toLowerR n) = [lowerB (UInt8.ofNat n)] := by
  decide +kernel

theorem isAscii_of_all (t : Bytes) (h : t.all (fun c => c < 128) = true) : IsAscii t := by
  intro x hx
  have := List.all_eq_true.mp h x hx
  simpa [UInt8.lt_iff_toNat_lt] using this

theorem goMap_ascii (t : Bytes) (h : t.all (fun c => c < 128) = true) :
    goMap toUpperR t = t.map upperB ∧ goMap toLowerR t = t.map lowerB := by
  have ha := isAscii_of_all t h
  unfold goMap
  rw [decodeUtf8_of_ascii t ha, List.flatMap_map]
  clear h
  induction t with
  | nil => exact ⟨rfl, rfl⟩
  | cons b tl ih =>
    have hb : b.toNat < 128 := ha b (by simp)
    have htl : IsAscii tl := fun x hx => ha x (by simp [hx])
    have := caseByte_table b.toNat hb
    have hbb : UInt8.ofNat b.toNat = b := by simp
    rw [hbb] at this
    simp only [List.flatMap_cons, List.map_cons, this.1, this.2, (ih htl).1, (ih htl).2]
    exact ⟨rfl, rfl⟩

/-- **`strings.ToUpper` / `strings.ToLower` are idempotent on every byte string.** -/
theorem goToUpper_idem (s : Bytes) : goToUpper (goToUpper s) = goToUpper s := by
  cases hs : s.all (fun c => c < 128) with
  | true =>
    have au := all_ascii_map upperB upperB_ascii s hs
    rw [goToUpper_ascii s hs, goToUpper_ascii _ au, List.map_map]
    congr 1; funext b; exact upperB_idem b
  | false =>
    have e : goToUpper s = goMap toUpperR s := by unfold goToUpper; simp only [hs]; rfl
    rw [e]
    cases ht : (goMap toUpperR s).all (fun c => c < 128) with
    | true =>
      rw [goToUpper_ascii _ ht, ← (goMap_ascii _ ht).1]
      exact goMap_case_idem false s
    | false =>
      have e' : goToUpper (goMap toUpperR s) = goMap toUpperR (goMap toUpperR s) := by
        unfold goToUpper; simp only [ht]; rfl
      rw [e']; exact goMap_case_idem false s

theorem goToLower_idem (s : Bytes) : goToLower (goToLower s) = goToLower s := by
  cases hs : s.all (fun c => c < 128) with
  | true =>
    have au := all_ascii_map lowerB lowerB_ascii s hs
    rw [goToLower_ascii s hs, goToLower_ascii _ au, List.map_map]
    congr 1; funext b; exact lowerB_idem b
  | false =>
    have e : goToLower s = goMap toLowerR s := by unfold goToLower; simp only [hs]; rfl
    rw [e]
    cases ht : (goMap toLowerR s).all (fun c => c < 128) with
    | true =>
      rw [goToLower_ascii _ ht, ← (goMap_ascii _ ht).2]
      exact goMap_case_idem true s
    | false =>
      have e' : goToLower (goMap toLowerR s) = goMap toLowerR (goMap toLowerR s) := by
        unfold goToLower; simp only [ht]; rfl
      rw [e']; exact goMap_case_idem true s

/-- whatever the mapping, `strings.Map` writes well-formed UTF-8 (ill-formed input bytes come out as U+FFFD) -/
theorem goMap_valid (f : Nat → Nat) (s : Bytes) : ValidUtf8 (goMap f s) := by
  unfold ValidUtf8
  rw [goMap_eq f s, decodeUtf8_encodeUtf8 _ (by
    intro r hr
    rcases List.mem_map.mp hr with ⟨x, _, rfl⟩
    exact normR_valid _)]

theorem ascii_valid (a : Bytes) (h : a.all (fun c => c < 128) = true) : ValidUtf8 a := by
  have ha := isAscii_of_all a h
  unfold ValidUtf8 encodeUtf8
  rw [decodeUtf8_of_ascii a ha, List.flatMap_map]
  clear h
  induction a with
  | nil => rfl
  | cons b tl ih =>
    have hb : b.toNat < 128 := ha b (by simp)
    have htl : IsAscii tl := fun x hx => ha x (by simp [hx])
    have e : encodeRune b.toNat = [b] := by
      unfold encodeRune; rw [if_pos (by omega)]; simp
    simp only [List.flatMap_cons, e, ih htl]; rfl

theorem goToUpper_valid (s : Bytes) : ValidUtf8 (goToUpper s) := by
  cases hs : s.all (fun c => c < 128) with
  | true => rw [goToUpper_ascii s hs]; exact ascii_valid _ (all_ascii_map upperB upperB_ascii s hs)
  | false =>
    have e : goToUpper s = goMap toUpperR s := by unfold goToUpper; simp only [hs]; rfl
    rw [e]; exact goMap_valid _ _

theorem goToLower_valid (s : Bytes) : ValidUtf8 (goToLower s) := by
  cases hs : s.all (fun c => c < 128) with
  | true => rw [goToLower_ascii s hs]; exact ascii_valid _ (all_ascii_map lowerB lowerB_ascii s hs)
  | false =>
    have e : goToLower s = goMap toLowerR s := by unfold goToLower; simp only [hs]; rfl
    rw [e]; exact goMap_valid _ _

end Rare.C11.Case
