import Rare.Model.C13Lower
import Rare.Proofs.C09Utf8
/-! C13: `foldLower` / `lowerK` are look-up equivalent to the modelled `strings.ToLower`
(`goToLower tl`, any `tl` meeting `RuneLower`) – for ALL byte strings, well-formed UTF-8 or not. -/
namespace Rare.C13
open Rare
open Rare.C20 (decodeUtf8 encodeRune decode1)
open Rare.C09 (decode1_view cp2 cp3 cp4 R2 R3 R4 seqLen)

/-- some byte of the string is not ASCII -/
def HasHigh (l : Bytes) : Prop := ∃ b ∈ l, 128 ≤ b.toNat

theorem hasHigh_append_left {a : Bytes} (b : Bytes) (h : HasHigh a) : HasHigh (a ++ b) := by
  obtain ⟨x, hx, hb⟩ := h
  exact ⟨x, List.mem_append_left _ hx, hb⟩

theorem hasHigh_append_right (a : Bytes) {b : Bytes} (h : HasHigh b) : HasHigh (a ++ b) := by
  obtain ⟨x, hx, hb⟩ := h
  exact ⟨x, List.mem_append_right _ hx, hb⟩

theorem not_hasHigh_of_ascii {l : Bytes} (h : l.all (fun c => c < 128) = true) : ¬ HasHigh l := by
  intro ⟨b, hb, h128⟩
  rw [List.all_eq_true] at h
  have := h b hb
  simp only [decide_eq_true_eq, UInt8.lt_iff_toNat_lt] at this
  have e : (128 : UInt8).toNat = 128 := rfl
  omega

/-- `WriteRune` of a non-ASCII rune starts with a non-ASCII byte. -/
theorem encodeRune_hasHigh (r : Nat) (h : 128 ≤ r) : HasHigh (encodeRune r) := by
  unfold encodeRune
  have h1 : ¬ r < 0x80 := by omega
  rw [if_neg h1]
  split
  · refine ⟨_, List.mem_cons_self .., ?_⟩
    rw [UInt8.toNat_ofNat']; omega
  · split
    · exact ⟨0xEF, List.mem_cons_self .., by decide⟩
    · split
      · refine ⟨_, List.mem_cons_self .., ?_⟩
        rw [UInt8.toNat_ofNat']; omega
      · refine ⟨_, List.mem_cons_self .., ?_⟩
        rw [UInt8.toNat_ofNat']; omega

theorem encodeRune_small (r : Nat) (h : r < 128) : encodeRune r = [UInt8.ofNat r] := by
  simp [encodeRune, h]

theorem lowerB_toNat (c : UInt8) (h : c.toNat < 128) :
    UInt8.ofNat (if 65 ≤ c.toNat ∧ c.toNat ≤ 90 then c.toNat + 32 else c.toNat) = lowerB c := by
  unfold lowerB
  have e65 : (65 : UInt8).toNat = 65 := rfl
  have e90 : (90 : UInt8).toNat = 90 := rfl
  by_cases hc : 65 ≤ c.toNat ∧ c.toNat ≤ 90
  · have hc' : 65 ≤ c ∧ c ≤ 90 := by
      simp only [UInt8.le_iff_toNat_le]; omega
    rw [if_pos hc, if_pos hc']
    apply UInt8.toNat_inj.mp
    rw [UInt8.toNat_ofNat', UInt8.toNat_add]
    rfl
  · have hc' : ¬ (65 ≤ c ∧ c ≤ 90) := by
      simp only [UInt8.le_iff_toNat_le]; omega
    rw [if_neg hc, if_neg hc']
    simp

theorem goMap_cons (tl : Nat → Nat) (b0 : UInt8) (t : Bytes) :
    goMap tl (b0 :: t) = encodeRune (tl (decode1 (b0 :: t)).1) ++ goMap tl (t.drop ((decode1 (b0 :: t)).2 - 1)) := by
  unfold goMap
  rw [Rare.C20.decodeUtf8_cons, List.flatMap_cons]

theorem lt128_iff (c : UInt8) : c < 128 ↔ c.toNat < 128 := by
  rw [UInt8.lt_iff_toNat_lt]; rfl

theorem eq_iff_toNat (c : UInt8) (n : Nat) (hn : n < 256) : c = UInt8.ofNat n ↔ c.toNat = n := by
  constructor
  · intro h; rw [h, UInt8.toNat_ofNat']; omega
  · intro h; apply UInt8.toNat_inj.mp; rw [UInt8.toNat_ofNat']; omega

theorem foldLower_cons (c : UInt8) (r : Bytes) : foldLower (c :: r) =
    if c < 128 then (foldLower r).map (lowerB c :: ·)
    else if c = 0xC4 then
      match r with
      | d :: r' => if d = 0xB0 then (foldLower r').map (105 :: ·) else none
      | [] => none
    else if c = 0xE2 then
      match r with
      | d :: e :: r' => if d = 0x84 ∧ e = 0xAA then (foldLower r').map (107 :: ·) else none
      | _ => none
    else none := by
  conv => lhs; unfold foldLower
  split
  · rfl
  · split
    · cases r <;> rfl
    · split
      · match r with
        | [] => rfl
        | [_] => rfl
        | _ :: _ :: _ => rfl
      · rfl

/-- What `foldLower` says about `strings.Map(unicode.ToLower, ·)`, for every byte string. -/
def FoldOK (tl : Nat → Nat) (k : Bytes) : Prop :=
  match foldLower k with
  | some l => goMap tl k = l
  | none => HasHigh (goMap tl k)

theorem foldOK_some {tl : Nat → Nat} {k l : Bytes} (h : foldLower k = some l) : FoldOK tl k ↔ goMap tl k = l := by
  unfold FoldOK; rw [h]

theorem foldOK_none {tl : Nat → Nat} {k : Bytes} (h : foldLower k = none) : FoldOK tl k ↔ HasHigh (goMap tl k) := by
  unfold FoldOK; rw [h]

/-- prepending one mapped ASCII result -/
theorem foldOK_step {tl : Nat → Nat} {k rest : Bytes} (c : UInt8)
    (hf : foldLower k = (foldLower rest).map (c :: ·)) (hm : goMap tl k = c :: goMap tl rest)
    (ih : FoldOK tl rest) : FoldOK tl k := by
  cases hr : foldLower rest with
  | some l =>
    rw [hr] at hf
    rw [foldOK_some (by simpa using hf), hm, (foldOK_some hr).mp ih]
  | none =>
    rw [hr] at hf
    rw [foldOK_none (by simpa using hf), hm]
    exact hasHigh_append_right [c] ((foldOK_none hr).mp ih)

theorem foldOK_all (tl : Nat → Nat) (h : RuneLower tl) : ∀ (n : Nat) (k : Bytes), k.length ≤ n → FoldOK tl k := by
  intro n
  induction n with
  | zero =>
    intro k hk
    have : k = [] := List.eq_nil_of_length_eq_zero (by omega)
    subst this
    show goMap tl [] = []
    rfl
  | succ n ih =>
    intro k hk
    cases k with
    | nil => show goMap tl [] = []; rfl
    | cons b0 t =>
      have hlen : t.length ≤ n := by simp at hk; omega
      rcases decode1_view b0 t with ⟨h0, hd⟩ | ⟨hx, _, hd⟩ | ⟨b1, r, rfl, hr, _, hd⟩ | ⟨b1, b2, r, rfl, hr, _, hd⟩ |
          ⟨b1, b2, b3, r, rfl, hr, _, hd⟩
      · -- no well-formed sequence starts here: U+FFFD
        have hb0 : 128 ≤ b0.toNat := by
          apply Classical.byContradiction
          intro hlt
          have : seqLen (b0 :: t) = 1 := by simp [seqLen]; omega
          omega
        have hnone : foldLower (b0 :: t) = none := by
          have h1 : ¬ b0 < 128 := by rw [lt128_iff]; omega
          unfold foldLower
          rw [if_neg h1]
          split
          · rename_i hc4
            have e : b0.toNat = 0xC4 := by rw [hc4]; rfl
            cases t with
            | nil => rfl
            | cons d r' =>
              simp only
              split
              · rename_i hd'
                have e' : d.toNat = 0xB0 := by rw [hd']; rfl
                have : seqLen (b0 :: d :: r') = 2 := by simp [seqLen, e, e']
                omega
              · rfl
          · split
            · rename_i _ he2
              have e : b0.toNat = 0xE2 := by rw [he2]; rfl
              match t with
              | [] => rfl
              | [_] => rfl
              | d :: e3 :: r' =>
                simp only
                split
                · rename_i hde
                  have e1 : d.toNat = 0x84 := by rw [hde.1]; rfl
                  have e2 : e3.toNat = 0xAA := by rw [hde.2]; rfl
                  have : seqLen (b0 :: d :: e3 :: r') = 3 := by simp [seqLen, e, e1, e2]
                  omega
                · rfl
            · rfl
        rw [foldOK_none hnone, goMap_cons, hd]
        exact hasHigh_append_left _ (encodeRune_hasHigh _ (h.other 0xFFFD (by omega) (by omega) (by omega)))
      · -- ASCII byte
        have hm : goMap tl (b0 :: t) = lowerB b0 :: goMap tl t := by
          rw [goMap_cons, hd]
          simp only [Nat.sub_self, List.drop_zero]
          rw [h.ascii _ (by omega), encodeRune_small _ (by split <;> omega), lowerB_toNat b0 (by omega)]
          rfl
        have hf : foldLower (b0 :: t) = (foldLower t).map (lowerB b0 :: ·) := by
          have h1 : b0 < 128 := by rw [lt128_iff]; omega
          rw [foldLower_cons, if_pos h1]
        exact foldOK_step _ hf hm (ih t hlen)
      · -- two bytes
        obtain ⟨hx1, hx2, hy1, hy2⟩ := hr
        have h1 : ¬ b0 < 128 := by rw [lt128_iff]; omega
        have hlen' : r.length ≤ n := by simp at hlen; omega
        by_cases hI : b0.toNat = 0xC4 ∧ b1.toNat = 0xB0
        · have e0 : b0 = 0xC4 := (eq_iff_toNat b0 0xC4 (by omega)).mpr hI.1
          have e1 : b1 = 0xB0 := (eq_iff_toNat b1 0xB0 (by omega)).mpr hI.2
          have hm : goMap tl (b0 :: b1 :: r) = 105 :: goMap tl r := by
            rw [goMap_cons, hd]
            have : cp2 b0.toNat b1.toNat = 0x130 := by unfold cp2; omega
            simp only [this, h.dotI]
            rfl
          have hf : foldLower (b0 :: b1 :: r) = (foldLower r).map (105 :: ·) := by
            rw [foldLower_cons, if_neg h1, if_pos e0]
            simp only [e1, if_true]
          exact foldOK_step _ hf hm (ih r hlen')
        · have hnone : foldLower (b0 :: b1 :: r) = none := by
            rw [foldLower_cons, if_neg h1]
            split
            · rename_i hc4
              have e : b0.toNat = 0xC4 := by rw [hc4]; rfl
              simp only
              split
              · rename_i hd'
                have e' : b1.toNat = 0xB0 := by rw [hd']; rfl
                exact absurd ⟨e, e'⟩ hI
              · rfl
            · split
              · rename_i _ he2
                have e : b0.toNat = 0xE2 := by rw [he2]; rfl
                omega
              · rfl
          rw [foldOK_none hnone, goMap_cons, hd]
          refine hasHigh_append_left _ (encodeRune_hasHigh _ (h.other _ ?_ ?_ ?_)) <;> unfold cp2 <;> omega
      · -- three bytes
        obtain ⟨hx1, hx2, hy1, hy2, _, _, hz1, hz2⟩ := hr
        have h1 : ¬ b0 < 128 := by rw [lt128_iff]; omega
        have hlen' : r.length ≤ n := by simp at hlen; omega
        have hc4 : ¬ b0 = 0xC4 := by
          intro e
          have : b0.toNat = 0xC4 := by rw [e]; rfl
          omega
        by_cases hK : b0.toNat = 0xE2 ∧ b1.toNat = 0x84 ∧ b2.toNat = 0xAA
        · have e0 : b0 = 0xE2 := (eq_iff_toNat b0 0xE2 (by omega)).mpr hK.1
          have e1 : b1 = 0x84 := (eq_iff_toNat b1 0x84 (by omega)).mpr hK.2.1
          have e2 : b2 = 0xAA := (eq_iff_toNat b2 0xAA (by omega)).mpr hK.2.2
          have hm : goMap tl (b0 :: b1 :: b2 :: r) = 107 :: goMap tl r := by
            rw [goMap_cons, hd]
            have : cp3 b0.toNat b1.toNat b2.toNat = 0x212A := by unfold cp3; omega
            simp only [this, h.kelvin]
            rfl
          have hf : foldLower (b0 :: b1 :: b2 :: r) = (foldLower r).map (107 :: ·) := by
            rw [foldLower_cons, if_neg h1, if_neg hc4, if_pos e0]
            simp only [e1, e2, and_self, if_true]
          exact foldOK_step _ hf hm (ih r hlen')
        · have hnone : foldLower (b0 :: b1 :: b2 :: r) = none := by
            rw [foldLower_cons, if_neg h1, if_neg hc4]
            split
            · rename_i he2
              have e : b0.toNat = 0xE2 := by rw [he2]; rfl
              simp only
              split
              · rename_i hde
                have e1 : b1.toNat = 0x84 := by rw [hde.1]; rfl
                have e2 : b2.toNat = 0xAA := by rw [hde.2]; rfl
                exact absurd ⟨e, e1, e2⟩ hK
              · rfl
            · rfl
          rw [foldOK_none hnone, goMap_cons, hd]
          refine hasHigh_append_left _ (encodeRune_hasHigh _ (h.other _ ?_ ?_ ?_)) <;> unfold cp3 <;> omega
      · -- four bytes
        obtain ⟨hx1, hx2, hy1, hy2, _, _, hz1, hz2, hw1, hw2⟩ := hr
        have h1 : ¬ b0 < 128 := by rw [lt128_iff]; omega
        have hnone : foldLower (b0 :: b1 :: b2 :: b3 :: r) = none := by
          have hc4 : ¬ b0 = 0xC4 := by
            intro e
            have : b0.toNat = 0xC4 := by rw [e]; rfl
            omega
          have he2 : ¬ b0 = 0xE2 := by
            intro e
            have : b0.toNat = 0xE2 := by rw [e]; rfl
            omega
          rw [foldLower_cons, if_neg h1, if_neg hc4, if_neg he2]
        rw [foldOK_none hnone, goMap_cons, hd]
        refine hasHigh_append_left _ (encodeRune_hasHigh _ (h.other _ ?_ ?_ ?_)) <;> unfold cp4 <;> omega

/-! ### ASCII strings -/

theorem foldLower_ascii : ∀ k : Bytes, k.all (fun c => c < 128) = true → foldLower k = some (k.map lowerB)
  | [], _ => rfl
  | c :: r, h => by
    simp only [List.all_cons, Bool.and_eq_true, decide_eq_true_eq] at h
    rw [foldLower_cons, if_pos h.1, foldLower_ascii r h.2]
    rfl

theorem map_lowerB_noUpper : ∀ k : Bytes, k.any (fun c => 65 ≤ c ∧ c ≤ 90) = false → k.map lowerB = k
  | [], _ => rfl
  | c :: r, h => by
    simp only [List.any_cons, Bool.or_eq_false_iff, decide_eq_false_iff_not] at h
    rw [List.map_cons, map_lowerB_noUpper r h.2, lowerB, if_neg h.1]

/-- How a `some` answer of `foldLower` arises. -/
theorem foldLower_some_view (c : UInt8) (r l : Bytes) (h : foldLower (c :: r) = some l) :
    (c < 128 ∧ ∃ l', foldLower r = some l' ∧ l = lowerB c :: l') ∨
    (∃ r' l', c = 0xC4 ∧ r = 0xB0 :: r' ∧ foldLower r' = some l' ∧ l = 105 :: l') ∨
    (∃ r' l', c = 0xE2 ∧ r = 0x84 :: 0xAA :: r' ∧ foldLower r' = some l' ∧ l = 107 :: l') := by
  rw [foldLower_cons] at h
  by_cases hc : c < 128
  · rw [if_pos hc] at h
    cases hr : foldLower r with
    | none => rw [hr] at h; simp at h
    | some l' =>
      rw [hr] at h
      simp only [Option.map_some, Option.some.injEq] at h
      exact Or.inl ⟨hc, l', rfl, h.symm⟩
  · rw [if_neg hc] at h
    by_cases h4 : c = 0xC4
    · rw [if_pos h4] at h
      cases r with
      | nil => simp at h
      | cons d r' =>
        simp only at h
        by_cases hd : d = 0xB0
        · rw [if_pos hd] at h
          cases hr : foldLower r' with
          | none => rw [hr] at h; simp at h
          | some l' =>
            rw [hr] at h
            simp only [Option.map_some, Option.some.injEq] at h
            exact Or.inr (Or.inl ⟨r', l', h4, by rw [hd], hr, h.symm⟩)
        · rw [if_neg hd] at h; simp at h
    · rw [if_neg h4] at h
      by_cases h2 : c = 0xE2
      · rw [if_pos h2] at h
        match r, h with
        | [], h => simp at h
        | [_], h => simp at h
        | d :: e :: r', h =>
          simp only at h
          by_cases hde : d = 0x84 ∧ e = 0xAA
          · rw [if_pos hde] at h
            cases hr : foldLower r' with
            | none => rw [hr] at h; simp at h
            | some l' =>
              rw [hr] at h
              simp only [Option.map_some, Option.some.injEq] at h
              exact Or.inr (Or.inr ⟨r', l', h2, by rw [hde.1, hde.2], hr, h.symm⟩)
          · rw [if_neg hde] at h; simp at h
      · rw [if_neg h2] at h; simp at h

theorem lowerB_lt (c : UInt8) (hc : c < 128) : lowerB c < 128 := by
  unfold lowerB
  split
  · rename_i hh
    have h2 := hh.2
    rw [UInt8.le_iff_toNat_le] at h2
    have e90 : (90 : UInt8).toNat = 90 := rfl
    have e32 : (32 : UInt8).toNat = 32 := rfl
    rw [lt128_iff, UInt8.toNat_add]
    omega
  · exact hc

theorem foldLower_isAscii_aux : ∀ (n : Nat) (k l : Bytes), k.length ≤ n → foldLower k = some l →
    l.all (fun c => c < 128) = true := by
  intro n
  induction n with
  | zero =>
    intro k l hk h
    have : k = [] := List.eq_nil_of_length_eq_zero (by omega)
    subst this
    simp [foldLower] at h
    subst h
    rfl
  | succ n ih =>
    intro k l hk h
    cases k with
    | nil => simp [foldLower] at h; subst h; rfl
    | cons c r =>
      simp only [List.length_cons] at hk
      rcases foldLower_some_view c r l h with ⟨hc, l', hr, rfl⟩ | ⟨r', l', _, rfl, hr, rfl⟩ | ⟨r', l', _, rfl, hr, rfl⟩
      · simp [lowerB_lt c hc, ih r l' (by omega) hr]
      · simp only [List.length_cons] at hk
        simp [ih r' l' (by omega) hr]
      · simp only [List.length_cons] at hk
        simp [ih r' l' (by omega) hr]

theorem foldLower_isAscii (k l : Bytes) (h : foldLower k = some l) : l.all (fun c => c < 128) = true :=
  foldLower_isAscii_aux k.length k l (Nat.le_refl _) h

/-! ### the look-up equivalence -/

/-- `strings.ToLower` against `foldLower`, for every byte string: either the result is the ASCII
string `foldLower` computes, or it contains a non-ASCII byte and `foldLower` says `none`. -/
theorem goToLower_fold (tl : Nat → Nat) (h : RuneLower tl) (k : Bytes) :
    match foldLower k with
    | some l => goToLower tl k = l
    | none => HasHigh (goToLower tl k) := by
  unfold goToLower
  simp only
  by_cases ha : k.all (fun c => c < 128) = true
  · rw [if_pos ha, foldLower_ascii k ha]
    simp only
    cases hu : k.any (fun c => 65 ≤ c ∧ c ≤ 90) with
    | false => simp [map_lowerB_noUpper k hu]
    | true => simp
  · rw [if_neg ha]
    exact foldOK_all tl h k.length k (Nat.le_refl _)

/-- **Look-up equivalence**: comparing `strings.ToLower(k)` with an ASCII constant is comparing
`lowerK k` with it. -/
theorem lower_lookup (tl : Nat → Nat) (h : RuneLower tl) (k c : Bytes) (hc : c.all (fun x => x < 128) = true) :
    goToLower tl k = c ↔ lowerK k = c := by
  have hf := goToLower_fold tl h k
  unfold lowerK
  cases hk : foldLower k with
  | some l =>
    rw [hk] at hf
    simp only at hf
    rw [hf]
    rfl
  | none =>
    rw [hk] at hf
    simp only at hf
    simp only [Option.getD_none]
    have hkhigh : ¬ k.all (fun c => c < 128) = true := by
      intro ha
      rw [foldLower_ascii k ha] at hk
      cases hk
    constructor
    · intro e; rw [e] at hf; exact absurd hf (not_hasHigh_of_ascii hc)
    · intro e; rw [e] at hkhigh; exact absurd hc hkhigh

end Rare.C13
