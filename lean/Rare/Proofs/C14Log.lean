import Rare.Model.C14Log
import Rare.Proofs.C14KeyCol
/-!
# C14: exact cases of the log scalers on binary64 with Go's `math.Log2` / `math.Log10` (`Model/C14Log.lean`)

Finite tables, each fully enumerated by kernel evaluation of the definitions (`decide +kernel`): every power of two and every
power of ten an `int64` can hold.
-/
namespace Rare.C14
open Rare Rare.F64

theorem scale_pow_irrelevant (L2 L10 P2 P10 : F64 → F64) (k : Scaler) (v mn mx : Int) :
    scale (f64Arith L2 L10 P2 P10) k v mn mx = scale (f64Arith L2 L10 id id) k v mn mx := rfl

def pow2Table : Bool := (List.range 64).all fun (k : Nat) => decide (goLog2F (F64.ofInt ((2 : Int) ^ k)) = F64.ofInt (k : Int))

theorem pow2Table_ok : pow2Table = true := by decide +kernel

def pow10Table : Bool := (List.range 19).all fun (k : Nat) =>
  decide (F64.ceil (goLog10F (F64.ofInt ((10 : Int) ^ k))) = F64.ofInt (k : Int)) &&
  (k == 15 || decide (goLog10F (F64.ofInt ((10 : Int) ^ k)) = F64.ofInt (k : Int)))

theorem pow10Table_ok : pow10Table = true := by decide +kernel

/-- the widest power-of-two range an int64 holds, `[mn, 2^62]` with `mn ∈ {0, 1}`: every power of two `2^k`, `k ≤ 62` -/
def scalePow2Table : Bool := (List.range 63).all fun (k : Nat) =>
  [(0 : Int), 1].all fun mn => decide (scale goArith .log2 ((2 : Int) ^ k) mn ((2 : Int) ^ 62) = F64.div (F64.ofInt (k : Int)) (F64.ofInt 62))

theorem scalePow2Table_ok : scalePow2Table = true := by decide +kernel

/-- the widest power-of-ten range, `[1, 10^18]`: every power of ten `10^k`, `k ≤ 18` -/
def scalePow10Table : Bool := (List.range 19).all fun (k : Nat) =>
  decide (scale goArith .log10 ((10 : Int) ^ k) 1 ((10 : Int) ^ 18) = F64.div (goLog10F (F64.ofInt ((10 : Int) ^ k))) (F64.ofInt 18))

theorem scalePow10Table_ok : scalePow10Table = true := by decide +kernel

end Rare.C14
