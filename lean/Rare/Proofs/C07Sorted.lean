import Rare.Model.C07Sorted
import Rare.Proofs.C07Acc
import Rare.Proofs.C07Counter
import Rare.Proofs.C07Table
/-! Sorted / counted accessors: determinism for strict total sorters, the default sorters, `minSlice`. -/
namespace Rare.C07

/-- The comparison `SortBy` performs on two keys. -/
def keyLess (less : NVLess) (val : Bytes → Int) (a b : Bytes) : Bool := less (a, val a) (b, val b)

theorem nvName_strictTotal (val : Bytes → Int) : StrictTotal (keyLess nvNameSorter val) :=
  ⟨bLt_irrefl, fun _ _ _ => bLt_trans, fun _ _ => bLt_total⟩

theorem keyLess_nvValue (val : Bytes → Int) (a b : Bytes) :
    keyLess nvValueSorter val a b = if val a = val b then bLt a b else decide (val b < val a) := by
  unfold keyLess nvValueSorter
  simp only
  by_cases h : val a = val b
  · simp [h]
  · simp only [h, if_false]
    rw [Bool.eq_iff_iff]; simp; omega

theorem nvValue_strictTotal (val : Bytes → Int) : StrictTotal (keyLess nvValueSorter val) := by
  refine ⟨?_, ?_, ?_⟩
  · intro a; rw [keyLess_nvValue]; simp [bLt_irrefl]
  · intro a b c h1 h2
    rw [keyLess_nvValue] at h1 h2 ⊢
    by_cases e1 : val a = val b
    · by_cases e2 : val b = val c
      · have e3 : val a = val c := e1.trans e2
        simp only [e1, e2, if_true] at h1 h2 ⊢
        exact bLt_trans h1 h2
      · simp only [e1, e2, if_true, if_false, decide_eq_true_eq] at h1 h2 ⊢
        omega
    · by_cases e2 : val b = val c
      · have e3 : ¬ val a = val c := fun e => e1 (e.trans e2.symm)
        simp only [e2, e3, if_true, if_false, decide_eq_true_eq] at h1 h2 ⊢
        omega
      · simp only [e1, e2, if_false, decide_eq_true_eq] at h1 h2
        have e3 : ¬ val a = val c := by omega
        simp only [e3, if_false, decide_eq_true_eq]
        omega
  · intro a b hne h
    rw [keyLess_nvValue] at h ⊢
    by_cases e1 : val a = val b
    · simp only [e1, if_true] at h ⊢
      exact bLt_total hne h
    · have e1' : ¬ val b = val a := fun e => e1 e.symm
      simp only [e1, e1', if_false, decide_eq_false_iff_not, decide_eq_true_eq] at h ⊢
      omega

theorem orderedKeys_spec (less : NVLess) (val : Bytes → Int) (hst : StrictTotal (keyLess less val)) (o1 : List Bytes) :
    (orderedKeys less val o1).Perm o1 ∧
    (orderedKeys less val o1).Pairwise (fun a b => (!keyLess less val b a) = true) ∧
    ∀ o2, o2.Perm o1 → orderedKeys less val o2 = orderedKeys less val o1 :=
  ⟨List.mergeSort_perm _ _, hst.mergeSort_sorted o1, fun o2 hp => hst.mergeSort_perm_eq o2 o1 hp⟩

theorem minSlice_spec {α : Type} (items : List α) (count : Int) :
    minSlice items count = if count < 0 then .error "slice bounds out of range" else .ok (items.take count.toNat) := by
  unfold minSlice
  by_cases h1 : (items.length : Int) < count
  · have : ¬ count < 0 := by omega
    simp only [h1, if_true, this, if_false]
    rw [List.take_of_length_le (by omega)]
  · simp [h1]

theorem counter_sample_keys (c : Counter) (e : Bytes) (h : (akeys c.items).Nodup) : (akeys (c.sample e).items).Nodup := by
  unfold Counter.sample
  simp only
  split
  · split
    · exact h
    · exact akeys_aset_nodup _ _ _ h
  · exact akeys_aset_nodup _ _ _ h

theorem counter_keys_nodup (h : List Bytes) : (akeys (Counter.run h).items).Nodup := by
  unfold Counter.run
  have : ∀ (l : List Bytes) (c : Counter), (akeys c.items).Nodup → (akeys (l.foldl Counter.sample c).items).Nodup := by
    intro l
    induction l with
    | nil => intro c hc; exact hc
    | cons e l ih => intro c hc; exact ih _ (counter_sample_keys c e hc)
  exact this h {} (by simp [akeys])

theorem filterMap_keys {α : Type} (m : List (Bytes × α)) (ks : List Bytes) (h : ∀ k ∈ ks, (aget m k).isSome = true) :
    (ks.filterMap fun k => (aget m k).map fun v => (k, v)).map (·.1) = ks := by
  induction ks with
  | nil => rfl
  | cons k ks ih =>
    have hk := h k (by simp)
    obtain ⟨v, hv⟩ := Option.isSome_iff_exists.mp hk
    simp only [List.filterMap_cons, hv, Option.map_some, List.map_cons]
    rw [ih (fun k' hk' => h k' (List.mem_cons_of_mem _ hk'))]

end Rare.C07
