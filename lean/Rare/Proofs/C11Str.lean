import Rare.Proofs.C11
/-! Helper lemmas for the C11 string / formatting theorems: `hi`, `csv`, `select`, lookup tables, logic. -/
namespace Rare.C11
open Rare Rare.Expr Rare.Expr.Funcs

/-! ### hi: the digit loop on magnitudes -/

/-- `hiLoop` on the magnitude. -/
def hiLoopN : Nat → Nat → Nat → Bytes → Bytes
  | 0, _, _, acc => acc
  | f + 1, n, ci, acc =>
    if n = 0 then acc
    else
      let acc := if ci = 3 then 44 :: acc else acc
      let ci := if ci = 3 then 0 else ci
      hiLoopN f (n / 10) (ci + 1) (UInt8.ofNat (48 + n % 10) :: acc)

theorem hi_step (v : Int) (h1 : minInt64 ≤ v) (h2 : v ≤ maxInt64) :
    (goDiv v 10).natAbs = v.natAbs / 10 ∧
    (if goMod v 10 < 0 then - goMod v 10 else goMod v 10).toNat = v.natAbs % 10 ∧
    minInt64 ≤ goDiv v 10 ∧ goDiv v 10 ≤ maxInt64 := by
  unfold minInt64 at *; unfold maxInt64 at *
  have hm := Int.mul_tdiv_add_tmod v 10
  unfold goDiv goMod
  rw [tdiv_pos v 10 (by omega)] at *
  unfold wrap64
  split at hm <;> (refine ⟨?_, ?_, ?_, ?_⟩ <;> (try split) <;> omega)

theorem hiLoop_eq_N : ∀ (f : Nat) (v : Int) (ci : Nat) (acc : Bytes), minInt64 ≤ v → v ≤ maxInt64 →
    Strings.hiLoop f v ci acc = hiLoopN f v.natAbs ci acc
  | 0, _, _, _, _, _ => rfl
  | f + 1, v, ci, acc, h1, h2 => by
    obtain ⟨e1, e2, e3, e4⟩ := hi_step v h1 h2
    unfold Strings.hiLoop hiLoopN
    by_cases hv : v = 0
    · subst hv; simp
    · have hn : ¬ (v.natAbs = 0) := by omega
      simp only [hv, hn, if_false]
      rw [hiLoop_eq_N f (goDiv v 10) _ _ e3 e4, e1, e2]

/-- Digits of a positive number, nothing for zero (the loop writes no digit for 0). -/
def digitsPos (n : Nat) : Bytes := if n = 0 then [] else natDigits n

theorem digit_byte : ∀ d : Nat, d < 10 → UInt8.ofNat (Nat.digitChar d).toNat = UInt8.ofNat (48 + d) := by decide

theorem digit_ne_comma : ∀ d : Nat, d < 10 → UInt8.ofNat (48 + d) ≠ 44 := by decide

theorem natDigits_step (n : Nat) (hn : n ≠ 0) :
    natDigits n = digitsPos (n / 10) ++ [UInt8.ofNat (48 + n % 10)] := by
  unfold digitsPos natDigits
  by_cases h : n < 10
  · have h0 : n / 10 = 0 := by omega
    have hm : n % 10 = n := by omega
    rw [Nat.toDigits_of_lt_base h, h0, hm]
    simp [digit_byte n h]
  · have h0 : ¬ (n / 10 = 0) := by omega
    rw [Nat.toDigits_of_base_le (by omega) (by omega)]
    simp [h0, digit_byte (n % 10) (by omega)]

theorem stripCommas_cons_comma (s : Bytes) : Spec.stripCommas (44 :: s) = Spec.stripCommas s := by
  simp [Spec.stripCommas]

theorem stripCommas_cons_digit (d : Nat) (hd : d < 10) (s : Bytes) :
    Spec.stripCommas (UInt8.ofNat (48 + d) :: s) = UInt8.ofNat (48 + d) :: Spec.stripCommas s := by
  unfold Spec.stripCommas
  rw [List.filter_cons_of_pos]
  simpa using digit_ne_comma d hd

theorem stripCommas_append (a b : Bytes) : Spec.stripCommas (a ++ b) = Spec.stripCommas a ++ Spec.stripCommas b := by
  simp [Spec.stripCommas]

/-- Removing the separators from what the loop wrote leaves the decimal digits. -/
theorem hiLoopN_strip : ∀ (f n ci : Nat) (acc : Bytes), n < 10 ^ f →
    Spec.stripCommas (hiLoopN f n ci acc) = digitsPos n ++ Spec.stripCommas acc
  | 0, n, ci, acc, h => by
    have : n = 0 := by simpa using h
    subst this; simp [hiLoopN, digitsPos]
  | f + 1, n, ci, acc, h => by
    unfold hiLoopN
    by_cases hn : n = 0
    · subst hn; simp [digitsPos]
    · simp only [hn, if_false]
      have hlt : n / 10 < 10 ^ f := by
        rw [Nat.pow_succ] at h; omega
      rw [hiLoopN_strip f (n / 10) _ _ hlt, stripCommas_cons_digit _ (by omega)]
      have hd : digitsPos n = natDigits n := by simp [digitsPos, hn]
      rw [hd, natDigits_step n hn]
      by_cases hc : ci = 3
      · simp [hc, stripCommas_cons_comma]
      · simp [hc]

/-- The decimal digits contain no separator. -/
theorem stripCommas_natDigits : ∀ (f n : Nat), n < 10 ^ f → Spec.stripCommas (digitsPos n) = digitsPos n
  | 0, n, h => by
    have : n = 0 := by simpa using h
    subst this; simp [digitsPos, Spec.stripCommas]
  | f + 1, n, h => by
    by_cases hn : n = 0
    · subst hn; simp [digitsPos, Spec.stripCommas]
    · have hd : digitsPos n = natDigits n := by simp [digitsPos, hn]
      have hlt : n / 10 < 10 ^ f := by
        rw [Nat.pow_succ] at h; omega
      rw [hd, natDigits_step n hn, stripCommas_append, stripCommas_natDigits f _ hlt,
        stripCommas_cons_digit _ (by omega)]
      simp [Spec.stripCommas]

/-! grouping -/

theorem groupLengths_shift : ∀ (s : Bytes) (n : Nat),
    Spec.groupLengths s n = match Spec.groupLengths s 0 with
      | g :: r => (g + n) :: r
      | [] => []
  | [], n => by simp [Spec.groupLengths]
  | c :: r, n => by
    unfold Spec.groupLengths
    by_cases hc : c = 44
    · simp [hc]
    · simp only [hc, if_false]
      rw [groupLengths_shift r (n + 1), groupLengths_shift r (0 + 1)]
      cases Spec.groupLengths r 0 with
      | nil => rfl
      | cons g t => simp; omega

/-- Invariant of the loop: the group being written has `ci ≤ 3` digits, finished groups have 3. -/
def GroupInv (ci : Nat) (acc : Bytes) : Prop :=
  ∃ rest, Spec.groupLengths acc 0 = ci :: rest ∧ ci ≤ 3 ∧ ∀ x ∈ rest, x = 3

theorem hiLoopN_groups : ∀ (f n ci : Nat) (acc : Bytes), n < 10 ^ f → GroupInv ci acc → (n = 0 → 1 ≤ ci) →
    ∃ g rest, Spec.groupLengths (hiLoopN f n ci acc) 0 = g :: rest ∧ 1 ≤ g ∧ g ≤ 3 ∧ ∀ x ∈ rest, x = 3
  | 0, n, ci, acc, h, ⟨rest, hg, h3, hr⟩, h0 => by
    have : n = 0 := by simpa using h
    exact ⟨ci, rest, by simpa [hiLoopN] using hg, h0 this, h3, hr⟩
  | f + 1, n, ci, acc, h, ⟨rest, hg, h3, hr⟩, h0 => by
    unfold hiLoopN
    by_cases hn : n = 0
    · simp only [hn, if_true]
      exact ⟨ci, rest, hg, h0 hn, h3, hr⟩
    · simp only [hn, if_false]
      have hlt : n / 10 < 10 ^ f := by
        rw [Nat.pow_succ] at h; omega
      apply hiLoopN_groups f (n / 10) _ _ hlt
      · have hdig : UInt8.ofNat (48 + n % 10) ≠ 44 := digit_ne_comma _ (by omega)
        by_cases hc : ci = 3
        · subst hc
          refine ⟨3 :: rest, ?_, by simp, ?_⟩
          · simp only [if_true]
            unfold Spec.groupLengths
            simp only [hdig, if_false]
            rw [groupLengths_shift]
            simp [Spec.groupLengths, hg]
          · intro x hx
            rcases List.mem_cons.mp hx with e | e
            · exact e
            · exact hr x e
        · refine ⟨rest, ?_, by simp [hc]; omega, hr⟩
          simp only [hc, if_false]
          unfold Spec.groupLengths
          simp only [hdig, if_false]
          rw [groupLengths_shift]
          simp [hg]
      · intro _; split <;> omega

theorem small_grouped : ∀ n : Nat, n < 100 →
    Spec.stripCommas (natDigits n) = natDigits n ∧ Spec.groupedInThrees (natDigits n) = true := by
  decide +kernel

theorem groupInv_nil : GroupInv 0 [] := ⟨[], rfl, by omega, by simp⟩

/-- `humanizeInt`: an optional sign, then a body that (a) is the decimal digits of `|v|` once the
    separators are removed and (b) is grouped in threes from the right. -/
theorem humanizeInt_spec (v : Int) (h1 : minInt64 ≤ v) (h2 : v ≤ maxInt64) :
    ∃ body, Strings.humanizeInt v = (if v < 0 then [45] else []) ++ body ∧
      Spec.stripCommas body = natDigits v.natAbs ∧ Spec.groupedInThrees body = true := by
  unfold Strings.humanizeInt
  by_cases hs : 0 ≤ v ∧ v < 100
  · simp only [hs, and_self, if_true]
    have hneg : ¬ (v < 0) := by omega
    have hi : itoa v = natDigits v.natAbs := by simp [itoa, hneg]
    refine ⟨natDigits v.natAbs, by simp [hneg, hi], ?_⟩
    exact small_grouped v.natAbs (by omega)
  · simp only [hs, if_false]
    have hv0 : v.natAbs ≠ 0 := by omega
    have hlt : v.natAbs < 10 ^ 20 := by unfold minInt64 at h1; unfold maxInt64 at h2; omega
    refine ⟨Strings.hiLoop 20 v 0 [], ?_, ?_, ?_⟩
    · by_cases hneg : v < 0 <;> simp [hneg]
    · rw [hiLoop_eq_N 20 v 0 [] h1 h2, hiLoopN_strip 20 _ 0 [] hlt]
      simp [digitsPos, hv0, Spec.stripCommas]
    · rw [hiLoop_eq_N 20 v 0 [] h1 h2]
      obtain ⟨g, rest, hg, hg1, hg3, hr⟩ := hiLoopN_groups 20 v.natAbs 0 [] hlt groupInv_nil (fun h => absurd h hv0)
      unfold Spec.groupedInThrees
      rw [hg]
      simp only [Bool.and_eq_true, decide_eq_true_eq, List.all_eq_true, beq_iff_eq]
      exact ⟨⟨hg1, hg3⟩, hr⟩

theorem humanizeInt_strip (v : Int) (h1 : minInt64 ≤ v) (h2 : v ≤ maxInt64) :
    Spec.stripCommas (Strings.humanizeInt v) = itoa v := by
  obtain ⟨body, hb, hs, _⟩ := humanizeInt_spec v h1 h2
  rw [hb, stripCommas_append, hs]
  unfold itoa
  by_cases hneg : v < 0 <;> simp [hneg, Spec.stripCommas]

/-! ### csv -/

def CleanB (c : UInt8) : Prop := c ≠ 34 ∧ c ≠ 44 ∧ c ≠ 13 ∧ c ≠ 10

theorem csv_unq_run : ∀ (x tail cur : Bytes) (acc : List Bytes), (∀ c ∈ x, CleanB c) →
    Spec.parseCsvGo (x ++ tail) .unq cur acc = Spec.parseCsvGo tail .unq (cur ++ x) acc
  | [], tail, cur, acc, _ => by simp
  | c :: r, tail, cur, acc, h => by
    have hc : CleanB c := h c (by simp)
    obtain ⟨h1, h2, h3, h4⟩ := hc
    have := csv_unq_run r tail (cur ++ [c]) acc (fun d hd => h d (by simp [hd]))
    simp [Spec.parseCsvGo, h1, h2, h3, h4, this]

theorem csv_start_run (x tail : Bytes) (acc : List Bytes) (h : ∀ c ∈ x, CleanB c) (hx : x ≠ []) :
    Spec.parseCsvGo (x ++ tail) .start [] acc = Spec.parseCsvGo tail .unq x acc := by
  cases x with
  | nil => exact absurd rfl hx
  | cons c r =>
    obtain ⟨h1, h2, h3, h4⟩ := h c (by simp)
    have := csv_unq_run r tail [c] acc (fun d hd => h d (by simp [hd]))
    simp [Spec.parseCsvGo, h1, h2, h3, h4, this]

theorem rq_ne (c : UInt8) (r : Bytes) (hc : c ≠ 34) :
    Strings.replaceQuotes (c :: r) = c :: Strings.replaceQuotes r := by
  rw [Strings.replaceQuotes.eq_3]; intro h; exact hc h

theorem rq_eq (r : Bytes) : Strings.replaceQuotes (34 :: r) = 34 :: 34 :: Strings.replaceQuotes r := by
  rw [Strings.replaceQuotes.eq_2]

theorem csv_inq_run (tail : Bytes) (acc : List Bytes) : ∀ (x cur : Bytes),
    Spec.parseCsvGo (Strings.replaceQuotes x ++ 34 :: tail) .inq cur acc = Spec.parseCsvGo tail .qq (cur ++ x) acc
  | [], cur => by simp [Strings.replaceQuotes, Spec.parseCsvGo]
  | c :: r, cur => by
    by_cases hc : c = 34
    · subst hc
      have := csv_inq_run tail acc r (cur ++ [34])
      simp [rq_eq, Spec.parseCsvGo, this]
    · have := csv_inq_run tail acc r (cur ++ [c])
      simp [rq_ne c r hc, Spec.parseCsvGo, hc, this]

theorem replaceQuotes_clean : ∀ x : Bytes, (∀ c ∈ x, c ≠ 34) → Strings.replaceQuotes x = x
  | [], _ => rfl
  | c :: r, h => by
    have hc : c ≠ 34 := h c (by simp)
    have ih := replaceQuotes_clean r (fun d hd => h d (by simp [hd]))
    rw [rq_ne c r hc, ih]

/-- What the parser does when a field ends (end of input or a comma). -/
def afterField (tail : Bytes) (x : Bytes) (acc : List Bytes) : Option (List Bytes) :=
  match tail with
  | [] => some (acc ++ [x])
  | 44 :: r => Spec.parseCsvGo r .start [] (acc ++ [x])
  | _ => none

theorem csv_item (x tail : Bytes) (acc : List Bytes) (ht : tail = [] ∨ ∃ r, tail = 44 :: r) :
    Spec.parseCsvGo (Strings.csvItemEncode x ++ tail) .start [] acc = afterField tail x acc := by
  unfold Strings.csvItemEncode
  by_cases hq : x.any (fun c => c == 34 || c == 13 || c == 10) = true
  · rw [if_pos hq]
    have : Spec.parseCsvGo ([34] ++ Strings.replaceQuotes x ++ [34] ++ tail) .start [] acc
        = Spec.parseCsvGo (Strings.replaceQuotes x ++ 34 :: tail) .inq [] acc := by
      simp [Spec.parseCsvGo]
    rw [this, csv_inq_run]
    rcases ht with e | ⟨r, e⟩ <;> subst e <;> simp [afterField, Spec.parseCsvGo]
  · rw [if_neg hq]
    have hnq : ∀ c ∈ x, c ≠ 34 ∧ c ≠ 13 ∧ c ≠ 10 := by
      intro c hc
      have : ¬ ((c == 34 || c == 13 || c == 10) = true) := fun hh => hq (List.any_eq_true.mpr ⟨c, hc, hh⟩)
      simpa [and_assoc] using this
    by_cases hcm : x.contains 44 = true
    · rw [if_pos hcm]
      have hrq := replaceQuotes_clean x (fun c hc => (hnq c hc).1)
      have : Spec.parseCsvGo ([34] ++ x ++ [34] ++ tail) .start [] acc
          = Spec.parseCsvGo (Strings.replaceQuotes x ++ 34 :: tail) .inq [] acc := by
        rw [hrq]; simp [Spec.parseCsvGo]
      rw [this, csv_inq_run]
      rcases ht with e | ⟨r, e⟩ <;> subst e <;> simp [afterField, Spec.parseCsvGo]
    · rw [if_neg hcm]
      have hclean : ∀ c ∈ x, CleanB c := by
        intro c hc
        obtain ⟨a, b, d⟩ := hnq c hc
        refine ⟨a, ?_, b, d⟩
        intro e; subst e; exact hcm (List.contains_iff_mem.mpr hc)
      by_cases hx : x = []
      · subst hx
        rcases ht with e | ⟨r, e⟩ <;> subst e <;> simp [afterField, Spec.parseCsvGo]
      · rw [csv_start_run x tail acc hclean hx]
        rcases ht with e | ⟨r, e⟩ <;> subst e <;> simp [afterField, Spec.parseCsvGo]

theorem csv_record : ∀ (args : List Bytes) (acc : List Bytes), args ≠ [] →
    Spec.parseCsvGo (Strings.csvRecord args) .start [] acc = some (acc ++ args)
  | [], _, h => absurd rfl h
  | [x], acc, _ => by
    have := csv_item x [] acc (.inl rfl)
    simpa [Strings.csvRecord, afterField] using this
  | x :: y :: rest, acc, _ => by
    have := csv_item x (44 :: Strings.csvRecord (y :: rest)) acc (.inr ⟨_, rfl⟩)
    have ih := csv_record (y :: rest) (acc ++ [x]) (by simp)
    simp only [Strings.csvRecord, List.append_assoc, List.singleton_append]
    rw [this]
    simp [afterField, ih]

theorem csvRun_run (c : Ctx) : ∀ (as : List Arg) (acc : List Bytes),
    (Strings.csvRun (as.map Arg.stage) acc).run c = .ok (Strings.csvRecord (acc ++ as.map (Arg.val c)))
  | [], acc => by simp [Strings.csvRun, Comp.run]
  | a :: rest, acc => by
    simp only [List.map_cons, Strings.csvRun, run_bind, Arg.run_stage]
    rw [csvRun_run c rest (acc ++ [a.val c])]
    simp

theorem kfCsv_call (c : Ctx) (as : List Arg) (h : as ≠ []) :
    callHelper Strings.kfCsv as c = .ok (Strings.csvRecord (as.map (Arg.val c))) := by
  cases as with
  | nil => exact absurd rfl h
  | cons a rest =>
    unfold callHelper Strings.kfCsv
    simp only [List.map_cons]
    have := csvRun_run c (a :: rest) []
    simpa [ok] using this

/-! ### what a call computes, helper by helper -/

theorem hi_call (c : Ctx) (a : Arg) :
    callHelper Strings.kfHumanizeInt [a] c = .ok (match atoi (a.val c) with
      | none => ErrorNum
      | some n => Strings.humanizeInt n) := by
  simp only [callHelper, Strings.kfHumanizeInt, List.map, ok, run_bind, Arg.run_stage]
  cases atoi (a.val c) <;> rfl

theorem expbucket_call (c : Ctx) (a : Arg) :
    callHelper Arith.kfExpBucket [a] c = .ok (match atoi (a.val c) with
      | none => ErrorNum
      | some n => itoa (Arith.expBucketVal n)) := by
  simp only [callHelper, Arith.kfExpBucket, List.map, ok, run_bind, Arg.run_stage]
  cases atoi (a.val c) <;> rfl

theorem evalStageInt_const (b : Bytes) : evalStageInt (Arg.const b).stage = .ok (atoi b) := rfl

theorem bucket_call (render : Int → Int → Bytes) (c : Ctx) (a : Arg) (sz : Bytes) (s : Int)
    (hs : atoi sz = some s) (hpos : 0 < s) :
    callHelper (Arith.bucketBuilder render) [a, .const sz] c = .ok (match atoi (a.val c) with
      | none => ErrorNum
      | some v => render v s) := by
  have hn : ¬ (s ≤ 0) := by omega
  simp only [callHelper, Arith.bucketBuilder, List.map, evalStageInt_const, hs, hn, if_false, ok, run_bind,
    Arg.run_stage]
  cases atoi (a.val c) <;> rfl

theorem clamp_call (c : Ctx) (a : Arg) (lo hi : Bytes) (mn mx : Int)
    (h1 : atoi lo = some mn) (h2 : atoi hi = some mx) :
    callHelper Arith.kfClamp [a, .const lo, .const hi] c = .ok (match atoi (a.val c) with
      | none => ErrorNum
      | some v => Arith.clampVal (a.val c) v mn mx) := by
  simp only [callHelper, Arith.kfClamp, List.map, evalStageInt_const, h1, h2, ok, run_bind, Arg.run_stage]
  cases atoi (a.val c) <;> rfl

theorem substr_call (c : Ctx) (a l n : Arg) (hs : ((a.val c).length : Int) ≤ maxInt64) :
    callHelper Strings.kfSubstr [a, l, n] c =
      if (a.val c).isEmpty then .ok []
      else match atoi (l.val c), atoi (n.val c) with
        | some left, some len => Strings.substrVal (a.val c) left len
        | _, _ => .ok ErrorNum := by
  simp only [callHelper, Strings.kfSubstr, List.map, ok, run_bind, Arg.run_stage]
  by_cases he : (a.val c).isEmpty = true
  · simp [he, run_pure]
  · have hg : ¬ (((a.val c).length : Int) > maxInt64) := by omega
    simp only [he]
    rw [if_neg (by simp), if_neg hg, if_neg (by simp)]
    simp only [run_bind, Arg.run_stage]
    cases atoi (l.val c) <;> cases atoi (n.val c) <;> try rfl
    simp only []
    cases Strings.substrVal (a.val c) _ _ <;> rfl

/-! ### logic -/

theorem not_call (c : Ctx) (a : Arg) :
    callHelper Logic.kfNot [a] c = .ok (truthyStr (!truthy (a.val c))) := by
  simp only [callHelper, Logic.kfNot, List.map, ok, run_bind, Arg.run_stage]
  cases truthy (a.val c) <;> rfl

theorem and_go_run (c : Ctx) : ∀ as : List Arg,
    (Logic.kfAnd.go (as.map Arg.stage)).run c = .ok (truthyStr (as.all fun a => a.val c != []))
  | [] => rfl
  | a :: rest => by
    simp only [List.map_cons, Logic.kfAnd.go, run_bind, Arg.run_stage, List.all_cons]
    by_cases h : a.val c = FalsyVal
    · have h' : a.val c = [] := h
      simp [h, run_pure, truthyStr, FalsyVal]
    · have h' : a.val c ≠ [] := h
      simp only [h, if_false]
      rw [and_go_run c rest]
      have hb : (a.val c != []) = true := by simpa using h'
      rw [hb, Bool.true_and]

theorem and_call (c : Ctx) (as : List Arg) :
    callHelper Logic.kfAnd as c = .ok (truthyStr (as.all fun a => a.val c != [])) := by
  simp only [callHelper, Logic.kfAnd, ok]
  exact and_go_run c as

theorem or_go_run (c : Ctx) : ∀ as : List Arg,
    (Logic.kfOr.go (as.map Arg.stage)).run c = .ok (truthyStr (as.any fun a => a.val c != []))
  | [] => rfl
  | a :: rest => by
    simp only [List.map_cons, Logic.kfOr.go, run_bind, Arg.run_stage, List.any_cons]
    by_cases h : a.val c = FalsyVal
    · have h' : a.val c = [] := h
      simp only [h, ne_eq, not_true_eq_false, if_false]
      rw [or_go_run c rest]
      simp [FalsyVal]
    · have h' : a.val c ≠ [] := h
      simp [h, h', run_pure, truthyStr]

theorem or_call (c : Ctx) (as : List Arg) :
    callHelper Logic.kfOr as c = .ok (truthyStr (as.any fun a => a.val c != [])) := by
  simp only [callHelper, Logic.kfOr, ok]
  exact or_go_run c as

theorem if_call (c : Ctx) (a t e : Arg) :
    callHelper Logic.kfIf [a, t, e] c = .ok (if truthy (a.val c) then t.val c else e.val c) := by
  simp only [callHelper, Logic.kfIf, List.map, ok, run_bind, Arg.run_stage]
  cases truthy (a.val c) <;> simp [Arg.run_stage]

theorem if2_call (c : Ctx) (a t : Arg) :
    callHelper Logic.kfIf [a, t] c = .ok (if truthy (a.val c) then t.val c else []) := by
  simp only [callHelper, Logic.kfIf, List.map, ok, run_bind, Arg.run_stage]
  cases truthy (a.val c) <;> simp [Arg.run_stage, run_pure, FalsyVal]

theorem unless_call (c : Ctx) (a t : Arg) :
    callHelper Logic.kfUnless [a, t] c = .ok (if truthy (a.val c) then [] else t.val c) := by
  simp only [callHelper, Logic.kfUnless, List.map, ok, run_bind, Arg.run_stage]
  cases truthy (a.val c) <;> simp [Arg.run_stage, run_pure]

theorem eq_call (c : Ctx) (a b : Arg) :
    callHelper (Logic.stringComparator fun x y => if x = y then TruthyVal else FalsyVal) [a, b] c =
      .ok (truthyStr (decide (a.val c = b.val c))) := by
  simp only [callHelper, Logic.stringComparator, List.map, ok, run_bind, Arg.run_stage,
    Logic.stringComparator.go]
  by_cases h : a.val c = b.val c <;> simp [h, truthyStr, Comp.run]

theorem neq_call (c : Ctx) (a b : Arg) :
    callHelper (Logic.stringComparator fun x y => if x ≠ y then TruthyVal else FalsyVal) [a, b] c =
      .ok (truthyStr (decide (a.val c ≠ b.val c))) := by
  simp only [callHelper, Logic.stringComparator, List.map, ok, run_bind, Arg.run_stage,
    Logic.stringComparator.go]
  by_cases h : a.val c = b.val c <;> simp [h, truthyStr, Comp.run]

/-! ### bucketrange -/

theorem bucketRange_eq (v s : Int) (hs : 0 < s) (hv : inInt64 v = true) (hs64 : s ≤ maxInt64)
    (hlo : minInt64 ≤ Spec.floorBucket v s) (hhi : Spec.floorBucket v s + s - 1 ≤ maxInt64) :
    Arith.bucketRangeStr v s = Spec.bucketRange v s := by
  unfold Arith.bucketRangeStr Spec.bucketRange Arith.bucketEnd
  rw [bucketVal_eq_floor v s hs hv hs64 hlo]
  have hb := (floorBucket_isBucket v s hs).2.1
  rw [inInt64_iff] at hv
  have e1 : wrap64 (s - 1) = s - 1 := wrap64_id (by i64) (by i64)
  have e2 : wrap64 (Spec.floorBucket v s + (s - 1)) = Spec.floorBucket v s + s - 1 := by
    rw [wrap64_id (by i64) (by i64)]; omega
  simp only [e1, e2]

/-! ### lookup tables -/

/-- What one line of the table text contributes: nothing for a comment line or a line with 0 or
    more than 2 fields, `(key, "")` for one field, `(key, value)` for two. -/
def lineEntry (commentPrefix line : Bytes) : Option (Bytes × Bytes) :=
  if !commentPrefix.isEmpty && commentPrefix.isPrefixOf line then none
  else match Misc.fieldsGo line [] 0 with
    | [k] => some (k, [])
    | [k, v] => some (k, v)
    | _ => none

theorem lookupStep_eq (p : Bytes) (tbl : List (Bytes × Bytes)) (line : Bytes) :
    Misc.lookupStep p tbl line = tbl ++ (lineEntry p line).toList := by
  unfold Misc.lookupStep lineEntry
  split
  · simp
  · generalize Misc.fieldsGo line [] 0 = fs
    match fs with
    | [] => simp
    | [_] => simp
    | [_, _] => simp
    | _ :: _ :: _ :: _ => simp

theorem table_eq_filterMap (p : Bytes) : ∀ (lines : List Bytes) (tbl : List (Bytes × Bytes)),
    lines.foldl (Misc.lookupStep p) tbl = tbl ++ lines.filterMap (lineEntry p)
  | [], tbl => by simp
  | l :: rest, tbl => by
    rw [List.foldl_cons, table_eq_filterMap p rest, lookupStep_eq]
    cases h : lineEntry p l <;> simp [h]

theorem tableGet_none_iff (tbl : List (Bytes × Bytes)) (k : Bytes) :
    Misc.tableGet tbl k = none ↔ ∀ e ∈ tbl, e.1 ≠ k := by
  unfold Misc.tableGet
  simp [List.find?_eq_none]

theorem tableGet_hit (pre post : List (Bytes × Bytes)) (k v : Bytes) (h : ∀ e ∈ post, e.1 ≠ k) :
    Misc.tableGet (pre ++ [(k, v)] ++ post) k = some v := by
  unfold Misc.tableGet
  have hpost : post.reverse.find? (fun e => e.1 == k) = none := by
    simp [List.find?_eq_none]; exact fun a b hab => h (a, b) hab
  simp [List.reverse_append, List.find?_append, hpost]

theorem lookup_call (c : Ctx) (render : Option Bytes → Bytes) (key : Arg) (content : Bytes) :
    callHelper (Misc.lookupBuilder render) [key, .const content] c =
      .ok (render (Misc.tableGet (Misc.buildLookupTable content []) (key.val c))) := by
  simp only [callHelper, Misc.lookupBuilder, List.map, List.length_cons, List.length_nil]
  simp [Arg.probe_const, evalStageIndexOrDefault, ok, run_bind, Arg.run_stage, run_pure]

/-! ### select -/

def WordB (c : UInt8) : Prop := c ≠ 32 ∧ c ≠ 9 ∧ c ≠ 10 ∧ c ≠ 0 ∧ c ≠ 34

theorem wordB_facts {c : UInt8} (h : WordB c) : Strings.isSelDelim c = false ∧ (c == 34) = false := by
  obtain ⟨h1, h2, h3, h4, h5⟩ := h
  simp [Strings.isSelDelim, h1, h2, h3, h4, h5]

/-- Inside a word nothing happens. -/
theorem sel_word (s : Bytes) (idx : Int) : ∀ (u tail : Bytes) (i : Nat) (st : Strings.SelSt),
    (∀ c ∈ u, WordB c) → st.quoted = false → st.inDelim = false →
    Strings.selLoop s idx (u ++ tail) i st = Strings.selLoop s idx tail (i + u.length) st
  | [], tail, i, st, _, _, _ => by simp
  | c :: u, tail, i, st, h, hq, hd => by
    obtain ⟨f1, f2⟩ := wordB_facts (h c (by simp))
    have ih := sel_word s idx u tail (i + 1) st (fun d hd' => h d (by simp [hd'])) hq hd
    simp only [List.cons_append, Strings.selLoop, hq, hd, f1, f2]
    simp only [Bool.false_and, Bool.not_false, Bool.true_and, Bool.or_self, Bool.false_eq_true, if_false]
    rw [ih]; congr 1; simp only [List.length_cons]; omega

theorem joinWords_cons2 (w w' : Bytes) (rest : List Bytes) :
    Spec.joinWords (w :: w' :: rest) = w ++ 32 :: Spec.joinWords (w' :: rest) := by
  simp [Spec.joinWords]

theorem joinWords_head (w : Bytes) (rest : List Bytes) (hw : w ≠ []) :
    ∃ c u, w = c :: u ∧ ∃ t, Spec.joinWords (w :: rest) = c :: u ++ t := by
  cases w with
  | nil => exact absurd rfl hw
  | cons c u =>
    refine ⟨c, u, rfl, ?_⟩
    cases rest with
    | nil => exact ⟨[], by simp [Spec.joinWords]⟩
    | cons w' r => exact ⟨32 :: Spec.joinWords (w' :: r), by rw [joinWords_cons2]⟩

theorem sel_words (idx : Int) : ∀ (ws : List Bytes) (pre : Bytes) (j : Int), ws ≠ [] →
    (∀ w ∈ ws, Spec.IsWord w) →
    Strings.selLoop (pre ++ Spec.joinWords ws) idx (Spec.joinWords ws) pre.length
        { currIdx := j, wordStart := pre.length, inDelim := false, quoted := false } =
      (if j ≤ idx then ws.getD (idx - j).toNat [] else [])
  | [], _, _, h, _ => absurd rfl h
  | [w], pre, j, _, hw => by
    have hclean : ∀ c ∈ w, WordB c := (hw w (by simp)).2
    have := sel_word (pre ++ w) idx w [] pre.length
      { currIdx := j, wordStart := pre.length, inDelim := false, quoted := false } hclean rfl rfl
    simp only [List.append_nil] at this
    simp only [Spec.joinWords, this, Strings.selLoop]
    by_cases hj : j = idx
    · subst hj; simp
    · simp only [hj, if_false]
      by_cases hle : j ≤ idx
      · have : (idx - j).toNat ≠ 0 := by omega
        simp only [hle, if_true]
        cases hn : (idx - j).toNat with
        | zero => exact absurd hn this
        | succ n => simp [List.getD]
      · simp [hle]
  | w :: w' :: rest, pre, j, _, hw => by
    have hclean : ∀ c ∈ w, WordB c := (hw w (by simp)).2
    have hw'ne : w' ≠ [] := (hw w' (by simp)).1
    rw [joinWords_cons2]
    have hW := sel_word (pre ++ (w ++ 32 :: Spec.joinWords (w' :: rest))) idx w
      (32 :: Spec.joinWords (w' :: rest)) pre.length
      { currIdx := j, wordStart := pre.length, inDelim := false, quoted := false } hclean rfl rfl
    rw [hW]
    by_cases hj : j = idx
    · subst hj
      have d32 : Strings.isSelDelim 32 = true := by decide
      simp [Strings.selLoop, d32]
    · obtain ⟨c, u, hcu, t, ht⟩ := joinWords_head w' rest hw'ne
      have hcB : WordB c := (hw w' (by simp)).2 c (by simp [hcu])
      obtain ⟨f1, f2⟩ := wordB_facts hcB
      have ih := sel_words idx (w' :: rest) (pre ++ w ++ [32]) (j + 1) (by simp)
        (fun x hx => hw x (by simp at hx ⊢; rcases hx with e | e <;> simp [e]))
      have hs : pre ++ (w ++ 32 :: Spec.joinWords (w' :: rest)) = pre ++ w ++ [32] ++ Spec.joinWords (w' :: rest) := by
        simp
      rw [hs]
      rw [ht] at ih ⊢
      have d32 : Strings.isSelDelim 32 = true := by decide
      have q32 : ((32 : UInt8) == 34) = false := by decide
      simp only [Strings.selLoop, d32, q32, hj, f1, f2, List.cons_append] at ih ⊢
      simp only [Bool.false_and, Bool.not_false, Bool.true_and, Bool.or_self, Bool.false_eq_true, if_false,
        Bool.or_true, if_true] at ih ⊢
      have hl : (pre ++ w ++ [32]).length = pre.length + w.length + 1 := by simp; omega
      rw [hl] at ih
      rw [ih]
      by_cases hle : j ≤ idx
      · have h1 : j + 1 ≤ idx := by omega
        have h2 : (idx - j).toNat = (idx - (j + 1)).toNat + 1 := by omega
        simp [hle, h1, h2, List.getD]
      · have h1 : ¬ (j + 1 ≤ idx) := by omega
        simp [hle, h1]

end Rare.C11
