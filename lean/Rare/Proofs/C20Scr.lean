import Rare.Spec.C20Screen
import Rare.Proofs.C20Term
/-! C20 helper lemmas: what the reference terminal `Scr` (cell widths, scrolling, C0 controls) does
with the pieces the writer emits. -/
namespace Rare.C20

theorem Scr.feed_nil (t : Scr) : t.feed [] = t := rfl
theorem Scr.feed_cons (t : Scr) (r : Rune) (rs : List Rune) : t.feed (r :: rs) = (t.step r).feed rs := rfl
theorem Scr.feed_append (t : Scr) (a b : List Rune) : t.feed (a ++ b) = (t.feed a).feed b := by
  simp [Scr.feed, List.foldl_append]

/-! ### scrolling -/

theorem shiftN_zero (H : Nat) (rows : Nat → List Rune) : shiftN H 0 rows = rows := by
  funext j; simp [shiftN]

theorem shiftN_one (H : Nat) (rows : Nat → List Rune) : shiftN H 1 rows = shift1 H rows := by
  funext j; simp [shiftN, shift1]

theorem shiftN_shift1 (H n : Nat) (rows : Nat → List Rune) :
    shiftN H n (shift1 H rows) = shiftN H (n + 1) rows := by
  funext j
  simp only [shiftN, shift1]
  by_cases hn : n = 0
  · subst hn; simp
  · have h1 : n + 1 ≠ 0 := by omega
    simp only [hn, h1, if_false]
    by_cases h : j + n + 1 < H
    · have h2 : j + n < H := by omega
      have h3 : j + (n + 1) < H := by omega
      simp [h, h2, h3]; rfl
    · have h3 : ¬ j + (n + 1) < H := by omega
      by_cases h2 : j + n < H <;> simp [h, h2, h3]

/-! ### control sequences (from any parser state: ESC restarts) -/

theorem Scr.feed_hide (t : Scr) :
    t.feed [27, 91, 63, 50, 53, 108] = { t with cursorVisible := false, ps := .ground } := by
  obtain ⟨w, ht, o, cw, rows, row, col, vis, ps⟩ := t; rfl

theorem Scr.feed_show (t : Scr) :
    t.feed [27, 91, 63, 50, 53, 104] = { t with cursorVisible := true, ps := .ground } := by
  obtain ⟨w, ht, o, cw, rows, row, col, vis, ps⟩ := t; rfl

theorem Scr.feed_erase (t : Scr) :
    t.feed [27, 91, 48, 75] = ({ t with ps := .ground }).eraseToEol := by
  obtain ⟨w, ht, o, cw, rows, row, col, vis, ps⟩ := t; rfl

theorem Scr.feed_up1 (t : Scr) :
    t.feed [27, 91, 49, 65] = { t with row := t.row - min 1 t.row, ps := .ground } := by
  obtain ⟨w, ht, o, cw, rows, row, col, vis, ps⟩ := t; rfl

theorem Scr.step_cr (t : Scr) : t.step 13 = { t with col := 0 } := by
  obtain ⟨w, ht, o, cw, rows, row, col, vis, ps⟩ := t; rfl

theorem Scr.step_lf (t : Scr) : t.step 10 = t.lineFeed := by
  obtain ⟨w, ht, o, cw, rows, row, col, vis, ps⟩ := t; rfl

/-- one line feed from column 0 (either `\n` mode), scrolling at the bottom row -/
theorem Scr.lineFeed_col0 (t : Scr) (hc : t.col = 0) (hr : t.row < t.height) :
    t.lineFeed = { t with rows := shiftN t.height (t.row + 1 - (t.height - 1)) t.rows,
                          row := t.row + 1 - (t.row + 1 - (t.height - 1)) } := by
  obtain ⟨w, ht, o, cw, rows, row, col, vis, ps⟩ := t
  simp only at hc hr; subst hc
  by_cases h : row + 1 < ht
  · have e : row + 1 - (ht - 1) = 0 := by omega
    cases o <;> simp [Scr.lineFeed, Scr.down, h, e, shiftN_zero]
  · have e : row + 1 - (ht - 1) = 1 := by omega
    have e2 : row + 1 - 1 = row := by omega
    cases o <;> simp [Scr.lineFeed, Scr.down, h, e, shiftN_one, e2]

/-- `n` line feeds, then a carriage return: the screen scrolls by the number of line feeds that did
not fit below the cursor -/
theorem Scr.feed_downs (n : Nat) : ∀ (t : Scr), t.row < t.height →
    t.feed (List.replicate n 10 ++ [13]) =
      { t with rows := shiftN t.height (t.row + n - (t.height - 1)) t.rows,
               row := t.row + n - (t.row + n - (t.height - 1)), col := 0 } := by
  induction n with
  | zero =>
    intro t h
    have e : t.row - (t.height - 1) = 0 := by omega
    simp [Scr.feed_cons, Scr.feed_nil, Scr.step_cr, e, shiftN_zero]
  | succ n ih =>
    intro t hr
    have e : List.replicate (n + 1) 10 ++ [13] = 10 :: (List.replicate n 10 ++ [13]) := by
      simp [List.replicate_succ]
    rw [e, Scr.feed_cons, Scr.step_lf]
    obtain ⟨w, ht, o, cw, rows, row, col, vis, ps⟩ := t
    simp only at hr
    by_cases h : row + 1 < ht
    · have hl : (Scr.lineFeed ⟨w, ht, o, cw, rows, row, col, vis, ps⟩) =
          ⟨w, ht, o, cw, rows, row + 1, if o then 0 else col, vis, ps⟩ := by
        cases o <;> simp [Scr.lineFeed, Scr.down, h]
      rw [hl, ih _ (by simpa using h)]
      have e1 : row + 1 + n = row + (n + 1) := by omega
      simp [e1]
    · have hl : (Scr.lineFeed ⟨w, ht, o, cw, rows, row, col, vis, ps⟩) =
          ⟨w, ht, o, cw, shift1 ht rows, row, if o then 0 else col, vis, ps⟩ := by
        cases o <;> simp [Scr.lineFeed, Scr.down, h]
      rw [hl, ih _ (by simpa using hr)]
      have e1 : row + n - (ht - 1) = n := by omega
      have e2 : row + (n + 1) - (ht - 1) = n + 1 := by omega
      simp only [e1, e2, shiftN_shift1]
      have e3 : row + n - n = row + (n + 1) - (n + 1) := by omega
      rw [e3]

/-- `n` times `ESC[1A`, then a carriage return: cursor-up stops at the top row -/
theorem Scr.feed_ups (n : Nat) : ∀ (t : Scr), t.ps = .ground →
    t.feed ((List.replicate n [27, 91, 49, 65]).flatten ++ [13]) = { t with row := t.row - n, col := 0 } := by
  induction n with
  | zero => intro t _; simp [Scr.feed_cons, Scr.feed_nil, Scr.step_cr]
  | succ n ih =>
    intro t h
    have e : (List.replicate (n + 1) [27, 91, 49, 65]).flatten ++ [13]
        = [27, 91, 49, 65] ++ ((List.replicate n [27, 91, 49, 65]).flatten ++ [13]) := by
      simp [List.replicate_succ]
    rw [e, Scr.feed_append, Scr.feed_up1, ih _ rfl]
    obtain ⟨w, ht, o, cw, rows, row, col, vis, ps⟩ := t
    simp only at h; subst h
    simp; omega

/-! ### SGR: zero width -/

theorem Scr.feed_params (p : List Rune) (hp : ∀ c ∈ p, 48 ≤ c ∧ c ≤ 59) :
    ∀ (t : Scr) (acc : List Rune), t.ps = .csi acc → t.feed p = { t with ps := .csi (acc ++ p) } := by
  induction p with
  | nil => intro t acc h; obtain ⟨w, ht, o, cw, rows, row, col, vis, ps⟩ := t; simp only at h; subst h; simp [Scr.feed_nil]
  | cons c p ih =>
    intro t acc h
    have hc := hp c (by simp)
    have hp' : ∀ x ∈ p, 48 ≤ x ∧ x ≤ 59 := fun x hx => hp x (by simp [hx])
    obtain ⟨w, ht, o, cw, rows, row, col, vis, ps⟩ := t
    simp only at h; subst h
    have h1 : c ≠ 27 := by omega
    have h2 : ¬ (c = 24 ∨ c = 26) := by omega
    have h3 : ¬ c < 32 := by omega
    have h4 : c ≤ 0x3F := by omega
    rw [Scr.feed_cons]
    simp only [Scr.step, h1, h2, h3, h4, if_false, if_true]
    rw [ih hp' _ (acc ++ [c]) rfl]
    simp

theorem Scr.step_m_csi (t : Scr) (acc : List Rune) (h : t.ps = .csi acc) :
    t.step 109 = { t with ps := .ground } := by
  obtain ⟨w, ht, o, cw, rows, row, col, vis, ps⟩ := t
  simp only at h; subst h; rfl

theorem Scr.feed_sgr (t : Scr) (p : List Rune) (hp : ∀ c ∈ p, 48 ≤ c ∧ c ≤ 59) :
    t.feed (27 :: 91 :: p ++ [109]) = { t with ps := .ground } := by
  rw [List.cons_append, List.cons_append, Scr.feed_cons, Scr.feed_cons, Scr.feed_append]
  have h0 : (t.step 27).step 91 = { t with ps := .csi [] } := by
    obtain ⟨w, ht, o, cw, rows, row, col, vis, ps⟩ := t; rfl
  rw [h0, Scr.feed_params p hp _ [] rfl, Scr.feed_cons, Scr.feed_nil, Scr.step_m_csi _ _ rfl]

/-- an unterminated colour sequence only changes the parser state -/
theorem Scr.feed_tail (t : Scr) (tail : List Rune) (h : SgrTail tail) (hg : t.ps = .ground) :
    ∃ q, t.feed tail = { t with ps := q } := by
  rcases h with h | h | ⟨p, h, hp⟩
  · subst h; exact ⟨.ground, by obtain ⟨w, ht, o, cw, rows, row, col, vis, ps⟩ := t; simp only at hg; subst hg; rfl⟩
  · subst h; exact ⟨.esc, by obtain ⟨w, ht, o, cw, rows, row, col, vis, ps⟩ := t; rfl⟩
  · subst h
    refine ⟨.csi ([] ++ p), ?_⟩
    rw [Scr.feed_cons, Scr.feed_cons]
    have h0 : (t.step 27).step 91 = { t with ps := .csi [] } := by
      obtain ⟨w, ht, o, cw, rows, row, col, vis, ps⟩ := t; rfl
    rw [h0, Scr.feed_params p hp _ [] rfl]

/-! ### printable runes of width one -/

theorem Scr.step_print (t : Scr) (h : t.ps = .ground) (r : Rune) (hr : 32 ≤ r ∧ r ≠ 127) (hw : t.cw r = 1)
    (hc : t.col < t.width) :
    t.step r = { t with rows := setRow t.rows t.row (writeAt (t.rows t.row) t.col r), col := t.col + 1 } := by
  obtain ⟨w, ht, o, cw, rows, row, col, vis, ps⟩ := t
  simp only at h hw hc; subst h
  have h1 : r ≠ 27 := by omega
  have h2 : ¬ (r = 24 ∨ r = 26) := by omega
  have h3 : ¬ r < 32 := by omega
  have h4 : r ≠ 127 := hr.2
  have h5 : ¬ (col + 1 > w) := by omega
  simp [Scr.step, h1, h2, h3, h4, Scr.putChar, hw, h5]

/-- a printable rune leaves the parser in the ground state (whatever its width) -/
theorem Scr.step_print_ps (t : Scr) (h : t.ps = .ground) (r : Rune) (hr : 32 ≤ r ∧ r ≠ 127) :
    (t.step r).ps = .ground := by
  obtain ⟨w, ht, o, cw, rows, row, col, vis, ps⟩ := t
  simp only at h; subst h
  have h1 : r ≠ 27 := by omega
  have h2 : ¬ (r = 24 ∨ r = 26) := by omega
  have h3 : ¬ r < 32 := by omega
  have h4 : r ≠ 127 := hr.2
  simp only [Scr.step, h1, h2, h3, h4, if_false, Scr.putChar]
  split
  · rfl
  · split <;> split <;> simp [Scr.down] <;> split <;> rfl

/-- printable runes of width one that fit before the right margin -/
theorem Scr.feed_printables (vs : List Rune) :
    ∀ (t : Scr), (∀ r ∈ vs, 32 ≤ r ∧ r ≠ 127 ∧ t.cw r = 1) → t.ps = .ground → t.col + vs.length ≤ t.width →
    t.feed vs = { t with rows := setRow t.rows t.row (writeCells (t.rows t.row) t.col vs),
                         col := t.col + vs.length } := by
  induction vs with
  | nil =>
    intro t _ _ _
    obtain ⟨w, ht, o, cw, rows, row, col, vis, ps⟩ := t
    simp [Scr.feed_nil, writeCells, setRow_self]
  | cons v vs ih =>
    intro t hv h hfit
    have hv1 := hv v (by simp)
    have hv' : ∀ r ∈ vs, 32 ≤ r ∧ r ≠ 127 ∧ t.cw r = 1 := fun r hr => hv r (by simp [hr])
    rw [Scr.feed_cons, Scr.step_print t h v ⟨hv1.1, hv1.2.1⟩ hv1.2.2 (by simp at hfit; omega), ih]
    · obtain ⟨w, ht, o, cw, rows, row, col, vis, ps⟩ := t
      simp [writeCells, setRow_same, setRow_at]; omega
    · exact hv'
    · exact h
    · simp at hfit ⊢; omega

end Rare.C20
