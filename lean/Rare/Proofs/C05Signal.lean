import Rare.Model.C05Signal
import Rare.Proofs.AggLoop
namespace Rare.AggLoop

variable {κ : Type}

/-- Invariant of the loop with the signal path: as `Inv`, except that "everything has been sampled" once main has
    left the loop only holds when no signal arrived; with a signal what holds is "everything RECEIVED has been
    sampled" (whole batches) and the final render shows exactly that. -/
structure SInv (stream : List (List κ)) (s : SSt κ) : Prop where
  mainOwns : s.base.main.isSampling = true ↔ s.base.mutex = .main
  tickOwns : s.base.ticker = .rendering ↔ s.base.mutex = .ticker
  flow : s.base.received ++ s.base.rc.flatten ++ s.base.future.flatten = stream.flatten
  hand : s.base.sampled ++ s.base.main.inHand = s.base.received
  closed : s.base.rcClosed = true → s.base.future = []
  drained : (s.base.main = .sendDone ∨ s.base.main = .finalRender ∨ s.base.main = .finished) → s.signalled = false →
      s.base.sampled = stream.flatten ∧ s.base.rc = [] ∧ s.base.future = []
  stopped : s.base.ticker = .stopped ↔ (s.base.main = .finalRender ∨ s.base.main = .finished)
  frozen : s.base.ticker = .rendering → s.base.snap = s.base.sampled
  prefixes : ∀ r ∈ s.base.renders, r <+: stream.flatten
  last : s.base.main = .finished → s.base.renders.getLast? = some s.base.sampled
  /-- the signal only ever takes main out of its select -/
  sig : s.signalled = true → (s.base.main = .sendDone ∨ s.base.main = .finalRender ∨ s.base.main = .finished)

theorem sinv_init (stream : List (List κ)) : SInv stream (sinit stream) := by
  refine ⟨by simp [sinit, init, Main.isSampling], by simp [sinit, init], by simp [sinit, init], by simp [sinit, init, Main.inHand],
    by simp [sinit, init], by simp [sinit, init], by simp [sinit, init], by simp [sinit, init], by simp [sinit, init],
    by simp [sinit, init], by simp [sinit]⟩

theorem ssampled_prefix {stream : List (List κ)} {s : SSt κ} (h : SInv stream s) : s.base.sampled <+: stream.flatten := by
  have h1 := h.flow
  have h2 := h.hand
  exact ⟨s.base.main.inHand ++ s.base.rc.flatten ++ s.base.future.flatten, by rw [← h1, ← h2]; simp⟩

/-- once main has left the loop nothing is half-sampled: the aggregator holds exactly what was received -/
theorem sampled_eq_received {stream : List (List κ)} {s : SSt κ} (h : SInv stream s)
    (hm : s.base.main = .sendDone ∨ s.base.main = .finalRender ∨ s.base.main = .finished ∨ s.base.main = .loop) :
    s.base.sampled = s.base.received := by
  have := h.hand
  rcases hm with hm | hm | hm | hm <;> rw [hm] at this <;> simpa [Main.inHand] using this

theorem sinv_step {stream : List (List κ)} {s s' : SSt κ} (h : SInv stream s) (hs : SStep s s') : SInv stream s' := by
  cases hs with
  | signal hm =>
    have hns : s.base.mutex ≠ .main := by
      intro he; have := h.mainOwns.mpr he; rw [hm] at this; cases this
    refine ⟨by simp [Main.isSampling]; exact hns, h.tickOwns, h.flow, ?_, h.closed, by simp, ?_, h.frozen, h.prefixes, by simp, by simp⟩
    · have := h.hand; rw [hm] at this; simpa [Main.inHand] using this
    · have := h.stopped; rw [hm] at this; simpa using this
  | base b' hb =>
    cases hb with
    | arrive b rest hf =>
      refine ⟨h.mainOwns, h.tickOwns, ?_, h.hand, ?_, ?_, h.stopped, h.frozen, h.prefixes, h.last, h.sig⟩
      · have := h.flow; rw [hf] at this; simpa using this
      · intro hc; have := h.closed hc; rw [hf] at this; cases this
      · intro hm hsg; have := (h.drained hm hsg).2.2; rw [hf] at this; cases this
    | close hf hc =>
      exact ⟨h.mainOwns, h.tickOwns, h.flow, h.hand, fun _ => hf, h.drained, h.stopped, h.frozen, h.prefixes, h.last, h.sig⟩
    | recv b rest hm hrc =>
      have hns : s.base.mutex ≠ .main := by
        intro he; have := h.mainOwns.mpr he; rw [hm] at this; cases this
      have hnsig : s.signalled ≠ true := by
        intro he; have := h.sig he; rw [hm] at this; simp at this
      refine ⟨by simp [Main.isSampling]; exact hns, h.tickOwns, ?_, ?_, h.closed, by simp, ?_, h.frozen, h.prefixes, by simp,
        fun he => absurd he hnsig⟩
      · have := h.flow; rw [hrc] at this; simpa using this
      · have := h.hand; rw [hm] at this; simp [Main.inHand] at this ⊢; rw [this]
      · have := h.stopped; rw [hm] at this; simpa using this
    | mlock b hm hmu =>
      have hnr : s.base.ticker ≠ .rendering := by
        intro he; have := h.tickOwns.mp he; rw [hmu] at this; cases this
      have hnsig : s.signalled ≠ true := by
        intro he; have := h.sig he; rw [hm] at this; simp at this
      refine ⟨by simp [Main.isSampling], by simp; exact hnr, h.flow, ?_, h.closed, by simp, ?_,
        fun hr => absurd hr hnr, h.prefixes, by simp, fun he => absurd he hnsig⟩
      · have := h.hand; rw [hm] at this; simpa [Main.inHand] using this
      · have := h.stopped; rw [hm] at this; simpa using this
    | sample x xs hm =>
      have hown : s.base.mutex = .main := h.mainOwns.mp (by rw [hm]; rfl)
      have hnr : s.base.ticker ≠ .rendering := by
        intro he; have := h.tickOwns.mp he; rw [hown] at this; cases this
      have hnsig : s.signalled ≠ true := by
        intro he; have := h.sig he; rw [hm] at this; simp at this
      refine ⟨by simp [Main.isSampling, hown], h.tickOwns, h.flow, ?_, h.closed, by simp, ?_,
        fun hr => absurd hr hnr, h.prefixes, by simp, fun he => absurd he hnsig⟩
      · have := h.hand; rw [hm] at this; simpa [Main.inHand] using this
      · have := h.stopped; rw [hm] at this; simpa using this
    | munlock hm =>
      have hown : s.base.mutex = .main := h.mainOwns.mp (by rw [hm]; rfl)
      have hnr : s.base.ticker ≠ .rendering := by
        intro he; have := h.tickOwns.mp he; rw [hown] at this; cases this
      have hnsig : s.signalled ≠ true := by
        intro he; have := h.sig he; rw [hm] at this; simp at this
      refine ⟨by simp [Main.isSampling], by simp; exact hnr, h.flow, ?_, h.closed, by simp, ?_,
        fun hr => absurd hr hnr, h.prefixes, by simp, fun he => absurd he hnsig⟩
      · have := h.hand; rw [hm] at this; simpa [Main.inHand] using this
      · have := h.stopped; rw [hm] at this; simpa using this
    | eof hm hrc hcl =>
      have hf := h.closed hcl
      have hns : s.base.mutex ≠ .main := by
        intro he; have := h.mainOwns.mpr he; rw [hm] at this; cases this
      refine ⟨by simp [Main.isSampling]; exact hns, h.tickOwns, h.flow, ?_, h.closed, ?_, ?_, h.frozen, h.prefixes, by simp,
        fun _ => by simp⟩
      · have := h.hand; rw [hm] at this; simpa [Main.inHand] using this
      · intro _ _
        have h1 := h.flow; have h2 := h.hand
        rw [hm] at h2; simp [Main.inHand] at h2
        rw [hrc, hf] at h1; simp at h1
        exact ⟨by rw [h2, h1], hrc, hf⟩
      · have := h.stopped; rw [hm] at this; simpa using this
    | handshake hm ht =>
      have hns : s.base.mutex ≠ .main := by
        intro he; have := h.mainOwns.mpr he; rw [hm] at this; cases this
      have hnt : s.base.mutex ≠ .ticker := by
        intro he; have := h.tickOwns.mpr he; rw [ht] at this; cases this
      refine ⟨by simp [Main.isSampling]; exact hns, by simp; exact hnt, h.flow, ?_, h.closed, ?_, by simp,
        by simp, h.prefixes, by simp, fun _ => by simp⟩
      · have := h.hand; rw [hm] at this; simpa [Main.inHand] using this
      · intro _ hsg; exact h.drained (Or.inl hm) hsg
    | final hm =>
      have hns : s.base.mutex ≠ .main := by
        intro he; have := h.mainOwns.mpr he; rw [hm] at this; cases this
      refine ⟨by simp [Main.isSampling]; exact hns, h.tickOwns, h.flow, ?_, h.closed,
        fun _ hsg => h.drained (Or.inr (Or.inl hm)) hsg, ?_, h.frozen, ?_, ?_, fun _ => by simp⟩
      · have := h.hand; rw [hm] at this; simpa [Main.inHand] using this
      · have := h.stopped; rw [hm] at this; simpa using this
      · intro r hr; simp at hr
        rcases hr with hr | rfl
        · exact h.prefixes r hr
        · exact ssampled_prefix h
      · intro _; simp
    | fire ht =>
      have hnt : s.base.mutex ≠ .ticker := by
        intro he; have := h.tickOwns.mpr he; rw [ht] at this; cases this
      refine ⟨h.mainOwns, by simp; exact hnt, h.flow, h.hand, h.closed, h.drained, ?_, by simp, h.prefixes, h.last, h.sig⟩
      have := h.stopped; rw [ht] at this; simpa using this
    | tlock ht hmu =>
      have hns : s.base.main.isSampling ≠ true := by
        intro he; have := h.mainOwns.mp he; rw [hmu] at this; cases this
      refine ⟨by simp; simpa using hns, by simp, h.flow, h.hand, h.closed, h.drained, ?_, by simp, h.prefixes, h.last, h.sig⟩
      have := h.stopped; rw [ht] at this; simpa using this
    | tunlock ht =>
      have hown : s.base.mutex = .ticker := h.tickOwns.mp ht
      have hns : s.base.main.isSampling ≠ true := by
        intro he; have := h.mainOwns.mp he; rw [hown] at this; cases this
      have hnf : s.base.main ≠ .finished := by
        intro he; have := h.stopped.mpr (Or.inr he); rw [ht] at this; cases this
      refine ⟨by simp; simpa using hns, by simp, h.flow, h.hand, h.closed, h.drained, ?_, by simp, ?_,
        fun he => absurd he hnf, h.sig⟩
      · have := h.stopped; rw [ht] at this; simpa using this
      · intro r hr; simp at hr
        rcases hr with hr | rfl
        · exact h.prefixes r hr
        · exact ssampled_prefix h

theorem sinv_reach {stream : List (List κ)} {s : SSt κ} (hr : SReach (sinit stream) s) : SInv stream s := by
  induction hr with
  | refl => exact sinv_init stream
  | step _ hs ih => exact sinv_step ih hs

/-- A run of the loop without a signal is a run of the base transition system (and vice versa). -/
theorem sreach_unsignalled {stream : List (List κ)} {s : SSt κ} (hr : SReach (sinit stream) s)
    (hs : s.signalled = false) : Reach (init stream) s.base := by
  induction hr with
  | refl => exact .refl
  | step _ hstep ih =>
    cases hstep with
    | base b' hb => exact .step (ih hs) hb
    | signal hm => cases hs

theorem reach_sreach {stream : List (List κ)} {b : St κ} (hr : Reach (init stream) b) :
    SReach (sinit stream) ⟨b, false⟩ := by
  induction hr with
  | refl => exact .refl
  | step _ hstep ih => exact .step ih (.base ⟨_, false⟩ _ hstep)

/-- No deadlock with the signal path either. -/
theorem sprogress {stream : List (List κ)} {s : SSt κ} (h : SInv stream s) (hf : s.base.main ≠ .finished) :
    ∃ s', SStep s s' := by
  cases hm : s.base.main with
  | finished => exact absurd hm hf
  | finalRender => exact ⟨_, .base s _ (.final s.base hm)⟩
  | sampling todo =>
    cases todo with
    | nil => exact ⟨_, .base s _ (.munlock s.base hm)⟩
    | cons x xs => exact ⟨_, .base s _ (.sample s.base x xs hm)⟩
  | wantLock b =>
    cases hmu : s.base.mutex with
    | none => exact ⟨_, .base s _ (.mlock s.base b hm hmu)⟩
    | main => have := h.mainOwns.mpr hmu; rw [hm] at this; cases this
    | ticker => exact ⟨_, .base s _ (.tunlock s.base (h.tickOwns.mpr hmu))⟩
  | sendDone =>
    cases ht : s.base.ticker with
    | idle => exact ⟨_, .base s _ (.handshake s.base hm ht)⟩
    | rendering => exact ⟨_, .base s _ (.tunlock s.base ht)⟩
    | stopped => have := h.stopped.mp ht; rw [hm] at this; simp at this
    | wantLock =>
      cases hmu : s.base.mutex with
      | none => exact ⟨_, .base s _ (.tlock s.base ht hmu)⟩
      | main => have := h.mainOwns.mpr hmu; rw [hm] at this; cases this
      | ticker => have := h.tickOwns.mpr hmu; rw [ht] at this; cases this
  | loop => exact ⟨_, .signal s hm⟩

/-- After a signal main needs at most: hand-shake, final render. The measure of the base system, cut down to what
    main still does, decreases on every non-ticker step. -/
def smeasure (s : SSt κ) : Nat := if s.signalled then mainW s.base.main else measure s.base

theorem sstep_measure {s s' : SSt κ} (hs : SStep s s') (hsig : s.signalled = true → s.base.main = .sendDone ∨ s.base.main = .finalRender ∨ s.base.main = .finished) :
    smeasure s' < smeasure s ∨ (smeasure s' = smeasure s ∧ s'.base.main = s.base.main ∧ s'.base.sampled = s.base.sampled) := by
  cases hs with
  | signal hm =>
    left
    cases hsg : s.signalled with
    | true => have := hsig hsg; rw [hm] at this; simp at this
    | false => simp [smeasure, hsg, measure, hm, mainW] <;> omega
  | base b' hb =>
    cases hsg : s.signalled with
    | false => simpa [smeasure, hsg] using step_measure hb
    | true =>
      have hm3 := hsig hsg
      simp only [smeasure, hsg, if_true]
      cases hb with
      | arrive b rest hf => right; exact ⟨rfl, rfl, rfl⟩
      | close hf hc => right; exact ⟨rfl, rfl, rfl⟩
      | recv b rest hm hrc => rw [hm] at hm3; simp at hm3
      | mlock b hm hmu => rw [hm] at hm3; simp at hm3
      | sample x xs hm => rw [hm] at hm3; simp at hm3
      | munlock hm => rw [hm] at hm3; simp at hm3
      | eof hm hrc hcl => rw [hm] at hm3; simp at hm3
      | handshake hm ht => left; simp [hm, mainW]
      | final hm => left; simp [hm, mainW]
      | fire ht => right; exact ⟨rfl, rfl, rfl⟩
      | tlock ht hmu => right; exact ⟨rfl, rfl, rfl⟩
      | tunlock ht => right; exact ⟨rfl, rfl, rfl⟩

end Rare.AggLoop
