import Rare.Proofs.C19F64b
import Rare.Model.C19F64Math
/-!
C19, IEEE instance, part (c): `{! formula}` end to end (`kfMath`, funcsMath.go): the stage the builder
returns reads every variable through `strconv.ParseFloat`, evaluates the compiled formula in binary64
and prints the result with `strconv.FormatFloat(v, 'f', -1, 64)` – or `<BAD-TYPE>` if some look-up did
not parse.
-/
namespace Rare.C19.IEEE
open Rare Rare.F64 Rare.C19 Rare.Expr Rare.Expr.Funcs.Math

variable (L : Libm)

/-- `kfMath`'s parts for the arithmetic `arith L` (no taint: the libm behaviour is given). -/
def mathInstL : MathInst F64 where
  arith := arith L
  conv := conv
  render := fun v => Comp.ret (render v)
  unmodelledLit := fun _ => ⟨some (Comp.ret []), none⟩     -- never reached: this instance models every literal

/-- What `keyBuilderContextWrapper` makes of a context: every look-up through `ParseFloat`, 0 on failure. -/
def ctxBinding (ctx : Ctx) : Binding F64 :=
  ⟨fun i => (conv (ctx.getMatch i)).1, fun k => (conv (ctx.getKey k)).1⟩

/-- `mathCtx.errors` after the evaluation: the look-ups (with multiplicity) whose text did not parse. -/
def badLookups (ctx : Ctx) : C19.Expr F64 → Nat
  | .val _ => 0
  | .named n => (conv (ctx.getKey n)).2
  | .idx i => (conv (ctx.getMatch i)).2
  | .un _ e => badLookups ctx e
  | .bin _ l r => badLookups ctx l + badLookups ctx r

theorem run_bind' {α β : Type} (c : Comp α) (f : α → Comp β) (ctx : Ctx) :
    (c.bind f).run ctx = (match c.run ctx with | .ok a => (f a).run ctx | .error m => .error m) := by
  induction c with
  | ret a => rfl
  | getMatch i k ih => exact ih _
  | getKey s k ih => exact ih _
  | panic m => rfl

theorem evalC_run (ctx : Ctx) : ∀ e : C19.Expr F64,
    (evalC (mathInstL L) e).run ctx = .ok (e.eval (arith L) (ctxBinding ctx), badLookups ctx e) := by
  intro e
  induction e with
  | val v => rfl
  | named n => rfl
  | idx i => rfl
  | un m e ih =>
    show ((evalC (mathInstL L) e).bind _).run ctx = _
    rw [run_bind', ih]; rfl
  | bin op l r ihl ihr =>
    show ((evalC (mathInstL L) l).bind _).run ctx = _
    rw [run_bind', ihl]
    show ((evalC (mathInstL L) r).bind _).run ctx = _
    rw [run_bind', ihr]; rfl

theorem badLookups_zero (ctx : Ctx) (hm : ∀ i, (F64.parseFloat (ctx.getMatch i)).isSome = true)
    (hk : ∀ k, (F64.parseFloat (ctx.getKey k)).isSome = true) : ∀ e, badLookups ctx e = 0 := by
  have c0 : ∀ s, (F64.parseFloat s).isSome = true → (conv s).2 = 0 := by
    intro s h
    unfold conv
    cases hp : F64.parseFloat s with
    | none => rw [hp] at h; cases h
    | some v => rfl
  intro e
  induction e with
  | val v => rfl
  | named n => exact c0 _ (hk n)
  | idx i => exact c0 _ (hm i)
  | un m e ih => exact ih
  | bin op l r ihl ihr => simp only [badLookups, ihl, ihr]

/-- The stage `kfMath` returns for a constant formula text. -/
theorem kfMath_stage (s : Bytes) (t : Tree) (e : C19.Expr F64) (h : compile (arith L) s = .ok (t, e)) :
    kfMathWith (mathInstL L) [Stage.lit s] = .ok ⟨some (do
        let (v, errs) ← evalC (mathInstL L) e
        if errs > 0 then pure ErrorNum else (mathInstL L).render v), none⟩ := by
  have hc : collapse [Stage.lit s] [] = .ok (some s) := by
    simp [collapse, Stage.lit, Comp.probe, Comp.probeN]
  have h' : compile (mathInstL L).arith s = .ok (t, e) := h
  simp only [kfMathWith, hc, h']
  rfl

theorem kfMath_run (s : Bytes) (t : Tree) (e : C19.Expr F64) (h : compile (arith L) s = .ok (t, e)) (ctx : Ctx) :
    ∃ st, kfMathWith (mathInstL L) [Stage.lit s] = .ok ⟨some st, none⟩ ∧
      st.run ctx = .ok (if badLookups ctx e > 0 then ErrorNum
        else render (t.eval (arith L) (classify (arith L)) (ctxBinding ctx))) := by
  refine ⟨_, kfMath_stage L s t e h, ?_⟩
  show ((evalC (mathInstL L) e).bind _).run ctx = _
  rw [run_bind', evalC_run]
  simp only
  rw [← formula_value_aux]
  split <;> rfl
where
  formula_value_aux : e.eval (arith L) (ctxBinding ctx) = t.eval (arith L) (classify (arith L)) (ctxBinding ctx) :=
    (compileF_post (arith L) _ s t e h).2.ev _

end Rare.C19.IEEE
