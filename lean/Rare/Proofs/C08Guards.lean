import Rare.Proofs.C11
import Rare.Model.Expr.Funcs.Strings
/-!
Helper lemmas for the guard theorems of `Props/C08.lean` (which are stated about the definitions
regenerated from /repo into `Gen/C08.lean`): int64 wrap-around facts, the panic condition of
`strings.Repeat`, and `selectField` with its slice expressions made explicit.
-/
namespace Rare.C08
open Rare

/-- `strings.Repeat(s, count)` panics for a negative count and when `len(s) * count` does not fit an
    `int` (Go 1.23: `bits.Mul` high word non-zero or low word above `maxInt`). -/
def repeatPanics (len count : Int) : Prop := count < 0 ∨ len * count > maxInt64

theorem wrap64_inInt64 (x : Int) : inInt64 (wrap64 x) = true := by
  rw [C11.inInt64_iff]; unfold wrap64 minInt64 maxInt64; omega

/-- `wrap64 (idx * 2)` for a group index: negative (wrapped) unless `2*idx` fits, and then `+ 1` fits too
    (an even number is never `MaxInt64`). -/
theorem wrap_double (idx : Int) (h0 : 0 ≤ idx) (h1 : idx ≤ maxInt64) :
    (2 * idx ≤ maxInt64 ∧ wrap64 (idx * 2) = 2 * idx ∧ wrap64 (wrap64 (idx * 2) + 1) = 2 * idx + 1) ∨
    (maxInt64 < 2 * idx ∧ wrap64 (idx * 2) < 0) := by
  unfold maxInt64 at *; unfold wrap64; omega

/-- Go's `%` on an int64 dividend stays in range (same sign as the dividend, no larger in magnitude). -/
theorem tmod_inInt64 (a b : Int) (ha : inInt64 a = true) : inInt64 (Int.tmod a b) = true := by
  rw [C11.inInt64_iff] at *
  have h1 : (Int.tmod a b).natAbs ≤ a.natAbs := by rw [Int.natAbs_tmod]; exact Nat.mod_le _ _
  have h2 : 0 ≤ a → 0 ≤ Int.tmod a b := fun h => Int.tmod_nonneg b h
  have h3 : a ≤ 0 → Int.tmod a b ≤ 0 := fun h => by
    have := Int.tmod_nonneg b (show 0 ≤ -a by omega); rw [Int.neg_tmod] at this; omega
  unfold minInt64 maxInt64 at *
  omega

end Rare.C08

namespace Rare.Expr.Funcs.Strings
open Rare Rare.Expr

/-- `selectField` with Go's slice expressions `s[wordStart:i]` / `s[wordStart:]` made explicit
    (`goSlice` answers `.error` where Go panics with "slice bounds out of range"). -/
def selLoopC (s : Bytes) (idx : Int) : Bytes → Nat → SelSt → Except String Bytes
  | [], _, st => if st.currIdx = idx then goSlice s st.wordStart s.length else .ok []
  | c :: rest, i, st =>
    if (st.quoted && c == 34) || (!st.quoted && isSelDelim c) then
      if st.currIdx = idx then goSlice s st.wordStart i
      else selLoopC s idx rest (i + 1) { st with inDelim := true, quoted := false }
    else if c == 34 then selLoopC s idx rest (i + 1) { st with quoted := !st.quoted }
    else if st.inDelim then
      selLoopC s idx rest (i + 1) { st with wordStart := i, currIdx := st.currIdx + 1, inDelim := false }
    else selLoopC s idx rest (i + 1) st

theorem goSlice_nat (s : Bytes) (a b : Nat) (h1 : a ≤ b) (h2 : b ≤ s.length) :
    goSlice s a b = .ok ((s.drop a).take (b - a)) := by
  unfold goSlice
  rw [if_pos ⟨by omega, by omega, by omega⟩]
  simp

/-- `wordStart ≤ i ≤ len(s)` is an invariant of the loop: the checked loop never fails and computes
    what the model's total loop computes. -/
theorem selLoopC_ok (s : Bytes) (idx : Int) : ∀ (rest : Bytes) (i : Nat) (st : SelSt),
    st.wordStart ≤ i → i + rest.length = s.length →
    selLoopC s idx rest i st = .ok (selLoop s idx rest i st)
  | [], i, st, hw, hl => by
    unfold selLoopC selLoop
    simp only [List.length_nil, Nat.add_zero] at hl
    split
    · rw [goSlice_nat s _ _ (by omega) (by omega)]
      congr 1
      rw [List.take_of_length_le]; simp
    · rfl
  | c :: rest, i, st, hw, hl => by
    unfold selLoopC selLoop
    simp only [List.length_cons] at hl
    split
    · split
      · exact goSlice_nat s _ _ hw (by omega)
      · exact selLoopC_ok s idx rest (i + 1) _ (by simp only; omega) (by omega)
    · split
      · exact selLoopC_ok s idx rest (i + 1) _ (by simp only; omega) (by omega)
      · split
        · exact selLoopC_ok s idx rest (i + 1) _ (by simp only; omega) (by omega)
        · exact selLoopC_ok s idx rest (i + 1) _ (by omega) (by omega)

end Rare.Expr.Funcs.Strings
