import Rare.Proofs.C15StatOpen
import Rare.Proofs.C15Replace
/-!
C15 – the `Stat`/`Open` split of `reopenIfReplaced` under the FULL writer (rename away, atomic replace): a file
renamed onto the path is a fresh inode too, so "not the open file" stays stable.
-/
namespace Rare.Follow

variable {β : Type}

/-- transitions of the full writer and the fsnotify goroutine between two system calls of the reader -/
inductive EnvStepsO (cfg : NCfg) : NSt β → NSt β → Prop
  | refl (s : NSt β) : EnvStepsO cfg s s
  | step {w : Who} {s s' s'' : NSt β} : w ≠ .reader → NStepO cfg w s s' → EnvStepsO cfg s' s'' → EnvStepsO cfg s s''

theorem envInv_stepO {cfg : NCfg} {w : Who} {s1 s s' : NSt β} (h : EnvInv s1 s) (hw : w ≠ .reader)
    (hs : NStepO cfg w s s') : EnvInv s1 s' := by
  cases hs with
  | base hb =>
    cases hb with
    | base hn => exact envInv_step h hw hn
    | rename _ i hp =>
      obtain ⟨h1, h2, h3, h4, _⟩ := h
      exact ⟨h1, h2, h3, h4, by intro i hi; simp [FS.remove] at hi⟩
  | replace _ i bs hp =>
    obtain ⟨h1, h2, h3, h4, _⟩ := h
    refine ⟨h1, h2, h3, by simp only [FS.replace]; omega, ?_⟩
    intro j hj
    simp only [FS.replace, Option.some.injEq] at hj
    exact Or.inr (by omega)

theorem envInv_stepsO_aux {cfg : NCfg} {s s2 : NSt β} (he : EnvStepsO cfg s s2) :
    ∀ s1 : NSt β, EnvInv s1 s → EnvInv s1 s2 := by
  induction he with
  | refl => intro s1 hi; exact hi
  | step hw hst _ ih => intro s1 hi; exact ih s1 (envInv_stepO hi hw hst)

theorem envInv_stepsO {cfg : NCfg} {s1 s2 : NSt β} (hs : EnvStepsO cfg s1 s2) : EnvInv s1 s2 :=
  envInv_stepsO_aux hs s1 (envInv_refl s1)

/-- `not_same_stable` from the invariant alone (whatever produced it) -/
theorem not_same_of_envInv {s1 s2 : NSt β} (he : EnvInv s1 s2)
    (halloc : ∀ h, s1.f = some h → h.ino < s1.fs.next) (hns : sameFile s1 = false) : sameFile s2 = false := by
  obtain ⟨h1, _, _, _, h5⟩ := he
  unfold sameFile at hns ⊢
  rw [h1]
  cases hf : s1.f with
  | none => rfl
  | some h =>
    rw [hf] at hns
    cases hp2 : s2.fs.path with
    | none => rfl
    | some i =>
      simp only
      rcases h5 i hp2 with hp1 | hge
      · rw [hp1] at hns; exact hns
      · have := halloc h hf
        simp only [beq_eq_false_iff_ne, ne_eq]
        omega

/-- the basic environment is part of the full one -/
theorem envSteps_is_envStepsO {cfg : NCfg} {s1 s2 : NSt β} (hs : EnvSteps cfg s1 s2) : EnvStepsO cfg s1 s2 := by
  induction hs with
  | refl => exact .refl _
  | step hw hst _ ih => exact .step hw (.base (.base hst)) ih

end Rare.Follow
