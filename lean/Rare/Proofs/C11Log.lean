import Rare.Proofs.C11Float
import Rare.Model.C11Log
import Rare.Spec.C11Log
/-!
Lemmas about the model of `math.Log` / `Log10` / `Log2` / `Pow` (`Rare/Model/C11Log.lean`): special cases for all
arguments, agreement of the assembly's decomposition with `Frexp` off the subnormal range, `log2` of powers of two,
the call-level equations of `{pow a b}`, finite tables, and the subnormal witness.
-/
namespace Rare.C11.Log
open Rare Rare.Expr Rare.Expr.Funcs Rare.C11

/-! ### `math.Log`: special cases -/

theorem logAsm_special (x : F64) :
    (x.mag = 0 → logAsm x = F64.inf true) ∧
    (x.isNaN = true → logAsm x = F64.nan) ∧
    (x.sign = true → x.mag ≠ 0 → logAsm x = F64.nan) ∧
    (x.sign = false → x.isInf = true → logAsm x = x) := by
  refine ⟨?_, ?_, ?_, ?_⟩
  · intro h; simp [logAsm, h]
  · intro h
    have : x.mag ≠ 0 := by
      intro h0; simp [F64.isNaN, h0] at h
    simp [logAsm, this, h]
  · intro hs hm
    unfold logAsm
    rw [if_neg hm]
    split
    · rfl
    · rfl
  · intro hs hi
    have hm : x.mag ≠ 0 := by
      intro h0; simp [F64.isInf, h0] at hi
    have hn : x.isNaN = false := by
      simp only [F64.isInf, decide_eq_true_eq] at hi
      simp [F64.isNaN, hi]
    simp [logAsm, hm, hn, hs, hi]

theorem frexpGo_normal (x : F64) (hn : 4503599627370496 ≤ x.mag) (hf : x.isFinite = true) :
    frexpGo x = (F64.ofSM x.sign (0x3FE * 4503599627370496 + x.frac), (x.expField : Int) - 0x3FE) := by
  have hm : x.mag ≠ 0 := by omega
  have hlt : ¬ (x.mag < 4503599627370496) := by omega
  simp [frexpGo, hm, hf, hlt]

/-- On every argument that is not subnormal the assembly's decomposition is `math.Frexp`'s: the code's answer is
    the specification's. -/
theorem logAsm_eq_logNorm (x : F64) (h : 4503599627370496 ≤ x.mag) : logAsm x = logNorm x := by
  unfold logAsm logNorm
  have hm : x.mag ≠ 0 := by omega
  rw [if_neg hm, if_neg hm]
  by_cases hn : x.isNaN = true
  · rw [if_pos hn, if_pos hn]
  · rw [if_neg hn, if_neg hn]
    by_cases hs : x.sign = true
    · rw [if_pos hs, if_pos hs]
    · rw [if_neg hs, if_neg hs]
      by_cases hi : x.isInf = true
      · rw [if_pos hi, if_pos hi]
      · rw [if_neg hi, if_neg hi]
        have hf : x.isFinite = true := by
          simp only [F64.isNaN, F64.isInf, F64.isFinite, decide_eq_true_eq] at hn hi ⊢
          omega
        have hs' : x.sign = false := by simpa using hs
        rw [frexpGo_normal x h hf, hs']
        rfl

/-! ### `math.Log2` of powers of two -/

theorem half_bits : F64.ofSM false (0x3FE * 4503599627370496 + 0) = half := by decide +kernel
theorem eq_half : F64.eq half half = true := by decide +kernel

theorem log2_pow2_normal (x : F64) (hs : x.sign = false) (hf : x.isFinite = true) (hn : 4503599627370496 ≤ x.mag)
    (hfrac : x.frac = 0) : log2 x = F64.ofInt ((x.expField : Int) - 1023) := by
  unfold log2
  rw [frexpGo_normal x hn hf, hs, hfrac, half_bits]
  simp only [eq_half, if_true]
  congr 1
  omega

theorem log2_pow2_subnormal :
    ((List.range 52).all fun j => log2 (F64.ofSM false (2 ^ j)) == F64.ofInt ((j : Int) - 1074)) = true := by
  decide +kernel

/-! ### `math.Pow`: the leading special cases, for all arguments -/

theorem pow_special (x y : F64) :
    (y.mag = 0 → pow x y = some F64.one) ∧
    (F64.eq x F64.one = true → pow x y = some F64.one) ∧
    (y.mag ≠ 0 → F64.eq x F64.one = false → F64.eq y F64.one = true → pow x y = some x) ∧
    (y.mag ≠ 0 → F64.eq x F64.one = false → F64.eq y F64.one = false → (x.isNaN = true ∨ y.isNaN = true) →
      pow x y = some F64.nan) := by
  refine ⟨?_, ?_, ?_, ?_⟩
  · intro h; unfold pow; rw [if_pos (by simp [h])]
  · intro h; unfold pow; rw [if_pos (by simp [h])]
  · intro h1 h2 h3; unfold pow; rw [if_neg (by simp [h1, h2]), if_pos h3]
  · intro h1 h2 h3 h4; unfold pow
    rw [if_neg (by simp [h1, h2]), if_neg (by simp [h3]), if_pos (by rcases h4 with h | h <;> simp [h])]

/-! ### `{pow a b}`: the call -/

theorem pow_call (c : Ctx) (a b : Arg) (x y r : F64)
    (ha : Float.parseF (a.val c) = some x) (hb : Float.parseF (b.val c) = some y) (hr : pow x y = some r) :
    callHelper kfPow [a, b] c = .ok (Float.fmtF r) := by
  unfold callHelper kfPow
  have hnot : ¬ (([a, b].map Arg.stage).length < 2) := by simp
  simp only [hnot, if_false]
  rcases mapTyped_args' Float.parseF c [a, b] with ⟨_, a', ha', hnone⟩ | ⟨typed, h, ht⟩
  · exfalso
    simp only [List.mem_cons, List.not_mem_nil, or_false] at ha'
    rcases ha' with e | e <;> subst e
    · rw [ha] at hnone; cases hnone
    · rw [hb] at hnone; cases hnone
  · rw [h]
    cases ht with
    | cons h1 h2 =>
      cases h2 with
      | cons h3 h4 =>
        cases h4
        show (powRun (_ :: _)).run c = _
        simp only [powRun, powFold, run_bind, h1, ha, h3, hb, hr]
        rfl

theorem pow_marker (c : Ctx) (a b : Arg)
    (hbad : Float.parseF (a.val c) = none ∨ Float.parseF (b.val c) = none) :
    callHelper kfPow [a, b] c = .ok ErrorNum := by
  unfold callHelper kfPow
  have hnot : ¬ (([a, b].map Arg.stage).length < 2) := by simp
  simp only [hnot, if_false]
  rcases mapTyped_args' Float.parseF c [a, b] with ⟨h, _⟩ | ⟨typed, h, ht⟩
  · rw [h]; rfl
  · rw [h]
    cases ht with
    | cons h1 h2 =>
      cases h2 with
      | cons h3 h4 =>
        cases h4
        show (powRun (_ :: _)).run c = _
        simp only [powRun, run_bind, h1]
        cases hp : Float.parseF (a.val c) with
        | none => rfl
        | some x =>
          simp only [powFold, run_bind, h3]
          rcases hbad with e | e
          · rw [hp] at e; cases e
          · rw [e]; rfl

/-! ### finite tables (fully enumerated by the kernel) -/

/-- `2^e` for every `|e| ≤ 40` and at both ends of the exponent range is exact (`Ldexp(1, e)`), overflow gives `+Inf`,
    `2^-1075` is `0`. -/
theorem pow2_table :
    (((List.range 81).map (fun (j : Nat) => (j : Int) - 40) ++ [-1075, -1074, -1073, -1023, -1022, -1021, 1022, 1023, 1024]).all fun e =>
      pow two (F64.ofInt e) == some (ldexp F64.one e)) = true ∧
    ldexp F64.one 1024 = F64.inf false ∧ ldexp F64.one (-1075) = F64.zero false ∧ ldexp F64.one 10 = F64.ofInt 1024 := by
  decide +kernel

/-- `10^k`, `k = 0 … 22` (every power of ten that is a float): exact. -/
theorem pow10_table : ((List.range 23).all fun (k : Nat) =>
    pow (F64.ofInt 10) (F64.ofInt (k : Int)) == some (F64.ofInt (((10 ^ k : Nat) : Int)))) = true := by decide +kernel

/-- `log10 (10^k) = k` exactly for `k = 0 … 22` except `k = 15` (where `Log(x) * (1/Ln10)` is one ulp off). -/
theorem log10_table : ((List.range 23).filter fun (k : Nat) =>
    !(log10 (F64.ofInt (((10 ^ k : Nat) : Int))) == F64.ofInt (k : Int))) = [15] := by
  decide +kernel

theorem log_one : logAsm F64.one = F64.zero false ∧ log10 F64.one = F64.zero false ∧ log2 F64.one = F64.zero false := by
  decide +kernel

/-- A float from its bit pattern given as a number (probe tables of `Rare.Gen.C11`). -/
def bitsF (n : Nat) : F64 := F64.ofBits (UInt64.ofNat n)

/-! ### the subnormal witness -/

/-- The smallest subnormal, `5e-324 = 2^-1074`. -/
def tiny : F64 := F64.ofSM false 1

theorem tiny_facts :
    Float.parseF (ascii "5e-324") = some tiny ∧ tiny.toRat = 1 / (((2 ^ 1074 : Nat) : Int) : Rat) ∧
    lnStr tiny = ascii "-709.0895657128241" ∧ log10Str tiny = ascii "-307.9536855642528" ∧
    Float.fmtF (logNorm tiny) = ascii "-744.4400719213812" ∧ Float.fmtF (log10Norm tiny) = ascii "-323.30621534311575" ∧
    log2Str tiny = ascii "-1074" := by
  decide +kernel

theorem tiny_bound :
    ¬ ((logAsm tiny).toRat ≤ -((((1074 : Nat) : Int) : Rat) * (693 / 1000))) ∧
    (logNorm tiny).toRat ≤ -((((1074 : Nat) : Int) : Rat) * (693 / 1000)) := by
  decide +kernel

end Rare.C11.Log
