import Rare.Proofs.C17Heap
import Rare.Proofs.C17Funcs
/-!
C17: the heap machine and the pool-free model agree on EVERY template – leaves that panic included.

`valE t ctx : Except String Bytes` is the value-level reading with panics: sub-expressions are evaluated element by
element, left to right, and the first panic ends the evaluation with its message.  `den_valE`: the pool-free model
(`den`, i.e. `mapStage` … of Funcs/Range.lean with their splitter loops) computes `valE`; `ev_valE`: so does the
heap machine, from any `Good` heap – with a `Frame`d heap when the value is there, with the same panic otherwise.
For total templates `valE = .ok ∘ val` (both theorems of Proofs/C17Heap.lean / `den_val`).
-/
namespace Rare.C17
open Rare Rare.Expr Rare.Expr.Funcs.Range Rare.C17Pool Rare.C17Heap

/-- A helper's element loop at value level: `F a b` is what the sub-expression answers when `Eval` stored `a`, `b`. -/
def loopE {σ : Type} (F : Bytes → Bytes → Except String Bytes) (args : σ → Bytes → Bytes × Bytes)
    (upd : σ → Bytes → Bytes → σ) : List Bytes → σ → Except String σ
  | [], s => .ok s
  | x :: xs, s =>
    match F (args s x).1 (args s x).2 with
    | .error m => .error m
    | .ok y => loopE F args upd xs (upd s x y)

/-- The loop of `@for` at value level (`acc` = the values produced so far; `none` = `<INF>`). -/
def forE (Fc Fn : Bytes → Bytes → Except String Bytes) :
    Nat → Nat → Bytes → List Bytes → Except String (Option (List Bytes))
  | 0, _, _, _ => .error "hang: for does not terminate"
  | fuel + 1, idx, v, acc =>
    match Fc v (itoa (idx : Nat)) with
    | .error m => .error m
    | .ok c =>
      if !truthy c then .ok (some acc)
      else
        match Fn v (itoa (idx : Nat)) with
        | .error m => .error m
        | .ok v' => if idx + 1 > Gen.maxIterations then .ok none else forE Fc Fn fuel (idx + 1) v' (acc ++ [v])

def forOut : Option (List Bytes) → Bytes
  | some ys => pack ys
  | none => InfMarker

def reduceStart (init : Bytes) (xs : List Bytes) : Bytes × List Bytes :=
  if init = [] then (xs.headD [], xs.tail) else (init, xs)

/-- The value of a template, panics included. -/
def valE : Tm → Ctx → Except String Bytes
  | .scalar c, ctx => c.run ctx
  | .app1 g a, ctx => (valE a ctx).map g
  | .app2 g a b, ctx =>
    match valE a ctx with
    | .error m => .error m
    | .ok x => (valE b ctx).map (g x)
  | .map a f, ctx =>
    match valE a ctx with
    | .error m => .error m
    | .ok arr =>
      (loopE (fun v0 v1 => valE f (subCtx ctx v0 v1)) (fun (_ : List Bytes) x => (x, [])) (fun s _ y => s ++ [y])
        (elems arr) []).map pack
  | .filter a p, ctx =>
    match valE a ctx with
    | .error m => .error m
    | .ok arr =>
      (loopE (fun v0 v1 => valE p (subCtx ctx v0 v1)) (fun (_ : List Bytes) x => (x, []))
        (fun s x y => if truthy y then s ++ [x] else s) (elems arr) []).map pack
  | .reduce init a f, ctx =>
    match valE a ctx with
    | .error m => .error m
    | .ok arr =>
      loopE (fun v0 v1 => valE f (subCtx ctx v0 v1)) (fun (memo : Bytes) x => (memo, x)) (fun _ _ y => y)
        (reduceStart init (elems arr)).2 (reduceStart init (elems arr)).1
  | .for_ s c n, ctx =>
    match valE s ctx with
    | .error m => .error m
    | .ok v =>
      (forE (fun v0 v1 => valE c (subCtx ctx v0 v1)) (fun v0 v1 => valE n (subCtx ctx v0 v1))
        (Gen.maxIterations + 2) 0 v []).map forOut

/-! ## the machine -/

/-- The machine's result against a value-level result: the value with a framed heap, or the same panic. -/
def Agree (r : Res) (e : Except String Bytes) (h : Heap) : Prop :=
  match e with
  | .ok v => ∃ h', r = .ok (v, h') ∧ Frame h h' []
  | .error m => r = .error m

def SubOkE (root ctx : Ctx) (evf : Ref → Heap → Res) (o : Nat) (l : List Nat)
    (F : Bytes → Bytes → Except String Bytes) : Prop :=
  ∀ h a b, LoopInv root ctx o l h → Agree (evf (.obj o) (h.setVals o a b)) (F a b) (h.setVals o a b)

theorem objLoop_specE {σ : Type} (root ctx : Ctx) (evf : Ref → Heap → Res) (o : Nat) (l : List Nat)
    (F : Bytes → Bytes → Except String Bytes) (hsub : SubOkE root ctx evf o l F)
    (args : σ → Bytes → Bytes × Bytes) (upd : σ → Bytes → Bytes → σ) :
    ∀ (xs : List Bytes) (s : σ) (h : Heap), LoopInv root ctx o l h →
      match loopE F args upd xs s with
      | .ok s' => ∃ h', objLoop evf o args upd xs s h = .ok (s', h') ∧ LoopInv root ctx o l h' ∧ Frame h h' [o]
      | .error m => objLoop evf o args upd xs s h = .error m
  | [], s, h, hi => ⟨h, rfl, hi, Frame.refl h hi.1.pool _⟩
  | x :: xs, s, h, hi => by
    have hs := hsub h (args s x).1 (args s x).2 hi
    simp only [loopE, objLoop]
    cases hF : F (args s x).1 (args s x).2 with
    | error m =>
      simp only [Agree, hF] at hs
      simp only [hs]
    | ok y =>
      simp only [Agree, hF] at hs
      obtain ⟨h1, e1, f1⟩ := hs
      obtain ⟨hi1, fr1⟩ := loopInv_step hi _ _ f1
      have ih := objLoop_specE root ctx evf o l F hsub args upd xs (upd s x y) h1 hi1
      simp only [e1]
      cases hL : loopE F args upd xs (upd s x y) with
      | error m => simp only [hL] at ih; exact ih
      | ok s' =>
        simp only [hL] at ih
        obtain ⟨h2, e2, hi2, fr2⟩ := ih
        exact ⟨h2, e2, hi2, fr1.trans fr2⟩

theorem forLoopH_specE (root ctx : Ctx) (evc evn : Ref → Heap → Res) (o : Nat) (l : List Nat)
    (Fc Fn : Bytes → Bytes → Except String Bytes) (hc : SubOkE root ctx evc o l Fc) (hn : SubOkE root ctx evn o l Fn) :
    ∀ (fuel idx : Nat) (v : Bytes) (acc : List Bytes) (h : Heap), LoopInv root ctx o l h →
      match forE Fc Fn fuel idx v acc with
      | .ok r => ∃ h', forLoopH evc evn o fuel idx v acc h = .ok (r, h') ∧ LoopInv root ctx o l h' ∧ Frame h h' [o]
      | .error m => forLoopH evc evn o fuel idx v acc h = .error m
  | 0, idx, v, acc, h, _ => rfl
  | fuel + 1, idx, v, acc, h, hi => by
    have hcs := hc h v (itoa (idx : Nat)) hi
    simp only [forE, forLoopH]
    cases hFc : Fc v (itoa (idx : Nat)) with
    | error m =>
      simp only [Agree, hFc] at hcs
      simp only [hcs]
    | ok c =>
      simp only [Agree, hFc] at hcs
      obtain ⟨h1, e1, f1⟩ := hcs
      obtain ⟨hi1, fr1⟩ := loopInv_step hi _ _ f1
      simp only [e1]
      by_cases ht : truthy c = true
      · simp only [ht, Bool.not_true, Bool.false_eq_true, if_false]
        have hns := hn h1 v (itoa (idx : Nat)) hi1
        cases hFn : Fn v (itoa (idx : Nat)) with
        | error m =>
          simp only [Agree, hFn] at hns
          simp only [hns]
        | ok v' =>
          simp only [Agree, hFn] at hns
          obtain ⟨h2, e2, f2⟩ := hns
          obtain ⟨hi2, fr2⟩ := loopInv_step hi1 _ _ f2
          simp only [e2]
          by_cases hmax : idx + 1 > Gen.maxIterations
          · simp only [hmax, if_true]
            exact ⟨h2, rfl, hi2, fr1.trans fr2⟩
          · simp only [hmax, if_false]
            have ih := forLoopH_specE root ctx evc evn o l Fc Fn hc hn fuel (idx + 1) v' (acc ++ [v]) h2 hi2
            cases hR : forE Fc Fn fuel (idx + 1) v' (acc ++ [v]) with
            | error m => simp only [hR] at ih; exact ih
            | ok r =>
              simp only [hR] at ih
              obtain ⟨h3, e3, hi3, fr3⟩ := ih
              exact ⟨h3, e3, hi3, (fr1.trans fr2).trans fr3⟩
      · have ht' : truthy c = false := by simpa using ht
        simp only [ht', Bool.not_false, if_true]
        exact ⟨h1, rfl, hi1, fr1⟩

def EvOkE (root : Ctx) (fuel : Nat) (t : Tm) : Prop :=
  ∀ (ref : Ref) (h : Heap) (l : List Nat), Good h l ref → l.length + depth t < fuel →
    Agree (ev root fuel t ref h) (valE t (ctxOf root h.objs l)) h

theorem subOkE_of_evOkE {root : Ctx} {fuel : Nat} {f : Tm} (ih : EvOkE root fuel f) (ctx : Ctx) (o : Nat) (l : List Nat)
    (hlen : (o :: l).length + depth f < fuel) :
    SubOkE root ctx (ev root fuel f) o l (fun a b => valE f (subCtx ctx a b)) := by
  intro h a b hi
  obtain ⟨g1, _, hc, _⟩ := setVals_good hi.1 a b
  have := ih (.obj o) (h.setVals o a b) (o :: l) g1 hlen
  rw [hc root, hi.2] at this
  exact this

/-- `Get` … loop … deferred `Return` after the array argument has been evaluated (all four helpers end like this). -/
theorem helper_tail {σ : Type} {root : Ctx} {fuel : Nat} {f : Tm} (ihf : EvOkE root fuel f)
    {h0 h : Heap} {l : List Nat} {ctx : Ctx} {o : Nat}
    (hi : LoopInv root ctx o l h) (hlen : (o :: l).length + depth f < fuel)
    (args : σ → Bytes → Bytes × Bytes) (upd : σ → Bytes → Bytes → σ) (xs : List Bytes) (s : σ)
    (hrel : ∀ h3, Frame h h3 [o] → Frame h0 (release h3 o) []) :
    match loopE (fun a b => valE f (subCtx ctx a b)) args upd xs s with
    | .ok s' => ∃ h3, objLoop (ev root fuel f) o args upd xs s h = .ok (s', h3) ∧ Frame h0 (release h3 o) []
    | .error m => objLoop (ev root fuel f) o args upd xs s h = .error m := by
  have hsub := subOkE_of_evOkE ihf ctx o l hlen
  have := objLoop_specE root ctx _ o l _ hsub args upd xs s h hi
  cases hL : loopE (fun a b => valE f (subCtx ctx a b)) args upd xs s with
  | error m => simp only [hL] at this; exact this
  | ok s' =>
    simp only [hL] at this
    obtain ⟨h3, e3, _, fr3⟩ := this
    exact ⟨h3, e3, hrel h3 fr3⟩

theorem ev_valE (root : Ctx) (fuel : Nat) : ∀ (t : Tm), EvOkE root fuel t
  | .scalar c => by
    intro ref h l g hf
    simp only [ev, valE, runH_chain root h.objs l ref fuel g.chain (by simp [depth] at hf; omega) c]
    cases c.run (ctxOf root h.objs l) with
    | error m => rfl
    | ok v => exact ⟨h, rfl, Frame.refl h g.pool _⟩
  | .app1 gf a => by
    intro ref h l g hf
    have ha := ev_valE root fuel a ref h l g (by simpa [depth] using hf)
    simp only [ev, valE]
    cases hA : valE a (ctxOf root h.objs l) with
    | error m =>
      simp only [Agree, hA] at ha
      simp only [ha, Agree, Except.map]
    | ok x =>
      simp only [Agree, hA] at ha
      obtain ⟨h1, e1, f1⟩ := ha
      simp only [e1, Agree, Except.map]
      exact ⟨h1, rfl, f1⟩
  | .app2 gf a b => by
    intro ref h l g hf
    have hd : l.length + depth a < fuel ∧ l.length + depth b < fuel := by simp only [depth] at hf; omega
    have ha := ev_valE root fuel a ref h l g hd.1
    simp only [ev, valE]
    cases hA : valE a (ctxOf root h.objs l) with
    | error m =>
      simp only [Agree, hA] at ha
      simp only [ha, Agree]
    | ok x =>
      simp only [Agree, hA] at ha
      obtain ⟨h1, e1, f1⟩ := ha
      have hb := ev_valE root fuel b ref h1 l (g.frame f1 (by simp)) hd.2
      rw [ctxOf_frame root g f1 (by simp)] at hb
      simp only [e1]
      cases hB : valE b (ctxOf root h.objs l) with
      | error m =>
        simp only [Agree, hB] at hb
        simp only [hb, Agree, Except.map]
      | ok y =>
        simp only [Agree, hB] at hb
        obtain ⟨h2, e2, f2⟩ := hb
        simp only [e2, Agree, Except.map]
        exact ⟨h2, rfl, f1.trans f2⟩
  | .map a f => by
    intro ref h l g hf
    have hd : l.length + depth a < fuel ∧ l.length + 1 + depth f < fuel := by simp only [depth] at hf; omega
    obtain ⟨g1, g1l, hctx1, hnh, hle, hfree, hagree, hheld⟩ := acquire_spec g (ref := ref)
    have ha := ev_valE root fuel a ref (acquire h ref).2 l g1l hd.1
    rw [hctx1 root] at ha
    simp only [ev, valE]
    cases hA : valE a (ctxOf root h.objs l) with
    | error m =>
      simp only [Agree, hA] at ha
      simp only [ha, Agree]
    | ok arr =>
      simp only [Agree, hA] at ha
      obtain ⟨h2, e2, fr2⟩ := ha
      simp only [e2]
      have hi2 : LoopInv root (ctxOf root h.objs l) (acquire h ref).1 l h2 :=
        ⟨g1.frame fr2 (by simp), by rw [ctxOf_frame root g1l fr2 (by simp), hctx1 root]⟩
      have ht := helper_tail (h0 := h) (ev_valE root fuel f) hi2 (by simp; omega) (fun (_ : List Bytes) x => (x, []))
        (fun s _ y => s ++ [y]) (elems arr) []
        (fun h3 fr3 => release_frame hnh hle hfree hagree (g1.held _ (by simp)) hheld
          ((fr2.mono (ex := [(acquire h ref).1])).trans fr3))
      cases hL : loopE (fun v0 v1 => valE f (subCtx (ctxOf root h.objs l) v0 v1)) (fun (_ : List Bytes) x => (x, []))
          (fun s _ y => s ++ [y]) (elems arr) [] with
      | error m =>
        simp only [hL] at ht
        simp only [ht, Agree, Except.map]
      | ok ys =>
        simp only [hL] at ht
        obtain ⟨h3, e3, fr⟩ := ht
        simp only [e3, Agree, Except.map]
        exact ⟨_, rfl, fr⟩
  | .filter a p => by
    intro ref h l g hf
    have hd : l.length + depth a < fuel ∧ l.length + 1 + depth p < fuel := by simp only [depth] at hf; omega
    have ha := ev_valE root fuel a ref h l g hd.1
    simp only [ev, valE]
    cases hA : valE a (ctxOf root h.objs l) with
    | error m =>
      simp only [Agree, hA] at ha
      simp only [ha, Agree]
    | ok arr =>
      simp only [Agree, hA] at ha
      obtain ⟨h1, e1, f1⟩ := ha
      simp only [e1]
      have g1 := g.frame f1 (by simp)
      have hc1 := ctxOf_frame root g f1 (by simp)
      obtain ⟨ga, _, hctx, hnh, hle, hfree, hagree, hheld⟩ := acquire_spec g1 (ref := ref)
      have hi : LoopInv root (ctxOf root h.objs l) (acquire h1 ref).1 l (acquire h1 ref).2 :=
        ⟨ga, by rw [hctx root, hc1]⟩
      have ht := helper_tail (h0 := h) (ev_valE root fuel p) hi (by simp; omega) (fun (_ : List Bytes) x => (x, []))
        (fun s x y => if truthy y then s ++ [x] else s) (elems arr) []
        (fun h3 fr3 => f1.trans (release_frame hnh hle hfree hagree (ga.held _ (by simp)) hheld fr3))
      cases hL : loopE (fun v0 v1 => valE p (subCtx (ctxOf root h.objs l) v0 v1)) (fun (_ : List Bytes) x => (x, []))
          (fun s x y => if truthy y then s ++ [x] else s) (elems arr) [] with
      | error m =>
        simp only [hL] at ht
        simp only [ht, Agree, Except.map]
      | ok ys =>
        simp only [hL] at ht
        obtain ⟨h3, e3, fr⟩ := ht
        simp only [e3, Agree, Except.map]
        exact ⟨_, rfl, fr⟩
  | .reduce init a f => by
    intro ref h l g hf
    have hd : l.length + depth a < fuel ∧ l.length + 1 + depth f < fuel := by simp only [depth] at hf; omega
    obtain ⟨g1, g1l, hctx1, hnh, hle, hfree, hagree, hheld⟩ := acquire_spec g (ref := ref)
    have ha := ev_valE root fuel a ref (acquire h ref).2 l g1l hd.1
    rw [hctx1 root] at ha
    simp only [ev, valE]
    cases hA : valE a (ctxOf root h.objs l) with
    | error m =>
      simp only [Agree, hA] at ha
      simp only [ha, Agree]
    | ok arr =>
      simp only [Agree, hA] at ha
      obtain ⟨h2, e2, fr2⟩ := ha
      simp only [e2]
      have hi2 : LoopInv root (ctxOf root h.objs l) (acquire h ref).1 l h2 :=
        ⟨g1.frame fr2 (by simp), by rw [ctxOf_frame root g1l fr2 (by simp), hctx1 root]⟩
      have ht := helper_tail (h0 := h) (ev_valE root fuel f) hi2 (by simp; omega) (fun (memo : Bytes) x => (memo, x))
        (fun _ _ y => y) (reduceStart init (elems arr)).2 (reduceStart init (elems arr)).1
        (fun h3 fr3 => release_frame hnh hle hfree hagree (g1.held _ (by simp)) hheld
          ((fr2.mono (ex := [(acquire h ref).1])).trans fr3))
      have hrs : (if init = [] then ((elems arr).headD [], (elems arr).tail) else (init, elems arr) : Bytes × List Bytes) =
          reduceStart init (elems arr) := rfl
      simp only [hrs]
      cases hL : loopE (fun v0 v1 => valE f (subCtx (ctxOf root h.objs l) v0 v1)) (fun (memo : Bytes) x => (memo, x))
          (fun _ _ y => y) (reduceStart init (elems arr)).2 (reduceStart init (elems arr)).1 with
      | error m =>
        simp only [hL] at ht
        simp only [ht, Agree]
      | ok memo =>
        simp only [hL] at ht
        obtain ⟨h3, e3, fr⟩ := ht
        simp only [e3, Agree]
        exact ⟨_, rfl, fr⟩
  | .for_ s c n => by
    intro ref h l g hf
    have hd : l.length + depth s < fuel ∧ l.length + 1 + depth c < fuel ∧ l.length + 1 + depth n < fuel := by
      simp only [depth] at hf; omega
    have hs := ev_valE root fuel s ref h l g hd.1
    simp only [ev, valE]
    cases hS : valE s (ctxOf root h.objs l) with
    | error m =>
      simp only [Agree, hS] at hs
      simp only [hs, Agree]
    | ok v =>
      simp only [Agree, hS] at hs
      obtain ⟨h1, e1, f1⟩ := hs
      simp only [e1]
      have g1 := g.frame f1 (by simp)
      have hc1 := ctxOf_frame root g f1 (by simp)
      obtain ⟨ga, _, hctx, hnh, hle, hfree, hagree, hheld⟩ := acquire_spec g1 (ref := ref)
      have hi : LoopInv root (ctxOf root h.objs l) (acquire h1 ref).1 l (acquire h1 ref).2 :=
        ⟨ga, by rw [hctx root, hc1]⟩
      have hsc := subOkE_of_evOkE (ev_valE root fuel c) (ctxOf root h.objs l) (acquire h1 ref).1 l (by simp; omega)
      have hsn := subOkE_of_evOkE (ev_valE root fuel n) (ctxOf root h.objs l) (acquire h1 ref).1 l (by simp; omega)
      have hl := forLoopH_specE root _ _ _ _ l _ _ hsc hsn (Gen.maxIterations + 2) 0 v [] _ hi
      cases hR : forE (fun v0 v1 => valE c (subCtx (ctxOf root h.objs l) v0 v1))
          (fun v0 v1 => valE n (subCtx (ctxOf root h.objs l) v0 v1)) (Gen.maxIterations + 2) 0 v [] with
      | error m =>
        simp only [hR] at hl
        simp only [hl, Agree, Except.map]
      | ok r =>
        simp only [hR] at hl
        obtain ⟨h3, e3, _, fr3⟩ := hl
        have frf := f1.trans (release_frame hnh hle hfree hagree (ga.held _ (by simp)) hheld fr3)
        simp only [e3, Agree, Except.map]
        cases r with
        | none => exact ⟨_, rfl, frf⟩
        | some ys => exact ⟨_, rfl, frf⟩

end Rare.C17
