import Rare.Proofs.C20Lift
/-! C20 round 4b: what the BUFFERED writer prints (`VirtualTerm.WriteToOutput`: every stored line
through `WriteLineNoWrap`, then `\n`) run through the reference terminal `Scr` – so that the screen it
leaves can be compared with the screen of the live writer. -/
namespace Rare.C20

/-- `TextSafe` without the unterminated colour sequence at the end: the buffered writer does not
follow a line with an erase sequence (whose ESC would restart the terminal's parser), so a line that
ends inside an escape sequence swallows the beginning of the NEXT line
(`buffered_unterminated_counterexample` in Props). -/
def TextComplete (cw : Rune → Nat) (W : Nat) (trim : Bool) (txt : Bytes) : Prop :=
  ∃ toks : List Tok, (∀ t ∈ toks, t.Safe cw) ∧ decodeUtf8 txt = renderToks toks ∧
    (trim = false → (visToks toks).length ≤ W ∧ ValidUtf8 txt)

theorem TextComplete.safe {cw : Rune → Nat} {W : Nat} {trim : Bool} {txt : Bytes}
    (h : TextComplete cw W trim txt) : TextSafe cw W trim txt := by
  obtain ⟨toks, hp, hd, hfit⟩ := h
  exact ⟨toks, [], hp, Or.inl rfl, by simpa using hd, hfit⟩

theorem TextComplete.nil (cw : Rune → Nat) (W : Nat) (trim : Bool) : TextComplete cw W trim [] :=
  ⟨[], by simp, by simp [decodeUtf8_nil, renderToks], fun _ => ⟨by simp [visToks], by simp [ValidUtf8, decodeUtf8_nil, encodeUtf8]⟩⟩

/-- `piece_safe` for a complete text: what is written decodes to whole tokens, nothing after them -/
theorem piece_complete (cw : Rune → Nat) (W : Nat) (trim : Bool) (txt : Bytes) (h : TextComplete cw W trim txt) :
    ∃ toks' : List Tok, (∀ t ∈ toks', t.Safe cw) ∧
      Clean (writeLineNoWrap handEsc trim W txt) ∧
      decodeUtf8 (writeLineNoWrap handEsc trim W txt) = renderToks toks' ∧
      visToks toks' = shown W trim txt ∧ (visToks toks').length ≤ W := by
  obtain ⟨toks, hp, hd0, hfit⟩ := h
  have htl : SgrTail ([] : List Rune) := Or.inl rfl
  have hd : decodeUtf8 txt = renderToks toks ++ [] := by simpa using hd0
  have hvs : visibleRunes (renderToks toks) = visToks toks := by
    simpa using visibleRunes_safe cw toks [] hp htl
  cases trim with
  | false =>
    obtain ⟨hl, hv⟩ := hfit rfl
    refine ⟨toks, hp, ?_, ?_, ?_, hl⟩
    · simp only [writeLineNoWrap, Bool.not_false, if_true]
      rw [← hv]; exact Clean.encode _ (decodeUtf8_valid txt)
    · simpa [writeLineNoWrap] using hd0
    · simp [shown, hd0, hvs]
  | true =>
    have hkt : keptTail W 0 toks [] = [] := by
      rcases keptTail_cases W toks [] 0 with h | h
      · exact h.1
      · exact h
    have hvalid : ∀ r ∈ renderToks (trimToks W 0 toks) ++ keptTail W 0 toks [], validScalar r := by
      intro r hr
      rw [hkt, List.append_nil] at hr
      obtain ⟨rest, hrest⟩ := trimToks_prefix W toks 0
      apply decodeUtf8_valid txt
      rw [hd0, hrest]
      simp [renderToks] at hr ⊢
      exact Or.inl hr
    have hw : writeLineNoWrap handEsc true W txt =
        encodeUtf8 (renderToks (trimToks W 0 toks) ++ keptTail W 0 toks []) := by
      have htr := trimRunes_safe cw W toks [] hp htl
      rw [List.append_nil] at htr
      simp [writeLineNoWrap, hd0, htr]
    have hp' : ∀ t ∈ trimToks W 0 toks, t.Safe cw := fun t ht => hp t (trimToks_mem W toks 0 t ht)
    refine ⟨trimToks W 0 toks, hp', ?_, ?_, ?_, ?_⟩
    · rw [hw]; exact Clean.encode _ hvalid
    · rw [hw, decodeUtf8_encodeUtf8 _ hvalid, hkt, List.append_nil]
    · have := visToks_trimToks W toks 0 (by omega)
      simp [shown, hd0, hvs, this]
    · have := trimToks_vis_le W toks 0 (by omega)
      omega

theorem shown_nil (W : Nat) (trim : Bool) : shown W trim [] = [] := by
  cases trim <;> simp [shown, decodeUtf8_nil, visibleRunes]

theorem writeCells_end (vs : List Rune) : ∀ (cells : List Rune), writeCells cells cells.length vs = cells ++ vs := by
  induction vs with
  | nil => intro cells; simp [writeCells]
  | cons v vs ih =>
    intro cells
    have e : writeAt cells cells.length v = cells ++ [v] := by
      rw [writeAt_le cells cells.length v (Nat.le_refl _)]; simp
    rw [writeCells, e]
    have := ih (cells ++ [v])
    simp only [List.length_append, List.length_singleton] at this
    rw [this]; simp

theorem writeCells_blank (vs : List Rune) : writeCells [] 0 vs = vs := by
  simpa using writeCells_end vs []

/-- a line feed on a terminal in ONLCR mode, not on the last row (any column, any parser state) -/
theorem Scr.step_lf_onlcr (t : Scr) (ho : t.onlcr = true) (hr : t.row + 1 < t.height) :
    t.step 10 = { t with row := t.row + 1, col := 0 } := by
  rw [Scr.step_lf]
  obtain ⟨w, ht, o, cw, rows, row, col, vis, ps⟩ := t
  simp only at ho hr; subst ho
  simp [Scr.lineFeed, Scr.down, hr]

/-- One stored line as the buffered writer prints it: the (cut) text from column 0, then `\n`. -/
theorem Scr.feed_buffered_line (W : Nat) (trim : Bool) (t : Scr) (txt : Bytes) (hps : t.ps = .ground)
    (hw : t.width = W) (hc : t.col = 0) (ho : t.onlcr = true) (hr : t.row + 1 < t.height)
    (htxt : TextComplete t.cw W trim txt) :
    Clean (writeLineNoWrap handEsc trim W txt ++ [10]) ∧
    t.feedBytes (writeLineNoWrap handEsc trim W txt ++ [10]) =
      { t with rows := setRow t.rows t.row (writeCells (t.rows t.row) 0 (shown W trim txt)),
               row := t.row + 1, col := 0 } := by
  obtain ⟨toks, hp, hclean, hdec, hshown, hlen⟩ := piece_complete t.cw W trim txt htxt
  have hnl : IsAscii [10] := by intro x hx; simp at hx; subst hx; decide
  refine ⟨Clean.append hclean (Clean.asciiList _ hnl), ?_⟩
  rw [Scr.feedBytes_append _ _ _ hclean]
  have h1 : t.feedBytes (writeLineNoWrap handEsc trim W txt) =
      { t with rows := setRow t.rows t.row (writeCells (t.rows t.row) 0 (shown W trim txt)),
               col := (shown W trim txt).length } := by
    rw [Scr.feedBytes, hdec, Scr.feed_toks t.cw toks hp t hps,
      Scr.feed_printables (visToks toks) t (toks_vis_safe t.cw toks hp) hps (by rw [hc, hw]; omega), hshown, hc]
    simp
  rw [h1, Scr.feedBytes, decodeUtf8_of_ascii _ hnl]
  exact Scr.step_lf_onlcr _ ho hr

/-- All stored lines, top to bottom. -/
theorem Scr.feed_buffered (W : Nat) (trim : Bool) : ∀ (lines : List Bytes) (t : Scr), t.ps = .ground → t.width = W →
    t.col = 0 → t.onlcr = true → t.row + lines.length < t.height → (∀ l ∈ lines, TextComplete t.cw W trim l) →
    t.feedBytes (lines.flatMap (fun l => writeLineNoWrap handEsc trim W l ++ [10])) =
      { t with rows := fun j => if t.row ≤ j ∧ j < t.row + lines.length
                                 then writeCells (t.rows j) 0 (shown W trim (lines.getD (j - t.row) []))
                                 else t.rows j,
               row := t.row + lines.length, col := 0 } := by
  intro lines
  induction lines with
  | nil =>
    intro t _ _ hc _ _ _
    obtain ⟨w, ht, o, cw, rows, row, col, vis, ps⟩ := t
    simp only at hc; subst hc
    simp only [List.flatMap_nil, Scr.feedBytes_nil, List.length_nil, Nat.add_zero]
    congr 1
    funext j
    have : ¬ (row ≤ j ∧ j < row) := by omega
    simp [this]
  | cons l lines ih =>
    intro t hps hw hc ho hr htxt
    simp only [List.length_cons] at hr
    obtain ⟨hcl, h1⟩ := Scr.feed_buffered_line W trim t l hps hw hc ho (by omega) (htxt l (by simp))
    rw [List.flatMap_cons, Scr.feedBytes_append _ _ _ hcl, h1]
    have h2 := ih { t with rows := setRow t.rows t.row (writeCells (t.rows t.row) 0 (shown W trim l)),
                           row := t.row + 1, col := 0 }
      hps hw rfl ho (by simp only; omega) (fun x hx => htxt x (by simp [hx]))
    rw [h2]
    simp only [List.length_cons]
    congr 1
    · funext j
      by_cases h0 : j = t.row
      · have e1 : ¬ (t.row + 1 ≤ j ∧ j < t.row + 1 + lines.length) := by omega
        have e2 : t.row ≤ j ∧ j < t.row + (lines.length + 1) := by omega
        simp only [e1, e2, and_self, if_true, if_false]
        subst h0
        simp [setRow]
      · by_cases h2 : t.row + 1 ≤ j ∧ j < t.row + 1 + lines.length
        · have e2 : t.row ≤ j ∧ j < t.row + (lines.length + 1) := by omega
          have e3 : j - t.row = (j - (t.row + 1)) + 1 := by omega
          simp only [h2, e2, and_self, if_true, setRow_ne _ _ _ _ h0, e3, List.getD_cons_succ]
        · have e2 : ¬ (t.row ≤ j ∧ j < t.row + (lines.length + 1)) := by omega
          simp only [h2, e2, if_false, setRow_ne _ _ _ _ h0]
    · omega

theorem latest_mem_val {κ α : Type} [DecidableEq κ] (h : List (κ × α)) (i : κ) (x : α) :
    latest h i = some x → ∃ u ∈ h, u.2 = x := by
  have : ∀ (h : List (κ × α)) (acc : Option α),
      h.foldl (fun acc u => if u.1 = i then some u.2 else acc) acc = some x → acc = some x ∨ ∃ u ∈ h, u.2 = x := by
    intro h
    induction h with
    | nil => intro acc hh; exact Or.inl hh
    | cons u rest ih =>
      intro acc hh
      simp only [List.foldl_cons] at hh
      rcases ih _ hh with h1 | ⟨v, hv, hvi⟩
      · by_cases hu : u.1 = i
        · simp only [hu, if_true, Option.some.injEq] at h1
          exact Or.inr ⟨u, by simp, h1⟩
        · simp only [hu, if_false] at h1; exact Or.inl h1
      · exact Or.inr ⟨v, by simp [hv], hvi⟩
  intro hl
  rcases this h none hl with h1 | h1
  · cases h1
  · exact h1

/-! ### the number of stored lines -/

theorem writeForLine_ok_length (v v1 : VirtualTerm) (l : Nat) (t : Bytes) (h : v.writeForLine (l : Int) t = .ok v1) :
    v1.lines.length = max v.lines.length (l + 1) := by
  unfold VirtualTerm.writeForLine at h
  by_cases hc : v.closed = true
  · simp [hc] at h
  · have hl : ¬ ((l : Int) < 0) := by omega
    simp only [hc, hl, if_false, Bool.false_eq_true, Except.ok.injEq] at h
    subst h
    simp; omega

/-- the line store never shrinks, and its final length is the initial one or `l + 1` for a line `l` written -/
theorem runHistory_length : ∀ (rest : List (Nat × Bytes)) (v v' : VirtualTerm), v.runHistory (castHist rest) = .ok v' →
    v.lines.length ≤ v'.lines.length ∧
    (v'.lines.length = v.lines.length ∨ ∃ u ∈ rest, u.1 + 1 = v'.lines.length) := by
  intro rest
  induction rest with
  | nil =>
    intro v v' h
    simp only [castHist, List.map_nil, VirtualTerm.runHistory, Except.ok.injEq] at h
    subst h
    exact ⟨Nat.le_refl _, Or.inl rfl⟩
  | cons u rest ih =>
    intro v v' h
    simp only [castHist, List.map_cons, VirtualTerm.runHistory] at h
    cases hw : v.writeForLine (u.1 : Int) u.2 with
    | error e => rw [hw] at h; simp [bind, Except.bind] at h
    | ok v1 =>
      rw [hw] at h
      have h' : v1.runHistory (castHist rest) = .ok v' := by simpa [bind, Except.bind, castHist] using h
      have hl := writeForLine_ok_length v v1 u.1 u.2 hw
      obtain ⟨hmono, hcase⟩ := ih v1 v' h'
      refine ⟨by omega, ?_⟩
      rcases hcase with hc | ⟨x, hx, hxe⟩
      · by_cases hge : u.1 + 1 ≤ v.lines.length
        · left; omega
        · right; exact ⟨u, by simp, by omega⟩
      · right; exact ⟨x, by simp [hx], hxe⟩

/-- for a non-empty history the store has exactly `maxLine + 1` lines -/
theorem lineCount_eq (hist : List (Nat × Bytes)) (hne : hist ≠ []) (v : VirtualTerm)
    (h : VirtualTerm.new.runHistory (castHist hist) = .ok v) (hlen : ∀ u ∈ hist, u.1 < v.lineCount)
    (hmax : ∀ u ∈ hist, (u.1 : Int) ≤ maxLineOf (castHist hist)) :
    v.lineCount = (maxLineOf (castHist hist)).toNat + 1 := by
  obtain ⟨_, hcase⟩ := runHistory_length hist VirtualTerm.new v h
  obtain ⟨u0, hu0⟩ := List.exists_mem_of_ne_nil hist hne
  have h0 := hlen u0 hu0
  simp only [VirtualTerm.lineCount] at h0 hlen ⊢
  rcases hcase with hc | ⟨x, hx, hxe⟩
  · have : VirtualTerm.new.lines.length = 0 := rfl
    omega
  · have hx2 := hmax x hx
    rcases maxLineOf_mem hist with hm | ⟨y, hy, hye⟩
    · rw [hm] at hx2 ⊢; simp at hx2 ⊢; omega
    · have := hlen y hy; omega

end Rare.C20
