import Rare.Proofs.C11Case
import Rare.Model.C13Lower
/-!
C11 × C13: the sorters' model (`Rare/Model/C13Lower.lean`) takes `unicode.ToLower` as a parameter `tl` and
assumes only the contract `RuneLower tl`.  The table-driven `toLowerR` of C11 meets that contract, and C13's
`goToLower toLowerR` is C11's `goToLower`.
-/
namespace Rare.C11.Case

theorem runeLower_toLowerR : Rare.C13.RuneLower toLowerR where
  ascii := fun r h => (toRune_ascii r h).2
  dotI := toRune_exceptions.2.2.1
  kelvin := toRune_exceptions.2.2.2
  other := fun r h h1 h2 => toRune_nonascii true r h (by
    unfold intoAscii; simp only [if_true]; omega)

theorem lowerB_eq_c13 (b : UInt8) : lowerB b = Rare.C13.lowerB b := by
  unfold lowerB Rare.C13.lowerB
  by_cases h : 65 ≤ b ∧ b ≤ 90
  · simp [h]
  · have : ¬ ((65 ≤ b && b ≤ 90) = true) := by simpa using h
    rw [if_neg this, if_neg h]

theorem goToLower_eq_c13 (s : Bytes) : goToLower s = Rare.C13.goToLower toLowerR s := by
  unfold goToLower Rare.C13.goToLower Rare.C13.goMap goMap
  have e1 : (s.any fun c => 65 ≤ c && c ≤ 90) = (s.any fun c => decide (65 ≤ c ∧ c ≤ 90)) := by
    congr 1; funext c; simp
  have e2 : s.map lowerB = s.map Rare.C13.lowerB := by
    congr 1; funext b; exact lowerB_eq_c13 b
  simp only [e1, e2]

end Rare.C11.Case
