/-!
# The mutex rule of the lockset argument, proved over an abstract trace model

`Model/Lockset.lean` argues informally that "both accesses hold the same mutex" implies "ordered by
happens-before".  Here that step is proved for exclusive mutexes over a small trace semantics:

* an execution is a list of events (thread id, operation) in the order a sequentially consistent
  interleaving performs them (for data-race freedom it suffices to consider these: the Go memory model
  is DRF-SC); operations are `acq m`, `rel m`, an access to location `x`, or something else;
* `Exec tr hs`: `hs k m` is the holder of mutex `m` before event `k`; nobody holds anything at the start,
  `acq m` needs `m` free, `rel m` needs the releasing thread to hold it (sync.Mutex semantics);
* happens-before `HB` is the transitive closure of program order (same thread, earlier) and of
  "an `Unlock` of `m` is synchronised before every later `Lock` of `m`" (go.dev/ref/mem, "Locks");
* a data race is a pair of conflicting accesses of different threads that `HB` does not order.

`mutex_orders`: two events whose threads hold the same mutex when they execute are ordered by `HB`.
`lockset_no_race`: if every access to a location is made while holding that location's guard, the
execution has no data race.  (RWMutex, atomics, channels and `go` edges are not in this model.)
-/
namespace Rare.Lockset.HB

inductive Op where
  | acq (m : Nat)
  | rel (m : Nat)
  | acc (x : Nat) (write : Bool)
  | other
  deriving DecidableEq, Repr

structure Ev where
  tid : Nat
  op : Op
  deriving DecidableEq, Repr

abbrev Holders := Nat → Option Nat

def step (h : Holders) (e : Ev) : Option Holders :=
  match e.op with
  | .acq m => if h m = none then some (fun x => if x = m then some e.tid else h x) else none
  | .rel m => if h m = some e.tid then some (fun x => if x = m then none else h x) else none
  | _ => some h

/-- `hs k` = who holds which mutex before event `k`. -/
structure Exec (tr : List Ev) (hs : Nat → Holders) : Prop where
  init : ∀ m, hs 0 m = none
  next : ∀ k e, tr[k]? = some e → step (hs k) e = some (hs (k + 1))

inductive HB (tr : List Ev) : Nat → Nat → Prop
  | po {i j : Nat} {a b : Ev} : i < j → tr[i]? = some a → tr[j]? = some b → a.tid = b.tid → HB tr i j
  | sw {i j : Nat} {a b : Ev} {m : Nat} : i < j → tr[i]? = some a → tr[j]? = some b →
      a.op = .rel m → b.op = .acq m → HB tr i j
  | trans {i j k : Nat} : HB tr i j → HB tr j k → HB tr i k

theorem HB.lt {tr : List Ev} {i j : Nat} (h : HB tr i j) : i < j := by
  induction h with
  | po h _ _ _ => exact h
  | sw h _ _ _ _ => exact h
  | trans _ _ h1 h2 => exact Nat.lt_trans h1 h2

/-- A property that holds at `i` and fails at `k ≥ i` is lost at some step in between. -/
theorem lost_between (P : Nat → Prop) (i : Nat) : ∀ k, i ≤ k → P i → ¬ P k →
    ∃ r, i ≤ r ∧ r < k ∧ P r ∧ ¬ P (r + 1) := by
  intro k
  induction k with
  | zero =>
    intro hik hi hk
    have : i = 0 := Nat.le_zero.mp hik
    subst this; exact absurd hi hk
  | succ k ih =>
    intro hik hi hk
    by_cases hpk : P k
    · by_cases hle : i ≤ k
      · exact ⟨k, hle, Nat.lt_succ_self k, hpk, hk⟩
      · have : i = k + 1 := by omega
        subst this; exact absurd hi hk
    · by_cases hle : i ≤ k
      · obtain ⟨r, h1, h2, h3, h4⟩ := ih hle hi hpk
        exact ⟨r, h1, Nat.lt_succ_of_lt h2, h3, h4⟩
      · have : i = k + 1 := by omega
        subst this; exact absurd hi hk

/-- A property that fails at `i` and holds at `k ≥ i` is gained at some step in between. -/
theorem gained_between (P : Nat → Prop) (i k : Nat) (hik : i ≤ k) (hi : ¬ P i) (hk : P k) :
    ∃ r, i ≤ r ∧ r < k ∧ ¬ P r ∧ P (r + 1) := by
  obtain ⟨r, h1, h2, h3, h4⟩ := lost_between (fun n => ¬ P n) i k hik hi (fun h => h hk)
  exact ⟨r, h1, h2, h3, Classical.not_not.mp h4⟩

/-- The only step after which `t` no longer holds `m` is `t`'s `rel m`; afterwards nobody holds it. -/
theorem step_loses {h h' : Holders} {e : Ev} {m t : Nat} (hs : step h e = some h')
    (h1 : h m = some t) (h2 : h' m ≠ some t) : e.tid = t ∧ e.op = .rel m ∧ h' m = none := by
  unfold step at hs
  split at hs
  · rename_i m' _
    split at hs
    · cases hs
      by_cases hm : m = m'
      · subst hm; rename_i hfree; rw [h1] at hfree; cases hfree
      · simp [hm] at h2; exact absurd h1 h2
    · cases hs
  · rename_i m' hop
    split at hs
    · cases hs
      by_cases hm : m = m'
      · subst hm; rename_i hheld
        rw [h1] at hheld
        exact ⟨(Option.some.inj hheld).symm, hop, by simp⟩
      · simp [hm] at h2; exact absurd h1 h2
    · cases hs
  · cases hs; exact absurd h1 h2

/-- The only step after which `t` newly holds `m` is `t`'s `acq m`. -/
theorem step_gains {h h' : Holders} {e : Ev} {m t : Nat} (hs : step h e = some h')
    (h1 : h m ≠ some t) (h2 : h' m = some t) : e.tid = t ∧ e.op = .acq m := by
  unfold step at hs
  split at hs
  · rename_i m' hop
    split at hs
    · cases hs
      by_cases hm : m = m'
      · subst hm; simp at h2; exact ⟨h2, hop⟩
      · simp [hm] at h2; exact absurd h2 h1
    · cases hs
  · rename_i m' _
    split at hs
    · cases hs
      by_cases hm : m = m'
      · subst hm; simp at h2
      · simp [hm] at h2; exact absurd h2 h1
    · cases hs
  · cases hs; exact absurd h2 h1

/-- Between a point where `t1` holds `m` and a later point where `t2 ≠ t1` holds it, `t1` released `m`
    and, later, `t2` acquired it. -/
theorem release_then_acquire {tr : List Ev} {hs : Nat → Holders} (hex : Exec tr hs)
    {i j m t1 t2 : Nat} (hij : i < j) (hj : j ≤ tr.length)
    (h1 : hs i m = some t1) (h2 : hs j m = some t2) (hne : t1 ≠ t2) :
    ∃ r a er ea, i ≤ r ∧ r < a ∧ a < j ∧ tr[r]? = some er ∧ er.tid = t1 ∧ er.op = .rel m ∧
      tr[a]? = some ea ∧ ea.tid = t2 ∧ ea.op = .acq m := by
  have hnot : ¬ (hs j m = some t1) := by rw [h2]; intro h; exact hne (Option.some.inj h).symm
  obtain ⟨r, hir, hrj, hpr, hnr⟩ := lost_between (fun k => hs k m = some t1) i j (Nat.le_of_lt hij) h1 hnot
  have hrlen : r < tr.length := Nat.lt_of_lt_of_le hrj hj
  have her : tr[r]? = some tr[r] := List.getElem?_eq_getElem hrlen
  obtain ⟨e1, e2, e3⟩ := step_loses (hex.next r _ her) hpr hnr
  have hfree : ¬ (hs (r + 1) m = some t2) := by rw [e3]; intro h; cases h
  obtain ⟨a, hra, haj, hna, hpa⟩ := gained_between (fun k => hs k m = some t2) (r + 1) j hrj hfree h2
  have halen : a < tr.length := Nat.lt_of_lt_of_le haj hj
  have hea : tr[a]? = some tr[a] := List.getElem?_eq_getElem halen
  obtain ⟨f1, f2⟩ := step_gains (hex.next a _ hea) hna hpa
  exact ⟨r, a, tr[r], tr[a], hir, hra, haj, her, e1, e2, hea, f1, f2⟩

/-- **The mutex rule.**  Two events whose threads hold the same mutex when they execute are ordered by
    happens-before. -/
theorem mutex_orders {tr : List Ev} {hs : Nat → Holders} (hex : Exec tr hs)
    {i j : Nat} {a b : Ev} (hij : i < j) (ha : tr[i]? = some a) (hb : tr[j]? = some b) {m : Nat}
    (h1 : hs i m = some a.tid) (h2 : hs j m = some b.tid) : HB tr i j := by
  by_cases hsame : a.tid = b.tid
  · exact .po hij ha hb hsame
  · have hj : j ≤ tr.length := by
      have := (List.getElem?_eq_some_iff.mp hb).1; omega
    obtain ⟨r, c, er, ec, hir, hrc, hcj, her, e1, e2, hec, f1, f2⟩ :=
      release_then_acquire hex hij hj h1 h2 hsame
    have hsw : HB tr r c := .sw hrc her hec e2 f2
    have hpo2 : HB tr c j := .po hcj hec hb f1
    by_cases hri : i = r
    · subst hri; exact .trans hsw hpo2
    · have hlt : i < r := by omega
      exact .trans (.trans (.po hlt ha her e1.symm) hsw) hpo2

def Conflict (a b : Ev) : Prop :=
  ∃ x w1 w2, a.op = .acc x w1 ∧ b.op = .acc x w2 ∧ (w1 = true ∨ w2 = true)

/-- A data race: two conflicting accesses of different threads not ordered by happens-before. -/
def Race (tr : List Ev) : Prop :=
  ∃ i j a b, i < j ∧ tr[i]? = some a ∧ tr[j]? = some b ∧ Conflict a b ∧ a.tid ≠ b.tid ∧ ¬ HB tr i j

/-- **Lockset discipline ⇒ no data race** (exclusive mutexes): if every access to a location is made
    while the accessing thread holds that location's guard, no two conflicting accesses are unordered. -/
theorem lockset_no_race {tr : List Ev} {hs : Nat → Holders} (hex : Exec tr hs) (guard : Nat → Nat)
    (hdisc : ∀ k e x w, tr[k]? = some e → e.op = .acc x w → hs k (guard x) = some e.tid) : ¬ Race tr := by
  rintro ⟨i, j, a, b, hij, ha, hb, ⟨x, w1, w2, hxa, hxb, _⟩, _, hnhb⟩
  exact hnhb (mutex_orders hex hij ha hb (hdisc i a x w1 ha hxa) (hdisc j b x w2 hb hxb))

/-- A concrete execution satisfying the hypotheses: two threads each lock mutex 0, write location 7 and
    unlock. -/
def demo : List Ev :=
  [⟨1, .acq 0⟩, ⟨1, .acc 7 true⟩, ⟨1, .rel 0⟩, ⟨2, .acq 0⟩, ⟨2, .acc 7 true⟩, ⟨2, .rel 0⟩]

def demoHolders (k : Nat) : Holders := fun m =>
  if m = 0 then (if k = 1 ∨ k = 2 then some 1 else if k = 4 ∨ k = 5 then some 2 else none) else none

theorem demo_exec : Exec demo demoHolders := by
  refine ⟨fun m => by simp [demoHolders], ?_⟩
  intro k e hk
  have hlen : k < 6 := by
    have := (List.getElem?_eq_some_iff.mp hk).1; simpa [demo] using this
  have : k = 0 ∨ k = 1 ∨ k = 2 ∨ k = 3 ∨ k = 4 ∨ k = 5 := by omega
  rcases this with rfl | rfl | rfl | rfl | rfl | rfl <;>
    (simp [demo] at hk; subst hk; simp [step]
     first
       | (refine ⟨by simp [demoHolders], ?_⟩; funext m; by_cases hm : m = 0 <;> simp [demoHolders, hm])
       | (funext m; by_cases hm : m = 0 <;> simp [demoHolders, hm]))

theorem demo_disc : ∀ k e x w, demo[k]? = some e → e.op = .acc x w →
    demoHolders k ((fun _ => 0) x) = some e.tid := by
  intro k e x w hk hop
  have hlen : k < 6 := by
    have := (List.getElem?_eq_some_iff.mp hk).1; simpa [demo] using this
  have : k = 0 ∨ k = 1 ∨ k = 2 ∨ k = 3 ∨ k = 4 ∨ k = 5 := by omega
  rcases this with rfl | rfl | rfl | rfl | rfl | rfl <;>
    (simp [demo] at hk; subst hk; simp at hop <;> simp [demoHolders])

end Rare.Lockset.HB
