import Rare.Proofs.C15Live
/-!
C15 – when do the lines waiting in `batch` surface?  (`syncReaderToBatcherWithTimeFlush` has no timer
goroutine: `time.Since(lastBatchFlush) >= autoFlush` is evaluated only right after a line was appended.)

* `iterN_timer_congr` / `live_timer_congr`: the state of the loop after `k` lines depends on the timer
  oracle only at the indices of lines that have arrived – the passage of time alone is not a transition.
* `live_flushed`: if the timer had expired when the last complete line arrived, nothing is waiting.
-/
namespace Rare.C15.Tail
open Rare.C04 Rare.C15.Batch

theorem iterN_succ_right (source : String) (batchSize fuel : Nat) (timer : Nat → Bool) (k : Nat) (s : TSt) :
    iterN source batchSize fuel timer (k + 1) s =
      iter source batchSize fuel timer (iterN source batchSize fuel timer k s) := by
  rw [iterN_add]; rfl

/-- one trip consults the timer at index `s.lines` only -/
theorem iter_timer_congr (source : String) (batchSize fuel : Nat) (t1 t2 : Nat → Bool) (s : TSt)
    (h : t1 s.lines = t2 s.lines) : iter source batchSize fuel t1 s = iter source batchSize fuel t2 s := by
  unfold iter
  rw [h]

theorem iter_lines (source : String) (batchSize fuel : Nat) (timer : Nat → Bool) (s : TSt) :
    s.lines ≤ (iter source batchSize fuel timer s).lines ∧ (iter source batchSize fuel timer s).lines ≤ s.lines + 1 := by
  unfold iter
  split
  · generalize s.imm.scan fuel = r
    obtain ⟨res, imm'⟩ := r
    cases res <;> simp
  · omega

/-- `k` trips consult the timer at indices `s.lines … s.lines + k - 1` only. -/
theorem iterN_timer_congr (source : String) (batchSize fuel : Nat) (t1 t2 : Nat → Bool) (k : Nat) :
    ∀ (s : TSt), (∀ j, s.lines ≤ j → j < s.lines + k → t1 j = t2 j) →
      iterN source batchSize fuel t1 k s = iterN source batchSize fuel t2 k s := by
  induction k with
  | zero => intro s _; rfl
  | succ k ih =>
    intro s h
    simp only [iterN]
    rw [iter_timer_congr source batchSize fuel t1 t2 s (h _ (Nat.le_refl _) (by omega))]
    apply ih
    intro j h1 h2
    have := iter_lines source batchSize fuel t2 s
    exact h j (by omega) (by omega)

/-- The state of the batcher goroutine blocked in `Read` after `data` depends on the timer only at the
    lines that have arrived. -/
theorem live_timer_congr (source : String) (bufSize batchSize : Nat) (t1 t2 : Nat → Bool) (data : Bytes)
    (script : List Step) (h : ∀ j, j < completeLines data → t1 j = t2 j) :
    live source bufSize batchSize t1 data script = live source bufSize batchSize t2 data script := by
  unfold live tailAfter
  apply iterN_timer_congr
  intro j _ h2
  exact h j (by simpa [TSt.init] using h2)

/-- a timer-forced (or full) flush leaves nothing in `batch` -/
theorem step_flushed {α : Type} (src : String) (n : Nat) (s : St α) (x : α) :
    (step src n s (x, true)).cur.len = 0 := by
  unfold step
  simp [St.flush]

theorem pending_nil_of_len {s : TSt} (h : s.b.cur.len = 0) : s.pending = [] := by
  simp [TSt.pending, TSt.readBatch, readSlice, h]

/-- **Flush on the next line.**  If the flush timer had expired when the last complete line of `data`
    arrived, no line is waiting in `batch` (the flush that line triggered took all of them). -/
theorem live_flushed (source : String) (bufSize batchSize : Nat) (timer : Nat → Bool) (data : Bytes)
    (script : List Step) (hb : 1 ≤ bufSize) (hs : ∀ st ∈ script, st.err = none)
    (hn : 0 < completeLines data) (ht : timer (completeLines data - 1) = true) :
    (live source bufSize batchSize timer data script).pending = [] := by
  obtain ⟨m, hm⟩ : ∃ m, completeLines data = m + 1 := ⟨completeLines data - 1, by omega⟩
  have hl := live_iterN (source := source) batchSize (budget data script) timer m
    (live_init bufSize batchSize data script hb hs) (by simp [completeLines] at hm ⊢; omega)
  simp only [Nat.zero_add] at hl
  have hrun := (live_spec source bufSize batchSize timer data script hb hs).1
  have hj : J source (tailAfter source bufSize batchSize timer data script m) :=
    j_after source bufSize batchSize timer data script hb m
  have hlive : live source bufSize batchSize timer data script =
      iter source batchSize (budget data script) timer (tailAfter source bufSize batchSize timer data script m) := by
    unfold live tailAfter
    rw [hm, iterN_succ_right]
  rw [hlive] at hrun ⊢
  change Live data (budget data script) (tailAfter source bufSize batchSize timer data script m) m at hl
  have hlines : (tailAfter source bufSize batchSize timer data script m).lines = m := by
    rw [hj.lines, hl.ntoks]
  have htm : timer m = true := by
    have : completeLines data - 1 = m := by omega
    rw [this] at ht; exact ht
  generalize tailAfter source bufSize batchSize timer data script m = p at hrun hl hlines ⊢
  apply pending_nil_of_len
  unfold iter at hrun ⊢
  rw [hl.run] at hrun ⊢
  simp only at hrun ⊢
  generalize p.imm.scan (budget data script) = r at hrun ⊢
  obtain ⟨res, imm'⟩ := r
  cases res with
  | tok v bytes =>
    simp only [advance_b]
    rw [hlines, htm]
    exact step_flushed _ _ _ _
  | done => simp at hrun
  | fuel => simp at hrun

end Rare.C15.Tail
