import Rare.Proofs.C04
/-!
Round 4b: the slices handed out by the immediate scanner are ordered and pairwise disjoint
(a later slice lies in a later array, or in the same array at or after the end of the earlier one).
Purely positional: no invariant is needed, so the statements hold from every state.
-/
namespace Rare.C04

/-- state `t` is at or beyond the read position of `s` -/
def After (s t : Imm) : Prop := s.arr < t.arr ∨ (s.arr = t.arr ∧ s.offset ≤ t.offset)

/-- view `v` starts at or beyond the read position of `s` -/
def AfterV (s : Imm) (v : View) : Prop := s.arr < v.arr ∨ (s.arr = v.arr ∧ s.offset ≤ v.start)

/-- `a` lies entirely before `b` -/
def Before (a b : View) : Prop := a.arr < b.arr ∨ (a.arr = b.arr ∧ a.stop ≤ b.start)

theorem After.refl (s : Imm) : After s s := Or.inr ⟨rfl, Nat.le_refl _⟩

theorem After.trans {s t u : Imm} (h1 : After s t) (h2 : After t u) : After s u := by
  unfold After at *; omega

theorem After.view {s t : Imm} {v : View} (h1 : After s t) (h2 : AfterV t v) : AfterV s v := by
  unfold After AfterV at *; omega

def PosPost (s : Imm) : Res → Imm → Prop
  | .tok v _, s' => v.arr = s'.arr ∧ v.stop ≤ s'.offset ∧ AfterV s v ∧ After s s' ∧ v.start ≤ v.stop
  | .done, s' => After s s'
  | .fuel, s' => After s s'

theorem PosPost.mono {s t : Imm} (h : After s t) : ∀ {r : Res} {s' : Imm}, PosPost t r s' → PosPost s r s'
  | .tok _ _, _, ⟨a, b, c, d, e⟩ => ⟨a, b, h.view c, h.trans d, e⟩
  | .done, _, d => h.trans d
  | .fuel, _, d => h.trans d

theorem dropCR_length_le (a : Bytes) : (dropCR a).length ≤ a.length := by
  unfold dropCR; split <;> simp

theorem emitAt_pos (t : Imm) (k : Nat) : PosPost t (t.emitAt k).1 (t.emitAt k).2 := by
  have h1 := dropCR_length_le ((t.buf.drop t.offset).take k)
  have h2 : ((t.buf.drop t.offset).take k).length ≤ k := by simp [List.length_take]; omega
  refine ⟨rfl, ?_, Or.inr ⟨rfl, Nat.le_refl _⟩, Or.inr ⟨rfl, ?_⟩, ?_⟩
  · show t.offset + (dropCR ((t.buf.drop t.offset).take k)).length ≤ t.offset + k + 1
    omega
  · show t.offset ≤ t.offset + k + 1
    omega
  · show t.offset ≤ t.offset + (dropCR ((t.buf.drop t.offset).take k)).length
    omega

theorem emitTail_pos (t : Imm) (h : t.offset ≤ t.buf.length) : PosPost t t.emitTail.1 t.emitTail.2 :=
  ⟨rfl, Nat.le_refl _, Or.inr ⟨rfl, Nat.le_refl _⟩, Or.inr ⟨rfl, h⟩, h⟩

theorem topEof_pos (t : Imm) : PosPost t t.topEof.1 t.topEof.2 := by
  unfold Imm.topEof
  split
  · rename_i hlt
    split
    · exact emitAt_pos t _
    · exact emitTail_pos t (Nat.le_of_lt hlt)
  · exact After.refl t

theorem grown_after (s : Imm) : After s s.grown := by
  unfold Imm.grown
  split
  · exact Or.inl (by simp [Imm.arr, Imm.regrow])
  · exact After.refl s

theorem readLoop_pos (f : Nat) : ∀ (s : Imm), PosPost s (s.readLoop f).1 (s.readLoop f).2 := by
  induction f with
  | zero => intro s; exact After.refl s
  | succ f ih =>
    intro s
    simp only [Imm.readLoop]
    generalize s.grown.rd.read (s.grown.cap - s.grown.buf.length) = r
    have ha : After s (s.grown.recv r.1 r.2.2) := (grown_after s).trans (Or.inr ⟨rfl, Nat.le_refl _⟩)
    split
    · rename_i e _
      have hf : After s ((s.grown.recv r.1 r.2.2).fail e) := ha.trans (Or.inr ⟨rfl, Nat.le_refl _⟩)
      exact PosPost.mono hf (topEof_pos _)
    · split
      · exact PosPost.mono ha (emitAt_pos _ _)
      · exact PosPost.mono ha (ih _)

theorem scan_pos (f : Nat) (s : Imm) : PosPost s (s.scan f).1 (s.scan f).2 := by
  unfold Imm.scan
  split
  · rename_i r ht
    unfold Imm.top at ht
    split at ht
    · rename_i hlt
      split at ht
      · simp at ht; rw [← ht]; exact emitAt_pos s _
      · split at ht
        · simp at ht; rw [← ht]; exact emitTail_pos s (Nat.le_of_lt hlt)
        · simp at ht
    · split at ht
      · simp at ht; rw [← ht]; exact After.refl s
      · simp at ht
  · exact readLoop_pos f s

theorem scanAll_sorted (f : Nat) : ∀ (n : Nat) (s : Imm),
    (∀ vb ∈ (s.scanAll f n).1, AfterV s vb.1 ∧ vb.1.start ≤ vb.1.stop) ∧
    List.Pairwise (fun a b : View × Bytes => Before a.1 b.1) (s.scanAll f n).1 := by
  intro n
  induction n with
  | zero => intro s; simp [Imm.scanAll]
  | succ n ih =>
    intro s
    have hp := scan_pos f s
    simp only [Imm.scanAll]
    generalize s.scan f = r at hp
    obtain ⟨res, s'⟩ := r
    cases res with
    | tok v b =>
      simp only [PosPost] at hp
      obtain ⟨h1, h2, h3, h4, h5⟩ := hp
      obtain ⟨ia, ib⟩ := ih s'
      simp only
      refine ⟨?_, ?_⟩
      · intro vb hvb
        simp only [List.mem_cons] at hvb
        rcases hvb with rfl | hm
        · exact ⟨h3, h5⟩
        · exact ⟨h4.view (ia vb hm).1, (ia vb hm).2⟩
      · refine List.Pairwise.cons ?_ ib
        intro w hw
        have := (ia w hw).1
        unfold AfterV at this
        unfold Before
        simp only
        omega
    | done => simp
    | fuel => simp

end Rare.C04
