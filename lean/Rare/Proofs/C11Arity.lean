import Rare.Proofs.C11
import Rare.Model.Expr.Funcs.Float
import Rare.Model.Expr.Funcs.Format
import Rare.Model.C11Table
/-!
C11 round 4c: the argument-count guard of every C11 helper builder, for argument lists of EVERY length.

`argRejected r` – the builder answered with the `<ARGN>` literal stage and the `argcount` compile error (exactly what
`stageErrArgCount` / `stageErrArgRange` return).  For each builder: rejected IFF the number of arguments is outside
`[lo, hi]` (so a builder never panics on, and never mis-reads, a wrong number of arguments, and inside the interval
the answer is never the argument-count error).
-/
set_option linter.unusedSimpArgs false
namespace Rare.C11
open Rare Rare.Expr Rare.Expr.Funcs

/-- the builder rejected the argument COUNT: stage = the literal `<ARGN>`, compile error `argcount`. -/
def argRejected : Except String Built → Bool
  | .ok ⟨some (.ret v), some t⟩ => v == ErrorArgCount && t == "argcount"
  | _ => false

/-- `lo ≤ n ≤ hi` (`hi = none`: no upper limit). -/
def inArity (lo : Nat) (hi : Option Nat) (n : Nat) : Bool :=
  decide (lo ≤ n) && (match hi with | some h => decide (n ≤ h) | none => true)

theorem argRejected_errArgCount : argRejected errArgCount = true := by decide +kernel
theorem argRejected_errNum : argRejected errNum = false := by decide +kernel
theorem argRejected_errConst : argRejected errConst = false := by decide +kernel
theorem argRejected_errValue : argRejected errValue = false := by decide +kernel
theorem argRejected_errFile : argRejected errFile = false := by decide +kernel
theorem argRejected_ok (s : Stage) : argRejected (ok s) = false := by
  unfold ok; cases s <;> rfl
theorem argRejected_error (m : String) : argRejected (.error m) = false := rfl

/-- A rejected call yields the `<ARGN>` marker in every context. -/
theorem argRejected_call (b : Builder) (as : List Arg) (c : Ctx) (h : argRejected (b (as.map Arg.stage)) = true) :
    callHelper b as c = .ok ErrorArgCount := by
  unfold callHelper
  cases hb : b (as.map Arg.stage) with
  | error m => rw [hb] at h; cases h
  | ok built =>
    rw [hb] at h
    obtain ⟨st, er⟩ := built
    cases st with
    | none => cases h
    | some st =>
      cases st with
      | ret v =>
        cases er with
        | none => cases h
        | some t =>
          simp only [argRejected, Bool.and_eq_true, beq_iff_eq] at h
          simp [Comp.run, h.1]
      | getMatch i k => cases h
      | getKey s k => cases h
      | panic m => cases h

macro "arity_leaf" : tactic => `(tactic|
  first
    | rfl
    | (simp [inArity, argRejected_errArgCount, argRejected_ok]; done)
    | ((repeat' split) <;> first
        | rfl
        | (simp_all [inArity, argRejected_errArgCount, argRejected_errNum, argRejected_errConst, argRejected_errValue,
            argRejected_errFile, argRejected_ok, argRejected_error]; done)
        | (exfalso; omega)))

/-! ### exactly one argument -/

theorem arity_isint (as : List Stage) : argRejected (Arith.kfIsInt as) = !inArity 1 (some 1) as.length := by
  rcases as with _ | ⟨a, _ | ⟨b, r⟩⟩ <;> simp only [Arith.kfIsInt] <;> arity_leaf

theorem arity_expbucket (as : List Stage) : argRejected (Arith.kfExpBucket as) = !inArity 1 (some 1) as.length := by
  rcases as with _ | ⟨a, _ | ⟨b, r⟩⟩ <;> simp only [Arith.kfExpBucket] <;> arity_leaf

theorem arity_unaryF (f : F64 → Bytes) (as : List Stage) :
    argRejected (Float.unaryF f as) = !inArity 1 (some 1) as.length := by
  rcases as with _ | ⟨a, _ | ⟨b, r⟩⟩ <;> simp only [Float.unaryF] <;> arity_leaf

theorem arity_isnum (as : List Stage) : argRejected (Float.kfIsNum as) = !inArity 1 (some 1) as.length := by
  rcases as with _ | ⟨a, _ | ⟨b, r⟩⟩ <;> simp only [Float.kfIsNum] <;> arity_leaf

theorem arity_not (as : List Stage) : argRejected (Logic.kfNot as) = !inArity 1 (some 1) as.length := by
  rcases as with _ | ⟨a, _ | ⟨b, r⟩⟩ <;> simp only [Logic.kfNot] <;> arity_leaf

theorem arity_len (as : List Stage) : argRejected (Strings.kfLen as) = !inArity 1 (some 1) as.length := by
  rcases as with _ | ⟨a, _ | ⟨b, r⟩⟩ <;> simp only [Strings.kfLen] <;> arity_leaf

theorem arity_case (f : Bytes → Bytes) (as : List Stage) :
    argRejected (Case.caseHelperU f as) = !inArity 1 (some 1) as.length := by
  rcases as with _ | ⟨a, _ | ⟨b, r⟩⟩ <;> simp only [Case.caseHelperU] <;> arity_leaf

theorem arity_caseAscii (f : UInt8 → UInt8) (as : List Stage) :
    argRejected (Strings.caseHelper f as) = !inArity 1 (some 1) as.length := by
  rcases as with _ | ⟨a, _ | ⟨b, r⟩⟩ <;> simp only [Strings.caseHelper] <;> arity_leaf

theorem arity_hi (as : List Stage) : argRejected (Strings.kfHumanizeInt as) = !inArity 1 (some 1) as.length := by
  rcases as with _ | ⟨a, _ | ⟨b, r⟩⟩ <;> simp only [Strings.kfHumanizeInt] <;> arity_leaf

theorem arity_path (f : Bytes → Bytes) (as : List Stage) :
    argRejected (Misc.pathHelper f as) = !inArity 1 (some 1) as.length := by
  rcases as with _ | ⟨a, _ | ⟨b, r⟩⟩ <;> simp only [Misc.pathHelper] <;> arity_leaf

/-! ### exactly two / exactly three -/

theorem arity_bucket (render : Int → Int → Bytes) (as : List Stage) :
    argRejected (Arith.bucketBuilder render as) = !inArity 2 (some 2) as.length := by
  rcases as with _ | ⟨a, _ | ⟨b, _ | ⟨c, r⟩⟩⟩ <;> simp only [Arith.bucketBuilder] <;> arity_leaf

theorem arity_cmp (test : F64 → F64 → Bool) (as : List Stage) :
    argRejected (Float.cmpHelper test as) = !inArity 2 (some 2) as.length := by
  rcases as with _ | ⟨a, _ | ⟨b, _ | ⟨c, r⟩⟩⟩ <;> simp only [Float.cmpHelper] <;> arity_leaf

theorem arity_unless (as : List Stage) : argRejected (Logic.kfUnless as) = !inArity 2 (some 2) as.length := by
  rcases as with _ | ⟨a, _ | ⟨b, _ | ⟨c, r⟩⟩⟩ <;> simp only [Logic.kfUnless] <;> arity_leaf

theorem arity_test (test : Bytes → Bytes → Bool) (as : List Stage) :
    argRejected (Strings.testHelper test as) = !inArity 2 (some 2) as.length := by
  rcases as with _ | ⟨a, _ | ⟨b, _ | ⟨c, r⟩⟩⟩ <;> simp only [Strings.testHelper] <;> arity_leaf

theorem arity_select (as : List Stage) : argRejected (Strings.kfSelect as) = !inArity 2 (some 2) as.length := by
  rcases as with _ | ⟨a, _ | ⟨b, _ | ⟨c, r⟩⟩⟩ <;> simp only [Strings.kfSelect] <;> arity_leaf

theorem arity_repeat (as : List Stage) : argRejected (Misc.kfRepeat as) = !inArity 2 (some 2) as.length := by
  rcases as with _ | ⟨a, _ | ⟨b, _ | ⟨c, r⟩⟩⟩ <;> simp only [Misc.kfRepeat] <;> arity_leaf

theorem arity_clamp (as : List Stage) : argRejected (Arith.kfClamp as) = !inArity 3 (some 3) as.length := by
  rcases as with _ | ⟨a, _ | ⟨b, _ | ⟨c, _ | ⟨d, r⟩⟩⟩⟩ <;> simp only [Arith.kfClamp] <;> arity_leaf

theorem arity_substr (as : List Stage) : argRejected (Strings.kfSubstr as) = !inArity 3 (some 3) as.length := by
  rcases as with _ | ⟨a, _ | ⟨b, _ | ⟨c, _ | ⟨d, r⟩⟩⟩⟩ <;> simp only [Strings.kfSubstr] <;> arity_leaf

/-! ### intervals -/

theorem arity_if (as : List Stage) : argRejected (Logic.kfIf as) = !inArity 2 (some 3) as.length := by
  rcases as with _ | ⟨a, _ | ⟨b, _ | ⟨c, _ | ⟨d, r⟩⟩⟩⟩ <;> simp only [Logic.kfIf] <;> arity_leaf

theorem arity_round (as : List Stage) : argRejected (Float.kfRound as) = !inArity 1 (some 2) as.length := by
  rcases as with _ | ⟨a, _ | ⟨b, _ | ⟨c, r⟩⟩⟩ <;> simp [Float.kfRound] <;> arity_leaf

theorem arity_unit (u : Bool) (step : Int) (delim : Bytes) (units : List String) (as : List Stage) :
    argRejected (Float.unitHelper u step delim units as) = !inArity 1 (some 2) as.length := by
  rcases as with _ | ⟨a, _ | ⟨b, _ | ⟨c, r⟩⟩⟩ <;> simp [Float.unitHelper] <;> arity_leaf

theorem arity_lookup (render : Option Bytes → Bytes) (as : List Stage) :
    argRejected (Misc.lookupBuilder render as) = !inArity 2 (some 3) as.length := by
  rcases as with _ | ⟨a, _ | ⟨b, _ | ⟨c, _ | ⟨d, r⟩⟩⟩⟩ <;> simp [Misc.lookupBuilder] <;> arity_leaf

theorem arity_lookupKey (as : List Stage) : argRejected (Misc.kfLookupKey as) = !inArity 2 (some 3) as.length :=
  arity_lookup _ as
theorem arity_hasKey (as : List Stage) : argRejected (Misc.kfHasKey as) = !inArity 2 (some 3) as.length :=
  arity_lookup _ as
theorem arity_kfBucket (as : List Stage) : argRejected (Arith.kfBucket as) = !inArity 2 (some 2) as.length :=
  arity_bucket _ as
theorem arity_kfBucketRange (as : List Stage) : argRejected (Arith.kfBucketRange as) = !inArity 2 (some 2) as.length :=
  arity_bucket _ as

theorem arity_percent (as : List Stage) : argRejected (Float.kfPercent as) = !inArity 1 (some 4) as.length := by
  rcases as with _ | ⟨a, _ | ⟨b, _ | ⟨c, _ | ⟨d, _ | ⟨e, r⟩⟩⟩⟩⟩ <;> simp [Float.kfPercent] <;> arity_leaf

/-! ### a lower limit only -/

theorem arity_int (op : Arith.IntOp) (as : List Stage) :
    argRejected (Arith.intHelper op as) = !inArity 2 none as.length := by
  rcases as with _ | ⟨a, _ | ⟨b, r⟩⟩ <;> simp [Arith.intHelper] <;> arity_leaf

theorem arity_float (op : F64 → F64 → F64) (as : List Stage) :
    argRejected (Float.floatHelper op as) = !inArity 2 none as.length := by
  rcases as with _ | ⟨a, _ | ⟨b, r⟩⟩ <;> simp [Float.floatHelper] <;> arity_leaf

theorem arity_pow (as : List Stage) : argRejected (Log.kfPow as) = !inArity 2 none as.length := by
  rcases as with _ | ⟨a, _ | ⟨b, r⟩⟩ <;> simp [Log.kfPow] <;> arity_leaf

theorem arity_strcmp (eq : Bytes → Bytes → Bytes) (as : List Stage) :
    argRejected (Logic.stringComparator eq as) = !inArity 2 none as.length := by
  rcases as with _ | ⟨a, _ | ⟨b, r⟩⟩ <;> simp only [Logic.stringComparator] <;> arity_leaf

theorem arity_switch (as : List Stage) : argRejected (Logic.kfSwitch as) = !inArity 2 none as.length := by
  rcases as with _ | ⟨a, _ | ⟨b, r⟩⟩ <;> simp [Logic.kfSwitch] <;> arity_leaf

theorem arity_format (isPrint : Nat → Bool) (as : List Stage) :
    argRejected (Format.kfFormat isPrint as) = !inArity 1 none as.length := by
  rcases as with _ | ⟨a, r⟩ <;> simp only [Format.kfFormat] <;> arity_leaf

/-! ### no guard at all -/

theorem arity_coalesce (as : List Stage) : argRejected (Logic.kfCoalesce as) = !inArity 0 none as.length := by
  simp [Logic.kfCoalesce, inArity, argRejected_ok]

theorem arity_and (as : List Stage) : argRejected (Logic.kfAnd as) = !inArity 0 none as.length := by
  simp [Logic.kfAnd, inArity, argRejected_ok]

theorem arity_or (as : List Stage) : argRejected (Logic.kfOr as) = !inArity 0 none as.length := by
  simp [Logic.kfOr, inArity, argRejected_ok]

theorem arity_join (d : Bytes) (as : List Stage) : argRejected (Strings.kfJoin d as) = !inArity 0 none as.length := by
  rcases as with _ | ⟨a, _ | ⟨b, r⟩⟩ <;> simp [Strings.kfJoin, inArity, argRejected_ok]

theorem arity_csv (as : List Stage) : argRejected (Strings.kfCsv as) = !inArity 0 none as.length := by
  rcases as with _ | ⟨a, r⟩ <;> simp [Strings.kfCsv, inArity, argRejected_ok]

/-! ### the table: every C11 helper name, the builder the driver's registry binds it to, and its interval -/

def c11Builders (isPrint : Nat → Bool) : List (String × Builder × Nat × Option Nat) := [
  ("sumi", Arith.intHelper Arith.opSum, 2, none), ("subi", Arith.intHelper Arith.opSub, 2, none),
  ("multi", Arith.intHelper Arith.opMul, 2, none), ("divi", Arith.intHelper Arith.opDiv, 2, none),
  ("modi", Arith.intHelper Arith.opMod, 2, none), ("maxi", Arith.intHelper Arith.opMax, 2, none),
  ("mini", Arith.intHelper Arith.opMin, 2, none),
  ("isint", Arith.kfIsInt, 1, some 1), ("isnum", Float.kfIsNum, 1, some 1),
  ("bucket", Arith.kfBucket, 2, some 2), ("bucketrange", Arith.kfBucketRange, 2, some 2),
  ("clamp", Arith.kfClamp, 3, some 3), ("expbucket", Arith.kfExpBucket, 1, some 1),
  ("lt", Float.cmpHelper fun a b => F64.lt a b, 2, some 2), ("gt", Float.cmpHelper fun a b => F64.lt b a, 2, some 2),
  ("lte", Float.cmpHelper fun a b => F64.le a b, 2, some 2), ("gte", Float.cmpHelper fun a b => F64.le b a, 2, some 2),
  ("sumf", Float.floatHelper F64.add, 2, none), ("subf", Float.floatHelper F64.sub, 2, none),
  ("multf", Float.floatHelper F64.mul, 2, none), ("divf", Float.floatHelper F64.div, 2, none),
  ("pow", Log.kfPow, 2, none),
  ("ceil", Float.unaryF Float.ceilStr, 1, some 1), ("floor", Float.unaryF Float.floorStr, 1, some 1),
  ("log10", Float.unaryF Log.log10Str, 1, some 1), ("log2", Float.unaryF Log.log2Str, 1, some 1),
  ("ln", Float.unaryF Log.lnStr, 1, some 1), ("sqrt", Float.unaryF Float.sqrtStr, 1, some 1),
  ("round", Float.kfRound, 1, some 2), ("hf", Float.unaryF Float.hfStr, 1, some 1),
  ("percent", Float.kfPercent, 1, some 4),
  ("coalesce", Logic.kfCoalesce, 0, none),
  ("eq", Logic.stringComparator fun a b => if a = b then TruthyVal else FalsyVal, 2, none),
  ("neq", Logic.stringComparator fun a b => if a ≠ b then TruthyVal else FalsyVal, 2, none),
  ("not", Logic.kfNot, 1, some 1), ("and", Logic.kfAnd, 0, none), ("or", Logic.kfOr, 0, none),
  ("if", Logic.kfIf, 2, some 3), ("unless", Logic.kfUnless, 2, some 2), ("switch", Logic.kfSwitch, 2, none),
  ("len", Strings.kfLen, 1, some 1),
  ("like", Strings.testHelper fun v c => Strings.containsB v c, 2, some 2),
  ("prefix", Strings.testHelper fun v c => c.isPrefixOf v, 2, some 2),
  ("suffix", Strings.testHelper fun v c => c.isSuffixOf v, 2, some 2),
  ("upper", Case.caseHelperU Case.goToUpper, 1, some 1), ("lower", Case.caseHelperU Case.goToLower, 1, some 1),
  ("substr", Strings.kfSubstr, 3, some 3), ("select", Strings.kfSelect, 2, some 2),
  ("tab", Strings.kfJoin [9], 0, none), ("$", Strings.kfJoin [0], 0, none), ("@", Strings.kfJoin [0], 0, none),
  ("csv", Strings.kfCsv, 0, none), ("hi", Strings.kfHumanizeInt, 1, some 1),
  ("bytesize", Float.unitHelper true 1024 [32] Strings.iecSizes, 1, some 2),
  ("bytesizesi", Float.unitHelper true 1000 [32] Strings.siSizes, 1, some 2),
  ("downscale", Float.unitHelper false 1000 [] Strings.unitSize, 1, some 2),
  ("lookup", Misc.kfLookupKey, 2, some 3), ("haskey", Misc.kfHasKey, 2, some 3), ("repeat", Misc.kfRepeat, 2, some 2),
  ("basename", Misc.pathHelper Misc.pathBase, 1, some 1), ("dirname", Misc.pathHelper Misc.pathDir, 1, some 1),
  ("extname", Misc.pathHelper Misc.pathExt, 1, some 1),
  ("format", Format.kfFormat isPrint, 1, none)]

macro "arity_pick" : tactic => `(tactic|
  first
    | exact arity_int _ _ | exact arity_float _ _ | exact arity_isint _ | exact arity_isnum _
    | exact arity_bucket _ _ | exact arity_clamp _ | exact arity_expbucket _ | exact arity_cmp _ _
    | exact arity_pow _ | exact arity_unaryF _ _ | exact arity_round _ | exact arity_percent _
    | exact arity_coalesce _ | exact arity_strcmp _ _ | exact arity_not _ | exact arity_and _ | exact arity_or _
    | exact arity_if _ | exact arity_unless _ | exact arity_switch _ | exact arity_len _ | exact arity_test _ _
    | exact arity_case _ _ | exact arity_substr _ | exact arity_select _ | exact arity_join _ _ | exact arity_csv _
    | exact arity_hi _ | exact arity_unit _ _ _ _ _ | exact arity_lookupKey _ | exact arity_hasKey _
    | exact arity_kfBucket _ | exact arity_kfBucketRange _ | exact arity_repeat _
    | exact arity_path _ _ | exact arity_format _ _)

/-- Every C11 helper: its builder rejects an argument list exactly when the number of arguments is outside the
    helper's interval – for argument lists of every length. -/
theorem c11Builders_arity (isPrint : Nat → Bool) :
    ∀ e ∈ c11Builders isPrint, ∀ as : List Stage,
      argRejected (e.2.1 as) = !inArity e.2.2.1 e.2.2.2 as.length := by
  intro e he as
  simp only [c11Builders, List.mem_cons, List.mem_nil_iff, or_false] at he
  repeat (rcases he with rfl | he; · arity_pick)

/-- … and that builder is the one the C11 driver's registry (`c11Table`) binds to the name (`format` is evaluated
    by the driver's `fmt` op and the two-oracle builder of `Funcs/Format.lean`). -/
theorem c11Builders_registered (isPrint : Nat → Bool) :
    ∀ e ∈ c11Builders isPrint, e.1 = "format" ∨ lookupTable c11Table e.1 = some e.2.1 := by
  intro e he
  simp only [c11Builders, List.mem_cons, List.mem_nil_iff, or_false] at he
  repeat (rcases he with rfl | he; · exact Or.inr rfl)
  subst he; exact Or.inl rfl

end Rare.C11
